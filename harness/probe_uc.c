/* probe for uc.c: streams `cp` (all code points, generated here) and `str` (cases on stdin) */
#include "uc.c"
#include "common.h"

int rx_uc_len(char *s);
int rx_uc_dec(char *s);

static void do_cp(unsigned lo, unsigned hi)
{
	unsigned c;
	for (c = lo; c <= hi; c++) {
		char raw[8], out[16];
		int n = ref_enc(c, raw);
		/* exactly sized heap copy so that ASan sees any over-read */
		char *e = malloc(n + 1);
		memcpy(e, raw, n);
		e[n] = '\0';
		uc_cput(out, c);
		printf("cp c=%x enc=", c);
		hx_put(stdout, e, n);
		printf(" len=%d code=%d wid=%d bell=%d comb=%d kind=%d rxlen=%d rxdec=%d put=",
			uc_len(e), uc_code(e), uc_wid(e), !!uc_isbell(e), !!uc_iscomb(e), uc_kind(e),
			rx_uc_len(e), rx_uc_dec(e));
		hx_put(stdout, out, strlen(out));
		printf("\n");
		free(e);
	}
}

static void do_str(char *line)
{
	char *cps = kv_get(line, "cps");
	char *hex = kv_get(line, "hex");
	int len, n, i, b, e;
	char *s = hx_dec(hex, &len);
	char **chrs;
	printf("str cps=%s hex=%s", cps, hex);
	printf(" slen=%d", uc_slen(s));
	chrs = uc_chop(s, &n);
	printf(" chop=");
	for (i = 0; i <= n; i++)
		printf("%s%d", i ? "," : "", (int) (chrs[i] - s));
	printf(" chr=");
	for (i = 0; i < n + 2; i++) {
		char *r = uc_chr(s, i);
		printf("%s%d", i ? "," : "", r >= s && r <= s + len ? (int) (r - s) : -1);
	}
	printf(" off=");
	for (i = 0; i <= n; i++)
		printf("%s%d", i ? "," : "", uc_off(s, chrs[i] - s));
	printf(" next=");
	for (i = 0; i <= n; i++)
		printf("%s%d", i ? "," : "", (int) (uc_next(chrs[i]) - chrs[i]));
	printf(" prev=");
	for (i = 0; i <= n; i++)
		printf("%s%d", i ? "," : "", (int) (chrs[i] - uc_prev(s, chrs[i])));
	printf(" sub=");
	for (b = 0; b < n + 2; b++)
		for (e = 0; e < n + 2; e++)
			if (b <= e && e <= n) {
				char *r = uc_sub(s, b, e);
				if (b || e)
					printf(",");
				hx_put(stdout, r, strlen(r));
				free(r);
			}
	printf("\n");
	free(chrs);
	free(s);
	free(cps);
	free(hex);
}

static void do_shape(void)
{
	static int ctx[] = {0, 0x644, 0x627, 0x621, 0x41, 0x200d, 0x200c, 0x640, 0x64b, 0x6cc};
	int c, i, j;
	for (c = 0x5f0; c <= 0x700; c++)
		for (i = 0; i < LEN(ctx); i++)
			for (j = 0; j < LEN(ctx); j++)
				printf("shape cur=%x prev=%x next=%x out=%x\n", c, ctx[i], ctx[j], uc_cshape(c, ctx[i], ctx[j]));
	for (c = 0x2000; c <= 0x2010; c++)
		for (i = 0; i < LEN(ctx); i++)
			for (j = 0; j < LEN(ctx); j++)
				printf("shape cur=%x prev=%x next=%x out=%x\n", c, ctx[i], ctx[j], uc_cshape(c, ctx[i], ctx[j]));
	for (i = 0; i < LEN(achars); i++)
		printf("shape cur=%x prev=0 next=0 out=%x row=%d\n", achars[i].c, uc_cshape(achars[i].c, 0, 0), i);
}

int main(int argc, char *argv[])
{
	static char line[1 << 16];
	if (argc > 1 && !strcmp(argv[1], "cp")) {
		unsigned lo = argc > 2 ? strtoul(argv[2], NULL, 16) : 1;
		unsigned hi = argc > 3 ? strtoul(argv[3], NULL, 16) : 0x10ffff;
		do_cp(lo, hi);
		return 0;
	}
	if (argc > 1 && !strcmp(argv[1], "shape")) {
		do_shape();
		return 0;
	}
	while (fgets(line, sizeof(line), stdin)) {
		if (!strncmp(line, "str ", 4))
			do_str(line);
	}
	return 0;
}
