/* probe for led.c: stream `led` — what led_render() emits for a line and a column window, with the
 * attribute and erase escapes stripped.  led.c is part of this translation unit (led_render is static). */
#include "led.c"
#include "common.h"

static int my_cols = 80;
int __wrap_term_cols(void) { return my_cols; }

char *ex_read(char *msg) { return NULL; }
void ex_show(char *msg) { }
void ex_print(char *line) { }

/* drop CSI sequences (attributes, erase to end of line) */
static void put_stripped(char *r)
{
	int any = 0;
	while (*r) {
		if (r[0] == 27 && r[1] == '[') {
			r += 2;
			while (*r && !((*r >= '@' && *r <= '~')))
				r++;
			if (*r)
				r++;
			continue;
		}
		printf("%02x", (unsigned char) *r++);
		any = 1;
	}
	if (!any)
		printf("-");
}

static void do_led(char *line)
{
	char *hex = kv_get(line, "line");
	int len;
	char *s = hx_dec(hex, &len);
	int left = kv_int(line, "left", 0);
	char *r;
	my_cols = kv_int(line, "cols", 80);
	xorder = kv_int(line, "order", 1);
	xlim = kv_int(line, "lim", 256);
	xtd = kv_int(line, "td", 0);
	xshape = kv_int(line, "shape", 1);
	xhl = 0;
	printf("led line=%s left=%d cols=%d order=%d lim=%d td=%d shape=%d out=", hex, left, my_cols, xorder, xlim, xtd, xshape);
	r = led_render(s, left, left + my_cols, "");
	put_stripped(r);
	printf("\n");
	free(r);
	free(s);
	free(hex);
}

int main(int argc, char *argv[])
{
	static char line[1 << 18];
	dir_init();
	syn_init();
	while (fgets(line, sizeof(line), stdin)) {
		if (!strncmp(line, "led ", 4))
			do_led(line);
		fflush(stdout);
	}
	return 0;
}
