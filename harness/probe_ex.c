/* probe for ex.c: runs a script of ex input lines through the real ex_command(), exactly as the
 * loop of ex() does in `vi -s -e`, and dumps the editor state after every command.
 * lbuf.c is part of this translation unit so that the dirty flag can be read without bumping it. */
#include "lbuf.c"
#include "ex.c"
#include "common.h"
#include <sys/time.h>
#include <errno.h>
#include <dirent.h>

/* ---------------------------------------------------------------- scripted console */
static char **in_lines; static int in_n, in_pos;
static char outlog[1 << 20]; static int outlen;
static char msglog[1 << 16]; static int msglen;

char *ex_read(char *msg)
{
	if (in_pos >= in_n)
		return NULL;
	return uc_dup(in_lines[in_pos++]);
}

void ex_show(char *msg)
{
	int l = strlen(msg);
	if (msglen + l + 2 < (int) sizeof(msglog)) {
		memcpy(msglog + msglen, msg, l);
		msglen += l;
		msglog[msglen++] = '\n';
	}
}

void ex_print(char *line)
{
	int l = line ? strlen(line) : 0;
	if (line && outlen + l + 2 < (int) sizeof(outlog)) {
		memcpy(outlog + outlen, line, l);
		outlen += l;
		if (!l || line[l - 1] != '\n')
			outlog[outlen++] = '\n';
	}
}

void term_init(void) {}
void term_done(void) {}

/* ---------------------------------------------------------------- virtual mtimes and faults */
#define NVF 64
static char vf_name[NVF][256]; static long vf_mtime[NVF]; static int vf_n;
static long vclock = 1000;

static long *vf_slot(const char *path)
{
	int i;
	for (i = 0; i < vf_n; i++)
		if (!strcmp(vf_name[i], path))
			return &vf_mtime[i];
	if (vf_n < NVF) {
		snprintf(vf_name[vf_n], sizeof(vf_name[0]), "%s", path);
		vf_mtime[vf_n] = 0;
		return &vf_mtime[vf_n++];
	}
	return &vf_mtime[0];
}

/* fault schedule for the next command: list of "call:kind" with call in {open, write, close} numbered
 * in order of occurrence within the command */
static char fault_kind[64]; static int fault_at[64]; static int fault_n, sys_calls;
static int faults_fired;
static int wr_fd = -1; static char wr_path[256];

static int fault_now(int which)	/* which: 'o' open-for-write, 'w' write, 'c' close */
{
	int i, idx = sys_calls++;
	(void) which;
	for (i = 0; i < fault_n; i++)
		if (fault_at[i] == idx)
			return fault_kind[i];
	return 0;
}

int __real_open(const char *path, int flags, ...);
ssize_t __real_write(int fd, const void *buf, size_t n);
int __real_close(int fd);
int __real_stat(const char *path, struct stat *st);

/* generated command lines must not run external programs (:!cmd, :make, :r !cmd, filters): the child
 * that would exec exits instead, so that the editor sees a failed command */
int __wrap_execvp(const char *file, char *const argv[])
{
	verif_shell(argv[0] && argv[1] && argv[2] ? argv[2] : "");
	_exit(127);
}

int __wrap_open(const char *path, int flags, int mode)
{
	if (flags & O_WRONLY) {
		int f = fault_now('o');
		int fd;
		if (f == 'e') {
			faults_fired++;
			errno = EACCES;
			return -1;
		}
		fd = __real_open(path, flags, mode);
		if (fd >= 0) {
			wr_fd = fd;
			snprintf(wr_path, sizeof(wr_path), "%s", path);
			*vf_slot(path) = ++vclock;		/* creation or modification stamps the file */
		}
		return fd;
	}
	return __real_open(path, flags, mode);
}

ssize_t __wrap_write(int fd, const void *buf, size_t n)
{
	if (fd == wr_fd) {
		int f = fault_now('w');
		if (f == 'e') {
			faults_fired++;
			errno = ENOSPC;
			return -1;
		}
		if (f >= '1' && f <= '9' && (size_t) (f - '0') < n) {
			faults_fired++;
			n = f - '0';
		}
		*vf_slot(wr_path) = ++vclock;
	}
	return __real_write(fd, buf, n);
}

int __wrap_close(int fd)
{
	if (fd == wr_fd) {
		int f = fault_now('c');
		wr_fd = -1;
		if (f == 'e') {
			faults_fired++;
			__real_close(fd);
			errno = EIO;
			return -1;
		}
	}
	return __real_close(fd);
}

int __wrap_stat(const char *path, struct stat *st)
{
	int r = __real_stat(path, st);
	if (!r)
		st->st_mtime = *vf_slot(path);
	return r;
}

/* ---------------------------------------------------------------- state dump */
static int dirty_peek(struct lbuf *lb)
{
	int seq = lb->hist_u ? lb->hist[lb->hist_u - 1].seq : lb->useq_last;
	return seq != lb->useq_zero;
}

static void put_file(const char *name)
{
	FILE *f = fopen(name, "rb");
	static char buf[1 << 20];
	int n;
	if (!f) {
		printf("A");
		return;
	}
	n = fread(buf, 1, sizeof(buf), f);
	fclose(f);
	hx_put(stdout, buf, n);
}

extern char *reg_get(int c, int *ln);

static void dump(int rc, char **fnames, int nf)
{
	char *t = lbuf_cp(xb, 0, lbuf_len(xb));
	int i, first = 1;
	printf("%d|%d|%d|%d|%d|", rc, xrow, xoff, xquit, lbuf_len(xb));
	hx_put(stdout, t, strlen(t));
	free(t);
	printf("|");
	hx_put(stdout, outlog, outlen);
	printf("|");
	hx_put(stdout, msglog, msglen);
	printf("|");
	for (i = 0; i < LEN(bufs); i++) {
		if (!bufs[i].lb)
			continue;
		printf("%s%d:%d:", first ? "" : ",", i, bufs[i].id);
		hx_put(stdout, bufs[i].path, strlen(bufs[i].path));
		printf(":%d:%d:%d:%ld:%d.%d:", dirty_peek(bufs[i].lb), bufs[i].row, lbuf_len(bufs[i].lb),
			bufs[i].mtime, bufs[i].lb->hist_u, bufs[i].lb->hist_n);
		{
			char *bt = lbuf_cp(bufs[i].lb, 0, lbuf_len(bufs[i].lb));
			hx_put(stdout, bt, strlen(bt));
			free(bt);
		}
		first = 0;
	}
	printf("|");
	first = 1;
	for (i = 0; i < 128; i++) {
		int ln = 0;
		char *r;
		if (i == ';' || i == '#' || i == '^' || i == '"')
			continue;
		r = reg_get(i, &ln);
		if (r && (i == 0 || isalnum(i) || i == '/' || i == '%' || i == ':')) {
			printf("%s%d=%d=", first ? "" : ",", i, ln);
			hx_put(stdout, r, strlen(r));
			first = 0;
		}
	}
	printf("|");
	for (i = 0; i < nf; i++) {
		printf("%s%s=", i ? "," : "", fnames[i]);
		put_file(fnames[i]);
	}
	printf("|");
	/* marks of the current buffer: a-z, ' */
	for (i = 0; i < 27; i++)
		printf("%s%d", i ? "." : "", ex_lbuf()->mark[i]);
	printf("|");
	hx_put(stdout, xkwd, strlen(xkwd));
	printf(".%d", xkwddir);
	printf("|%d", faults_fired);
}

static int split_c(char *s, int sep, char **out, int max)
{
	int n = 0;
	if (!s || !*s || !strcmp(s, "-"))
		return 0;
	out[n++] = s;
	for (; *s; s++)
		if (*s == sep && n < max) {
			*s = '\0';
			out[n++] = s + 1;
		}
	return n;
}

static void clean_dir(void)
{
	DIR *d = opendir(".");
	struct dirent *e;
	while (d && (e = readdir(d)))
		if (e->d_name[0] != '.')
			unlink(e->d_name);
	if (d)
		closedir(d);
}

static void reset_editor(void)
{
	int i;
	for (i = 0; i < LEN(bufs); i++)
		bufs_free(i);
	bufs_cnt = 0;
	xrow = xoff = xtop = xleft = 0;
	xquit = 0; xvis = 0; xai = 1; xaw = 0; xwa = 0; xic = 1; xled = 0; xtd = 0; xhist = 0;
	xkwd[0] = '\0'; xrep[0] = '\0'; xkwddir = 0; xgdep = 0;
	next = NULL; next_pos = 0; tag_cnt = 0;
	reg_done();
	{
		extern void probe_reg_reset(void);
		probe_reg_reset();
	}
	vf_n = 0;
	vclock = 1000;
}

static void do_ex(char *line)
{
	static char *files[64], *script[1 << 12], *fnames[64], *opens[20];
	char *fs = kv_get(line, "files"), *os = kv_get(line, "open"), *ss = kv_get(line, "script");
	char *opts = kv_get(line, "opts");
	int nf, no, ns, i;
	char *argv_files[20];
	reset_editor();
	clean_dir();
	printf("ex files=%s open=%s script=%s res=", fs ? fs : "-", os ? os : "-", ss ? ss : "-");
	nf = split_c(fs, ',', files, 64);
	for (i = 0; i < nf; i++) {
		char *eq = strchr(files[i], '=');
		int len;
		char *dat;
		FILE *f;
		*eq = '\0';
		fnames[i] = files[i];
		if (!strcmp(eq + 1, "A"))
			continue;
		dat = hx_dec(eq + 1, &len);
		f = fopen(files[i], "wb");
		fwrite(dat, 1, len, f);
		fclose(f);
		free(dat);
		*vf_slot(files[i]) = ++vclock;
	}
	no = split_c(os, ',', opens, 18);
	for (i = 0; i < no; i++)
		argv_files[i] = opens[i];
	argv_files[no] = NULL;
	ns = split_c(ss, ',', script, LEN(script));
	for (i = 0; i < ns; i++)
		script[i] = hx_dec(script[i], NULL);
	in_lines = script; in_n = ns; in_pos = 0;
	outlen = msglen = 0; fault_n = 0; sys_calls = 0; faults_fired = 0;
	if (opts && !strcmp(opts, "vis"))
		xvis = 0;
	ex_init(argv_files);
	dump(0, fnames, nf);
	while (in_pos < in_n && !xquit) {
		char *ln = in_lines[in_pos++];
		int rc;
		outlen = msglen = 0;
		if (!strncmp(ln, "@@", 2)) {		/* harness directive */
			char a[256] = "", b[1 << 12] = "";
			sscanf(ln, "@@%*s %255s %4000s", a, b);
			if (!strncmp(ln, "@@touch", 7))
				*vf_slot(a) = ++vclock;
			if (!strncmp(ln, "@@epoch", 7))		/* an existing file whose time stamp is 0 */
				*vf_slot(a) = 0;
			if (!strncmp(ln, "@@writefile", 11)) {
				int len;
				char *dat = hx_dec(b, &len);
				FILE *f = fopen(a, "wb");
				fwrite(dat, 1, len, f);
				fclose(f);
				free(dat);
				*vf_slot(a) = ++vclock;
			}
			if (!strncmp(ln, "@@rm", 4))
				unlink(a);
			if (!strncmp(ln, "@@fault", 7)) {	/* @@fault idx:kind,idx:kind */
				char *toks[32];
				int k, n = split_c(a, ',', toks, 32);
				fault_n = 0;
				for (k = 0; k < n; k++) {
					fault_at[fault_n] = atoi(toks[k]);
					fault_kind[fault_n++] = strchr(toks[k], ':') ? strchr(toks[k], ':')[1] : 'e';
				}
			}
			printf("/D");
			continue;
		}
		sys_calls = 0;
		rc = ex_command(ln);
		reg_put(':', ln, 1);
		fault_n = 0;
		printf("/");
		dump(rc, fnames, nf);
	}
	printf("\n");
	for (i = 0; i < ns; i++)
		free(script[i]);
	free(fs); free(os); free(ss); free(opts);
}

int main(int argc, char *argv[])
{
	static char line[1 << 22];
	char dir[4096];
	/* scratch directory inside the directory of the binary (the check removes that on exit) */
	snprintf(dir, sizeof(dir), "%s.d-XXXXXX", argv[0]);
	if (!mkdtemp(dir) || chdir(dir))
		return 2;
	verif_shell_init();
	syn_init();
	tag_init();
	while (fgets(line, sizeof(line), stdin)) {
		if (!strncmp(line, "ex ", 3))
			do_ex(line);
		fflush(stdout);
	}
	clean_dir();
	chdir("/");
	rmdir(dir);
	return 0;
}
