/* reg.c with a reset entry point (the register table is static) */
#include "reg.c"
void probe_reg_reset(void)
{
	memset(bufs, 0, sizeof(bufs));
	memset(lnmode, 0, sizeof(lnmode));
}
