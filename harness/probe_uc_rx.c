/* exports the private uc_len/uc_dec copies of regex.c */
#include "regex.c"
int rx_uc_len(char *s) { return uc_len(s); }
int rx_uc_dec(char *s) { return uc_dec(s); }
