/* probe for ren.c / dir.c: stream `ren` */
#include "ren.c"
#include "common.h"

int xorder = 1, xlim = -1, xtd = +1, xshape = 1;
extern char probe_rx_log[];
extern int probe_rx_len;

static void do_ren(char *line)
{
	char *hex = kv_get(line, "line");
	int len, n, i, p;
	char *s = hx_dec(hex, &len);
	int *pos, *ord;
	char **chrs;
	xorder = kv_int(line, "order", 1);
	xlim = kv_int(line, "lim", -1);
	xtd = kv_int(line, "td", 1);
	xshape = kv_int(line, "shape", 1);
	probe_rx_len = 0;
	probe_rx_log[0] = '\0';
	n = uc_slen(s);
	chrs = uc_chop(s, &n);
	printf("ren line=%s order=%d lim=%d td=%d shape=%d n=%d", hex, xorder, xlim, xtd, xshape, n);
	printf(" ctx=%d", dir_context(s));
	ord = malloc((n + 1) * sizeof(ord[0]));
	for (i = 0; i < n; i++)
		ord[i] = i;
	dir_reorder(s, ord);
	printf(" ord=");
	if (!n)
		printf("-");
	for (i = 0; i < n; i++)
		printf("%s%d", i ? "," : "", ord[i]);
	pos = ren_position(s);
	printf(" pos=");
	for (i = 0; i <= n; i++)
		printf("%s%d", i ? "," : "", pos[i]);
	printf(" wid=%d", ren_wid(s));
	printf(" rpos=");
	for (i = 0; i <= n; i++)
		printf("%s%d", i ? "," : "", ren_pos(s, i));
	printf(" roff=");
	for (p = 0; p <= pos[n] + 1; p++)
		printf("%s%d", p ? "," : "", ren_off(s, p));
	printf(" nextr=");
	for (p = 0; p <= pos[n]; p++)
		printf("%s%d", p ? "," : "", ren_next(s, p, +1));
	printf(" nextl=");
	for (p = 0; p <= pos[n]; p++)
		printf("%s%d", p ? "," : "", ren_next(s, p, -1));
	printf(" cursor=");
	for (p = 0; p <= pos[n] + 1; p++)
		printf("%s%d", p ? "," : "", ren_cursor(s, p));
	printf(" noeol=");
	for (i = -1; i <= n + 1; i++)
		printf("%s%d", i > -1 ? "," : "", ren_noeol(s, i));
	printf(" tr=");
	if (!n)
		printf("-");
	for (i = 0; i < n; i++) {
		char *t = ren_translate(chrs[i], s);
		printf("%s", i ? "," : "");
		if (t)
			hx_put(stdout, t, strlen(t));
		else
			printf("0");
	}
	printf(" rx=%s\n", probe_rx_len ? probe_rx_log : "-");
	free(pos);
	free(ord);
	free(chrs);
	free(s);
	free(hex);
}

int main(int argc, char *argv[])
{
	static char line[1 << 18];
	dir_init();
	while (fgets(line, sizeof(line), stdin)) {
		if (!strncmp(line, "ren ", 4))
			do_ren(line);
		fflush(stdout);
	}
	return 0;
}
