/* shared helpers for the probe harnesses */
#ifndef VERIF_COMMON_H
#define VERIF_COMMON_H
#include <stdio.h>
#include <stdlib.h>
#include <string.h>

static int hx_val(int c)
{
	if (c >= '0' && c <= '9') return c - '0';
	if (c >= 'a' && c <= 'f') return c - 'a' + 10;
	if (c >= 'A' && c <= 'F') return c - 'A' + 10;
	return -1;
}

/* decode hex into a freshly malloc'd, exactly sized, NUL terminated buffer (ASan sees overruns) */
static char *hx_dec(const char *h, int *len)
{
	int n = (!h || !strcmp(h, "-")) ? 0 : strlen(h) / 2;
	char *r = malloc(n + 1);
	int i;
	for (i = 0; i < n; i++)
		r[i] = hx_val(h[2 * i]) * 16 + hx_val(h[2 * i + 1]);
	r[n] = '\0';
	if (len)
		*len = n;
	return r;
}

static void hx_put(FILE *f, const char *s, int n)
{
	int i;
	if (n == 0)
		fputc('-', f);
	for (i = 0; i < n; i++)
		fprintf(f, "%02x", (unsigned char) s[i]);
}

/* find value of key in a `k=v k=v` line; returns malloc'd copy or NULL */
static char *kv_get(const char *line, const char *key)
{
	int kl = strlen(key);
	const char *p = line;
	while ((p = strstr(p, key)) != NULL) {
		if ((p == line || p[-1] == ' ') && p[kl] == '=') {
			const char *v = p + kl + 1;
			int n = strcspn(v, " \n");
			char *r = malloc(n + 1);
			memcpy(r, v, n);
			r[n] = '\0';
			return r;
		}
		p += kl;
	}
	return NULL;
}

static int kv_int(const char *line, const char *key, int def)
{
	char *v = kv_get(line, key);
	int r = v ? atoi(v) : def;
	free(v);
	return r;
}

/* reference UTF-8 encoder, independent of the code under test */
static int ref_enc(unsigned c, char *d)
{
	if (c < 0x80) { d[0] = c; return 1; }
	if (c < 0x800) { d[0] = 0xc0 | (c >> 6); d[1] = 0x80 | (c & 0x3f); return 2; }
	if (c < 0x10000) { d[0] = 0xe0 | (c >> 12); d[1] = 0x80 | ((c >> 6) & 0x3f); d[2] = 0x80 | (c & 0x3f); return 3; }
	d[0] = 0xf0 | (c >> 18); d[1] = 0x80 | ((c >> 12) & 0x3f); d[2] = 0x80 | ((c >> 6) & 0x3f); d[3] = 0x80 | (c & 0x3f);
	return 4;
}

/* A closed "shell" for the harnesses: generated command lines never reach a real program.  The child that
 * cmd_make() forked ends up here instead of in execvp(); the handful of commands below is interpreted with raw
 * system calls (the harnesses wrap read/write), everything else exits with status 127 and no output.
 * Drive/Ex.lean `builtinPipe` is the same table on the model's side. */
#include <sys/syscall.h>
#if defined(__has_feature)
#if __has_feature(memory_sanitizer)
#include <sanitizer/msan_interface.h>
#define VERIF_UNPOISON(p, n)	__msan_unpoison((p), (n))
#endif
#endif
#ifndef VERIF_UNPOISON
#define VERIF_UNPOISON(p, n)	((void) 0)
#endif
#include <fcntl.h>
#include <unistd.h>
#include <sys/stat.h>
static dev_t verif_stdin_dev; static ino_t verif_stdin_ino;
static dev_t verif_stdout_dev; static ino_t verif_stdout_ino;
/* remember the harness's own standard input: a command without input from the editor must not read it */
static void verif_shell_init(void)
{
	struct stat st;
	if (!fstat(0, &st)) {
		verif_stdin_dev = st.st_dev;
		verif_stdin_ino = st.st_ino;
	}
	if (!fstat(1, &st)) {
		verif_stdout_dev = st.st_dev;
		verif_stdout_ino = st.st_ino;
	}
}
static void verif_shell(const char *cmd)
{
	static char ibuf[1 << 20];
	char buf[4096];
	long n, w, k, len = 0;
	int upper = !strcmp(cmd, "tr a-z A-Z");
	struct stat st;
	if (!fstat(0, &st) && st.st_dev == verif_stdin_dev && st.st_ino == verif_stdin_ino) {
		int nul = open("/dev/null", O_RDONLY);	/* no input from the editor: the command sees none */
		if (nul >= 0)
			dup2(nul, 0);
	}
	/* output that the editor does not capture (:!cmd) must not reach the harness's protocol stream */
	if (!fstat(1, &st) && st.st_dev == verif_stdout_dev && st.st_ino == verif_stdout_ino) {
		int nul = open("/dev/null", O_WRONLY);
		if (nul >= 0) {
			dup2(nul, 1);
			dup2(nul, 2);
		}
	}
	if (!strcmp(cmd, "true"))
		_exit(0);
	if (!strcmp(cmd, "printf x")) {
		syscall(SYS_write, 1, "x", 1);
		_exit(0);
	}
	if (!strcmp(cmd, "cat") || upper) {
		while ((n = syscall(SYS_read, 0, buf, sizeof(buf))) > 0) {
			VERIF_UNPOISON(buf, n);		/* filled by a raw system call */
			if (upper)
				for (k = 0; k < n; k++)
					if (buf[k] >= 'a' && buf[k] <= 'z')
						buf[k] -= 32;
			for (w = 0; w < n; w += k)
				if ((k = syscall(SYS_write, 1, buf + w, n - w)) <= 0)
					_exit(1);
		}
		_exit(0);
	}
	if (!strcmp(cmd, "sed 1q")) {		/* reads everything, prints the first line */
		while (len < (long) sizeof(ibuf) && (n = syscall(SYS_read, 0, ibuf + len, sizeof(ibuf) - len)) > 0) {
			VERIF_UNPOISON(ibuf + len, n);
			len += n;
		}
		for (k = 0; k < len && ibuf[k] != '\n'; k++)
			;
		if (k < len)
			k++;
		for (w = 0; w < k; w += n)
			if ((n = syscall(SYS_write, 1, ibuf + w, k - w)) <= 0)
				_exit(1);
		_exit(0);
	}
	_exit(127);
}

#endif
