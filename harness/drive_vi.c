/* in-process driver for vi mode: the real vi.c (main renamed) and all other objects are linked in;
 * keys come from the case, the terminal is emulated here, and the editor state is dumped at every
 * command boundary (hook neatvi_verif_boundary in vi.c).  One forked child per case. */
#include <setjmp.h>
#include <sys/wait.h>
#include <poll.h>
void neatvi_verif_boundary(void);
void neatvi_verif_draw(int kind, int a, int b, int c, int d);
#define main vi_main
#define linecount lbuf_linecount	/* both files have a static function of this name */
#include "lbuf.c"
#undef linecount
#include "vi.c"
#undef main
#include "common.h"

/* ---------------------------------------------------------------- keys */
static unsigned char *keys; static int nkeys, kpos;
static jmp_buf done_jmp;
static int in_editor;

int __real_poll(struct pollfd *fds, nfds_t n, int timeout);
ssize_t __real_read(int fd, void *buf, size_t n);
ssize_t __real_write(int fd, const void *buf, size_t n);

int __wrap_poll(struct pollfd *fds, nfds_t n, int timeout)
{
	if (in_editor && n == 1 && fds[0].fd == 0) {
		if (kpos >= nkeys)
			longjmp(done_jmp, 1);
		fds[0].revents = POLLIN;
		return 1;
	}
	return __real_poll(fds, n, timeout);
}

ssize_t __wrap_read(int fd, void *buf, size_t n)
{
	if (in_editor && fd == 0) {
		if (kpos >= nkeys)
			longjmp(done_jmp, 1);
		((unsigned char *) buf)[0] = keys[kpos++];
		return 1;
	}
	return __real_read(fd, buf, n);
}

/* ---------------------------------------------------------------- terminal emulator */
#define TR 64
#define TC 200
struct cell { char s[24]; int cont; };	/* cont: second half of a wide character */
struct emu {
	struct cell g[TR][TC];
	int r, c, top, bot, rows, cols;
	int st;			/* escape parser state */
	char esc[64]; int elen;
	unsigned char u8[8]; int ulen, uneed;
	int bad;		/* unknown sequences seen */
};
static struct emu emuA, emuB, *emu_cur = &emuA;

static void emu_init(struct emu *e, int rows, int cols)
{
	memset(e, 0, sizeof(*e));
	e->rows = rows; e->cols = cols; e->top = 0; e->bot = rows - 1;
}

static void emu_clear_row(struct emu *e, int r, int from)
{
	int c;
	for (c = from; c < e->cols; c++)
		memset(&e->g[r][c], 0, sizeof(e->g[r][c]));
}

static void emu_scroll_up(struct emu *e, int top, int bot, int n)
{
	int r;
	for (; n > 0; n--) {
		for (r = top; r < bot; r++)
			memcpy(e->g[r], e->g[r + 1], sizeof(e->g[r]));
		emu_clear_row(e, bot, 0);
	}
}

static void emu_scroll_down(struct emu *e, int top, int bot, int n)
{
	int r;
	for (; n > 0; n--) {
		for (r = bot; r > top; r--)
			memcpy(e->g[r], e->g[r - 1], sizeof(e->g[r]));
		emu_clear_row(e, top, 0);
	}
}

static void emu_putchar(struct emu *e, char *s, int len)
{
	int w = uc_wid(s);
	if (e->c >= e->cols)
		e->c = e->cols - 1;
	if (w == 0) {		/* combining: attach to the previous cell */
		int c = e->c > 0 ? e->c - 1 : 0;
		while (c > 0 && e->g[e->r][c].cont)
			c--;
		if (strlen(e->g[e->r][c].s) + len < sizeof(e->g[e->r][c].s))
			strncat(e->g[e->r][c].s, s, len);
		return;
	}
	memset(&e->g[e->r][e->c], 0, sizeof(struct cell));
	memcpy(e->g[e->r][e->c].s, s, len);
	if (w == 2 && e->c + 1 < e->cols) {
		memset(&e->g[e->r][e->c + 1], 0, sizeof(struct cell));
		e->g[e->r][e->c + 1].cont = 1;
	}
	e->c += w;
}

static void emu_csi(struct emu *e, char *p, int final)
{
	int a = atoi(p), b = 0;
	char *semi = strchr(p, ';');
	if (semi)
		b = atoi(semi + 1);
	switch (final) {
	case 'H':
		e->r = (a ? a : 1) - 1;
		e->c = (b ? b : 1) - 1;
		if (e->r >= e->rows) e->r = e->rows - 1;
		if (e->c >= e->cols) e->c = e->cols - 1;
		break;
	case 'K':
		emu_clear_row(e, e->r, e->c);
		break;
	case 'L':
		if (e->r >= e->top && e->r <= e->bot)
			emu_scroll_down(e, e->r, e->bot, a ? a : 1);
		break;
	case 'M':
		if (e->r >= e->top && e->r <= e->bot)
			emu_scroll_up(e, e->r, e->bot, a ? a : 1);
		break;
	case 'r':
		if (!p[0]) { e->top = 0; e->bot = e->rows - 1; }
		else { e->top = a - 1; e->bot = b - 1; }
		if (e->top < 0) e->top = 0;
		if (e->bot >= e->rows) e->bot = e->rows - 1;
		break;
	case 'C':
		e->c += a ? a : 1;
		if (e->c >= e->cols) e->c = e->cols - 1;
		break;
	case 'D':
		e->c -= a ? a : 1;
		if (e->c < 0) e->c = 0;
		break;
	case 'm':
	case 'l':
	case 'h':
		break;
	default:
		e->bad++;
	}
}

static void emu_feed(struct emu *e, const unsigned char *buf, int n)
{
	int i;
	for (i = 0; i < n; i++) {
		unsigned char ch = buf[i];
		if (e->st == 1) {		/* after ESC */
			if (ch == '[') { e->st = 2; e->elen = 0; }
			else { e->st = 0; e->bad++; }
			continue;
		}
		if (e->st == 2) {
			if ((ch >= '0' && ch <= '9') || ch == ';' || ch == '?') {
				if (e->elen < (int) sizeof(e->esc) - 1)
					e->esc[e->elen++] = ch;
			} else {
				e->esc[e->elen] = '\0';
				emu_csi(e, e->esc, ch);
				e->st = 0;
			}
			continue;
		}
		if (e->uneed) {
			e->u8[e->ulen++] = ch;
			if (--e->uneed == 0) {
				e->u8[e->ulen] = '\0';
				emu_putchar(e, (char *) e->u8, e->ulen);
				e->ulen = 0;
			}
			continue;
		}
		if (ch == 27) { e->st = 1; continue; }
		if (ch == '\r') { e->c = 0; continue; }
		if (ch == '\n') {
			if (e->r == e->bot)
				emu_scroll_up(e, e->top, e->bot, 1);
			else if (e->r < e->rows - 1)
				e->r++;
			continue;
		}
		if (ch >= 0xc0) {
			e->u8[0] = ch; e->ulen = 1;
			e->uneed = ch >= 0xf0 ? 3 : (ch >= 0xe0 ? 2 : 1);
			continue;
		}
		if (ch < 32 || ch == 127)
			continue;
		{
			char s[2] = {ch, 0};
			emu_putchar(e, s, 1);
		}
	}
}

/* the editor must neither stop its process group (^Z: kill(0, SIGSTOP)) nor run external commands
 * made of generated keys: both are neutralised here */
int __real_kill(pid_t pid, int sig);
int __wrap_kill(pid_t pid, int sig)
{
	if (sig == SIGSTOP || pid == 0)
		return 0;
	return __real_kill(pid, sig);
}
int __wrap_execvp(const char *file, char *const argv[])
{
	verif_shell(argv[0] && argv[1] && argv[2] ? argv[2] : "");
	_exit(127);
}

ssize_t __wrap_write(int fd, const void *buf, size_t n)
{
	if (in_editor && fd == 1) {
		emu_feed(emu_cur, buf, n);
		return n;
	}
	return __real_write(fd, buf, n);
}

static void emu_dump_rows(FILE *f, struct emu *e, int nrows)
{
	int r, c;
	for (r = 0; r < nrows; r++) {
		int last = -1;
		for (c = 0; c < e->cols; c++)
			if (e->g[r][c].s[0] && strcmp(e->g[r][c].s, " "))
				last = c;
		if (r)
			fputc(',', f);
		if (last < 0)
			fputc('-', f);
		for (c = 0; c <= last; c++) {
			if (e->g[r][c].cont)
				continue;
			if (!e->g[r][c].s[0])
				fprintf(f, "20");
			else
				hx_put(f, e->g[r][c].s, strlen(e->g[r][c].s));
			if (c < last)
				fputc('.', f);
		}
	}
}

/* ---------------------------------------------------------------- log of the screen update routines */
#include <stdarg.h>
static char oplog[1 << 16];
static int oplen, in_routine, in_dump, lastrow;

static void op_add(const char *fmt, ...)
{
	va_list ap;
	va_start(ap, fmt);
	if (oplen < (int) sizeof(oplog) - 64)
		oplen += vsnprintf(oplog + oplen, sizeof(oplog) - oplen, fmt, ap);
	va_end(ap);
}

/* entry (A U F) and exit (a u f) of vi_drawagain / vi_drawupdate / vi_drawfix */
void neatvi_verif_draw(int kind, int a, int b, int c, int d)
{
	if (in_dump)
		return;
	if (kind == 'A' || kind == 'U' || kind == 'F') {
		in_routine = 1;
		op_add("%s%c:%d:%d:%d:%d:%d[", oplen ? ";" : "", kind, a, b, c, d, xtop);
	} else {
		in_routine = 0;
		op_add("]");
	}
}

void __real_term_room(int n);
void __wrap_term_room(int n)
{
	if (in_routine && !in_dump)
		op_add("R%d:%d,", lastrow, n);
	__real_term_room(n);
}

void __real_term_pos(int r, int c);
void __wrap_term_pos(int r, int c)
{
	lastrow = r;
	__real_term_pos(r, c);
}

void __real_led_print(char *s, int row, int left, char *syn);
void __wrap_led_print(char *s, int row, int left, char *syn)
{
	if (in_routine && !in_dump)
		op_add("D%d,", row);
	__real_led_print(s, row, left, syn);
}

/* ---------------------------------------------------------------- dumps */
static FILE *dumpf;
static int nbound;
static int opt_screen;

/* the dirty flag without the side effect of lbuf_modified() (which starts a new undo step) */
static int dirty_peek(struct lbuf *lb)
{
	int seq = lb->hist_u ? lb->hist[lb->hist_u - 1].seq : lb->useq_last;
	return seq != lb->useq_zero;
}

static void dump_state(int mark)
{
	char *t = lbuf_cp(xb, 0, lbuf_len(xb));
	int i, first = 1;
	fprintf(dumpf, "%s%c|%d|%d|%d|%d|%d|%d|%d|", nbound++ ? "/" : "", mark, kpos, xrow, xoff, xtop, xleft, lbuf_len(xb), dirty_peek(xb));
	hx_put(dumpf, t, strlen(t));
	free(t);
	fputc('|', dumpf);
	for (i = 0; i < 128; i++) {
		int ln = 0;
		char *r;
		if (i == ';' || i == '#' || i == '^' || i == '"')
			continue;
		r = reg_get(i, &ln);
		if (r && (i == 0 || isalnum(i) || i == '/' || i == '.' || i == ':')) {
			fprintf(dumpf, "%s%d=%d=", first ? "" : ",", i, ln);
			hx_put(dumpf, r, strlen(r));
			first = 0;
		}
	}
	fputc('|', dumpf);
	{	/* marks a-z and ' */
		for (i = 0; i < 27; i++) {
			int mr = -1, mo = -1;
			if (lbuf_jump(xb, i < 26 ? 'a' + i : '\'', &mr, &mo))
				mr = -1, mo = -1;
			fprintf(dumpf, "%s%d:%d", i ? "." : "", mr, mo);
		}
	}
	fputc('|', dumpf);
	hx_put(dumpf, ex_path(), strlen(ex_path()));
	fprintf(dumpf, "|%d,%d|", emuA.r, emuA.c);
	if (opt_screen && mark == 'B') {
		char msg[sizeof(vi_msg)];
		int savedr = emuA.r;
		emu_dump_rows(dumpf, &emuA, xrows);
		fputc('|', dumpf);
		/* what a full repaint draws, on a blank second screen */
		emu_init(&emuB, emuA.rows, emuA.cols);
		emu_cur = &emuB;
		strcpy(msg, vi_msg);
		in_dump = 1;
		term_record();
		vi_drawagain(0, -1);
		term_commit();
		in_dump = 0;
		strcpy(vi_msg, msg);
		emu_cur = &emuA;
		(void) savedr;
		emu_dump_rows(dumpf, &emuB, xrows);
		fprintf(dumpf, "|%d", emuA.bad);
	} else {
		fprintf(dumpf, "-|-|0");
	}
	/* what the screen update routines did since the last boundary */
	fprintf(dumpf, "|%s", oplen ? oplog : "-");
	oplen = 0; oplog[0] = '\0'; in_routine = 0;
	fflush(dumpf);
}

void neatvi_verif_boundary(void)
{
	if (in_editor)
		dump_state('B');
}

static void run_case(char *line)
{
	char *fh = kv_get(line, "file"), *kh = kv_get(line, "keys"), *f2 = kv_get(line, "file2");
	int rows = kv_int(line, "rows", 24), cols = kv_int(line, "cols", 80);
	char rs[16], cs[16];
	int flen, klen;
	char *fdat = hx_dec(fh, &flen);
	char *argv[4] = {"vi", "fa", NULL, NULL};
	FILE *f;
	opt_screen = kv_int(line, "screen", 0);
	keys = (unsigned char *) hx_dec(kh, &klen);
	nkeys = klen; kpos = 0;
	if (strcmp(fh ? fh : "A", "A")) {
		f = fopen("fa", "wb");
		fwrite(fdat, 1, flen, f);
		fclose(f);
	}
	if (f2 && strcmp(f2, "A")) {
		int l2;
		char *d2 = hx_dec(f2, &l2);
		f = fopen("fb", "wb");
		fwrite(d2, 1, l2, f);
		fclose(f);
	}
	sprintf(rs, "%d", rows); sprintf(cs, "%d", cols);
	setenv("LINES", rs, 1); setenv("COLUMNS", cs, 1);
	unsetenv("EXINIT");
	emu_init(&emuA, rows, cols);
	in_editor = 1;
	if (!setjmp(done_jmp)) {
		vi_main(2, argv);
		in_editor = 0;
		fprintf(dumpf, "/Q|%d", kpos);		/* the editor quit and freed its buffers */
	} else {
		in_editor = 0;
		dump_state('E');			/* keys exhausted (possibly inside a command) */
	}
	fprintf(dumpf, "\n");
	fflush(dumpf);
}

int main(int argc, char *argv[])
{
	static char line[1 << 20];
	char dir[4096];
	/* scratch directory inside the directory of the binary (the check removes that on exit) */
	snprintf(dir, sizeof(dir), "%s.d-XXXXXX", argv[0]);
	if (!mkdtemp(dir) || chdir(dir))
		return 2;
	verif_shell_init();
	dumpf = stdout;
	while (fgets(line, sizeof(line), stdin)) {
		pid_t pid;
		int status = 0;
		if (strncmp(line, "vi ", 3))
			continue;
		printf("%.*s res=", (int) strcspn(line, "\n"), line);	/* the parent owns the case prefix */
		fflush(stdout);
		pid = fork();
		if (pid == 0) {
			alarm(20);
			/* the dumps keep the real stdout; whatever the editor prints through stdio
			 * (ex_show / ex_print outside visual mode) goes nowhere */
			dumpf = fdopen(dup(1), "w");
			if (!freopen("/dev/null", "w", stdout))
				_exit(3);
			run_case(line);
			fflush(dumpf);
			_exit(0);
		}
		waitpid(pid, &status, 0);
		if (!WIFEXITED(status) || WEXITSTATUS(status)) {
			/* the child died (sanitizer report, signal, timeout): complete the line so that the
			 * runner can attribute it */
			printf(" CHILD=%s%d\n", WIFSIGNALED(status) ? "sig" : "exit",
				WIFSIGNALED(status) ? WTERMSIG(status) : WEXITSTATUS(status));
			fflush(stdout);
		}
		unlink("fa"); unlink("fb");
	}
	chdir("/");
	rmdir(dir);
	return 0;
}
