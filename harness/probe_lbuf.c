/* probe for lbuf.c: streams `lops` (edit/undo/redo/saved/modified/marks at the API) and
 * `rdwr` (lbuf_rd / lbuf_wr over scripted read chunks and write outcomes) */
#include <unistd.h>
#include <sys/types.h>
static ssize_t probe_read(int fd, void *buf, size_t n);
static ssize_t probe_write(int fd, const void *buf, size_t n);
static int probe_ftruncate(int fd, off_t sz);
#define read probe_read
#define write probe_write
#define ftruncate probe_ftruncate
#include "lbuf.c"
#undef read
#undef write
#undef ftruncate
#include "common.h"

static struct lbuf *cur_lb;
struct lbuf *ex_lbuf(void) { return cur_lb; }

/* scripted I/O */
static char *in_data; static long in_len, in_pos;
static int *rd_chunks, rd_nchunks, rd_idx, rd_err;
static char served[1 << 16]; static int served_len;
static char *out_data; static long out_len, out_pos, out_cap;
static char **wr_sched; static int wr_nsched, wr_idx, wr_calls;
static long trunc_at;

static ssize_t probe_read(int fd, void *buf, size_t n)
{
	long k = in_len - in_pos;
	if (k <= 0)
		return rd_err ? -1 : 0;
	if ((long) n < k)
		k = n;
	if (rd_nchunks > 0) {
		int c = rd_chunks[rd_idx++ % rd_nchunks];
		if (c > 0 && c < k)
			k = c;
	}
	memcpy(buf, in_data + in_pos, k);
	in_pos += k;
	if (served_len < (int) sizeof(served) - 16)
		served_len += sprintf(served + served_len, "%s%ld", served_len ? "," : "", k);
	return k;
}

static ssize_t probe_write(int fd, const void *buf, size_t n)
{
	long k = n;
	wr_calls++;
	if (wr_idx < wr_nsched) {
		char *o = wr_sched[wr_idx++];
		if (o[0] == 'e')
			return -1;
		if (atol(o) < k)
			k = atol(o);
	}
	if (out_pos + k > out_cap) {
		out_cap = (out_pos + k) * 2 + 64;
		out_data = realloc(out_data, out_cap);
	}
	memcpy(out_data + out_pos, buf, k);
	out_pos += k;
	if (out_pos > out_len)
		out_len = out_pos;
	return k;
}

static int probe_ftruncate(int fd, off_t sz)
{
	trunc_at = sz;
	if (sz > out_cap) {
		out_cap = sz + 64;
		out_data = realloc(out_data, out_cap);
	}
	if (sz > out_len)
		memset(out_data + out_len, 0, sz - out_len);
	out_len = sz;
	return 0;
}

static int split(char *s, const char *sep, char **out, int max)
{
	int n = 0;
	char *p;
	if (!s || !*s || !strcmp(s, "-"))
		return 0;
	for (p = strtok(s, sep); p && n < max; p = strtok(NULL, sep))
		out[n++] = p;
	return n;
}

static void put_state(struct lbuf *lb, int rc)
{
	char *t = lbuf_cp(lb, 0, lbuf_len(lb));
	int i;
	printf("%d:%d:", rc, lbuf_len(lb));
	hx_put(stdout, t, strlen(t));
	printf(":");
	for (i = 0; i < NMARKS; i++)
		printf("%s%d", i ? "." : "", lb->mark[i]);
	printf(":");
	for (i = 0; i < NMARKS; i++)
		printf("%s%d", i ? "." : "", lb->mark[i] >= 0 ? lb->mark_off[i] : 0);
	printf(":%d.%d", lb->hist_u, lb->hist_n);
	free(t);
}

static void do_lops(char *line)
{
	static char *ops[1 << 14];
	char *opss = kv_get(line, "ops");
	char *copy = strdup(opss ? opss : "-");
	int n = split(copy, ";", ops, LEN(ops));
	struct lbuf *lb = lbuf_make();
	int i;
	cur_lb = lb;
	printf("lops ops=%s res=", opss);
	for (i = 0; i < n; i++) {
		char *o = ops[i];
		int rc = 0;
		if (o[0] == 'e') {		/* e:beg:end:hex|N */
			int beg, end;
			char hex[1 << 12];
			char *s = NULL;
			sscanf(o, "e:%d:%d:%4000s", &beg, &end, hex);
			if (strcmp(hex, "N"))
				s = hx_dec(hex, NULL);
			lbuf_edit(lb, s, beg, end);
			free(s);
		} else if (o[0] == 'u') {
			rc = lbuf_undo(lb);
		} else if (o[0] == 'r') {
			rc = lbuf_redo(lb);
		} else if (o[0] == 'b' || o[0] == 'q') {
			rc = lbuf_modified(lb);
		} else if (o[0] == 's') {
			lbuf_saved(lb, o[1] == '1');
		} else if (o[0] == 'm') {	/* m:char:pos:off */
			int c, pos, off;
			sscanf(o, "m:%d:%d:%d", &c, &pos, &off);
			lbuf_mark(lb, c, pos, off);
		} else if (o[0] == 'j') {	/* j:char -> pos */
			int c, pos = -1, off = -1;
			sscanf(o, "j:%d", &c);
			rc = lbuf_jump(lb, c, &pos, &off);
			rc = rc ? -1 : pos * 1000 + off;
		} else if (o[0] == 'g') {	/* g:pos:dep  globset */
			int pos, dep;
			sscanf(o, "g:%d:%d", &pos, &dep);
			if (pos >= 0 && pos < lbuf_len(lb))
				lbuf_globset(lb, pos, dep);
		} else if (o[0] == 'G') {	/* G:pos:dep  globget */
			int pos, dep;
			sscanf(o, "G:%d:%d", &pos, &dep);
			rc = pos >= 0 && pos < lbuf_len(lb) ? lbuf_globget(lb, pos, dep) : -1;
		}
		if (i)
			printf("/");
		put_state(lb, rc);
	}
	printf("\n");
	lbuf_free(lb);
	free(copy);
	free(opss);
}

static void do_rdwr(char *line)
{
	static char *toks[1 << 14];
	static int chunks[1 << 14];
	char *file = kv_get(line, "file");
	char *old = kv_get(line, "old");
	char *chs = kv_get(line, "chunks");
	char *sch = kv_get(line, "sched");
	int beg = kv_int(line, "beg", 0), end = kv_int(line, "end", -1);
	int n, i, rdrc, wrrc, flen, olen;
	char *fdat = hx_dec(file, &flen);
	char *odat = hx_dec(old && strcmp(old, "A") ? old : "-", &olen);
	struct lbuf *lb = lbuf_make();
	char *chcopy = strdup(chs ? chs : "-");
	char *t;
	cur_lb = lb;
	rd_err = kv_int(line, "rderr", 0);
	in_data = fdat; in_len = flen; in_pos = 0;
	n = split(chcopy, ",", toks, LEN(toks));
	for (i = 0; i < n; i++)
		chunks[i] = atoi(toks[i]);
	rd_chunks = chunks; rd_nchunks = n; rd_idx = 0;
	served_len = 0; served[0] = '\0';
	rdrc = lbuf_rd(lb, 0, 0, 0);
	printf("rdwr file=%s chunks=%s sched=%s old=%s beg=%d end=%d rderr=%d", file, chs ? chs : "-", sch ? sch : "-", old ? old : "A", beg, end, rd_err);
	printf(" served=%s rdrc=%d len=%d", served_len ? served : "-", rdrc, lbuf_len(lb));
	t = lbuf_cp(lb, 0, lbuf_len(lb));
	printf(" text=");
	hx_put(stdout, t, strlen(t));
	free(t);
	if (end < 0 || end > lbuf_len(lb))
		end = lbuf_len(lb);
	if (beg > end)
		beg = end;
	out_cap = olen + 64;
	out_data = malloc(out_cap);
	memcpy(out_data, odat, olen);
	out_len = olen; out_pos = 0; trunc_at = -1; wr_calls = 0;
	wr_nsched = split(sch, ",", toks, LEN(toks));
	wr_sched = toks; wr_idx = 0;
	wrrc = lbuf_wr(lb, 1, beg, end);
	printf(" wbeg=%d wend=%d wrrc=%d calls=%d used=%d trunc=%ld out=", beg, end, wrrc, wr_calls, wr_idx, trunc_at);
	hx_put(stdout, out_data, out_len);
	printf("\n");
	lbuf_free(lb);
	free(out_data); free(fdat); free(odat); free(chcopy);
	free(file); free(old); free(chs); free(sch);
}

int main(int argc, char *argv[])
{
	static char line[1 << 23];
	while (fgets(line, sizeof(line), stdin)) {
		if (!strncmp(line, "lops ", 5))
			do_lops(line);
		if (!strncmp(line, "rdwr ", 5))
			do_rdwr(line);
		fflush(stdout);
	}
	return 0;
}
