/* dir.c with rset_find intercepted: every call is logged for the correspondence check */
#include "vi.h"
#include <stdio.h>
#include <string.h>
char probe_rx_log[1 << 20];
int probe_rx_len;
int probe_rset_find(struct rset *re, char *s, int n, int *grps, int flg);
#define rset_find probe_rset_find
#include "dir.c"
#undef rset_find

int probe_rset_find(struct rset *re, char *s, int n, int *grps, int flg)
{
	static char ent[1 << 16];
	int found = rset_find(re, s, n, grps, flg);
	int which = re == dir_rslr ? 0 : (re == dir_rsrl ? 1 : 2);
	int i, l = strlen(s), el;
	char *d = ent;
	if (4 * l + 1024 > (int) sizeof(ent))
		return found;
	d += sprintf(d, ";%d:%d:", which, flg);
	if (!l)
		*d++ = '-';
	for (i = 0; i < l; i++)
		d += sprintf(d, "%02x", (unsigned char) s[i]);
	d += sprintf(d, ":%d:", found);
	if (found < 0 || n == 0)
		*d++ = '-';
	else
		for (i = 0; i < n * 2; i++)
			d += sprintf(d, "%s%d", i ? "," : "", grps[i]);
	*d++ = ';';
	*d = '\0';
	el = d - ent;
	/* log each distinct call once (rset_find is a pure function of its arguments) */
	if (probe_rx_len == 0) {
		probe_rx_log[0] = ';';
		probe_rx_log[1] = '\0';
		probe_rx_len = 1;
	}
	if (strstr(probe_rx_log, ent))
		return found;
	if (probe_rx_len + el >= (int) sizeof(probe_rx_log))
		return found;
	memcpy(probe_rx_log + probe_rx_len, ent + 1, el);	/* includes the NUL */
	probe_rx_len += el - 1;
	return found;
}
