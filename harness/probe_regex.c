/* probe for regex.c / rset.c / rstr.c: streams `rx` (one pattern) and `rset` (pattern set) */
#include "regex.c"
#include "common.h"
#undef MAX
#undef LEN
#include "vi.h"

extern int neatvi_verif_cuts;
/* rstr internals (mirror of struct rstr in rstr.c, only to tell whether the fast path was taken) */
struct rstr_view { struct rset *rs; char *str; int icase, lbeg, lend, wbeg, wend; };

static void put_prog(struct regex *re)
{
	int i;
	for (i = 0; i < re->n; i++) {
		struct rinst *ri = &re->p[i];
		if (i)
			printf(",");
		if (ri->ri == RI_ATOM) {
			printf("a%d:", ri->ra.ra == RA_CHR ? 0 : ri->ra.ra);
			if (ri->ra.s)
				hx_put(stdout, ri->ra.s, strlen(ri->ra.s));
			else
				printf("-");
		} else if (ri->ri == RI_FORK)
			printf("f%d:%d", ri->a1, ri->a2);
		else if (ri->ri == RI_JUMP)
			printf("j%d", ri->a1);
		else if (ri->ri == RI_MARK)
			printf("m%d", ri->mark);
		else if (ri->ri == RI_MATCH)
			printf("q");
		else
			printf("?%d", ri->ri);
	}
	if (!re->n)
		printf("-");
}

/* compile `wrapped` from an exactly sized buffer; print result, allocation and program */
static void do_comp(char *wrapped, int wlen, int icase)
{
	char *w = malloc(wlen + 1);
	char *p;
	regex_t re;
	struct rnode *rn;
	int alloc = -1, rc;
	memcpy(w, wrapped, wlen + 1);
	p = w;
	rn = rnode_parse(&p);
	if (rn) {
		alloc = rnode_count(rn) + 3;
		rnode_free(rn);
	}
	rc = regcomp(&re, w, REG_EXTENDED | (icase ? REG_ICASE : 0));
	printf(" comp=%d alloc=%d", rc, alloc);
	if (!rc) {
		printf(" pn=%d prog=", re->n);
		put_prog(re);
		regfree(&re);
	} else {
		printf(" pn=-1 prog=-");
	}
	free(w);
}

static void put_grps(int *g, int n)
{
	int i;
	if (!n)
		printf("-");
	for (i = 0; i < n * 2; i++)
		printf("%s%d", i ? "," : "", g[i]);
}

static void do_rx(char *line)
{
	char *ph = kv_get(line, "pat"), *lh = kv_get(line, "line");
	int flg = kv_int(line, "flg", 0), n = kv_int(line, "n", 4);
	int plen, llen, i, r;
	char *pat = hx_dec(ph, &plen), *ln = hx_dec(lh, &llen);
	char *wrapped = malloc(plen + 5);
	int *grps = malloc((n * 2 + 2) * sizeof(int));
	struct rset *rs;
	struct rstr *rr;
	sprintf(wrapped, "((%s))", pat);
	printf("rx pat=%s line=%s flg=%d n=%d", ph, lh, flg, n);
	do_comp(wrapped, plen + 4, flg & RE_ICASE);
	rs = rset_make(1, &pat, flg);
	for (i = 0; i < n * 2; i++)
		grps[i] = -7;
	neatvi_verif_cuts = 0;
	if (rs) {
		r = rset_find(rs, ln, n, grps, flg);
		printf(" set=%d grps=", r);
		put_grps(grps, r >= 0 ? n : 0);
		printf(" cuts=%d", neatvi_verif_cuts);
		rset_free(rs);
	} else {
		printf(" set=null grps=- cuts=0");
	}
	for (i = 0; i < n * 2; i++)
		grps[i] = -7;
	neatvi_verif_cuts = 0;
	rr = rstr_make(pat, flg);
	if (rr) {
		int fast = ((struct rstr_view *) rr)->str != NULL;
		r = rstr_find(rr, ln, n, grps, flg);
		printf(" fast=%d rstr=%d rgrps=", fast, r);
		put_grps(grps, r >= 0 ? n : 0);
		rstr_free(rr);
	} else {
		printf(" fast=0 rstr=null rgrps=-");
	}
	printf("\n");
	free(grps); free(wrapped); free(pat); free(ln); free(ph); free(lh);
}

static void do_rset(char *line)
{
	static char *toks[256];
	char *pats[256];
	char *ps = kv_get(line, "pats"), *lh = kv_get(line, "line");
	int flg = kv_int(line, "flg", 0), n = kv_int(line, "n", 4);
	char *copy = strdup(ps);
	int np = 0, i, r, llen;
	char *ln = hx_dec(lh, &llen), *p;
	int *grps = malloc((n * 2 + 2) * sizeof(int));
	struct rset *rs;
	for (p = strtok(copy, ";"); p && np < 250; p = strtok(NULL, ";"))
		toks[np++] = p;
	for (i = 0; i < np; i++)
		pats[i] = strcmp(toks[i], "N") ? hx_dec(toks[i], NULL) : NULL;
	printf("rset pats=%s line=%s flg=%d n=%d", ps, lh, flg, n);
	rs = rset_make(np, pats, flg);
	for (i = 0; i < n * 2; i++)
		grps[i] = -7;
	neatvi_verif_cuts = 0;
	if (rs) {
		r = rset_find(rs, ln, n, grps, flg);
		printf(" set=%d grps=", r);
		put_grps(grps, r >= 0 ? n : 0);
		printf(" cuts=%d", neatvi_verif_cuts);
		rset_free(rs);
	} else {
		printf(" set=null grps=- cuts=0");
	}
	printf("\n");
	for (i = 0; i < np; i++)
		free(pats[i]);
	free(grps); free(copy); free(ps); free(lh); free(ln);
}

int main(int argc, char *argv[])
{
	static char line[1 << 20];
	while (fgets(line, sizeof(line), stdin)) {
		if (!strncmp(line, "rx ", 3))
			do_rx(line);
		if (!strncmp(line, "rset ", 5))
			do_rset(line);
		fflush(stdout);
	}
	return 0;
}
