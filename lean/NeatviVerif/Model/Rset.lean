import NeatviVerif.Model.RegexVM
/-!
# Model of `rset.c` (pattern sets over one combined program) and `rstr.c` (literal fast path)
-/
namespace Neatvi.Rset
open Neatvi Neatvi.Uc Neatvi.Regex

/-- `re_groupcount(s)` -/
def groupCountLoop (s : Bytes) : Nat → Nat → Nat → Bool → Nat → Nat
  | 0, _, n, _, _ => n
  | f + 1, i, n, brk, brk2 =>
    let c := s.getD i 0
    if c == 0 then n else
    let c1 := s.getD (i + 1) 0
    let c2 := s.getD (i + 2) 0
    if !brk then
      let n := if c == 40 then n + 1 else n
      if c == 92 && c1 != 0 then groupCountLoop s f (i + 2) n false brk2
      else if c == 91 && c1 != 0 && c2 != 0 then groupCountLoop s f (i + (if c1 == 94 then 2 else 1) + 1) n true brk2
      else groupCountLoop s f (i + 1) n false brk2
    else
      if brk2 == 0 then
        let brk' := if c == 93 then false else brk
        if c == 91 && (c1 == 58 || c1 == 42 || c1 == 61) then groupCountLoop s f (i + 2) n brk' c1
        else groupCountLoop s f (i + 1) n brk' brk2
      else if c == brk2 && c1 == 93 then groupCountLoop s f (i + 2) n brk 0
      else groupCountLoop s f (i + 1) n brk brk2

def groupCount (s : Bytes) : Nat := groupCountLoop s (s.length + 1) 0 0 false 0

structure RSet where
  prog : Prog
  n : Nat
  grp : List Int          -- n + 1 entries
  setgrpcnt : List Nat
  grpcnt : Nat
deriving Repr

def RE_ICASE : Nat := 1
def RE_NOTBOL : Nat := 2
def RE_NOTEOL : Nat := 4

/-- the combined pattern text `((p0)|(p1)|...)` -/
def combined (pats : List (Option Bytes)) : Bytes :=
  let body := pats.foldl (fun (acc : Bytes) p =>
    match p with
    | none => acc
    | some x => (if acc.length > 1 then acc ++ [124] else acc) ++ [40] ++ x ++ [41]) [40]
  body ++ [41]

/-- `rset_make(n, re, flg)`: `none` = trap, `some none` = NULL -/
def make (pats : List (Option Bytes)) (flg : Nat) : Option (Option RSet) :=
  let (grp, cnts, grpcnt) := pats.foldl (fun (acc : List Int × List Nat × Nat) p =>
    let (g, c, gc) := acc
    match p with
    | none => (g ++ [-1], c ++ [0], gc)
    | some x => let k := groupCount x; (g ++ [(gc : Int)], c ++ [k], gc + 1 + k)) ([], [], 2)
  let rflg := 1 ||| (if flg &&& RE_ICASE != 0 then REG_ICASE else 0)
  match regcomp (combined pats) rflg with
  | none => none
  | some none => some none
  | some (some p) => some (some { prog := p, n := pats.length, grp := grp ++ [(grpcnt : Int)], setgrpcnt := cnts, grpcnt := grpcnt })

/-- `rset_find(rs, s, n, grps, flg)`: (set index or -1, group offsets (2n entries, only written when found), cuts);
    `none` = trap -/
def find (rs : RSet) (s : Bytes) (n : Nat) (flg : Nat) (nd ngrps : Nat) : Option (Int × List Int × Nat) :=
  if rs.grpcnt ≤ 2 then some (-1, [], 0) else
  let rflg := REG_NEWLINE ||| (if flg &&& RE_NOTBOL != 0 then REG_NOTBOL else 0) ||| (if flg &&& RE_NOTEOL != 0 then REG_NOTEOL else 0)
  match regexec rs.prog s rs.grpcnt rflg nd ngrps with
  | (ExecRes.trap, _) => none
  | (ExecRes.nomatch c, _) => some (-1, [], c)
  | (ExecRes.found _ c, subs) =>
    let set : Int := (List.range rs.n).foldl (fun (acc : Int) i =>
      let g := rs.grp.getD i (-1)
      if g ≥ 0 && (subs.getD g.toNat (-1, -1)).1 ≥ 0 then (i : Int) else acc) (-1)
    if set < 0 then some (-1, [], c) else
    let base := (rs.grp.getD set.toNat 0).toNat
    let cnt := rs.setgrpcnt.getD set.toNat 0
    let out := (List.range n).flatMap (fun i =>
      if i < cnt + 1 then let so := subs.getD (base + i) (-1, -1); [so.1, so.2] else [-1, -1])
    some (set, out, c)

/-! ### rstr.c -/
structure RStr where
  rs : Option RSet
  str : Option Bytes
  icase : Bool
  lbeg : Bool
  lend : Bool
  wbeg : Bool
  wend : Bool
deriving Repr

def isStop (c : Nat) : Bool := Gen.rstrStop.contains c

/-- `rstr_simple(rs, re)`: `some (flags, literal)` when the pattern is taken as a literal -/
def simple (re : Bytes) : Option (Bool × Bool × Bool × Bool × Bytes) :=
  let lbeg := re.headD 0 == 94
  let re1 := if lbeg then re.drop 1 else re
  let wbeg := re1.headD 0 == 92 && re1.getD 1 0 == 60
  let re2 := if wbeg then re1.drop 2 else re1
  let lit := re2.takeWhile (fun c => !isStop c)
  let re3 := re2.drop lit.length
  let wend := re3.headD 0 == 92 && re3.getD 1 0 == 62
  let re4 := if wend then re3.drop 2 else re3
  let lend := re4.headD 0 == 36
  let re5 := if lend then re4.drop 1 else re4
  if re5.isEmpty then some (lbeg, wbeg, wend, lend, lit) else none

/-- `rstr_make(re, flg)` -/
def rstrMake (re : Bytes) (flg : Nat) : Option (Option RStr) :=
  let icase := flg &&& RE_ICASE != 0
  match simple re with
  | some (lbeg, wbeg, wend, lend, lit) =>
    some (some { rs := none, str := some lit, icase := icase, lbeg := lbeg, lend := lend, wbeg := wbeg, wend := wend })
  | none =>
    match make [some re] flg with
    | none => none
    | some none => some none
    | some (some r) => some (some { rs := some r, str := none, icase := icase, lbeg := false, lend := false, wbeg := false, wend := false })

/-- `tolower` on a byte in the C locale -/
def lowerB (c : Nat) : Nat := if isUpperB c then c + 32 else c

/-- `match_case(s, r, icase)`: 0 (true here) = `r` matches at `s` -/
def matchCase (s r : Bytes) (icase : Bool) : Bool :=
  match s, r with
  | _, [] => true
  | [], _ :: _ => false
  | a :: s', b :: r' =>
    if (if icase then lowerB a != lowerB b else a != b) then false else matchCase s' r' icase

/-- the candidate loop of `rstr_find` for the literal case; positions `r` in `[beg, end]`;
    `none` = trap (read before the string) -/
def literalLoop (rs : RStr) (lit s : Bytes) : Nat → Int → Int → Option (Option Nat)
  | 0, _, _ => some none
  | f + 1, r, e =>
    if r > e then some none else
    let ri := r.toNat
    let len := lit.length
    -- wbeg: `(r > s && isword(r - 1)) || !isword(r)`
    let skipB := rs.wbeg && ((ri > 0 && isWordB (s.getD (ri - 1) 0)) || !isWordB (s.getD ri 0))
    if skipB then literalLoop rs lit s f (r + 1) e else
    -- wend: `r + len == s || !isword(r + len - 1) || (r[len] && isword(r + len))`
    let skipE := rs.wend && (ri + len = 0 || !isWordB (s.getD (ri + len - 1) 0) || (s.getD (ri + len) 0 != 0 && isWordB (s.getD (ri + len) 0)))
    if skipE then literalLoop rs lit s f (r + 1) e else
    if matchCase (s.drop ri) lit rs.icase then some (some ri) else literalLoop rs lit s f (r + 1) e

/-- `rstr_find(rs, s, n, grps, flg)`: (result 0 / -1 or set index, groups written, cuts) -/
def rstrFind (rs : RStr) (s : Bytes) (n : Nat) (flg : Nat) (nd ngrps : Nat) : Option (Int × List Int × Nat) :=
  match rs.rs with
  | some r => find r s n flg nd ngrps
  | none =>
    let lit := rs.str.getD []
    if rs.lbeg && flg &&& RE_NOTBOL != 0 then some (-1, [], 0) else
    let len := lit.length
    let e : Int := (s.length : Int) - len - 1
    if e < 0 then some (-1, [], 0) else
    let b : Int := if rs.lend then e else 0
    let e : Int := if rs.lbeg then 0 else e
    match literalLoop rs lit s (s.length + 2) b e with
    | none => none
    | some none => some (-1, [], 0)
    | some (some r) => some (0, (if n ≥ 1 then [(r : Int), (r + len : Nat)] else []) ++ List.replicate (2 * (n - 1)) (-1), 0)

end Neatvi.Rset
