import NeatviVerif.Model.Vi
/-!
# Model of the vi.c commands: operators, insert mode (led_input), puts, join, replace, repeat,
macro execution, scrolling, and the command loop `vi()`.
-/
namespace Neatvi.Vi
open Neatvi Neatvi.Uc Neatvi.Lbuf Neatvi.Ex Neatvi.Mot

/-! ### small helpers -/
/-- number of `'\n'` in `s` (`linecount(s) - 1`) -/
def nlCount (s : Bytes) : Nat := (s.filter (· == 10)).length

/-- `uc_chr(s, off) - s`; a negative offset is the end of the string; `none` = the static `""` -/
def chrI (s : Bytes) (off : Int) : Option Nat := if off < 0 then some s.length else ucChr s off.toNat

/-- `uc_sub(s, beg, end)`; `none`: one of the ends lies beyond the string, where the C code compares
pointers into different objects -/
def subI (s : Bytes) (b e : Int) : Option Bytes :=
  match chrI s b, chrI s e with
  | some ib, some ie => some (if ib ≤ ie then (s.drop ib).take (ie - ib) else [])
  | _, _ => none

def liftO {α : Type} (o : Option α) : M α := fun s => match o with | some a => Res.ok a s | none => Res.trap

def lineE (s : VS) (r : Int) : Bytes := (lineOf s r).getD []

/-- `lbuf_edit(xb, s, b, e)` -/
def edEdit (txt : Option Bytes) (b e : Int) : M Unit := fun s =>
  match s.ed.edit txt b e with
  | some ed => Res.ok () { s with ed := ed }
  | none => Res.trap

def setPos (r o : Int) : M Unit := withEd fun ed => { ed with xrow := r, xoff := o }
def setRow (r : Int) : M Unit := withEd fun ed => { ed with xrow := r }
def setOff (o : Int) : M Unit := withEd fun ed => { ed with xoff := o }
def setTop (t : Int) : M Unit := withEd fun ed => { ed with xtop := t }

/-- `lbuf_mark(xb, c, r, o)` -/
def markSet (c : Nat) (r o : Int) : M Unit := withEd fun ed => match ed.lb with
  | some lb => ed.setLb (setMark lb c r o)
  | none => ed

/-- `vi_marksave()` -/
def markSave : M Unit := do
  let s ← get
  markSet 39 s.ed.xrow s.ed.xoff
  markSet 96 s.ed.xrow s.ed.xoff

/-- `reg_put(c, s, ln)` -/
def regPut (c : Nat) (txt : Bytes) (ln : Nat) : M Unit := withEd fun ed => { ed with regs := ed.regs.put c txt ln }

/-- `reg_get(c, &lnmode)`: the line mode is `none` where the C code leaves `*lnmode` unwritten -/
def regGetLn (ed : Ed) (c : Nat) : Option Bytes × Option Nat :=
  let c' := if c == 34 then 0 else c
  if c' == 59 then (regGet ed c, some 1)
  else if c' == 35 || c' == 94 then (regGet ed c, some 0)
  else (regGet ed c, some (ed.regs.getRaw c').2)

/-- `lbuf_region(xb, r1, o1, r2, o2)` -/
def lbufRegion (s : VS) (r1 o1 r2 o2 : Int) : Option Bytes :=
  if r1 == r2 then subI (lineE s r1) o1 o2
  else match subI (lineE s r1) o1 (-1), subI (lineE s r2) 0 o2 with
    | some s1, some s3 => some (s1 ++ s.ed.cp (r1 + 1) r2 ++ s3)
    | _, _ => none

/-- `vi_drawfix(r1, r2, n, preview)`: only its effect on `xtop` -/
def drawfixTop (r1 : Int) (preview : Bool) : M Unit := do
  let s ← get
  if preview && r1 < s.ed.xtop then setTop r1

/-- `vi_nextline()` -/
def viNextline : M Unit := withEd fun ed =>
  if ed.xrow == ed.xtop + 23 - 1 + 0 then { ed with xrow := ed.xrow + 1, xtop := ed.xtop + 1 }
  else { ed with xrow := ed.xrow + 1 }

def viNextlineR : M Unit := do
  let s ← get
  withEd fun ed =>
    if ed.xrow == ed.xtop + s.xrows - 1 then { ed with xrow := ed.xrow + 1, xtop := ed.xtop + 1 }
    else { ed with xrow := ed.xrow + 1 }

def repeatM (n : Nat) (m : M Unit) : M Unit := match n with
  | 0 => pure ()
  | k + 1 => do m; repeatM k m

/-- `led_input(pref, post, ..)`: (the new text, `post` as left in the caller's buffer) -/
def ledInput (pref0 post0 : Bytes) : M (Bytes × Bytes) := do
  let xai := (← get).xai
  let ai0 := (pref0.takeWhile isBlankC).take 127
  let pref1 := pref0.drop ai0.length
  let rec loop : Nat → Bytes → Option Bytes → Bytes → Bytes → M (Bytes × Bytes)
    | 0, sb, _, post, _ => pure (sb ++ post, post)
    | f + 1, sb, pref, post, ai => do
      let prefNonEmpty := match pref with | some p => !p.isEmpty | none => false
      let (ln, key, ai) ← ledLine (pref.getD []) post ai 127 true
      let lnSp := (ln.takeWhile isBlankC).length
      let lncnt := nlCount ln + (if key == 10 then 1 else 0)
      let sb := if lnSp < ln.length || prefNonEmpty || (key != 10 && !post.isEmpty && post.headD 0 != 10)
        then sb ++ ai else sb
      let sb := sb ++ pref.getD [] ++ ln ++ (if key == 10 then [10] else [])
      repeatM lncnt viNextlineR
      let ai := if !prefNonEmpty then ai ++ ln.take (min lnSp (127 - ai.length)) else ai
      let ai := if !xai then [] else ai
      if key != 10 then pure (sb ++ post, post) else
      let n := if xai then (post.takeWhile isBlankC).length else 0
      loop f sb none (post.drop n) ai
  loop 100000 [] (some pref1) post0 ai0

/-- `charcount(text, post)` -/
def charcount (text post : Bytes) : Int :=
  if text.length < post.length then 0 else
  let head := text.take (text.length - post.length)
  -- start after the last newline of `head`
  let idx := (head.reverse.takeWhile (· != 10)).length
  let nl := if idx == head.length then 0 else head.length - idx
  (ucSlen (text.drop nl) : Int) - ucSlen post

/-- `vi_input(pref, post, &row, &off)`: (rep, row, off) -/
def viInput (pref post : Bytes) : M (Bytes × Int × Int) := do
  let (rep, post') ← ledInput pref post
  let row : Int := nlCount rep
  let off := charcount rep post' - 1
  pure (rep, row, if off < 0 then 0 else off)

/-- `vi_indents(ln)` -/
def viIndents (s : VS) (ln : Option Bytes) : Bytes := match ln with
  | some l => if s.xai then l.takeWhile isBlankC else []
  | none => []

/-! ### operators -/
def VC_COL : Nat := 1
def VC_ROW : Nat := 2
def VC_WIN : Nat := 4
def VC_ALT : Nat := 8
def VC_OK : Nat := 16
def VC_ALL : Nat := 12

/-- `vi_yank` -/
def viYank (r1 o1 r2 o2 : Int) (lnmode : Bool) : M Nat := do
  let s ← get
  let region ← liftO (lbufRegion s r1 (if lnmode then 0 else o1) r2 (if lnmode then -1 else o2))
  regPut s.ybuf region (if lnmode then 1 else 0)
  setPos r1 (if lnmode then s.ed.xoff else o1)
  pure VC_COL

/-- `vi_delete` -/
def viDelete (r1 o1 r2 o2 : Int) (lnmode : Bool) : M Nat := do
  let s ← get
  let region ← liftO (lbufRegion s r1 (if lnmode then 0 else o1) r2 (if lnmode then -1 else o2))
  regPut s.ybuf region (if lnmode then 1 else 0)
  if !lnmode then
    let pref ← liftO (subI (lineE s r1) 0 o1)
    let post ← liftO (subI (lineE s r2) o2 (-1))
    edEdit (some (pref ++ post)) r1 (r2 + 1)
  else
    edEdit none r1 (r2 + 1)
  let s' ← get
  let row := if lnmode then min r1 (max 0 (lenOf s' - 1)) else r1
  setPos row (if lnmode then indents (lines s') row else o1)
  pure VC_OK

/-- `vi_change` -/
def viChange (r1 o1 r2 o2 : Int) (lnmode : Bool) : M Nat := do
  let s ← get
  let region ← liftO (lbufRegion s r1 (if lnmode then 0 else o1) r2 (if lnmode then -1 else o2))
  regPut s.ybuf region (if lnmode then 1 else 0)
  let pref ← if lnmode then pure (viIndents s (lineOf s r1)) else liftO (subI (lineE s r1) 0 o1)
  let post ← if lnmode || (lineOf s r2).isNone then pure [10] else liftO (subI (lineE s r2) o2 (-1))
  setRow r1
  drawfixTop r1 true
  let (rep, row, off) ← viInput pref post
  edEdit (some rep) r1 (r2 + 1)
  setPos (r1 + row - 1) off
  pure VC_OK

def lowerB (c : Nat) : Nat := if 65 ≤ c && c ≤ 90 then c + 32 else c
def upperB (c : Nat) : Nat := if 97 ≤ c && c ≤ 122 then c - 32 else c

/-- the case loop of `vi_case`: walks the region by characters and maps the ASCII lead bytes -/
def caseMap (cmd : Nat) : Nat → Bytes → Bytes
  | 0, s => s
  | f + 1, s =>
    match s with
    | [] => []
    | c :: _ =>
      let n := max 1 (ucLen c)
      let c' := if c ≤ 127 then
          (if cmd == 117 then lowerB c else if cmd == 85 then upperB c
           else if cmd == 126 then (if 97 ≤ c && c ≤ 122 then upperB c else lowerB c) else c)
        else c
      (c' :: (s.drop 1).take (n - 1)) ++ caseMap cmd f (s.drop n)

/-- `vi_case` -/
def viCase (r1 o1 r2 o2 : Int) (lnmode : Bool) (cmd : Nat) : M Nat := do
  let s ← get
  let region ← liftO (lbufRegion s r1 (if lnmode then 0 else o1) r2 (if lnmode then -1 else o2))
  let region := caseMap cmd (region.length + 1) region
  if !lnmode then
    let pref ← liftO (subI (lineE s r1) 0 o1)
    let post ← liftO (subI (lineE s r2) o2 (-1))
    edEdit (some (pref ++ region ++ post)) r1 (r2 + 1)
  else
    edEdit (some region) r1 (r2 + 1)
  let s' ← get
  setPos r2 (if lnmode then indents (lines s') r2 else o2)
  pure VC_OK

/-- `vi_shift` -/
def viShift (r1 r2 : Int) (dir : Int) : M Nat := do
  let rec go : Nat → Int → M Unit
    | 0, _ => pure ()
    | f + 1, i => do
      if i > r2 then pure () else
      let s ← get
      match lineOf s i with
      | none => go f (i + 1)
      | some ln =>
        let ln' := if dir > 0 then (if ln.headD 0 != 10 then 9 :: ln else ln)
          else (if isBlankC (ln.headD 0) then ln.drop 1 else ln)
        edEdit (some ln') i (i + 1)
        go f (i + 1)
  go ((r2 - r1).toNat + 1) r1
  let s' ← get
  setPos r1 (indents (lines s') r1)
  pure VC_OK

def strHas (set : String) (c : Int) : Bool := c > 0 && c < 256 && (strOf set).contains c.toNat

/-- `vc_motion(cmd)` -/
def vcMotion (cmd : Nat) : M Nat := do
  let s0 ← get
  let r1 := s0.ed.xrow
  let a2 ← viPrefix
  modify fun s => { s with arg2 := a2 }
  if a2 < 0 then pure 0 else
  let o1 := noeol s0 r1 s0.ed.xoff
  let (mvl, r2l) ← viMotionln r1 cmd
  let res ← (if mvl != 0 then pure (some (mvl, r2l, (-1 : Int))) else do
    let (mv, r2, o2) ← viMotion r1 o1
    if mv == 0 then do
      let _ ← viRead
      pure none
    else pure (some (mv, r2, o2)))
  match res with
  | none => pure 0
  | some (mv, r2, o2) =>
    if mv < 0 then pure 0 else
    let s ← get
    let ls := lines s
    let lnmode := o2 < 0
    let (o1, o2) := if lnmode then ((0 : Int), eol ls r2) else (o1, o2)
    let (r1, r2, o1, o2) := if r1 > r2 then (r2, r1, o2, o1) else (r1, r2, o1, o2)
    let (o1, o2) := if r1 == r2 && o1 > o2 then (o2, o1) else (o1, o2)
    let o1 := noeol s r1 o1
    let incl := strHas "fteE%" mv || (mv == 59 && (s.charcmd == 102 || s.charcmd == 116 || s.charcmd == 0))
      || (mv == 44 && (s.charcmd == 70 || s.charcmd == 84 || s.charcmd == 0))
    let o2 := if !lnmode && incl && o2 < eol ls r2 then noeol s r2 o2 + 1 else o2
    if cmd == 121 then viYank r1 o1 r2 o2 lnmode
    else if cmd == 100 then viDelete r1 o1 r2 o2 lnmode
    else if cmd == 99 then viChange r1 o1 r2 o2 lnmode
    else if cmd == 126 || cmd == 117 || cmd == 85 then viCase r1 o1 r2 o2 lnmode cmd
    else if cmd == 62 || cmd == 60 then viShift r1 r2 (if cmd == 62 then 1 else -1)
    else if cmd == 33 then do
      -- vi_pipe: prompt for a command and filter through it (external process: not modelled)
      let _ ← viPrompt
      unmodelled
      pure VC_WIN
    else pure 0

/-- `vc_insert(cmd)` -/
def vcInsert (cmd : Nat) : M Nat := do
  let s ← get
  let row0 := s.ed.xrow
  let ln := lineOf s row0
  let ls := lines s
  if cmd == 73 then setOff (indents ls row0)
  if cmd == 65 then setOff (eol ls row0)
  let s ← get
  let xoff := match ln with | some l => Ren.renNoeol l s.ed.xoff | none => Ren.renNoeol [] s.ed.xoff
  setOff xoff
  if cmd == 111 then viNextlineR
  let off : Int := if cmd == 105 || cmd == 73 then xoff else if cmd == 97 || cmd == 65 then xoff + 1 else 0
  let off := if (match ln with | some l => l.headD 0 == 10 | none => false) then 0 else off
  let isO := cmd == 111 || cmd == 79
  let pref ← (match ln with
    | some l => if !isO then liftO (subI l 0 off) else pure (viIndents s ln)
    | none => pure [])
  let post ← (match ln with
    | some l => if !isO then liftO (subI l off (-1)) else pure [10]
    | none => pure [10])
  let (rep, row, off') ← viInput pref post
  let s ← get
  if isO && lenOf s == 0 then edEdit (some [10]) 0 0
  let s ← get
  let beg := s.ed.xrow - row + 1
  edEdit (some rep) beg (beg + (if isO then 0 else 1))
  setOff off'
  pure VC_OK

/-- `vc_put(cmd)` -/
def vcPut (cmd : Nat) : M Nat := do
  let s ← get
  let cnt := (max 1 s.arg1).toNat
  let (buf, lnmode) := regGetLn s.ed s.ybuf
  match buf with
  | none => pure 0          -- "yank buffer empty"
  | some buf =>
    if buf.isEmpty then pure 0 else
    match lnmode with
    | none => do unmodelled; pure 0     -- `lnmode` is read uninitialised for "# and "^
    | some lnm =>
      let rep := (List.replicate cnt buf).flatten
      if lnm != 0 then do
        if lenOf s == 0 then edEdit (some [10]) 0 0
        if cmd == 112 then setRow (s.ed.xrow + 1)
        let s ← get
        edEdit (some rep) s.ed.xrow s.ed.xrow
        let s ← get
        setOff (indents (lines s) s.ed.xrow)
        pure VC_OK
      else do
        let ln := if s.ed.xrow < lenOf s then lineE s s.ed.xrow else [10]
        let off := Ren.renNoeol ln s.ed.xoff + (if ln.headD 0 != 10 && cmd == 112 then 1 else 0)
        let a ← liftO (subI ln 0 off)
        let b ← liftO (subI ln off (-1))
        edEdit (some (a ++ rep ++ b)) s.ed.xrow (s.ed.xrow + 1)
        setOff (off + (ucSlen buf : Int) * cnt - 1)
        pure VC_OK

/-- `join_spaces(prev, next)` -/
def joinSpaces (prev next : Bytes) : Nat :=
  if prev.isEmpty then 0
  else if prev.getLast? == some 32 || next.headD 0 == 41 then 0
  else if prev.getLast? == some 46 then 2 else 1

/-- `vc_join()` -/
def vcJoin : M Nat := do
  let s ← get
  let cnt : Int := if s.arg1 ≤ 1 then 2 else s.arg1
  let beg := s.ed.xrow
  let e := beg + cnt
  if (lineOf s beg).isNone || (lineOf s (e - 1)).isNone then pure 0 else
  let rec go : Nat → Int → Bytes → Int → Bytes × Int
    | 0, _, sb, off => (sb, off)
    | f + 1, i, sb, off =>
      if i ≥ e then (sb, off) else
      let ln := lineE s i
      let ln := if i > beg then ln.dropWhile isBlankC else ln
      let sp := if i > beg then joinSpaces sb ln else 0
      let off : Int := ucSlen sb
      go f (i + 1) (sb ++ List.replicate sp 32 ++ ln.takeWhile (· != 10)) off
  let (sb, off) := go (cnt.toNat + 1) beg [] 0
  edEdit (some (sb ++ [10])) beg e
  setOff off
  pure VC_OK

/-- `vc_replace()` -/
def vcReplace : M Nat := do
  let s ← get
  let cnt := (max 1 s.arg1)
  let cs ← viChar
  match lineOf s s.ed.xrow, cs with
  | some ln, some cs =>
    let off := Ren.renNoeol ln s.ed.xoff
    -- enough characters before the newline?
    let avail : Int := (ucSlen (ln.takeWhile (· != 10)) : Int) - off
    if avail < cnt then pure 0 else
    let pref ← liftO (subI ln 0 off)
    let post ← liftO (subI ln (off + cnt) (-1))
    edEdit (some (pref ++ (List.replicate cnt.toNat cs).flatten ++ post)) s.ed.xrow (s.ed.xrow + 1)
    if cs.headD 0 == 10 then setPos (s.ed.xrow + cnt) 0
    else setOff (off + cnt - 1)
    pure VC_OK
  | _, _ => pure 0

/-- `vi_scrollforward(cnt)`: true = failed -/
def scrollForward (cnt : Int) : M Bool := do
  let s ← get
  if s.ed.xtop ≥ lenOf s - 1 then pure true else
  let top := min (lenOf s - 1) (s.ed.xtop + cnt)
  withEd fun ed => { ed with xtop := top, xrow := max ed.xrow top }
  pure false

def scrollBackward (cnt : Int) : M Bool := do
  let s ← get
  if s.ed.xtop == 0 then pure true else
  let top := max 0 (s.ed.xtop - cnt)
  withEd fun ed => { ed with xtop := top, xrow := min ed.xrow (top + s.xrows - 1) }
  pure false

/-- `lbuf_modified(xb)` (bumps the sequence counter) -/
def lbufModified : M Unit := withEd fun ed => match ed.lb with
  | some lb => ed.setLb (Lbuf.modified lb).2
  | none => ed

/-- `vi_wfix()` -/
def viWfix : M Unit := do
  let s ← get
  let n := lenOf s
  let xrow := if s.ed.xrow < 0 || s.ed.xrow ≥ n then (if n != 0 then n - 1 else 0) else s.ed.xrow
  let xrows := s.xrows
  let xtop := s.ed.xtop
  let xtop := if xtop > xrow then (if xtop - xrows / 2 > xrow then max 0 (xrow - xrows / 2) else xrow) else xtop
  let xtop := if xtop + xrows ≤ xrow then (if xtop + xrows + xrows / 2 ≤ xrow then xrow - xrows / 2 else xrow - xrows + 1) else xtop
  withEd fun ed => { ed with xrow := xrow, xtop := xtop }
  let s ← get
  setOff (match lineOf s xrow with | some l => Ren.renNoeol l s.ed.xoff | none => Ren.renNoeol [] s.ed.xoff)

/-- does the ex command line read further input lines (`a`, `i`, `c` without inline text)? -/
def exWantsInput (ln : Bytes) : Bool :=
  let (_, rest) := exLoc (ln.dropWhile (fun c => c == 58 || isSpaceC c))
  let (cmd, _) := exCmd rest
  cmd == strOf "a" || cmd == strOf "i" || cmd == strOf "c" || cmd == strOf "append" || cmd == strOf "insert"
    || cmd == strOf "change" || cmd == strOf "rs" || cmd == strOf "g" || cmd == strOf "v" || cmd == strOf "@"
    || cmd == strOf "!" || cmd == strOf "kmap" || cmd == strOf "km" || cmd == strOf "make" || cmd == strOf "ft" || cmd == strOf "ta" || cmd == strOf "pop"

/-- the option a `:set` line assigns: (variable of ex.c, value); options the `Ed` record does not carry
matter only to the vi layer -/
def setOf (ln : Bytes) : Option (String × Int) :=
  let (_, rest) := exLoc (ln.dropWhile (fun c => c == 58 || isSpaceC c))
  let (cmd, rest) := exCmd rest
  if !(cmd == strOf "se" || cmd == strOf "set") then none else
  let tok := (rest.dropWhile isSpaceC).takeWhile (fun c => !isSpaceC c && c != 124)
  if tok.isEmpty then none else
  let (opt, val) : Bytes × Int :=
    if tok.headD 0 == 110 && tok.getD 1 0 == 111 then (tok.drop 2, 0)
    else if tok.contains 61 then (tok.takeWhile (· != 61), atoi ((tok.dropWhile (· != 61)).drop 1))
    else (tok, 1)
  (optVar opt).map (fun v => (v, val))

/-- `ex_command(ln)` from the vi loop; returns its status -/
def exCommandV (ln : Bytes) : M Int := fun s =>
  if exWantsInput ln then Res.ok 1 { s with unmodelled := true } else
  let s := match setOf ln with
    | some (v, val) =>
      if v == "xai" then { s with xai := val != 0 }
      else if v == "xaw" || v == "xwa" || v == "xic" || v == "xtd" then s
      else { s with unmodelled := true }       -- hist, lim, order, shape, hl, hll, ru, led, ...: not modelled
    | none => s
  let ed0 := { s.ed with out := [], msg := [], input := [], xvis := true }
  match exCommand 64 ed0 ln with
  | none => Res.trap
  | some (rc, ed) => Res.ok rc { s with ed := ed, unmodelled := s.unmodelled || ed.unmodelled }

/-- the `[enter to continue]` prompt of `vi_wait()` after two or more printed lines -/
def viWait : M Unit := do
  let s ← get
  if nlCount s.ed.out > 1 then
    let _ ← ledLine [58] [] [] 0 false
    pure ()
  withEd fun ed => { ed with out := [] }

/-- `vc_execute()` -/
def vcExecute : M Unit := do
  let c0 ← viRead
  let c ← (if c0 == 92 then do let d ← viRead; pure (((128 ||| d.toNat : Nat) : Int)) else pure c0)
  if tkInt c then pure () else
  let s ← get
  let reg := if c == 64 then s.execReg else c
  modify fun s => { s with execReg := reg }
  if reg < 0 then pure () else
  match regGet s.ed reg.toNat with
  | none => pure ()
  | some buf => repeatM (max 1 s.arg1).toNat (termPush (buf.takeWhile (· != 0)))

/-- `vc_repeat()` -/
def vcRepeat : M Unit := do
  let s ← get
  repeatM (max 1 s.arg1).toNat (termPush s.repCmd)

/-- does the command get recorded for `.`? -/
def isRepeatable (c : Int) (k : Int) : Bool :=
  strHas "!<>ACDIJOPRSXYacdioprsxy~" c || (c == 103 && (k == 117 || k == 85 || k == 126 || k == 0))   -- strchr("uU~", 0) finds the terminator

/-- the start of an iteration of `vi()`: register and count prefixes and the motion, if any -/
def viPre : M (Int × Int × Int) := do
  let s0 ← get
  let nrow := s0.ed.xrow
  let noff := noeol s0 s0.ed.xrow s0.ed.xoff
  let _ ← termCmd
  modify fun s => { s with arg2 := 0 }
  let yb ← viYankbuf
  modify fun s => { s with ybuf := yb }
  let a1 ← viPrefix
  modify fun s => { s with arg1 := a1 }
  if yb == 0 then do
    let yb ← viYankbuf
    modify fun s => { s with ybuf := yb }
  viMotion nrow noff

/-- `mv > 0`: the cursor update after a motion -/
def motionTail (mv nrow noff : Int) : M (Option Nat) := do
  if strHas "'`GHML/?{}[]nN" mv || (mv == 37 && noff < 0) then markSave
  setRow nrow
  let s ← get
  let jk := mv == 106 || mv == 107
  let noff := if noff < 0 && !jk then indents (lines s) nrow else noff
  let noff := if jk then col2off s nrow s.xcol else noff
  let xoff := noeol s nrow noff
  setOff xoff
  if !(jk || mv == 124) then modify fun s => { s with xcol := off2col s nrow xoff }
  if mv == 124 then modify fun s => { s with xcol := s.pcol }
  pure (some 0)

/-- `mv == 0`: a command -/
def commandTail : M (Option Nat) := do
  let c ← viRead
  if c ≤ 0 then pure none else
  let s ← get
  markSet 94 s.ed.xrow s.ed.xoff
  let s ← get
  let a1 := s.arg1
  let fin (mod : Nat) (k : Int := 0) : M (Option Nat) := do
    let cmd ← termCmd
    if isRepeatable c k && cmd.length + 1 < 4096 then
      modify fun s => { s with repCmd := cmd.takeWhile (· != 0) }
      -- rep_cmd is copied with memcpy, the register with a C string
      modify fun s => { s with repCmd := cmd }
      regPut 46 (cmd.takeWhile (· != 0)) 0
    pure (some mod)
  if c == 2 then do        -- ^B
    if ← scrollBackward (min (max 1 a1) (lenOf s) * (s.xrows - 1)) then fin 0 else
    let s ← get
    setOff (indents (lines s) s.ed.xrow)
    fin VC_COL
  else if c == 6 then do   -- ^F
    if ← scrollForward (min (max 1 a1) (lenOf s) * (s.xrows - 1)) then fin 0 else
    let s ← get
    setOff (indents (lines s) s.ed.xrow)
    fin VC_COL
  else if c == 5 then do   -- ^E
    if ← scrollForward (max 1 a1) then fin 0 else
    let s ← get
    setOff (col2off s s.ed.xrow s.xcol)
    fin 0
  else if c == 25 then do  -- ^Y
    if ← scrollBackward (max 1 a1) then fin 0 else
    let s ← get
    setOff (col2off s s.ed.xrow s.xcol)
    fin 0
  else if c == 21 then do  -- ^U
    if s.ed.xrow == 0 then fin 0 else
    if a1 != 0 then modify fun s => { s with scroll := a1 }
    let s ← get
    let n := if s.scroll != 0 then s.scroll else s.xrows / 2
    setRow (max 0 (s.ed.xrow - n))
    if s.ed.xtop > 0 then setTop (max 0 (s.ed.xtop - n))
    let s ← get
    setOff (indents (lines s) s.ed.xrow)
    fin VC_COL
  else if c == 4 then do   -- ^D
    if s.ed.xrow == lenOf s - 1 then fin 0 else
    if a1 != 0 then modify fun s => { s with scroll := a1 }
    let s ← get
    let n := if s.scroll != 0 then s.scroll else s.xrows / 2
    setRow (min (max 0 (lenOf s - 1)) (s.ed.xrow + n))
    if s.ed.xtop < lenOf s - s.xrows then setTop (min (lenOf s - s.xrows) (s.ed.xtop + n))
    let s ← get
    setOff (indents (lines s) s.ed.xrow)
    fin VC_COL
  else if c == 117 || c == 18 then do   -- u / ^R
    match s.ed.lb with
    | none => fin 0
    | some lb =>
      match (if c == 117 then Lbuf.undo lb else Lbuf.redo lb) with
      | none => trap
      | some (rc, lb') =>
        if rc == 0 then do
          withEd fun ed => ed.setLb lb'
          match jump lb' 94 with
          | some (r, o) => setPos r o
          | none => pure ()
          fin VC_WIN
        else do
          withEd fun ed => ed.setLb lb'
          fin 0
  else if c == 7 then do    -- ^G
    lbufModified
    fin 0
  else if c == 58 then do   -- :
    match ← viPrompt true with
    | some ln =>
      if ln.isEmpty then fin 0 else
      let ln := if ln.headD 0 != 58 then 58 :: ln else ln
      let rc ← exCommandV ln
      regPut 58 ln 1
      let s ← get
      if s.ed.xquit then pure none else
      fin (if rc == 0 && ln != [58, 119] then VC_ALL else 0)
    | none => fin 0
  else if c == 99 || c == 100 || c == 121 || c == 33 || c == 62 || c == 60 then do
    let m ← vcMotion c.toNat
    fin m
  else if c == 105 || c == 73 || c == 97 || c == 65 || c == 111 || c == 79 then do
    let m ← vcInsert c.toNat
    fin m
  else if c == 74 then do let m ← vcJoin; fin m
  else if c == 12 then fin VC_ALL
  else if c == 109 then do
    let m ← viRead
    if m > 0 && 97 ≤ m && m ≤ 122 then markSet m.toNat s.ed.xrow s.ed.xoff
    fin 0
  else if c == 112 || c == 80 then do let m ← vcPut c.toNat; fin m
  else if c == 122 then do
    let k ← viRead
    if k == 10 then do setTop (if a1 != 0 then a1 else s.ed.xrow); fin 0 k
    else if k == 46 then do setTop (max 0 ((if a1 != 0 then a1 else s.ed.xrow) - s.xrows / 2)); fin 0 k
    else if k == 45 then do setTop (max 0 ((if a1 != 0 then a1 else s.ed.xrow) - s.xrows + 1)); fin 0 k
    else if k == 62 || k == 60 then do
      let td : Int := if k == 62 then 1 else -1
      withEd fun ed => { ed with xtd := td + (if a1 > 1 then td else 0) }
      fin VC_WIN k
    else if k == 101 then fin 0 k
    else if k == 102 then do unmodelled; fin 0 k
    else if k == 106 || k == 107 || k == 74 || k == 75 || k == 68 then do unmodelled; fin 0 k
    else fin 0 k
  else if c == 103 then do
    let k ← viRead
    if k == 126 || k == 117 || k == 85 then do let m ← vcMotion k.toNat; fin m k
    else if k == 97 then fin 0 k
    else if k == 100 || k == 102 || k == 108 then do unmodelled; fin 0 k
    else fin 0 k
  else if c == 120 then do viBack 32; let m ← vcMotion 100; fin m
  else if c == 88 then do viBack 8; let m ← vcMotion 100; fin m
  else if c == 67 then do viBack 36; let m ← vcMotion 99; fin m
  else if c == 68 then do viBack 36; let m ← vcMotion 100; fin m
  else if c == 114 then do let m ← vcReplace; fin m
  else if c == 115 then do viBack 32; let m ← vcMotion 99; fin m
  else if c == 83 then do viBack 99; let m ← vcMotion 99; fin m
  else if c == 89 then do viBack 121; let m ← vcMotion 121; fin m
  else if c == 90 then do
    let k ← viRead
    if k == 90 then do
      let rc ← exCommandV (strOf "x")
      fin (if rc == 0 then VC_WIN else 0) k
    else fin 0 k
  else if c == 126 then do viBack 32; let m ← vcMotion 126; fin m
  else if c == 46 then do vcRepeat; fin 0
  else if c == 64 then do vcExecute; fin 0
  else if c == 26 || c == 30 || c == 29 || c == 20 || c == 23 || c == 113 then do
    unmodelled; fin 0
  else pure none

/-- the end of an iteration: window fix, sticky column, horizontal scroll, `lbuf_modified` -/
def viPost (cont : Option Nat) : M Unit := do
  match cont with
  | none => pure ()
  | some mod =>
    viWfix
    let s ← get
    if s.ed.xquit then pure () else
    if mod != 0 then modify fun s => { s with xcol := off2col s s.ed.xrow s.ed.xoff }
    let s ← get
    let xcol := s.xcol
    if xcol ≥ s.ed.xleft + s.xcols then withEd fun ed => { ed with xleft := xcol - s.xcols / 2 }
    let s ← get
    if xcol < s.ed.xleft then withEd fun ed => { ed with xleft := if xcol < s.xcols then 0 else xcol - s.xcols / 2 }
    viWait
    lbufModified    -- vc_status() (ruler) when there is no message, or the one it replaces
    lbufModified


/-- one iteration of the `while (!xquit)` loop of `vi()` -/
def viStep : M Unit := do
  let (mv, nrow, noff) ← viPre
  let cont ← (if mv > 0 then motionTail mv nrow noff
    else if mv == 0 then commandTail
    else pure (some 0))
  viPost cont

/-- initial state of `vi()` once the file has been loaded by `ex_init` -/
def viInit (ed : Ed) (keys : Bytes) (rows cols : Int) : VS :=
  let s : VS := { ed := { ed with xvis := true }, typed := keys, xrows := rows, xcols := cols }
  let top := max 0 (s.ed.xrow - rows / 2)
  let s := { s with ed := { s.ed with xtop := top, xoff := 0 } }
  { s with xcol := off2col s s.ed.xrow 0 }

end Neatvi.Vi
