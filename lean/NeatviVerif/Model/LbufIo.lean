import NeatviVerif.Model.Lbuf
/-!
# Model of `lbuf_rd`, `write_fully`, `lbuf_wr` and of the file they act on

System calls are parameters: `read` results are a list of chunks, `write` outcomes a schedule.
-/
namespace Neatvi.LbufIo
open Neatvi Neatvi.Lbuf

/-- the string the C sees in `sbuf_buf`: bytes up to the first NUL -/
def cstr (s : Bytes) : Bytes := s.takeWhile (· ≠ 0)

/-- `lbuf_rd(lb, fd, beg, end)`: `chunks` are the successive positive `read` results, `fin` the final
    one (0 = end of file, negative = error).  Returns (return value, lb); `none` = trap. -/
def rdAcc : List Bytes → Sbuf.Sb → Option Sbuf.Sb
  | [], sb => some sb
  | c :: r, sb => match Sbuf.mem sb c with
    | none => none
    | some sb' => rdAcc r sb'

def rd (lb : Lb) (chunks : List Bytes) (finErr : Bool) (b e : Nat) : Option (Nat × Lb) :=
  match rdAcc chunks ({} : Sbuf.Sb) with
  | none => none
  | some sb =>
    if finErr then some (1, lb)
    else match Sbuf.buf sb with
      | none => none
      | some buf => match edit lb (some (cstr buf)) b e with
        | none => none
        | some lb' => some (0, lb')

/-- outcome of one `write(fd, buf, n)` call -/
inductive WOut where
  | err : WOut
  | cnt : Nat → WOut      -- bytes accepted (clamped to the request)
deriving Repr, DecidableEq

/-- `write_fully(fd, buf, sz)`: returns (ok?, bytes that reached the file, remaining schedule);
    fuel bounds the loop (a schedule of zero counts makes the C spin) -/
def writeFully : Nat → Bytes → List WOut → Option (Bool × Bytes × List WOut)
  | 0, buf, sched => if buf = [] then some (true, [], sched) else none
  | f + 1, buf, sched =>
    if buf = [] then some (true, [], sched)
    else match sched with
      | [] => -- no more scheduled outcomes: the write succeeds completely
        some (true, buf, [])
      | WOut.err :: rest => some (false, [], rest)
      | WOut.cnt k :: rest =>
        let k := min k buf.length
        match writeFully f (buf.drop k) rest with
        | none => none
        | some (ok, w, r) => some (ok, buf.take k ++ w, r)

structure WrState where
  buf : Bytes := []        -- the coalescing buffer
  out : Bytes := []        -- bytes that reached the file so far
  sz : Nat := 0
  sched : List WOut
  ok : Bool := true
deriving Repr

/-- `write_fully(fd, buf, buf_len)` on the coalescing buffer -/
def flush (fuel : Nat) (st : WrState) : Option WrState :=
  match writeFully fuel st.buf st.sched with
  | none => none
  | some (ok, w, r) => some { st with buf := [], out := st.out ++ w, sched := r, ok := ok }

/-- `write_fully(fd, ln, nl)` for a line that is at least one batch long -/
def direct (fuel : Nat) (st : WrState) (ln : Bytes) : Option WrState :=
  match writeFully fuel ln st.sched with
  | none => none
  | some (ok, w, r) => some { st with out := st.out ++ w, sched := r, ok := ok }

/-- one iteration of the loop of `lbuf_wr` for line `ln` with batch size `batch`;
    `none` = hang (zero-count schedule) or the memcpy would overflow `buf[batch]` -/
def wrStep (batch fuel : Nat) (st : WrState) (ln : Bytes) : Option WrState :=
  if !st.ok then some st else
  match (if st.buf.length > 0 && st.buf.length + ln.length > batch then flush fuel st else some st) with
  | none => none
  | some st1 =>
    if !st1.ok then some st1 else
    match (if ln.length ≥ batch then direct fuel st1 ln
           else if st1.buf.length + ln.length ≤ batch then some { st1 with buf := st1.buf ++ ln } else none) with
    | none => none
    | some st2 => if !st2.ok then some st2 else some { st2 with sz := st2.sz + ln.length }

def wrLoop (batch fuel : Nat) : List Bytes → WrState → Option WrState
  | [], st => some st
  | ln :: r, st => match wrStep batch fuel st ln with
    | none => none
    | some st' => wrLoop batch fuel r st'

/-- the loop of `lbuf_wr` and its final flush: the final state (`ok = false` when a write failed) -/
def wrFinal (lines : List Bytes) (b e batch fuel : Nat) (sched : List WOut) : Option WrState :=
  if e > lines.length then none else
  match wrLoop batch fuel ((lines.drop b).take (e - b)) ({ sched := sched } : WrState) with
  | none => none
  | some st =>
    if !st.ok then some st else
    if st.buf.length > 0 then flush fuel st else some st

/-- `lbuf_wr(lb, fd, beg, end)`: returns (return value, bytes written to the descriptor from offset 0,
    truncate length if `ftruncate` was reached) -/
def wr (lines : List Bytes) (b e batch fuel : Nat) (sched : List WOut) : Option (Nat × Bytes × Option Nat) :=
  match wrFinal lines b e batch fuel sched with
  | none => none
  | some st => if !st.ok then some (1, st.out, none) else some (0, st.out, some st.sz)

/-- the target file after the descriptor (opened without O_TRUNC, offset 0) received `out` and, if
    reached, `ftruncate(sz)` -/
def fileAfter (old out : Bytes) (trunc : Option Nat) : Bytes :=
  let f := out ++ old.drop out.length
  match trunc with
  | some n => f.take n ++ List.replicate (n - f.length) 0
  | none => f

end Neatvi.LbufIo
