import NeatviVerif.Model.ExCmd
import NeatviVerif.Model.Mot
/-!
# Model of `term.c` (key queue) and of the `vi.c` command loop: state, key reading, prefixes,
motions, scrolling, undo/redo, marks, `:`; operators / inserts / puts are in `Model/ViOp.lean`.
-/
namespace Neatvi.Vi
open Neatvi Neatvi.Uc Neatvi.Lbuf Neatvi.Ex Neatvi.Mot

structure VS where
  ed : Ed
  -- term.c
  typed : Bytes := []          -- keys the terminal has not delivered yet
  ibuf : Bytes := []           -- ibuf[0 .. ibuf_cnt)
  ibufPos : Nat := 0
  icmd : Bytes := []           -- keys read since the last term_cmd()
  vibuf : List Int := []       -- vi_buf[] (push-back), most recent first
  -- vi.c
  xcol : Int := 0
  arg1 : Int := 0
  arg2 : Int := 0
  ybuf : Nat := 0
  charlast : Bytes := []
  charcmd : Nat := 0
  pcol : Int := 0
  soset : Bool := false
  so : Int := 0
  scroll : Int := 0
  repCmd : Bytes := []
  execReg : Int := -1
  msg : Bytes := []
  xrows : Int := 23
  xcols : Int := 80
  xai : Bool := true
  xkmap : Nat := 0             -- `xkmap`: keymap of insert mode, searches and f/t/r
  exKmap : Nat := 0            -- the keymap of the `:` prompt (a local of vi())
  xkmapAlt : Nat := 1
  unmodelled : Bool := false

inductive Res (α : Type) where
  | ok (a : α) (s : VS)
  | eof                -- the terminal has no more keys (the run ends inside a command)
  | trap

abbrev M (α : Type) := VS → Res α

instance : Monad M where
  pure a := fun s => Res.ok a s
  bind m f := fun s => match m s with
    | Res.ok a s' => f a s'
    | Res.eof => Res.eof
    | Res.trap => Res.trap

def get : M VS := fun s => Res.ok s s
def set (s : VS) : M Unit := fun _ => Res.ok () s
def modify (f : VS → VS) : M Unit := fun s => Res.ok () (f s)
def trap {α : Type} : M α := fun _ => Res.trap
def unmodelled : M Unit := modify (fun s => { s with unmodelled := true })

def TK_ESC : Int := 27
def ctl (c : Char) : Int := (c.toNat : Int) - 96
/-- `TK_INT(c)`: an interrupting key -/
def tkInt (c : Int) : Bool := c < 0 || c == 27 || c == 3

/-! ### term.c -/
/-- `term_read()` -/
def termRead : M Int := fun s =>
  let need := s.ibufPos ≥ s.ibuf.length
  if need && s.typed.isEmpty then Res.eof else
  let s := if need then { s with ibuf := [s.typed.headD 0], ibufPos := 0, typed := s.typed.drop 1 } else s
  let c := s.ibuf.getD s.ibufPos 0
  Res.ok (c : Int) { s with ibufPos := s.ibufPos + 1, icmd := if s.icmd.length < 4096 then s.icmd ++ [c] else s.icmd }

/-- `term_push(s, n)` -/
def termPush (x : Bytes) : M Unit := modify fun s => { s with ibuf := s.ibuf ++ x.take (4096 - s.ibuf.length) }

/-- `term_cmd(&n)` -/
def termCmd : M Bytes := fun s => Res.ok s.icmd { s with icmd := [] }

/-- `vi_read()` -/
def viRead : M Int := fun s => match s.vibuf with
  | c :: r => Res.ok c { s with vibuf := r }
  | [] => termRead s

/-- `vi_back(c)` -/
def viBack (c : Int) : M Unit := modify fun s => { s with vibuf := c :: s.vibuf }

/-! ### accessors -/
def lines (s : VS) : Lines := match s.ed.lb with | some lb => lb.lines | none => []
def lenOf (s : VS) : Int := (lines s).length
def lineOf (s : VS) (r : Int) : Option Bytes := lineAt (lines s) r
def withEd (f : Ed → Ed) : M Unit := modify fun s => { s with ed := f s.ed }
def setMsg (m : Bytes) : M Unit := modify fun s => { s with msg := m.take 511 }

/-! ### columns (ren.c) -/
/-- the regex sets of dir.c, compiled once from the regenerated `dirmarks` / `dircontexts` -/
def dirSets : Option (Rset.RSet × Rset.RSet × Rset.RSet) :=
  let lr := Gen.dirmarks.map (fun m => if m.1 ≥ 0 then some m.2.2.2 else none)
  let rl := Gen.dirmarks.map (fun m => if m.1 ≤ 0 then some m.2.2.2 else none)
  let cx := Gen.dircontexts.map (fun m => some m.2)
  match Rset.make lr 0, Rset.make rl 0, Rset.make cx 0 with
  | some (some a), some (some b), some (some c) => some (a, b, c)
  | _, _, _ => none

/-- `rset_find` on the sets of dir.c -/
def dirOracle : Dir.Oracle := fun which s flg =>
  match dirSets with
  | none => none
  | some (a, b, c) =>
    let rs := if which == 0 then a else if which == 1 then b else c
    match Rset.find rs s (if which == 2 then 0 else 16) flg Gen.NDEPT Gen.NGRPS with
    | some (set, grps, _) => if set < 0 then none else some (set.toNat, grps)
    | none => none

def renOpts (s : VS) : Ren.Opts := { xorder := 1, xlim := 256, xtd := s.ed.xtd }

/-- `ren_position(ln)` -/
def posTab (s : VS) (ln : Bytes) : List Nat := (Ren.renPosition dirOracle (renOpts s) ln).getD (Ren.renPositionFast ln)

/-- `vi_off2col(xb, row, off)` = `ren_pos` -/
def off2col (s : VS) (r o : Int) : Int := match lineOf s r with
  | none => 0
  | some ln => Ren.renPosT (posTab s ln) (ucSlen ln) o.toNat

/-- `vi_col2off(xb, row, col)` = `ren_off` -/
def col2off (s : VS) (r c : Int) : Int := match lineOf s r with
  | none => 0
  | some ln => Ren.renOffT (posTab s ln) (ucSlen ln) c

/-- `ren_noeol(lbuf_get(xb, r), o)` -/
def noeol (s : VS) (r o : Int) : Int := match lineOf s r with
  | none => (if o ≥ 0 then max 0 (-1) else o) |> fun _ => (let n : Int := 0; let o := if o ≥ n then max 0 (n - 1) else o; o)
  | some ln => Ren.renNoeol ln o

/-- `dir_context(ln)` -/
def dirCtx (s : VS) (ln : Bytes) : Int := Dir.dirContext dirOracle s.ed.xtd ln

/-- `vi_nextcol(xb, dir, &row, &off)`: `none` = fails -/
def nextcol (s : VS) (dir : Int) (r o : Int) : Option Int := match lineOf s r with
  | none => none
  | some ln =>
    let pos := posTab s ln
    let n := ucSlen ln
    let col := Ren.renPosT pos n o.toNat
    let p := Ren.renNextT ln pos n col dir
    if p < 0 then none else some (Ren.renOffT pos n p)

/-! ### prefixes -/
/-- `vi_yankbuf()` -/
def viYankbuf : M Nat := do
  let c ← viRead
  if c == 34 then
    let c ← viRead
    if c == 92 then
      let d ← viRead
      pure (128 ||| d.toNat)
    else pure c.toNat
  else
    viBack c
    pure 0

/-- `vi_prefix()` -/
def viPrefix : M Int := do
  let c ← viRead
  if 49 ≤ c && c ≤ 57 then
    let rec digits : Nat → Int → Int → M Int
      | 0, n, c => do viBack c; pure n
      | f + 1, n, c => if 48 ≤ c && c ≤ 57 then do
          let c' ← viRead
          digits f (if n < 100000000 then n * 10 + (c - 48) else n) c'          -- further digits would overflow
        else do viBack c; pure n
    digits 64 0 c
  else
    viBack c
    pure 0

/-- `vi_cnt()`: the product of the two counts, saturated -/
def cntOf (s : VS) : Int := min ((if s.arg1 != 0 then s.arg1 else 1) * (if s.arg2 != 0 then s.arg2 else 1)) 999999999

/-! ### reading one character and a prompt line (the text side of led.c) -/
/-- byte offset of the last character of `s` (`led_lastchar`) -/
def lastChar (s : Bytes) : Nat :=
  if s.isEmpty then 0 else (s.length - 1) - ucBeg (s.getLast?.getD 0) (s.dropLast.reverse)

/-- `led_lastword` -/
def lastWord (s : Bytes) : Nat :=
  if s.isEmpty then 0 else
  let chop := ucChop s            -- character starts and the end
  let starts := chop.dropLast
  let k := starts.length
  -- r = index of the last character
  let kindOf (i : Nat) : Nat := ucKind (s.getD (starts.getD i 0) 0)
  let isSp (i : Nat) : Bool := ucIsSpace (s.getD (starts.getD i 0) 0)
  let rec back1 : Nat → Nat → Nat
    | 0, r => r
    | f + 1, r => if r > 0 && isSp r then back1 f (r - 1) else r
  let r := back1 k (k - 1)
  let kind := if r > 0 then kindOf r else 0
  let rec back2 : Nat → Nat → Nat
    | 0, r => r
    | f + 1, r => if r > 0 && kindOf (r - 1) == kind then back2 f (r - 1) else r
  starts.getD (back2 k r) 0

def isBlankC (c : Nat) : Bool := c == 32 || c == 9

/-! ### led.c: reading a line -/
/-- `kmap_map(kmap, c)`: the keymap's text for the key, else the key itself (as a C string) -/
def kmapMap (kmap : Nat) (c : Nat) : Bytes :=
  if c % 256 == 0 then [] else      -- entry 0 of a keymap is its name, not a mapping
  match ((Gen.kmaps.getD kmap []).find? (fun e => e.1 == c)) with
  | some e => e.2
  | none => [c % 256]

/-- `led_readkey()`: a key; the rest of a multi-byte character is read and dropped -/
def readKey : M Int := do
  let c ← termRead
  if c ≥ 192 then
    let rec more : Nat → M Unit
      | 0 => pure ()
      | k + 1 => do
        let _ ← termRead
        more k
    more (ucLen c.toNat - 1)
    pure c
  else pure c

/-- `led_readchar(c, kmap)`, as the C string it returns (`none` = NULL) -/
def readCharS (c : Int) (kmap : Nat) : M (Option Bytes) := do
  if c == 22 then
    let d ← termRead
    pure (some (if d.toNat % 256 == 0 then [] else [d.toNat % 256]))
  else if c == 11 then do
    let c1 ← readKey
    if tkInt c1 then pure none
    else if c1 == 11 then pure (some [])
    else
      let c2 ← readKey
      if tkInt c2 then pure none
      else pure ((Gen.digraphs.find? (fun d => d.1.headD 0 == c1.toNat && d.1.getD 1 0 == c2.toNat)).map (·.2))
  else if c ≥ 192 then
    let n := ucLen c.toNat
    let rec more : Nat → Bytes → M Bytes
      | 0, acc => pure acc
      | k + 1, acc => do
        let d ← termRead
        more k (acc ++ [d.toNat % 256])
    let bs ← more (n - 1) [c.toNat]
    pure (some (bs.takeWhile (· != 0)))
  else pure (some (kmapMap kmap c.toNat))

/-- the `*left` update of `led_printparts(ai, pref, main, post, left, ..)` -/
def ledLeft (s : VS) (ai pref main post : Bytes) (left : Int) : Int :=
  let ln := ai ++ pref ++ main ++ post
  let off := ucSlen (ai ++ pref ++ main)
  let tab := posTab s ln
  let n := ucSlen ln
  let pos := Ren.renCursorT ln tab n (Ren.renPosT tab n (off - 1))
  let left := if pos ≥ left + s.xcols then pos - s.xcols / 2 else left
  if pos < left then (if pos < s.xcols then 0 else pos - s.xcols / 2) else left

/-- `led_line(pref, post, ai, ai_max, left, ..)` without history: (text, terminating key, ai).
`insertMode`: called from `led_input` (then `*left` is `xleft` and `help` is set). -/
def ledLine (pref post : Bytes) (ai0 : Bytes) (aiMax : Nat) (insertMode : Bool) (exPrompt : Bool := false) : M (Bytes × Int × Bytes) := do
  let prefEmpty := pref.isEmpty
  let setKmap (k : Option Nat) : M Unit := modify fun s =>
    let v := match k with | some v => v | none => s.xkmapAlt
    if exPrompt then { s with exKmap := v } else { s with xkmap := v }
  let getKmap : M Nat := fun s => Res.ok (if exPrompt then s.exKmap else s.xkmap) s
  let redraw (ai sb post : Bytes) : M Unit :=
    if insertMode then modify fun s => { s with ed := { s.ed with xleft := ledLeft s ai pref sb post s.ed.xleft } } else pure ()
  let rec go : Nat → Bytes → Bytes → Int → M (Bytes × Int × Bytes)
    | 0, sb, ai, _ => pure (sb, -1, ai)
    | f + 1, sb, ai, c1 => do
      redraw ai sb post
      let c ← termRead
      if c == 6 then do setKmap none; go f sb ai c1            -- ^F: alternate keymap
      else if c == 5 then do setKmap (some 0); go f sb ai c1
      else if c == 8 || c == 127 then go f (if sb.isEmpty then sb else sb.take (lastChar sb)) ai c
      else if c == 21 then go f [] ai c
      else if c == 23 then go f (if sb.isEmpty then sb else sb.take (lastWord sb)) ai c
      else if c == 20 then go f sb (if ai.length < aiMax then ai ++ [9] else ai) c
      else if c == 4 then
        let sb' := if ai.isEmpty && prefEmpty && isBlankC (sb.headD 0) then sb.drop 1 else sb
        go f sb' (ai.dropLast) c
      else if c == 16 then do
        let s ← get
        go f (sb ++ ((regGet s.ed 0).getD [])) ai c
      else if c == 18 then do
        let y ← readKey
        let s ← get
        go f (if y > 0 then sb ++ ((regGet s.ed y.toNat).getD []) else sb) ai c
      else if c == 1 then do
        if insertMode && c1 != 1 then unmodelled
        go f sb ai c
      else if c == 10 then do
        redraw ai sb []
        pure (sb, c, ai)
      else if tkInt c then pure (sb, c, ai)
      else do
        match ← readCharS c (← getKmap) with
        | some cs => go f (sb ++ cs) ai c
        | none => go f sb ai c
  go 100000 [] ai0 0

/-- `led_prompt(pref, "", ..)` minus the prefix (`vi_prompt`): `none` when interrupted -/
def viPrompt (exPrompt : Bool := false) : M (Option Bytes) := do
  let (txt, key, _) ← ledLine [58] [] [] 0 false exPrompt
  if key == 10 then pure (some txt) else pure none


/-- `led_read(&kmap)` (`vi_char()`): one character, `none` on an interrupt key -/
def viChar : M (Option Bytes) := do
  let rec go : Nat → M (Option Bytes)
    | 0 => pure none
    | f + 1 => do
      let c ← termRead
      if tkInt c then pure none
      else if c == 6 then do modify (fun s => { s with xkmap := s.xkmapAlt }); go f
      else if c == 5 then do modify (fun s => { s with xkmap := 0 }); go f        -- ^F / ^E switch keymaps
      else do readCharS c (← get).xkmap
  go 64


/-! ### searching -/
/-- `vi_search(cmd, cnt, &row, &off)`: `none` = failed (returns 1) -/
def viSearch (cmd : Nat) (cnt : Int) (r o : Int) : M (Option (Int × Int)) := do
  let aborted ← (do
    if cmd == 47 || cmd == 63 then
      match ← viPrompt with
      | none => pure true
      | some kw =>
        let full := [cmd] ++ kw
        let (re, rest) := reRead full
        match re with
        | some re =>
          withEd fun ed => ed.kwdSet (if re.isEmpty then none else some re) (if cmd == 47 then 1 else -1)
          if !re.isEmpty then
            withEd fun ed => { ed with regs := ed.regs.put 47 re 0 }    -- `reg_putln` is a no-op with hist=0
          let rest := rest.dropWhile isSpaceC
          modify fun s => { s with soset := !rest.isEmpty, so := atoi rest }
          pure false
        | none => pure false
    else pure false)
  if aborted then pure none else
  let s ← get
  if lenOf s == 0 || s.ed.xkwddir == 0 then pure none else
  let kwd := s.ed.xkwd
  let dir := if cmd == 78 then -s.ed.xkwddir else s.ed.xkwddir
  let rec rep : Nat → Int → Int → Int → Option (Option (Int × Int))
    | 0, r, o, _ => some (some (r, o))
    | f + 1, r, o, i =>
      if i ≥ cnt then some (some (r, o)) else
      match search (lines s) kwd (s.ed.xic != 0) dir r o with
      | none => none
      | some none => some none
      | some (some (r', o', len)) => rep f r' (if i + 1 < cnt && cmd == 47 then o' + len else o') (i + 1)
  match rep (cnt.toNat + 1) r o 0 with
  | none => trap
  | some none =>
    setMsg ([47] ++ kwd ++ strOf "/ not found")
    pure none
  | some (some (r', o')) =>
    if s.soset then
      if r' + s.so < 0 || r' + s.so ≥ lenOf s then do
        setMsg ([47] ++ kwd ++ strOf "/ bad offset")
        pure none
      else pure (some (r' + s.so, -1))
    else pure (some (r', o'))

/-! ### motions -/
/-- `vi_motionln(&row, cmd)`: (mv, row); mv = 0 none, -1 failed -/
def viMotionln (row : Int) (cmd : Int) : M (Int × Int) := do
  let s ← get
  let cnt := cntOf s
  let n := lenOf s
  let c ← viRead
  let fin (r : Int) : M (Int × Int) := pure (c, if r < 0 then 0 else r)
  if c == 10 || c == 43 then fin (min (row + cnt) (n - 1))
  else if c == 45 then fin (max (row - cnt) 0)
  else if c == 95 then fin (min (row + cnt - 1) (n - 1))
  else if c == 39 then do
    let m ← viRead
    if m ≤ 0 then pure (-1, row) else
    match s.ed.lb.bind (fun lb => jump lb m.toNat) with
    | none => pure (-1, row)
    | some (p, _) => fin p
  else if c == 106 then fin (min (row + cnt) (n - 1))
  else if c == 107 then fin (max (row - cnt) 0)
  else if c == 71 then fin (if s.arg1 != 0 || s.arg2 != 0 then min (cnt - 1) (n - 1) else n - 1)
  else if c == 72 then fin (min (s.ed.xtop + cnt - 1) (n - 1))
  else if c == 76 then fin (min (s.ed.xtop + s.xrows - 1 - cnt + 1) (n - 1))
  else if c == 77 then fin (min (s.ed.xtop + s.xrows / 2) (n - 1))
  else if cmd != 0 && c == cmd then fin (min (row + cnt - 1) (n - 1))
  else if c == 37 && (s.arg1 != 0 || s.arg2 != 0) then
    if cnt > 100 then pure (-1, row) else fin ((max 0 (n - 1)) * cnt / 100)
  else do
    viBack c
    pure (0, row)

/-- `vi_curword`: the word under the cursor -/
def curword (s : VS) (r o : Int) : Option Bytes := match lineOf s r with
  | none => none
  | some ln =>
    let o' := Ren.renNoeol ln o
    let b := match ucChr ln o'.toNat with | some i => i | none => ln.length
    let isW (c : Nat) : Bool := ucKind c == 1
    -- forward over word characters (by whole characters), backward likewise
    let fwd := ((ln.drop b).takeWhile (fun c => isW c || (128 ≤ c && c < 192))).length
    let back := ((ln.take b).reverse.takeWhile (fun c => isW c || (128 ≤ c && c < 192))).length
    if fwd + back == 0 then none else some (((ln.drop (b - back)).take (back + fwd)).take 119)

/-- repeat `step` up to `cnt` times, stopping at the first failure -/
def repeatMove (step : Int → Int → Option (Int × Int)) : Nat → Int → Int → Int × Int
  | 0, r, o => (r, o)
  | k + 1, r, o => match step r o with
    | some (r', o') => repeatMove step k r' o'
    | none => (r, o)

/-- `vi_motion(&row, &off)`: (mv, row, off) -/
def viMotion (row off : Int) : M (Int × Int × Int) := do
  let s0 ← get
  let cnt := cntOf s0
  let dir : Int := if dirCtx s0 ((lineOf s0 row).getD []) ≥ 0 then 1 else -1
  let (mvl, r1) ← viMotionln row 0
  if mvl != 0 then pure (mvl, r1, -1) else
  let row := r1          -- a NUL key is taken by vi_motionln (c == cmd == 0): it moves *row and returns 0
  let mv ← viRead
  let s ← get
  let ls := lines s
  let ok (r o : Int) : M (Int × Int × Int) := pure (mv, r, o)
  let fail : M (Int × Int × Int) := pure (-1, row, off)
  let k := cnt.toNat
  if mv == 102 || mv == 70 || mv == 116 || mv == 84 then do     -- f F t T
    match ← viChar with
    | none => fail
    | some cs =>
      modify fun s => { s with charlast := cs, charcmd := mv.toNat }
      match findchar ls cs mv.toNat cnt row off with
      | none => fail
      | some o => ok row o
  else if mv == 59 || mv == 44 then                               -- ; ,
    if s.charlast.isEmpty then fail else
    match findchar ls s.charlast s.charcmd (if mv == 59 then cnt else -cnt) row off with
    | none => fail
    | some o => ok row o
  else if mv == 104 || mv == 108 then                             -- h l
    let d := if mv == 104 then -dir else dir
    let (r, o) := repeatMove (fun r o => (nextcol s d r o).map (fun o' => (r, o'))) k row off
    ok r o
  else if mv == 66 || mv == 69 || mv == 87 || mv == 98 || mv == 101 || mv == 119 then   -- B E W b e w
    let big := mv == 66 || mv == 69 || mv == 87
    let f (r o : Int) : Option (Int × Int) :=
      let (failed, r', o') := if mv == 87 || mv == 119 then wordbeg ls big 1 r o
        else wordend ls big (if mv == 66 || mv == 98 then -1 else 1) r o
      if failed then none else some (r', o')
    -- a failing step still leaves the position it reached
    let rec go : Nat → Int → Int → Int × Int
      | 0, r, o => (r, o)
      | j + 1, r, o =>
        let (failed, r', o') := if mv == 87 || mv == 119 then wordbeg ls big 1 r o
          else wordend ls big (if mv == 66 || mv == 98 then -1 else 1) r o
        if failed then (r', o') else go j r' o'
    let _ := f
    let (r, o) := go k row off
    ok r o
  else if mv == 123 || mv == 125 then                             -- { }
    let (r, o) := repeatMove (fun r _ => some (paragraphbeg ls (if mv == 123 then -1 else 1) r)) k row off
    ok r o
  else if mv == 91 || mv == 93 then do                            -- [[ ]]
    let c2 ← viRead
    if c2 != mv then fail else do
      unmodelled
      ok row off
  else if mv == 48 then ok row 0
  else if mv == 94 then ok row (indents ls row)
  else if mv == 36 then ok row (eol ls row)
  else if mv == 124 then do
    modify fun s => { s with pcol := cnt - 1 }
    ok row (col2off s row (cnt - 1))
  else if mv == 47 || mv == 63 || mv == 110 || mv == 78 then do   -- / ? n N
    match ← viSearch mv.toNat cnt row off with
    | none => fail
    | some (r, o) => ok r o
  else if mv == 1 then do                                         -- ^A
    match curword s row off with
    | none => fail
    | some cw =>
      withEd fun ed => ed.kwdSet (some (([92, 60] ++ cw ++ [92, 62]).take 127)) 1
      modify fun s => { s with soset := false }
      match ← viSearch 110 cnt row off with
      | none => fail
      | some (r, o) => ok r o
  else if mv == 32 then
    let (r, o) := repeatMove (fun r o => if o + 1 < 0 || (lineAt ls r).isNone || o + 1 ≥ slenAt ls r then none else some (r, o + 1)) k row off
    ok r o
  else if mv == 127 || mv == 8 then
    let (r, o) := repeatMove (fun r o => if o - 1 < 0 || (lineAt ls r).isNone || o - 1 ≥ slenAt ls r then none else some (r, o - 1)) k row off
    ok r o
  else if mv == 96 then do                                        -- `mark
    let m ← viRead
    if m ≤ 0 then fail else
    match s.ed.lb.bind (fun lb => jump lb m.toNat) with
    | none => fail
    | some (p, q) =>
      -- the line may have got shorter since the mark was set: the column is clamped to it
      match lineAt ls p with
      | some ln => ok p (min q (max 0 ((ucSlen ln : Int) - 1)))
      | none => ok p q
  else if mv == 37 then
    match pair ls row off with
    | none => fail
    | some (r, o) => ok r o
  else do
    viBack mv
    pure (0, row, off)

end Neatvi.Vi
