import NeatviVerif.Model.Dir
/-!
# Model of `ren.c`: display cells
-/
namespace Neatvi.Ren
open Neatvi Neatvi.Uc

/-- the common bits of the placeholder sources' first bytes (`bits` in `ren_placeholder`) -/
def phBits : Nat := Gen.placeholders.foldl (fun b p => b &&& Bytes.hd p.1) 0xffff

/-- `ren_placeholder(s, &wid)`: (placeholder text, width) -/
def renPlaceholder (s : Bytes) : Option (Bytes × Nat) :=
  let hit :=
    if Bytes.hd s &&& phBits == phBits then
      Gen.placeholders.find? (fun p => Bytes.hd p.1 == Bytes.hd s && ucCode p.1 == ucCode s)
    else none
  match hit with
  | some p => some (p.2.1, p.2.2)
  | none => if ucIsBell s == some true then some ([0xef, 0xbf, 0xbd], 1) else none

/-- `ren_cwid(s, pos)` -/
def renCwid (s : Bytes) (pos : Nat) : Nat :=
  if Bytes.hd s == 9 then 8 - (pos &&& 7)
  else match renPlaceholder s with
    | some (_, w) => w
    | none => (ucWid s).getD 1

/-- characters of `s` as suffixes at the chop offsets (without the terminator entry) -/
def chrs (s : Bytes) : List Bytes := ((ucChop s).dropLast).map (fun o => s.drop o)

/-- cumulative layout: positions of the given characters laid out left to right from `cpos` -/
def layout : List Bytes → Nat → List Nat
  | [], _ => []
  | c :: r, cpos => cpos :: layout r (cpos + renCwid c cpos)

def layoutEnd : List Bytes → Nat → Nat
  | [], cpos => cpos
  | c :: r, cpos => layoutEnd r (cpos + renCwid c cpos)

/-- fast version of `ren_position`: n+1 entries -/
def renPositionFast (s : Bytes) : List Nat :=
  let cs := chrs s
  layout cs 0 ++ [layoutEnd cs 0]

/-- inverse table `off[pos[i]] = i`; `none` entries are uninitialised memory -/
def invert (pos : List Nat) (n : Nat) : Option (List (Option Nat)) :=
  (List.range n).foldl (fun acc i => do
      let a ← acc
      let p ← pos[i]?
      if p < n then some (a.set p (some i)) else none) (some (List.replicate n none))

/-- second loop of `ren_position_reorder`: assign columns in visual order -/
def assign (cs : List Bytes) : List (Option Nat) → List (Option Nat) → Nat → Option (List (Option Nat) × Nat)
  | [], pos, cpos => some (pos, cpos)
  | o :: rest, pos, cpos =>
    match o with
    | none => none
    | some k =>
      match cs[k]? with
      | none => none
      | some c => assign cs rest (pos.set k (some cpos)) (cpos + renCwid c cpos)

/-- `ren_position_reorder` on the chopped characters `cs`, given the permutation produced by `dir_reorder` -/
def renPositionReorderCs (cs : List Bytes) (ord : List Nat) : Option (List Nat) := do
  let n := cs.length
  let off ← invert ord n
  let (pos, total) ← assign cs off (List.replicate n none) 0
  if pos.all Option.isSome then some (pos.map (fun x => x.getD 0) ++ [total]) else none

def renPositionReorder (s : Bytes) (ord : List Nat) : Option (List Nat) := renPositionReorderCs (chrs s) ord

structure Opts where
  xorder : Nat := 1
  xlim : Int := -1
  xtd : Int := 1
deriving Repr

/-- `ren_position(s)` -/
def renPosition (orc : Dir.Oracle) (o : Opts) (s : Bytes) : Option (List Nat) :=
  let n := ucSlen s
  if (n : Int) ≤ o.xlim && (o.xorder == 2 || (o.xorder == 1 && n < s.length)) then do
    let ord ← if o.xorder != 0 then Dir.dirReorder orc o.xtd s (List.range n) else some (List.range n)
    renPositionReorder s ord
  else some (renPositionFast s)

/-- `pos_next(pos, n, p, cur)`: returns the position or -1 -/
def posNext (pos : List Nat) (n : Nat) (p : Int) (cur : Bool) : Int :=
  let r := (List.range n).foldl (fun (ret : Option Nat) i =>
    match (pos[i]? : Option Nat) with
    | none => ret
    | some pi =>
      if Int.ofNat pi - (if cur then 0 else 1) ≥ p && (match ret with | none => true | some r => pi < pos.getD r 0) then some i else ret) none
  match r with | some i => (pos.getD i 0 : Int) | none => -1

def posPrev (pos : List Nat) (n : Nat) (p : Int) (cur : Bool) : Int :=
  let r := (List.range n).foldl (fun (ret : Option Nat) i =>
    match (pos[i]? : Option Nat) with
    | none => ret
    | some pi =>
      if Int.ofNat pi + (if cur then 0 else 1) ≤ p && (match ret with | none => true | some r => pi > pos.getD r 0) then some i else ret) none
  match r with | some i => (pos.getD i 0 : Int) | none => -1

/-- `ren_pos(s, off)` given the position table -/
def renPosT (pos : List Nat) (n : Nat) (off : Nat) : Nat := if off < n then pos.getD off 0 else 0

/-- `ren_off(s, p)` given the position table -/
def renOffT (pos : List Nat) (n : Nat) (p : Int) : Nat :=
  let p' := posPrev pos n p true
  let off := (List.range n).foldl (fun (o : Option Nat) i => if (pos.getD i 0 : Int) == p' then some i else o) none
  off.getD 0

/-- first byte of character `k` of `s` (0 past the end), as `uc_chr(s, k)[0]` -/
def chrHd (s : Bytes) (k : Nat) : Nat :=
  match ucChr s k with
  | some i => Bytes.hd (s.drop i)
  | none => 0

/-- `ren_next(s, p, dir)` given the table -/
def renNextT (s : Bytes) (pos : List Nat) (n : Nat) (p : Int) (dir : Int) : Int :=
  let p1 := posPrev pos n p true
  let p2 := if dir ≥ 0 then posNext pos n p1 false else posPrev pos n p1 false
  if chrHd s (renOffT pos n p2) != 10 then p2 else -1

/-- `ren_cursor(s, p)` given the table -/
def renCursorT (s : Bytes) (pos : List Nat) (n : Nat) (p : Int) : Int :=
  let p1 := posPrev pos n p true
  let p2 := if chrHd s (renOffT pos n p1) == 10 then posPrev pos n p1 false else p1
  let next := posNext pos n p2 false
  let r := (if next ≥ 0 then next else (pos.getD n 0 : Int)) - 1
  if r ≥ 0 then r else 0

/-- `ren_noeol(s, o)` -/
def renNoeol (s : Bytes) (o : Int) : Int :=
  let n : Int := ucSlen s
  let o := if o ≥ n then max 0 (n - 1) else o
  if o > 0 && chrHd s o.toNat == 10 then o - 1 else o

end Neatvi.Ren
