import NeatviVerif.Model.Bytes
import NeatviVerif.Generated.Tables
/-!
# Model of `sbuf.c` (capacity arithmetic) and `lbuf.c` (lines, marks, undo history, sequence numbers)
-/
namespace Neatvi.Sbuf
open Neatvi

/-- `struct sbuf`: contents and allocated size (`s == NULL` iff `sz = 0`) -/
structure Sb where
  s : Bytes := []
  sz : Nat := 0
deriving Repr

/-- `ALIGN(n, a)` = `(n + a - 1) & ~(a - 1)`; for `a` a power of two (checked on the generated
    constant in Props/C01) this clears the low bits: `x - x % a` -/
def alignUp (n a : Nat) : Nat := (n + a - 1) - (n + a - 1) % a

/-- `NEXTSZ(o, r)` -/
def nextSz (o r : Nat) : Nat := alignUp (max (o * 2) (o + r)) Gen.SBUFSZ

/-- `sbuf_mem(sb, s, len)`; the memcpy needs `s_n + len ≤ s_sz`, else trap -/
def mem (sb : Sb) (x : Bytes) : Option Sb :=
  let sz := if sb.s.length + x.length + 1 ≥ sb.sz then nextSz sb.sz (x.length + 1) else sb.sz
  if sb.s.length + x.length ≤ sz then some { s := sb.s ++ x, sz := sz } else none

/-- `sbuf_chr(sb, c)` -/
def chr (sb : Sb) (c : Nat) : Option Sb :=
  let sz := if sb.s.length + 2 ≥ sb.sz then nextSz sb.sz 1 else sb.sz
  if sb.s.length < sz then some { s := sb.s ++ [c], sz := sz } else none

/-- `sbuf_buf(sb)` writes the terminator at `s[s_n]`: needs `s_n < s_sz` (after `sbuf_extend(sb, 1)` when empty) -/
def buf (sb : Sb) : Option Bytes :=
  let sz := if sb.sz = 0 then 1 else sb.sz
  if sb.s.length < sz then some sb.s else none

end Neatvi.Sbuf

namespace Neatvi.Lbuf
open Neatvi

/-- split a C string into lines, each normalised to end in exactly one newline
    (`linelength`/`linecount` and the copy loop of `lbuf_replace`) -/
def splitAux : Bytes → Bytes → List Bytes
  | [], cur => if cur = [] then [] else [cur ++ [10]]
  | b :: r, cur => if b = 10 then (cur ++ [10]) :: splitAux r [] else splitAux r (cur ++ [b])

def splitLines (s : Bytes) : List Bytes := splitAux s []

/-- `linecount(s)` with `s` possibly NULL -/
def lineCount (s : Option Bytes) : Nat := match s with | none => 0 | some x => (splitLines x).length

structure Entry where
  pos : Nat
  nIns : Nat
  nDel : Nat
  ins : Option Bytes
  del : Option Bytes
  seq : Nat
  posOff : Int
  marks : Option (List Int × List Int)
deriving Repr, DecidableEq

structure Lb where
  lines : List Bytes := []
  glob : List Nat := []
  lnSz : Nat := 0
  mark : List Int := List.replicate Gen.NMARKS (-1)
  markOff : List Int := List.replicate Gen.NMARKS 0
  hist : List Entry := []
  histSz : Nat := 0
  histU : Nat := 0
  useq : Nat := 1
  useqZero : Nat := 0
  useqLast : Nat := 0
  /-- `useq_zero == -1`: set by `lbuf_unsaved`, cleared by `lbuf_saved` -/
  unsaved : Bool := false
deriving Repr

def make : Lb := {}

/-- `markidx` -/
def markIdx (c : Nat) : Option Nat :=
  if 97 ≤ c && c ≤ 122 then some (c - 97)
  else if c = 39 || c = 96 then some 26
  else if c = 42 then some 27
  else if c = 91 then some 28
  else if c = 93 then some 29
  else if c = 94 then some 30
  else none

def NMARKS_BASE : Nat := 28

/-- `lbuf_mark` -/
def setMark (lb : Lb) (c : Nat) (pos off : Int) : Lb :=
  match markIdx c with
  | some i => { lb with mark := lb.mark.set i pos, markOff := lb.markOff.set i off }
  | none => lb

/-- `lbuf_jump`: (pos, off) of a mark -/
def jump (lb : Lb) (c : Nat) : Option (Int × Int) :=
  match markIdx c with
  | some i => let p := lb.mark.getD i (-1); if p < 0 then none else some (p, lb.markOff.getD i 0)
  | none => none

/-- growth of the line table: `while (ln_n + n_ins - n_del >= ln_sz) nsz = ln_sz + (ln_sz ? ln_sz : 512)` -/
def growSz : Nat → Nat → Nat → Nat
  | 0, sz, _ => sz
  | f + 1, sz, need => if need ≥ sz then growSz f (sz + (if sz = 0 then Gen.LN_INIT else sz)) need else sz

/-- mark update of `lbuf_replace` -/
def updMark (sIsNull : Bool) (pos nIns nDel : Nat) (m : Int) : Int :=
  if sIsNull && m ≥ pos && m < pos + nDel then -1
  else if m ≥ (pos + nDel : Nat) then m + nIns - nDel
  else if m ≥ (pos + nIns : Nat) then (pos + nIns : Nat) - 1
  else m

/-- `lbuf_replace(lb, s, pos, n_del)`; `none` = out-of-bounds access of `ln[]` -/
def replace (lb : Lb) (s : Option Bytes) (pos nDel : Nat) : Option Lb :=
  let new := match s with | none => [] | some x => splitLines x
  let nIns := new.length
  if pos + nDel ≤ lb.lines.length then
    let need := lb.lines.length + nIns - nDel
    let sz := growSz (need + 2) lb.lnSz need
    let lines := lb.lines.take pos ++ new ++ lb.lines.drop (pos + nDel)
    let keep := min nIns nDel     -- glob marks of replaced slots survive, new slots are cleared
    let glob := lb.glob.take pos ++ ((lb.glob.drop pos).take keep ++ List.replicate (nIns - keep) 0) ++ lb.glob.drop (pos + nDel)
    let mark := lb.mark.map (updMark s.isNone pos nIns nDel)
    let lb1 : Lb := { lb with lines := lines, glob := glob, lnSz := sz, mark := mark }
    let lb2 := setMark lb1 91 pos 0
    some (setMark lb2 93 (pos + (if nIns > 0 then nIns - 1 else 0) : Nat) 0)
  else none

/-- `lbuf_cp(lb, beg, end)` -/
def cp (lb : Lb) (b e : Nat) : Bytes := ((lb.lines.drop b).take (e - b)).flatten

/-- `lbuf_opt`: append an undo record (truncating the redo branch) -/
def opt (lb : Lb) (buf : Option Bytes) (pos nDel : Nat) : Lb :=
  let hist := lb.hist.take lb.histU
  let histSz := if hist.length = lb.histSz then lb.histSz + (if lb.histSz = 0 then Gen.HIST_INIT else lb.histSz) else lb.histSz
  let caret := 30
  let posOff : Int := if lb.mark.getD caret (-1) ≥ 0 then lb.markOff.getD caret 0 else 0
  -- lbuf_savepos: '*' := '^'
  let mark1 := lb.mark.set 27 (lb.mark.getD caret (-1))
  let markOff1 := lb.markOff.set 27 (lb.markOff.getD caret 0)
  let inDel (m : Int) : Bool := m ≥ pos && m < pos + nDel
  let anySaved := (List.range NMARKS_BASE).any (fun i => inDel (mark1.getD i (-1)))
  let saved : Option (List Int × List Int) :=
    if anySaved then
      some ((List.range Gen.NMARKS).map (fun i => if i < NMARKS_BASE && inDel (mark1.getD i (-1)) then mark1.getD i (-1) else -1),
            (List.range Gen.NMARKS).map (fun i => markOff1.getD i 0))
    else none
  let e : Entry := { pos := pos, nIns := lineCount buf, nDel := nDel, ins := buf,
                     del := if nDel > 0 then some (cp lb pos (pos + nDel)) else none,
                     seq := lb.useq, posOff := posOff, marks := saved }
  { lb with hist := hist ++ [e], histSz := histSz, histU := hist.length + 1, mark := mark1, markOff := markOff1 }

/-- `lbuf_edit(lb, buf, beg, end)` -/
def edit (lb : Lb) (buf : Option Bytes) (b e : Nat) : Option Lb :=
  let b := min b lb.lines.length
  let e := min e lb.lines.length
  if e < b then none       -- callers never pass an inverted range (negative count in the C)
  else if b == e && buf.isNone then some lb
  else replace (opt lb buf b (e - b)) buf b (e - b)

/-- `lbuf_loadpos` -/
def loadPos (lb : Lb) (e : Entry) : Lb :=
  let lb1 := { lb with mark := lb.mark.set 30 e.pos, markOff := lb.markOff.set 30 e.posOff }
  { lb1 with mark := lb1.mark.set 27 (lb1.mark.getD 30 (-1)), markOff := lb1.markOff.set 27 (lb1.markOff.getD 30 0) }

/-- `lbuf_loadmark` for all marks -/
def loadMarks (lb : Lb) (e : Entry) : Lb :=
  match e.marks with
  | none => lb
  | some (ms, offs) =>
    { lb with
      mark := (List.range lb.mark.length).map (fun i => if ms.getD i (-1) ≥ 0 then ms.getD i (-1) else lb.mark.getD i (-1)),
      markOff := (List.range lb.markOff.length).map (fun i => if ms.getD i (-1) ≥ 0 then offs.getD i 0 else lb.markOff.getD i 0) }

/-- the loop of `lbuf_undo`: undo entries below `hist_u` while they carry `seq` -/
def undoGo (seq : Nat) : Nat → Lb → Option Lb
  | 0, lb => some lb
  | f + 1, lb =>
    match lb.histU with
    | 0 => some lb
    | u + 1 =>
      match lb.hist[u]? with
      | none => none
      | some e =>
        if e.seq = seq then
          match replace { lb with histU := u } e.del e.pos e.nIns with
          | none => none
          | some lb1 => undoGo seq f (loadMarks (loadPos lb1 e) e)
        else some lb

/-- `lbuf_undo`: `(return value, lb)`; return 1 = nothing to undo -/
def undo (lb : Lb) : Option (Nat × Lb) :=
  match lb.histU with
  | 0 => some (1, lb)
  | u + 1 =>
    match lb.hist[u]? with
    | none => none
    | some e => (undoGo e.seq lb.histU lb).map (fun l => (0, l))

def redoGo (seq : Nat) : Nat → Lb → Option Lb
  | 0, lb => some lb
  | f + 1, lb =>
    if lb.histU < lb.hist.length then
      match lb.hist[lb.histU]? with
      | none => none
      | some e =>
        if e.seq = seq then
          match replace { lb with histU := lb.histU + 1 } e.ins e.pos e.nDel with
          | none => none
          | some lb1 => redoGo seq f (loadPos lb1 e)
        else some lb
    else some lb

/-- `lbuf_redo` -/
def redo (lb : Lb) : Option (Nat × Lb) :=
  if lb.histU = lb.hist.length then some (1, lb)
  else
    match lb.hist[lb.histU]? with
    | none => none
    | some e => (redoGo e.seq (lb.hist.length - lb.histU) lb).map (fun l => (0, l))

/-- `lbuf_seq` -/
def seqAt (lb : Lb) : Nat :=
  match lb.histU with
  | 0 => lb.useqLast
  | u + 1 => match lb.hist[u]? with | some e => e.seq | none => lb.useqLast

/-- `lbuf_modified(lb)`: bumps the sequence counter and reports dirtiness -/
def modified (lb : Lb) : Bool × Lb :=
  let lb1 := { lb with useq := lb.useq + 1 }
  (lb1.unsaved || seqAt lb1 != lb1.useqZero, lb1)

/-- `lbuf_saved(lb, clear)` without the trailing `lbuf_modified(xb)` (which concerns the *current* buffer) -/
def savedCore (lb : Lb) (clear : Bool) : Lb :=
  let lb1 := if clear then { lb with hist := [], histU := 0, useqLast := lb.useq } else lb
  { lb1 with useqZero := seqAt lb1, unsaved := false }

/-- `lbuf_unsaved(lb)` -/
def unsavedMark (lb : Lb) : Lb := { lb with unsaved := true }

/-- `lbuf_globset` / `lbuf_globget` -/
def globSet (lb : Lb) (pos dep : Nat) : Lb := { lb with glob := lb.glob.set pos (lb.glob.getD pos 0 ||| (1 <<< dep)) }
def globGet (lb : Lb) (pos dep : Nat) : Bool × Lb :=
  let o := lb.glob.getD pos 0 &&& (1 <<< dep)
  (o > 0, { lb with glob := lb.glob.set pos (lb.glob.getD pos 0 &&& ((255 : Nat) ^^^ (1 <<< dep))) })

end Neatvi.Lbuf
