import NeatviVerif.Model.LbufIo
import NeatviVerif.Model.Rset
/-!
# Model of `ex.c` (with `reg.c`): the ex command layer, the buffer table, saving and quitting

The environment is explicit: a file system with virtual modification times, a schedule of
system-call faults for the current command, the queue of input lines `ex_read` serves, the
printed output, and an oracle for shell commands.
-/
namespace Neatvi.Ex
open Neatvi Neatvi.Lbuf Neatvi.LbufIo Neatvi.Rset

/-! ### registers (`reg.c`) -/
structure Regs where
  buf : List (Option Bytes) := List.replicate 256 none
  ln : List Nat := List.replicate 256 0
deriving Repr

def lowerC (c : Nat) : Nat := if 65 ≤ c && c ≤ 90 then c + 32 else c
def isUpperC (c : Nat) : Bool := 65 ≤ c && c ≤ 90
def isAlphaC (c : Nat) : Bool := (65 ≤ c && c ≤ 90) || (97 ≤ c && c ≤ 122)
def isDigitC (c : Nat) : Bool := 48 ≤ c && c ≤ 57
def isSpaceC (c : Nat) : Bool := c == 32 || (9 ≤ c && c ≤ 13)

/-- `reg_putraw` -/
def Regs.putRaw (r : Regs) (c : Nat) (s : Bytes) (ln : Nat) : Regs :=
  let lc := lowerC c
  let pre := if isUpperC c then (r.buf.getD lc none).getD [] else []
  { buf := r.buf.set lc (some (pre ++ s)), ln := r.ln.set lc ln }

/-- `reg_getraw` -/
def Regs.getRaw (r : Regs) (c : Nat) : Option Bytes × Nat := (r.buf.getD c none, r.ln.getD c 0)

/-- `reg_put(c, s, ln)` -/
def Regs.put (r : Regs) (c0 : Nat) (s : Bytes) (ln : Nat) : Regs :=
  let c := if c0 == 34 then 0 else c0        -- `"` names the unnamed register
  let r1 :=
    if (ln != 0 || s.contains 10) && (c == 0 || isAlphaC c) then
      let shifted := [8, 7, 6, 5, 4, 3, 2, 1].foldl (fun (acc : Regs) i =>
        match acc.getRaw (48 + i) with
        | (some x, l) => acc.putRaw (48 + i + 1) x l
        | (none, _) => acc) r
      shifted.putRaw 49 s ln
    else r
  r1.putRaw c s ln

/-- `REG(s)`: the register named at the start of an argument -/
def regName (s : Bytes) : Nat := if s.headD 0 != 92 then s.headD 0 else 128 ||| (s.getD 1 0)

/-! ### the environment -/
structure File where
  path : Bytes
  data : Bytes
  mtime : Int
deriving Repr, DecidableEq

structure Buf where
  path : Bytes
  lb : Lb
  row : Int := 0
  off : Int := 0
  top : Int := 0
  left : Int := 0
  id : Int := 0
  td : Int := 1
  mtime : Int := -1
deriving Repr

structure Ed where
  bufs : List (Option Buf) := List.replicate Gen.NBUFS none
  bufsCnt : Int := 0
  xrow : Int := 0
  xoff : Int := 0
  xtop : Int := 0
  xleft : Int := 0
  xtd : Int := 0
  xquit : Bool := false
  xvis : Bool := false
  xaw : Int := 0
  xwa : Int := 0
  xic : Int := 1
  xkwd : Bytes := []
  xrep : Bytes := []
  xkwddir : Int := 0
  xgdep : Nat := 0
  atDepth : Nat := 0          -- `depth` of ec_at: registers executing registers
  regs : Regs := {}
  files : List File := []
  clock : Int := 1000
  faults : List (Nat × Nat) := []     -- (index of the open/write/close call within the command, kind)
  calls : Nat := 0
  fired : Nat := 0
  input : List Bytes := []
  out : Bytes := []
  msg : Bytes := []
  pipes : List (Bytes × Bytes × Option Bytes) := []   -- oracle: (command, input, output)
  unmodelled : Bool := false
deriving Repr

abbrev R (α : Type) := Option (α × Ed)

def Ed.cur (ed : Ed) : Option Buf := (ed.bufs.getD 0 none)
def Ed.setCur (ed : Ed) (b : Buf) : Ed := { ed with bufs := ed.bufs.set 0 (some b) }
def Ed.lb (ed : Ed) : Option Lb := ed.cur.map (·.lb)
def Ed.setLb (ed : Ed) (lb : Lb) : Ed := match ed.cur with
  | some b => ed.setCur { b with lb := lb }
  | none => ed
def Ed.len (ed : Ed) : Int := match ed.lb with | some l => l.lines.length | none => 0
def Ed.show (ed : Ed) (m : Bytes) : Ed := { ed with msg := ed.msg ++ m ++ [10] }
def Ed.print (ed : Ed) (l : Bytes) : Ed :=
  { ed with out := ed.out ++ l ++ (if l.getLast? == some 10 then [] else [10]) }

def strOf (s : String) : Bytes := s.toUTF8.toList.map (·.toNat)
def natStr (n : Nat) : Bytes := strOf (toString n)
def intStr (n : Int) : Bytes := strOf (toString n)

/-- `lbuf_get(xb, pos)` -/
def Ed.line (ed : Ed) (pos : Int) : Option Bytes :=
  if pos < 0 then none else (ed.lb.bind (fun l => l.lines[pos.toNat]?))

/-! ### file system -/
def Ed.findFile (ed : Ed) (p : Bytes) : Option File := ed.files.find? (fun f => f.path == p)
/-- `mtime(path)` -/
def Ed.mtimeOf (ed : Ed) (p : Bytes) : Int := match ed.findFile p with | some f => f.mtime | none => -1
def Ed.putFile (ed : Ed) (f : File) : Ed :=
  if ed.files.any (fun g => g.path == f.path) then { ed with files := ed.files.map (fun g => if g.path == f.path then f else g) }
  else { ed with files := ed.files ++ [f] }

/-- the fault scheduled for the next open/write/close call (0 = none) -/
def Ed.nextFault (ed : Ed) : Nat × Ed :=
  let k := (ed.faults.find? (fun f => f.1 == ed.calls)).map (·.2) |>.getD 0
  (k, { ed with calls := ed.calls + 1 })

/-- `lbuf_save(lb, beg, end, path, force, ts)`: `none` result = success, `some msg` = error text -/
def lbufSave (ed : Ed) (lb : Lb) (b : Nat) (e : Int) (path : Bytes) (force : Bool) (ts : Int) : R (Option Bytes) :=
  let e' : Nat := if e < 0 then lb.lines.length else e.toNat
  if !force && ed.mtimeOf path > ts then some (some (strOf "write failed: file changed"), ed)
  else if !force && ts ≤ 0 && ed.mtimeOf path ≥ 0 then some (some (strOf "write failed: file exists"), ed)
  else
    let (fo, ed) := ed.nextFault
    if fo == 101 then some (some (strOf "write failed: cannot create file"), { ed with fired := ed.fired + 1 })
    else
      -- open(O_WRONLY | O_CREAT) creates or stamps the file
      let old := (ed.findFile path).map (·.data) |>.getD []
      let ed := { ed.putFile ⟨path, old, ed.clock + 1⟩ with clock := ed.clock + 1 }
      -- the write calls consult the schedule one by one
      let sched : List WOut := (List.range (e' - b + 8)).map (fun k =>
        match (ed.faults.find? (fun f => f.1 == ed.calls + k)).map (·.2) with
        | some 101 => WOut.err
        | some d => if 49 ≤ d && d ≤ 57 then WOut.cnt (d - 48) else WOut.cnt 1000000000
        | none => WOut.cnt 1000000000)
      let fuel := lb.lines.foldl (fun m l => max m l.length) Gen.WR_BATCH + 8
      match wrFinal lb.lines b e' Gen.WR_BATCH (fuel * 2) sched with
      | none => none
      | some st =>
        let used := sched.length - st.sched.length
        -- faults that fired among the consumed outcomes: errors and effective short counts are counted by the harness;
        -- the model tracks only the clock (every successful write call stamps the file)
        let nerr := if st.ok then 0 else 1
        let okCalls := used - nerr
        let data := fileAfter old st.out (if st.ok then some st.sz else none)
        let ed := { ed.putFile ⟨path, data, ed.clock + okCalls⟩ with clock := ed.clock + okCalls, calls := ed.calls + used }
        if !st.ok then
          -- `close(fd)` after a failed write consumes a call as well
          let (_, ed) := ed.nextFault
          some (some (strOf "write failed"), ed)
        else
          let (fc, ed) := ed.nextFault
          if fc == 101 then some (some (strOf "write failed"), ed) else some (none, ed)

/-! ### the buffer table -/
def normPath (p : Bytes) : Bytes := if p == [47] then [] else p


/-- `lbuf_save` on a path that may be empty (a buffer without a name): `open("")` fails with "no such file"; the two
    guards before the open cannot fire, because `stat("")` fails as well -/
def lbufSaveP (ed : Ed) (lb : Lb) (b : Nat) (e : Int) (path : Bytes) (force : Bool) (ts : Int) : R (Option Bytes) :=
  if path.isEmpty then
    let (fo, ed) := ed.nextFault
    some (some (strOf "write failed: cannot create file"), if fo == 101 then { ed with fired := ed.fired + 1 } else ed)
  else lbufSave ed lb b e path force ts

/-- `bufs_find(path)` -/
def Ed.bufsFind (ed : Ed) (p : Bytes) : Int :=
  let p := normPath p
  match (List.range ed.bufs.length).find? (fun i => match ed.bufs.getD i none with | some b => b.path == p | none => false) with
  | some i => i
  | none => -1

/-- `bufs_findroom()` -/
def Ed.findRoom (ed : Ed) : Nat :=
  match (List.range (ed.bufs.length - 1)).find? (fun i => (ed.bufs.getD i none).isNone) with
  | some i => i
  | none => ed.bufs.length - 1

/-- `bufs_save()` -/
def Ed.bufsSave (ed : Ed) : Ed := match ed.cur with
  | some b => ed.setCur { b with row := ed.xrow, off := ed.xoff, top := ed.xtop, left := ed.xleft, td := ed.xtd }
  | none => ed   -- writes into a zeroed slot; harmless

/-- `bufs_load()` -/
def Ed.bufsLoad (ed : Ed) : Ed := match ed.cur with
  | some b => { ed with xrow := b.row, xoff := b.off, xtop := b.top, xleft := b.left, xtd := b.td,
                        regs := ed.regs.put 37 b.path 0 }
  | none => { ed with xrow := 0, xoff := 0, xtop := 0, xleft := 0, xtd := 0, regs := ed.regs.put 37 [] 0 }

/-- `bufs_switch(idx)`: slot `idx` moves to the front, slots `0..idx-1` shift down -/
def Ed.bufsSwitch (ed : Ed) (idx : Nat) : Ed :=
  let ed := ed.bufsSave
  -- `if (bufs[0].lb) lbuf_modified(bufs[0].lb)`: leaving a buffer ends its undo step
  let ed := match ed.bufs.getD 0 none with
    | some b => { ed with bufs := ed.bufs.set 0 (some { b with lb := (Lbuf.modified b.lb).2 }) }
    | none => ed
  let tmp := ed.bufs.getD idx none
  let bufs := [tmp] ++ ed.bufs.take idx ++ ed.bufs.drop (idx + 1)
  ({ ed with bufs := bufs }).bufsLoad

/-- `bufs_open(path)` -/
def Ed.bufsOpen (ed : Ed) (p : Bytes) : Nat × Ed :=
  let idx := ed.findRoom
  let b : Buf := { path := normPath p, lb := Lbuf.make, id := ed.bufsCnt + 1 }
  (idx, { ed with bufs := ed.bufs.set idx (some b), bufsCnt := ed.bufsCnt + 1 })

/-- `bufs_shift()` -/
def Ed.bufsShift (ed : Ed) : Ed :=
  ({ ed with bufs := ed.bufs.drop 1 ++ [none] }).bufsLoad

/-- `lbuf_modified(b->lb)` on slot `idx`: (dirty, ed with the bumped counter) -/
def Ed.modifiedAt (ed : Ed) (idx : Nat) : Bool × Ed :=
  match ed.bufs.getD idx none with
  | none => (false, ed)
  | some b => let (m, lb) := modified b.lb; (m, { ed with bufs := ed.bufs.set idx (some { b with lb := lb }) })

/-- `bufs_modified(idx, msg)` -/
def bufsModified (ed : Ed) (idx : Nat) (msg : Option Bytes) : R Bool :=
  match ed.bufs.getD idx none with
  | none => some (false, ed)
  | some _ =>
    let (m, ed) := ed.modifiedAt idx
    if !m then some (false, ed) else
    match ed.bufs.getD idx none with
    | none => none
    | some b =>
      if ed.xaw != 0 && !b.path.isEmpty then
        match lbufSave ed b.lb 0 (-1) b.path false b.mtime with
        | none => none
        | some (err, ed) => some (err.isSome, ed)
      else some (true, match msg with | some m => ed.show m | none => ed)

/-! ### addresses -/
/-- `atoi` -/
def atoi (s : Bytes) : Int :=
  let s := s.dropWhile isSpaceC
  let (neg, s) := if s.headD 0 == 45 then (true, s.drop 1) else if s.headD 0 == 43 then (false, s.drop 1) else (false, s)
  let v := (s.takeWhile isDigitC).foldl (fun (a : Int) (d : Nat) => a * 10 + ((d : Int) - 48)) 0
  if neg then -v else v

/-- `NUMMAX` of ex.c: numbers in addresses saturate here -/
def NUMMAX : Int := 536870912
/-- `TERMMAX` of ex.c: the numbers of an address saturate here before they are added -/
def TERMMAX : Int := 1099511627776
/-- `ex_num(s, max)`: `strtoll` saturated at ±max (a number beyond 64 bits saturates in `strtoll` already) -/
def exNum (s : Bytes) (mx : Int) : Int := max (-mx) (min (atoi s) mx)
/-- `ex_atoi`: `atoi` that saturates instead of wrapping around -/
def exAtoi (s : Bytes) : Int := exNum s NUMMAX

/-- `re_read(&src)`: (pattern or NULL, rest) -/
def reRead (src : Bytes) : Option Bytes × Bytes :=
  match src with
  | [] => (none, [])
  | delim :: s =>
    let rec go : Nat → Bytes → Bytes → Bytes × Bytes
      | 0, s, acc => (acc, s)
      | f + 1, s, acc =>
        match s with
        | [] => (acc, [])
        | c :: r =>
          -- `*s != delim`: `delim` was read as `unsigned char`, `*s` is a (signed) `char`: a byte of
          -- 0x80 and above never equals it
          if c == delim && delim < 128 then (acc, r)
          else if c == 92 && !r.isEmpty then
            let d := r.headD 0
            go f (r.drop 1) (if !(d == delim && delim < 128) then acc ++ [92, d] else acc ++ [d])
          else go f r (acc ++ [c])
    let (pat, rest) := go (s.length + 1) s []
    (some pat, rest)

/-- `ex_kwdset(kwd, dir)` -/
def Ed.kwdSet (ed : Ed) (kwd : Option Bytes) (dir : Int) : Ed :=
  { ed with xkwd := (match kwd with | some k => k.take (Gen.EXLEN - 1) | none => ed.xkwd), xkwddir := dir }

def ND : Nat := Gen.NDEPT
def NG : Nat := Gen.NGRPS

/-- `rstr_make(pat, xic ? RE_ICASE : 0)` -/
def Ed.mkRe (ed : Ed) (pat : Bytes) : Option (Option RStr) := rstrMake pat (if ed.xic != 0 then RE_ICASE else 0)

/-- `ex_search(&pat)`: (row or -1, rest of the address text) -/
def exSearch (ed : Ed) (loc : Bytes) : R (Int × Bytes) :=
  let delim := loc.headD 0
  let (kw, rest) := reRead loc
  let ed := match kw with
    | some k => if !k.isEmpty then ed.kwdSet (some k) (if delim == 47 then 1 else -1) else ed
    | none => ed
  if ed.xkwddir == 0 then some ((-1, rest), ed) else
  match ed.mkRe ed.xkwd with
  | none => none
  | some none => some ((-1, rest), ed)
  | some (some re) =>
    let dir := ed.xkwddir
    let len := ed.len
    let rec scan : Nat → Int → Option Int
      | 0, _ => some (-1)
      | f + 1, row =>
        if row < 0 || row ≥ len then some (-1) else
        match ed.line row with
        | none => some (-1)
        | some ln =>
          match rstrFind re ln 0 0 ND NG with
          | none => none
          | some (r, _, _) => if r ≥ 0 then some row else scan f (row + dir)
    match scan (len.toNat + 1) (ed.xrow + dir) with
    | none => none
    | some row => some ((row, rest), ed)

/-- `ex_lineno(&num)` -/
def exLineno (ed : Ed) (loc : Bytes) : R (Int × Bytes) :=
  let c := loc.headD 0
  let base : R (Int × Bytes) :=
    if c == 46 then some ((ed.xrow, loc.drop 1), ed)
    else if c == 36 then some ((ed.len - 1, loc.drop 1), ed)
    else if c == 39 then
      match ed.lb.bind (fun l => jump l (loc.getD 1 0)) with
      | none => some ((-1000000, loc.drop 1), ed)     -- returns -2 at once (marker handled below)
      | some (p, _) => some ((p, loc.drop 2), ed)
    else if c == 47 || c == 63 then
      match exSearch ed loc with
      | none => none
      | some ((n, rest), ed) => if n < 0 then some ((-1000000, rest), ed) else some ((n, rest), ed)
    else if isDigitC c then some ((exNum loc TERMMAX - 1, loc.dropWhile isDigitC), ed)
    else some ((ed.xrow, loc), ed)
  match base with
  | none => none
  | some ((n, rest), ed) =>
    if n == -1000000 then some ((-2, rest), ed) else
    let rec offs : Nat → Int → Bytes → Int × Bytes
      | 0, n, s => (n, s)
      | f + 1, n, s =>
        if s.headD 0 == 45 || s.headD 0 == 43 then offs f (n + exNum s TERMMAX) ((s.drop 1).dropWhile isDigitC) else (n, s)
    let (n, rest) := offs (rest.length + 1) n rest
    -- the sum is exact (64 bits in C: at most EXLEN / 2 terms below 2^40); only the line number saturates
    some ((max (-NUMMAX) (min n NUMMAX), rest), ed)

/-- `ex_region(loc, &beg, &end)`: (return value, beg, end) -/
def exRegion (ed : Ed) (loc : Bytes) : R (Nat × Int × Int) :=
  let len := ed.len
  if loc == [37] then some ((0, 0, max 0 len), ed)
  else if loc.isEmpty then
    let b := max 0 (min ed.xrow len)
    some ((0, b, if b == len then b else b + 1), ed)
  else
    let rec go : Nat → Ed → Bytes → Nat → Int → Int → R (Int × Int)
      | 0, ed, _, _, b, e => some ((b, e), ed)
      | f + 1, ed, loc, naddr, b, e =>
        if loc.isEmpty then some ((b, e), ed) else
        match exLineno ed loc with
        | none => none
        | some ((n, rest), ed) =>
          if n < -1 then some ((-7, -7), ed) else      -- unresolved address: ex_region fails
          let e' := n + 1
          let b' := if naddr != 0 then e - 1 else e' - 1
          let rest := rest.dropWhile (fun c => c != 59 && c != 44)
          if rest.isEmpty then some ((b', e'), ed)
          else
            let ed := if rest.headD 0 == 59 then { ed with xrow := e' - 1 } else ed
            go f ed (rest.drop 1) (naddr + 2) b' e'
    match go (loc.length + 1) ed loc 0 0 0 with
    | none => none
    | some ((b, e), ed) =>
      if b == -7 && e == -7 then some ((1, -1, -1), ed) else
      if e ≤ b then some ((1, -1, -1), ed) else      -- the second address precedes the first
      let b := if b < 0 && e == 0 then 0 else b
      let len := ed.len
      if b < 0 || b ≥ len then some ((1, b, e), ed)
      else if e < b || e > len then some ((1, b, e), ed)
      else some ((0, b, e), ed)

/-! ### editing primitives on the current buffer -/
/-- `lbuf_edit(xb, s, beg, end)` -/
def Ed.edit (ed : Ed) (s : Option Bytes) (b e : Int) : Option Ed :=
  if b < 0 || e < 0 then none else
  match ed.lb with
  | none => none
  | some lb => (Lbuf.edit lb s b.toNat e.toNat).map ed.setLb

/-- `ex_pathexpand(src, spaceallowed)`: `none` = NULL (path not set) -/
def pathExpand (ed : Ed) (src : Bytes) (spaceAllowed : Bool) : R (Option Bytes) :=
  let rec go : Nat → Bytes → Bytes → Option (Option Bytes)
    | 0, _, dst => some (some dst)
    | f + 1, src, dst =>
      match src with
      | [] => some (some dst)
      | c :: r =>
        if c == 10 || (!spaceAllowed && (c == 32 || c == 9)) then some (some dst)
        else if c == 37 || c == 35 then
          match ed.bufs.getD (if c == 35 then 1 else 0) none with
          | none => some none
          | some b => go f r (dst ++ (if b.path.isEmpty then [47] else b.path))
        else if dst.isEmpty && c == 61 then
          match ed.cur with
          | some b =>
            (match (List.range b.path.length).reverse.find? (fun i => b.path.getD i 0 == 47) with
            | some i => go f r (b.path.take i ++ [47])
            | none => go f r dst)
          | none => go f r dst
        else if c == 92 && !r.isEmpty then go f (r.drop 1) (dst ++ [r.headD 0])
        else go f r (dst ++ [c])
  match go (src.length + 1) src [] with
  | none => none
  | some none => some (none, ed.show (strOf "pathname \"%\" or \"#\" is not set"))
  | some (some p) => if p.length ≥ 1000 then none else some (some p, ed)

/-- the closed shell of the harnesses (`verif_shell` in harness/common.h): the commands it interprets; every other
    command exits with status 127 and no output -/
def builtinPipe (cmd input : Bytes) : Bytes :=
  if cmd == strOf "cat" then input
  else if cmd == strOf "tr a-z A-Z" then input.map (fun c => if 97 ≤ c && c ≤ 122 then c - 32 else c)
  else if cmd == strOf "printf x" then [120]
  else if cmd == strOf "sed 1q" then
    (let l := input.takeWhile (· != 10); if l.length < input.length then l ++ [10] else l)
  else []

/-- the shell oracle: output of `cmd_pipe(cmd, input, 1)`; an explicit table entry wins over the closed shell -/
def Ed.pipe (ed : Ed) (cmd input : Bytes) : Option (Option Bytes) :=
  match ed.pipes.find? (fun p => p.1 == cmd && p.2.1 == input) with
  | some p => some p.2.2
  | none => some (some (builtinPipe cmd input))

/-- `lbuf_cp(xb, beg, end)` -/
def Ed.cp (ed : Ed) (b e : Int) : Bytes := match ed.lb with
  | some lb => Lbuf.cp lb b.toNat e.toNat
  | none => []

/-! ### command line splitting: `ex_loc`, `ex_cmd`, `ex_arg` -/
def locChars : Bytes := strOf ".$0123456789'/?+-,;%"

/-- `ex_loc(src, loc)`: (loc, rest) -/
def exLoc (src : Bytes) : Bytes × Bytes :=
  let src := src.dropWhile (fun c => c == 58 || c == 32 || c == 9)
  let rec go : Nat → Bytes → Bytes → Bytes × Bytes
    | 0, s, loc => (loc, s)
    | f + 1, s, loc =>
      match s with
      | [] => (loc, [])
      | c :: _ =>
        if !locChars.contains c then (loc, s) else
        -- a quote takes the next character with it
        let (loc, s) := if c == 39 then (loc ++ [c], s.drop 1) else (loc, s)
        let c2 := s.headD 0
        let (loc, s) :=
          if c2 == 47 || c2 == 63 then
            let rec pat : Nat → Bytes → Bytes → Bytes × Bytes
              | 0, s, acc => (acc, s)
              | g + 1, s, acc =>
                match s with
                | [] => (acc, [])
                | x :: r =>
                  if x == c2 then (acc, s)
                  else if x == 92 && !r.isEmpty then pat g (r.drop 1) (acc ++ [x, r.headD 0])
                  else pat g r (acc ++ [x])
            let (p, s') := pat (s.length + 1) (s.drop 1) []
            (loc ++ [c2] ++ p, s')
          else (loc, s)
        match s with
        | [] => (loc, [])
        | x :: r => go f r (loc ++ [x])
  go (src.length + 1) src []

/-- `ex_cmd(src, cmd)` -/
def exCmd (src : Bytes) : Bytes × Bytes :=
  let src := src.dropWhile (fun c => c == 32 || c == 9)
  let rec go : Nat → Bytes → Bytes → Bytes × Bytes
    | 0, s, cmd => (cmd, s)
    | f + 1, s, cmd =>
      match s with
      | [] => (cmd, [])
      | c :: r =>
        if isAlphaC c && cmd.length < 16 then
          if c == 107 && cmd.isEmpty then ([c], r) else go f r (cmd ++ [c])
        else (cmd, s)
  let (cmd, s) := go (src.length + 1) src []
  let c := s.headD 0
  if c == 33 || c == 61 || c == 64 then (cmd ++ [c], s.drop 1) else (cmd, s)

/-- copy with backslash pairs until a stop condition -/
def copyUntil (stop : Nat → Bool) : Nat → Bytes → Bytes → Bytes × Bytes
  | 0, s, acc => (acc, s)
  | f + 1, s, acc =>
    match s with
    | [] => (acc, [])
    | c :: r =>
      if stop c then (acc, s)
      else if c == 92 && !r.isEmpty then copyUntil stop f (r.drop 1) (acc ++ [c, r.headD 0])
      else copyUntil stop f r (acc ++ [c])

/-- `ex_arg(src, dst, excmd)` -/
def exArg (src : Bytes) (excmd : Bytes) : Bytes × Bytes :=
  let c0 := excmd.headD 0
  let c1 := if c0 != 0 then excmd.getD 1 0 else 0
  let src := src.dropWhile (fun c => c == 32 || c == 9)
  let (dst, src) :=
    if c0 == 33 || c0 == 103 || c0 == 118 || ((c0 == 114 || c0 == 119) && c1 == 0 && src.headD 0 == 33) then
      copyUntil (fun c => c == 10) (src.length + 1) src []
    else if (c0 == 115 && c1 != 101) || c0 == 38 || c0 == 126 then
      let delim := src.headD 0
      if delim != 0 && delim != 10 && delim != 124 && delim != 92 && delim != 34 && !src.isEmpty then
        let rec sub : Nat → Bytes → Bytes → Nat → Bytes × Bytes
          | 0, s, acc, _ => (acc, s)
          | f + 1, s, acc, cnt =>
            match s with
            | [] => (acc, [])
            | c :: r =>
              if c == 10 || cnt == 0 then (acc, s) else
              let cnt := if c == delim then cnt - 1 else cnt
              if c == 92 && !r.isEmpty then sub f (r.drop 1) (acc ++ [c, r.headD 0]) cnt
              else sub f r (acc ++ [c]) cnt
        sub (src.length + 1) (src.drop 1) [delim] 2
      else ([], src)
    else ([], src)
  if dst == [0, 0, 0, 0] then (dst, src) else
  let (d2, src) := copyUntil (fun c => c == 10 || c == 124 || c == 34) (src.length + 1) src []
  let src := if src.headD 0 == 34 then src.dropWhile (fun c => c != 10) else src
  let src := if src.headD 0 == 10 || src.headD 0 == 124 then src.drop 1 else src
  (dst ++ d2, src)

end Neatvi.Ex
