import NeatviVerif.Model.Ren
/-!
# Model of `led_render` (led.c) without text attributes: the characters a row of the window shows

`led_render(s, cbeg, cend, syn)` lays the characters of the line out by `ren_position`, keeps those
whose cells lie inside the column window `[cbeg, cend)` (mirrored for a right-to-left context), and
emits, from `cbeg` to the last occupied column, each character once (its placeholder, its shaped
form, itself if printable, else blanks over its cells) and a blank for every unoccupied column.
The attribute escapes and the final "kill to end of line" are not modelled; the harness strips them.
-/
namespace Neatvi.Render
open Neatvi Neatvi.Uc Neatvi.Ren

/-- `led_pos(dir, pos, beg, end)` -/
def ledPos (dir : Int) (pos beg end_ : Int) : Int := if dir ≥ 0 then pos - beg else end_ - pos - 1

/-- `ren_translate(chrs[k], s0)` -/
def translate (shape : Bool) (chs : List Bytes) (codes : List Nat) (k : Nat) : Option Bytes :=
  match renPlaceholder (chs.getD k []) with
  | some (d, _) => some d
  | none => if shape then (ucShapeAt codes k).map ucPut else none

/-- the table `off[]`: which character occupies each column of the window -/
def offTable (chs : List Bytes) (pos : List Nat) (ctx : Int) (cbeg cend : Int) : List (Option Nat) :=
  let w := (cend - cbeg).toNat
  (List.range chs.length).foldl (fun (off : List (Option Nat)) i =>
    let p : Int := pos.getD i 0
    let cw : Int := renCwid (chs.getD i []) (pos.getD i 0)
    let b := ledPos ctx p cbeg cend
    let e := ledPos ctx (p + cw - 1) cbeg cend
    if b ≥ 0 && b < w && e ≥ 0 && e < w then
      (List.range cw.toNat).foldl (fun off (j : Nat) => off.set (ledPos ctx (p + (j : Int)) cbeg cend).toNat (some i)) off
    else off) (List.replicate w none)

/-- the text `led_render` emits for the row (attribute and kill escapes left out); `none` = trap -/
def renderRow (orc : Dir.Oracle) (o : Opts) (shape : Bool) (s0 : Bytes) (cbeg cend : Int) : Option Bytes :=
  match renPosition orc o s0 with
  | none => none
  | some pos =>
    let ctx := Dir.dirContext orc o.xtd s0
    let chs := chrs s0
    let codes := chs.map (fun c => (ucCode c).getD 0)
    let off := offTable chs pos ctx cbeg cend
    let w := (cend - cbeg).toNat
    -- the last occupied column (0 when none)
    let clast : Int := ((List.range w).foldl (fun (cl : Int) k => if (off.getD k none).isSome then cbeg + k else cl) 0)
    let rec emit : Nat → Int → Bytes → Bytes
      | 0, _, acc => acc
      | f + 1, i, acc =>
        if i < cend && i ≤ clast then
          match off.getD (i - cbeg).toNat none with
          | some oc =>
            -- the columns this character covers from here on
            let span := ((List.range (cend - i).toNat).takeWhile (fun d => off.getD ((i - cbeg).toNat + d) none == some oc)).length
            let ch := chs.getD oc []
            let txt := match translate shape chs codes oc with
              | some t => t
              | none => if ucIsPrint (Bytes.hd ch) then ch.take (max 1 (ucLen (Bytes.hd ch))) else List.replicate span 32
            emit f (i + max 1 span) (acc ++ txt)
          | none => emit f (i + 1) (acc ++ [32])
        else acc
    some (emit (w + 2) cbeg [])

end Neatvi.Render
