import NeatviVerif.Model.Uc
/-!
# Model of `regex.c`, part 1: atoms, parser, group numbering, program size estimate, code emission

Strings are `Bytes` without the terminator; `rdb s i` reads `s[i]`: the bytes, then the NUL, then
out of bounds (`none` = the C reads past the terminator: trap).
-/
namespace Neatvi.Regex
open Neatvi Neatvi.Uc

/-- read `s[i]`; `none` = beyond the terminator -/
def rdb (s : Bytes) (i : Nat) : Option Nat :=
  if i < s.length then s[i]? else if i = s.length then some 0 else none

/-- `uc_len(s + i)` of regex.c: the length announced by the lead byte, but never stepping over the
    terminator -/
def rxLen (s : Bytes) (i : Nat) : Nat := min (ucLen (s.getD i 0)) (s.length - i)

inductive AK where
  | chr | beg | end_ | any | brk | wbeg | wend
deriving DecidableEq, Repr

structure Atom where
  k : AK
  s : Bytes := []
deriving DecidableEq, Repr

/-- parse tree; `nul` is the NULL pointer (empty alternative, empty group) -/
inductive RNode where
  | nul : RNode
  | atom (a : Atom) (mn mx : Int) : RNode
  | cat (a b : RNode) : RNode
  | alt (a b : RNode) : RNode
  | grp (a : RNode) (g : Nat) (mn mx : Int) : RNode
deriving DecidableEq, Repr

/-- `brk_len(s)`, `s` starting at `[`; never reads past the terminator -/
def brkLenLoop (s : Bytes) : Nat → Nat → Nat
  | 0, n => n
  | f + 1, n =>
    let c := s.getD n 0
    if c != 0 && c != 93 then
      let n1 := if c == 91 && (s.getD (n + 1) 0 == 58 || s.getD (n + 1) 0 == 61) then
          n + ((s.drop n).takeWhile (fun b => b != 93)).length else n
      let n2 := if s.getD n1 0 != 0 then n1 + 1 else n1
      brkLenLoop s f n2
    else n

def brkLen (s : Bytes) : Nat :=
  let n := 1
  let n := if s.getD n 0 == 94 then n + 1 else n
  let n := if s.getD n 0 == 93 then n + 1 else n
  let n := brkLenLoop s (s.length + 1) n
  if s.getD n 0 == 93 then n + 1 else n

def isSpecial (c : Nat) : Bool := c == 0 || Gen.ratomSpecial.contains c
def isRepChar (c : Nat) : Bool := Gen.repChars.contains c

/-- the literal-run loop of `ratom_read`: returns the length of the run; `none` = trap or hang -/
def litLoop (p : Bytes) : Nat → Nat → Option Nat
  | 0, _ => none
  | f + 1, i =>
    match rdb p i with
    | none => none
    | some c =>
      if i == 0 || !isSpecial c then
        let l := rxLen p i
        if i == 0 && l == 0 then none          -- `s += 0` forever: a pattern that ends in a backslash
        else
          match (if i != 0 then rdb p (i + l) else some 0) with
          | none => none
          | some nx =>
            if i != 0 && nx != 0 && isRepChar nx then some i
            else litLoop p f (i + l)
      else some i

/-- `ratom_read`: (atom, rest); `none` = trap -/
def ratomRead (p : Bytes) : Option (Atom × Bytes) :=
  match p with
  | [] => -- default case on the terminator
    (litLoop p (p.length + 2) 0).map (fun n => (⟨AK.chr, p.take n⟩, p.drop n))
  | c :: r =>
    if c == 46 then some (⟨AK.any, []⟩, r)
    else if c == 94 then some (⟨AK.beg, []⟩, r)
    else if c == 36 then some (⟨AK.end_, []⟩, r)
    else if c == 91 then
      let n := brkLen p
      some (⟨AK.brk, p.take n⟩, p.drop n)
    else if c == 92 then
      if r.headD 0 == 60 then some (⟨AK.wbeg, []⟩, r.drop 1)
      else if r.headD 0 == 62 then some (⟨AK.wend, []⟩, r.drop 1)
      else (litLoop r (r.length + 2) 0).map (fun n => (⟨AK.chr, r.take n⟩, r.drop n))
    else (litLoop p (p.length + 2) 0).map (fun n => (⟨AK.chr, p.take n⟩, p.drop n))

/-- 32-bit two's-complement wrap (the harness is built with -fwrapv) -/
def wrap32 (x : Int) : Int := ((x + 2147483648) % 4294967296) - 2147483648

/-- `while (isdigit(**pat)) v = v * 10 + *(*pat)++ - '0'` -/
def readDigits : Bytes → Int → Int × Bytes
  | [], v => (v, [])
  | c :: r, v => if 48 ≤ c && c ≤ 57 then readDigits r (wrap32 (wrap32 (v * 10 + c) - 48)) else (v, c :: r)

/-- set `mincnt`/`maxcnt` of the node just parsed -/
def setRep (n : RNode) (mn mx : Int) : RNode :=
  match n with
  | .atom a _ _ => .atom a mn mx
  | .grp a g _ _ => .grp a g mn mx
  | other => other

/-- position in the pattern: the remaining bytes, or `past` when `++*pat` stepped over the terminator -/
inductive Pos where
  | at_ (rest : Bytes)
  | past
deriving DecidableEq, Repr

/-- the repetition suffix of `rnode_atom`; result node `none` = NULL (bounds above NREPS);
    outer `none` = trap -/
def readRep (n : RNode) (p : Bytes) : Option (Option RNode × Bytes) :=
  let (n, p) := if p.headD 0 == 42 then (setRep n 0 (-1), p.drop 1)
                else if p.headD 0 == 63 then (setRep n 0 1, p.drop 1) else (n, p)
  let (n, p) := if p.headD 0 == 43 then (setRep n 1 (-1), p.drop 1) else (n, p)
  if p.headD 0 == 123 then
    let p := p.drop 1
    let (mn, p) := readDigits p 0
    let (mx, p) :=
      if p.headD 0 == 44 then
        let p := p.drop 1
        let mx0 : Int := if p.headD 0 == 125 then -1 else 0
        readDigits p mx0
      else (mn, p)
    -- `++*pat`: skips one byte whatever it is; stepping over the terminator is a trap
    match p with
    | [] => none
    | _ :: p' =>
      if mn > Gen.NREPS || mx > Gen.NREPS || mn < 0 || (mx ≥ 0 && mx < mn) then some (none, p')
      else some (some (setRep n mn mx), p')
  else some (some n, p)

mutual
/-- `rnode_parse`; fuel-indexed recursive descent.  Result: (node or NULL, rest); `none` = trap/out of fuel -/
def parseAlt : Nat → Bytes → Option (Option RNode × Bytes)
  | 0, _ => none
  | f + 1, p =>
    match parseSeq f p with
    | none => none
    | some (c1, p1) =>
      if p1.headD 0 != 124 then some (c1, p1)
      else
        match parseAlt f (p1.drop 1) with
        | none => none
        | some (c2, p2) =>
          match c2 with
          | none => some (c1, p2)
          | some b => some (some (RNode.alt (c1.getD RNode.nul) b), p2)

/-- `rnode_seq` -/
def parseSeq : Nat → Bytes → Option (Option RNode × Bytes)
  | 0, _ => none
  | f + 1, p =>
    match parseAtom f p with
    | none => none
    | some (none, p1) => some (none, p1)
    | some (some c1, p1) =>
      match parseSeq f p1 with
      | none => none
      | some (none, p2) => some (some c1, p2)
      | some (some c2, p2) => some (some (RNode.cat c1 c2), p2)

/-- `rnode_atom` -/
def parseAtom : Nat → Bytes → Option (Option RNode × Bytes)
  | 0, _ => none
  | f + 1, p =>
    let c := p.headD 0
    if c == 0 || c == 124 || c == 41 then some (none, p)
    else if c == 40 then
      match parseGrp f p with
      | none => none
      | some (none, p1) => some (none, p1)
      | some (some n, p1) => readRep n p1
    else
      match ratomRead p with
      | none => none
      | some (a, p1) => readRep (RNode.atom a 1 1) p1

/-- `rnode_grp` (called with `p` starting at `(`) -/
def parseGrp : Nat → Bytes → Option (Option RNode × Bytes)
  | 0, _ => none
  | f + 1, p =>
    let p1 := p.drop 1
    if p1.headD 0 != 41 then
      match parseAlt f p1 with
      | none => none
      | some (none, p2) => some (none, p2)
      | some (some n, p2) =>
        if p2.headD 0 != 41 then some (none, p2) else some (some (RNode.grp n 0 1 1), p2.drop 1)
    else some (some (RNode.grp RNode.nul 0 1 1), p1.drop 1)
end

/-- fuel that always suffices: four nested calls per consumed byte -/
def parseFuel (p : Bytes) : Nat := 4 * p.length + 8

/-- `rnode_parse(&pat)` as `regcomp` calls it -/
def parse (p : Bytes) : Option (Option RNode) := (parseAlt (parseFuel p) p).map (·.1)

/-- `rnode_grpnum(rnode, num)`: number the groups in pre-order; returns (tree, count) -/
def grpnum : RNode → Nat → RNode × Nat
  | .nul, _ => (.nul, 0)
  | .atom a mn mx, _ => (.atom a mn mx, 0)
  | .cat a b, num =>
    let (a', ca) := grpnum a num
    let (b', cb) := grpnum b (num + ca)
    (.cat a' b', ca + cb)
  | .alt a b, num =>
    let (a', ca) := grpnum a num
    let (b', cb) := grpnum b (num + ca)
    (.alt a' b', ca + cb)
  | .grp a _ mn mx, num =>
    let (a', ca) := grpnum a (num + 1)
    (.grp a' num mn mx, 1 + ca)

/-- the repetition arithmetic of `rnode_count` given the size `n` of one copy -/
def countRep (n : Int) (mn mx : Int) : Int :=
  if mn == 0 && mx == 0 then 0
  else if mn == 1 && mx == 1 then n
  else
    let n1 := if mx < 0 then (mn + 1) * n + 1 else (mn + mx) * n + mx - mn
    if mn == 0 then n1 + 1 else n1

/-- `rnode_count` -/
def count : RNode → Int
  | .nul => 0
  | .atom _ mn mx => countRep 1 mn mx
  | .cat a b => count a + count b
  | .alt a b => count a + count b + 2
  | .grp a _ mn mx => countRep (count a + 2) mn mx

/-- `rnode_count` as the C code computes it since the size limit: every return value is clamped to `NCODE`, so
    that the products of nested repetition counts stay within `int` -/
def sat (n : Int) : Int := if n < (Gen.NCODE : Int) then n else (Gen.NCODE : Int)

def countRepSat (n : Int) (mn mx : Int) : Int :=
  if mn == 0 && mx == 0 then 0
  else if mn == 1 && mx == 1 then sat n
  else
    let n1 := if mx < 0 then (mn + 1) * n + 1 else (mn + mx) * n + mx - mn
    sat (if mn == 0 then n1 + 1 else n1)

def countSat : RNode → Int
  | .nul => 0
  | .atom _ mn mx => countRepSat 1 mn mx
  | .cat a b => countRepSat (countSat a + countSat b) 1 1
  | .alt a b => countRepSat (countSat a + countSat b + 2) 1 1
  | .grp a _ mn mx => countRepSat (countSat a + 2) mn mx

inductive Inst where
  | atom (a : Atom)
  | fork (a1 a2 : Nat)
  | jump (a1 : Nat)
  | mark (m : Nat)
  | mtch
deriving DecidableEq, Repr

/-- number of instructions of the repetition wrapper around a body of `bl` instructions -/
def repLen (bl : Nat) (mn mx : Int) : Nat :=
  if mn == 0 && mx == 0 then 0
  else if mn == 1 && mx == 1 then bl
  else
    let lead := if mn == 0 then 1 else 0
    let copies := (max 1 mn).toNat
    let star := if mx < 0 then 1 else 0
    let opt := (mx - max 1 mn).toNat
    lead + copies * bl + star + opt * (1 + bl)

/-- `k` copies of the body laid out from `base`; returns (code, address of the last copy) -/
def emitCopies (body : Nat → List Inst) (bl : Nat) : Nat → Nat → List Inst
  | 0, _ => []
  | k + 1, base => body base ++ emitCopies body bl k (base + bl)

/-- the optional copies `fork; body` whose second fork target is the end -/
def emitOpts (body : Nat → List Inst) (bl : Nat) (endA : Nat) : Nat → Nat → List Inst
  | 0, _ => []
  | k + 1, base => [Inst.fork (base + 1) endA] ++ body (base + 1) ++ emitOpts body bl endA k (base + 1 + bl)

/-- `rnode_emit`'s repetition logic around `rnode_emitnorep` (`body base` = one copy emitted at `base`,
    `bl` its length) -/
def emitRep (body : Nat → List Inst) (bl : Nat) (mn mx : Int) (base : Nat) : List Inst :=
  if mn == 0 && mx == 0 then []
  else if mn == 1 && mx == 1 then body base
  else
    let endA := base + repLen bl mn mx
    let lead := if mn == 0 then [Inst.fork (base + 1) endA] else []
    let b1 := base + lead.length
    let copies := (max 1 mn).toNat
    let mid := emitCopies body bl copies b1
    let b2 := b1 + copies * bl
    let last := b2 - bl
    let star := if mx < 0 then [Inst.fork last (b2 + 1)] else []
    let b3 := b2 + star.length
    let opt := emitOpts body bl endA (mx - max 1 mn).toNat b3
    lead ++ mid ++ star ++ opt

/-- length of the code `rnode_emit` produces -/
def emitLen : RNode → Nat
  | .nul => 0
  | .atom _ mn mx => repLen 1 mn mx
  | .cat a b => emitLen a + emitLen b
  | .alt a b => emitLen a + emitLen b + 2
  | .grp a _ mn mx => repLen (emitLen a + 2) mn mx

/-- `rnode_emit(n, p)` at absolute address `base` -/
def emit : RNode → Nat → List Inst
  | .nul, _ => []
  | .atom a mn mx, base => emitRep (fun _ => [Inst.atom a]) 1 mn mx base
  | .cat a b, base => emit a base ++ emit b (base + emitLen a)
  | .alt a b, base =>
    [Inst.fork (base + 1) (base + 1 + emitLen a + 1)] ++ emit a (base + 1) ++
    [Inst.jump (base + 1 + emitLen a + 1 + emitLen b)] ++ emit b (base + 1 + emitLen a + 1)
  | .grp a g mn mx, base =>
    emitRep (fun b => [Inst.mark (2 * g)] ++ emit a (b + 1) ++ [Inst.mark (2 * g + 1)]) (emitLen a + 2) mn mx base

structure Prog where
  code : List Inst
  alloc : Int          -- `rnode_count + 3`: the number of `struct rinst` allocated
  flg : Nat
deriving Repr

def REG_ICASE : Nat := 4
def REG_NEWLINE : Nat := 8
def REG_NOTBOL : Nat := 16
def REG_NOTEOL : Nat := 32

/-- `regcomp(&preg, pat, flg)`: `none` = trap while parsing, `some none` = returns 1 (rejected).
    The emitted code may be longer than `alloc` (heap overflow): see `Prog.fits`. -/
def regcomp (pat : Bytes) (flg : Nat) : Option (Option Prog) :=
  match parse pat with
  | none => none
  | some none => some none
  | some (some t) =>
    -- nested repetitions multiply: a program beyond NCODE instructions is refused (the count saturates there in C)
    if countSat t + 3 > (Gen.NCODE : Int) then some none else
    let t' := (grpnum t 1).1
    some (some { code := [Inst.mark 0] ++ emit t' 1 ++ [Inst.mark 1, Inst.mtch], alloc := countSat t + 3, flg := flg })

/-- the program fits the memory reserved for it -/
def Prog.fits (p : Prog) : Bool := (p.code.length : Int) ≤ p.alloc

end Neatvi.Regex
