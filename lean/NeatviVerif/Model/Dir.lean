import NeatviVerif.Model.Uc
/-!
# Model of `dir.c`: bidi reordering

The regular-expression sets are a parameter (`Oracle`): `find which s flg` is `rset_find` on
`dir_rslr` (which = 0), `dir_rsrl` (1) or `dir_rsctx` (2); it returns the index of the matching
pattern and the group offsets (byte offsets into `s`, `-1` = unset).
-/
namespace Neatvi.Dir
open Neatvi Neatvi.Uc

abbrev Oracle := Nat → Bytes → Nat → Option (Nat × List Int)

structure DMatch where
  rBeg : Nat
  rEnd : Nat
  cBeg : Nat
  cEnd : Nat
  cDir : Int
  cRec : Bool
deriving Repr, DecidableEq

/-- `conf_dirmark(idx, ..)`: (ctx, dir, grp) -/
def dirmark (idx : Nat) : Option (Int × Int × Nat) :=
  (Gen.dirmarks[idx]?).map (fun r => (r.1, r.2.1, r.2.2.1))

/-- bytes of characters `[beg, end)` given the chop offsets `chop` (n+1 entries) of `s` -/
def slice (s : Bytes) (chop : List Nat) (b e : Nat) : Option Bytes :=
  match chop[b]?, chop[e]? with
  | some ob, some oe => some ((s.drop ob).take (oe - ob))
  | _, _ => none

def RE_NOTBOL : Nat := 2
def RE_NOTEOL : Nat := 4

/-- `dir_match`; `none` = trap (index outside `chrs[]`), `some none` = no match -/
def dirMatch (orc : Oracle) (s : Bytes) (chop : List Nat) (b e : Nat) (ctx : Int) : Option (Option DMatch) := do
  let str ← slice s chop b e
  let oe ← chop[e]?
  let flg := (if b != 0 then RE_NOTBOL else 0) ||| (if Bytes.hd (s.drop oe) != 0 then RE_NOTEOL else 0)
  match orc (if ctx < 0 then 1 else 0) str flg with
  | none => some none
  | some (found, subs) =>
    match dirmark found with
    | none => none
    | some (_, dir, grp) =>
      let sub (k : Nat) : Int := subs.getD k (-1)
      let rb := b + ucOff str (sub 0).toNat
      let re := b + ucOff str (sub 1).toNat
      let cb := if sub (grp * 2) ≥ 0 then b + ucOff str (sub (grp * 2)).toNat else rb
      let ce := if sub (grp * 2 + 1) ≥ 0 then b + ucOff str (sub (grp * 2 + 1)).toNat else re
      some (some ⟨rb, re, cb, ce, dir, grp > 0⟩)

/-- `dir_reverse(ord, beg, end)`: reverse the slice `[beg, end)`; `none` = out of bounds -/
def dirReverse (ord : List Nat) (b e : Nat) : Option (List Nat) :=
  if b < e then
    (if e ≤ ord.length then some (ord.take b ++ ((ord.drop b).take (e - b)).reverse ++ ord.drop e) else none)
  else some ord

/-- abstract matcher used by `dir_fix` -/
abbrev Matcher := Nat → Nat → Int → Option (Option DMatch)

/-- conditional reversal (`if (dir < 0) dir_reverse(...)`) -/
def revIf (c : Bool) (ord : List Nat) (b e : Nat) : Option (List Nat) :=
  if c then dirReverse ord b e else some ord

/-- `dir_fix`; fuel bounds the loop and the recursion together; `none` = trap or out of fuel -/
def dirFix (M : Matcher) : (fuel : Nat) → List Nat → Int → Nat → Nat → Option (List Nat)
  | 0, ord, _, b, e => if b < e then none else some ord
  | fuel + 1, ord, dir, b, e =>
    if b < e then
      match M b e dir with
      | none => none
      | some none => some ord
      | some (some m) =>
        (revIf (decide (dir < 0)) ord m.rBeg m.rEnd).bind fun ord1 =>
        (revIf (decide (m.cDir < 0)) ord1 m.cBeg m.cEnd).bind fun ord2 =>
        (if m.cRec then dirFix M fuel ord2 m.cDir (if m.cBeg == m.rBeg then m.cBeg + 1 else m.cBeg) m.cEnd
         else some ord2).bind fun ord3 =>
        dirFix M fuel ord3 dir m.rEnd e
    else some ord

/-- `conf_dircontext(idx)` direction -/
def dircontextDir (idx : Nat) : Option Int := (Gen.dircontexts[idx]?).map (·.1)

/-- `dir_context(s)` -/
def dirContext (orc : Oracle) (xtd : Int) (s : Bytes) : Int :=
  if xtd > 1 then 1
  else if xtd < -1 then -1
  else if xtd == 0 && (Bytes.hd s &&& 0x80 == 0) then 1
  else
    match (orc 2 s 0).bind (fun r => dircontextDir r.1) with
    | some d => d
    | none => if xtd < 0 then -1 else 1

/-- `ord[n - 1] = n - 1` when the line ends in a newline -/
def setLast (ord : List Nat) (c : Bool) (k : Nat) : List Nat := if c then ord.set k k else ord

/-- `dir_reorder(s, ord)` -/
def dirReorder (orc : Oracle) (xtd : Int) (s : Bytes) (ord : List Nat) : Option (List Nat) :=
  let chop := ucChop s
  let n := chop.length - 1
  let dir := dirContext orc xtd s
  let lastNl : Bool := n > 0 && (match chop[n - 1]? with | some o => Bytes.hd (s.drop o) == 10 | none => false)
  let n' := if lastNl then n - 1 else n
  let ord' := setLast ord lastNl (n - 1)
  dirFix (fun b e c => dirMatch orc s chop b e c) (n' + 1) ord' dir 0 n'

end Neatvi.Dir
