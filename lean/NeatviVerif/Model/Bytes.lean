/-!
# Bytes: conventions shared by every model file

A C string is a `List Nat` of its bytes *without* the terminating NUL; every byte is `< 256`
and non-zero under the well-formedness predicate `Bytes.wf`.  A `char *` into the string is the
suffix that starts there (forward scans) or a zipper (backward scans).  Reading the terminator is
reading the head of `[]` and yields `0`, as in C.
-/
namespace Neatvi

abbrev Bytes := List Nat

namespace Bytes

def wf (s : Bytes) : Prop := ∀ b ∈ s, 0 < b ∧ b < 256

/-- `*s` for the pointer represented by suffix `s` (the terminator reads as 0). -/
def hd (s : Bytes) : Nat := s.headD 0

@[simp] theorem hd_nil : hd [] = 0 := rfl
@[simp] theorem hd_cons (a : Nat) (s : Bytes) : hd (a :: s) = a := rfl

/-- `(c & 0xc0) == 0x80` on a byte. -/
def isCont (b : Nat) : Bool := 128 ≤ b && b < 192

/-- `c & 0x80` on a byte. -/
def isHigh (b : Nat) : Bool := 128 ≤ b

/-- `(c & 0xc0) == 0xc0` on a byte (< 256). -/
def isLead (b : Nat) : Bool := 192 ≤ b

end Bytes
end Neatvi
