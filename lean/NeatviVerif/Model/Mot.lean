import NeatviVerif.Model.Lbuf
import NeatviVerif.Model.Rset
import NeatviVerif.Model.Ren
/-!
# Model of `mot.c`: motions over the line buffer (rows and character offsets)
-/
namespace Neatvi.Mot
open Neatvi Neatvi.Uc Neatvi.Lbuf Neatvi.Rset

abbrev Lines := List Bytes

def lineAt (ls : Lines) (r : Int) : Option Bytes := if r < 0 then none else ls[r.toNat]?

/-- `uc_chr(ln, off)` as a suffix; `[]` stands for a pointer to a NUL (the terminator or `""`) -/
def chrAt (ln : Bytes) (off : Int) : Bytes :=
  if off < 0 then [] else match ucChr ln off.toNat with
    | some i => ln.drop i
    | none => []

/-- `lbuf_chr(lb, r, c)` -/
def lbufChr (ls : Lines) (r o : Int) : Bytes := match lineAt ls r with
  | some ln => chrAt ln o
  | none => []

/-- `uc_slen(lbuf_get(lb, r))` or 0 -/
def slenAt (ls : Lines) (r : Int) : Int := match lineAt ls r with | some ln => ucSlen ln | none => 0

/-- `lbuf_indents(lb, r)` -/
def indents (ls : Lines) (r : Int) : Int := match lineAt ls r with
  | none => 0
  | some ln => ((ln.takeWhile (fun c => c != 10 && ucIsSpace c)).length : Nat)

/-- `lbuf_eol(lb, row)` -/
def eol (ls : Lines) (r : Int) : Int := let n := slenAt ls r; if n != 0 then n - 1 else 0

/-- `lbuf_lnnext` -/
def lnNext (ls : Lines) (dir : Int) (r o : Int) : Option Int :=
  let off := o + dir
  if off < 0 || (lineAt ls r).isNone || off ≥ slenAt ls r then none else some off

/-- `lbuf_next(lb, dir, &r, &o)`: `none` = returns -1 -/
def next (ls : Lines) (dir : Int) (r o : Int) : Option (Int × Int) :=
  let r := if dir < 0 && r ≥ ls.length then max 0 ((ls.length : Int) - 1) else r
  match lnNext ls dir r o with
  | some o' => some (r, o')
  | none =>
    if (lineAt ls (r + dir)).isNone then none
    else some (r + dir, if dir > 0 then 0 else eol ls (r + dir))

def kindAt (ls : Lines) (r o : Int) : Nat := ucKind (Bytes.hd (lbufChr ls r o))
def codeAt (ls : Lines) (r o : Int) : Nat := (ucCode (lbufChr ls r o)).getD 0
def isSpaceAt (ls : Lines) (r o : Int) : Bool := ucIsSpace (Bytes.hd (lbufChr ls r o))

/-- `lbuf_findchar(lb, cs, cmd, n, &row, &off)`: `none` = returns 1 -/
def findchar (ls : Lines) (cs : Bytes) (cmd : Nat) (n : Int) (r o : Int) : Option Int :=
  match lineAt ls r with
  | none => none
  | some ln =>
    let dir0 : Int := if cmd == 102 || cmd == 116 then 1 else -1
    let dir := if n < 0 then -dir0 else dir0
    let n := if n < 0 then -n else n
    let len : Int := ucSlen ln
    let want := (ucCode cs).getD 0
    -- `uc_nextdir`: forward stops when the next character is the terminator
    let stepd (p : Int) (d : Int) : Option Int :=
      if d < 0 then (if p ≤ 0 then none else some (p - 1))
      else (if p + 1 ≥ len then none else some (p + 1))
    let rec go : Nat → Int → Int → Int × Int
      | 0, p, k => (p, k)
      | f + 1, p, k =>
        if k ≤ 0 then (p, k) else
        match stepd p dir with
        | none => (p, k)
        | some p' => go f p' (if (ucCode (chrAt ln p')).getD 0 == want then k - 1 else k)
    -- the position handed to uc_chr may lie beyond the line: then `s` is `""` and nothing moves
    let start : Int := if o < len then o else len
    let (p, k) := go (ln.length + 2) start n
    if k != 0 then none else
    let p := if cmd == 116 || cmd == 84 then (stepd p (-dir)).getD p else p
    some p

/-- `lbuf_paragraphbeg` -/
def paragraphbeg (ls : Lines) (dir : Int) (r : Int) : Int × Int :=
  let n : Int := ls.length
  let isBlank (r : Int) : Bool := lineAt ls r == some [10]
  let rec skip : Nat → Int → Bool → Int
    | 0, r, _ => r
    | f + 1, r, blank => if r ≥ 0 && r < n && (isBlank r == blank) then skip f (r + dir) blank else r
  let r1 := skip (ls.length + 1) r true
  let r2 := skip (ls.length + 1) r1 false
  (max 0 (min r2 (n - 1)), 0)

/-- `lbuf_wordlast(lb, kind, dir, &row, &off)`: (returned 1?, r, o) -/
def wordlast (ls : Lines) (kind : Nat) (dir : Int) (r o : Int) : Bool × Int × Int :=
  if kind == 0 || (kindAt ls r o &&& kind) == 0 then (false, r, o) else
  let rec go : Nat → Int → Int → Bool × Int × Int
    | 0, r, o => (true, r, o)
    | f + 1, r, o =>
      if (kindAt ls r o &&& kind) != 0 then
        match next ls dir r o with
        | none => (true, r, o)
        | some (r', o') => go f r' o'
      else (false, r, o)
  let total := ls.foldl (fun a l => a + l.length) 0 + 2
  match go total r o with
  | (true, r, o) => (true, r, o)
  | (false, r, o) =>
    if (kindAt ls r o &&& kind) == 0 then
      match next ls (-dir) r o with
      | some (r', o') => (false, r', o')
      | none => (false, r, o)
    else (false, r, o)

/-- `lbuf_wordbeg(lb, big, dir, &row, &off)`: (failed?, r, o) -/
def wordbeg (ls : Lines) (big : Bool) (dir : Int) (r o : Int) : Bool × Int × Int :=
  let (_, r, o) := wordlast ls (if big then 3 else kindAt ls r o) dir r o
  let nl0 : Nat := if codeAt ls r o == 10 then 1 else 0
  match next ls dir r o with
  | none => (true, r, o)
  | some (r, o) =>
    let rec go : Nat → Int → Int → Nat → Bool × Int × Int
      | 0, r, o, _ => (true, r, o)
      | f + 1, r, o, nl =>
        if isSpaceAt ls r o then
          let nl := if codeAt ls r o == 10 then nl + 1 else 0
          if nl == 2 then (false, r, o) else
          match next ls dir r o with
          | none => (true, r, o)
          | some (r', o') => go f r' o' nl
        else (false, r, o)
    go (ls.foldl (fun a l => a + l.length) 0 + 2) r o nl0

/-- `lbuf_wordend(lb, big, dir, &row, &off)` -/
def wordend (ls : Lines) (big : Bool) (dir : Int) (r o : Int) : Bool × Int × Int :=
  let step1 : Option (Int × Int × Nat) :=
    if !isSpaceAt ls r o then
      match next ls dir r o with
      | none => none
      | some (r', o') => some (r', o', if dir < 0 && codeAt ls r' o' == 10 then 1 else 0)
    else some (r, o, 0)
  match step1 with
  | none => (true, r, o)
  | some (r, o, nl) =>
    let nl := nl + (if dir > 0 && codeAt ls r o == 10 then 1 else 0)
    let rec go : Nat → Int → Int → Nat → Option (Bool × Int × Int)      -- some = return now
      | 0, r, o, _ => some (true, r, o)
      | f + 1, r, o, nl =>
        if isSpaceAt ls r o then
          match next ls dir r o with
          | none => some (true, r, o)
          | some (r', o') =>
            let nl := if codeAt ls r' o' == 10 then nl + 1 else 0
            if nl == 2 then
              (if dir < 0 then
                (match next ls (-dir) r' o' with
                 | some (r2, o2) => some (false, r2, o2)
                 | none => some (false, r', o'))
               else some (false, r', o'))
            else go f r' o' nl
        else none
    -- `none` from `go` means the loop ended on a non-space character at its current position;
    -- recompute that position with a second pass that returns it
    let rec pos : Nat → Int → Int → Nat → Int × Int
      | 0, r, o, _ => (r, o)
      | f + 1, r, o, nl =>
        if isSpaceAt ls r o then
          match next ls dir r o with
          | none => (r, o)
          | some (r', o') =>
            let nl := if codeAt ls r' o' == 10 then nl + 1 else 0
            if nl == 2 then (r', o') else pos f r' o' nl
        else (r, o)
    let total := ls.foldl (fun a l => a + l.length) 0 + 2
    match go total r o nl with
    | some res => res
    | none =>
      let (r, o) := pos total r o nl
      let (f, r, o) := wordlast ls (if big then 3 else kindAt ls r o) dir r o
      (f, r, o)

/-- `lbuf_pair(lb, &row, &off)` -/
def pair (ls : Lines) (r o : Int) : Option (Int × Int) :=
  let pairs : Bytes := [40, 41, 91, 93, 123, 125]
  -- scan right on the line for a bracket; `o++` may run past the line (then the byte is NUL)
  let rec find : Nat → Int → Option (Int × Nat)
    | 0, _ => none
    | f + 1, o =>
      let c := Bytes.hd (lbufChr ls r o)
      if c == 0 then none else if pairs.contains c then some (o, c) else find f (o + 1)
  match find ((slenAt ls r).toNat + 2) o with
  | none => none
  | some (o, pchr) =>
    let pidx := pairs.idxOf pchr
    let other := pairs.getD (pidx ^^^ 1) 0
    let dir : Int := if pidx &&& 1 == 1 then -1 else 1
    let rec go : Nat → Int → Int → Int → Option (Int × Int)
      | 0, _, _, _ => none
      | f + 1, r, o, dep =>
        match next ls dir r o with
        | none => none
        | some (r', o') =>
          let c := Bytes.hd (lbufChr ls r' o')
          let dep := if c == other then dep - 1 else dep
          let dep := if c == pchr then dep + 1 else dep
          if dep == 0 then some (r', o') else go f r' o' dep
    go (ls.foldl (fun a l => a + l.length) 0 + 2) r o 1

/-- `lbuf_search(lb, kw, dir, &r, &o, &len)`: `some none` = not found (returns 1), outer `none` = trap -/
def search (ls : Lines) (kw : Bytes) (icase : Bool) (dir : Int) (r0 o0 : Int) : Option (Option (Int × Int × Int)) :=
  match rstrMake kw (if icase then RE_ICASE else 0) with
  | none => none
  | some none => some none
  | some (some re) =>
    let n : Int := ls.length
    -- the inner `while` on one line
    let lineScan (i : Int) (s : Bytes) : Option (Option (Int × Int)) :=
      let off0 : Nat := if dir > 0 && r0 == i then (match ucChr s (o0 + 1).toNat with | some b => b | none => s.length + 1) else 0
      if off0 > s.length then none else      -- `uc_chr` returned `""`: a wild pointer
      let rec go : Nat → Nat → Option (Int × Int) → Option (Option (Int × Int))
        | 0, _, best => some best
        | f + 1, off, best =>
          match rstrFind re (s.drop off) 1 (if off != 0 then RE_NOTBOL else 0) Ex_ND Ex_NG with
          | none => none
          | some (res, offs, _) =>
            if res < 0 then some best else
            let so := (offs.getD 0 0).toNat; let eo := (offs.getD 1 0).toNat
            let mo : Int := ucOff s (off + so)
            if dir < 0 && r0 == i && mo ≥ o0 then some best else
            let mlen : Int := ucOff (s.drop (off + so)) (eo - so)
            let best := some (mo, mlen)
            let off' := off + (if eo > so then eo else eo + 1)
            if dir > 0 || off' ≥ s.length || s.getD off' 0 == 10 then some best else go f off' best
      go (s.length + 2) off0 none
    let rec rows : Nat → Int → Option (Option (Int × Int × Int))
      | 0, _ => some none
      | f + 1, i =>
        if i < 0 || i ≥ n then some none else
        match lineAt ls i with
        | none => some none
        | some s =>
          match lineScan i s with
          | none => none
          | some (some (o, l)) => some (some (i, o, l))
          | some none => rows f (i + dir)
    rows (ls.length + 1) r0
where
  Ex_ND : Nat := Gen.NDEPT
  Ex_NG : Nat := Gen.NGRPS

end Neatvi.Mot
