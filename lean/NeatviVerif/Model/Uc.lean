import NeatviVerif.Model.Bytes
import NeatviVerif.Generated.Tables
/-!
# Model of `uc.c` (and of the private copies `uc_len`/`uc_dec`/`uc_beg` in `regex.c`)

Pointers are suffixes: `uc_end(s)` returns the *offset* of its result relative to `s`.
Backward scans take the bytes before the pointer, nearest first (`rev`).
Bit tests are written with the C masks; `Lemmas/UcBits` relates them to arithmetic.
-/
namespace Neatvi.Uc
open Neatvi

/-- `uc_len` on the first byte `c` (`0` for the terminator). -/
def ucLen (c : Nat) : Nat :=
  if c &&& 0xc0 != 0xc0 then (if c > 0 then 1 else 0)
  else if c &&& 0x20 == 0 then 2
  else if c &&& 0x10 == 0 then 3
  else if c &&& 0x08 == 0 then 4
  else 1

/-- read `s[k]`: bytes of the string, then the terminator, then out of bounds. -/
def rd (s : Bytes) (k : Nat) : Option Nat :=
  if k < s.length then s[k]? else if k = s.length then some 0 else none

/-- `uc_code` / `uc_dec`.  A character cut short by the terminator decodes to its lead byte: the C code does not
    read past the terminator (`!s[1] ? c : …`, `!s[1] || !s[2] ? c : …`); the result is never `none`. -/
def ucCode (s : Bytes) : Option Nat :=
  let c := Bytes.hd s
  if c &&& 0xc0 != 0xc0 then some c
  else if c &&& 0x20 == 0 then do
    let b1 ← rd s 1
    some (((c &&& 0x1f) <<< 6) ||| (b1 &&& 0x3f))
  else if c &&& 0x10 == 0 then
    match rd s 1, rd s 2 with
    | some b1, some b2 =>
      if b1 == 0 then some c else some (((c &&& 0x0f) <<< 12) ||| ((b1 &&& 0x3f) <<< 6) ||| (b2 &&& 0x3f))
    | _, _ => some c
  else if c &&& 0x08 == 0 then
    match rd s 1, rd s 2, rd s 3 with
    | some b1, some b2, some b3 =>
      if b1 == 0 || b2 == 0 then some c
      else some (((c &&& 0x07) <<< 18) ||| ((b1 &&& 0x3f) <<< 12) ||| ((b2 &&& 0x3f) <<< 6) ||| (b3 &&& 0x3f))
    | _, _, _ => some c
  else some c

/-- `(c & 0xc0) == 0x80` -/
def contB (c : Nat) : Bool := c &&& 0xc0 == 0x80

/-- number of leading continuation bytes -/
def contRun : Bytes → Nat
  | [] => 0
  | b :: r => if contB b then contRun r + 1 else 0

/-- `uc_end(s) - s` -/
def ucEnd (s : Bytes) : Nat :=
  match s with
  | [] => 0
  | c :: r =>
    if c &&& 0x80 == 0 then 0
    else if c &&& 0xc0 == 0xc0 then (1 + contRun r) - 1
    else contRun (c :: r) - 1

/-- `uc_next(s) - s` -/
def ucNext (s : Bytes) : Nat :=
  let e := ucEnd s
  if Bytes.hd (s.drop e) != 0 then e + 1 else e

/-- `s - uc_beg(beg, s)` where `cur = *s` and `rev` are the bytes before `s`, nearest first. -/
def ucBeg (cur : Nat) (rev : Bytes) : Nat :=
  match rev with
  | [] => 0
  | p :: rev' => if contB cur then ucBeg p rev' + 1 else 0

/-- `s - uc_prev(beg, s)`; `rev` are the bytes before `s`, nearest first -/
def ucPrev (rev : Bytes) : Nat :=
  match rev with
  | [] => 0
  | p :: rev' => ucBeg p rev' + 1

/-- `uc_slen`; fuel = length bound (each round consumes ≥ 1 byte). -/
def ucSlenF : Nat → Bytes → Nat
  | 0, _ => 0
  | f + 1, s => if Bytes.hd s == 0 then 0 else ucSlenF f (s.drop (ucEnd s + 1)) + 1

def ucSlen (s : Bytes) : Nat := ucSlenF s.length s

/-- `uc_chr(s, off) - s` for `off ≥ 0`; `none` = the `""` result (offset beyond the string). -/
def ucChrF : Nat → Bytes → Nat → Nat → Option Nat
  | 0, s, i, off => if Bytes.hd s == 0 then (if i == off then some 0 else none) else none
  | f + 1, s, i, off =>
    if Bytes.hd s == 0 then (if i == off then some 0 else none)
    else if i == off then some 0
    else (ucChrF f (s.drop (ucNext s)) (i + 1) off).map (· + ucNext s)

def ucChr (s : Bytes) (off : Nat) : Option Nat := ucChrF s.length s 0 off

/-- `uc_off(s, off)`: number of characters in the first `off` bytes -/
def ucOffF : Nat → Bytes → Nat → Nat
  | 0, _, _ => 0
  | f + 1, s, rem =>
    if 0 < rem && Bytes.hd s != 0 then ucOffF f (s.drop (ucNext s)) (rem - ucNext s) + 1 else 0

def ucOff (s : Bytes) (off : Nat) : Nat := ucOffF s.length s off

/-- `uc_sub(s, beg, end)` for `0 ≤ beg`, `0 ≤ end`.  An offset beyond the string makes the C
    compare against the address of a string literal; modelled as the empty result. -/
def ucSub (s : Bytes) (b e : Nat) : Bytes :=
  match ucChr s b, ucChr s e with
  | some ib, some ie => if ib ≤ ie then (s.drop ib).take (ie - ib) else []
  | _, _ => []

/-- `uc_chop`: byte offsets of the characters (and of the terminator) -/
def ucChopF : Nat → Bytes → Nat → List Nat
  | 0, _, base => [base]
  | f + 1, s, base =>
    if Bytes.hd s == 0 then [base] else base :: ucChopF f (s.drop (ucNext s)) (base + ucNext s)

def ucChop (s : Bytes) : List Nat := ucChopF s.length s 0

/-! ### ctype in the C locale -/
def isSpaceB (c : Nat) : Bool := c == 32 || (9 ≤ c && c ≤ 13)
def isDigitB (c : Nat) : Bool := 48 ≤ c && c ≤ 57
def isUpperB (c : Nat) : Bool := 65 ≤ c && c ≤ 90
def isLowerB (c : Nat) : Bool := 97 ≤ c && c ≤ 122
def isAlphaB (c : Nat) : Bool := isUpperB c || isLowerB c
def isAlnumB (c : Nat) : Bool := isAlphaB c || isDigitB c
def isPrintB (c : Nat) : Bool := 32 ≤ c && c ≤ 126
def toLowerB (c : Nat) : Nat := if isUpperB c then c + 32 else c

def ucIsSpace (c : Nat) : Bool := c ≤ 0x7f && isSpaceB c
def ucIsPrint (c : Nat) : Bool := c > 0x7f || isPrintB c
def ucIsAlpha (c : Nat) : Bool := c > 0x7f || isAlphaB c
def ucIsDigit (c : Nat) : Bool := c ≤ 0x7f && isDigitB c

/-- `uc_kind` on the first byte -/
def ucKind (c : Nat) : Nat :=
  if ucIsSpace c then 0 else if ucIsAlpha c || ucIsDigit c || c == 95 then 1 else 2

/-! ### range tables -/
abbrev Tab := List (Nat × Nat)

/-- `find` of uc.c: bisection on the inclusive window `[l, h]`, kept here as `[l, h1)` with `h1 = h + 1`. -/
def bis (t : Tab) (c : Nat) : (fuel l h1 : Nat) → Bool
  | 0, _, _ => false
  | f + 1, l, h1 =>
    if l < h1 then
      let m := (l + h1 - 1) / 2
      match t[m]? with
      | none => false
      | some r =>
        if r.1 ≤ c && c ≤ r.2 then true
        else if c < r.1 then bis t c f l m
        else bis t c f (m + 1) h1
    else false

def find (c : Nat) (t : Tab) : Bool :=
  match t with
  | [] => false
  | r0 :: _ => if c < r0.1 then false else bis t c t.length 0 t.length

def ucIsDw (c : Nat) : Bool := c ≥ 0x1100 && find c Gen.dwchars
def ucIsZw (c : Nat) : Bool := c ≥ 0x0300 && find c Gen.zwchars

/-- `uc_wid` on a code point -/
def ucWidC (c : Nat) : Nat := if ucIsZw c then 0 else if ucIsDw c then 2 else 1

/-- `uc_acomb` -/
def ucAcomb (c : Nat) : Bool := Gen.acomb.any (fun r => r.1 ≤ c && c ≤ r.2)

/-- `uc_isbell` given first byte and code point -/
def ucIsBellC (b c : Nat) : Bool :=
  if b == 32 || b == 9 || b == 10 || (b ≥ 0x20 && b < 0x7f) then false
  else ucIsZw c || find c Gen.bchars

/-- `uc_iscomb` given first byte and code point -/
def ucIsCombC (b c : Nat) : Bool :=
  if b == 32 || b == 9 || b == 10 || (b ≤ 0x7f && isPrintB b) then false
  else ucAcomb c

def ucWid (s : Bytes) : Option Nat := (ucCode s).map ucWidC
def ucIsBell (s : Bytes) : Option Bool :=
  let b := Bytes.hd s
  if b == 32 || b == 9 || b == 10 || (b ≥ 0x20 && b < 0x7f) then some false
  else (ucCode s).map (ucIsBellC b)
def ucIsComb (s : Bytes) : Option Bool :=
  let b := Bytes.hd s
  if b == 32 || b == 9 || b == 10 || (b ≤ 0x7f && isPrintB b) then some false
  else (ucCode s).map (ucIsCombC b)

/-! ### Arabic shaping -/
structure AChar where
  c : Nat
  s : Nat
  i : Nat
  m : Nat
  f : Nat
deriving Repr, DecidableEq

def acharOf (r : Nat × Nat × Nat × Nat × Nat) : AChar := ⟨r.1, r.2.1, r.2.2.1, r.2.2.2.1, r.2.2.2.2⟩

/-- `find_achar`: bisection on `[l, h)` -/
def findAcharF (t : List (Nat × Nat × Nat × Nat × Nat)) (c : Nat) : (fuel l h : Nat) → Option AChar
  | 0, _, _ => none
  | f + 1, l, h =>
    if l < h then
      let m := (h + l) / 2
      match t[m]? with
      | none => none
      | some r =>
        if r.1 = c then some (acharOf r)
        else if c < r.1 then findAcharF t c f l m
        else findAcharF t c f (m + 1) h
    else none

def findAcharIn (t : List (Nat × Nat × Nat × Nat × Nat)) (c : Nat) : Option AChar :=
  findAcharF t c (t.length + 1) 0 t.length

def findAchar (c : Nat) : Option AChar := findAcharIn Gen.achars c

def canJoin (c1 c2 : Nat) : Bool :=
  match findAchar c1, findAchar c2 with
  | some a1, some a2 => (a1.i != 0 || a1.m != 0) && (a2.f != 0 || a2.m != 0)
  | _, _ => false

/-- `uc_cshape` -/
def ucCshape (cur prev next : Nat) : Nat :=
  match findAchar cur with
  | none => cur
  | some ac =>
    let jp := canJoin prev cur
    let jn := canJoin cur next
    let c := if jp && jn then ac.m else if jp && !jn then ac.f else if !jp && jn then ac.i else ac.c
    if c != 0 then c else cur

def ucR2L (ch : Nat) : Bool := Gen.ucR2L.any (fun t => ch &&& t.1 == t.2)

/-- `uc_cput`: encoder used by `uc_shape` -/
def ucPut (c : Nat) : Bytes :=
  if c > 0xffff then
    [(0xf0 ||| (c >>> 18)) % 256, 0x80 ||| ((c >>> 12) &&& 0x3f), 0x80 ||| ((c >>> 6) &&& 0x3f), 0x80 ||| (c &&& 0x3f)]
  else if c > 0x7ff then
    [(0xe0 ||| (c >>> 12)) % 256, 0x80 ||| ((c >>> 6) &&& 0x3f), 0x80 ||| (c &&& 0x3f)]
  else if c > 0x7f then
    [(0xc0 ||| (c >>> 6)) % 256, 0x80 ||| (c &&& 0x3f)]
  else [c]

/-- `uc_shape(beg, s)` on the code points of the line: the shaped code point of character `k`,
    `none` when the C returns NULL (not a right-to-left character) -/
def ucShapeAt (codes : List Nat) (k : Nat) : Option Nat :=
  let curr := codes.getD k 0
  if curr == 0 || !ucR2L curr then none
  else
    let prev := ((codes.take k).reverse.find? (fun c => !ucAcomb c)).getD 0
    let next := (((codes.drop (k + 1)) ++ [0]).find? (fun c => !ucAcomb c)).getD 0
    some (ucCshape curr prev next)

end Neatvi.Uc
