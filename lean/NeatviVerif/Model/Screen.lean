import NeatviVerif.Model.Mot
/-!
# Model of the screen updates of vi.c (`vi_drawrow`, `vi_drawagain`, `vi_drawupdate`, `vi_drawfix`
and the redraw decision at the end of the command loop) over an abstract terminal

The terminal is abstracted to what each text row was last drawn from: the buffer line handed to
`led_print` and the horizontal offset `xleft` (the rendering of a line into cells is a function of
these two and of options that do not change between redraws).  `term_room(n)` inserts or deletes rows
at the cursor row inside the scrolling region, which `vi_switch` sets to exactly the text rows.
-/
namespace Neatvi.Screen
open Neatvi Neatvi.Mot

/-- the image of a row: the line that was drawn (`none`: a row past the end of the buffer) and `xleft` -/
abbrev Img := Option Bytes × Int
/-- one entry per text row; `none` = blank (scrolled in by `term_room`, never drawn) -/
abbrev Scr := List (Option Img)

/-- a primitive terminal operation, as the harness logs it -/
inductive Op where
  | room (r : Int) (n : Int)     -- term_pos(r, 0); term_room(n)
  | row (k : Int)                -- led_print(.., k, ..): the text row k is redrawn
deriving Repr, BEq, DecidableEq

def blank (k : Nat) : Scr := List.replicate k none

/-- `term_room(n)` with the cursor on row `r` of a scrolling region of `s.length` rows -/
def room (s : Scr) (r : Int) (n : Int) : Scr :=
  if r < 0 || r ≥ s.length then s else
  let r := r.toNat
  let rows := s.length
  if n < 0 then
    let k := min (-n).toNat (rows - r)
    s.take r ++ s.drop (r + k) ++ blank k
  else if n > 0 then
    let k := min n.toNat (rows - r)
    s.take r ++ blank k ++ (s.drop r).take (rows - r - k)
  else s

/-- what `vi_drawrow(i)` draws -/
def img (ls : Lines) (xleft : Int) (i : Int) : Img := (lineAt ls i, xleft)

/-- `vi_drawrow(i)`: draws buffer row `i` on text row `i - xtop` -/
def drawRow (s : Scr) (ls : Lines) (xtop xleft : Int) (i : Int) : Scr :=
  let k := i - xtop
  if k < 0 || k ≥ s.length then s else s.set k.toNat (some (img ls xleft i))

/-- what a full repaint shows -/
def repaint (ls : Lines) (xtop xleft : Int) (rows : Nat) : Scr :=
  (List.range rows).map (fun (k : Nat) => some (img ls xleft (xtop + (k : Int))))

/-- draw the buffer rows `is` in order -/
def drawRows (s : Scr) (ls : Lines) (xtop xleft : Int) (is : List Int) : Scr :=
  is.foldl (fun s i => drawRow s ls xtop xleft i) s

/-- `vi_drawagain(xcol, row)`: every row of the window, or only `row` -/
def drawAgain (s : Scr) (ls : Lines) (xtop xleft : Int) (row : Int) : Scr :=
  drawRows s ls xtop xleft (((List.range s.length).map (fun (k : Nat) => xtop + (k : Int))).filter (fun i => row < 0 || i == row))

/-- `vi_drawupdate(otop)` -/
def drawUpdate (s : Scr) (ls : Lines) (otop xtop xleft : Int) : Scr :=
  let xrows : Int := s.length
  if otop == xtop then s else
  let s := room s 0 (otop - xtop)
  if xtop > otop then
    let n := min (xtop - otop) xrows
    drawRows s ls xtop xleft ((List.range n.toNat).map (fun (i : Nat) => xtop + xrows - n + (i : Int)))
  else
    let n := min (otop - xtop) xrows
    drawRows s ls xtop xleft ((List.range n.toNat).map (fun (i : Nat) => xtop + (i : Int)))

/-- `vi_drawfix(r1, r2, n, preview)`: (screen, the `xtop` it leaves) -/
def drawFix (s : Scr) (ls : Lines) (xtop xleft : Int) (r1 r2 n : Int) (preview : Bool) : Scr × Int :=
  let xrows : Int := s.length
  let dis := n - (r2 - r1 + 1)
  let xtop := if preview && r1 < xtop then r1 else xtop
  -- the replaced lines start above the window: the whole window is redrawn
  if r1 < xtop then (drawRows s ls xtop xleft ((List.range s.length).map (fun (k : Nat) => xtop + (k : Int))), xtop) else
  let r1 := min (max r1 xtop) (xtop + xrows - 1)
  let r2 := min (max r2 xtop) (xtop + xrows - 1)
  let s := room s (r1 - xtop) (r1 - r2 - 1 + n)
  let s :=
    if dis < 0 && r1 + n < xtop + xrows then
      let xt := xtop + (if preview then -dis else 0)
      let from_ := r1 + n + (if preview then -dis else 0)
      drawRows s ls xt xleft ((List.range (xt + xrows - from_).toNat).map (fun (i : Nat) => from_ + (i : Int)))
    else s
  let s := drawRows s ls xtop xleft ((List.range (xtop + xrows - r1).toNat).filterMap (fun (i : Nat) =>
    let row := r1 + (i : Int); if row < r1 + n then some row else none))
  (s, xtop)

/-- the primitive operations of the three update routines, as the harness logs them -/
def drawAgainOps (rows : Nat) (xtop : Int) (row : Int) : List Op :=
  (((List.range rows).map (fun (k : Nat) => xtop + (k : Int))).filter (fun i => row < 0 || i == row)).map (fun i => Op.row (i - xtop))

def drawUpdateOps (rows : Nat) (otop xtop : Int) : List Op :=
  let xrows : Int := rows
  if otop == xtop then [] else
  (if otop - xtop != 0 then [Op.room 0 (otop - xtop)] else []) ++
  (if xtop > otop then
    let n := min (xtop - otop) xrows
    (List.range n.toNat).map (fun (i : Nat) => Op.row (xrows - n + (i : Int)))
  else
    let n := min (otop - xtop) xrows
    (List.range n.toNat).map (fun (i : Nat) => Op.row (i : Int)))

/-- the primitive operations of `vi_drawfix(r1, r2, n, preview)` entered with the given `xtop` -/
def drawFixOps (rows : Nat) (xtop : Int) (r1 r2 n : Int) (preview : Bool) : List Op :=
  let xrows : Int := rows
  let dis := n - (r2 - r1 + 1)
  let xtop := if preview && r1 < xtop then r1 else xtop
  if r1 < xtop then (List.range rows).map (fun (k : Nat) => Op.row (k : Int)) else
  let r1 := min (max r1 xtop) (xtop + xrows - 1)
  let r2 := min (max r2 xtop) (xtop + xrows - 1)
  [Op.room (r1 - xtop) (r1 - r2 - 1 + n)] ++
  (if dis < 0 && r1 + n < xtop + xrows then
    let xt := xtop + (if preview then -dis else 0)
    let from_ := r1 + n + (if preview then -dis else 0)
    (List.range (xt + xrows - from_).toNat).map (fun (i : Nat) => Op.row (from_ + (i : Int) - xt))
   else []) ++
  ((List.range (xtop + xrows - r1).toNat).filterMap (fun (i : Nat) =>
    let row := r1 + (i : Int); if row < r1 + n then some (Op.row (row - xtop)) else none))

/-- the redraw decision at the end of an iteration of `vi()` (without the message row and `hll`) -/
def epilogue (s : Scr) (ls : Lines) (modRowOrWin : Bool) (modRow : Bool) (otop oleft orow xtop xleft xrow : Int) : Scr :=
  if modRowOrWin || xleft != oleft then
    let lineonly := modRow && xleft == oleft && xtop == otop
    let s := drawAgain s ls xtop xleft (if lineonly then xrow else -1)
    if lineonly && xrow != orow then drawAgain s ls xtop xleft orow else s
  else
    if xtop != otop then drawUpdate s ls otop xtop xleft else s

end Neatvi.Screen
