import NeatviVerif.Model.Ex
/-!
# Model of `ex.c`, part 2: the `ec_*` commands, `ex_exec`, `ex_command`, the `ex()` loop
-/
namespace Neatvi.Ex
open Neatvi Neatvi.Lbuf Neatvi.LbufIo Neatvi.Rset

def hasBang (cmd : Bytes) : Bool := cmd.contains 33

/-- `ex_txt(src, &txt, excmd)`: (text or NULL, rest of the command line) -/
def exTxt (ed : Ed) (src : Bytes) (excmd : Bytes) : (Option Bytes × Bytes) × Ed :=
  let c0 := excmd.headD 0
  let c1 := if c0 != 0 then excmd.getD 1 0 else 0
  if c0 == 114 && c1 == 115 && !src.isEmpty then
    -- inline text up to "\n.\n"
    let rec cut : Nat → Bytes → Bytes → Bytes × Bytes
      | 0, s, acc => (acc, s)
      | f + 1, s, acc =>
        match s with
        | [] => (acc, [])
        | c :: r => if c == 10 && r.headD 0 == 46 && r.getD 1 0 == 10 then (acc, s) else cut f r (acc ++ [c])
    let (body, rest) := cut (src.length + 1) src []
    ((some (body ++ [10]), if rest.isEmpty then [] else rest.drop 3), ed)
  else if (c0 == 114 && c1 == 115) || (c1 == 0 && (c0 == 105 || c0 == 97 || c0 == 99)) then
    let rec rd : Nat → List Bytes → Bytes → Bytes × List Bytes
      | 0, inp, acc => (acc, inp)
      | f + 1, inp, acc =>
        match inp with
        | [] => (acc, [])
        | l :: r => if l == [46] then (acc, r) else rd f r (acc ++ l ++ [10])
    let (txt, inp) := rd (ed.input.length + 1) ed.input []
    ((some txt, src), { ed with input := inp })
  else ((none, src), ed)

/-- `reg_get(c, &lnmode)` with the computed registers -/
def regGet (ed : Ed) (c : Nat) : Option Bytes :=
  let c := if c == 34 then 0 else c
  if c == 59 then some (((ed.line ed.xrow).getD []).takeWhile (· != 10))
  else if c == 35 then some (intStr (ed.xrow + 1))
  else if c == 94 then some (intStr (ed.xoff + 1))
  else (ed.regs.getRaw c).1

/-- `replace(dst, rep, ln, offs)` of ec_substitute: expand `\0`-`\9` and `\c`; `none` = garbage length -/
def substExpand (rep ln : Bytes) (offs : List Int) : Option Bytes :=
  let rec go : Nat → Bytes → Bytes → Option Bytes
    | 0, _, acc => some acc
    | f + 1, rep, acc =>
      match rep with
      | [] => some acc
      | c :: r =>
        if c == 92 && !r.isEmpty then
          let d := r.headD 0
          if 48 ≤ d && d ≤ 57 then
            let g := (d - 48) * 2
            let so := offs.getD g (-1); let eo := offs.getD (g + 1) (-1)
            let len := eo - so
            if len < 0 then none
            else if len == 0 then go f (r.drop 1) acc
            else if so < 0 || eo > ln.length then none
            else go f (r.drop 1) (acc ++ (ln.drop so.toNat).take len.toNat)
          else go f (r.drop 1) (acc ++ [d])
        else go f r (acc ++ [c])
  go (rep.length + 1) rep []

/-- the per-line loop of `ec_substitute`: returns the new line text, or `none` if no match -/
def substLine (re : RStr) (rep : Bytes) (g : Bool) (line : Bytes) : Option (Option Bytes) :=
  let rec go : Nat → Bytes → Option Bytes → Bool → Option (Option Bytes × Bytes)
    | 0, ln, r, _ => some (r, ln)
    | f + 1, ln, r, first =>
      match rstrFind re ln 16 (if first then 0 else RE_NOTBOL) ND NG with
      | none => none
      | some (res, offs, _) =>
        if res < 0 then some (r, ln) else
        let so := (offs.getD 0 0).toNat; let eo := offs.getD 1 0
        match substExpand rep ln offs with
        | none => none
        | some x =>
          let acc := (r.getD []) ++ ln.take so ++ x
          let ln1 := ln.drop eo.toNat
          -- zero-length match (`offs[1] <= offs[0]`): copy one character (`uc_len` bytes)
          let l := min (Uc.ucLen (ln1.headD 0)) ln1.length     -- MIN(uc_len(ln), strlen(ln))
          let empty := eo ≤ offs.getD 0 0
          let (acc, ln2) := if empty then (acc ++ ln1.take l, ln1.drop l) else (acc, ln1)
          if ln2.isEmpty || ln2.headD 0 == 10 || !g then some (some acc, ln2)
          else go f ln2 (some acc) false
  match go (line.length + 2) line none true with
  | none => none
  | some (none, _) => some none
  | some (some acc, rest) => some (some (acc ++ rest))

/-- which option variable a `:set` name designates -/
def optVar (name : Bytes) : Option String :=
  (Gen.options.find? (fun o => o.1 == name || o.2.1 == name)).map (·.2.2)

def setOpt (ed : Ed) (var : String) (val : Int) : Ed :=
  if var == "xaw" then { ed with xaw := val }
  else if var == "xwa" then { ed with xwa := val }
  else if var == "xic" then { ed with xic := val }
  else if var == "xtd" then { ed with xtd := val }
  else ed

/-- `ex_idx(cmd)`: (abbr, handler) -/
def exIdx (cmd : Bytes) : Option (Bytes × String) :=
  (Gen.excmds.find? (fun e => e.1 == cmd || e.2.1 == cmd)).map (fun e => (e.1, e.2.2))

/-- clamp as `MAX(0, MIN(x, len - 1))` -/
def clampRow (x len : Int) : Int := max 0 (min x (len - 1))

/-- copy the `+cmd` word of `:e +cmd file` (helper of `ex_plus`) -/
def copyUntilPlus : Nat → Bytes → Bytes → Bytes × Bytes
  | 0, s, acc => (acc, s)
  | f + 1, s, acc =>
    match s with
    | [] => (acc, [])
    | c :: r =>
      if c == 32 then (acc, s)
      else if c == 92 && !r.isEmpty then copyUntilPlus f (r.drop 1) (acc ++ [r.headD 0])
      else copyUntilPlus f r (acc ++ [c])

mutual
/-- `ec_edit(loc, cmd, arg, txt)` -/
def ecEdit : Nat → Ed → Bytes → Bytes → R Int
  | 0, _, _, _ => none
  | f + 1, ed, cmd, arg =>
    -- unsaved-changes guard
    let guard : R Bool :=
      if !hasBang cmd && ed.cur.isSome && ed.xwa == 0 then bufsModified ed 0 (some (strOf "buffer modified"))
      else some (false, ed)
    match guard with
    | none => none
    | some (true, ed) => some (1, ed)
    | some (false, ed) =>
      -- ex_plus
      let arg := arg.dropWhile (· == 32)
      let (pls, arg) :=
        if arg.headD 0 == 43 then
          let (p, r) := copyUntilPlus (arg.length + 1) arg []
          (p, r.dropWhile (fun c => c == 32 || c == 9))
        else ([], arg)
      match pathExpand ed arg false with
      | none => none
      | some (none, ed) => some (1, ed)
      | some (some path, ed) =>
        let ed := if !path.isEmpty && cmd.headD 0 == 101 && cmd.getD 1 0 == 119 && ed.bufsFind path > 1 then ed.bufsSwitch 1 else ed
        if !path.isEmpty && ed.bufsFind path ≥ 0 then
          let ed := ed.bufsSwitch (ed.bufsFind path).toNat
          if pls.headD 0 == 43 then exCommand f ed (pls.drop 1) else some (0, ed)
        else
          -- when the list is full the last buffer is dropped: not if it has unsaved changes
          let guard2 : R Bool :=
            if (!path.isEmpty || ed.cur.isNone) && ed.xwa == 0 then bufsModified ed ed.findRoom (some (strOf "last buffer modified"))
            else some (false, ed)
          match guard2 with
          | none => none
          | some (true, ed) => some (1, ed)
          | some (false, ed) =>
          let ed := if !path.isEmpty || ed.cur.isNone then
              let (idx, ed) := ed.bufsOpen path; ed.bufsSwitch idx
            else ed
          match ed.cur with
          | none => none
          | some b =>
            -- read the file if it can be opened
            let rdres : Option Ed := match ed.findFile b.path with
              | some fl =>
                if b.path.isEmpty then some ed else
                (match rd b.lb [fl.data] false 0 b.lb.lines.length with
                | none => none
                | some (_, lb) =>
                  let ed := ed.setLb lb
                  some (ed.show ([34] ++ b.path ++ strOf "\"  [=" ++ natStr lb.lines.length ++ strOf "]  [r]")))
              | none => some ed
            match rdres with
            | none => none
            | some ed =>
              match ed.cur with
              | none => none
              | some b =>
                let lb := savedCore b.lb (!path.isEmpty)
                let ed := ed.setCur { b with lb := (modified lb).2, mtime := ed.mtimeOf b.path }
                let len := ed.len
                let ed := { ed with xrow := clampRow ed.xrow len, xoff := 0, xtop := clampRow ed.xtop len }
                if pls.headD 0 == 43 then exCommand f ed (pls.drop 1) else some (0, ed)

/-- `ec_at` -/
def ecAt : Nat → Ed → Bytes → Bytes → Bytes → R Int
  | 0, _, _, _, _ => none
  | f + 1, ed, loc, cmd, arg =>
    match regGet ed (regName arg) with
    | none => some (1, ed)
    | some buf =>
      match exRegion ed loc with
      | none => none
      | some ((rc, b, _), ed) =>
        if rc != 0 then some (1, ed) else
        if ed.atDepth ≥ 16 then some (1, ed.show (strOf "register recursion too deep")) else
        let ed := { ed with xrow := b }
        if cmd.headD 0 == 114 && cmd.getD 1 0 == 97 then
          { ed with unmodelled := true } |> fun ed => some (1, ed)
        else
          match exCommand f { ed with atDepth := ed.atDepth + 1 } buf with
          | none => none
          | some (r, ed) => some (r, { ed with atDepth := ed.atDepth - 1 })

/-- `ec_glob` -/
def ecGlob : Nat → Ed → Bytes → Bytes → Bytes → R Int
  | 0, _, _, _, _ => none
  | f + 1, ed, loc, cmd, arg =>
    -- the marks of a line are the bits of a `char`: an eighth level is refused
    if ed.xgdep ≥ 7 then some (1, ed.show (strOf "global commands nested too deep")) else
    let loc := if loc.isEmpty && ed.xgdep == 0 then [37] else loc
    match exRegion ed loc with
    | none => none
    | some ((rc, b, e), ed) =>
      if rc != 0 then some (1, ed) else
      let neg := hasBang cmd || cmd.headD 0 == 118
      let (pat, s) := reRead arg
      let ed := match pat with | some p => if !p.isEmpty then ed.kwdSet (some p) 1 else ed | none => ed
      if ed.xkwddir == 0 then some (1, ed) else
      match ed.mkRe ed.xkwd with
      | none => none
      | some none => some (1, ed)
      | some (some re) =>
        let dep := ed.xgdep + 1
        let ed := { ed with xgdep := dep }
        let ed := (List.range (e - (b + 1)).toNat).foldl (fun (ed : Ed) k =>
          match ed.lb with | some lb => ed.setLb (globSet lb (b.toNat + 1 + k) dep) | none => ed) ed
        let rec scan : Nat → Ed → Int → Option Ed
          | 0, _, _ => none       -- the scan did not finish within its step budget: hang
          | g + 1, ed, i =>
            if i ≥ ed.len then some ed else
            match ed.line i with
            | none => none
            | some ln =>
              match rstrFind re ln 16 0 ND NG with
              | none => none
              | some (res, _, _) =>
                let stepres : Option (Bool × Ed × Int) :=
                  if (res < 0) == neg then
                    (match exExec f { ed with xrow := i } s with
                    | none => none
                    | some (r, ed) => if r != 0 then some (true, ed, i) else some (false, ed, max 0 (min i ed.xrow)))
                  else some (false, ed, i)
                match stepres with
                | none => none
                | some (true, ed, _) => some ed
                | some (false, ed, i) =>
                  if i < 0 then none else      -- `ln_glob[i]` with a negative index
                  -- advance to the next line that still carries the mark
                  let rec adv : Nat → Ed → Int → Ed × Int
                    | 0, ed, i => (ed, i)
                    | h + 1, ed, i =>
                      if i ≥ ed.len then (ed, i) else
                      match ed.lb with
                      | none => (ed, i)
                      | some lb =>
                        let (m, lb) := globGet lb i.toNat dep
                        let ed := ed.setLb lb
                        if m then (ed, i) else adv h ed (i + 1)
                  let (ed, i) := adv (ed.len.toNat + 1) ed i
                  scan g ed i
        match scan (4 * (ed.len.toNat + 4) * (ed.len.toNat + 4) + 64) ed b with
        | none => none
        | some ed =>
          let ed := match ed.lb with
            | some lb => ed.setLb ((List.range lb.lines.length).foldl (fun lb k => (globGet lb k dep).2) lb)
            | none => ed
          some (0, { ed with xgdep := dep - 1 })

/-- dispatch one parsed command -/
def runCmd : Nat → Ed → String → Bytes → Bytes → Bytes → Option Bytes → R Int
  | 0, _, _, _, _, _, _ => none
  | f + 1, ed, handler, loc, cmd, arg, txt =>
    let len := ed.len
    if handler == "ec_insert" then
      match exRegion ed loc with
      | none => none
      | some ((rc, b, e), ed) =>
        if rc != 0 && (b != 0 || e != 0) then some (1, ed) else
        let len := ed.len
        let b := if cmd.headD 0 == 97 then e else b
        let e := if cmd.headD 0 != 99 then b else e
        match ed.edit txt b e with
        | none => none
        | some ed =>
          let len' := ed.len
          some (0, { ed with xrow := min (len' - 1) (e + len' - len - 1) })
    else if handler == "ec_print" then
      if cmd.isEmpty && loc.isEmpty && ed.xrow ≥ len then some (1, ed) else
      match exRegion ed loc with
      | none => none
      | some ((rc, b, e), ed) =>
        if rc != 0 then some (1, ed) else
        let ed := (List.range (e - b).toNat).foldl (fun (ed : Ed) (k : Nat) =>
          match ed.line (b + (k : Int)) with | some l => ed.print l | none => ed) ed
        some (0, { ed with xrow := max b (e - 1), xoff := 0 })
    else if handler == "ec_null" then
      if !ed.xvis then
        let ed := { ed with xrow := if ed.xrow + 1 < len then ed.xrow + 1 else ed.xrow }
        runCmd f ed "ec_print" loc cmd arg txt
      else
        match exRegion ed loc with
        | none => none
        | some ((rc, b, e), ed) => if rc != 0 then some (1, ed) else some (0, { ed with xrow := max b (e - 1), xoff := 0 })
    else if handler == "ec_delete" || handler == "ec_yank" then
      match exRegion ed loc with
      | none => none
      | some ((rc, b, e), ed) =>
        if rc != 0 || ed.len == 0 then some (1, ed) else
        let ed := { ed with regs := ed.regs.put (regName arg) (ed.cp b e) 1 }
        if handler == "ec_yank" then some (0, ed) else
        match ed.edit none b e with
        | none => none
        | some ed => some (0, { ed with xrow := b })
    else if handler == "ec_put" then
      match regGet ed (regName arg) with
      | none => some (1, ed)
      | some buf =>
        match exRegion ed loc with
        | none => none
        | some ((rc, b, e), ed) =>
          if rc != 0 && (b != 0 || e != 0) then some (1, ed) else
          let n := ed.len
          match ed.edit (some buf) e e with
          | none => none
          | some ed => let len' := ed.len; some (0, { ed with xrow := min (len' - 1) (e + len' - n - 1) })
    else if handler == "ec_lnum" then
      match exRegion ed loc with
      | none => none
      | some ((rc, _, e), ed) => if rc != 0 then some (1, ed) else some (0, ed.print (intStr e ++ [10]))
    else if handler == "ec_undo" then
      match ed.lb.bind Lbuf.undo with
      | none => none
      | some (rc, lb) => some (rc, ed.setLb lb)
    else if handler == "ec_redo" then
      match ed.lb.bind Lbuf.redo with
      | none => none
      | some (rc, lb) => some (rc, ed.setLb lb)
    else if handler == "ec_mark" then
      match exRegion ed loc with
      | none => none
      | some ((rc, b, e), ed) =>
        if rc != 0 || e ≤ b then some (1, ed) else
        match ed.lb with
        | none => none
        | some lb => some (0, ed.setLb (setMark lb (arg.headD 0) (e - 1) 0))
    else if handler == "ec_rs" then
      some (0, { ed with regs := ed.regs.put (regName arg) (txt.getD []) 1 })
    else if handler == "ec_at" then ecAt f ed loc cmd arg
    else if handler == "ec_glob" then ecGlob f ed loc cmd arg
    else if handler == "ec_edit" then ecEdit f ed cmd arg
    else if handler == "ec_substitute" then
      match exRegion ed loc with
      | none => none
      | some ((rc, b, e), ed) =>
        if rc != 0 then some (1, ed) else
        let (pat, s) := reRead arg
        let ed := match pat with | some p => if !p.isEmpty then ed.kwdSet (some p) 1 else ed | none => ed
        let (rep, s) := if pat.isSome && !s.isEmpty then
            -- `s--`: the delimiter that ended the pattern starts the replacement
            let delim := arg.headD 0
            let (r, s') := reRead ([delim] ++ s)
            (r, s')
          else (none, s)
        let ed := if pat.isSome || rep.isSome then { ed with xrep := (rep.getD []).take (Gen.EXLEN - 1) } else ed
        if ed.xkwddir == 0 then some (1, ed) else
        match ed.mkRe ed.xkwd with
        | none => none
        | some none => some (1, ed)
        | some (some re) =>
          let g := s.contains 103
          -- `i += n; end += n` after each edit (n = change of the buffer length): the loop still makes
          -- `e - b` iterations, the k-th on row `b + k + sh` where `sh` is the sum of the changes so far
          let res := (List.range (e - b).toNat).foldl (fun (acc : Option (Ed × Int)) (k : Nat) =>
            match acc with
            | none => none
            | some (ed, sh) =>
              let row := b + (k : Int) + sh
              match ed.line row with
              | none => none       -- lbuf_get returned NULL: rstr_find dereferences it
              | some ln =>
                match substLine re ed.xrep g ln with
                | none => none
                | some none => some (ed, sh)
                | some (some nl) =>
                  match ed.edit (some nl) row (row + 1) with
                  | none => none
                  | some ed' => some (ed', sh + (ed'.len - ed.len))) (some (ed, 0))
          match res with
          | none => none
          | some (ed, _) => some (0, ed)
    else if handler == "ec_exec" then
      let guard : R Bool := if ed.xwa == 0 then bufsModified ed 0 (some (strOf "buffer modified")) else some (false, ed)
      match guard with
      | none => none
      | some (true, ed) => some (1, ed)
      | some (false, ed) =>
        match pathExpand ed arg true with
        | none => none
        | some (none, ed) => some (1, ed)
        | some (some ecmd, ed) =>
          if loc.isEmpty then some (0, { ed with unmodelled := true }) else
          match exRegion ed loc with
          | none => none
          | some ((rc, b, e), ed) =>
            if rc != 0 then some (1, ed) else
            match ed.pipe ecmd (ed.cp b e) with
            | none => some (0, { ed with unmodelled := true })
            | some none => some (0, ed)
            | some (some rep) => (ed.edit (some rep) b e).map (fun ed => (0, ed))
    else if handler == "ec_read" then
      let n := ed.len
      let pr : R (Option Bytes) := if !arg.isEmpty then pathExpand ed arg true else some (ed.cur.map (·.path), ed)
      match pr with
      | none => none
      | some (path, ed) =>
        match exRegion ed loc with
        | none => none
        | some ((rc, _, e), ed) =>
          if rc != 0 || path.isNone then some (1, ed) else
          let path := path.getD []
          let pos := if ed.len != 0 then e else 0
          if path.headD 0 == 33 then
            if path.length < 2 then some (1, ed) else
            match ed.pipe (path.drop 1) [] with
            | none => some (0, { ed with unmodelled := true })
            | some obuf =>
              let ed' := match obuf with | some o => ed.edit (some o) pos pos | none => some ed
              match ed' with
              | none => none
              | some ed => some (0, ({ ed with xrow := e + ed.len - n - 1 }).show ([34] ++ path ++ strOf "\"  [=" ++ intStr (ed.len - n) ++ strOf "]  [r]"))
          else
            match ed.findFile path with
            | none => some (1, ed.show (strOf "read failed"))
            | some fl =>
              match ed.lb.bind (fun lb => rd lb [fl.data] false pos.toNat pos.toNat) with
              | none => none
              | some (_, lb) =>
                let ed := ed.setLb lb
                some (0, ({ ed with xrow := e + ed.len - n - 1 }).show ([34] ++ path ++ strOf "\"  [=" ++ intStr (ed.len - n) ++ strOf "]  [r]"))
    else if handler == "ec_write" then ecWrite ed loc cmd arg
    else if handler == "ec_quit" then
      let w : R Int := if cmd.headD 0 == 119 || cmd.headD 0 == 120 then ecWrite ed [] cmd arg else some (0, ed)
      match w with
      | none => none
      | some (rc, ed) =>
        if rc != 0 then some (1, ed) else
        let all := cmd.contains 97
        let rec each : Nat → Nat → Ed → R Bool      -- true = stop without quitting
          | 0, _, ed => some (false, ed)
          | g + 1, i, ed =>
            if i ≥ ed.bufs.length then some (false, ed) else
            match ed.bufs.getD i none with
            | none => each g (i + 1) ed
            | some _ =>
              let chk : R Bool := if !all && !hasBang cmd then bufsModified ed i (some (strOf "buffer modified")) else some (false, ed)
              match chk with
              | none => none
              | some (true, ed) => some (true, ed.bufsSwitch i)
              | some (false, ed) =>
                if all then
                  match ed.bufs.getD i none with
                  | none => none
                  | some b =>
                    match lbufSaveP ed b.lb 0 (-1) b.path (hasBang cmd) b.mtime with
                    | none => none
                    | some (some err, ed) => some (true, (ed.bufsSwitch i).show err)
                    | some (none, ed) => each g (i + 1) ed
                else each g (i + 1) ed
        match each (ed.bufs.length + 1) 0 ed with
        | none => none
        | some (true, ed) => some (0, ed)
        | some (false, ed) => some (0, { ed with xquit := true })
    else if handler == "ec_buffer" then
      if arg.isEmpty then
        let ed := (List.range ed.bufs.length).foldl (fun (st : Bool × Ed) i =>
          let (go, ed) := st
          if !go then st else
          match ed.bufs.getD i none with
          | none => (false, ed)
          | some b =>
            let (m, ed) := ed.modifiedAt i
            let alias := (strOf "%#^").getD i 32
            let idstr := intStr b.id
            let line := (List.replicate (2 - idstr.length) 32) ++ idstr ++ [32, alias, 32] ++ b.path ++ [32, if m then 42 else 32]
            (true, ed.print (line.take 127))) (true, ed) |>.2
        some (0, ed)
      else if arg.headD 0 == 33 then
        let ed := ed.bufsShift
        if ed.cur.isNone then
          let b : Buf := { path := [], lb := Lbuf.make, id := ed.bufsCnt + 1 }
          some (0, { ed with bufs := ed.bufs.set 0 (some b), bufsCnt := ed.bufsCnt + 1 })
        else some (0, ed)
      else if arg.headD 0 == 126 then
        let (bufs, n) := ed.bufs.foldl (fun (acc : List (Option Buf) × Int) b =>
          match b with
          | some x => (acc.1 ++ [some { x with id := acc.2 + 1 }], acc.2 + 1)
          | none => (acc.1 ++ [none], acc.2)) ([], 0)
        some (0, { ed with bufs := bufs, bufsCnt := n })
      else
        let id := exAtoi arg
        let curId := (ed.cur.map (·.id)).getD 0
        let idOf (i : Nat) : Option Int := (ed.bufs.getD i none).map (·.id)
        let idx : Int :=
          if isDigitC (arg.headD 0) then
            (match (List.range ed.bufs.length).find? (fun i => idOf i == some id) with | some i => i | none => ed.bufs.length)
          else if arg.headD 0 == 45 then
            (List.range ed.bufs.length).foldl (fun (best : Int) i =>
              match idOf i with
              | some x => if x < curId && (best < 0 || x > (idOf best.toNat).getD 0) then i else best
              | none => best) (-1)
          else if arg.headD 0 == 43 then
            (List.range ed.bufs.length).foldl (fun (best : Int) i =>
              match idOf i with
              | some x => if x > curId && (best < 0 || x < (idOf best.toNat).getD 0) then i else best
              | none => best) (-1)
          else match (List.range 3).find? (fun i => (strOf "%#^").getD i 0 == arg.headD 0) with
            | some i => i
            | none => -1
        if idx ≥ 0 && idx < ed.bufs.length && (ed.bufs.getD idx.toNat none).isSome then
          let guard : R Bool := if ed.xwa == 0 && !hasBang cmd then bufsModified ed 0 (some (strOf "buffer modified")) else some (false, ed)
          match guard with
          | none => none
          | some (true, ed) => some (1, ed)
          | some (false, ed) => some (0, ed.bufsSwitch idx.toNat)
        else some (1, ed.show (strOf "no such buffer"))
    else if handler == "ec_set" then
      if arg.isEmpty then some (0, ed) else
      let tok := (arg.dropWhile isSpaceC).takeWhile (fun c => !isSpaceC c)
      let (opt, val) : Bytes × Int :=
        if tok.headD 0 == 110 && tok.getD 1 0 == 111 then (tok.drop 2, 0)
        else if tok.contains 61 then (tok.takeWhile (· != 61), atoi ((tok.dropWhile (· != 61)).drop 1))
        else (tok, 1)
      match optVar opt with
      | some v => some (0, setOpt ed v val)
      | none => some (1, ed.show (strOf "unknown option"))
    else if handler == "ec_echo" then some (0, ed.print arg)
    else some (1, { ed with unmodelled := true })

/-- `ec_write` -/
def ecWrite (ed : Ed) (loc cmd arg : Bytes) : R Int :=
  let pr : R (Option Bytes) := if !arg.isEmpty then pathExpand ed arg true else some (ed.cur.map (·.path), ed)
  match pr with
  | none => none
  | some (path, ed) =>
    let xchk : Option (Bool × Ed) := if cmd.headD 0 == 120 then some (ed.modifiedAt 0) else some (true, ed)
    match xchk with
    | none => none
    | some (false, ed) => some (0, ed)
    | some (true, ed) =>
      match exRegion ed loc with
      | none => none
      | some ((rc, b, e), ed) =>
        if rc != 0 || path.isNone then some (1, ed) else
        let path := path.getD []
        let (b, e) := if loc.isEmpty then ((0 : Int), ed.len) else (b, e)
        match ed.cur with
        | none => none
        | some cur =>
          if path.headD 0 == 33 then
            if path.length < 2 then some (1, ed) else
            -- `cmd_pipe(path + 1, ibuf, 0)`: the command's output goes to the terminal; then the message and
            -- nothing else (the buffer is neither renamed nor marked saved).  In vi mode `ex_print(NULL)`
            -- starts the "press a key" protocol, which is not modelled.
            let ed := ed.show ([34] ++ path ++ strOf "\"  [=" ++ intStr (e - b) ++ strOf "]  [w]")
            some (0, if ed.xvis then { ed with unmodelled := true } else ed)
          else
            let ts := if cur.path == path then cur.mtime else 0
            match lbufSaveP ed cur.lb b.toNat e path (hasBang cmd) ts with
            | none => none
            | some (some err, ed) => some (1, ed.show err)
            | some (none, ed) =>
              let ed := ed.show ([34] ++ path ++ strOf "\"  [=" ++ intStr (e - b) ++ strOf "]  [w]")
              match ed.cur with
              | none => none
              | some cur =>
                let (cur, ed) := if cur.path.isEmpty then ({ cur with path := path }, { ed with regs := ed.regs.put 37 path 0 }) else (cur, ed)
                if cur.path == path && b == 0 && e == ed.len then
                  let lb := savedCore cur.lb false
                  some (0, ed.setCur { cur with lb := (modified lb).2, mtime := ed.mtimeOf path })
                else if cur.path == path then
                  some (0, ed.setCur { cur with lb := unsavedMark cur.lb, mtime := ed.mtimeOf path })
                else some (0, ed.setCur cur)

/-- `ex_exec(ln)` -/
def exExec : Nat → Ed → Bytes → R Int
  | 0, _, _ => none
  | f + 1, ed, ln =>
    if ln.length ≥ Gen.EXLEN then some (1, ed.show (strOf "command too long")) else
    let rec cmds : Nat → Ed → Bytes → Int → R Int
      | 0, ed, _, ret => some (ret, ed)
      | g + 1, ed, ln, ret =>
        if ln.isEmpty then some (ret, ed) else
        let (loc, ln) := exLoc ln
        let (cmd, ln) := exCmd ln
        let idx := exIdx cmd
        let abbr := match idx with | some (a, _) => a | none => strOf "unknown"
        let (arg, ln) := exArg ln abbr
        let ((txt, ln), ed) := exTxt ed ln abbr
        match idx with
        | none => cmds g (ed.show (strOf "unknown command")) ln ret
        | some (_, h) =>
          match runCmd f ed h loc cmd arg txt with
          | none => none
          | some (r, ed) => cmds g ed ln r
    cmds (ln.length + 1) ed ln 0

/-- `ex_command(ln)`: run, then bump the sequence counter of the current buffer -/
def exCommand : Nat → Ed → Bytes → R Int
  | 0, _, _ => none
  | f + 1, ed, ln =>
    match exExec f ed ln with
    | none => none
    | some (r, ed) => some (r, (ed.modifiedAt 0).2)
end

def FUEL : Nat := 200

/-- one round of the `ex()` loop: read a line, run it, remember it in register `:` -/
def exStep (ed : Ed) : Option (Int × Ed) :=
  match ed.input with
  | [] => none
  | ln :: rest =>
    let ed := { ed with input := rest, out := [], msg := [], calls := 0, fired := 0 }
    match exCommand FUEL ed ln with
    | none => none
    | some (r, ed) => some (r, { ed with regs := ed.regs.put 58 ln 1, faults := [] })

/-- `ex_init(files)` with an empty EXINIT -/
def exInit (ed : Ed) (files : List Bytes) : Option (Int × Ed) :=
  let arg := match files with
    | [] => []
    | p :: _ => p.flatMap (fun c => if c == 32 || c == 37 || c == 35 || c == 61 then [92, c] else [c])
  ecEdit FUEL ed (strOf "e") arg

end Neatvi.Ex
