import NeatviVerif.Model.Regex
/-!
# Model of `regex.c`, part 2: atom matching, the backtracking VM (`re_rec`), `regexec`
-/
namespace Neatvi.Regex
open Neatvi Neatvi.Uc

def hasFlag (flg f : Nat) : Bool := flg &&& f != 0

/-- `uc_dec(s + i)`; `none` = over-read -/
def decAt (s : Bytes) (i : Nat) : Option Nat :=
  if i ≤ s.length then ucCode (s.drop i) else none

/-- ICASE folding of a code point: `if (c < 128 && isupper(c)) c = tolower(c)` -/
def foldc (icase : Bool) (c : Nat) : Nat := if icase && c < 128 && isUpperB c then c + 32 else c

/-- `isword(s)` on the byte at `s` -/
def isWordB (c : Nat) : Bool := isAlnumB c || c == 95 || c > 127

/-- result of matching one bracket item loop -/
inductive BR where
  | hit | miss | trap
deriving DecidableEq, Repr

/-- a named class body (`brk_classes[i][1]`) contains `c`?  Class bodies are plain ranges. -/
def classLoop (cp : Bytes) (c : Nat) (icase : Bool) : Nat → Nat → BR
  | 0, _ => BR.trap
  | f + 1, i =>
    match rdb cp i with
    | none => BR.trap
    | some b0 =>
      if b0 != 0 && (i == 0 || b0 != 93) then
        -- class bodies contain no nested classes
        match decAt cp i with
        | none => BR.trap
        | some beg =>
          let i1 := i + rxLen cp i
          match rdb cp i1, rdb cp (i1 + 1) with
          | some d, some e =>
            if d == 45 && e != 0 && e != 93 then
              match decAt cp (i1 + 1) with
              | none => BR.trap
              | some en =>
                let i2 := i1 + 1 + rxLen cp (i1 + 1)
                if foldc icase beg ≤ c && c ≤ foldc icase en then BR.hit else classLoop cp c icase f i2
            else if foldc icase beg ≤ c && c ≤ foldc icase beg then BR.hit else classLoop cp c icase f i1
          | some _, none =>
            -- p[1] is read only when p[0] == '-'
            if foldc icase beg ≤ c && c ≤ foldc icase beg then BR.hit else classLoop cp c icase f i1
          | none, _ => BR.trap
      else BR.miss

/-- `brk_match(cp, c, flg)` for a class body: 0 (= member) or 1 -/
def classMatch (cp : Bytes) (c : Nat) (icase : Bool) : BR := classLoop cp c icase (cp.length + 2) 0

/-- is `cc` (e.g. `:alpha:`) a prefix of `p+1`?  (`strncmp(cc, p + 1, strlen(cc))`) -/
def classNameAt (p : Bytes) (i : Nat) (cc : Bytes) : Bool := (p.drop (i + 1)).take cc.length == cc

/-- the loop of `brk_match(brk, c, flg)`; `p` is the bracket text after `[` and an optional `^`
    (with `p0` = 0), `c` already folded.  hit = some item contains `c`. -/
def brkLoop (p : Bytes) (c : Nat) (icase : Bool) : Nat → Nat → BR
  | 0, _ => BR.trap
  | f + 1, i =>
    match rdb p i with
    | none => BR.trap
    | some b0 =>
      if b0 != 0 && (i == 0 || b0 != 93) then
        if b0 == 91 && (rdb p (i + 1)) == some 58 then
          -- every class whose name matches is tried; a member of any of them is a hit
          let r := Gen.brkClasses.foldl (fun (acc : BR) cl =>
            match acc with
            | BR.miss => if classNameAt p i cl.1 then classMatch cl.2 c icase else BR.miss
            | other => other) BR.miss
          match r with
          | BR.hit => BR.hit
          | BR.trap => BR.trap
          | BR.miss => brkLoop p c icase f (i + brkLen (p.drop i))
        else
          match decAt p i with
          | none => BR.trap
          | some beg =>
            let i1 := i + rxLen p i
            match rdb p i1 with
            | none => BR.trap
            | some d =>
              if d == 45 then
                match rdb p (i1 + 1) with
                | none => BR.trap
                | some e =>
                  if e != 0 && e != 93 then
                    match decAt p (i1 + 1) with
                    | none => BR.trap
                    | some en =>
                      let i2 := i1 + 1 + rxLen p (i1 + 1)
                      if foldc icase beg ≤ c && c ≤ foldc icase en then BR.hit else brkLoop p c icase f i2
                  else if foldc icase beg ≤ c && c ≤ foldc icase beg then BR.hit else brkLoop p c icase f i1
              else if foldc icase beg ≤ c && c ≤ foldc icase beg then BR.hit else brkLoop p c icase f i1
      else BR.miss

/-- `brk_match(ra->s + 1, c, flg)`: `some true` = the atom matches -/
def brkMatch (brk : Bytes) (c : Nat) (icase : Bool) : Option Bool :=
  let neg := brk.headD 0 == 94
  let p := if neg then brk.drop 1 else brk
  match brkLoop p (foldc icase c) icase (p.length + 2) 0 with
  | BR.hit => some (!neg)
  | BR.miss => some neg
  | BR.trap => none

inductive AR where
  | fail | trap | ok (pos : Nat)
deriving DecidableEq, Repr

/-- ICASE literal comparison of `ratom_match`: `k` walks the literal, `r` the subject, each by its
    own character lengths -/
def chrIcase (lit subj : Bytes) : Nat → Nat → Nat → AR
  | 0, _, _ => AR.trap
  | f + 1, k, r =>
    match rdb lit k with
    | none => AR.trap
    | some 0 => AR.ok r
    | some _ =>
      match decAt lit k, decAt subj r with
      | some c1, some c2 =>
        if foldc true c1 != foldc true c2 || foldc true c2 == 0 then AR.fail
        else chrIcase lit subj f (k + rxLen lit k) (r + rxLen subj r)
      | _, _ => AR.trap

/-- the first byte of the character before `pos` (`uc_beg(o, s - 1)`), for `pos > 0` -/
def prevLead (subj : Bytes) (pos : Nat) : Nat :=
  let before := (subj.take pos).reverse
  let k := ucBeg (before.headD 0) (before.drop 1)
  before.getD k 0

/-- `ratom_match(ra, rs)` -/
def atomMatch (a : Atom) (subj : Bytes) (flg : Nat) (pos : Nat) : AR :=
  let icase := hasFlag flg REG_ICASE
  let nl := hasFlag flg REG_NEWLINE
  match rdb subj pos with
  | none => AR.trap
  | some cur =>
    match a.k with
    | AK.chr =>
      if !icase then
        if (subj.drop pos).take a.s.length == a.s then AR.ok (pos + a.s.length) else AR.fail
      else chrIcase a.s subj (a.s.length + 2) 0 pos
    | AK.any =>
      if cur == 0 || (cur == 10 && nl) then AR.fail else AR.ok (pos + rxLen subj pos)
    | AK.brk =>
      match decAt subj pos with
      | none => AR.trap
      | some c =>
        if c == 0 || (c == 10 && nl && a.s.getD 1 0 == 94) then AR.fail
        else match brkMatch (a.s.drop 1) c icase with
          | none => AR.trap
          | some true => AR.ok (pos + rxLen subj pos)
          | some false => AR.fail
    | AK.beg =>
      if pos == 0 then (if hasFlag flg REG_NOTBOL then AR.fail else AR.ok pos)
      else if subj.getD (pos - 1) 0 == 10 && cur != 0 then (if nl then AR.ok pos else AR.fail)
      else AR.fail
    | AK.end_ =>
      if cur == 0 then (if hasFlag flg REG_NOTEOL then AR.fail else AR.ok pos)
      else if cur == 10 then (if nl then AR.ok pos else AR.fail)
      else AR.fail
    | AK.wbeg =>
      if (pos == 0 || !isWordB (prevLead subj pos)) && isWordB cur then AR.ok pos else AR.fail
    | AK.wend =>
      if pos != 0 && isWordB (prevLead subj pos) && (cur == 0 || !isWordB cur) then AR.ok pos else AR.fail

abbrev Marks := List Int

inductive Res where
  | fail (cuts : Nat)
  | trap
  | ok (pos : Nat) (marks : Marks) (cuts : Nat)
deriving DecidableEq, Repr

/-- the VM is parametrised by the program, the subject, the flags and the depth limit -/
structure Ctx where
  prog : List Inst
  subj : Bytes
  flg : Nat
  nd : Nat
  ngrps : Nat

variable (cx : Ctx)

mutual
/-- entry of `re_rec`: the depth test, then the instruction loop one level deeper -/
def act (dep pc pos : Nat) (m : Marks) (cuts : Nat) : Res :=
  if dep ≥ cx.nd then Res.fail (cuts + 1) else loop (dep + 1) pc pos m cuts
termination_by (cx.nd - dep, 0, 0)
decreasing_by all_goals simp_wf; all_goals (first | omega | (apply Prod.Lex.left; omega))

/-- the `while (1)` of `re_rec`; jump targets are checked to go forward (a failed check is `trap`;
    emitted programs never take it: `Props/C11`) -/
def loop (dep pc pos : Nat) (m : Marks) (cuts : Nat) : Res :=
  match h : cx.prog[pc]? with
  | none => Res.trap
  | some (Inst.atom a) =>
    match atomMatch a cx.subj cx.flg pos with
    | AR.fail => Res.fail cuts
    | AR.trap => Res.trap
    | AR.ok pos' => loop dep (pc + 1) pos' m cuts
  | some (Inst.mark k) =>
    loop dep (pc + 1) pos (if k < cx.ngrps then m.set k (pos : Int) else m) cuts
  | some (Inst.jump a) => if a > pc then loop dep a pos m cuts else Res.trap
  | some (Inst.fork a1 a2) =>
    match act dep a1 pos m cuts with
    | Res.ok p' m' c' => Res.ok p' m' c'
    | Res.trap => Res.trap
    | Res.fail c' => if a2 > pc then loop dep a2 pos m c' else Res.trap
  | some Inst.mtch => Res.ok pos m cuts
termination_by (cx.nd - dep, 1, cx.prog.length - pc)
decreasing_by
  all_goals simp_wf
  all_goals first
    | (have hlt : pc < cx.prog.length := (List.getElem?_eq_some_iff.mp h).1
       exact Prod.Lex.right _ (Prod.Lex.right _ (by omega)))
    | exact Prod.Lex.right _ (Prod.Lex.left _ _ (by omega))
end

/-- `re_recmatch` at one start position -/
def recmatch (start : Nat) (cuts : Nat) : Res :=
  act cx 0 0 start (List.replicate (2 * cx.ngrps) (-1)) cuts

/-- outcome of `regexec` -/
inductive ExecRes where
  | nomatch (cuts : Nat)
  | trap
  | found (marks : Marks) (cuts : Nat)
deriving DecidableEq, Repr

/-- the start-position loop of `regexec`: positions advance by `uc_len`; the position on the
    terminator is tried once; an empty subject is not tried at all -/
def execLoop : Nat → Nat → Nat → ExecRes
  | 0, _, cuts => ExecRes.nomatch cuts
  | f + 1, start, cuts =>
    match rdb cx.subj start with
    | none => ExecRes.trap
    | some b =>
      match recmatch cx start cuts with
      | Res.ok _ m c => ExecRes.found m c
      | Res.trap => ExecRes.trap
      | Res.fail c => if b == 0 then ExecRes.nomatch c else execLoop f (start + rxLen cx.subj start) c

/-- `regexec(preg, s, nsub, psub, flg)`: group offsets `(so, eo)` for `i < nsub` -/
def regexec (p : Prog) (subj : Bytes) (nsub : Nat) (eflg : Nat) (nd ngrps : Nat) : ExecRes × List (Int × Int) :=
  let cx : Ctx := { prog := p.code, subj := subj, flg := p.flg ||| eflg, nd := nd, ngrps := ngrps }
  if subj.isEmpty then (ExecRes.nomatch 0, []) else
  match execLoop cx (subj.length + 2) 0 0 with
  | ExecRes.found m c =>
    (ExecRes.found m c, (List.range nsub).map (fun i =>
      if i * 2 < 2 * ngrps then (m.getD (i * 2) (-1), m.getD (i * 2 + 1) (-1)) else (-1, -1)))
  | r => (r, [])

end Neatvi.Regex
