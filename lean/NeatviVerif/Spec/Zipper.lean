import NeatviVerif.Model.Bytes
/-!
# Reference semantics of undo/redo: a zipper of texts (C04), and of the dirty flag (C02)
-/
namespace Neatvi.Spec
open Neatvi

abbrev Text := List Bytes

/-- replace `n` lines at `pos` by `ins` (positions clamped as `lbuf_edit` does) -/
def splice (t : Text) (pos n : Nat) (ins : Text) : Text :=
  t.take pos ++ ins ++ t.drop (pos + n)

/-- reference split of a byte string into newline-terminated lines -/
def refLines (s : Bytes) : Text :=
  let rec go : Bytes → Bytes → Text
    | [], cur => if cur.isEmpty then [] else [cur ++ [10]]
    | b :: r, cur => if b == 10 then (cur ++ [10]) :: go r [] else go r (cur ++ [b])
  go s []

structure Zipper where
  past : List Text := []
  present : Text := []
  future : List Text := []
  open_ : Bool := false      -- a command is in progress (its first splice already pushed `past`)
deriving Repr

namespace Zipper
/-- a splice belonging to the current command -/
def edit (z : Zipper) (f : Text → Text) : Zipper :=
  if z.open_ then { z with present := f z.present }
  else { past := z.present :: z.past, present := f z.present, future := [], open_ := true }
/-- command boundary -/
def commit (z : Zipper) : Zipper := { z with open_ := false }
def undo (z : Zipper) : Option Zipper :=
  match z.past with
  | [] => none
  | p :: ps => some { past := ps, present := p, future := z.present :: z.future, open_ := false }
def redo (z : Zipper) : Option Zipper :=
  match z.future with
  | [] => none
  | f :: fs => some { past := z.present :: z.past, present := f, future := fs, open_ := false }
end Zipper

end Neatvi.Spec
