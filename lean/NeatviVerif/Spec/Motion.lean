import NeatviVerif.Spec.Layout
/-!
# Reference semantics of the vi cursor motions (C07), over code points

A buffer is a list of lines; a line is the list of its code points *without* the terminating newline.
A position is (row, col) with `col` a character index.  The definitions below say *where* a motion
lands by a property of the target ("the least position after the cursor that starts a word"), not by
how a scanner walks there.  `none` = the motion fails and the cursor stays.
-/
namespace Neatvi.Spec.Motion
open Neatvi

abbrev Line := List Nat
abbrev Buf := List Line

structure Pos where
  row : Nat
  col : Nat
deriving BEq, Repr, DecidableEq

/-- character classes: 0 blank, 1 word (letters, digits, `_`, everything beyond ASCII), 2 punctuation -/
def cls (c : Nat) : Nat :=
  if c == 32 || (9 ≤ c && c ≤ 13) then 0
  else if (48 ≤ c && c ≤ 57) || (65 ≤ c && c ≤ 90) || (97 ≤ c && c ≤ 122) || c == 95 || c > 127 then 1
  else 2
/-- classes of the "big word" motions: blank / non-blank -/
def clsBig (c : Nat) : Nat := if cls c == 0 then 0 else 1

def isBlank (c : Nat) : Bool := c == 32 || c == 9

/-- last column a cursor may rest on -/
def lastCol (l : Line) : Nat := l.length - 1

/-- the cursor rests on an existing character (column 0 of an empty line) -/
def restOn (b : Buf) (p : Pos) : Pos :=
  match b[p.row]? with
  | some l => { p with col := min p.col (lastCol l) }
  | none => p

/-! ### the buffer as one sequence: every character, and the newline that ends each line -/
/-- (row, col, code point); the newline of a line is its last element, at col = length -/
def flat (b : Buf) : List (Nat × Nat × Nat) :=
  (List.range b.length).flatMap (fun r =>
    let l := b.getD r []
    (List.range l.length).map (fun c => (r, c, l.getD c 0)) ++ [(r, l.length, 10)])

def indexOf (f : List (Nat × Nat × Nat)) (p : Pos) : Option Nat :=
  (List.range f.length).find? (fun i => match f[i]? with | some (r, c, _) => r == p.row && c == p.col | none => false)

def posAt (f : List (Nat × Nat × Nat)) (i : Nat) : Pos :=
  match f[i]? with | some (r, c, _) => ⟨r, c⟩ | none => ⟨0, 0⟩

def cpAt (f : List (Nat × Nat × Nat)) (i : Nat) : Nat := match f[i]? with | some (_, _, c) => c | none => 10
def colAt (f : List (Nat × Nat × Nat)) (i : Nat) : Nat := match f[i]? with | some (_, c, _) => c | none => 0

/-- an empty line: its newline sits at column 0 -/
def emptyLineAt (f : List (Nat × Nat × Nat)) (i : Nat) : Bool := cpAt f i == 10 && colAt f i == 0

/-- position `i` starts a word: a non-blank whose predecessor is of another class, or an empty line -/
def wordStart (k : Nat → Nat) (f : List (Nat × Nat × Nat)) (i : Nat) : Bool :=
  (k (cpAt f i) != 0 && (i == 0 || k (cpAt f (i - 1)) != k (cpAt f i))) || emptyLineAt f i

/-- position `i` ends a word: a non-blank whose successor is of another class, or an empty line -/
def wordEnd (k : Nat → Nat) (f : List (Nat × Nat × Nat)) (i : Nat) : Bool :=
  (k (cpAt f i) != 0 && (i + 1 ≥ f.length || k (cpAt f (i + 1)) != k (cpAt f i))) || emptyLineAt f i

/-- least index > i satisfying p -/
def nextWhere (n : Nat) (p : Nat → Bool) (i : Nat) : Option Nat :=
  (List.range n).find? (fun j => j > i && p j)
/-- greatest index < i satisfying p -/
def prevWhere (p : Nat → Bool) (i : Nat) : Option Nat :=
  ((List.range i).reverse).find? p

/-- repeat a partial step up to `n` times; stops early where the step fails -/
def iter (step : Nat → Option Nat) : Nat → Nat → Nat
  | 0, i => i
  | n + 1, i => match step i with | some j => iter step n j | none => i

/-- `w` / `W`: to the start of the `cnt`-th next word; at the end of the buffer, to its last character -/
def wordFwdRaw (big : Bool) (b : Buf) (p : Pos) (cnt : Nat) : Pos :=
  let f := flat b
  let k := if big then clsBig else cls
  match indexOf f p with
  | none => p
  | some i =>
    let step (i : Nat) : Option Nat :=
      match nextWhere f.length (wordStart k f) i with
      | some j => some j
      | none => if i + 1 < f.length then some (f.length - 1) else none
    posAt f (iter step cnt i)

def wordFwd (big : Bool) (b : Buf) (p : Pos) (cnt : Nat) : Pos := restOn b (wordFwdRaw big b p cnt)

/-- `b` / `B`: to the start of the `cnt`-th previous word; at the start of the buffer, to its first character -/
def wordBackRaw (big : Bool) (b : Buf) (p : Pos) (cnt : Nat) : Pos :=
  let f := flat b
  let k := if big then clsBig else cls
  match indexOf f p with
  | none => p
  | some i =>
    let step (i : Nat) : Option Nat :=
      match prevWhere (wordStart k f) i with
      | some j => some j
      | none => if i > 0 then some 0 else none
    posAt f (iter step cnt i)

def wordBack (big : Bool) (b : Buf) (p : Pos) (cnt : Nat) : Pos := restOn b (wordBackRaw big b p cnt)

/-- `e` / `E`: to the end of the `cnt`-th next word -/
def wordEndFwdRaw (big : Bool) (b : Buf) (p : Pos) (cnt : Nat) : Pos :=
  let f := flat b
  let k := if big then clsBig else cls
  match indexOf f p with
  | none => p
  | some i =>
    let step (i : Nat) : Option Nat :=
      match nextWhere f.length (wordEnd k f) i with
      | some j => some j
      | none => if i + 1 < f.length then some (f.length - 1) else none
    posAt f (iter step cnt i)

def wordEndFwd (big : Bool) (b : Buf) (p : Pos) (cnt : Nat) : Pos := restOn b (wordEndFwdRaw big b p cnt)

/-! ### within a line -/
/-- `f c` / `t c` (dir = +1) and `F c` / `T c` (dir = -1): the `cnt`-th occurrence of `c` after / before the cursor -/
def findChar (l : Line) (col : Nat) (c : Nat) (fwd : Bool) (till : Bool) (cnt : Nat) : Option Nat :=
  if cnt == 0 then none else
  let occ := if fwd then (List.range l.length).filter (fun j => j > col && l.getD j 0 == c)
             else ((List.range (min col l.length)).filter (fun j => l.getD j 0 == c)).reverse
  match occ[cnt - 1]? with
  | none => none
  | some j => some (if till then (if fwd then j - 1 else j + 1) else j)

/-- `^`: first non-blank character; on a line of blanks only (or an empty line) the cursor rests on its last
    column -/
def firstNonBlank (l : Line) : Nat :=
  match (List.range l.length).find? (fun j => !isBlank (l.getD j 0)) with
  | some j => j
  | none => lastCol l

/-! ### between lines -/
def clampRow (b : Buf) (r : Int) : Nat := if r < 0 then 0 else min r.toNat (b.length - 1)

/-- a paragraph boundary: `}` goes to the next blank line after the current paragraph, `{` to the previous one -/
def isEmptyLine (b : Buf) (r : Nat) : Bool := match b[r]? with | some l => l.isEmpty | none => false

def paraFwd (b : Buf) (r : Nat) : Nat :=
  -- skip the blank lines under the cursor, then the paragraph; rest on the blank line that follows or on the last line
  let r1 := ((List.range b.length).find? (fun j => j ≥ r && !isEmptyLine b j)).getD b.length
  let r2 := ((List.range b.length).find? (fun j => j ≥ r1 && isEmptyLine b j)).getD b.length
  min r2 (b.length - 1)

def paraBack (b : Buf) (r : Nat) : Nat :=
  let r1 := ((List.range (r + 1)).reverse.find? (fun j => !isEmptyLine b j))
  match r1 with
  | none => 0
  | some r1 =>
    match ((List.range (r1 + 1)).reverse.find? (fun j => isEmptyLine b j)) with
    | some j => j
    | none => 0

/-! ### `%`: the matching bracket -/
def openOf (c : Nat) : Option (Nat × Bool) :=      -- (the partner, am I the opening one?)
  if c == 40 then some (41, true) else if c == 41 then some (40, false)
  else if c == 91 then some (93, true) else if c == 93 then some (91, false)
  else if c == 123 then some (125, true) else if c == 125 then some (123, false)
  else none

/-- `%`: from the first bracket at or after the cursor on its line, to the bracket that balances it -/
def pairOf (b : Buf) (p : Pos) : Option Pos :=
  match b[p.row]? with
  | none => none
  | some l =>
    match (List.range l.length).find? (fun j => j ≥ p.col && (openOf (l.getD j 0)).isSome) with
    | none => none
    | some j =>
      let c := l.getD j 0
      match openOf c with
      | none => none
      | some (partner, opening) =>
        let f := flat b
        match indexOf f ⟨p.row, j⟩ with
        | none => none
        | some i =>
          -- depth of position k relative to i, counting only this kind of bracket
          let idxs := if opening then (List.range f.length).filter (· > i) else (List.range i).reverse
          let rec go : List Nat → Nat → Option Nat
            | [], _ => none
            | k :: ks, d =>
              let ch := cpAt f k
              let d' : Int := if ch == c then (d : Int) + 1 else if ch == partner then (d : Int) - 1 else d
              if d' == 0 then some k else go ks d'.toNat
          (go idxs 1).map (posAt f)

end Neatvi.Spec.Motion
