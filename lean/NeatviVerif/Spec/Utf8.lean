import NeatviVerif.Model.Bytes
/-!
# Reference semantics of UTF-8 (arithmetic form), independent of the C code
-/
namespace Neatvi.Spec
open Neatvi

/-- code points the editor has to handle: U+0001 .. U+10FFFF -/
def ValidCp (c : Nat) : Prop := 0 < c ∧ c < 0x110000

instance (c : Nat) : Decidable (ValidCp c) := by unfold ValidCp; exact inferInstance

/-- UTF-8 encoding of a code point -/
def enc (c : Nat) : Bytes :=
  if c < 0x80 then [c]
  else if c < 0x800 then [0xc0 + c / 64, 0x80 + c % 64]
  else if c < 0x10000 then [0xe0 + c / 4096, 0x80 + c / 64 % 64, 0x80 + c % 64]
  else [0xf0 + c / 262144, 0x80 + c / 4096 % 64, 0x80 + c / 64 % 64, 0x80 + c % 64]

/-- encoding of a string of code points -/
def encStr (cs : List Nat) : Bytes := cs.flatMap enc

/-- length in bytes of the character whose first byte is `b` (0 for the terminator) -/
def specLen (b : Nat) : Nat :=
  if b = 0 then 0 else if b < 0xc0 then 1 else if b < 0xe0 then 2 else if b < 0xf0 then 3
  else if b < 0xf8 then 4 else 1

/-- byte offset of character `k` -/
def byteOff (cs : List Nat) (k : Nat) : Nat := (encStr (cs.take k)).length

@[simp] theorem encStr_nil : encStr [] = [] := rfl
@[simp] theorem encStr_cons (c : Nat) (cs : List Nat) : encStr (c :: cs) = enc c ++ encStr cs := by
  simp [encStr]
theorem encStr_append (a b : List Nat) : encStr (a ++ b) = encStr a ++ encStr b := by
  simp [encStr]

end Neatvi.Spec
