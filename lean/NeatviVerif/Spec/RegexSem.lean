import NeatviVerif.Model.RegexVM
/-!
# Reference semantics of the regular expressions: ordered (backtracking) enumeration of parses

`results t i g` lists, in priority order (alternatives prefer the left, repetitions prefer more
iterations), every way the tree `t` can match starting at byte offset `i`, as (end offset, group
marks).  There is no depth limit.  An iteration of an unbounded repetition that matches the empty
string ends the repetition (the engine can only leave such a loop through its depth limit, and such
runs are excluded from the completeness and priority clauses; the parse is still a genuine one).
-/
namespace Neatvi.Spec.RegexSem
open Neatvi Neatvi.Regex

structure Env where
  subj : Bytes
  flg : Nat

abbrev R := Nat × Marks

def setMark (g : Marks) (k : Nat) (v : Nat) : Marks := g.set k (v : Int)

/-- apply `f` to every result and concatenate, keeping order -/
def bindR (rs : List R) (f : R → List R) : List R := rs.flatMap f

/-- unbounded repetition after the mandatory copies: prefer another iteration -/
def starRes (body : R → List R) : Nat → R → List R
  | 0, r => [r]
  | f + 1, r => bindR (body r) (fun r' => if r'.1 == r.1 then [r'] else starRes body f r') ++ [r]

/-- up to `k` optional copies: prefer one more -/
def optRes (body : R → List R) : Nat → R → List R
  | 0, r => [r]
  | k + 1, r => bindR (body r) (optRes body k) ++ [r]

/-- exactly `c` copies -/
def copies (body : R → List R) : Nat → R → List R
  | 0, r => [r]
  | c + 1, r => bindR (body r) (copies body c)

/-- repetition `{mn, mx}` (mx < 0 = unbounded) around `body`, with the engine's priorities -/
def repRes (env : Env) (body : R → List R) (mn mx : Int) (r : R) : List R :=
  if mn == 0 && mx == 0 then [r]
  else if mn == 1 && mx == 1 then body r
  else
    let c := (max 1 mn).toNat
    let after : R → List R :=
      if mx < 0 then starRes body (env.subj.length + 2)
      else optRes body (mx - max 1 mn).toNat
    let main := bindR (copies body c r) after
    if mn == 0 then main ++ [r] else main

/-- all parses of `t` from `(i, g)`, best first -/
def results (env : Env) : RNode → R → List R
  | .nul, r => [r]
  | .atom a mn mx, r =>
    repRes env (fun r => match atomMatch a env.subj env.flg r.1 with
      | AR.ok j => [(j, r.2)]
      | _ => []) mn mx r
  | .cat a b, r => bindR (results env a r) (results env b)
  | .alt a b, r => results env a r ++ results env b r
  | .grp a k mn mx, r =>
    repRes env (fun r => (results env a (r.1, setMark r.2 (2 * k) r.1)).map
      (fun r' => (r'.1, setMark r'.2 (2 * k + 1) r'.1))) mn mx r

/-- start positions `regexec` tries: every character start, and the terminator -/
def starts (s : Bytes) : Nat → Nat → List Nat
  | 0, _ => []
  | f + 1, i => if i ≥ s.length then [i] else i :: starts s f (i + max 1 (rxLen s i))

/-- the whole-pattern reference: first start position with a parse, and its best parse -/
def firstMatch (t : RNode) (subj : Bytes) (flg : Nat) (nmarks : Nat) : Option (Nat × R) :=
  if subj.isEmpty then none else
  (starts subj (subj.length + 2) 0).findSome? (fun i =>
    match results ⟨subj, flg⟩ t (i, List.replicate nmarks (-1)) with
    | [] => none
    | r :: _ => some (i, r))

end Neatvi.Spec.RegexSem
