import NeatviVerif.Spec.Utf8
import NeatviVerif.Generated.Tables
/-!
# Reference semantics of display cells and of reordering (C17, C18)
-/
namespace Neatvi.Spec
open Neatvi

/-- linear membership in a range table: "the class its tables list" -/
def memTab (c : Nat) (t : List (Nat × Nat)) : Bool := t.any (fun r => r.1 ≤ c && c ≤ r.2)

/-- width class of a code point from the tables: 0 (zero width), 2 (double), 1 -/
def widClass (c : Nat) : Nat := if memTab c Gen.zwchars then 0 else if memTab c Gen.dwchars then 2 else 1

/-- decoder of one encoded character (inverse of `enc`, reference) -/
def dec1 (s : Bytes) : Nat :=
  match s with
  | [] => 0
  | [a] => a
  | a :: b :: r =>
    if a < 0xc0 then a
    else if a < 0xe0 then (a - 0xc0) * 64 + (b - 0x80)
    else match r with
      | [] => a
      | c :: r2 =>
        if a < 0xf0 then (a - 0xe0) * 4096 + (b - 0x80) * 64 + (c - 0x80)
        else match r2 with
          | [] => a
          | d :: _ => (a - 0xf0) * 262144 + (b - 0x80) * 4096 + (c - 0x80) * 64 + (d - 0x80)

/-- code points that are drawn as the "bell" placeholder (non-printable) -/
def isBellCp (c : Nat) : Bool :=
  if c == 32 || c == 9 || c == 10 || (c ≥ 0x20 && c < 0x7f) then false
  else (c ≥ 0x300 && memTab c Gen.zwchars) || memTab c Gen.bchars

/-- configured placeholder for a code point: declared width -/
def placeholderWid (c : Nat) : Option Nat :=
  (Gen.placeholders.find? (fun p => dec1 p.1 == c)).map (·.2.2)

/-- the cell width of code point `c` displayed at column `col` -/
def cellWidth (c col : Nat) : Nat :=
  if c == 9 then 8 - col % 8
  else match placeholderWid c with
    | some w => w
    | none => if isBellCp c then 1 else widClass c

/-- indices `0..n-1` sorted by their column (stable insertion sort): the visual order -/
def visualOrder (pos : List Nat) (n : Nat) : List Nat :=
  (List.range n).foldl (fun acc i =>
    let pi := pos.getD i 0
    let (a, b) := acc.span (fun j => pos.getD j 0 ≤ pi)
    a ++ i :: b) []

/-- `pos` (n+1 entries) is a gap-free tiling of the characters `cps`: in visual order each
    character starts where the previous one ended, the first at 0, and `pos[n]` is the total -/
def isTiling (cps : List Nat) (pos : List Nat) : Bool :=
  let n := cps.length
  let vis := visualOrder pos n
  let rec go : List Nat → Nat → Bool
    | [], col => pos.getD n 0 == col
    | i :: r, col => pos.getD i 0 == col && go r (col + cellWidth (cps.getD i 0) col)
  pos.length == n + 1 && go vis 0

/-- `ord` is a permutation of `0..n-1` -/
def isPerm (ord : List Nat) (n : Nat) : Bool :=
  ord.length == n && (List.range n).all (fun i => ord.contains i)

/-- decode a valid UTF-8 string with the reference decoder -/
def decodeStr : Nat → Bytes → List Nat
  | 0, _ => []
  | f + 1, s =>
    match s with
    | [] => []
    | a :: _ =>
      let l := specLen a
      let l := if l == 0 then 1 else l
      dec1 (s.take l) :: decodeStr f (s.drop l)

/-- the configured right-to-left letters and neutral characters, as code points -/
def r2lSet : List Nat := decodeStr Gen.CR2L.length Gen.CR2L
def neutSet : List Nat := decodeStr Gen.CNEUT.length Gen.CNEUT

def isLatinWord (c : Nat) : Bool := (97 ≤ c && c ≤ 122) || (65 ≤ c && c ≤ 90) || (48 ≤ c && c ≤ 57) || c == 95

/-- maximal runs `[b, e)`: a run starts at a character satisfying `edge`, ends at the last `edge`
    character reachable through characters satisfying `inner`, and has at least two characters -/
def maxRuns (edge inner : Nat → Bool) (cps : List Nat) : List (Nat × Nat) :=
  let n := cps.length
  let rec go : Nat → Nat → List (Nat × Nat)
    | 0, _ => []
    | fuel + 1, i =>
      if i ≥ n then [] else
      if edge (cps.getD i 0) then
        -- furthest j > i with cps[j] an edge char and everything in between inner
        let span := ((cps.drop (i + 1)).takeWhile inner).length
        let cand := (List.range span).reverse.find? (fun k => edge (cps.getD (i + 1 + k) 0))
        match cand with
        | some k => (i, i + 1 + k + 1) :: go fuel (i + 1 + k + 1)
        | none => go fuel (i + 1)
      else go fuel (i + 1)
  go (n + 1) 0

/-- the runs of right-to-left letters (with the neutrals inside them) of a left-to-right line -/
def rtlRuns (cps : List Nat) : List (Nat × Nat) :=
  maxRuns (fun c => r2lSet.contains c) (fun c => r2lSet.contains c || neutSet.contains c) cps

/-- the Latin runs of a right-to-left line -/
def latinRuns (cps : List Nat) : List (Nat × Nat) :=
  maxRuns isLatinWord (fun c => !(r2lSet.contains c) && c != 92 && c != 96 && c != 36 && c != 39) cps

/-- identity order with the given disjoint runs reversed in place -/
def reverseRuns (n : Nat) (runs : List (Nat × Nat)) : List Nat :=
  runs.foldl (fun ord r => ord.take r.1 ++ ((ord.drop r.1).take (r.2 - r.1)).reverse ++ ord.drop r.2) (List.range n)

end Neatvi.Spec
