import NeatviVerif.Lemmas.C07bWordEnd
import NeatviVerif.Lemmas.C07bPair
/-!
# C07b: the word scanners of `mot.c` against the reference semantics, on ASCII buffers

Setting: `AsciiBuf ls` — every line of the buffer is ASCII text (bytes below 128, no NUL, no newline)
followed by its newline.  The reference buffer is `refBuf ls` (every line without its newline; a byte is
its code point), `flat (refBuf ls)` is the reference's sequence of all characters *including the newline
that ends each line*, and `idx ls r o = some i` says that the model position `(r, o)` is the `i`-th
element of that sequence (`Spec.Motion.indexOf`).

* §1 `flat_next`, `flat_class`: `lbuf_next` is "index ± 1" and the character classes agree;
* §2 `wordbeg_spec`: one `w` / `W` step is `nextWhere … wordStart`;
* §3 `wordend_fwd_spec`: one `e` / `E` step is `nextWhere … wordEnd`;
  `wordend_back_spec`: one `b` / `B` step is `prevWhere wordStart`, else index 0;
  `wordbeg_wordFwdRaw`, `wordend_wordEndFwdRaw`, `wordend_wordBackRaw`: hence one step of the scanner
  lands where the reference motion with count 1 lands (`wordFwdRaw`, `wordEndFwdRaw`, `wordBackRaw`);
* §4 `paragraphbeg_spec`: `lbuf_paragraphbeg` is `paraFwd` / `paraBack` on the rows of the buffer
  (`paraBack_invalid_row`: not for a row beyond the buffer);
* §5 `pair_spec`: `lbuf_pair` is `pairOf`, from every character of the buffer;
* §6 examples: the hypotheses are satisfiable.

No disagreement between the scanners and the reference was found on ASCII buffers.  The one point
where the return value is not "target found": going backward the scanner returns 1 exactly when it
stops on the very first character of the buffer (`wordend_back_spec`), also when that character does
start a word; the reference (`wordBackRaw`) goes to index 0 in both cases.
-/
set_option linter.unusedSimpArgs false
set_option linter.unusedVariables false

namespace Neatvi.Props.C07b
open Neatvi Neatvi.Uc Neatvi.Mot Neatvi.Lemmas.C07 Neatvi.Lemmas.C07b Neatvi.Spec.Motion

/-- flat index of a model position (`none`: not a character of the buffer) -/
def idx (ls : Lines) (r o : Int) : Option Nat :=
  if r < 0 ∨ o < 0 then none else indexOf (flat (refBuf ls)) ⟨r.toNat, o.toNat⟩

theorem rep_iff_idx (b : Buf) (r o : Int) (i : Nat) :
    Rep b r o i ↔ (0 ≤ r ∧ 0 ≤ o ∧ indexOf (flat b) ⟨r.toNat, o.toNat⟩ = some i) := by
  constructor
  · rintro ⟨rn, cn, rfl, rfl, h1, h2, rfl⟩
    exact ⟨by omega, by omega, by simpa using indexOf_rep h1 h2⟩
  · rintro ⟨h1, h2, h3⟩
    have := indexOf_some_rep h3
    simp only [] at this
    rwa [show ((r.toNat : Nat) : Int) = r by omega, show ((o.toNat : Nat) : Int) = o by omega] at this

theorem idx_iff_rep (ls : Lines) (h : AsciiBuf ls) (r o : Int) (i : Nat) :
    idx ls r o = some i ↔ Rep (refBuf ls) r o i := by
  rw [rep_iff_idx]
  unfold idx
  by_cases hc : r < 0 ∨ o < 0
  · rw [if_pos hc]
    constructor
    · intro h; cases h
    · intro h; omega
  · rw [if_neg hc]
    constructor
    · intro h; exact ⟨by omega, by omega, h⟩
    · intro h; exact h.2.2

/-- the positions with an index are exactly the characters of the lines, newline included -/
theorem idx_isSome_iff (ls : Lines) (h : AsciiBuf ls) (r o : Int) :
    (∃ i, idx ls r o = some i) ↔ ∃ ln, lineAt ls r = some ln ∧ 0 ≤ o ∧ o < ln.length := by
  obtain ⟨e, hb⟩ := asciiBuf_eq ls h
  constructor
  · rintro ⟨i, hi⟩
    rw [idx_iff_rep ls h] at hi
    obtain ⟨rn, cn, rfl, rfl, h1, h2, _⟩ := hi
    refine ⟨rowOf (refBuf ls) rn ++ [10], ?_, by omega, by simp; omega⟩
    conv => lhs; rw [e]
    exact lineAt_rep _ rn h1
  · rintro ⟨ln, h1, h2, h3⟩
    have hr : 0 ≤ r ∧ r.toNat < (refBuf ls).length := by
      unfold lineAt at h1
      split at h1
      · cases h1
      · have := (List.getElem?_eq_some_iff.mp h1).1
        simp [refBuf]; omega
    have hl := lineAt_rep (refBuf ls) r.toNat hr.2
    rw [← e, show ((r.toNat : Nat) : Int) = r by omega, h1] at hl
    have hlen : ln.length = (rowOf (refBuf ls) r.toNat).length + 1 := by
      rw [Option.some.inj hl]; simp
    have hrep : Rep (refBuf ls) r o (rowStart (refBuf ls) r.toNat + o.toNat) :=
      ⟨r.toNat, o.toNat, by omega, by omega, hr.2, by omega, rfl⟩
    exact ⟨_, (idx_iff_rep ls h _ _ _).2 hrep⟩

theorem idx_inj (ls : Lines) (h : AsciiBuf ls) {r o r' o' : Int} {i : Nat} (h1 : idx ls r o = some i)
    (h2 : idx ls r' o' = some i) : r = r' ∧ o = o' :=
  rep_inj ((idx_iff_rep ls h _ _ _).1 h1) ((idx_iff_rep ls h _ _ _).1 h2)

/-! ## 1. `lbuf_next` and the character classes on the flat sequence -/

/-- **`lbuf_next` is the successor / predecessor in `flat`**: forward it yields the position of index
    `i + 1` and fails exactly on the last element; backward the position of index `i - 1`, failing
    exactly on the first element -/
theorem flat_next (ls : Lines) (h : AsciiBuf ls) (r o : Int) (i : Nat) (hi : idx ls r o = some i) :
    (∀ r' o', Mot.next ls 1 r o = some (r', o') ↔ idx ls r' o' = some (i + 1)) ∧
    (Mot.next ls 1 r o = none ↔ i + 1 = (flat (refBuf ls)).length) ∧
    (∀ r' o', Mot.next ls (-1) r o = some (r', o') ↔ (0 < i ∧ idx ls r' o' = some (i - 1))) ∧
    (Mot.next ls (-1) r o = none ↔ i = 0) := by
  obtain ⟨e, hb⟩ := asciiBuf_eq ls h
  have hrep := (idx_iff_rep ls h _ _ _).1 hi
  have hlt := rep_lt hrep
  rw [flat_length]
  simp only [idx_iff_rep ls h]
  generalize refBuf ls = b at *
  subst e
  refine ⟨fun r' o' => ?_, ?_, fun r' o' => ?_, ?_⟩
  · by_cases hi1 : i + 1 < total b
    · obtain ⟨r1, o1, e1, hr1⟩ := next_fwd_some hb hrep hi1
      rw [e1]
      constructor
      · intro hh; cases hh; exact hr1
      · intro hh; obtain ⟨rfl, rfl⟩ := rep_inj hr1 hh; rfl
    · rw [next_fwd_none hb hrep (by omega)]
      constructor
      · intro hh; cases hh
      · intro hh; have := rep_lt hh; omega
  · by_cases hi1 : i + 1 < total b
    · obtain ⟨r1, o1, e1, hr1⟩ := next_fwd_some hb hrep hi1
      rw [e1]
      constructor
      · intro hh; cases hh
      · intro hh; omega
    · rw [next_fwd_none hb hrep (by omega)]
      constructor
      · intro _; omega
      · intro _; rfl
  · cases i with
    | zero =>
      rw [next_bwd_none hb hrep]
      constructor
      · intro hh; cases hh
      · intro hh; omega
    | succ k =>
      obtain ⟨r1, o1, e1, hr1⟩ := next_bwd_some hb hrep
      rw [e1]
      constructor
      · intro hh; cases hh; exact ⟨by omega, hr1⟩
      · intro hh; obtain ⟨rfl, rfl⟩ := rep_inj hr1 hh.2; rfl
  · cases i with
    | zero =>
      rw [next_bwd_none hb hrep]
      exact ⟨fun _ => rfl, fun _ => rfl⟩
    | succ k =>
      obtain ⟨r1, o1, e1, hr1⟩ := next_bwd_some hb hrep
      rw [e1]
      constructor
      · intro hh; cases hh
      · intro hh; omega

/-- **the tests of the scanners are the reference's classes of `cpAt (flat b) i`**: `uc_kind` is `cls`
    (the newline is of class 0, blank), `uc_isspace` is "class 0", `uc_code` is the code point; and the
    `i`-th element of `flat` is the position itself -/
theorem flat_class (ls : Lines) (h : AsciiBuf ls) (r o : Int) (i : Nat) (hi : idx ls r o = some i) :
    kindAt ls r o = cls (cpAt (flat (refBuf ls)) i) ∧
    isSpaceAt ls r o = (cls (cpAt (flat (refBuf ls)) i) == 0) ∧
    codeAt ls r o = cpAt (flat (refBuf ls)) i ∧
    (codeAt ls r o = 10 ↔ ∃ ln, lineAt ls r = some ln ∧ o + 1 = ln.length) ∧
    posAt (flat (refBuf ls)) i = ⟨r.toNat, o.toNat⟩ := by
  obtain ⟨e, hb⟩ := asciiBuf_eq ls h
  have hrep := (idx_iff_rep ls h _ _ _).1 hi
  generalize refBuf ls = b at *
  subst e
  rw [cpAt_flat]
  have hc := cp_lt hb i
  rw [kindAt_rep hb hrep, isSpaceAt_rep hb hrep, codeAt_rep hb hrep, ucKind_cls _ hc.2, ucIsSpace_cls _ hc.2]
  refine ⟨rfl, rfl, rfl, ?_, ?_⟩
  · obtain ⟨rn, cn, rfl, rfl, h1, h2, rfl⟩ := hrep
    rw [cp_rep_nl hb h1 h2, lineAt_rep _ rn h1]
    constructor
    · intro hh; exact ⟨_, rfl, by simp; omega⟩
    · rintro ⟨ln, h3, h4⟩
      cases h3
      simp at h4; omega
  · obtain ⟨rn, cn, rfl, rfl, h1, h2, rfl⟩ := hrep
    rw [posAt_rep h1 h2]; simp

/-! ## 2–3. the word motions -/

theorem find_congr {l : List Nat} {p q : Nat → Bool} (h : ∀ x ∈ l, p x = q x) : l.find? p = l.find? q := by
  induction l with
  | nil => rfl
  | cons a t ih =>
    rw [List.find?_cons, List.find?_cons, h a (by simp), ih (fun x hx => h x (by simp [hx]))]

theorem nextWhere_congr (n : Nat) (p q : Nat → Bool) (i : Nat) (h : ∀ j, j < n → p j = q j) :
    nextWhere n p i = nextWhere n q i := by
  unfold nextWhere
  apply find_congr
  intro j hj
  rw [h j (by simpa using hj)]

theorem prevWhere_congr (p q : Nat → Bool) (i : Nat) (h : ∀ j, j < i → p j = q j) :
    prevWhere p i = prevWhere q i := by
  unfold prevWhere
  apply find_congr
  intro j hj
  exact h j (by simpa using hj)

theorem emptyLineAt_eq {b : Buf} (hb : AsciiB b) (i : Nat) (hi : i < total b) :
    emptyLineAt (flat b) i = emp (cp b) i := by
  unfold emptyLineAt emp
  rw [cpAt_flat]
  congr 1
  rw [Bool.eq_iff_iff]
  simp only [beq_iff_eq, Bool.or_eq_true]
  exact colAt_zero_iff hb i hi

theorem wordStart_eq {b : Buf} (hb : AsciiB b) (k : Nat → Nat) (i : Nat) (hi : i < total b) :
    wordStart k (flat b) i = ws k (cp b) i := by
  unfold wordStart ws
  rw [emptyLineAt_eq hb i hi, cpAt_flat, cpAt_flat]

theorem wordEnd_eq {b : Buf} (hb : AsciiB b) (k : Nat → Nat) (i : Nat) (hi : i < total b) :
    wordEnd k (flat b) i = wen k (cp b) (total b) i := by
  unfold wordEnd wen
  rw [emptyLineAt_eq hb i hi, cpAt_flat, cpAt_flat, flat_length]

theorem txt_of_rep {b : Buf} (hb : AsciiB b) {r o : Int} {i : Nat} (h : Rep b r o i) : Txt (cp b) (total b) := by
  have hlt := rep_lt h
  have hne : b ≠ [] := by
    intro h0; subst h0; simp [total] at hlt
  refine ⟨by omega, fun j => (cp_lt hb j).2, ?_⟩
  have hpos : 0 < b.length := List.length_pos_iff.mpr hne
  have hs := rowStart_step b (b.length - 1) (by omega)
  rw [show b.length - 1 + 1 = b.length by omega, rowStart_len] at hs
  rw [show total b - 1 = rowStart b (b.length - 1) + (rowOf b (b.length - 1)).length by omega]
  exact (cp_rep_nl hb (by omega) (Nat.le_refl _)).2 rfl

theorem kk_eq (big : Bool) : kk big = (if big then clsBig else cls) := rfl

/-- **one `w` / `W` step** (`lbuf_wordbeg`, forward) from the character of flat index `i`: the target is
    the least index after `i` that starts a word (an empty line counts), and the scanner returns 0; if
    there is no such index the scanner returns 1 and stops on the last element of `flat` (the newline of
    the last line).  `k` is `clsBig` for `W` and `cls` for `w`. -/
theorem wordbeg_spec (ls : Lines) (h : AsciiBuf ls) (big : Bool) (r o : Int) (i : Nat) (hi : idx ls r o = some i) :
    ∃ fl r' o', wordbeg ls big 1 r o = (fl, r', o') ∧
      match nextWhere (flat (refBuf ls)).length (wordStart (if big then clsBig else cls) (flat (refBuf ls))) i with
      | some j => fl = false ∧ idx ls r' o' = some j
      | none => fl = true ∧ idx ls r' o' = some ((flat (refBuf ls)).length - 1) := by
  obtain ⟨e, hb⟩ := asciiBuf_eq ls h
  have hrep := (idx_iff_rep ls h _ _ _).1 hi
  simp only [idx_iff_rep ls h]
  rw [flat_length, nextWhere_congr _ _ _ i (fun j hj => wordStart_eq hb _ j hj), ← kk_eq]
  conv => enter [1, fl, 1, r', 1, o', 1, 1]; rw [e]
  have hs := wb_sim hb big 1 (Or.inl rfl) hrep
  generalize wordbeg (lsOf (refBuf ls)) big 1 r o = res at hs ⊢
  obtain ⟨fl, r', o'⟩ := res
  obtain ⟨s1, s2⟩ := hs
  simp only [] at s1 s2
  refine ⟨fl, r', o', rfl, ?_⟩
  rcases wb_fwd (txt_of_rep hb hrep) big i (rep_lt hrep) with ⟨j, a1, a2⟩ | ⟨a1, a2⟩
  · rw [a2]; rw [a1] at s1 s2; exact ⟨s1, s2⟩
  · rw [a2]; rw [a1] at s1 s2; exact ⟨s1, s2⟩

/-- **one `e` / `E` step** (`lbuf_wordend`, forward): the least index after `i` that ends a word (an
    empty line counts), returning 0; if there is none the scanner returns 1 on the last element of `flat` -/
theorem wordend_fwd_spec (ls : Lines) (h : AsciiBuf ls) (big : Bool) (r o : Int) (i : Nat) (hi : idx ls r o = some i) :
    ∃ fl r' o', wordend ls big 1 r o = (fl, r', o') ∧
      match nextWhere (flat (refBuf ls)).length (wordEnd (if big then clsBig else cls) (flat (refBuf ls))) i with
      | some j => fl = false ∧ idx ls r' o' = some j
      | none => fl = true ∧ idx ls r' o' = some ((flat (refBuf ls)).length - 1) := by
  obtain ⟨e, hb⟩ := asciiBuf_eq ls h
  have hrep := (idx_iff_rep ls h _ _ _).1 hi
  simp only [idx_iff_rep ls h]
  rw [flat_length, nextWhere_congr _ _ _ i (fun j hj => wordEnd_eq hb _ j hj), ← kk_eq]
  conv => enter [1, fl, 1, r', 1, o', 1, 1]; rw [e]
  have hs := we_sim hb big 1 (Or.inl rfl) hrep
  generalize wordend (lsOf (refBuf ls)) big 1 r o = res at hs ⊢
  obtain ⟨fl, r', o'⟩ := res
  obtain ⟨s1, s2⟩ := hs
  simp only [] at s1 s2
  refine ⟨fl, r', o', rfl, ?_⟩
  rcases we_fwd (txt_of_rep hb hrep) big i (rep_lt hrep) with ⟨j, a1, a2⟩ | ⟨a1, a2⟩
  · rw [a2]; rw [a1] at s1 s2; exact ⟨s1, s2⟩
  · rw [a2]; rw [a1] at s1 s2; exact ⟨s1, s2⟩

/-- **one `b` / `B` step** (`lbuf_wordend`, backward): the target is the greatest index before `i` that
    starts a word, and index 0 if there is none (this is the step of the reference's `wordBackRaw`); the
    scanner returns 1 exactly when the target is index 0 — whether or not a word starts there -/
theorem wordend_back_spec (ls : Lines) (h : AsciiBuf ls) (big : Bool) (r o : Int) (i : Nat) (hi : idx ls r o = some i) :
    ∃ fl r' o', wordend ls big (-1) r o = (fl, r', o') ∧
      idx ls r' o' =
        some ((prevWhere (wordStart (if big then clsBig else cls) (flat (refBuf ls))) i).getD 0) ∧
      (fl = true ↔ (prevWhere (wordStart (if big then clsBig else cls) (flat (refBuf ls))) i).getD 0 = 0) := by
  obtain ⟨e, hb⟩ := asciiBuf_eq ls h
  have hrep := (idx_iff_rep ls h _ _ _).1 hi
  have hlt := rep_lt hrep
  simp only [idx_iff_rep ls h]
  rw [prevWhere_congr _ _ i (fun j hj => wordStart_eq hb _ j (by omega)), ← kk_eq]
  conv => enter [1, fl, 1, r', 1, o', 1, 1]; rw [e]
  have hs := we_sim hb big (-1) (Or.inr rfl) hrep
  generalize wordend (lsOf (refBuf ls)) big (-1) r o = res at hs ⊢
  obtain ⟨fl, r', o'⟩ := res
  obtain ⟨s1, s2⟩ := hs
  simp only [] at s1 s2
  refine ⟨fl, r', o', rfl, ?_⟩
  obtain ⟨fl2, j, a1, a2, a3⟩ := we_bwd (txt_of_rep hb hrep) big i hlt
  rw [a1] at s1 s2
  simp only [] at s1 s2
  rw [a2, s1]
  exact ⟨s2, a3⟩

/-! ### one step of the scanner is the reference motion with count 1 -/

theorem posAt_idx (ls : Lines) (h : AsciiBuf ls) {r o : Int} {i : Nat} (hi : idx ls r o = some i) :
    posAt (flat (refBuf ls)) i = ⟨r.toNat, o.toNat⟩ := (flat_class ls h r o i hi).2.2.2.2

theorem idx_indexOf (ls : Lines) {r o : Int} {i : Nat} (hi : idx ls r o = some i) :
    indexOf (flat (refBuf ls)) ⟨r.toNat, o.toNat⟩ = some i := by
  unfold idx at hi
  split at hi
  · cases hi
  · exact hi

theorem idx_lt (ls : Lines) (h : AsciiBuf ls) {r o : Int} {i : Nat} (hi : idx ls r o = some i) :
    i < (flat (refBuf ls)).length := by
  rw [flat_length]; exact rep_lt ((idx_iff_rep ls h _ _ _).1 hi)

/-- `w` / `W` with count 1: the scanner stops where the reference motion (before clamping to the line)
    lands, whether or not it reports failure -/
theorem wordbeg_wordFwdRaw (ls : Lines) (h : AsciiBuf ls) (big : Bool) (r o : Int) (i : Nat) (hi : idx ls r o = some i) :
    ∃ fl r' o', wordbeg ls big 1 r o = (fl, r', o') ∧ 0 ≤ r' ∧ 0 ≤ o' ∧
      wordFwdRaw big (refBuf ls) ⟨r.toNat, o.toNat⟩ 1 = ⟨r'.toNat, o'.toNat⟩ := by
  obtain ⟨fl, r', o', e, hm⟩ := wordbeg_spec ls h big r o i hi
  have hlt := idx_lt ls h hi
  refine ⟨fl, r', o', e, ?_⟩
  unfold wordFwdRaw
  simp only []
  rw [idx_indexOf ls hi]
  simp only [iter]
  cases hn : nextWhere (flat (refBuf ls)).length (wordStart (if big then clsBig else cls) (flat (refBuf ls))) i with
  | some j =>
    rw [hn] at hm
    obtain ⟨_, hj⟩ := hm
    have hrep := (idx_iff_rep ls h _ _ _).1 hj
    obtain ⟨rn, cn, e1, e2, _⟩ := hrep
    exact ⟨by omega, by omega, posAt_idx ls h hj⟩
  | none =>
    rw [hn] at hm
    obtain ⟨_, hj⟩ := hm
    have hrep := (idx_iff_rep ls h _ _ _).1 hj
    obtain ⟨rn, cn, e1, e2, _⟩ := hrep
    refine ⟨by omega, by omega, ?_⟩
    by_cases hl : i + 1 < (flat (refBuf ls)).length
    · simp only [hl, if_true]; exact posAt_idx ls h hj
    · simp only [hl, if_false]
      rw [show i = (flat (refBuf ls)).length - 1 by omega]; exact posAt_idx ls h hj

/-- `e` / `E` with count 1 -/
theorem wordend_wordEndFwdRaw (ls : Lines) (h : AsciiBuf ls) (big : Bool) (r o : Int) (i : Nat)
    (hi : idx ls r o = some i) :
    ∃ fl r' o', wordend ls big 1 r o = (fl, r', o') ∧ 0 ≤ r' ∧ 0 ≤ o' ∧
      wordEndFwdRaw big (refBuf ls) ⟨r.toNat, o.toNat⟩ 1 = ⟨r'.toNat, o'.toNat⟩ := by
  obtain ⟨fl, r', o', e, hm⟩ := wordend_fwd_spec ls h big r o i hi
  have hlt := idx_lt ls h hi
  refine ⟨fl, r', o', e, ?_⟩
  unfold wordEndFwdRaw
  simp only []
  rw [idx_indexOf ls hi]
  simp only [iter]
  cases hn : nextWhere (flat (refBuf ls)).length (wordEnd (if big then clsBig else cls) (flat (refBuf ls))) i with
  | some j =>
    rw [hn] at hm
    obtain ⟨_, hj⟩ := hm
    have hrep := (idx_iff_rep ls h _ _ _).1 hj
    obtain ⟨rn, cn, e1, e2, _⟩ := hrep
    exact ⟨by omega, by omega, posAt_idx ls h hj⟩
  | none =>
    rw [hn] at hm
    obtain ⟨_, hj⟩ := hm
    have hrep := (idx_iff_rep ls h _ _ _).1 hj
    obtain ⟨rn, cn, e1, e2, _⟩ := hrep
    refine ⟨by omega, by omega, ?_⟩
    by_cases hl : i + 1 < (flat (refBuf ls)).length
    · simp only [hl, if_true]; exact posAt_idx ls h hj
    · simp only [hl, if_false]
      rw [show i = (flat (refBuf ls)).length - 1 by omega]; exact posAt_idx ls h hj

/-- `b` / `B` with count 1 -/
theorem wordend_wordBackRaw (ls : Lines) (h : AsciiBuf ls) (big : Bool) (r o : Int) (i : Nat)
    (hi : idx ls r o = some i) :
    ∃ fl r' o', wordend ls big (-1) r o = (fl, r', o') ∧ 0 ≤ r' ∧ 0 ≤ o' ∧
      wordBackRaw big (refBuf ls) ⟨r.toNat, o.toNat⟩ 1 = ⟨r'.toNat, o'.toNat⟩ := by
  obtain ⟨fl, r', o', e, hj, _⟩ := wordend_back_spec ls h big r o i hi
  refine ⟨fl, r', o', e, ?_⟩
  have hrep := (idx_iff_rep ls h _ _ _).1 hj
  obtain ⟨rn, cn, e1, e2, _⟩ := hrep
  refine ⟨by omega, by omega, ?_⟩
  unfold wordBackRaw
  simp only []
  rw [idx_indexOf ls hi]
  simp only [iter]
  cases hn : prevWhere (wordStart (if big then clsBig else cls) (flat (refBuf ls))) i with
  | some j =>
    rw [hn] at hj
    exact posAt_idx ls h hj
  | none =>
    rw [hn] at hj
    simp only [Option.getD_none] at hj
    by_cases hl : i > 0
    · simp only [hl, if_true]; exact posAt_idx ls h hj
    · simp only [hl, if_false]
      rw [show i = 0 by omega]; exact posAt_idx ls h hj

/-! ## 4. `lbuf_paragraphbeg` -/

theorem refBuf_length (ls : Lines) : (refBuf ls).length = ls.length := by simp [refBuf]

/-- **`}` and `{`** (`lbuf_paragraphbeg`): forward from a row of the buffer (or from the row just after
    it) the result is `paraFwd`, backward from a row of the buffer it is `paraBack`; the offset is 0.
    Both include the clamps: forward the last row when no blank line follows, backward row 0. -/
theorem paragraphbeg_spec (ls : Lines) (h : AsciiBuf ls) (r : Nat) :
    (r ≤ ls.length → paragraphbeg ls 1 (r : Int) = (((paraFwd (refBuf ls) r : Nat) : Int), 0)) ∧
    (r < ls.length → paragraphbeg ls (-1) (r : Int) = (((paraBack (refBuf ls) r : Nat) : Int), 0)) := by
  obtain ⟨e, _⟩ := asciiBuf_eq ls h
  rw [← refBuf_length]
  generalize refBuf ls = b at *
  subst e
  exact ⟨paragraphbeg_fwd b r, paragraphbeg_bwd b r⟩

/-- the same for every buffer whose lines are a text followed by a newline (ASCII is not needed) -/
theorem paragraphbeg_spec_lines (b : Buf) (r : Nat) :
    (r ≤ b.length → paragraphbeg (lsOf b) 1 (r : Int) = (((paraFwd b r : Nat) : Int), 0)) ∧
    (r < b.length → paragraphbeg (lsOf b) (-1) (r : Int) = (((paraBack b r : Nat) : Int), 0)) :=
  ⟨paragraphbeg_fwd b r, paragraphbeg_bwd b r⟩

/-- backward the hypothesis "a row of the buffer" is needed: from the row after the last one the scanner
    clamps to the last row at once, while `paraBack` starts to search there (buffer: an empty line,
    then `(`) -/
theorem paraBack_invalid_row :
    paragraphbeg [[10], [40, 10]] (-1) 2 = (1, 0) ∧ paraBack [[], [40]] 2 = 0 ∧
    AsciiBuf [[10], [40, 10]] ∧ refBuf [[10], [40, 10]] = [[], [40]] := by
  refine ⟨by decide, by decide, ?_, rfl⟩
  intro l hl
  simp only [List.mem_cons, List.not_mem_nil, or_false] at hl
  rcases hl with rfl | rfl
  · exact ⟨[], rfl, by unfold AsciiW; decide⟩
  · exact ⟨[40], rfl, by unfold AsciiW; decide⟩

/-! ## 5. `lbuf_pair` -/

/-- **`%`** (`lbuf_pair`) from any character `(r, o)` of the buffer (the newline included): the result is
    the reference's `pairOf` — the first bracket `( ) [ ] { }` at or after the cursor on its line, and
    the bracket that balances it, searched over the whole buffer; `none` when there is no bracket on the
    rest of the line or no balancing partner -/
theorem pair_spec (ls : Lines) (h : AsciiBuf ls) (r o : Int) (i : Nat) (hi : idx ls r o = some i) :
    Mot.pair ls r o = (pairOf (refBuf ls) ⟨r.toNat, o.toNat⟩).map (fun p => ((p.row : Int), (p.col : Int))) := by
  obtain ⟨e, hb⟩ := asciiBuf_eq ls h
  have hrep := (idx_iff_rep ls h _ _ _).1 hi
  generalize refBuf ls = b at *
  subst e
  obtain ⟨rn, cn, rfl, rfl, h1, h2, _⟩ := hrep
  simpa using pair_rep hb h1 h2

/-! ## 6. examples: the buffer `ab c` / (empty line) / `(x)` -/

def exLs : Lines := [[97, 98, 32, 99, 10], [10], [40, 120, 41, 10]]

theorem exLs_ascii : AsciiBuf exLs := by
  intro l hl
  simp only [exLs, List.mem_cons, List.not_mem_nil, or_false] at hl
  rcases hl with rfl | rfl | rfl
  · exact ⟨[97, 98, 32, 99], rfl, by unfold AsciiW; decide⟩
  · exact ⟨[], rfl, by unfold AsciiW; decide⟩
  · exact ⟨[40, 120, 41], rfl, by unfold AsciiW; decide⟩

example : refBuf exLs = [[97, 98, 32, 99], [], [40, 120, 41]] := rfl
example : idx exLs 0 0 = some 0 ∧ idx exLs 0 4 = some 4 ∧ idx exLs 1 0 = some 5 ∧ idx exLs 2 3 = some 9 ∧
    idx exLs 0 5 = none ∧ idx exLs 3 0 = none := by decide +kernel
/-- `w` from `a`: to `c`; from `c`: to the empty line; from the last `)`: failure on the last newline -/
example : wordbeg exLs false 1 0 0 = (false, 0, 3) ∧ wordbeg exLs false 1 0 3 = (false, 1, 0) ∧
    wordbeg exLs false 1 2 2 = (true, 2, 3) := by decide +kernel
example : nextWhere 10 (wordStart cls (flat (refBuf exLs))) 0 = some 3 ∧
    nextWhere 10 (wordStart cls (flat (refBuf exLs))) 3 = some 5 ∧
    nextWhere 10 (wordStart cls (flat (refBuf exLs))) 8 = none := by decide +kernel
/-- `e` from `a`: to `b`; `b` from `c`: to `a`, reported as failure since that is index 0 -/
example : wordend exLs false 1 0 0 = (false, 0, 1) ∧ wordend exLs false (-1) 0 3 = (true, 0, 0) ∧
    wordend exLs false (-1) 2 1 = (false, 2, 0) := by decide +kernel
example : paragraphbeg exLs 1 0 = (1, 0) ∧ paragraphbeg exLs (-1) 2 = (1, 0) ∧
    Mot.pair exLs 2 0 = some (2, 2) ∧ Mot.pair exLs 2 2 = some (2, 0) ∧ Mot.pair exLs 0 0 = none := by decide +kernel
/-- the theorems instantiated -/
example : ∃ fl r' o', wordbeg exLs false 1 0 0 = (fl, r', o') ∧ 0 ≤ r' ∧ 0 ≤ o' ∧
    wordFwdRaw false (refBuf exLs) ⟨0, 0⟩ 1 = ⟨r'.toNat, o'.toNat⟩ :=
  wordbeg_wordFwdRaw exLs exLs_ascii false 0 0 0 (by decide +kernel)

end Neatvi.Props.C07b
