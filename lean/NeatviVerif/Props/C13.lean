import NeatviVerif.Lemmas.C13Spec
import NeatviVerif.Lemmas.C13Vi
import NeatviVerif.Props.C16
/-!
# C13: searching (`lbuf_search`, `vi_search`)

"A forward search moves the cursor to the start of the first match that begins after the cursor
character on its line, else on the nearest following line that has one; a backward search moves to
the last of the successive matches that begin before the cursor on its line, else the last one on
the nearest preceding line that has one.  Searches do not wrap around, `n` and `N` repeat in the same
and the opposite direction, a count repeats the search, and when nothing is found the cursor stays
where it was."

The theorems are about the model `Mot.search` / `Vi.viSearch`.  The regex engine is kept out of the
way: `search_eq_generic` restates `Mot.search` as the generic scan `gSearch` at the per-line matcher
`reMatcher re` (= `rstr_find` on a *suffix* of the line, with `RE_NOTBOL` when the suffix is not the
whole line), and "first" / "successive" are relative to that matcher:

* `fwdLine m r0 o0 j s`: the matcher's first match from the byte after the cursor character (row
  `r0`) or from the line start (other rows);
* `Chain m s stop 0 l`: `l` lists the successive matches from the line start, each search starting
  after the previous match (one byte further after an empty match); `BwdLine` reports its last one.

Known limitation (stated, see `suffix_rule_differs` and `suffix_rule_real`): because the matcher sees
only the suffix, a word-boundary test at the start of the suffix does not see the preceding character.
-/
namespace Neatvi.Props.C13
open Neatvi Neatvi.Uc Neatvi.Rset Neatvi.Mot Neatvi.Lemmas.C13

/-- the flags `lbuf_search` compiles the pattern with -/
def reFlags (icase : Bool) : Nat := if icase then RE_ICASE else 0

/-! ## 0. the restatement -/

theorem search_eq_generic (ls : Lines) (kw : Bytes) (icase : Bool) (dir r0 o0 : Int) :
    search ls kw icase dir r0 o0 =
      match rstrMake kw (reFlags icase) with
      | none => none
      | some none => some none
      | some (some re) => gSearch (reMatcher re) ls dir r0 o0 :=
  Lemmas.C13.search_eq_generic ls kw icase dir r0 o0

theorem search_of_re {ls : Lines} {kw : Bytes} {icase : Bool} {re : RStr} (dir r0 o0 : Int)
    (hre : rstrMake kw (reFlags icase) = some (some re)) :
    search ls kw icase dir r0 o0 = gSearch (reMatcher re) ls dir r0 o0 := by
  rw [search_eq_generic, hre]

/-- a search that finds something has a compiled pattern -/
theorem search_found_compiled {ls : Lines} {kw : Bytes} {icase : Bool} {dir r0 o0 : Int} {x : Int × Int × Int}
    (h : search ls kw icase dir r0 o0 = some (some x)) : ∃ re, rstrMake kw (reFlags icase) = some (some re) := by
  rw [search_eq_generic] at h
  cases hm : rstrMake kw (reFlags icase) with
  | none => rw [hm] at h; cases h
  | some y =>
    cases y with
    | none => rw [hm] at h; cases h
    | some re => exact ⟨re, rfl⟩

/-- a pattern that does not compile is reported as "not found" -/
theorem search_nopat {ls : Lines} {kw : Bytes} {icase : Bool} (dir r0 o0 : Int)
    (hre : rstrMake kw (reFlags icase) = some none) : search ls kw icase dir r0 o0 = some none := by
  rw [search_eq_generic, hre]

/-- what the matcher of the compiled pattern is: `rstr_find` on the suffix -/
theorem reMatcher_some_iff (re : RStr) (s : Bytes) (off so eo : Nat) :
    reMatcher re s off = some (some (so, eo)) ↔
      ∃ res offs c, rstrFind re (s.drop off) 1 (if off ≠ 0 then RE_NOTBOL else 0) search.Ex_ND search.Ex_NG = some (res, offs, c) ∧
        0 ≤ res ∧ so = (offs.getD 0 0).toNat ∧ eo = (offs.getD 1 0).toNat := by
  unfold reMatcher
  have hflg : (if (off != 0) = true then RE_NOTBOL else 0) = (if off ≠ 0 then RE_NOTBOL else 0) := by
    by_cases h : off = 0 <;> simp [h]
  rw [hflg]
  cases rstrFind re (s.drop off) 1 (if off ≠ 0 then RE_NOTBOL else 0) search.Ex_ND search.Ex_NG with
  | none => simp
  | some x =>
    obtain ⟨res, offs, c⟩ := x
    by_cases hres : res < 0
    · simp only [hres, if_true, Option.some.injEq, reduceCtorEq, Prod.mk.injEq, false_iff]
      rintro ⟨res', offs', c', ⟨rfl, rfl, rfl⟩, h, -⟩; omega
    · simp only [hres, if_false, Option.some.injEq, Prod.mk.injEq]
      constructor
      · rintro ⟨rfl, rfl⟩; exact ⟨res, offs, c, ⟨rfl, rfl, rfl⟩, by omega, rfl, rfl⟩
      · rintro ⟨res', offs', c', ⟨rfl, rfl, rfl⟩, -, rfl, rfl⟩; exact ⟨rfl, rfl⟩

/-! ## the per-row rules, spelled out -/

theorem fwdLine_hit_iff (m : Matcher) (r0 o0 j : Int) (s : Bytes) (o len : Int) :
    fwdLine m r0 o0 j s = some (some (o, len)) ↔
      ∃ b so eo, fwdStart r0 o0 j s = some b ∧ m s b = some (some (so, eo)) ∧ (o, len) = report s (b + so) (eo - so) := by
  unfold fwdLine
  cases fwdStart r0 o0 j s with
  | none => simp
  | some b =>
    cases hm : m s b with
    | none => simp [hm]
    | some x =>
      cases x with
      | none => simp [hm]
      | some p =>
        obtain ⟨so, eo⟩ := p
        simp only [hm, Option.some.injEq]
        constructor
        · intro h; exact ⟨b, so, eo, rfl, hm, h.symm⟩
        · rintro ⟨b', so', eo', hb, hm', h⟩
          cases hb; rw [hm] at hm'; cases hm'; exact h.symm

theorem fwdLine_none_iff (m : Matcher) (r0 o0 j : Int) (s : Bytes) :
    fwdLine m r0 o0 j s = some none ↔ ∃ b, fwdStart r0 o0 j s = some b ∧ m s b = some none := by
  unfold fwdLine
  cases fwdStart r0 o0 j s with
  | none => simp
  | some b =>
    cases hm : m s b with
    | none => simp [hm]
    | some x =>
      cases x with
      | none => simp [hm]
      | some p => simp [hm]

theorem fwdStart_cursor_row (r0 o0 : Int) (s : Bytes) : fwdStart r0 o0 r0 s = ucChr s (o0 + 1).toNat := by
  simp [fwdStart]

theorem fwdStart_other_row {r0 j : Int} (o0 : Int) (s : Bytes) (h : j ≠ r0) : fwdStart r0 o0 j s = some 0 := by
  have : ¬ r0 = j := fun e => h e.symm
  simp [fwdStart, this]

/-- on a row other than the cursor's the stop rule of a backward scan never fires -/
theorem stopB_other_row {r0 j : Int} (o0 : Int) (s : Bytes) (h : j ≠ r0) (b : Nat) : stopB r0 o0 j s b = false := by
  have : ¬ r0 = j := fun e => h e.symm
  simp [stopB, this]

theorem stopB_cursor_row (r0 o0 : Int) (s : Bytes) (b : Nat) : stopB r0 o0 r0 s b = decide (o0 ≤ ((ucOff s b : Nat) : Int)) := by
  simp [stopB]

/-! ## 2. forward: the first match of the nearest row that has one -/

/-- **forward search, complete characterisation.**  The search reports `(r, o, len)` exactly when
    every row from the cursor's up to `r` (excluded) has no match under the per-row rule, and
    `(o, len)` is the matcher's first match on row `r` under that rule. -/
theorem search_forward_first_row {ls : Lines} {kw : Bytes} {icase : Bool} {re : RStr} {r0 o0 r o len : Int}
    (hre : rstrMake kw (reFlags icase) = some (some re)) (h0 : 0 ≤ r0) :
    search ls kw icase 1 r0 o0 = some (some (r, o, len)) ↔
      (r0 ≤ r ∧ r < ls.length ∧
        (∀ j s, r0 ≤ j → j < r → lineAt ls j = some s → fwdLine (reMatcher re) r0 o0 j s = some none) ∧
        ∃ s, lineAt ls r = some s ∧ fwdLine (reMatcher re) r0 o0 r s = some (some (o, len))) := by
  rw [search_of_re 1 r0 o0 hre, gSearch, gRows_fwd_found ls _ _ r0 r o len h0 (by omega)]
  simp only [gLineScan_fwd _ 1 r0 o0 _ _ (by omega : (0 : Int) < 1)]

/-- **forward, not found** iff no row from the cursor's to the last has a match under the per-row rule -/
theorem search_forward_not_found {ls : Lines} {kw : Bytes} {icase : Bool} {re : RStr} {r0 o0 : Int}
    (hre : rstrMake kw (reFlags icase) = some (some re)) (h0 : 0 ≤ r0) :
    search ls kw icase 1 r0 o0 = some none ↔
      ∀ j s, r0 ≤ j → lineAt ls j = some s → fwdLine (reMatcher re) r0 o0 j s = some none := by
  rw [search_of_re 1 r0 o0 hre, gSearch, gRows_fwd_none ls _ _ r0 h0 (by omega)]
  simp only [gLineScan_fwd _ 1 r0 o0 _ _ (by omega : (0 : Int) < 1)]

/-! ## 2'. backward: the last of the successive matches of the nearest row that has one -/

/-- **backward search, complete characterisation.**  The search reports `(r, o, len)` exactly when
    every row from the cursor's down to `r` (excluded) has an empty chain of successive matches, and
    `(o, len)` is the last element of the chain of row `r`.  On the cursor's row the chain ends
    before the first match that begins at or after the cursor (`stopB`); on other rows it runs over
    the whole line. -/
theorem search_backward_last {ls : Lines} {kw : Bytes} {icase : Bool} {re : RStr} {r0 o0 r o len : Int}
    (hre : rstrMake kw (reFlags icase) = some (some re)) :
    search ls kw icase (-1) r0 o0 = some (some (r, o, len)) ↔
      (0 ≤ r ∧ r ≤ r0 ∧ r0 < ls.length ∧
        (∀ j s, r < j → j ≤ r0 → lineAt ls j = some s → Chain (reMatcher re) s (stopB r0 o0 j s) 0 []) ∧
        ∃ s l b n, lineAt ls r = some s ∧ Chain (reMatcher re) s (stopB r0 o0 r s) 0 l ∧
          l.getLast? = some (b, n) ∧ (o, len) = report s b n) := by
  by_cases hlen : r0 < ls.length
  · rw [search_of_re (-1) r0 o0 hre, gSearch, gRows_bwd_found ls _ _ r0 r o len (by omega)]
    simp only [gLineScan_bwd _ (-1) r0 o0 _ _ (by omega : (-1 : Int) < 0), bwdLine_none, bwdLine_some]
    constructor
    · rintro ⟨h1, h2, h3, h4, s, h5, l, b, n, h6⟩; exact ⟨h1, h2, h3, h4, s, l, b, n, h5, h6⟩
    · rintro ⟨h1, h2, h3, h4, s, l, b, n, h5, h6⟩; exact ⟨h1, h2, h3, h4, s, h5, l, b, n, h6⟩
  · rw [search_of_re (-1) r0 o0 hre, gSearch, gRows]
    have : (r0 < 0 || r0 ≥ (ls.length : Int)) = true := by simp; omega
    simp only [this, if_true, Option.some.injEq, reduceCtorEq, false_iff]
    rintro ⟨-, -, h, -⟩; omega

/-- **backward, not found** iff every row from the cursor's down to the first has an empty chain -/
theorem search_backward_not_found {ls : Lines} {kw : Bytes} {icase : Bool} {re : RStr} {r0 o0 : Int}
    (hre : rstrMake kw (reFlags icase) = some (some re)) (hlen : r0 < ls.length) :
    search ls kw icase (-1) r0 o0 = some none ↔
      ∀ j s, j ≤ r0 → lineAt ls j = some s → Chain (reMatcher re) s (stopB r0 o0 j s) 0 [] := by
  rw [search_of_re (-1) r0 o0 hre, gSearch, gRows_bwd_none ls _ _ r0 (by omega) hlen]
  simp only [gLineScan_bwd _ (-1) r0 o0 _ _ (by omega : (-1 : Int) < 0), bwdLine_none]

/-- an empty chain: the first search finds nothing, or (cursor's row) already begins at or after the cursor -/
theorem chain_empty_iff (m : Matcher) (s : Bytes) (stop : Nat → Bool) :
    Chain m s stop 0 [] ↔ m s 0 = some none ∨ ∃ so eo, m s 0 = some (some (so, eo)) ∧ stop so = true := by
  rw [chain_nil_iff]; simp

/-! ## 3. not found, both directions in one statement -/

/-- `search … = some none` iff the pattern did not compile, or no row in the direction of the search
    yields a match under the per-row rule -/
theorem search_not_found {ls : Lines} {kw : Bytes} {icase : Bool} {r0 o0 : Int} (h0 : 0 ≤ r0) (hlen : r0 < ls.length) :
    (search ls kw icase 1 r0 o0 = some none ↔
      rstrMake kw (reFlags icase) = some none ∨ ∃ re, rstrMake kw (reFlags icase) = some (some re) ∧
        ∀ j s, r0 ≤ j → lineAt ls j = some s → fwdLine (reMatcher re) r0 o0 j s = some none) ∧
    (search ls kw icase (-1) r0 o0 = some none ↔
      rstrMake kw (reFlags icase) = some none ∨ ∃ re, rstrMake kw (reFlags icase) = some (some re) ∧
        ∀ j s, j ≤ r0 → lineAt ls j = some s → Chain (reMatcher re) s (stopB r0 o0 j s) 0 []) := by
  cases hm : rstrMake kw (reFlags icase) with
  | none => simp [search_eq_generic, hm]
  | some y =>
    cases y with
    | none => simp [search_nopat _ _ _ hm]
    | some re =>
      rw [search_forward_not_found hm h0, search_backward_not_found hm hlen]
      simp

/-! ## 1. position: strictly after / before the cursor in reading order, no wrap-around -/

/-- a forward match lies strictly after the cursor in reading order (so the search does not wrap) -/
theorem search_forward_position {ls : Lines} {kw : Bytes} {icase : Bool} {r0 o0 r o len : Int}
    (h : search ls kw icase 1 r0 o0 = some (some (r, o, len))) (h0 : 0 ≤ r0) :
    r0 ≤ r ∧ r < ls.length ∧ (r = r0 → o0 < o) := by
  obtain ⟨re, hre⟩ := search_found_compiled h
  obtain ⟨h1, h2, -, s, hs, hl⟩ := (search_forward_first_row hre h0).mp h
  refine ⟨h1, h2, ?_⟩
  rintro rfl
  obtain ⟨b, so, eo, hb, -, hrep⟩ := (fwdLine_hit_iff _ _ _ _ _ _ _).mp hl
  rw [fwdStart_cursor_row] at hb
  have hge := ucOff_ge_of_chr hb so
  have ho : o = ((ucOff s (b + so) : Nat) : Int) := by
    have := congrArg Prod.fst hrep; simpa [report] using this
  omega

/-- a backward match lies strictly before the cursor in reading order (so the search does not wrap) -/
theorem search_backward_position {ls : Lines} {kw : Bytes} {icase : Bool} {r0 o0 r o len : Int}
    (h : search ls kw icase (-1) r0 o0 = some (some (r, o, len))) :
    0 ≤ r ∧ r ≤ r0 ∧ r0 < ls.length ∧ (r = r0 → o < o0) := by
  obtain ⟨re, hre⟩ := search_found_compiled h
  obtain ⟨h1, h2, h3, -, s, l, b, n, hs, hc, hl, hrep⟩ := (search_backward_last hre).mp h
  refine ⟨h1, h2, h3, ?_⟩
  rintro rfl
  obtain ⟨off', so, eo, -, -, hp, hstop⟩ := chain_mem hc (b, n) (List.mem_of_getLast? hl)
  have hb : b = off' + so := congrArg Prod.fst hp
  rw [← hb, stopB_cursor_row] at hstop
  have ho : o = ((ucOff s b : Nat) : Int) := by
    have := congrArg Prod.fst hrep; simpa [report] using this
  simp at hstop
  omega

/-! ## 4. the reported position is a match of the matcher -/

/-- the reported `(o, len)` are the character offset and the length in characters of byte offsets
    `(so, eo)` that `rstr_find` returned for the suffix at byte `off` of the reported line -/
theorem search_is_match {ls : Lines} {kw : Bytes} {icase : Bool} {dir r0 o0 r o len : Int}
    (hdir : dir = 1 ∨ dir = -1) (h0 : 0 ≤ r0)
    (h : search ls kw icase dir r0 o0 = some (some (r, o, len))) :
    ∃ re s off so eo, rstrMake kw (reFlags icase) = some (some re) ∧ lineAt ls r = some s ∧
      reMatcher re s off = some (some (so, eo)) ∧
      o = ((ucOff s (off + so) : Nat) : Int) ∧ len = ((ucOff (s.drop (off + so)) (eo - so) : Nat) : Int) := by
  obtain ⟨re, hre⟩ := search_found_compiled h
  rcases hdir with rfl | rfl
  · obtain ⟨-, -, -, s, hs, hl⟩ := (search_forward_first_row hre h0).mp h
    obtain ⟨b, so, eo, -, hm, hrep⟩ := (fwdLine_hit_iff _ _ _ _ _ _ _).mp hl
    refine ⟨re, s, b, so, eo, hre, hs, hm, ?_, ?_⟩
    · have := congrArg Prod.fst hrep; simpa [report] using this
    · have := congrArg Prod.snd hrep; simpa [report] using this
  · obtain ⟨-, -, -, -, s, l, b, n, hs, hc, hl, hrep⟩ := (search_backward_last hre).mp h
    obtain ⟨off', so, eo, -, hm, hp, -⟩ := chain_mem hc (b, n) (List.mem_of_getLast? hl)
    have hb : b = off' + so := congrArg Prod.fst hp
    have hn : n = eo - so := congrArg Prod.snd hp
    subst hb hn
    refine ⟨re, s, off', so, eo, hre, hs, hm, ?_, ?_⟩
    · have := congrArg Prod.fst hrep; simpa [report] using this
    · have := congrArg Prod.snd hrep; simpa [report] using this

/-! ## 5. vi level: `vi_search`, `n` / `N`, the count, and a failed search -/

section vi
open Neatvi.Vi Neatvi.Ex

-- keep `whnf` from unfolding the search (and the regex compiler behind it) when it looks at a `match`
attribute [local irreducible] Neatvi.Mot.search

/-- `vi_search` never touches the text or the cursor `(xrow, xoff)` of the editor state, whatever
    it returns (it sets the keyword, its direction, register `/`, the search offset and the message) -/
theorem viSearch_keeps {cmd : Nat} {cnt r o : Int} {s s' : VS} {a : Option (Int × Int)}
    (h : viSearch cmd cnt r o s = Res.ok a s') :
    lines s' = lines s ∧ s'.ed.xrow = s.ed.xrow ∧ s'.ed.xoff = s.ed.xoff :=
  (keeps_viSearch cmd cnt r o).h s a s' h

/-- a failed `vi_search` leaves the text and the cursor of the editor state where they were -/
theorem viSearch_fail_keeps_cursor {cmd : Nat} {cnt r o : Int} {s s' : VS}
    (h : viSearch cmd cnt r o s = Res.ok none s') :
    lines s' = lines s ∧ s'.ed.xrow = s.ed.xrow ∧ s'.ed.xoff = s.ed.xoff := viSearch_keeps h

/-- the direction `n` / `N` (and `/`, `?` after the prompt has stored theirs) search in -/
def dirOf (cmd : Nat) (s : VS) : Int := if cmd == 78 then -s.ed.xkwddir else s.ed.xkwddir

/-- `vi_search` without the prompt, in closed form: `cnt` chained searches for the stored keyword in
    the direction `dirOf cmd s`, then the line offset of `/pat/+n` -/
def searchRepeat (cmd : Nat) (cnt r o : Int) : M (Option (Int × Int)) := fun s =>
  if lenOf s == 0 || s.ed.xkwddir == 0 then Res.ok none s else
  match countSearch (lines s) s.ed.xkwd (s.ed.xic != 0) (dirOf cmd s) (cmd == 47) cnt.toNat (r, o) with
  | none => Res.trap
  | some none => Res.ok none { s with msg := (([47] ++ s.ed.xkwd ++ strOf "/ not found" : Bytes)).take 511 }
  | some (some (r', o')) =>
    if s.soset then
      if r' + s.so < 0 || r' + s.so ≥ lenOf s then
        Res.ok none { s with msg := (([47] ++ s.ed.xkwd ++ strOf "/ bad offset" : Bytes)).take 511 }
      else Res.ok (some (r' + s.so, -1)) s
    else Res.ok (some (r', o')) s

/-- **the count repeats the search** (and `n`, `N` do not prompt): for a command other than `/`, `?`
    `vi_search` is `searchRepeat`, whose loop `countSearch` chains `cnt` single searches, each
    starting from the position the previous one reported -/
theorem viSearch_count {cmd : Nat} (cnt r o : Int) (h1 : cmd ≠ 47) (h2 : cmd ≠ 63) :
    viSearch cmd cnt r o = searchRepeat cmd cnt r o := by
  funext s
  unfold viSearch searchRepeat
  have hc : (cmd == 47 || cmd == 63) = false := by simp [h1, h2]
  simp only [hc, bind, pure, Vi.get, Bool.false_eq_true, if_false]
  by_cases h0 : (lenOf s == 0 || s.ed.xkwddir == 0) = true
  · simp only [h0, if_true]
  · simp only [h0, Bool.false_eq_true, if_false]
    rw [rep_eq_count cmd cnt s s.ed.xkwd _ (cnt.toNat + 1) r o 0 (by omega), show cnt - 0 = cnt by omega]
    simp only [dirOf]
    cases countSearch (lines s) s.ed.xkwd (s.ed.xic != 0) (if (cmd == 78) = true then -s.ed.xkwddir else s.ed.xkwddir)
        (cmd == 47) cnt.toNat (r, o) with
    | none => rfl
    | some x =>
      cases x with
      | none => rfl
      | some p =>
        obtain ⟨r', o'⟩ := p
        simp only []
        by_cases hs : s.soset = true
        · rw [if_pos hs, if_pos hs]
          by_cases hb : (decide (r' + s.so < 0) || decide (r' + s.so ≥ lenOf s)) = true
          · rw [if_pos hb, if_pos hb]; rfl
          · rw [if_neg hb, if_neg hb]
        · rw [if_neg hs, if_neg hs]

/-- **`N` reverses, `n` keeps the direction** of the last `/` or `?`: both are `searchRepeat`, whose
    searches run in direction `dirOf`, and `dirOf` is the stored direction for `n`, its negation for `N` -/
theorem viSearch_N_reverses (cnt r o : Int) :
    viSearch 78 cnt r o = searchRepeat 78 cnt r o ∧ viSearch 110 cnt r o = searchRepeat 110 cnt r o ∧
      ∀ s, dirOf 78 s = -s.ed.xkwddir ∧ dirOf 110 s = s.ed.xkwddir := by
  refine ⟨viSearch_count cnt r o (by decide) (by decide), viSearch_count cnt r o (by decide) (by decide), ?_⟩
  intro s; constructor <;> simp [dirOf]

/-- for `n` / `N` the count loop is the plain `k`-fold iteration of single searches -/
def iterSearch (ls : Lines) (kwd : Bytes) (icase : Bool) (dir : Int) : Nat → Int × Int → Option (Option (Int × Int))
  | 0, p => some (some p)
  | k + 1, p =>
    match search ls kwd icase dir p.1 p.2 with
    | none => none
    | some none => some none
    | some (some (r', o', _)) => iterSearch ls kwd icase dir k (r', o')

theorem countSearch_plain (ls : Lines) (kwd : Bytes) (icase : Bool) (dir : Int) (k : Nat) (p : Int × Int) :
    countSearch ls kwd icase dir false k p = iterSearch ls kwd icase dir k p := by
  induction k generalizing p with
  | zero => rfl
  | succ k ih =>
    rw [countSearch_succ, searchStep_def]
    show _ = (match search ls kwd icase dir p.1 p.2 with
      | none => none
      | some none => some none
      | some (some (r', o', _)) => iterSearch ls kwd icase dir k (r', o'))
    cases search ls kwd icase dir p.1 p.2 with
    | none => rfl
    | some x =>
      cases x with
      | none => rfl
      | some t => obtain ⟨r', o', len⟩ := t; simp [ih]

/-- `/` with a count: every search but the last continues from the *end* of the match -/
theorem countSearch_slash_succ (ls : Lines) (kwd : Bytes) (icase : Bool) (dir : Int) (k : Nat) (p : Int × Int) :
    countSearch ls kwd icase dir true (k + 2) p =
      match search ls kwd icase dir p.1 p.2 with
      | none => none
      | some none => some none
      | some (some (r', o', len)) => countSearch ls kwd icase dir true (k + 1) (r', o' + len) := by
  rw [countSearch_succ, searchStep_def]
  cases search ls kwd icase dir p.1 p.2 with
  | none => rfl
  | some x =>
    cases x with
    | none => rfl
    | some t => obtain ⟨r', o', len⟩ := t; simp

/-- a count of one (or none) is a single search -/
theorem countSearch_one (ls : Lines) (kwd : Bytes) (icase : Bool) (dir : Int) (slash : Bool) (p : Int × Int) :
    countSearch ls kwd icase dir slash 1 p =
      match search ls kwd icase dir p.1 p.2 with
      | none => none
      | some none => some none
      | some (some (r', o', _)) => some (some (r', o')) := by
  rw [countSearch_succ, searchStep_def]
  cases search ls kwd icase dir p.1 p.2 with
  | none => rfl
  | some x =>
    cases x with
    | none => rfl
    | some t => obtain ⟨r', o', len⟩ := t; simp [countSearch_zero]

/-! ### a failed search in the command loop -/

/-- **the caller of a failed search.**  When `vi_motion` has read one of `/ ? n N` and `vi_search`
    fails, `vi_motion` returns `mv = -1` and hands back the row and offset it was given. -/
theorem viMotion_search_fail {row off r1 mv : Int} {s s1 s2 s3 : VS}
    (h1 : viMotionln row 0 s = Res.ok (0, r1) s1) (h2 : viRead s1 = Res.ok mv s2)
    (hmv : mv = 47 ∨ mv = 63 ∨ mv = 110 ∨ mv = 78)
    (h3 : viSearch mv.toNat (cntOf s) r1 off s2 = Res.ok none s3) :
    viMotion row off s = Res.ok (-1, r1, off) s3 := by
  unfold viMotion
  simp only [bind, Vi.get, h1]
  rcases hmv with rfl | rfl | rfl | rfl <;> (simp at h3; simp [h2, h3, pure])

/-- **when nothing is found the cursor stays where it was.**  If the prefix/motion phase `viPre` of an
    iteration of `vi()` ends with a failed motion (`mv < 0`, as after a failed search), the iteration
    is just its closing phase, and that phase changes the text not at all and the cursor only by the
    clamping of `vi_wfix` -/
theorem viStep_failed_motion {s s1 s' : VS} {mv nrow noff : Int}
    (hpre : viPre s = Res.ok (mv, nrow, noff) s1) (hmv : mv < 0) (h : viStep s = Res.ok () s') :
    ∃ s2, viWfix s1 = Res.ok () s2 ∧
      lines s' = lines s2 ∧ s'.ed.xrow = s2.ed.xrow ∧ s'.ed.xoff = s2.ed.xoff := by
  unfold viStep at h
  simp only [bind, hpre] at h
  have h1 : ¬ mv > 0 := by omega
  have h2 : (mv == 0) = false := by simp; omega
  simp only [h1, h2, if_false, Bool.false_eq_true, pure] at h
  exact viPost_zero h

/-- `vi_wfix` keeps the text, keeps a cursor row that is inside the buffer, and clamps the offset
    with `ren_noeol` -/
theorem viWfix_cursor {s s2 : VS} (h : viWfix s = Res.ok () s2) (hr : 0 ≤ s.ed.xrow) (hl : s.ed.xrow < lenOf s) :
    lines s2 = lines s ∧ s2.ed.xrow = s.ed.xrow ∧
      s2.ed.xoff = (match lineOf s s.ed.xrow with
        | some l => Ren.renNoeol l s.ed.xoff
        | none => Ren.renNoeol [] s.ed.xoff) := by
  unfold viWfix at h
  have hc : (decide (s.ed.xrow < 0) || decide (s.ed.xrow ≥ lenOf s)) = false := by simp; omega
  simp only [bind, Vi.get, hc, Bool.false_eq_true, if_false, withEd, Vi.modify, setOff] at h
  cases h
  refine ⟨rfl, rfl, ?_⟩
  rfl

end vi

/-! ## 2''. the backward rule as "the matches that begin before the cursor" -/

/-- when the successive matches of the whole line can be enumerated (`full`), the chain of the
    cursor's row is the longest prefix of matches that begin before the cursor, so the search
    reports the last of those -/
theorem backward_cursor_row_takeWhile {m : Matcher} {s : Bytes} {r0 o0 : Int} {full : List (Nat × Nat)}
    (h : Chain m s (fun _ => false) 0 full) :
    Chain m s (stopB r0 o0 r0 s) 0 (full.takeWhile (fun p => decide (((ucOff s p.1 : Nat) : Int) < o0))) := by
  have := chain_stop_takeWhile (stopB r0 o0 r0 s) h
  have hf : (fun p : Nat × Nat => !stopB r0 o0 r0 s p.1) = (fun p => decide (((ucOff s p.1 : Nat) : Int) < o0)) := by
    funext p; rw [stopB_cursor_row]
    by_cases hp : o0 ≤ ((ucOff s p.1 : Nat) : Int)
    · simp [hp]
    · simp [hp]; omega
  rw [hf] at this; exact this

/-! ## 4'. valid UTF-8 lines: the report is in characters -/

/-- on a line that is the encoding of the code points `cs`, a match at the bytes of characters
    `[k, k + n)` is reported as offset `k`, length `n` -/
theorem report_valid {cs : List Nat} (h : ∀ c ∈ cs, Spec.ValidCp c) (k n : Nat) (hk : k + n ≤ cs.length) :
    report (Spec.encStr cs) (Spec.byteOff cs k) (Spec.byteOff cs (k + n) - Spec.byteOff cs k) = ((k : Int), (n : Int)) := by
  have hsplit : Spec.encStr cs = Spec.encStr (cs.take k) ++ Spec.encStr (cs.drop k) := by
    rw [← Spec.encStr_append, List.take_append_drop]
  have hdrop : (Spec.encStr cs).drop (Spec.byteOff cs k) = Spec.encStr (cs.drop k) := by
    unfold Spec.byteOff
    conv => lhs; arg 2; rw [hsplit]
    exact List.drop_left
  have hlen : Spec.byteOff cs (k + n) - Spec.byteOff cs k = Spec.byteOff (cs.drop k) n := by
    unfold Spec.byteOff
    rw [List.take_add, Spec.encStr_append, List.length_append]
    omega
  have hd : ∀ c ∈ cs.drop k, Spec.ValidCp c := fun c hc => h c (List.mem_of_mem_drop hc)
  unfold report
  rw [hdrop, hlen, Props.C16.off_chr_roundtrip h k (by omega),
    Props.C16.off_chr_roundtrip hd n (by simp; omega)]

/-! ## 6. examples: `foo` / `bar` / `foo`, pattern `o` -/

/-- "foo\n", "bar\n", "foo\n" -/
def buf3 : Lines := [[102, 111, 111, 10], [98, 97, 114, 10], [102, 111, 111, 10]]

/-- forward from (0,0): the first `o` after the cursor character -/
example : search buf3 [111] false 1 0 0 = some (some (0, 1, 1)) := by decide
/-- forward from (0,2): nothing left on row 0, none on row 1, the first `o` of row 2 -/
example : search buf3 [111] false 1 0 2 = some (some (2, 1, 1)) := by decide
/-- backward from (2,0): nothing before the cursor on row 2, none on row 1, the *last* `o` of row 0 -/
example : search buf3 [111] false (-1) 2 0 = some (some (0, 2, 1)) := by decide
/-- backward from (2,2): the last `o` that begins before the cursor on its own row -/
example : search buf3 [111] false (-1) 2 2 = some (some (2, 1, 1)) := by decide
/-- not found -/
example : search buf3 [122] false 1 0 0 = some none := by decide
/-- no wrap-around: forward from the last `o` of the buffer, backward from the first -/
example : search buf3 [111] false 1 2 2 = some none := by decide
example : search buf3 [111] false (-1) 0 1 = some none := by decide
/-- `2n`-style repetition: two chained forward searches from (0,0) -/
example : iterSearch buf3 [111] false 1 2 (0, 0) = some (some (0, 2)) := by decide
/-- `2/o`: the first search continues from the end of its match, `(0, 1 + 1)`, so the second finds row 2 -/
example : countSearch buf3 [111] false 1 true 2 (0, 0) = some (some (2, 1)) := by decide

/-! ## the known limitation: the matcher sees only the suffix -/

/-- a toy "`a` at the start of a word": the first `a` in `t` whose previous byte (`prev` for the
    first one) is not a word byte -/
def firstA : Option Nat → Bytes → Nat → Option (Nat × Nat)
  | _, [], _ => none
  | prev, c :: t, i =>
    if c == 97 && !(match prev with | some p => Regex.isWordB p | none => false) then some (i, i + 1)
    else firstA (some c) t (i + 1)

/-- the rule of `lbuf_search`: the matcher gets the suffix and nothing else -/
def sufM : Matcher := fun s off => some (firstA none (s.drop off) 0)
/-- a whole-line rule: the matcher also sees the byte before the suffix -/
def lineM : Matcher := fun s off => some (firstA (if off = 0 then none else s[off - 1]?) (s.drop off) 0)

/-- **witness.**  On the line `ba` with the cursor on `b`, a forward search under the suffix rule
    reports the `a` (it looks like the start of a word once `b` is cut off); under the whole-line rule
    there is no match. -/
theorem suffix_rule_differs :
    gSearch sufM [[98, 97, 10]] 1 0 0 = some (some (0, 1, 1)) ∧ gSearch lineM [[98, 97, 10]] 1 0 0 = some none := by
  constructor <;> decide

/-- the same with the real matcher: the pattern `\<a` on the line `ba`.  Forward from `b` the model
    (like the C) reports the `a`; backward from the end of the line, where the matcher is given the
    whole line, the same `a` is not a match. -/
theorem suffix_rule_real :
    search [[98, 97, 10]] [92, 60, 97] false 1 0 0 = some (some (0, 1, 1)) ∧
    search [[98, 97, 10]] [92, 60, 97] false (-1) 0 2 = some none := by
  constructor <;> decide

end Neatvi.Props.C13
