import NeatviVerif.Lemmas.C12Utf8
/-!
# C12: the literal fast path of `rstr.c` agrees with the general engine

Property: a pattern that `rstr_make` handles by plain substring search (`^? \<? literal \>? $?`)
yields, on every newline-terminated line and for every flag combination, the same answer and the
same match offsets as the regular-expression engine (`rset_make`/`rset_find` on `((re))`), and
reports every other group as unset; a pattern containing an operator is never taken as a literal.

Contents: 1 `stop_covers_specials`, 2 `simple_has_no_operator`, 3 `fast_groups_unset`,
4 `literal_find_spec`, 5 `simple_program_shape` (+ `simple_compiles`), 6 `straightline_run`,
`fast_equals_engine_of_subjOk` (general, hypotheses on the subject explicit), its instances
`fast_equals_engine_ascii` and `fast_equals_engine` (valid UTF-8, ICASE included).

Hypotheses that exclude known deviations of the code (they are *not* proved away):
* `lit ≠ []`: recorded deviation (i) — before the `cur != 0` repair of `^`, the engine also matched
  the empty string after the final newline for `^` and `^$`; the empty literal is left out here;
* `LitOk lit` / `lit = encStr lcps`: a literal that is not valid UTF-8 is split differently by the engine;
* `10 ∉ lit` (found here): a literal containing a newline byte can match the line's final newline in
  the engine, while the fast path never looks at the last byte of the subject
  (e.g. pattern `a\n` on the line `a\n`: fast path `-1`, engine `(0, 2)`);
* the pattern is a C string (no NUL byte), the line is `body ++ [10]` with no NUL/newline in `body`;
* `nd ≥ 1` (the straight-line program needs recursion depth 1) and `ng ≥ 6` (marks 0..5 are recorded
  only when `mark < ngrps`; the C constant is 64).
-/
namespace Neatvi.Props.C12
open Neatvi Neatvi.Uc Neatvi.Regex Neatvi.Rset Neatvi.C12

/-! ## 1. the stop set covers every byte the engine treats specially -/

theorem stop_covers_specials :
    (∀ c ∈ Gen.ratomSpecial, c ∈ Gen.rstrStop) ∧ (∀ c ∈ Gen.repChars, c ∈ Gen.rstrStop) := by
  decide

/-- a byte outside the stop set is neither special nor a repetition character for the engine -/
theorem not_stop_not_special {c : Nat} (h : isStop c = false) :
    Gen.ratomSpecial.contains c = false ∧ isRepChar c = false := by
  have hc : ¬ c ∈ Gen.rstrStop := by
    intro hm; simp [isStop, hm] at h
  refine ⟨?_, ?_⟩
  · cases h1 : Gen.ratomSpecial.contains c
    · rfl
    · exact absurd (stop_covers_specials.1 c (List.contains_iff_mem.mp h1)) hc
  · unfold isRepChar
    cases h1 : Gen.repChars.contains c
    · rfl
    · exact absurd (stop_covers_specials.2 c (List.contains_iff_mem.mp h1)) hc

/-! ## 2. a pattern containing an operator is never taken as a literal -/

/-- the classifier accepts exactly `^? (\<)? lit (\>)? $?` where no byte of `lit` is an operator of
    the engine.  (`hnul`: the pattern is a C string; `isSpecial 0 = true` is the terminator.) -/
theorem simple_has_no_operator {re : Bytes} {lbeg wbeg wend lend : Bool} {lit : Bytes}
    (hnul : ∀ c ∈ re, c ≠ 0)
    (h : simple re = some (lbeg, wbeg, wend, lend, lit)) :
    (∀ c ∈ lit, isSpecial c = false ∧ isRepChar c = false) ∧
    re = (if lbeg then [94] else []) ++ (if wbeg then [92, 60] else []) ++ lit ++
         (if wend then [92, 62] else []) ++ (if lend then [36] else []) := by
  obtain ⟨hre, hstop⟩ := simple_decomp h
  refine ⟨?_, ?_⟩
  · intro c hc
    obtain ⟨h1, h2⟩ := not_stop_not_special (hstop c hc)
    have h0 : c ≠ 0 := hnul c (by rw [hre]; simp [hc])
    refine ⟨?_, h2⟩
    unfold isSpecial
    rw [h1]; simp [h0]
  · rw [hre]; simp [pre, suf]

/-- the same without the C-string hypothesis: no byte of the literal is in the engine's tables -/
theorem simple_has_no_operator' {re : Bytes} {lbeg wbeg wend lend : Bool} {lit : Bytes}
    (h : simple re = some (lbeg, wbeg, wend, lend, lit)) :
    ∀ c ∈ lit, Gen.ratomSpecial.contains c = false ∧ isRepChar c = false :=
  fun c hc => not_stop_not_special ((simple_decomp h).2 c hc)

/-! ## 3. the fast path reports every group other than the whole match as unset -/

theorem fast_groups_unset (rs : RStr) (hrs : rs.rs = none) (s : Bytes) (n flg nd ng : Nat)
    (grps : List Int) (cuts : Nat) (hn : n ≥ 1)
    (h : rstrFind rs s n flg nd ng = some (0, grps, cuts)) :
    grps.length = 2 * n ∧
    (∃ r : Nat, grps[0]? = some (r : Int) ∧ grps[1]? = some ((r + (rs.str.getD []).length : Nat) : Int)) ∧
    ∀ i, 2 ≤ i → i < 2 * n → grps[i]? = some (-1) := by
  unfold rstrFind at h
  simp only [hrs] at h
  split at h
  · simp at h
  · split at h
    · simp at h
    · split at h
      · simp at h
      · simp at h
      · rename_i r _
        simp only [Option.some.injEq, Prod.mk.injEq, true_and] at h
        obtain ⟨h1, _⟩ := h
        subst h1
        refine ⟨by simp; omega, ⟨r, by simp, by simp⟩, ?_⟩
        intro i h2 h3
        obtain ⟨j, rfl⟩ : ∃ j, i = j + 2 := ⟨i - 2, by omega⟩
        simp only [List.cons_append, List.nil_append, List.getElem?_cons_succ]
        rw [List.getElem?_replicate]
        rw [if_pos (by omega)]

/-! ## 4. specification of the fast path by itself -/

/-- `rstr_find` on a literal pattern returns the least offset `r` in the candidate range
    (`InRange`: `r + len + 1 ≤ |s|`; only `r = 0`, and `RE_NOTBOL` clear, if `lbeg`; only
    `r = |s| - len - 1` if `lend`) at which the literal compares equal (`matchCase`), the
    word-start test holds if `wbeg` and the word-end test holds if `wend` (`Cand`); `-1` if there
    is no such offset. -/
theorem literal_find_spec (rs : RStr) (lit s : Bytes) (hrs : rs.rs = none) (hstr : rs.str = some lit)
    (n flg nd ng : Nat) :
    (∃ r, IsLeast (FastMatch rs lit s flg) r ∧
        rstrFind rs s n flg nd ng = some (0, fastGroups n r lit.length, 0)) ∨
    ((∀ r, ¬ FastMatch rs lit s flg r) ∧ rstrFind rs s n flg nd ng = some (-1, [], 0)) :=
  rstrFind_literal rs lit s hrs hstr n flg nd ng

/-! ## 5. the program the engine compiles for a literal pattern -/

/-- `LitOk lit`: stepping through `lit` by `uc_len` of each lead byte lands exactly on its end
    (true of ASCII text: `litOk_ascii`); it excludes recorded deviation (ii).
    For such a pattern, `((re))` (what `rset_make` hands to `regcomp`) parses to two groups around the
    right-nested concatenation `catOf` of the atoms `beg?, wbeg?, chr lit, wend?, end?` (`atomsOf`),
    each matched exactly once.  Proved for all 16 anchor combinations. -/
theorem simple_program_shape {re : Bytes} {lbeg wbeg wend lend : Bool} {lit : Bytes}
    (hnul : ∀ c ∈ re, c ≠ 0)
    (h : simple re = some (lbeg, wbeg, wend, lend, lit)) (hne : lit ≠ []) (hlo : LitOk lit) :
    Regex.parse ([40, 40] ++ re ++ [41, 41]) =
      some (some (RNode.grp (RNode.grp (catOf (atomsOf lbeg wbeg wend lend lit)) 0 1 1) 0 1 1)) :=
  parse_literal hnul h hne hlo

/-- the shape of `catOf`: one atom, or `cat` of the first atom and the rest -/
theorem catOf_shape (a b : Atom) (t : List Atom) :
    catOf [a] = RNode.atom a 1 1 ∧ catOf (a :: b :: t) = RNode.cat (RNode.atom a 1 1) (catOf (b :: t)) :=
  ⟨rfl, rfl⟩

/-- the literal-only instance, written out -/
theorem simple_program_shape_plain {re : Bytes} (hnul : ∀ c ∈ re, c ≠ 0)
    (h : simple re = some (false, false, false, false, re)) (hne : re ≠ []) (hlo : LitOk re) :
    Regex.parse ([40, 40] ++ re ++ [41, 41]) =
      some (some (RNode.grp (RNode.grp (RNode.atom ⟨AK.chr, re⟩ 1 1) 0 1 1) 0 1 1)) :=
  parse_literal hnul h hne hlo

/-- the compiled pattern set: `rset_make` succeeds and yields the straight-line program
    `mark 0; mark 2; mark 4; atoms…; mark 5; mark 3; mark 1; match` with one set of zero inner groups -/
theorem simple_compiles {re : Bytes} {lbeg wbeg wend lend : Bool} {lit : Bytes}
    (hnul : ∀ c ∈ re, c ≠ 0)
    (h : simple re = some (lbeg, wbeg, wend, lend, lit)) (hne : lit ≠ []) (hlo : LitOk lit) (cflg : Nat) :
    ∃ alloc, Rset.make [some re] cflg =
      some (some (litSet (atomsOf lbeg wbeg wend lend lit) alloc (progFlags cflg))) :=
  make_literal hnul h hne hlo cflg

/-! ## 6. the fast path and the engine agree -/

/-- (a) the VM on the code of a concatenation of atoms, from one position: each atom in order -/
theorem straightline_run (cx : Ctx) (as : List Atom) (pre post : List Inst)
    (hp : cx.prog = pre ++ as.map Inst.atom ++ post) (dep pos : Nat) (m : Marks) (cuts : Nat) :
    loop cx dep pre.length pos m cuts =
      resBind (runAtoms cx.subj cx.flg as pos) cuts
        (fun p' => loop cx dep (pre.length + as.length) p' m cuts) :=
  Neatvi.C12.straightline_run cx as pre post hp dep pos m cuts

/-- (b) without ICASE the literal atom is `match_case` -/
theorem chr_atom_is_matchCase {s lit : Bytes} {flg r : Nat} (hr : r ≤ s.length)
    (hic : hasFlag flg REG_ICASE = false) :
    atomMatch ⟨AK.chr, lit⟩ s flg r =
      if matchCase (s.drop r) lit false = true then AR.ok (r + lit.length) else AR.fail :=
  atomMatch_chr_nocase hr hic

/-- **Main theorem, general form.**  For a literal pattern (`simple re = some …`) with a non-empty
    literal (excludes recorded deviation (i)) that is a whole number of characters (`LitOk`, excludes
    (ii)) and contains no newline byte, every line `body ++ [10]` without NUL and newline in `body`
    that satisfies `SubjOk` (see there: character synchronisation, previous-character word test,
    ICASE folding), every flag combination, every `n`, a depth limit of at least 1 and at least
    6 mark slots: `rstr_find` on the fast-path descriptor and `rset_find` on the compiled pattern
    return the same result — the same found/not-found answer, the same `(so, eo)`, all other
    groups `-1`, and zero cuts. -/
theorem fast_equals_engine_of_subjOk {re : Bytes} {lbeg wbeg wend lend : Bool} {lit : Bytes}
    (hnul : ∀ c ∈ re, c ≠ 0)
    (hs : simple re = some (lbeg, wbeg, wend, lend, lit)) (hne : lit ≠ []) (hlo : LitOk lit)
    (hnl10 : ¬ 10 ∈ lit)
    (cflg : Nat) (fastRs : RStr) (engineRs : RSet)
    (hfast : rstrMake re cflg = some (some fastRs))
    (heng : Rset.make [some re] cflg = some (some engineRs))
    (body : Bytes) (hbody : ∀ c ∈ body, c ≠ 0 ∧ c ≠ 10)
    (hok : SubjOk (body ++ [10]) lit (cflg &&& RE_ICASE != 0))
    (n flg nd ng : Nat) (hnd : 1 ≤ nd) (hng : 6 ≤ ng) :
    rstrFind fastRs (body ++ [10]) n flg nd ng = Rset.find engineRs (body ++ [10]) n flg nd ng := by
  have hf : fastRs = fastOf lbeg wbeg wend lend lit cflg := by
    unfold rstrMake at hfast
    rw [hs] at hfast
    simp only [Option.some.injEq] at hfast
    exact hfast.symm
  obtain ⟨alloc, hm⟩ := make_literal hnul hs hne hlo cflg
  have he : engineRs = litSet (atomsOf lbeg wbeg wend lend lit) alloc (progFlags cflg) := by
    rw [hm] at heng
    simp only [Option.some.injEq] at heng
    exact heng.symm
  rw [hf, he]
  exact agree_explicit lbeg wbeg wend lend lit cflg alloc hne hnl10 body hbody hok n flg nd ng hnd hng

/-- **Main theorem, ASCII instance** (all hypotheses discharged; ICASE included): an ASCII literal
    pattern on an ASCII line. -/
theorem fast_equals_engine_ascii {re : Bytes} {lbeg wbeg wend lend : Bool} {lit : Bytes}
    (hre : Ascii re)
    (hs : simple re = some (lbeg, wbeg, wend, lend, lit)) (hne : lit ≠ []) (hnl10 : ¬ 10 ∈ lit)
    (cflg : Nat) (fastRs : RStr) (engineRs : RSet)
    (hfast : rstrMake re cflg = some (some fastRs))
    (heng : Rset.make [some re] cflg = some (some engineRs))
    (body : Bytes) (hbody : Ascii body) (hbnl : ¬ 10 ∈ body)
    (n flg nd ng : Nat) (hnd : 1 ≤ nd) (hng : 6 ≤ ng) :
    rstrFind fastRs (body ++ [10]) n flg nd ng = Rset.find engineRs (body ++ [10]) n flg nd ng := by
  have hlit : Ascii lit := by
    intro c hc
    apply hre
    rw [(simple_decomp hs).1]
    simp [hc]
  have hsub : Ascii (body ++ [10]) := by
    intro c hc
    rcases List.mem_append.mp hc with h | h
    · exact hbody c h
    · simp at h; omega
  exact fast_equals_engine_of_subjOk (fun c hc => by have := (hre c hc).1; omega) hs hne
    (litOk_ascii lit hlit) hnl10 cflg fastRs engineRs hfast heng body
    (fun c hc => ⟨by have := (hbody c hc).1; omega, fun h => hbnl (h ▸ hc)⟩)
    (subjOk_ascii hsub hlit hne _) n flg nd ng hnd hng

/-- **Main theorem** (`fast_equals_engine`): valid UTF-8.  The pattern `re` is a C string that the
    classifier takes as a literal; the literal is the UTF-8 encoding of a non-empty list of valid code
    points (excludes recorded deviations (i) and (ii)) none of which is a newline; the line is the
    UTF-8 encoding of valid code points other than newline, followed by the newline.  Then for every
    compile flag `cflg` (ICASE or not), every execution flag `flg` (NOTBOL/NOTEOL), every `n`, depth
    limit `nd ≥ 1` and `ng ≥ 6` mark slots, `rstr_find` on the fast-path descriptor and `rset_find`
    on the compiled pattern return the same result: same found/not-found, same `(so, eo)`, every
    other group `-1`, zero cuts. -/
theorem fast_equals_engine {re : Bytes} {lbeg wbeg wend lend : Bool} {lcps : List Nat}
    (hnul : ∀ c ∈ re, c ≠ 0)
    (hs : simple re = some (lbeg, wbeg, wend, lend, Spec.encStr lcps))
    (hne : lcps ≠ []) (hl : ∀ c ∈ lcps, Spec.ValidCp c ∧ c ≠ 10)
    (cflg : Nat) (fastRs : RStr) (engineRs : RSet)
    (hfast : rstrMake re cflg = some (some fastRs))
    (heng : Rset.make [some re] cflg = some (some engineRs))
    (bcps : List Nat) (hb : ∀ c ∈ bcps, Spec.ValidCp c ∧ c ≠ 10)
    (n flg nd ng : Nat) (hnd : 1 ≤ nd) (hng : 6 ≤ ng) :
    rstrFind fastRs (Spec.encStr bcps ++ [10]) n flg nd ng =
      Rset.find engineRs (Spec.encStr bcps ++ [10]) n flg nd ng := by
  have hlv : ∀ c ∈ lcps, Spec.ValidCp c := fun c hc => (hl c hc).1
  have hbv : ∀ c ∈ bcps, Spec.ValidCp c := fun c hc => (hb c hc).1
  have hlne : Spec.encStr lcps ≠ [] := by
    cases lcps with
    | nil => exact absurd rfl hne
    | cons c t =>
      rw [Spec.encStr_cons]
      have := Uc.enc_ne_nil c
      intro h
      exact this (List.append_eq_nil_iff.mp h).1
  have hbv' : ∀ c ∈ bcps ++ [10], Spec.ValidCp c := by
    intro c hc
    rcases List.mem_append.mp hc with h | h
    · exact hbv c h
    · simp at h; subst h; decide
  have hok : SubjOk (Spec.encStr bcps ++ [10]) (Spec.encStr lcps) (cflg &&& RE_ICASE != 0) := by
    rw [encStr_snoc_nl]
    exact subjOk_utf8 hbv' hlv hne _
  exact fast_equals_engine_of_subjOk hnul hs hlne (litOk_encStr hlv) (encStr_no_nl hl) cflg fastRs engineRs
    hfast heng (Spec.encStr bcps)
    (fun c hc => ⟨by have := (Uc.encStr_wf hbv c hc).1; omega, fun h => encStr_no_nl hb (h ▸ hc)⟩)
    hok n flg nd ng hnd hng

/-- the same as a closed proposition (the form announced in the task), and its proof -/
def fast_equals_engine_full : Prop :=
  ∀ (re : Bytes) (lbeg wbeg wend lend : Bool) (lcps bcps : List Nat) (cflg : Nat) (fastRs : RStr) (engineRs : RSet)
    (n flg nd ng : Nat),
    (∀ c ∈ re, c ≠ 0) → simple re = some (lbeg, wbeg, wend, lend, Spec.encStr lcps) →
    lcps ≠ [] → (∀ c ∈ lcps, Spec.ValidCp c ∧ c ≠ 10) → (∀ c ∈ bcps, Spec.ValidCp c ∧ c ≠ 10) →
    rstrMake re cflg = some (some fastRs) → Rset.make [some re] cflg = some (some engineRs) →
    1 ≤ nd → 6 ≤ ng →
    rstrFind fastRs (Spec.encStr bcps ++ [10]) n flg nd ng =
      Rset.find engineRs (Spec.encStr bcps ++ [10]) n flg nd ng

theorem fast_equals_engine_full_holds : fast_equals_engine_full := by
  intro re lbeg wbeg wend lend lcps bcps cflg fastRs engineRs n flg nd ng h1 h2 h3 h4 h5 h6 h7 h8 h9
  exact fast_equals_engine h1 h2 h3 h4 cflg fastRs engineRs h6 h7 bcps h5 n flg nd ng h8 h9

/-- consequence in the words of the property: same found/not-found answer, same match offsets -/
theorem fast_equals_engine_offsets {re : Bytes} {lbeg wbeg wend lend : Bool} {lcps : List Nat}
    (hnul : ∀ c ∈ re, c ≠ 0)
    (hs : simple re = some (lbeg, wbeg, wend, lend, Spec.encStr lcps))
    (hne : lcps ≠ []) (hl : ∀ c ∈ lcps, Spec.ValidCp c ∧ c ≠ 10)
    (cflg : Nat) (fastRs : RStr) (engineRs : RSet)
    (hfast : rstrMake re cflg = some (some fastRs))
    (heng : Rset.make [some re] cflg = some (some engineRs))
    (bcps : List Nat) (hb : ∀ c ∈ bcps, Spec.ValidCp c ∧ c ≠ 10)
    (n flg nd ng : Nat) (hn : 1 ≤ n) (hnd : 1 ≤ nd) (hng : 6 ≤ ng) :
    (∃ so : Nat,
        rstrFind fastRs (Spec.encStr bcps ++ [10]) n flg nd ng =
          some (0, fastGroups n so (Spec.encStr lcps).length, 0) ∧
        Rset.find engineRs (Spec.encStr bcps ++ [10]) n flg nd ng =
          some (0, fastGroups n so (Spec.encStr lcps).length, 0) ∧
        (fastGroups n so (Spec.encStr lcps).length)[0]? = some (so : Int) ∧
        (fastGroups n so (Spec.encStr lcps).length)[1]? = some ((so + (Spec.encStr lcps).length : Nat) : Int)) ∨
    (rstrFind fastRs (Spec.encStr bcps ++ [10]) n flg nd ng = some (-1, [], 0) ∧
     Rset.find engineRs (Spec.encStr bcps ++ [10]) n flg nd ng = some (-1, [], 0)) := by
  have heq := fast_equals_engine hnul hs hne hl cflg fastRs engineRs hfast heng bcps hb n flg nd ng hnd hng
  have hf : fastRs = fastOf lbeg wbeg wend lend (Spec.encStr lcps) cflg := by
    unfold rstrMake at hfast
    rw [hs] at hfast
    simp only [Option.some.injEq] at hfast
    exact hfast.symm
  rcases rstrFind_literal fastRs (Spec.encStr lcps) (Spec.encStr bcps ++ [10]) (by rw [hf]; rfl) (by rw [hf]; rfl)
    n flg nd ng with ⟨r, _, hr⟩ | ⟨_, hr⟩
  · left
    refine ⟨r, hr, by rw [← heq]; exact hr, ?_, ?_⟩ <;> simp [fastGroups, hn]
  · right
    exact ⟨hr, by rw [← heq]; exact hr⟩

/-! ## examples -/

-- `\<foo$` is taken as the literal `foo` with the word-start and line-end anchors
example : simple [92, 60, 102, 111, 111, 36] = some (false, true, false, true, [102, 111, 111]) := by decide
-- `fo*` is not
example : simple [102, 111, 42] = none := by decide
-- the fast path on the line "a foo\n"
example : rstrFind (fastOf false true false true [102, 111, 111] 0) [97, 32, 102, 111, 111, 10] 2 0 256 64 =
    some (0, [2, 5, -1, -1], 0) := by decide
example : rstrFind (fastOf false true false true [102, 111, 111] 0) [97, 32, 102, 111, 111, 120, 10] 2 0 256 64 =
    some (-1, [], 0) := by decide
-- a non-ASCII literal: `é` (U+00E9 = c3 a9) on the line "aé\n"
example (fastRs : RStr) (engineRs : RSet) (h1 : rstrMake [195, 169] 1 = some (some fastRs))
    (h2 : Rset.make [some [195, 169]] 1 = some (some engineRs)) :
    rstrFind fastRs (Spec.encStr [97, 233] ++ [10]) 1 0 256 64 =
      Rset.find engineRs (Spec.encStr [97, 233] ++ [10]) 1 0 256 64 :=
  fast_equals_engine (lcps := [233]) (lbeg := false) (wbeg := false) (wend := false) (lend := false)
    (by decide) (by decide) (by decide) (by decide) 1 fastRs engineRs h1 h2
    [97, 233] (by decide) 1 0 256 64 (by decide) (by decide)
-- and the engine on the same line (through the agreement theorem)
example (engineRs : RSet) (h : Rset.make [some [92, 60, 102, 111, 111, 36]] 0 = some (some engineRs)) :
    Rset.find engineRs [97, 32, 102, 111, 111, 10] 2 0 256 64 = some (0, [2, 5, -1, -1], 0) := by
  have := fast_equals_engine_ascii (re := [92, 60, 102, 111, 111, 36]) (by unfold Ascii; decide)
    (by decide : simple _ = some (false, true, false, true, [102, 111, 111])) (by decide) (by decide)
    0 (fastOf false true false true [102, 111, 111] 0) engineRs rfl h [97, 32, 102, 111, 111]
    (by unfold Ascii; decide) (by decide) 2 0 256 64 (by decide) (by decide)
  exact this.symm.trans (by decide)

end Neatvi.Props.C12
