namespace Neatvi.Props.C12
end Neatvi.Props.C12
