import NeatviVerif.Lemmas.C19fMain
/-!
# C19f  The horizontal window and the cursor cell

C19: "The terminal shows a true window of the buffer with the cursor on its character".  The row
window and the redraw algorithms are in `Props/C19*.lean`, what one rendered row shows in
`Props/C19c–e`.  Here: the *horizontal* window `[xleft, xleft + xcols)` and the cell the terminal
cursor is put on.

The end of an iteration of `vi()` (`Model/ViCmd.lean`, `viPost`; vi.c:1844–1851, 1892) is
```
vi_wfix();
if (mod) xcol = vi_off2col(xb, xrow, xoff);
if (xcol >= xleft + xcols) xleft = xcol - xcols / 2;
if (xcol < xleft) xleft = xcol < xcols ? 0 : xcol - xcols / 2;
...
term_pos(xrow - xtop, vi_pos(ln, ren_cursor(ln, xcol)));
```
The model has no terminal cursor; `Lemmas/C19fCursor.lean` defines it from the model's `ren_cursor`
and `led_pos`: `cursorCol s = ren_cursor(ln, xcol)`, `termCursor s = vi_pos(ln, cursorCol)`,
`colCell s = vi_pos(ln, xcol)`, and `rowShows s ln k` = what window cell `k` of the rendered row of
`ln` shows (`C19d.showsAt` on the window `[xleft, xleft + xcols)`).

* §1 `viPost_col_in_window` — after `viPost (some mod)` that does not quit, `xleft ≤ xcol < xleft +
  xcols`; `xleft` unchanged when `xcol` was already inside; `0 ≤ xleft` kept.  Three refutations of
  stronger forms (`…_is_false`): a negative `xcol` with `mod = 0`, a negative `xleft`, `xcols = 0`.
* §2 `cursor_on_character` — when `mod ≠ 0`, `xcol` is the lowest visual column of the cursor
  character; the terminal cursor is put on its highest one; when all its cells are inside the window
  both cells show that character (`C19e.showsAt_spec_any`); left-to-right and right-to-left contexts.
  `cursor_on_empty_line`; the recorded-as-new finding `wide_character_at_edge_finding`.
* §3 `sticky_column_finding` (the recorded finding, by evaluation) and
  `sticky_after_vertical_motion` (what holds in general after `j` / `k`).
* §4 `viStep_keeps_col_window`, `col_window_reachable`, `col_window_runModel`: the window holds after
  every iteration of every run.  `col_invariant_reachable_full` (with `0 ≤ xleft`) is stated and
  proved only from `ExKeepsLeft`, a statement about the ex layer (`col_invariant_reachable_of_ex`);
  `col_invariant_reachable_partial` (= `col_window_reachable`) is what is proved outright.
-/
namespace Neatvi.Props.C19f
open Neatvi Neatvi.Uc Neatvi.Spec Neatvi.Ren Neatvi.Render Neatvi.Lbuf Neatvi.Ex Neatvi.Mot Neatvi.Vi
open Neatvi.Lemmas.C19f
open Neatvi.Lemmas.C17b (StrictInc)
open Neatvi.Props.C05c (iterate)

export Neatvi.Lemmas.C19f (postLeft postCol cursorCol curCtx viPos termCursor colCell rowShows ColWin Good Alive
  WfCps stickyOff initState LOk ExKeepsLeft GoodB)

/-! ## 1. the end of an iteration: the sticky column is inside the horizontal window -/

/-- **After the end of an iteration the sticky column is inside the window.**  For every state with
    a window of at least one column, every redraw class `mod`, with `mod ≠ 0` or a non-negative sticky
    column: if `viPost (some mod)` returns and the editor is not quitting then
    * `xleft ≤ xcol < xleft + xcols`, `0 ≤ xcol`, and the window width is unchanged;
    * `0 ≤ xleft` if it was so before;
    * no gratuitous horizontal scrolling: if the (new) sticky column is inside the *old* window,
      `xleft` is unchanged; in general `xleft = postLeft xcol xleft₀ xcols`
      (`Lemmas/C19fPost.lean`: `postLeft_moved` — the column ends up in the middle of the window, or
      the window returns to column 0);
    * the sticky column is the column of the cursor character when `mod ≠ 0`, the old one when
      `mod = 0`. -/
theorem viPost_col_in_window (s s' : VS) (mod : Nat) (hc : 0 < s.xcols) (hx : mod ≠ 0 ∨ 0 ≤ s.xcol)
    (h : viPost (some mod) s = Res.ok () s') (hq : s'.ed.xquit = false) :
    s'.ed.xleft ≤ s'.xcol ∧ s'.xcol < s'.ed.xleft + s'.xcols ∧ 0 ≤ s'.xcol ∧ s'.xcols = s.xcols ∧
    (0 ≤ s.ed.xleft → 0 ≤ s'.ed.xleft) ∧
    (s.ed.xleft ≤ s'.xcol → s'.xcol < s.ed.xleft + s.xcols → s'.ed.xleft = s.ed.xleft) ∧
    s'.ed.xleft = postLeft s'.xcol s.ed.xleft s.xcols ∧
    (mod ≠ 0 → s'.xcol = off2col s' s'.ed.xrow s'.ed.xoff) ∧ (mod = 0 → s'.xcol = s.xcol) :=
  Lemmas.C19f.viPost_col_in_window s s' mod hc hx h hq

/-- the hypotheses are satisfiable: `viPost (some 1)` on the buffer of the recorded finding with the
    cursor on the last `a` of the 120-character line returns, not quitting, with `xcol = 119`,
    `xleft = 79` -/
example : ∃ s', viPost (some 1) midSt = Res.ok () s' ∧ (s'.xcol, s'.ed.xleft, s'.xcols, s'.ed.xquit) = (119, 79, 80, false) := by
  obtain ⟨s', h, hv⟩ := postView_some 1 midSt _ midSt_post
  exact ⟨s', h, hv.symm⟩
/-- ... and the theorem applies to it -/
example (s' : VS) (h : viPost (some 1) midSt = Res.ok () s') (hq : s'.ed.xquit = false) :
    s'.ed.xleft ≤ s'.xcol ∧ s'.xcol < s'.ed.xleft + s'.xcols :=
  let t := viPost_col_in_window midSt s' 1 (by decide) (Or.inl (by decide)) h hq
  ⟨t.1, t.2.1⟩

/-- the conjecture without `mod ≠ 0 ∨ 0 ≤ xcol` is false: with `mod = 0`, `xcol = -1`, `xleft = 5` the
    end of the iteration sets `xleft = 0 > xcol` (`negSt`; no state of a run has a negative sticky
    column, `col_window_reachable`) -/
theorem viPost_window_any_xcol_is_false :
    ¬ (∀ (s s' : VS) (mod : Nat), 0 < s.xcols → viPost (some mod) s = Res.ok () s' → s'.ed.xquit = false →
        s'.ed.xleft ≤ s'.xcol) :=
  Lemmas.C19f.viPost_window_any_xcol_is_false

/-- `0 ≤ xleft` is kept, not established: from `xleft = -100`, `xcol = 0` on 80 columns the end of the
    iteration sets `xleft = -40` (`farSt`) -/
theorem viPost_xleft_nonneg_any_xleft_is_false :
    ¬ (∀ (s s' : VS) (mod : Nat), 0 < s.xcols → 0 ≤ s.xcol → viPost (some mod) s = Res.ok () s' →
        s'.ed.xquit = false → 0 ≤ s'.ed.xleft) :=
  Lemmas.C19f.viPost_xleft_nonneg_any_xleft_is_false

/-- a window without columns contains no column (`zeroSt`) -/
theorem viPost_window_no_columns_is_false :
    ¬ (∀ (s s' : VS) (mod : Nat), mod ≠ 0 → viPost (some mod) s = Res.ok () s' → s'.ed.xquit = false →
        s'.xcol < s'.ed.xleft + s'.xcols) :=
  Lemmas.C19f.viPost_window_no_columns_is_false

/-! ## 2. the cursor is on its character -/

/-- **The cursor cell shows the cursor character.**  After `viPost (some mod)`, `mod ≠ 0`, on a window
    of at least one column, not quitting, from a non-negative offset, when the line under the cursor
    is a buffer line `body ++ "\n"` of valid code points with a non-empty body.  With `off` the cursor
    offset, `pos` the model's `ren_position` table of the line (reordered or not) and `w` the
    reference cell width of the cursor character (`Spec.Layout.cellWidth`: 1, 2 for wide characters,
    up to 8 for a tab):
    1. the cursor is on a character of the body (never the newline);
    2. `xcol = vi_off2col(xrow, xoff) = pos[off]`: the lowest visual column of that character, `w ≥ 1`;
    3. every column of its cell range `[xcol, xcol + w)` maps back to it (`vi_col2off`), so `j`/`k`
       from here return to it (C17b `renCursorT_tiled`);
    4. `ren_cursor(xcol) = xcol + w - 1`: the terminal cursor is put on its *highest* visual column;
    5. `xcol` is inside the window and `vi_pos(xcol)` is a cell of the window;
    6. when all cells of the character are inside the window (`xcol + w ≤ xleft + xcols`): the rendered
       row (`C19e.showsAt_spec_any`, i.e. `renderRow_shows`) shows the cursor character both at the
       cell of `xcol` and at the cell of the terminal cursor, which is inside the window.  In a
       left-to-right context `xcol` is the character's leftmost cell and the terminal cursor its
       rightmost (`+ (w - 1)`); in a right-to-left context the window is mirrored (`led_pos`): `xcol`
       is the rightmost cell on the screen and the terminal cursor the leftmost (`- (w - 1)`). -/
theorem cursor_on_character (s s' : VS) (mod : Nat) (hmod : mod ≠ 0) (hc : 0 < s.xcols)
    (h : viPost (some mod) s = Res.ok () s') (hq : s'.ed.xquit = false) (h0 : 0 ≤ s.ed.xoff)
    (body : List Nat) (hv : ∀ c ∈ body, ValidCp c) (h10 : 10 ∉ body) (hne : body ≠ [])
    (hln : lineOf s' s'.ed.xrow = some (encStr (body ++ [10]))) :
    let cps := body ++ [10]
    let off := s'.ed.xoff.toNat
    let pos := posTab s' (encStr cps)
    let w : Int := cellWidth (cps.getD off 0) (pos.getD off 0)
    (s'.ed.xoff = (off : Int) ∧ off < body.length) ∧
    (s'.xcol = off2col s' s'.ed.xrow s'.ed.xoff ∧ s'.xcol = (pos.getD off 0 : Nat) ∧ 1 ≤ w) ∧
    (∀ p : Int, s'.xcol ≤ p → p < s'.xcol + w → col2off s' s'.ed.xrow p = (off : Nat)) ∧
    cursorCol s' = s'.xcol + w - 1 ∧
    (s'.ed.xleft ≤ s'.xcol ∧ s'.xcol < s'.ed.xleft + s'.xcols ∧ 0 ≤ colCell s' ∧ colCell s' < s'.xcols) ∧
    (s'.xcol + w ≤ s'.ed.xleft + s'.xcols →
      rowShows s' (encStr cps) (colCell s').toNat = some off ∧
      0 ≤ termCursor s' ∧ termCursor s' < s'.xcols ∧
      rowShows s' (encStr cps) (termCursor s').toNat = some off ∧
      (0 ≤ curCtx s' → termCursor s' = colCell s' + (w - 1)) ∧
      (curCtx s' < 0 → termCursor s' = colCell s' - (w - 1))) :=
  Lemmas.C19f.cursor_on_character s s' mod hmod hc h hq h0 body hv h10 hne hln

/-- the hypotheses are satisfiable (`midSt`: the long line of the finding, 120 `a`s; `hln` is
    `Lemmas.C19f.midSt_line`, checked by the kernel), and the theorem then yields the window -/
example (s' : VS) (h : viPost (some 1) midSt = Res.ok () s') (hq : s'.ed.xquit = false)
    (hln : lineOf s' s'.ed.xrow = some (encStr (List.replicate 120 97 ++ [10]))) :
    s'.ed.xleft ≤ s'.xcol ∧ s'.xcol < s'.ed.xleft + s'.xcols :=
  let t := cursor_on_character midSt s' 1 (by decide) (by decide) h hq (by decide) (List.replicate 120 97)
    longBody_valid longBody_no10 longBody_ne hln
  ⟨t.2.2.2.2.1.1, t.2.2.2.2.1.2.1⟩

/-- `rowShows` is about the row `led_render` draws: when `ren_position` succeeds the model's table is
    its result and the row is the reference row (`C19d.rowRef`) of the window table `rowShows` reads -/
theorem renderRow_of_posTab (s : VS) (ln : Bytes) (pos : List Nat) (shape : Bool)
    (h : renPosition dirOracle (renOpts s) ln = some pos) :
    posTab s ln = pos ∧
    renderRow dirOracle (renOpts s) shape ln s.ed.xleft (s.ed.xleft + s.xcols) =
      some (Lemmas.C19d.rowRef (chrs ln) ((chrs ln).map (fun c => (ucCode c).getD 0)) shape
        (offTable (chrs ln) (posTab s ln) (dirCtx s ln) s.ed.xleft (s.ed.xleft + s.xcols))
        s.ed.xleft (s.ed.xleft + s.xcols)) :=
  Lemmas.C19f.renderRow_of_posTab s ln pos shape h

/-- the empty line `"\n"`: the cursor character is the newline, its column is 0 and `ren_cursor` is 0 -/
theorem cursor_on_empty_line (s : VS) (hln : lineOf s s.ed.xrow = some [10]) (ho : s.ed.xoff = 0) :
    off2col s s.ed.xrow s.ed.xoff = 0 ∧ (s.xcol = 0 → cursorCol s = 0) :=
  Lemmas.C19f.cursor_on_empty_line s hln ho

/-- **finding (new): a wide cursor character that straddles the right edge of the window.**  Clause 6
    of `cursor_on_character` needs all cells of the character inside the window, and the window
    adjustment only puts its *first* column inside.  `aaaaaaaaa<TAB>b` on a 10-column window, keys
    `$h`: the cursor is on the tab (offset 9, columns 9–15), `xcol = 9`, `xleft = 0` — the column
    window holds — but `ren_cursor` is column 15, cell 15 of a 10-cell window (`term_pos` clamps it to
    the last column), and the row does not draw the tab at all (`led_render` drops a character that
    is not entirely inside): cell 9 shows nothing. -/
theorem wide_character_at_edge_finding :
    viewAfter 2 (tabSt [36, 104]) = some [0, 9, 9, 0, 15, 15, 9] ∧
    (match iterate 2 (tabSt [36, 104]) with
     | some s => decide (ColWin s) && decide (s.xcol = off2col s s.ed.xrow s.ed.xoff) &&
         decide (renderRow dirOracle (renOpts s) true tabLn s.ed.xleft (s.ed.xleft + s.xcols) =
           some [97, 97, 97, 97, 97, 97, 97, 97, 97]) &&
         decide (rowShows s tabLn 9 = none)
     | none => false) = true :=
  Lemmas.C19f.wide_character_at_edge_finding

/-! ## 3. the sticky column after a vertical motion -/

/-- **the recorded finding** (`sticky_column_keeps_xleft_beyond_the_cursor`), in the model, by
    evaluation: the file `"short\n" ++ 120 × "a" ++ "\n"` on 80 columns.  `viewAfter n s` lists
    `[xrow, xoff, xcol, xleft, ren_cursor(xcol), terminal cursor cell, cell of xcol]` after `n`
    iterations.  After `j$`: `[1, 119, 119, 79, 119, 40, 40]`.  After `j$k`: the cursor is on the `t`
    of `short` (offset 4, column 4), the sticky column is still 119 and `xleft` still 79 — the column
    window `xleft ≤ xcol < xleft + xcols` holds, of the sticky column — the column of the cursor
    character (4) is left of `xleft`, the row of the cursor line is drawn empty, no cell of the window
    shows a character of it, and the terminal cursor is computed as cell `4 - 79 = -75` (`term_pos`
    clamps it to column 0) while commands act on the `t`. -/
theorem sticky_column_finding :
    viewAfter 2 (exSt [106, 36, 107] 0 0) = some [1, 119, 119, 79, 119, 40, 40] ∧
    viewAfter 3 (exSt [106, 36, 107] 0 0) = some [0, 4, 119, 79, 4, -75, 40] ∧
    (match iterate 3 (exSt [106, 36, 107] 0 0) with
     | some s => decide (ColWin s) && decide (s.xcols = 80) && decide (s.ed.xquit = false) &&
         decide (lineOf s s.ed.xrow = some shortLn) &&
         decide (off2col s s.ed.xrow s.ed.xoff = 4) && decide (off2col s s.ed.xrow s.ed.xoff < s.ed.xleft) &&
         decide (renderRow dirOracle (renOpts s) true shortLn s.ed.xleft (s.ed.xleft + s.xcols) = some []) &&
         (List.range 80).all (fun k => rowShows s shortLn k == none)
     | none => false) = true :=
  Lemmas.C19f.sticky_column_finding

/-- **What holds after `j` / `k`.**  `motionTail` for `mv = 'j'` or `'k'` to a row `nrow` whose line is a
    buffer line `body ++ "\n"` (valid code points, non-empty body), followed by the end of the
    iteration, from a state that is not quitting.  With `pos` the table of the line, `off` the new
    cursor offset, `col = vi_off2col(xrow, xoff)` the column of the cursor character and `w` its width:
    * the sticky column is *unchanged*, the row is `nrow`, and `xleft` is adjusted to the sticky column
      (`postLeft xcol …`), not to `col`;
    * the cursor is on a character of the body, `col = pos[off]`;
    * whenever the sticky column falls on a cell of a character `i` of the body, the cursor is on `i`
      (so `col ≤ xcol < col + w`, with `col = xcol` exactly when `xcol` is the first cell of `i`) — for
      every table, reordered or not;
    * when the table increases with the offset (no reordering; e.g. `posTab_fast`: ASCII lines) and
      starts at or left of `xcol`: `col ≤ xcol`; if `xcol` is left of the end of the text
      (`pos[|body|]`, the newline's column) then `xcol` is a cell of the cursor character; otherwise —
      the line is not as wide as the sticky column, the case of the finding — the cursor is on the
      last character of the body and all of it is left of the sticky column (`col + w ≤ xcol`). -/
theorem sticky_after_vertical_motion (mv nrow noff : Int) (hjk : mv = 106 ∨ mv = 107) (s s2 s3 : VS) (c : Option Nat)
    (h1 : motionTail mv nrow noff s = Res.ok c s2) (h2 : viPost c s2 = Res.ok () s3)
    (hq : s.ed.xquit = false) (body : List Nat) (hv : ∀ c ∈ body, ValidCp c) (h10 : 10 ∉ body) (hne : body ≠ [])
    (hln : lineOf s nrow = some (encStr (body ++ [10]))) :
    let cps := body ++ [10]
    let pos := posTab s3 (encStr cps)
    let off := s3.ed.xoff.toNat
    let w : Int := cellWidth (cps.getD off 0) (pos.getD off 0)
    let col : Int := off2col s3 s3.ed.xrow s3.ed.xoff
    (s3.xcol = s.xcol ∧ s3.ed.xrow = nrow ∧ lineOf s3 nrow = some (encStr cps) ∧
      s3.ed.xleft = postLeft s.xcol s.ed.xleft s.xcols) ∧
    (s3.ed.xoff = (off : Int) ∧ off < body.length ∧ col = (pos.getD off 0 : Nat)) ∧
    (∀ i, i < body.length → (pos.getD i 0 : Nat) ≤ s3.xcol →
      s3.xcol < (pos.getD i 0 : Nat) + (cellWidth (cps.getD i 0) (pos.getD i 0) : Int) → off = i) ∧
    (StrictInc pos cps.length → (pos.getD 0 0 : Nat) ≤ s3.xcol →
      col ≤ s3.xcol ∧
      (s3.xcol < (pos.getD body.length 0 : Nat) → s3.xcol < col + w) ∧
      ((pos.getD body.length 0 : Nat) ≤ s3.xcol → off + 1 = body.length ∧ col + w ≤ s3.xcol)) :=
  Lemmas.C19f.sticky_after_vertical_motion mv nrow noff hjk s s2 s3 c h1 h2 hq body hv h10 hne hln

/-- the hypotheses are satisfiable: `k` from the state of the finding after `j$` (`stickySt`) to the
    line `short`; `motionTail` ends in `stickyMid`, and the end of the iteration returns -/
example : motionTail 107 0 0 stickySt = Res.ok (some 0) stickyMid ∧
    (∃ s3, viPost (some 0) stickyMid = Res.ok () s3) ∧ stickySt.ed.xquit = false ∧
    lineOf stickySt 0 = some (encStr (shortBody ++ [10])) := by
  refine ⟨motionTail_jk 107 0 0 (Or.inr rfl) stickySt, ?_, rfl, by rw [shortLn_enc]; rfl⟩
  obtain ⟨s3, h, _⟩ := postView_some 0 stickyMid _ stickyMid_post
  exact ⟨s3, h⟩
/-- ... and the theorem then says the sticky column is still 119 -/
example (s3 : VS) (h2 : viPost (some 0) stickyMid = Res.ok () s3) : s3.xcol = 119 :=
  (sticky_after_vertical_motion 107 0 0 (Or.inr rfl) stickySt stickyMid s3 (some 0)
    (motionTail_jk 107 0 0 (Or.inr rfl) stickySt) h2 rfl shortBody (by decide) (by decide) (by decide)
    (by rw [shortLn_enc]; rfl)).1.1

/-- **... and then the cursor is on its character.**  After `j` / `k` (hypotheses as above), if the
    sticky column falls on a cell of a character `i` of the body all of whose cells are inside the
    window: the cursor is on `i`, `ren_cursor(xcol)` is the highest visual column of `i`, and both the
    cell of the sticky column and the cell of the terminal cursor are cells of the window in which the
    rendered row shows `i`.  (The recorded finding is the other case: the sticky column beyond the
    text of the line.) -/
theorem sticky_cursor_on_character (mv nrow noff : Int) (hjk : mv = 106 ∨ mv = 107) (s s2 s3 : VS) (c : Option Nat)
    (h1 : motionTail mv nrow noff s = Res.ok c s2) (h2 : viPost c s2 = Res.ok () s3)
    (hq : s.ed.xquit = false) (hc : 0 < s.xcols)
    (body : List Nat) (hv : ∀ c ∈ body, ValidCp c) (h10 : 10 ∉ body) (hne : body ≠ [])
    (hln : lineOf s nrow = some (encStr (body ++ [10])))
    (i : Nat) (hi : i < body.length)
    (hp1 : ((posTab s3 (encStr (body ++ [10]))).getD i 0 : Nat) ≤ s3.xcol)
    (hp2 : s3.xcol < ((posTab s3 (encStr (body ++ [10]))).getD i 0 : Nat) +
      (cellWidth ((body ++ [10]).getD i 0) ((posTab s3 (encStr (body ++ [10]))).getD i 0) : Int))
    (hin1 : s3.ed.xleft ≤ ((posTab s3 (encStr (body ++ [10]))).getD i 0 : Nat))
    (hin2 : ((posTab s3 (encStr (body ++ [10]))).getD i 0 : Nat) +
      (cellWidth ((body ++ [10]).getD i 0) ((posTab s3 (encStr (body ++ [10]))).getD i 0) : Int) ≤
        s3.ed.xleft + s3.xcols) :
    s3.ed.xoff = (i : Nat) ∧
    cursorCol s3 = ((posTab s3 (encStr (body ++ [10]))).getD i 0 : Nat) +
      (cellWidth ((body ++ [10]).getD i 0) ((posTab s3 (encStr (body ++ [10]))).getD i 0) : Int) - 1 ∧
    0 ≤ colCell s3 ∧ colCell s3 < s3.xcols ∧ rowShows s3 (encStr (body ++ [10])) (colCell s3).toNat = some i ∧
    0 ≤ termCursor s3 ∧ termCursor s3 < s3.xcols ∧
    rowShows s3 (encStr (body ++ [10])) (termCursor s3).toNat = some i :=
  Lemmas.C19f.sticky_cursor_on_character mv nrow noff hjk s s2 s3 c h1 h2 hq hc body hv h10 hne hln i hi hp1 hp2 hin1 hin2

/-- the hypotheses are satisfiable: `k` from the fourth `a` of the long line (`xcol = 3`, `xleft = 0`,
    `nearSt`) to `short`; the facts about the final state are checked by the kernel (`nearMid_post`),
    and the theorem puts the cursor on the `r` (offset 3) and shows it in the cursor cell -/
example (s3 : VS) (h2 : viPost (some 0) nearMid = Res.ok () s3) :
    s3.ed.xoff = 3 ∧ rowShows s3 (encStr (shortBody ++ [10])) (termCursor s3).toNat = some 3 := by
  have e := nearMid_post
  rw [h2] at e
  simp only [Bool.and_eq_true, decide_eq_true_eq] at e
  obtain ⟨⟨⟨⟨e1, e2⟩, e3⟩, e4⟩, _⟩ := e
  have t := sticky_cursor_on_character 107 0 0 (Or.inr rfl) nearSt nearMid s3 (some 0)
    (motionTail_jk 107 0 0 (Or.inr rfl) nearSt) h2 rfl (by decide) shortBody (by decide) (by decide) (by decide)
    (by rw [shortLn_enc]; rfl) 3 (by decide) e1 e2 e3 e4
  exact ⟨t.1, t.2.2.2.2.2.2.2⟩

/-- a line of single-byte characters (or of more than 256 characters) is laid out left to right -/
theorem posTab_fast (s : VS) (ln : Bytes) (h : ucSlen ln = ln.length ∨ 256 < ucSlen ln) :
    posTab s ln = renPositionFast ln := Lemmas.C19f.posTab_fast s ln h

/-! ## 4. every state of a run -/

/-- **One iteration of the command loop keeps the column window.**  From a state with `Good c`
    (`xcols = c`, `0 ≤ xcol`, `0 ≤ vi_pcol`, the counts within their bounds — itself kept by every
    iteration, `good_viStep`; `Good c` is `GoodB false c`, `GoodB true c` adds `0 ≤ xcols` and `LOk`), `c > 0`, and `xleft ≤ xcol < xleft + xcols`: after `viStep`, unless the
    editor is then quitting, `xleft ≤ xcol < xleft + xcols` again.  Either the iteration ran the end of
    the loop body, which establishes it, or the command switch hit `continue` (a key `≤ 0`, an unknown
    command key), and then `xcol`, `xleft`, `xcols` are untouched (`nk_commandTail`). -/
theorem viStep_keeps_col_window (c : Int) (hc : 0 < c) (s s' : VS) (hg : Good c s) (hw : ColWin s)
    (h : viStep s = Res.ok () s') (hq : s'.ed.xquit = false) : ColWin s' ∧ Good c s' :=
  ⟨viStep_colWin c hc s s' hg hw h hq, good_viStep c s () s' hg h⟩

/-- `col_invariant_reachable_full`: the invariant of §1 *with* `0 ≤ xleft`, in every state of a run that
    starts with no negative `xleft`, current or saved in the buffer table (`LOk`).  **Not proved
    outright**: it is proved from `ExKeepsLeft` (next theorem), the statement that `ex_command` keeps
    `LOk` — `:e`, `:b`, `:n` save `xleft` into the buffer table and restore a saved one; that every
    saved value is `≥ 0` is an invariant of the whole table that would have to be carried through
    every command of `Model/ExCmd.lean`, which is not done here. -/
def col_invariant_reachable_full : Prop := Lemmas.C19f.col_invariant_reachable_full

/-- everything at the vi level keeps `0 ≤ xleft` and the saved `left`s: the end of an iteration
    (`viPost_col_in_window`), the redraw of insert mode (`ledLeft`), the edits, marks, undo/redo (they
    replace the line buffer of the current entry only).  So the full invariant holds in every state of
    every run **if** the ex layer keeps `LOk`. -/
theorem col_invariant_reachable_of_ex (hX : ExKeepsLeft) : col_invariant_reachable_full :=
  Lemmas.C19f.col_invariant_reachable_of_ex hX

/-- the underlying invariant: `LOk` (`0 ≤ xleft`, no negative saved `left`) in every state reached -/
theorem lOk_reachable (hX : ExKeepsLeft) (c : Int) (hc : 0 ≤ c) (n : Nat) (s₀ s : VS) (hg : Good c s₀)
    (hl : LOk s₀.ed) (h : iterate n s₀ = some s) : LOk s.ed :=
  Lemmas.C19f.lOk_reachable hX c hc n s₀ s hg hl h

/-- **The column window holds after every iteration of every run** (`col_invariant_reachable_partial`:
    everything of `col_invariant_reachable_full` but `0 ≤ xleft`).  From a state `s₀` with `Good c`,
    `c > 0`, and the sticky column inside the window, for every key stream (the keys are part of
    `s₀`) and every `n`: the state after `n` iterations of `viStep` (`C05c.iterate`), none of which
    left the editor quitting (`Alive`: the loop of `vi()` is `while (!xquit)`), has
    `xleft ≤ xcol < xleft + xcols` — and `Good c`, so `0 ≤ xcol` and the window width is still `c`. -/
theorem col_window_reachable (c : Int) (hc : 0 < c) (n : Nat) (s₀ s : VS) (hg : Good c s₀) (hw : ColWin s₀)
    (h : iterate n s₀ = some s) (ha : Alive n s₀) : ColWin s ∧ Good c s :=
  colWin_reachable c hc n s₀ s hg hw h ha

/-- the same under the name the conventions ask for -/
theorem col_invariant_reachable_partial (c : Int) (hc : 0 < c) (n : Nat) (s₀ s : VS) (hg : Good c s₀) (hw : ColWin s₀)
    (h : iterate n s₀ = some s) (ha : Alive n s₀) : ColWin s ∧ Good c s :=
  col_window_reachable c hc n s₀ s hg hw h ha

/-- the hypotheses are satisfiable: the run `j$k` of the finding — and the conclusion is the column
    window of the *sticky* column that `sticky_column_finding` shows is not the cursor's -/
example : ∃ s, iterate 3 (exSt [106, 36, 107] 0 0) = some s ∧ ColWin s := by
  cases h : iterate 3 (exSt [106, 36, 107] 0 0) with
  | none => have := ex_iterate_some; rw [h] at this; cases this
  | some s => exact ⟨s, rfl, (col_window_reachable 80 (by decide) 3 _ s ex_good ex_colWin h ex_alive).1⟩

/-- the initial state of `vi()` has `Good cols` ... -/
theorem good_viInit (ed : Ed) (keys : Bytes) (rows cols : Int) : Good cols (viInit ed keys rows cols) :=
  Lemmas.C19f.good_viInit ed keys rows cols

/-- ... and the column window when `xleft = 0`, there is at least one column, and the cursor line (if
    any) is laid out left to right from column 0 (single-byte characters only, or more than 256
    characters): `vi()` starts with `xcol = vi_off2col(xrow, 0)` and does *not* adjust `xleft` before
    the first command -/
theorem colWin_viInit (ed : Ed) (keys : Bytes) (rows cols : Int) (hc : 0 < cols) (hl : ed.xleft = 0)
    (hline : ∀ ln, lineOf (viInit ed keys rows cols) ed.xrow = some ln → ucSlen ln = ln.length ∨ 256 < ucSlen ln) :
    ColWin (viInit ed keys rows cols) :=
  Lemmas.C19f.colWin_viInit ed keys rows cols hc hl hline

open Neatvi.Drive.ViD in
/-- **the driver's runs**: for every file, key sequence and window size with at least one column, if
    the state `vi()` starts in (`initState`: `ex_init`, then `viInit`) has the sticky column inside the
    window, then so has every state at a command boundary that `runModel` records (it iterates
    `viStep` until the keys run out, the model traps or `xquit` is set) -/
theorem col_window_runModel (file : Option Bytes) (keys : Bytes) (rows cols : Int) (run : Run) (hc : 0 < cols)
    (h : runModel file keys rows cols = some run)
    (h0 : ∀ s0, initState file keys rows cols = some s0 → ColWin s0) : ∀ s ∈ run.states, ColWin s :=
  colWin_runModel file keys rows cols run hc h h0

end Neatvi.Props.C19f
