import NeatviVerif.Lemmas.C18bRuns
import NeatviVerif.Lemmas.C18bNest
/-!
# C18b  The whole-line statement of bidi reordering

What `dir_fix` (model: `Dir.dirFix` over an abstract `Matcher`) makes of a line that contains several
runs.  Definitions used in the statements (in `Lemmas/C18bRev`, `C18bRuns`, `C18bNest`):

* `Scan M dir e b ms` / `matchesFrom M dir fuel b e = some ms`: `ms` are the successive top-level
  matches `M b e dir = m₁`, `M m₁.rEnd e dir = m₂`, … of the scan of `[b, e)`;
* `Chained e b ms`: every match lies in the slice searched for it (derived from `C18.Lawful` by
  `scan_chained`; implies the ranges are disjoint and increasing, `chained_pairwise`);
* `revSlice ord b e` (total `dirReverse`), `mirror b e p` (its action on a position);
* `reverseRuns`, `reverseMatches`, `applyRuns neg`: the list-level results; `runIdx`, `stepIdx`,
  `fixIdx`: the position-level results (where the element at `p` comes from).

Theorems: `fix_runs` (both contexts), R1 `fix_runs_ltr`, `fix_runs_ltr_pos`; R2 `fix_runs_rtl`,
`fix_runs_rtl_pos`, `fix_runs_rtl_whole`; both contexts, group = match: `fix_runs_whole_pos`;
R3 `fix_step`, `fix_step_rec`, `fix_idx` (Lemmas/C18bNest), `fix_nested_pos`, `fixIdx_flat`;
R4 `dirMatch_shape`, `reorder_runs`, `reorder_runs_range`; R5 the `example`s at the end.

Finding recorded by R2: in a right-to-left context `dir_fix` first reverses the whole match and then
reverses the group *again when the group is right-to-left* (`cDir < 0`), applying the group's
offsets to the already reversed range; so unless the group is the whole match (or centred in it) the
second reversal acts on the mirror image of the group, not on the group.  All non-nested patterns
of `conf.h` have group = match (`dirMatch_shape`), where the net effect is: opposite-direction runs
are mirrored, same-direction runs stay (`fix_runs_whole_pos`).
-/
namespace Neatvi.Props.C18b
open Neatvi Neatvi.Dir Neatvi.Props.C18

/-- list-driven matcher for tests: the first listed match that fits in `[b, e)` -/
def listMatcher (ms : List DMatch) : Matcher := fun b e _ =>
  match ms.find? (fun m => decide (b ≤ m.rBeg) && decide (m.rEnd ≤ e)) with
  | some m => some (some m)
  | none => some none

/-- whole line, no nesting, any context direction: `dirFix` is `applyRuns` of the scanned matches -/
theorem fix_runs {M : Matcher} {dir : Int} {e b : Nat} {ms : List DMatch} (hs : Scan M dir e b ms) :
    ∀ (fuel : Nat) (ord : List Nat), Chained e b ms → (∀ m ∈ ms, m.cRec = false) →
      e ≤ ord.length → e - b ≤ fuel →
      dirFix M fuel ord dir b e = some (applyRuns (decide (dir < 0)) ord ms) := by
  induction hs with
  | done hbe =>
    intro fuel ord _ _ _ _
    cases fuel <;> simp [dirFix, hbe, applyRuns]
  | stop hbe hm =>
    intro fuel ord _ _ _ hf
    cases fuel with
    | zero => omega
    | succ f => exact no_match_identity M f ord dir _ _ hm
  | @next b m ms hbe hm _ ih =>
    intro fuel ord hc hflat he hf
    obtain ⟨h0, h1⟩ := hc
    cases fuel with
    | zero => omega
    | succ f =>
      rw [run_step M f ord dir b e m hbe hm (hflat m List.mem_cons_self)]
      have h0' := h0
      unfold InRange at h0'
      rw [revIf_eq (by omega)]
      simp only [Option.bind_some]
      rw [revIf_eq (by rw [revSliceIf_length (by omega)]; omega)]
      simp only [Option.bind_some]
      have hlen := stepRev_length (neg := decide (dir < 0)) h0 he
      exact ih f (stepRev (decide (dir < 0)) ord m) h1
        (fun m' hm' => hflat m' (List.mem_cons_of_mem _ hm')) (by rw [hlen]; exact he) (by omega)

/-- the index map of a chain, case by case: inside the range of a listed match it is that match's
    own map, elsewhere the identity -/
theorem runIdx_cases {neg : Bool} {e b : Nat} {ms : List DMatch} (hc : Chained e b ms) (p : Nat) :
    (∃ m ∈ ms, m.rBeg ≤ p ∧ p < m.rEnd ∧ runIdx neg ms p = stepIdx neg m p) ∨
    ((∀ m ∈ ms, ¬ (m.rBeg ≤ p ∧ p < m.rEnd)) ∧ runIdx neg ms p = p) := by
  by_cases h : ∃ m ∈ ms, m.rBeg ≤ p ∧ p < m.rEnd
  · obtain ⟨m, hm, h1, h2⟩ := h
    exact Or.inl ⟨m, hm, h1, h2, runIdx_mem hc m hm h1 h2⟩
  · have h' : ∀ m ∈ ms, ¬ (m.rBeg ≤ p ∧ p < m.rEnd) := fun m hm hp => h ⟨m, hm, hp⟩
    exact Or.inr ⟨h', runIdx_not_mem h'⟩

/-! ### R1: left-to-right context -/

/-- reverse, for each match whose group is right-to-left, exactly the slice `[cBeg, cEnd)` -/
def reverseRuns : List Nat → List DMatch → List Nat
  | ord, [] => ord
  | ord, m :: ms => reverseRuns (if m.cDir < 0 then revSlice ord m.cBeg m.cEnd else ord) ms

theorem applyRuns_ltr : ∀ (ms : List DMatch) (ord : List Nat), applyRuns false ord ms = reverseRuns ord ms
  | [], _ => rfl
  | m :: ms, ord => by
    simp only [applyRuns, reverseRuns, stepRev, revSliceIf, Bool.false_eq_true, if_false, decide_eq_true_eq]
    exact applyRuns_ltr ms _

/-- R1, list form: in a left-to-right context the scan of `[b, e)` by a lawful matcher whose
    successive matches `ms` are not nested reverses exactly the right-to-left groups -/
theorem fix_runs_ltr {M : Matcher} (hM : Lawful M) {dir : Int} (hdir : 0 ≤ dir) {e b : Nat}
    {ms : List DMatch} (hs : Scan M dir e b ms) (hflat : ∀ m ∈ ms, m.cRec = false)
    (fuel : Nat) (ord : List Nat) (he : e ≤ ord.length) (hf : e - b ≤ fuel) :
    dirFix M fuel ord dir b e = some (reverseRuns ord ms) := by
  rw [fix_runs hs fuel ord (scan_chained hM hs) hflat he hf, ← applyRuns_ltr]
  congr 2
  exact decide_eq_false (by omega)

/-- R1, position-wise: a position inside a right-to-left group holds the mirrored element of that
    group; every other position of the line keeps its element.  (The groups are pairwise disjoint
    and increasing: `scan_chained`, `chained_pairwise`.) -/
theorem fix_runs_ltr_pos {M : Matcher} (hM : Lawful M) {dir : Int} (hdir : 0 ≤ dir) {e b : Nat}
    {ms : List DMatch} (hs : Scan M dir e b ms) (hflat : ∀ m ∈ ms, m.cRec = false)
    (fuel : Nat) (ord : List Nat) (he : e ≤ ord.length) (hf : e - b ≤ fuel) :
    ∃ ord', dirFix M fuel ord dir b e = some ord' ∧ ord'.length = ord.length ∧
      (∀ m ∈ ms, m.cDir < 0 → ∀ p, m.cBeg ≤ p → p < m.cEnd →
        ord'[p]? = ord[m.cBeg + m.cEnd - 1 - p]?) ∧
      (∀ p, (∀ m ∈ ms, m.cDir < 0 → ¬ (m.cBeg ≤ p ∧ p < m.cEnd)) → ord'[p]? = ord[p]?) := by
  have hc := scan_chained hM hs
  have hneg : decide (dir < 0) = false := decide_eq_false (by omega)
  refine ⟨applyRuns false ord ms, ?_, applyRuns_length hc he, ?_, ?_⟩
  · rw [fix_runs hs fuel ord hc hflat he hf, hneg]
  · intro m hm hd p h1 h2
    have hr := chained_mem hc m hm
    unfold InRange at hr
    rw [applyRuns_getElem? hc he, runIdx_mem hc m hm (by omega) (by omega)]
    simp only [stepIdx, mirrorIf, hd, decide_true, if_true, Bool.false_eq_true, if_false]
    rw [mirror_in h1 h2]
  · intro p hp
    rw [applyRuns_getElem? hc he]
    rcases runIdx_cases (neg := false) hc p with ⟨m, hm, _, _, heq⟩ | ⟨_, heq⟩
    · rw [heq]
      simp only [stepIdx, mirrorIf, Bool.false_eq_true, if_false, decide_eq_true_eq]
      split
      · next hd => rw [mirror_out (hp m hm hd)]
      · rfl
    · rw [heq]

/-! ### R2: right-to-left context -/

/-- reverse each match range, then reverse the group again when its direction is right-to-left -/
def reverseMatches : List Nat → List DMatch → List Nat
  | ord, [] => ord
  | ord, m :: ms =>
    let o1 := revSlice ord m.rBeg m.rEnd
    reverseMatches (if m.cDir < 0 then revSlice o1 m.cBeg m.cEnd else o1) ms

theorem applyRuns_rtl : ∀ (ms : List DMatch) (ord : List Nat), applyRuns true ord ms = reverseMatches ord ms
  | [], _ => rfl
  | m :: ms, ord => by
    simp only [applyRuns, reverseMatches, stepRev, revSliceIf, if_true, decide_eq_true_eq]
    exact applyRuns_rtl ms _

/-- R2, list form -/
theorem fix_runs_rtl {M : Matcher} (hM : Lawful M) {dir : Int} (hdir : dir < 0) {e b : Nat}
    {ms : List DMatch} (hs : Scan M dir e b ms) (hflat : ∀ m ∈ ms, m.cRec = false)
    (fuel : Nat) (ord : List Nat) (he : e ≤ ord.length) (hf : e - b ≤ fuel) :
    dirFix M fuel ord dir b e = some (reverseMatches ord ms) := by
  rw [fix_runs hs fuel ord (scan_chained hM hs) hflat he hf, ← applyRuns_rtl]
  congr 2
  exact decide_eq_true hdir

/-- R2, position-wise: inside a match range the line is mirrored, except that a right-to-left
    group `[cBeg, cEnd)` is mirrored a second time (so it holds, in logical order, the elements of
    the mirror image of the group inside the range); positions outside all ranges keep their
    element.  NB it is the *right-to-left* group (`cDir < 0`) that is reversed back, as in `dir.c`. -/
theorem fix_runs_rtl_pos {M : Matcher} (hM : Lawful M) {dir : Int} (hdir : dir < 0) {e b : Nat}
    {ms : List DMatch} (hs : Scan M dir e b ms) (hflat : ∀ m ∈ ms, m.cRec = false)
    (fuel : Nat) (ord : List Nat) (he : e ≤ ord.length) (hf : e - b ≤ fuel) :
    ∃ ord', dirFix M fuel ord dir b e = some ord' ∧ ord'.length = ord.length ∧
      (∀ m ∈ ms, ∀ p, m.rBeg ≤ p → p < m.rEnd →
        ord'[p]? = if m.cDir < 0 ∧ m.cBeg ≤ p ∧ p < m.cEnd
          then ord[m.rBeg + m.rEnd - 1 - (m.cBeg + m.cEnd - 1 - p)]?
          else ord[m.rBeg + m.rEnd - 1 - p]?) ∧
      (∀ p, (∀ m ∈ ms, ¬ (m.rBeg ≤ p ∧ p < m.rEnd)) → ord'[p]? = ord[p]?) := by
  have hc := scan_chained hM hs
  have hneg : decide (dir < 0) = true := decide_eq_true hdir
  refine ⟨applyRuns true ord ms, ?_, applyRuns_length hc he, ?_, ?_⟩
  · rw [fix_runs hs fuel ord hc hflat he hf, hneg]
  · intro m hm p h1 h2
    have hr := chained_mem hc m hm
    unfold InRange at hr
    rw [applyRuns_getElem? hc he, runIdx_mem hc m hm h1 h2]
    simp only [stepIdx, mirrorIf, if_true, decide_eq_true_eq]
    by_cases hin : m.cDir < 0 ∧ m.cBeg ≤ p ∧ p < m.cEnd
    · rw [if_pos hin, if_pos hin.1, mirror_in hin.2.1 hin.2.2, mirror_in (by omega) (by omega)]
    · have : (if m.cDir < 0 then mirror m.cBeg m.cEnd p else p) = p := by
        split
        · next hd => exact mirror_out (fun h => hin ⟨hd, h⟩)
        · rfl
      rw [if_neg hin, this, mirror_in h1 h2]
  · intro p hp
    rw [applyRuns_getElem? hc he, runIdx_not_mem hp]

/-- R2, the usual shape of a non-nested match (group = whole match): a right-to-left run inside a
    right-to-left context stays in logical order, a left-to-right run is mirrored -/
theorem fix_runs_rtl_whole {M : Matcher} (hM : Lawful M) {dir : Int} (hdir : dir < 0) {e b : Nat}
    {ms : List DMatch} (hs : Scan M dir e b ms) (hflat : ∀ m ∈ ms, m.cRec = false)
    (hwhole : ∀ m ∈ ms, m.cBeg = m.rBeg ∧ m.cEnd = m.rEnd)
    (fuel : Nat) (ord : List Nat) (he : e ≤ ord.length) (hf : e - b ≤ fuel) :
    ∃ ord', dirFix M fuel ord dir b e = some ord' ∧ ord'.length = ord.length ∧
      (∀ m ∈ ms, 0 ≤ m.cDir → ∀ p, m.rBeg ≤ p → p < m.rEnd → ord'[p]? = ord[m.rBeg + m.rEnd - 1 - p]?) ∧
      (∀ p, (∀ m ∈ ms, 0 ≤ m.cDir → ¬ (m.rBeg ≤ p ∧ p < m.rEnd)) → ord'[p]? = ord[p]?) := by
  obtain ⟨ord', h1, h2, h3, h4⟩ := fix_runs_rtl_pos hM hdir hs hflat fuel ord he hf
  refine ⟨ord', h1, h2, ?_, ?_⟩
  · intro m hm hd p hp1 hp2
    rw [h3 m hm p hp1 hp2, if_neg (by omega)]
  · intro p hp
    by_cases hex : ∃ m ∈ ms, m.rBeg ≤ p ∧ p < m.rEnd
    · obtain ⟨m, hm, hp1, hp2⟩ := hex
      have hd : m.cDir < 0 := by
        apply Decidable.byContradiction
        intro hd; exact hp m hm (by omega) ⟨hp1, hp2⟩
      obtain ⟨w1, w2⟩ := hwhole m hm
      rw [h3 m hm p hp1 hp2, if_pos ⟨hd, by omega, by omega⟩]
      congr 1; omega
    · exact h4 p (fun m hm hin => hex ⟨m, hm, hin⟩)

/-! ### both contexts at once when the group is the whole match (the shape of every non-nested
match of the concrete matcher): exactly the opposite-direction runs are mirrored -/

/-- the direction of the match is opposite to the direction of the context -/
def Opp (dir : Int) (m : DMatch) : Prop := (m.cDir < 0 ∧ 0 ≤ dir) ∨ (0 ≤ m.cDir ∧ dir < 0)

instance (dir : Int) (m : DMatch) : Decidable (Opp dir m) := by unfold Opp; infer_instance

theorem stepIdx_whole {dir : Int} {m : DMatch} (h1 : m.cBeg = m.rBeg) (h2 : m.cEnd = m.rEnd) (p : Nat) :
    stepIdx (decide (dir < 0)) m p = if Opp dir m then mirror m.rBeg m.rEnd p else p := by
  unfold stepIdx mirrorIf
  rw [h1, h2]
  by_cases hd : dir < 0 <;> by_cases hc : m.cDir < 0
  · have ho : ¬ Opp dir m := by unfold Opp; omega
    rw [if_neg ho]; simp [hd, hc, mirror_mirror]
  · have ho : Opp dir m := by unfold Opp; omega
    rw [if_pos ho]; simp [hd, hc]
  · have ho : Opp dir m := by unfold Opp; omega
    rw [if_pos ho]; simp [hd, hc]
  · have ho : ¬ Opp dir m := by unfold Opp; omega
    rw [if_neg ho]; simp [hd, hc]

/-- whole line, no nesting, groups = whole matches, either context: exactly the runs whose direction
    is opposite to the context are mirrored in place, every other position keeps its element.
    (`Chained` is a hypothesis here so that the statement applies to matchers that are in range only
    on the slices actually searched; for a `Lawful` matcher it follows from `scan_chained`.) -/
theorem fix_runs_whole_pos {M : Matcher} {dir : Int} {e b : Nat} {ms : List DMatch}
    (hs : Scan M dir e b ms) (hc : Chained e b ms) (hflat : ∀ m ∈ ms, m.cRec = false)
    (hwhole : ∀ m ∈ ms, m.cBeg = m.rBeg ∧ m.cEnd = m.rEnd)
    (fuel : Nat) (ord : List Nat) (he : e ≤ ord.length) (hf : e - b ≤ fuel) :
    ∃ ord', dirFix M fuel ord dir b e = some ord' ∧ ord'.length = ord.length ∧
      (∀ m ∈ ms, Opp dir m → ∀ p, m.rBeg ≤ p → p < m.rEnd → ord'[p]? = ord[m.rBeg + m.rEnd - 1 - p]?) ∧
      (∀ p, (∀ m ∈ ms, Opp dir m → ¬ (m.rBeg ≤ p ∧ p < m.rEnd)) → ord'[p]? = ord[p]?) := by
  refine ⟨_, fix_runs hs fuel ord hc hflat he hf, applyRuns_length hc he, ?_, ?_⟩
  · intro m hm ho p h1 h2
    rw [applyRuns_getElem? hc he, runIdx_mem hc m hm h1 h2,
      stepIdx_whole (hwhole m hm).1 (hwhole m hm).2, if_pos ho, mirror_in h1 h2]
  · intro p hp
    rw [applyRuns_getElem? hc he]
    rcases runIdx_cases (neg := decide (dir < 0)) hc p with ⟨m, hm, h1, h2, heq⟩ | ⟨_, heq⟩
    · rw [heq, stepIdx_whole (hwhole m hm).1 (hwhole m hm).2]
      split
      · next ho => exact absurd ⟨h1, h2⟩ (hp m hm ho)
      · rfl
    · rw [heq]

/-! ### R4: `dirReorder` -/

/-- the matcher `dir_reorder` hands to `dir_fix` -/
def lineMatcher (orc : Oracle) (s : Bytes) : Matcher := fun b e c => dirMatch orc s (Uc.ucChop s) b e c

/-- number of characters of the line -/
def lineChars (s : Bytes) : Nat := (Uc.ucChop s).length - 1

/-- the last character is a newline -/
def lineNl (s : Bytes) : Bool :=
  decide (lineChars s > 0) && (match (Uc.ucChop s)[lineChars s - 1]? with
    | some o => Bytes.hd (s.drop o) == 10
    | none => false)

/-- end of the reordered slice: the newline is left out -/
def lineEnd (s : Bytes) : Nat := if lineNl s then lineChars s - 1 else lineChars s

theorem dirReorder_eq (orc : Oracle) (xtd : Int) (s : Bytes) (ord : List Nat) :
    dirReorder orc xtd s ord =
      dirFix (lineMatcher orc s) (lineEnd s + 1) (setLast ord (lineNl s) (lineChars s - 1))
        (dirContext orc xtd s) 0 (lineEnd s) := rfl

/-- shape of what `dir_match` returns: the match starts at or after `b`; a non-nested match
    (`grp = 0`) has the whole match as its group -/
theorem dirMatch_shape {orc : Oracle} {s : Bytes} {chop : List Nat} {b e : Nat} {ctx : Int} {m : DMatch}
    (h : dirMatch orc s chop b e ctx = some (some m)) :
    b ≤ m.rBeg ∧ (m.cRec = false → m.cBeg = m.rBeg ∧ m.cEnd = m.rEnd) := by
  unfold dirMatch at h
  cases h1 : slice s chop b e with
  | none => rw [h1] at h; cases h
  | some str =>
    rw [h1] at h
    cases h2 : chop[e]? with
    | none => rw [h2] at h; cases h
    | some oe =>
      rw [h2] at h
      simp only [Option.bind_eq_bind, Option.bind_some] at h
      split at h
      · cases h
      · next found subs _ =>
        split at h
        · cases h
        · next x dir grp _ =>
          cases h
          refine ⟨Nat.le_add_right _ _, ?_⟩
          intro hrec
          have hg : grp = 0 := by
            have : ¬ grp > 0 := by simpa using hrec
            omega
          subst hg
          dsimp only
          constructor
          · split <;> rfl
          · split <;> rfl

/-- for the concrete matcher the chain condition reduces to: every match is non-empty and ends
    inside the line (what the regex engine guarantees for the non-empty patterns of `conf.h`) -/
theorem scan_line_chained {orc : Oracle} {s : Bytes} {dir : Int} {e b : Nat} {ms : List DMatch}
    (hs : Scan (lineMatcher orc s) dir e b ms) (hflat : ∀ m ∈ ms, m.cRec = false)
    (hne : ∀ m ∈ ms, m.rBeg < m.rEnd ∧ m.rEnd ≤ e) :
    Chained e b ms ∧ ∀ m ∈ ms, m.cBeg = m.rBeg ∧ m.cEnd = m.rEnd := by
  induction hs with
  | done _ => exact ⟨trivial, fun _ h => by cases h⟩
  | stop _ _ => exact ⟨trivial, fun _ h => by cases h⟩
  | @next b m ms hbe hm _ ih =>
    obtain ⟨i1, i2⟩ := ih (fun m' hm' => hflat m' (List.mem_cons_of_mem _ hm'))
      (fun m' hm' => hne m' (List.mem_cons_of_mem _ hm'))
    obtain ⟨s1, s2⟩ := dirMatch_shape hm
    obtain ⟨w1, w2⟩ := s2 (hflat m List.mem_cons_self)
    obtain ⟨n1, n2⟩ := hne m List.mem_cons_self
    refine ⟨⟨?_, i1⟩, ?_⟩
    · unfold InRange; omega
    · intro m' hm'
      rcases List.mem_cons.mp hm' with rfl | hm''
      · exact ⟨w1, w2⟩
      · exact i2 m' hm''

/-- R4: the visual order of a line in terms of the matches `dir_match` finds on it.  `ms` are the
    successive matches on `[0, lineEnd s)` in the line's context direction, none nested, each
    non-empty and inside the line.  Then `dir_reorder` does not trap and: every run whose direction is
    opposite to the context is mirrored in place, a final newline stays last, every other position
    keeps its entry. -/
theorem reorder_runs (orc : Oracle) (xtd : Int) (s : Bytes) (ord : List Nat) {ms : List DMatch}
    (hs : Scan (lineMatcher orc s) (dirContext orc xtd s) (lineEnd s) 0 ms)
    (hflat : ∀ m ∈ ms, m.cRec = false) (hne : ∀ m ∈ ms, m.rBeg < m.rEnd ∧ m.rEnd ≤ lineEnd s)
    (hlen : lineChars s ≤ ord.length) :
    ∃ ord', dirReorder orc xtd s ord = some ord' ∧ ord'.length = ord.length ∧
      (∀ m ∈ ms, Opp (dirContext orc xtd s) m → ∀ p, m.rBeg ≤ p → p < m.rEnd →
        ord'[p]? = ord[m.rBeg + m.rEnd - 1 - p]?) ∧
      (lineNl s = true → ord'[lineChars s - 1]? = some (lineChars s - 1)) ∧
      (∀ p, (lineNl s = true → p ≠ lineChars s - 1) →
        (∀ m ∈ ms, Opp (dirContext orc xtd s) m → ¬ (m.rBeg ≤ p ∧ p < m.rEnd)) → ord'[p]? = ord[p]?) := by
  obtain ⟨hc, hwhole⟩ := scan_line_chained hs hflat hne
  have hend : lineEnd s ≤ lineChars s := by unfold lineEnd; split <;> omega
  have hsl : (setLast ord (lineNl s) (lineChars s - 1)).length = ord.length := by
    unfold setLast; split <;> simp
  obtain ⟨ord', h1, h2, h3, h4⟩ := fix_runs_whole_pos hs hc hflat hwhole (lineEnd s + 1)
    (setLast ord (lineNl s) (lineChars s - 1)) (by rw [hsl]; omega) (by omega)
  have hmem : ∀ m ∈ ms, ∀ p, m.rBeg ≤ p → p < m.rEnd → p < lineEnd s ∧ m.rBeg + m.rEnd - 1 - p < lineEnd s := by
    intro m hm p hp1 hp2
    have := (hne m hm).2
    omega
  have hget : ∀ q, (lineNl s = true → q ≠ lineChars s - 1) →
      (setLast ord (lineNl s) (lineChars s - 1))[q]? = ord[q]? := by
    intro q hq
    unfold setLast
    split
    · next hnl => rw [List.getElem?_set_ne (Ne.symm (hq hnl))]
    · rfl
  have hnlpos : lineNl s = true → lineChars s > 0 ∧ lineEnd s = lineChars s - 1 := by
    intro hnl
    refine ⟨?_, by unfold lineEnd; rw [if_pos hnl]⟩
    unfold lineNl at hnl
    simp only [Bool.and_eq_true, decide_eq_true_eq] at hnl
    exact hnl.1
  refine ⟨ord', by rw [dirReorder_eq]; exact h1, by rw [h2, hsl], ?_, ?_, ?_⟩
  · intro m hm ho p hp1 hp2
    rw [h3 m hm ho p hp1 hp2]
    apply hget
    intro hnl
    have := hmem m hm p hp1 hp2
    have := hnlpos hnl
    omega
  · intro hnl
    obtain ⟨k1, k2⟩ := hnlpos hnl
    rw [h4 _ (fun m hm _ hin => by have := hmem m hm _ hin.1 hin.2; omega)]
    unfold setLast
    rw [if_pos hnl, List.getElem?_set_self (by omega)]
  · intro p hp1 hp2
    rw [h4 p hp2]
    exact hget p hp1

/-- R4 for the identity input (`ord[i] = i`, as `ren.c` calls it): the visual order of the line.
    Position `p` of an opposite-direction run shows character `rBeg + rEnd - 1 - p`; every other
    position (the final newline included) shows character `p`. -/
theorem reorder_runs_range (orc : Oracle) (xtd : Int) (s : Bytes) {ms : List DMatch}
    (hs : Scan (lineMatcher orc s) (dirContext orc xtd s) (lineEnd s) 0 ms)
    (hflat : ∀ m ∈ ms, m.cRec = false) (hne : ∀ m ∈ ms, m.rBeg < m.rEnd ∧ m.rEnd ≤ lineEnd s) :
    ∃ ord', dirReorder orc xtd s (List.range (lineChars s)) = some ord' ∧ ord'.length = lineChars s ∧
      (∀ m ∈ ms, Opp (dirContext orc xtd s) m → ∀ p, m.rBeg ≤ p → p < m.rEnd →
        ord'[p]? = some (m.rBeg + m.rEnd - 1 - p)) ∧
      (∀ p, p < lineChars s →
        (∀ m ∈ ms, Opp (dirContext orc xtd s) m → ¬ (m.rBeg ≤ p ∧ p < m.rEnd)) → ord'[p]? = some p) := by
  have hend : lineEnd s ≤ lineChars s := by unfold lineEnd; split <;> omega
  obtain ⟨ord', h1, h2, h3, h4, h5⟩ := reorder_runs orc xtd s (List.range (lineChars s)) hs hflat hne (by simp)
  refine ⟨ord', h1, by simpa using h2, ?_, ?_⟩
  · intro m hm ho p hp1 hp2
    have := (hne m hm).2
    rw [h3 m hm ho p hp1 hp2, List.getElem?_range (by omega)]
  · intro p hp hout
    by_cases hnl : lineNl s = true ∧ p = lineChars s - 1
    · rw [hnl.2]; exact h4 hnl.1
    · rw [h5 p (fun h hp' => hnl ⟨h, hp'⟩) hout, List.getElem?_range hp]

/-- the same statements with the matches given by the function `matchesFrom` -/
theorem fix_runs_of_matchesFrom {M : Matcher} (hM : Lawful M) {dir : Int} {e b f : Nat} {ms : List DMatch}
    (hs : matchesFrom M dir f b e = some ms) (hflat : ∀ m ∈ ms, m.cRec = false)
    (fuel : Nat) (ord : List Nat) (he : e ≤ ord.length) (hf : e - b ≤ fuel) :
    dirFix M fuel ord dir b e = some (if dir < 0 then reverseMatches ord ms else reverseRuns ord ms) := by
  have hs' := scan_of_matchesFrom M dir f b e ms hs
  split
  · next hd => exact fix_runs_rtl hM hd hs' hflat fuel ord he hf
  · next hd => exact fix_runs_ltr hM (by omega) hs' hflat fuel ord he hf

/-! ### R3: nested groups -/

/-- R3, whole line with nested groups, position-wise along the top-level scan `ms` (nested or not):
    `dirFix` does not trap and keeps the length; a position inside the range of a scanned match holds
    the element selected by that match's two conditional mirrors (`stepIdx`) composed — when the match
    is nested — with the index map `fixIdx` of the recursive scan of its group in the group's own
    direction; a position outside all ranges keeps its element.  (`fix_idx` gives the same for the
    recursive scans, so the description unfolds to any depth; `fix_step_rec` is the list form of one
    nested round.) -/
theorem fix_nested_pos {M : Matcher} (hM : Lawful M) {dir : Int} {e b : Nat} {ms : List DMatch}
    (hs : Scan M dir e b ms) (fuel : Nat) (ord : List Nat) (he : e ≤ ord.length) (hf : e - b ≤ fuel) :
    ∃ ord', dirFix M fuel ord dir b e = some ord' ∧ ord'.length = ord.length ∧
      (∀ m ∈ ms, ∀ p, m.rBeg ≤ p → p < m.rEnd →
        ord'[p]? = ord[stepIdx (decide (dir < 0)) m
          (if m.cRec then fixIdx M fuel m.cDir (recBeg m) m.cEnd p else p)]?) ∧
      (∀ p, (∀ m ∈ ms, ¬ (m.rBeg ≤ p ∧ p < m.rEnd)) → ord'[p]? = ord[p]?) := by
  obtain ⟨ord', h1, h2, h3⟩ := fix_idx hM fuel ord dir b e hf he
  refine ⟨ord', h1, h2, ?_, ?_⟩
  · intro m hm p hp1 hp2
    rw [h3 p, (fixIdx_scan hM hs fuel hf p).1 m hm hp1 hp2]
  · intro p hp
    rw [h3 p, (fixIdx_scan hM hs fuel hf p).2 hp]

/-- consistency of the two descriptions: without nesting the index map of `dirFix` is `runIdx` -/
theorem fixIdx_flat {M : Matcher} (hM : Lawful M) {dir : Int} {e b : Nat} {ms : List DMatch}
    (hs : Scan M dir e b ms) (hflat : ∀ m ∈ ms, m.cRec = false) (fuel : Nat) (hf : e - b ≤ fuel) (p : Nat) :
    fixIdx M fuel dir b e p = runIdx (decide (dir < 0)) ms p := by
  have hc := scan_chained hM hs
  rcases runIdx_cases (neg := decide (dir < 0)) hc p with ⟨m, hm, h1, h2, heq⟩ | ⟨hp, heq⟩
  · rw [heq, (fixIdx_scan hM hs fuel hf p).1 m hm h1 h2, hflat m hm]
    rfl
  · rw [heq, (fixIdx_scan hM hs fuel hf p).2 hp]

/-! ### R5: non-vacuity -/

/-- a list-driven matcher over well-formed matches is lawful -/
theorem listMatcher_lawful {l : List DMatch}
    (h : ∀ m ∈ l, m.rBeg < m.rEnd ∧ m.rBeg ≤ m.cBeg ∧ m.cBeg ≤ m.cEnd ∧ m.cEnd ≤ m.rEnd) :
    Lawful (listMatcher l) := by
  intro b e dir _
  unfold listMatcher
  cases hf : l.find? (fun m => decide (b ≤ m.rBeg) && decide (m.rEnd ≤ e)) with
  | none => exact ⟨none, rfl, fun m hm => by cases hm⟩
  | some m =>
    refine ⟨some m, rfl, ?_⟩
    intro m' hm'
    cases hm'
    have hp := List.find?_some hf
    have hmem := List.mem_of_find?_eq_some hf
    simp only [Bool.and_eq_true, decide_eq_true_eq] at hp
    have := h m hmem
    omega

/-- two right-to-left runs `[2,5)` and `[6,9)` in left-to-right text -/
def exLtr : List DMatch := [⟨2, 5, 2, 5, -1, false⟩, ⟨6, 9, 6, 9, -1, false⟩]

/-- a left-to-right run `[1,4)` and a right-to-left run `[5,8)` whose group is `[6,8)` -/
def exRtl : List DMatch := [⟨1, 4, 1, 4, 1, false⟩, ⟨5, 8, 6, 8, -1, false⟩]

/-- a nested match: range `[1,8)`, group `[3,7)` rescanned in direction `-1`, where `[4,6)` is a
    left-to-right run -/
def exNest : List DMatch := [⟨1, 8, 3, 7, -1, true⟩, ⟨4, 6, 4, 6, 1, false⟩]

example : Lawful (listMatcher exLtr) := listMatcher_lawful (by decide)
example : Lawful (listMatcher exRtl) := listMatcher_lawful (by decide)
example : Lawful (listMatcher exNest) := listMatcher_lawful (by decide)

example : Scan (listMatcher exLtr) 1 10 0 exLtr := scan_of_matchesFrom _ _ 10 _ _ _ (by decide)
example : Scan (listMatcher exRtl) (-1) 10 0 exRtl := scan_of_matchesFrom _ _ 10 _ _ _ (by decide)

example : dirFix (listMatcher exLtr) 10 (List.range 10) 1 0 10 = some [0, 1, 4, 3, 2, 5, 8, 7, 6, 9] := by decide
example : reverseRuns (List.range 10) exLtr = [0, 1, 4, 3, 2, 5, 8, 7, 6, 9] := by decide
example : (List.range 10).map (runIdx false exLtr) = [0, 1, 4, 3, 2, 5, 8, 7, 6, 9] := by decide

example : dirFix (listMatcher exRtl) 10 (List.range 10) (-1) 0 10 = some [0, 3, 2, 1, 4, 7, 5, 6, 8, 9] := by decide
example : reverseMatches (List.range 10) exRtl = [0, 3, 2, 1, 4, 7, 5, 6, 8, 9] := by decide
example : (List.range 10).map (runIdx true exRtl) = [0, 3, 2, 1, 4, 7, 5, 6, 8, 9] := by decide

/-- the theorem applied to the example: the result it promises is the one computed -/
example : dirFix (listMatcher exLtr) 10 (List.range 10) 1 0 10 = some (reverseRuns (List.range 10) exLtr) :=
  fix_runs_ltr (listMatcher_lawful (by decide)) (by decide)
    (scan_of_matchesFrom _ _ 10 _ _ _ (by decide)) (by decide) 10 _ (by decide) (by decide)

example : dirFix (listMatcher exRtl) 10 (List.range 10) (-1) 0 10 = some (reverseMatches (List.range 10) exRtl) :=
  fix_runs_rtl (listMatcher_lawful (by decide)) (by decide)
    (scan_of_matchesFrom _ _ 10 _ _ _ (by decide)) (by decide) 10 _ (by decide) (by decide)

/-- nested example: the index map predicts the computed order -/
example : dirFix (listMatcher exNest) 10 (List.range 10) 1 0 10 = some [0, 1, 2, 6, 4, 5, 3, 7, 8, 9] := by decide
example : (List.range 10).map (fixIdx (listMatcher exNest) 10 1 0 10) = [0, 1, 2, 6, 4, 5, 3, 7, 8, 9] := by decide
example : dirFix (listMatcher exNest) 10 (List.range 10) (-1) 0 10 = some [0, 7, 6, 2, 4, 3, 5, 1, 8, 9] := by decide
example : (List.range 10).map (fixIdx (listMatcher exNest) 10 (-1) 0 10) = [0, 7, 6, 2, 4, 3, 5, 1, 8, 9] := by decide

/-- a line `a ب ة b \n` with an oracle that reports the two Arabic letters as a right-to-left run
    (pattern 1 of `dirmarks`), left-to-right context -/
def exOrcL : Oracle := fun which str _ =>
  if which == 0 && decide (str.length ≥ 5) then some (1, [1, 5]) else none
def exLineL : Bytes := [97, 216, 168, 216, 169, 98, 10]

/-- a line `ب a b ة c \n` in a right-to-left context (`xtd = -2`) with the left-to-right run `a b`
    (pattern 2 of `dirmarks`) -/
def exOrcR : Oracle := fun which str _ =>
  if which == 1 && decide (str.length ≥ 5) then some (2, [2, 4]) else none
def exLineR : Bytes := [216, 168, 97, 98, 216, 169, 99, 10]

example : dirReorder exOrcL 1 exLineL (List.range 5) = some [0, 2, 1, 3, 4] := by decide +kernel
example : dirReorder exOrcR (-2) exLineR (List.range 6) = some [0, 2, 1, 3, 4, 5] := by decide +kernel

/-- the hypotheses of `reorder_runs` hold on the examples -/
example : Scan (lineMatcher exOrcL exLineL) (dirContext exOrcL 1 exLineL) (lineEnd exLineL) 0
    [⟨1, 3, 1, 3, -1, false⟩] := scan_of_matchesFrom _ _ 5 _ _ _ (by decide +kernel)
example : Scan (lineMatcher exOrcR exLineR) (dirContext exOrcR (-2) exLineR) (lineEnd exLineR) 0
    [⟨1, 3, 1, 3, 1, false⟩] := scan_of_matchesFrom _ _ 6 _ _ _ (by decide +kernel)
example : lineNl exLineL = true ∧ lineChars exLineL = 5 ∧ lineEnd exLineL = 4 ∧
    dirContext exOrcL 1 exLineL = 1 ∧ dirContext exOrcR (-2) exLineR = -1 := by decide +kernel

end Neatvi.Props.C18b
