import NeatviVerif.Lemmas.C15bSweep
import NeatviVerif.Lemmas.C15bUndo
import NeatviVerif.Lemmas.C15bExample
/-!
# C15b: nested `:g` — the marks of the other depths, visiting, undo, the depth counter

`Props/C15` is about one `:g`.  Globals nest (`:g/a/g/b/s/x/y/`): `ec_glob` raises `xgdep`, marks its lines with bit
`1 << xgdep` of `ln_glob[]`, runs its command list once per marked matching line, sweeps its bit, lowers `xgdep`.
The command list of the outer `:g` may be an inner `:g` that sets, reads and clears *its* bit on the same lines while it
deletes, inserts and rewrites lines.  Here:

1. `globSet_other_depths`, `globGet_other_depths`: `lbuf_globset` / `lbuf_globget` for depth `d` leave bit `k ≠ d` of every
   line alone (bitwise; for the eight bits of a `char`).  `marks_depth_le_7`: the repaired `ec_glob` refuses an eighth
   level, so `d ≤ 7` in every call that happens; `beyond_depth_7_*` record what the two functions would do above that —
   the defect this module found (the program shifted `1 << xgdep` into a `char`; undefined from 31 on) and that the
   guard `if (xgdep >= 7) return 1` repairs.
2. `inner_global_keeps_outer_marks`: a complete inner `:g` — any range, any quiet command list: the line commands
   `d s a i c pu y k`, `p`, `=`, `u`, `redo`, `r`, `se`, further nested `:g`s, `|`-lists of these — leaves the marks of the
   outer depths on the surviving lines exactly as they were: there is a slot map (new slot ↦ old slot, strictly
   increasing) along which the marks travel; deleted lines are the old slots that are not hit, inserted lines carry no
   mark.  `inner_global_sweeps_own_marks`: and it leaves no mark of its own depth.
3. `nested_visit_once`: so, after the inner `:g`, the search of the outer `:g` finds the first surviving line at or
   after the restart index `MAX(0, MIN(i, xrow))` that the outer `:g` had marked; `nested_visits_in_order` / `nested_loop_invariant`:
   when nothing marked is left behind the restart index, round after round the marked surviving lines are worked on in
   their order, each once.  For an inner `:g` over *any* range that proviso can fail:
   `nested_visit_once_any_range_is_false` (`%g/b/d` from line 2 of `b b c m b`), `nested_skip_example`
   (`:g/a/s/$/!/|%g/b/d` on `b b a a b` gives `a! a`, in the model and in the program); `left_behind_is_lost`.
   `nested_example`: `:g/a/.,+1g/$/s/$/x/` on `a1 a2 a3 a4 z` gives `a1x a2xx a3xx a4xx zx`.
4. `nested_one_undo_step`: every undo record logged while a quiet command list (nested `:g`s included) runs carries
   one sequence number, the counter does not move; `nested_global_is_one_command`: `ex_command` then bumps it once;
   `nested_example_undo`: one `u` takes the eight substitutions of the example back.
5. `ecGlob_restores_depth`: `xgdep` is the same after `ec_glob` on every exit path (depth guard, bad range, no pattern, pattern
   that does not compile, `break`, normal end), for every command list whatsoever; `ecGlob_exit_paths` lists them;
   `exExec_restores_depth`: the same for every command line.
-/
namespace Neatvi.Props.C15b
open Neatvi Neatvi.Lbuf Neatvi.Ex Neatvi.Rset Neatvi.Props.C15 Neatvi.Lemmas.C15b Neatvi.Lemmas.C05d

/-! ## 1. the marks of the other depths -/

/-- **globSet_other_depths**: `lbuf_globset(lb, pos, d)` (`ln_glob[pos] |= 1 << d`) changes no bit `k ≠ d` of any
    entry `j` — for every `pos` (also beyond the table) and every `d` (also `d ≥ 8`, where the model does not truncate).
    With `=` for `|=` (the seeded regression) bit `k` of entry `pos` would be lost. -/
theorem globSet_other_depths (lb : Lb) (pos d j k : Nat) (hk : k ≠ d) :
    ((globSet lb pos d).glob.getD j 0).testBit k = (lb.glob.getD j 0).testBit k :=
  Lemmas.C15b.globSet_other_depths lb pos d j k hk

/-- **globGet_other_depths**: `lbuf_globget(lb, pos, d)` (`ln_glob[pos] &= ~(1 << d)`) changes no bit `k ≠ d` among the
    eight bits of a `char`, of any entry `j`, for every `pos` and `d` -/
theorem globGet_other_depths (lb : Lb) (pos d j k : Nat) (hk : k ≠ d) (h8 : k < 8) :
    ((globGet lb pos d).2.glob.getD j 0).testBit k = (lb.glob.getD j 0).testBit k :=
  Lemmas.C15b.globGet_other_depths lb pos d j k hk h8

/-- on a table of bytes (what `ln_glob[]` is as long as the depth stays below 8, `globSet_keeps_bytes`) no bit at all
    other than `d` changes -/
theorem globGet_other_depths_bytes (lb : Lb) (pos d j k : Nat) (hk : k ≠ d) (hb : ∀ x ∈ lb.glob, x < 256) :
    ((globGet lb pos d).2.glob.getD j 0).testBit k = (lb.glob.getD j 0).testBit k :=
  Lemmas.C15b.globGet_other_depths_bytes lb pos d j k hk hb

theorem globSet_keeps_bytes (lb : Lb) (pos d : Nat) (hd : d < 8) (hb : ∀ x ∈ lb.glob, x < 256) :
    ∀ x ∈ (globSet lb pos d).glob, x < 256 := Lemmas.C15b.globSet_bytes lb pos d hd hb

/-- what `lbuf_globget` returns depends on bit `d` of the entry only -/
theorem globGet_value_other_depths (lb lb2 : Lb) (pos d : Nat)
    (h : (lb2.glob.getD pos 0).testBit d = (lb.glob.getD pos 0).testBit d) : (globGet lb2 pos d).1 = (globGet lb pos d).1 :=
  Lemmas.C15b.globGet_value_other_depths lb lb2 pos d h

/-- **marks_depth_le_7**: `ec_glob` called with seven `:g` nested already returns 1 at once with the message
    "global commands nested too deep" and touches nothing else (no `lbuf_globset`, no `lbuf_globget`); and whenever
    it runs its loop (return value 0), the depth `xgdep + 1` it marks, searches and sweeps with (`ecGlob_exit_paths`)
    is at most 7.  So the two functions are only ever called with `d ≤ 7`, the marks are bits of a `char`, and the
    restriction `k < 8` of `globGet_other_depths` covers every reachable call.
    (Before the repair — found by this module's comparison of `lbuf_globset` beyond depth 7 — `ec_glob` had no such
    guard: at depth 8 the bit did not fit the `char` and the program worked on the first line of the range only; forty
    nested `g/a/` made `1 << 40` undefined behaviour.) -/
theorem marks_depth_le_7 (f : Nat) (ed ed' : Ed) (loc cmd arg : Bytes) (r : Int)
    (h : ecGlob (f + 1) ed loc cmd arg = some (r, ed')) :
    (7 ≤ ed.xgdep → r = 1 ∧ ed' = ed.show (strOf "global commands nested too deep")) ∧
    (r = 0 → ed.xgdep + 1 ≤ 7) := Lemmas.C15b.marks_depth_le_7 f ed ed' loc cmd arg r h

/-- the hypotheses are met at the limit (`%g/b/d` with seven `:g` nested is refused) and below it (the witness of
    section 2 runs at depth 1 and returns 0) -/
example : ∃ ed', ecGlob 1 { wEd with xgdep := 7 } [37] [103] [47, 98, 47, 100] = some (1, ed') :=
  ⟨_, guard_example 0 { wEd with xgdep := 7 } rfl⟩

/-- **beyond depth 7, setting** (a call that no longer happens, `marks_depth_le_7`; kept as the record of the defect):
    `lbuf_globset` with `d ≥ 8` on an existing entry yields a value no `char` holds — the C assignment dropped the bit,
    the line was not marked -/
theorem beyond_depth_7_set (lb : Lb) (pos d : Nat) (hd : 8 ≤ d) (hp : pos < lb.glob.length) :
    256 ≤ (globSet lb pos d).glob.getD pos 0 := Lemmas.C15b.globSet_beyond lb pos d hd hp

/-- **beyond depth 7, reading** (no longer reachable either): `lbuf_globget` with `d ≥ 8` reports the bit without clearing
    it (the mask `255 ^^^ (1 <<< d)` keeps bit `d`; in C it reported 0) -/
theorem beyond_depth_7_get (lb : Lb) (pos d : Nat) (hd : 8 ≤ d) :
    ((globGet lb pos d).2.glob.getD pos 0).testBit d = (lb.glob.getD pos 0).testBit d ∧
    (globGet (globGet lb pos d).2 pos d).1 = (globGet lb pos d).1 := Lemmas.C15b.globGet_beyond lb pos d hd

/-- **beyond_depth_7_hangs**: the loop of `:g` (`ecGlob.scan`), *were it started* at a depth `≥ 8` on a line that carries
    its mark and is not selected by its pattern, would never end — whatever the step budget `g`.  This is how the
    missing guard showed in the model (the old model ran the loop at depth 8: `none`, while the program ended after
    the first line).  `ec_glob` does not start the loop at such a depth any more: `marks_depth_le_7`. -/
theorem beyond_depth_7_hangs (f : Nat) (neg : Bool) (body : Bytes) (re : RStr) (dep : Nat) (hdep : 8 ≤ dep)
    (i : Int) (hi : 0 ≤ i) (ln : Bytes) (res : Int) (x : List Int × Nat)
    (hfind : rstrFind re ln 16 0 ND NG = some (res, x)) (hsel : ((res < 0) == neg) = false)
    (g : Nat) (ed : Ed) (lb : Lb) (hl : ed.lb = some lb) (hln : lb.lines[i.toNat]? = some ln)
    (hbit : (lb.glob.getD i.toNat 0).testBit dep = true) : ecGlob.scan f neg body re dep g ed i = none :=
  scan_beyond_depth_7_hangs f neg body re dep hdep i hi ln res x hfind hsel g ed lb hl hln hbit

/-- the hypotheses are met: the pattern `q` does not select the line `a1`, which carries bit 8 -/
example : ∃ (re : RStr) (res : Int) (x : List Int × Nat) (ed : Ed) (lb : Lb),
    rstrFind re [97, 49, 10] 16 0 ND NG = some (res, x) ∧ ((res < 0) == false) = false ∧
    ed.lb = some lb ∧ lb.lines[(0 : Int).toNat]? = some [97, 49, 10] ∧ (lb.glob.getD (0 : Int).toNat 0).testBit 8 = true :=
  sat_hangs

/-- marks `[2, 6, 0]`: line 0 marked for depth 1, line 1 for depths 1 and 2; asking for depth 2 on line 1 leaves depth 1 -/
example : (globGet { lines := [[10], [10], [10]], glob := [2, 6, 0] } 1 2).1 = true ∧
    (globGet { lines := [[10], [10], [10]], glob := [2, 6, 0] } 1 2).2.glob = [2, 2, 0] := by decide

/-! ## 2. an inner `:g` leaves the marks of the outer depths on their lines -/

/-- **inner_global_keeps_outer_marks**.  `ec_glob` called at depth `xgdep` (inside the command list of a `:g` of that
    depth, or at depth 0) with any range `loc`, any pattern and a quiet command list, on a buffer `lb` whose table of
    marks is as long as its table of lines: if it returns, the buffer `lb'` afterwards comes with a slot map `sm` such that
    * `sm j = none` beyond the last line; a slot with `sm j = none` holds an inserted line;
    * `sm j = some (i, _)`: slot `j` is old slot `i` (`i` a line of `lb`), and `sm` is strictly increasing: the surviving
      lines keep their order; old slots that are not hit are the deleted lines;
    * for every depth `k ≤ xgdep` (the outer `:g`s; no bound on `k` is needed: an inner `:g` works at a depth `≤ 7` or
      not at all, `marks_depth_le_7`): bit `k` of `ln_glob[j]` afterwards is bit `k` of `ln_glob[i]` before — and clear
      on inserted lines;
    * `sm j = some (i, true)`: the text of the line is unchanged (`false`: rewritten in place, as `:s` does). -/
theorem inner_global_keeps_outer_marks (f d : Nat) (loc cmd arg : Bytes) (hq : quietLine d (reRead arg).2 = true)
    (ed ed' : Ed) (r : Int) (lb : Lb) (hl : ed.lb = some lb) (hg : GlobLen lb)
    (h : ecGlob f ed loc cmd arg = some (r, ed')) :
    ∃ (lb' : Lb) (sm : Nat → Option (Nat × Bool)), ed'.lb = some lb' ∧ GlobLen lb' ∧
      (∀ j, lb'.lines.length ≤ j → sm j = none) ∧
      (∀ j p, sm j = some p → p.1 < lb.lines.length) ∧
      (∀ j j' p p', j < j' → sm j = some p → sm j' = some p' → p.1 < p'.1) ∧
      (∀ j k, k ≤ ed.xgdep → (lb'.glob.getD j 0).testBit k =
        match sm j with | some p => (lb.glob.getD p.1 0).testBit k | none => false) ∧
      (∀ j i, sm j = some (i, true) → lb'.lines[j]? = lb.lines[i]?) :=
  let ⟨lb', hl', sm, w⟩ := ecGlob_carry f d loc cmd arg hq ed ed' r lb hl hg h
  ⟨lb', sm, hl', w.len', w.dom, w.rng, w.mono, fun j k hk => w.bits j k hk, w.text⟩

/-- the same for any quiet command list (the body of the outer `:g` need not be a single `:g`) -/
theorem body_keeps_outer_marks (f d : Nat) (ln : Bytes) (hq : quietLine d ln = true) (ed ed' : Ed) (r : Int) (lb : Lb)
    (hl : ed.lb = some lb) (hg : GlobLen lb) (h : exExec f ed ln = some (r, ed')) :
    ∃ lb', ed'.lb = some lb' ∧ Carry (upTo ed.xgdep) lb lb' := exExec_carry f d ln hq ed ed' r lb hl hg h

/-- **inner_global_sweeps_own_marks**: a complete `:g` (return value 0: also after a `break`; its depth is then `≤ 7`)
    leaves no mark of its own depth on any line — the next inner `:g` of the outer loop starts from a clean bit -/
theorem inner_global_sweeps_own_marks (f d : Nat) (loc cmd arg : Bytes) (hq : quietLine d (reRead arg).2 = true)
    (ed ed' : Ed) (lb : Lb) (hl : ed.lb = some lb) (hg : GlobLen lb)
    (h : ecGlob (f + 1) ed loc cmd arg = some (0, ed')) :
    ∃ lb', ed'.lb = some lb' ∧ ∀ k, (lb'.glob.getD k 0).testBit (ed.xgdep + 1) = false :=
  ecGlob_sweeps f d loc cmd arg hq ed ed' lb hl hg h

/-- the command lists in question are quiet: `d`, `s/x/y/`, `a`, `i`, `c`, `pu`, `y`, `k a`, and an inner `:g` with such
    a list (one level deeper) -/
example : quietLine 0 [100] = true ∧ quietLine 0 [115, 47, 120, 47, 121, 47] = true ∧ quietLine 0 [97] = true ∧
    quietLine 0 [105] = true ∧ quietLine 0 [99] = true ∧ quietLine 0 [112, 117] = true ∧ quietLine 0 [121] = true ∧
    quietLine 0 [107, 32, 97] = true ∧ quietLine 1 lineInner = true ∧ quietLine 1 lineDel = true := by decide +kernel

/-- the hypotheses are met: `%g/b/d` at depth 1 on `b b c m b` (marks `0 0 0 2 0`) returns, with `c m` and marks `0 2` -/
example : ∃ ed' lb', wEd.lb = some { lines := [[98, 10], [98, 10], [99, 10], [109, 10], [98, 10]], glob := [0, 0, 0, 2, 0] } ∧
    GlobLen { lines := [[98, 10], [98, 10], [99, 10], [109, 10], [98, 10]], glob := [0, 0, 0, 2, 0] } ∧
    quietLine 0 (reRead [47, 98, 47, 100]).2 = true ∧
    ecGlob 3 wEd [37] [103] [47, 98, 47, 100] = some (0, ed') ∧ ed'.lb = some lb' ∧ lb'.glob = [0, 2] :=
  let ⟨ed', lb', h1, h2, _, _, _, h6⟩ := wEd_ecGlob 0
  ⟨ed', lb', rfl, rfl, by decide +kernel, h1, h2, h6⟩

/-- … and `inner_global_sweeps_own_marks` applies to the same run (depth 1, own depth 2, return value 0) -/
example : ∃ ed', ecGlob (2 + 1) wEd [37] [103] [47, 98, 47, 100] = some (0, ed') :=
  let ⟨ed', _, h1, _⟩ := wEd_ecGlob 0; ⟨ed', h1⟩

/-! ## 3. the outer `:g` after the inner one -/

/-- **nested_visit_once**.  One round of the loop of the outer `:g` (its depth `dep`) on line `i`, the command list
    `body` quiet — an inner `:g` over any range in particular — and not failing (`stop = false`); the loop is to restart at
    `i2 = MAX(0, MIN(i, xrow))`.  Then with the slot map `sm` of the command list (`CarryW`: section 2) the search
    `while (i < lbuf_len(xb) && !lbuf_globget(xb, i, xgdep)) i++` started at `i2` ends at `j` where
    * every slot passed over (`i2 ≤ k < j`) holds an inserted line or a line the outer `:g` had not marked (or no
      longer: its mark was consumed when it was worked on);
    * if `j` is a line, it is a surviving line that carried the mark of the outer `:g` before the command list ran — the
      next line the outer `:g` works on;
    * the search consumed the marks of depth `dep` in `[i2, j]` and changed nothing else; the depth is still `dep`. -/
theorem nested_visit_once (f d : Nat) (neg : Bool) (body : Bytes) (re : RStr) (dep : Nat) (ed ed2 : Ed) (i i2 : Int) (lb : Lb)
    (hq : quietLine d body = true) (hx : ed.xgdep = dep) (hl : ed.lb = some lb) (hg : GlobLen lb)
    (hstep : globStep f neg body re ed i = some (false, ed2, i2)) (hi2 : 0 ≤ i2) :
    ∃ (lb2 : Lb) (sm : Slots) (j : Int) (lb3 : Lb),
      ed2.lb = some lb2 ∧ ed2.xgdep = dep ∧ CarryW (upTo dep) lb lb2 sm ∧ i2 ≤ i ∧
      (ecGlob.scan.adv dep (ed2.len.toNat + 1) ed2 i2).2 = j ∧
      (ecGlob.scan.adv dep (ed2.len.toNat + 1) ed2 i2).1.lb = some lb3 ∧
      (ecGlob.scan.adv dep (ed2.len.toNat + 1) ed2 i2).1.xgdep = dep ∧
      i2 ≤ j ∧ (i2 < lb2.lines.length → j ≤ lb2.lines.length) ∧ ((lb2.lines.length : Int) ≤ i2 → j = i2) ∧
      (∀ k, i2.toNat ≤ k → k < j.toNat → ∀ p, sm k = some p → (lb.glob.getD p.1 0).testBit dep = false) ∧
      (j < lb2.lines.length → ∃ p, sm j.toNat = some p ∧ (lb.glob.getD p.1 0).testBit dep = true) ∧
      lb3.lines = lb2.lines ∧ GlobLen lb3 ∧
      (∀ k, lb3.glob.getD k 0 =
        if i2.toNat ≤ k ∧ k ≤ j.toNat ∧ k < lb2.lines.length then clr (lb2.glob.getD k 0) dep else lb2.glob.getD k 0) :=
  round_visit f d neg body re dep ed ed2 i i2 lb hq hx hl hg hstep hi2

/-- the hypotheses are met: the round of an outer `:g/c/` (depth 1) on line 2 of `b b c m b` with the inner `%g/b/d` -/
example : ∃ re ed2, wEd.mkRe [99] = some (some re) ∧ quietLine 1 lineDel = true ∧ wEd.xgdep = 1 ∧
    globStep 5 false lineDel re wEd 2 = some (false, ed2, 2) :=
  let ⟨re, ed2, _, h1, h2, _, _⟩ := wEd_globStep
  ⟨re, ed2, h1, by decide +kernel, rfl, h2⟩

/-- **nested_visits_in_order** (for the depths a loop runs at, `dep ≤ 7`: `marks_depth_le_7`).  If moreover nothing marked sits at or before the line `i` just worked on (the loop
    invariant) and the command list left nothing marked behind the restart index, then: every surviving marked line
    sits at or after the slot `j` found; the old slot of the line found lies after `i` and before the old slots of all
    other surviving marked lines (it is the *first* surviving marked line, in the order of the buffer before the inner
    `:g`); nothing marked sits at or before `j` afterwards; the marks after `j` are the ones that travelled there. -/
theorem nested_visits_in_order {dep : Nat} {lb lb2 lb3 : Lb} {sm : Slots} {i i2 j : Int} (hdep : dep < 8)
    (w : CarryW (upTo dep) lb lb2 sm)
    (hclean : CleanBelow lb dep (i.toNat + 1)) (hns : CleanBelow lb2 dep i2.toNat)
    (hpass : ∀ k, i2.toNat ≤ k → k < j.toNat → ∀ p, sm k = some p → (lb.glob.getD p.1 0).testBit dep = false)
    (h3 : ∀ k, lb3.glob.getD k 0 =
        if i2.toNat ≤ k ∧ k ≤ j.toNat ∧ k < lb2.lines.length then clr (lb2.glob.getD k 0) dep else lb2.glob.getD k 0) :
    (∀ k p, sm k = some p → (lb.glob.getD p.1 0).testBit dep = true → j.toNat ≤ k) ∧
    (∀ p, sm j.toNat = some p → (lb.glob.getD p.1 0).testBit dep = true →
      i.toNat < p.1 ∧ ∀ k p', sm k = some p' → (lb.glob.getD p'.1 0).testBit dep = true → p.1 ≤ p'.1) ∧
    CleanBelow lb3 dep (j.toNat + 1) ∧
    (∀ k, j.toNat < k → (lb3.glob.getD k 0).testBit dep = (lb2.glob.getD k 0).testBit dep) :=
  round_in_order hdep w hclean hns hpass h3

/-- the hypotheses are met: marks `0 2 2`, the loop on line 0, nothing edited, the search ends on line 1 -/
example : ∃ (lb lb3 : Lb) (sm : Slots), CarryW (upTo 1) lb lb sm ∧ CleanBelow lb 1 ((0 : Int).toNat + 1) ∧
    CleanBelow lb 1 (0 : Int).toNat ∧
    (∀ k, (0 : Int).toNat ≤ k → k < (1 : Int).toNat → ∀ p, sm k = some p → (lb.glob.getD p.1 0).testBit 1 = false) ∧
    (∀ k, lb3.glob.getD k 0 =
      if (0 : Int).toNat ≤ k ∧ k ≤ (1 : Int).toNat ∧ k < lb.lines.length then clr (lb.glob.getD k 0) 1 else lb.glob.getD k 0) :=
  sat_in_order

/-- a sufficient condition for "nothing marked is left behind the restart index `n ≤ i`": no line from after the
    current line `i` has been moved in front of `n` (the command list does not delete lines before the current one,
    say: an inner `:g` over `.,+n` whose command works on the current line) -/
theorem nothing_left_behind {dep : Nat} {lb lb2 : Lb} {sm : Slots} {i : Int} {n : Nat}
    (w : CarryW (upTo dep) lb lb2 sm) (hclean : CleanBelow lb dep (i.toNat + 1))
    (hsrc : ∀ k p, k < n → sm k = some p → p.1 ≤ i.toNat) : CleanBelow lb2 dep n :=
  Lemmas.C15b.nothing_left_behind w hclean hsrc

/-- **the loop starts with the invariant**: when no line carries a mark of depth `dep` (`inner_global_sweeps_own_marks`),
    `ec_glob` marks exactly the lines `beg+1 … end-1`, leaves the other depths alone, and starts on `beg` -/
theorem nested_loop_starts (ed : Ed) (b e : Int) (dep : Nat) (lb : Lb) (hl : ed.lb = some lb) (hg : GlobLen lb) (hb : 0 ≤ b)
    (hclean : ∀ k, (lb.glob.getD k 0).testBit dep = false) :
    LoopInv dep (globMark ed b e dep) b ∧
    ∃ lb1, (globMark ed b e dep).lb = some lb1 ∧ lb1.lines = lb.lines ∧
      (∀ j, (lb1.glob.getD j 0).testBit dep = decide (b.toNat + 1 ≤ j ∧ (j : Int) < e ∧ j < lb.lines.length)) ∧
      (∀ j k, k ≠ dep → (lb1.glob.getD j 0).testBit k = (lb.glob.getD j 0).testBit k) :=
  loop_inv_init ed b e dep lb hl hg hb hclean

/-- **nested_loop_invariant**: in every round of the loop of a `:g` (depth `dep < 8`, quiet command list) whose command
    list never leaves a marked line behind the restart index, the loop stands on a line with nothing marked at or
    before it: each marked surviving line is worked on at most once, in the order of the lines -/
theorem nested_loop_invariant (f d : Nat) (neg : Bool) (body : Bytes) (re : RStr) (dep : Nat)
    (hq : quietLine d body = true) (hdep : dep < 8)
    (hns : ∀ ed i ed2 i2, LoopInv dep ed i → globStep f neg body re ed i = some (false, ed2, i2) →
      ∀ lb2, ed2.lb = some lb2 → CleanBelow lb2 dep i2.toNat)
    {ed s : Ed} {i j : Int} (hr : RoundStart f neg body re dep ed i s j) (hinv : LoopInv dep ed i) : LoopInv dep s j :=
  rounds_keep_inv f d neg body re dep hq hdep hns hr hinv

/-- the hypotheses are met: the empty command list is quiet and leaves nothing behind (for a run of a real nest that
    keeps the invariant see `nested_example`) -/
example (f dep : Nat) (neg : Bool) (re : RStr) : quietLine 0 [] = true ∧
    ∀ ed i ed2 i2, LoopInv dep ed i → globStep (f + 1) neg [] re ed i = some (false, ed2, i2) →
      ∀ lb2, ed2.lb = some lb2 → CleanBelow lb2 dep i2.toNat := sat_loop_invariant f dep neg re

/-- the hypotheses of `nested_loop_starts` are met by the buffer of the example: no marks at all -/
example : exEd5.lb = some { lines := [[97, 49, 10], [97, 50, 10], [97, 51, 10], [97, 52, 10], [122, 10]], glob := [0, 0, 0, 0, 0] } ∧
    GlobLen { lines := [[97, 49, 10], [97, 50, 10], [97, 51, 10], [97, 52, 10], [122, 10]], glob := [0, 0, 0, 0, 0] } ∧
    ∀ k, (([0, 0, 0, 0, 0] : List Nat).getD k 0).testBit 1 = false :=
  ⟨rfl, rfl, fun k => by
    match k with
    | 0 | 1 | 2 | 3 | 4 => decide
    | k + 5 => simp⟩

/-- the conjecture that an inner `:g` over any range never leaves a line the outer `:g` has marked behind the index
    the outer loop restarts from — which is what "the outer `:g` still visits each of its marked, surviving lines"
    needs for *any* range -/
def nested_visit_once_any_range_full : Prop := inner_global_leaves_nothing_behind_full

/-- **nested_visit_once_any_range_is_false**: `%g/b/d` run by an outer `:g` (depth 1) that stands on line 2 (`c`) of
    `b b c m b` and still has its mark on `m`: the inner `:g` deletes two lines before and one line after, ends with
    `c m`, the mark in slot 1, the current row on 2 — the outer loop restarts at `MIN(2, 2) = 2`, behind the marked line -/
theorem nested_visit_once_any_range_is_false : ¬ nested_visit_once_any_range_full :=
  inner_global_leaves_nothing_behind_refuted

/-- **left_behind_is_lost**: a marked line in a slot before the restart index is not the line the search finds, and
    keeps its mark (until the final sweep, or until a later round restarts before it): the outer `:g` does not work on it -/
theorem left_behind_is_lost (dep h : Nat) (ed : Ed) (i : Int) (lb : Lb) (hlb : ed.lb = some lb) (hi : 0 ≤ i)
    (hf : lb.lines.length - i.toNat < h) (k : Nat) (hk : k < i.toNat) (hm : (lb.glob.getD k 0).testBit dep = true) :
    (ecGlob.scan.adv dep h ed i).2.toNat ≠ k ∧
    ∃ lb', (ecGlob.scan.adv dep h ed i).1.lb = some lb' ∧ (lb'.glob.getD k 0).testBit dep = true :=
  Lemmas.C15b.left_behind_is_lost dep h ed i lb hlb hi hf k hk hm

/-- the hypotheses are met by the state the witness ends in: `c m`, marks `0 2`, restart index 2 -/
example : ∃ (ed : Ed) (lb : Lb), ed.lb = some lb ∧ (0 : Int) ≤ 2 ∧ lb.lines.length - (2 : Int).toNat < 3 ∧
    1 < (2 : Int).toNat ∧ (lb.glob.getD 1 0).testBit 1 = true := sat_left_behind

/-- **nested_skip_example** (the model run end to end; the program gives the same text): `:g/a/s/$/!/|%g/b/d` on
    `b b a a b` ends with `a!` and `a`: the second `a` line matched, was marked, survived, and was never worked on -/
theorem nested_skip_example (f : Nat) :
    ∃ ed', exExec (f + 8) exEdSkip lineSkip = some (0, ed') ∧ ed'.xgdep = 0 ∧
      ed'.lb.map (·.lines) = some [[97, 33, 10], [97, 10]] ∧ ed'.lb.map (·.glob) = some [0, 0] :=
  Lemmas.C15b.nested_skip_example f

/-- **nested_example** (the model run end to end): `:g/a/.,+1g/$/s/$/x/` on `a1 a2 a3 a4 z` gives
    `a1x a2xx a3xx a4xx zx` — each line the outer `:g` marked is worked on once, while the inner `:g` marks, works on
    and sweeps the same lines; no mark of either depth is left, the depth is 0 again, the sequence counter unmoved.
    (`:g/a/.,+1g/./s/$/x/`, the form with `.`, evaluates to the same text, in the model and in the program; the kernel
    cannot unfold the matcher that `.` needs.) -/
theorem nested_example (f : Nat) :
    ∃ ed', exExec (f + 8) exEd5 lineOuter = some (0, ed') ∧ ed'.xgdep = 0 ∧
      ed'.lb.map (·.lines) =
        some [[97, 49, 120, 10], [97, 50, 120, 120, 10], [97, 51, 120, 120, 10], [97, 52, 120, 120, 10], [122, 120, 10]] ∧
      ed'.lb.map (·.glob) = some [0, 0, 0, 0, 0] ∧ ed'.lb.map (·.useq) = some 1 :=
  Lemmas.C15b.nested_example f

/-! ## 4. one undo step -/

/-- **nested_one_undo_step**: while a quiet command list runs — `:g` inside `:g` inside `:g` …, `d` levels — the
    sequence counter of the current buffer does not move, the undo records that were there are kept up to some point
    `k` (the redo branch is cut by the first edit, as always), and every record logged carries the one sequence number:
    `lbuf_undo` takes them back together (`Props/C04`: a group of equal sequence numbers is one undo step) -/
theorem nested_one_undo_step (f d : Nat) (ln : Bytes) (hq : quietLine d ln = true) (ed ed' : Ed) (r : Int) (lb : Lb)
    (hl : ed.lb = some lb) (h : exExec f ed ln = some (r, ed')) :
    ∃ lb', ed'.lb = some lb' ∧ lb'.useq = lb.useq ∧
      ∃ (k : Nat) (news : List Entry), lb'.hist = lb.hist.take k ++ news ∧ ∀ e ∈ news, e.seq = lb.useq :=
  exExec_oneSeq f d ln hq ed ed' r lb hl h

/-- the same for one call of `ec_glob` (the inner `:g` as the outer one sees it) -/
theorem nested_one_undo_step_glob (f d : Nat) (loc cmd arg : Bytes) (hq : quietLine d (reRead arg).2 = true)
    (ed ed' : Ed) (r : Int) (lb : Lb) (hl : ed.lb = some lb) (h : ecGlob f ed loc cmd arg = some (r, ed')) :
    ∃ lb', ed'.lb = some lb' ∧ lb'.useq = lb.useq ∧
      ∃ (k : Nat) (news : List Entry), lb'.hist = lb.hist.take k ++ news ∧ ∀ e ∈ news, e.seq = lb.useq :=
  ecGlob_oneSeq f d loc cmd arg hq ed ed' r lb hl h

/-- **nested_global_is_one_command**: `ex_command` on such a line: all the records it logged carry the old value of
    the counter, and the counter is bumped once, at the end -/
theorem nested_global_is_one_command (f d : Nat) (ln : Bytes) (hq : quietLine d ln = true) (ed ed' : Ed) (r : Int) (lb : Lb)
    (hl : ed.lb = some lb) (h : exCommand f ed ln = some (r, ed')) :
    ∃ lb', ed'.lb = some lb' ∧ lb'.useq = lb.useq + 1 ∧
      ∃ (k : Nat) (news : List Entry), lb'.hist = lb.hist.take k ++ news ∧ ∀ e ∈ news, e.seq = lb.useq :=
  exCommand_oneSeq f d ln hq ed ed' r lb hl h

/-- **nested_example_undo** (the model run end to end): `ex_command` on `:g/a/.,+1g/$/s/$/x/` logs eight undo records
    (one per substitution) and bumps the counter once; one `lbuf_undo` then returns 0 and the text is `a1 a2 a3 a4 z` again -/
theorem nested_example_undo (f : Nat) :
    ∃ ed', exCommand (f + 9) exEd5 lineOuter = some (0, ed') ∧
      ed'.lb.map (fun lb => (lb.hist.length, lb.useq)) = some (8, 2) ∧
      (ed'.lb.bind Lbuf.undo).map (fun y => (y.1, y.2.lines)) =
        some (0, [[97, 49, 10], [97, 50, 10], [97, 51, 10], [97, 52, 10], [122, 10]]) :=
  Lemmas.C15b.nested_example_undo f

/-- the hypotheses are met by the nested example (`quietLine 2`: a `:g` whose list is a `:g` whose list is `:s`) -/
example : quietLine 2 lineOuter = true ∧ ∃ ed', exExec 8 exEd5 lineOuter = some (0, ed') :=
  ⟨by decide +kernel, let ⟨ed', h, _⟩ := Lemmas.C15b.nested_example 0; ⟨ed', h⟩⟩

/-! ## 5. the depth counter -/

/-- **ecGlob_restores_depth**: whenever `ec_glob` returns — for every fuel, state, range, pattern and command list
    (quiet or not: `:e`, `:b`, `:w`, `:q`, `:!`, `:@` included) — `xgdep` is what it was at the call -/
theorem ecGlob_restores_depth (f : Nat) (ed ed' : Ed) (loc cmd arg : Bytes) (r : Int)
    (h : ecGlob f ed loc cmd arg = some (r, ed')) : ed'.xgdep = ed.xgdep := ecGlob_restores_depth_all h

/-- **ecGlob_exit_paths**: `ec_glob` returns 1 — seven `:g` nested already (the depth guard), bad range, no pattern to use (`g//d` without a previous search),
    pattern that does not compile; all before `xgdep++` — or it returns 0: then `xgdep < 7`, its loop ran at depth `xgdep + 1`
    and — normal end or `break` after a failing command — ended at that depth, so that the `xgdep--` of the program is
    the `dep - 1` of the model; the result is the swept state at depth `xgdep` -/
theorem ecGlob_exit_paths (f : Nat) (ed ed' : Ed) (loc cmd arg : Bytes) (r : Int)
    (h : ecGlob (f + 1) ed loc cmd arg = some (r, ed')) :
    ed'.xgdep = ed.xgdep ∧
    (r = 1 ∨ (r = 0 ∧ ed.xgdep < 7 ∧ ∃ rc b e ed1 re ed2,
      exRegion ed (if loc.isEmpty && ed.xgdep == 0 then [37] else loc) = some ((rc, b, e), ed1) ∧
      ecGlob.scan f (hasBang cmd || cmd.headD 0 == 118) (reRead arg).2 re (ed.xgdep + 1)
        (globBudget (globMark (globPrep ed1 arg) b e (ed.xgdep + 1)))
        (globMark (globPrep ed1 arg) b e (ed.xgdep + 1)) b = some ed2 ∧
      ed2.xgdep = ed.xgdep + 1 ∧ ed' = { globSweep ed2 (ed.xgdep + 1) with xgdep := ed2.xgdep - 1 })) :=
  ecGlob_outcomes_all f ed ed' loc cmd arg r h

/-- **exExec_restores_depth**: every command line — any commands, any nesting — ends at the depth it started at -/
theorem exExec_restores_depth (f : Nat) (ed ed' : Ed) (ln : Bytes) (r : Int) (h : exExec f ed ln = some (r, ed')) :
    ed'.xgdep = ed.xgdep := exExec_dep h

theorem exCommand_restores_depth (f : Nat) (ed ed' : Ed) (ln : Bytes) (r : Int) (h : exCommand f ed ln = some (r, ed')) :
    ed'.xgdep = ed.xgdep := exCommand_dep h

/-- every handler of the dispatcher -/
theorem runCmd_restores_depth (f : Nat) (ed ed' : Ed) (hd : String) (loc cmd arg : Bytes) (txt : Option Bytes) (r : Int)
    (h : runCmd f ed hd loc cmd arg txt = some (r, ed')) : ed'.xgdep = ed.xgdep := runCmd_dep_all h

/-- the early exits, run on the model (`a1 a2 a3 a4 z`, depth 0): `g//d` without a previous pattern (the seeded regression
    left `xgdep` raised here), `9,10g/a/d` (bad range), `g/(a/d` (the pattern does not compile) each return 1 at depth 0 -/
theorem ecGlob_early_exit_examples :
    (∃ ed', ecGlob 3 exEd5 [] [103] [47, 47, 100] = some (1, ed') ∧ ed'.xgdep = 0) ∧
    (∃ ed', ecGlob 3 exEd5 [57, 44, 49, 48] [103] [47, 97, 47, 100] = some (1, ed') ∧ ed'.xgdep = 0) ∧
    (∃ ed', ecGlob 3 exEd5 [] [103] [47, 40, 97, 47, 100] = some (1, ed') ∧ ed'.xgdep = 0) := exit_examples

/-- the hypotheses are met: the inner `:g` of the witness returns at the depth it was called at -/
example : ∃ ed', ecGlob 3 wEd [37] [103] [47, 98, 47, 100] = some (0, ed') ∧ ed'.xgdep = wEd.xgdep :=
  let ⟨ed', _, h1, _, _, h4, _⟩ := wEd_ecGlob 0
  ⟨ed', h1, h4⟩

end Neatvi.Props.C15b
