import NeatviVerif.Lemmas.C02bRun
import NeatviVerif.Lemmas.C02bQuiet
import NeatviVerif.Props.C02
/-!
# C02b  The bridge between the editor and Part A of C02

Part A of C02 proves, for a line buffer driven through the lbuf API by a history of commands, that
the dirty flag never reports clean while the text and the last whole write differ.  Part B is about
what `:q`, `:e`, `:b`, `:w` do given the flag.  C02 left open that the buffers of a reachable editor
state ARE buffers Part A speaks about (`Ex.editor_buffers_satisfy_invariant_full`).  This file
closes it, for every handler of the dispatcher and every command line:

* `LbReach lb d` (Lemmas/C02bMark): `lb` was built from `lbuf_make()` by calls of the lbuf API in
  any order — `lbuf_edit` (any arguments), `lbuf_undo`, `lbuf_redo`, the bump `lbuf_modified`,
  `lbuf_saved(lb, 0|1)` + bump, `lbuf_unsaved`, `lbuf_mark`, `lbuf_globset`, `lbuf_globget` — and `d`
  is the text the buffer had at the most recent `lbuf_saved` among them (`none` after `lbuf_unsaved`).
  Unlike the histories `SOp` of Part A, the calls need not respect command boundaries: the ex layer
  undoes, redoes and saves in the middle of a command line (`:d|u|w|d`).
* `LbReach lb d → LbInvG lb d` (`LbReach.inv`): the zipper-free form of Part A's invariant, which
  holds at any point of a command; at a command boundary (`Closed`) it is Part A's `SInv`.
* `EdInv` / `EdStrong`: every buffer of the table is `LbReach`, the non-current ones (at a command
  boundary: all of them) closed.  Kept by every `ec_*` handler, `ex_exec`, `ex_command`, `exStep`, `exInit`.
-/
namespace Neatvi.Props.C02b
open Neatvi Neatvi.Lbuf Neatvi.Ex Neatvi.Spec Neatvi.Lemmas.C02 Neatvi.Lemmas.C02b Neatvi.Lemmas.C02Ex

export Neatvi.Lemmas.C02b (LbReach LbInvG HInv Closed GoodLb EdInv EdStrong Closed0 TabInv TabStrong CurGhost QuietRun Stable)

/-! ## 1. line buffers -/

/-- the invariant holds for a fresh buffer and is preserved by every primitive of the lbuf API the ex
    layer uses, in any order and with any arguments; the ghost changes at `lbuf_saved` / `lbuf_unsaved` only -/
theorem lb_invariant_preserved :
    LbInvG Lbuf.make (some []) ∧
    (∀ lb d buf b e lb', LbInvG lb d → Lbuf.edit lb buf b e = some lb' → LbInvG lb' d) ∧
    (∀ lb d rc lb', LbInvG lb d → Lbuf.undo lb = some (rc, lb') → LbInvG lb' d) ∧
    (∀ lb d rc lb', LbInvG lb d → Lbuf.redo lb = some (rc, lb') → LbInvG lb' d) ∧
    (∀ lb d, LbInvG lb d → LbInvG (modified lb).2 d) ∧
    (∀ lb d, LbInvG lb d → LbInvG (modified (savedCore lb false)).2 (some lb.lines)) ∧
    (∀ lb d, LbInvG lb d → LbInvG (modified (savedCore lb true)).2 (some lb.lines)) ∧
    (∀ lb d, LbInvG lb d → LbInvG (unsavedMark lb) none) ∧
    (∀ lb d c p o, LbInvG lb d → LbInvG (setMark lb c p o) d) ∧
    (∀ lb d p k, LbInvG lb d → LbInvG (globSet lb p k) d) ∧
    (∀ lb d p k, LbInvG lb d → LbInvG (globGet lb p k).2 d) :=
  ⟨lbInv_make, fun _ _ buf b e _ h he => lbInv_edit h buf b e _ he, fun _ _ _ _ h hu => lbInv_undo h _ _ hu,
    fun _ _ _ _ h hu => lbInv_redo h _ _ hu, fun _ _ h => lbInv_bump h, fun _ _ h => lbInv_saved h,
    fun _ _ h => lbInv_savedClear h, fun _ _ h => lbInv_partial h, fun _ _ c p o h => lbInv_setMark h c p o,
    fun _ _ p k h => lbInv_globSet h p k, fun _ _ p k h => lbInv_globGet h p k⟩

/-- `lbuf_rd` into a fresh buffer followed by `lbuf_saved(lb, 1)`: the ghost is the text read -/
theorem load_invariant (chunks : List Bytes) (rc : Nat) (lb : Lb)
    (h : LbufIo.rd Lbuf.make chunks false 0 0 = some (rc, lb)) :
    LbReach (modified (savedCore lb true)).2 (some lb.lines) :=
  (LbReach.make.rd h).savedClear

/-- **clean is sound, for every buffer the API can build**: if `lbuf_modified` reports clean, the text
    is the text at the most recent `lbuf_saved` and no `lbuf_unsaved` happened since — whatever
    sequence of API calls (`d` ranges over the ghosts of ALL of them) built the buffer -/
theorem clean_sound (lb : Lb) (d : Option Text) (h : LbReach lb d) (hc : (modified lb).1 = false) :
    d = some lb.lines := h.inv.clean_text hc

theorem dirty_if_differs (lb : Lb) (d : Option Text) (h : LbReach lb d) (hne : d ≠ some lb.lines) :
    (modified lb).1 = true := by
  cases hm : (modified lb).1 with
  | true => rfl
  | false => exact absurd (clean_sound lb d h hm) hne

/-- at a command boundary the invariant is Part A's, so `SInv.clean_iff` / `SInv.clean_text` apply -/
theorem sinv_of_reach (lb : Lb) (d : Option Text) (h : LbReach lb d) (hc : Closed lb) : ∃ r, SInv lb r d :=
  h.inv.sinv hc

/-- Part A's histories are API call sequences: every buffer `srun` produces is `LbReach`, with Part
    A's ghost -/
theorem reach_of_srunD (ops : List SOp) : ∀ (lb : Lb) (d : Option Text), LbReach lb d →
    ∀ lb' d', srunD ops (lb, d) = some (lb', d') → LbReach lb' d' := by
  induction ops with
  | nil => intro lb d h lb' d' hr; cases hr; exact h
  | cons op ops ih =>
    intro lb d h lb' d' hr
    simp only [srunD] at hr
    split at hr
    · cases hr
    · rename_i lb1 hs
      refine ih lb1 _ ?_ lb' d' hr
      cases op with
      | cmd ss =>
        simp only [sstep, Option.map_eq_some_iff] at hs
        obtain ⟨l, hl, rfl⟩ := hs
        have : ∀ (ss : List C04.Splice) (lb l : Lb), LbReach lb d → C04.applySplices ss lb = some l → LbReach l d := by
          intro ss
          induction ss with
          | nil => intro lb l h hl; cases hl; exact h
          | cons s r ihs =>
            intro lb l h hl
            obtain ⟨b, e, buf⟩ := s
            simp only [C04.applySplices] at hl
            split at hl
            · cases hl
            · rename_i l1 h1
              exact ihs _ _ (h.edit _ _ _ h1) hl
        exact (this ss lb l h hl).bump
      | undo =>
        simp only [sstep, Option.map_eq_some_iff] at hs
        obtain ⟨⟨rc, l⟩, hl, rfl⟩ := hs
        exact (h.undo hl).bump
      | redo =>
        simp only [sstep, Option.map_eq_some_iff] at hs
        obtain ⟨⟨rc, l⟩, hl, rfl⟩ := hs
        exact (h.redo hl).bump
      | query => cases hs; exact h.bump
      | saved => cases hs; exact h.saved
      | savedClear => cases hs; exact h.savedClear
      | partialWrite => cases hs; exact h.partialWrite

/-! ## 2. the editor -/

/-- every `ec_*` handler keeps the invariant of the buffer table, for every fuel -/
theorem runCmd_keeps (f : Nat) (ed ed' : Ed) (hd : String) (loc cmd arg : Bytes) (txt : Option Bytes) (r : Int)
    (hi : EdInv ed) (h : runCmd f ed hd loc cmd arg txt = some (r, ed')) : EdInv ed' := runCmd_edInv hi h

theorem exExec_keeps (f : Nat) (ed ed' : Ed) (ln : Bytes) (r : Int) (hi : EdInv ed)
    (h : exExec f ed ln = some (r, ed')) : EdInv ed' := exExec_edInv hi h

/-- `ex_command` ends at a command boundary: every buffer closed -/
theorem exCommand_keeps (f : Nat) (ed ed' : Ed) (ln : Bytes) (r : Int) (hi : EdInv ed)
    (h : exCommand f ed ln = some (r, ed')) : EdStrong ed' :=
  edStrong_of (exCommand_edInv hi h) (closed0_exCommand hi h)

theorem exStep_keeps (ed ed' : Ed) (r : Int) (hi : EdInv ed) (h : exStep ed = some (r, ed')) : EdStrong ed' := by
  unfold exStep at h
  split at h
  · cases h
  · simp only [] at h
    split at h
    · cases h
    · rename_i r1 ed1 hc
      cases h
      exact (exCommand_keeps _ _ _ _ _ (hi.to (by rfl)) hc : EdStrong ed1)

theorem exInit_keeps (ed ed' : Ed) (files : List Bytes) (r : Int) (hi : EdStrong ed)
    (h : exInit ed files = some (r, ed')) : EdStrong ed' := by
  unfold exInit at h
  exact edStrong_of (ecEdit_edInv hi.inv h) (ecEdit_closed0 _ _ _ _ _ _ hi.inv hi.closed0 h)

theorem exRun_keeps : ∀ (n : Nat) (ed ed' : Ed), EdStrong ed → C02.Ex.exRun n ed = some ed' → EdStrong ed' := by
  intro n
  induction n with
  | zero => intro ed ed' hi h; cases h; exact hi
  | succ n ih =>
    intro ed ed' hi h
    rw [C02.Ex.exRun] at h
    split at h
    · cases h; exact hi
    · split at h
      · cases h
      · rename_i r1 ed1 hs
        exact ih _ _ (exStep_keeps _ _ _ hi.inv hs) h

theorem empty_table_strong (ed0 : Ed) (h0 : ed0.bufs = List.replicate Gen.NBUFS none) : EdStrong ed0 := by
  intro b hb
  rw [h0] at hb
  simp [List.mem_replicate] at hb

/-- **every buffer of every reachable editor state was built by the lbuf API and is closed** -/
theorem editor_buffers_reach (ed0 : Ed) (files : List Bytes) (n : Nat) (rc : Int) (ed1 ed : Ed)
    (h0 : ed0.bufs = List.replicate Gen.NBUFS none) (hinit : exInit ed0 files = some (rc, ed1))
    (hrun : C02.Ex.exRun n ed1 = some ed) : EdStrong ed :=
  exRun_keeps n ed1 ed (exInit_keeps ed0 ed1 files rc (empty_table_strong ed0 h0) hinit) hrun

/-- **the statement C02 left open**: every buffer of every state reached by `exInit` and `exStep`s
    satisfies Part A's invariant -/
theorem editor_buffers_satisfy_invariant_full : C02.Ex.editor_buffers_satisfy_invariant_full := by
  intro ed0 files n rc ed1 ed h0 hinit hrun i b hb
  obtain ⟨⟨d, hd⟩, hc⟩ := editor_buffers_reach ed0 files n rc ed1 ed h0 hinit hrun b (C20.mem_of_getD _ _ _ hb).1
  obtain ⟨r, hr⟩ := sinv_of_reach b.lb d hd hc
  exact ⟨r, d, hr⟩

/-- **the dirty indicator at the editor level**: in every reachable state, for every buffer of the
    table: it was built by lbuf API calls (there is a ghost `d`: the text at the last `lbuf_saved`), and
    for every such ghost, if the buffer reports clean then its text is that ghost text, and the flag is
    the reference's (Part A) -/
theorem editor_clean_sound (ed0 : Ed) (files : List Bytes) (n : Nat) (rc : Int) (ed1 ed : Ed)
    (h0 : ed0.bufs = List.replicate Gen.NBUFS none) (hinit : exInit ed0 files = some (rc, ed1))
    (hrun : C02.Ex.exRun n ed1 = some ed) (i : Nat) (b : Buf) (hb : ed.bufs.getD i none = some b) :
    (∃ d, LbReach b.lb d) ∧
    (∀ d, LbReach b.lb d → (modified b.lb).1 = false → d = some b.lb.lines) ∧
    (∀ d, LbReach b.lb d → ∃ r, SInv b.lb r d ∧
      ((modified b.lb).1 = false ↔ r.mark = some r.z.past.length)) := by
  obtain ⟨hg, hc⟩ := editor_buffers_reach ed0 files n rc ed1 ed h0 hinit hrun b (C20.mem_of_getD _ _ _ hb).1
  refine ⟨hg, fun d hd hcl => clean_sound b.lb d hd hcl, ?_⟩
  intro d hd
  obtain ⟨r, hr⟩ := sinv_of_reach b.lb d hd hc
  exact ⟨r, hr, hr.clean_iff⟩

/-- within a command line too (before the final bump): every state `ex_exec` reaches from a state
    satisfying the invariant satisfies it, so a buffer that reports clean has its ghost text -/
theorem midline_clean_sound (f : Nat) (ed ed' : Ed) (ln : Bytes) (r : Int) (hi : EdInv ed)
    (h : exExec f ed ln = some (r, ed')) (i : Nat) (b : Buf) (hb : ed'.bufs.getD i none = some b) :
    (∃ d, LbReach b.lb d) ∧ ∀ d, LbReach b.lb d → (modified b.lb).1 = false → d = some b.lb.lines :=
  ⟨(exExec_edInv hi h i b hb).1, fun d hd hcl => clean_sound b.lb d hd hcl⟩

/-! ## 3. the ghost and the file system

A successful `:w` of the whole buffer to its own file makes the ghost the text whose bytes are in
the file; command lines without `:e`/`:b`/`:w`/`:q`/`:!`/`:@` change neither the ghost of the current
buffer nor any file.  So as long as only such lines run, a clean flag means: the text is the
concatenation of the file's lines. -/

/-- a whole write to the own path (the hypotheses are those of `C02.Ex.write_marks_clean_only_if_whole`):
    `ec_write` returns 0, the new current buffer is clean, its ghost is its text, and the file at `path`
    holds exactly the bytes of that text -/
theorem whole_write_sets_ghost (ed ed1 ed2 ed3 ed4 : Ed) (loc cmd arg path : Bytes)
    (b0 e0 : Int) (cur : Buf) (d : Option Text)
    (hpr : (if !arg.isEmpty then pathExpand ed arg true else some (ed.cur.map (·.path), ed)) = some (some path, ed1))
    (hx : (if cmd.headD 0 == 120 then some (ed1.modifiedAt 0) else some (true, ed1) : Option (Bool × Ed)) = some (true, ed2))
    (hr : exRegion ed2 loc = some ((0, b0, e0), ed3))
    (hc : ed3.cur = some cur) (hsh : path.headD 0 ≠ 33)
    (hbe : (if loc.isEmpty then ((0 : Int), ed3.len) else (b0, e0)) = (0, ed3.len)) (hpne : path ≠ [])
    (hs : lbufSave ed3 cur.lb 0 ed3.len path (hasBang cmd) (if cur.path == path then cur.mtime else 0) = some (none, ed4))
    (hown : cur.path = path ∨ cur.path = []) (hreach : LbReach cur.lb d) :
    ∃ ed5 c5, ecWrite ed loc cmd arg = some (0, ed5) ∧ ed5.cur = some c5 ∧ (modified c5.lb).1 = false ∧
      c5.lb.lines = cur.lb.lines ∧
      CurGhost ed5.files c5.path (some c5.lb.lines) ed5 ∧
      (ed5.findFile path).map (·.data) = some c5.lb.lines.flatten := by
  obtain ⟨ed5, c5, h1, h2, h3, _, h5, h6, _, _⟩ :=
    C02.Ex.write_marks_clean_only_if_whole ed ed1 ed2 ed3 ed4 loc cmd arg path b0 e0 0 ed3.len cur hpr hx hr hc hsh hbe hpne
      (by simpa using hs)
  obtain ⟨hlb, hclean⟩ := h6 hown ⟨rfl, rfl⟩
  have hlines : c5.lb.lines = cur.lb.lines := by rw [hlb]; rfl
  have hre : LbReach c5.lb (some c5.lb.lines) := by
    rw [hlines, hlb]; exact hreach.saved
  refine ⟨ed5, c5, h1, h2, hclean, hlines, ⟨rfl, c5, h2, rfl, hre⟩, ?_⟩
  have hfile := C03.success_exact _ _ _ _ _ _ _ _ hs
  have hlen : ed3.len = (cur.lb.lines.length : Int) := by
    unfold Ed.len Ed.lb; rw [hc]; rfl
  have hend : C03.endLine cur.lb ed3.len = cur.lb.lines.length := by
    unfold C03.endLine
    rw [hlen]
    simp
  rw [hend] at hfile
  simp only [List.drop_zero, Nat.sub_zero, List.take_length] at hfile
  unfold Ed.findFile at hfile ⊢
  rw [h3, hfile, hlines]

/-- quiet command lines keep the ghost of the current buffer and every file -/
theorem quiet_run_keeps_ghost (F : List File) (p : Bytes) (d : Option Text) (dep : Nat) (ed ed' : Ed)
    (hq : QuietRun dep ed ed') (h : CurGhost F p d ed) : CurGhost F p d ed' :=
  quietRun_stable (curGhost_stable F p d) hq h

/-- one quiet command line through `ex_command` -/
theorem quiet_command_keeps_ghost (F : List File) (p : Bytes) (d : Option Text) (f dep : Nat) (ed ed' : Ed)
    (ln : Bytes) (r : Int) (hq : C15.quietLine dep ln = true) (h : CurGhost F p d ed)
    (hc : exCommand f ed ln = some (r, ed')) : CurGhost F p d ed' :=
  exCommand_stable (curGhost_stable F p d) f dep ed ed' ln r hq h hc

/-- **the C02 clause at the editor level, against the virtual file system**: after a successful whole
    `:w` (state `ed5`), however many quiet command lines run (edits, undo, redo, `:g`, `:s`, `:r`, marks, …),
    if the current buffer reports clean then the file it was written to holds exactly the bytes of its
    text; contrapositive: while text and file differ, the flag says dirty -/
theorem clean_means_file_is_text (ed5 ed' : Ed) (c5 : Buf) (path : Bytes) (dep : Nat)
    (hghost : CurGhost ed5.files c5.path (some c5.lb.lines) ed5)
    (hfile : (ed5.findFile path).map (·.data) = some c5.lb.lines.flatten)
    (hq : QuietRun dep ed5 ed') :
    ∃ b', ed'.cur = some b' ∧ b'.path = c5.path ∧ ed'.files = ed5.files ∧
      ((modified b'.lb).1 = false → b'.lb.lines = c5.lb.lines ∧
        (ed'.findFile path).map (·.data) = some b'.lb.lines.flatten) := by
  obtain ⟨hf, b', hc, hp, hr⟩ := quiet_run_keeps_ghost _ _ _ dep ed5 ed' hq hghost
  refine ⟨b', hc, hp, hf, ?_⟩
  intro hcl
  have := clean_sound b'.lb _ hr hcl
  simp only [Option.some.injEq] at this
  refine ⟨this.symm, ?_⟩
  unfold Ed.findFile at hfile ⊢
  rw [hf, hfile, this]

theorem dirty_while_file_differs (ed5 ed' : Ed) (c5 : Buf) (path : Bytes) (dep : Nat)
    (hghost : CurGhost ed5.files c5.path (some c5.lb.lines) ed5)
    (hfile : (ed5.findFile path).map (·.data) = some c5.lb.lines.flatten)
    (hq : QuietRun dep ed5 ed') (b' : Buf) (hb : ed'.cur = some b')
    (hne : (ed'.findFile path).map (·.data) ≠ some b'.lb.lines.flatten) : (modified b'.lb).1 = true := by
  obtain ⟨b2, hc2, _, _, himp⟩ := clean_means_file_is_text ed5 ed' c5 path dep hghost hfile hq
  rw [hb] at hc2; cases hc2
  cases hm : (modified b'.lb).1 with
  | true => rfl
  | false => exact absurd (himp hm).2 hne

/-! ## 4. non-vacuity -/

/-- `:d|u|w|d`-like sequences at the API: edit, undo, save (no bump between edit and undo), edit — the
    invariant of Part A does not cover the middle states, `LbReach` does -/
example : ∃ lb1 lb2, Lbuf.edit Lbuf.make (some [97, 10]) 0 0 = some lb1 ∧ Lbuf.undo lb1 = some (0, lb2) ∧
    LbReach (modified (savedCore lb2 false)).2 (some []) ∧ (modified (modified (savedCore lb2 false)).2).1 = false := by
  refine ⟨_, _, rfl, rfl, ?_, by decide⟩
  exact ((LbReach.make.edit (some [97, 10]) 0 0 rfl).undo (rc := 0) rfl).saved

/-- the example editor of C02 (one buffer `f`, built by edit / save / edit) satisfies the invariant -/
example : ∃ lb, C02.srun [C02.ins 97, .saved, C02.ins 98] Lbuf.make = some lb ∧ EdInv (C02.Ex.edOf lb) := by
  cases h : C02.srun [C02.ins 97, .saved, C02.ins 98] Lbuf.make with
  | none => exact absurd h (by decide)
  | some lb =>
    refine ⟨lb, rfl, ?_⟩
    unfold C02.srun at h
    simp only [Option.map_eq_some_iff] at h
    obtain ⟨⟨lb', d'⟩, hr, rfl⟩ := h
    have hre := reach_of_srunD _ _ _ LbReach.make _ _ hr
    intro i b hb
    match i, hb with
    | 0, hb =>
      have hb' : some ({ path := [102], lb := lb' } : Buf) = some b := hb
      cases hb'
      exact ⟨⟨_, hre⟩, fun h0 => absurd rfl h0⟩
    | 1, hb => have hb' : (none : Option Buf) = some b := hb; cases hb'
    | (n + 2), hb => have hb' : (none : Option Buf) = some b := hb; cases hb'

end Neatvi.Props.C02b
