import NeatviVerif.Lemmas.C16d
/-!
# C16 (the ^K / ^R arguments and the register `;`): what the two repairs bought

"… character-wise commands never split a multi-byte character: a buffer that is valid UTF-8 remains
valid UTF-8 under any command that does not itself insert raw bytes."

Two places of the line editor and of the registers used to split a character:

* the digraph key ^K and the register key ^R read their argument with `term_read()`, one byte; the
  continuation bytes of a multi-byte argument were then inserted into the line as if typed.  They now
  read it with `led_readkey()` (`readKey`):
  `readKey_consumes_whole_character` — for a lead byte `c ≥ 192` followed in the pending key stream
  (`Lemmas.C09.pending`) by the `ucLen c − 1` further bytes of its character, `readKey` returns `c` and
  the pending stream afterwards starts after the whole character; nothing but the key queue and the
  recording `icmd` changes.  `readKey_ascii`: below 192 it is `term_read()`.  `readKey_cut_short`: a
  character cut short by the end of the input is the end of the input.  `readKey_pending`: in general.
  `digraph_multibyte_nothing`: a multi-byte argument names no digraph — `readCharS 11` returns NULL for
  it, with the whole character consumed.
* the register `;` (the current line) was copied through a 1024-byte buffer and cut at 1023 bytes,
  possibly inside a character.  `line_register_whole`: `regGet ed 59` is the current line without its
  newline, whatever its length — hence valid UTF-8 when the line is.
-/
namespace Neatvi.Props.C16d
open Neatvi Neatvi.Uc Neatvi.Vi Neatvi.Ex Neatvi.Spec Neatvi.Lemmas.C09 Neatvi.Lemmas.C16d
open Neatvi.Props.C16b

/-! ## `led_readkey()` -/

/-- **`led_readkey()` reads the whole character.**  The pending key stream starts with a lead byte
`c ≥ 192` and the `ucLen c − 1` further bytes `conts` of its character; then `readKey` returns `c`, what
is pending afterwards is what followed the character, the queue invariant holds, every key read went to
the recording `icmd` (below its limit), and nothing else of the state changed. -/
theorem readKey_consumes_whole_character (s : VS) (c : Nat) (conts rest : Bytes) (hc : 192 ≤ c)
    (hl : conts.length = ucLen c - 1) (h : pending s = c :: (conts ++ rest)) :
    ∃ s', readKey s = Res.ok (c : Int) s' ∧ pending s' = rest ∧ QWf s' ∧
      s'.icmd = (c :: conts).foldl icmdAfter s.icmd ∧
      { s' with ibuf := s.ibuf, ibufPos := s.ibufPos, typed := s.typed, icmd := s.icmd } = s :=
  readKey_lead s c conts rest hc hl h

/-- below 192 (ASCII, or a stray continuation byte) `led_readkey()` is `term_read()` -/
theorem readKey_ascii (s : VS) (k : Nat) (rest : Bytes) (hk : k < 192) (h : pending s = k :: rest) :
    readKey s = termRead s :=
  readKey_single s k rest hk h

/-- a character cut short by the end of the input: the end of the input -/
theorem readKey_cut_short (s : VS) (c : Nat) (rest : Bytes) (hc : 192 ≤ c)
    (hl : rest.length < ucLen c - 1) (h : pending s = c :: rest) : readKey s = Res.eof :=
  readKey_lead_short s c rest hc hl h

/-- in general: the key returned is the head of the pending stream, and what is pending afterwards is
what was pending behind it less the `ucLen k − 1` bytes of the rest of the character -/
theorem readKey_pending (s s' : VS) (c : Int) (h : readKey s = Res.ok c s') :
    ∃ k rest, pending s = k :: rest ∧ c = (k : Int) ∧
      pending s' = rest.drop (if 192 ≤ k then ucLen k - 1 else 0) ∧
      (if 192 ≤ k then ucLen k - 1 else 0) ≤ rest.length :=
  readKey_key s s' c h

/-- the queue invariant, the bounds of the two buffers of term.c, never a trap -/
theorem readKey_qwf (s s' : VS) (c : Int) (h : readKey s = Res.ok c s') : QWf s' := qwf_readKey s s' c h
theorem readKey_icmd_bounded (s s' : VS) (c : Int) (h : readKey s = Res.ok c s')
    (hb : s.icmd.length ≤ 4096) : s'.icmd.length ≤ 4096 := icmd_bounded_readKey s s' c h hb
theorem readKey_ibuf_bounded (s s' : VS) (c : Int) (h : readKey s = Res.ok c s')
    (hb : s.ibuf.length ≤ 4096) : s'.ibuf.length ≤ 4096 := ibuf_bounded_readKey s s' c h hb
theorem readKey_never_traps (s : VS) : readKey s ≠ Res.trap := readKey_ne_trap s

/-- `i ^K 中 ESC`: the argument `中` (E4 B8 AD) of ^K is read as one key; the ESC is what is pending
next (before the repair: B8 AD ESC, and AD went into the line) -/
example : ∃ s', readKey { ed := {}, typed := [0xe4, 0xb8, 0xad, 27] } = Res.ok 0xe4 s' ∧ pending s' = [27] := by
  obtain ⟨s', h1, h2, -⟩ := readKey_consumes_whole_character { ed := {}, typed := [0xe4, 0xb8, 0xad, 27] }
    0xe4 [0xb8, 0xad] [27] (by decide) (by decide) rfl
  exact ⟨s', h1, h2⟩

/-! ### the two callers -/

/-- no digraph starts with a byte of 128 and above -/
theorem digraphs_ascii : ∀ d ∈ Gen.digraphs, d.1.headD 0 < 128 ∧ d.1.getD 1 0 < 128 := by decide +kernel

/-- **^K with a multi-byte first argument inserts nothing**: the whole character and the second
argument are consumed, and `led_readchar` returns NULL (no digraph), so `led_line` adds nothing to the
line.  `c2` is the second argument, a single key below 192 that is not an interrupt. -/
theorem digraph_multibyte_nothing (s : VS) (kmap : Nat) (c : Nat) (conts : Bytes) (c2 : Nat) (rest : Bytes)
    (hc : 192 ≤ c) (hl : conts.length = ucLen c - 1) (h2 : c2 < 192) (hi : tkInt (c2 : Int) = false)
    (h : pending s = c :: (conts ++ c2 :: rest)) :
    ∃ s', readCharS 11 kmap s = Res.ok none s' ∧ pending s' = rest ∧ s'.ed = s.ed := by
  obtain ⟨s1, e1, p1, -, -, f1⟩ := readKey_lead s c conts (c2 :: rest) hc hl h
  obtain ⟨s2, e2, p2, -, -, f2⟩ := termRead_step s1 c2 rest p1
  have e2' : readKey s1 = Res.ok (c2 : Int) s2 := by rw [readKey_single s1 c2 rest h2 p1, e2]
  refine ⟨s2, ?_, p2, by rw [f2.ed, f1.ed]⟩
  have hint : tkInt (c : Int) = false := by
    simp only [tkInt, Bool.or_eq_false_iff, decide_eq_false_iff_not, beq_eq_false_iff_ne]
    omega
  have hne : ((c : Int) == 11) = false := by
    simp only [beq_eq_false_iff_ne]; omega
  have hfind : Gen.digraphs.find? (fun d => d.1.headD 0 == (c : Int).toNat && d.1.getD 1 0 == (c2 : Int).toNat)
      = none := by
    rw [List.find?_eq_none]
    intro d hd
    have := (digraphs_ascii d hd).1
    simp only [Int.toNat_natCast, Bool.and_eq_true, beq_iff_eq, not_and]
    intro h'; omega
  unfold readCharS
  simp only [show ((11 : Int) == 22) = false from rfl, Bool.false_eq_true, if_false,
    show ((11 : Int) == 11) = true from rfl, if_true]
  rw [bind_apply, e1]
  simp only [hint, hne, Bool.false_eq_true, if_false]
  rw [bind_apply, e2']
  simp only [hi, Bool.false_eq_true, if_false, hfind, Option.map_none]
  rfl

/-! ## the register `;` -/

/-- **the register `;` is the whole current line without its newline** — no limit on its length —
**hence valid UTF-8 when the line is.** -/
theorem line_register_whole (ed : Ed) (ln : Bytes) (h : ed.line ed.xrow = some ln) :
    regGet ed 59 = some (ln.takeWhile (· != 10)) ∧
    (∀ t, (∀ b ∈ t, b ≠ 10) → ln = t ++ [10] → regGet ed 59 = some t) ∧
    (IsU8 ln → IsU8 (ln.takeWhile (· != 10))) := by
  have h0 : regGet ed 59 = some (ln.takeWhile (· != 10)) := by rw [regGet_line, h]; rfl
  refine ⟨h0, ?_, isU8_takeWhile_nl⟩
  intro t ht e
  rw [h0, e, takeWhile_append_of_all _ _ _ (fun x hx => by simpa using ht x hx)]
  simp

/-- the form used by `:pu ;` and ^R; : what the register gives is valid UTF-8 -/
theorem line_register_valid (ed : Ed) (ln : Bytes) (h : ed.line ed.xrow = some ln) (hv : IsU8 ln) :
    ∃ r, regGet ed 59 = some r ∧ IsU8 r :=
  ⟨_, (line_register_whole ed ln h).1, (line_register_whole ed ln h).2.2 hv⟩

/-- no cut at 1023 bytes: a line of `n` bytes and its newline gives all `n` bytes -/
theorem line_register_length (ed : Ed) (t : Bytes) (ht : ∀ b ∈ t, b ≠ 10) (h : ed.line ed.xrow = some (t ++ [10])) :
    ((regGet ed 59).getD []).length = t.length := by
  rw [(line_register_whole ed _ h).2.1 t ht rfl]
  rfl

end Neatvi.Props.C16d
