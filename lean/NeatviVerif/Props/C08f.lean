import NeatviVerif.Lemmas.C08fWord
import NeatviVerif.Lemmas.C08fCol
import NeatviVerif.Lemmas.C09Cmd
import NeatviVerif.Props.C08b
import NeatviVerif.Props.C07c
/-!
# C08f: operator + motion, end to end

C08 proves what the operator *functions* (`vi_delete`, `vi_yank`, …) do to a given region, and that
`vc_motion` normalises the region it hands them; C07c proves that the scanners land where the reference
motions say.  Here the pieces are composed: typing an operator followed by a motion deletes / yanks
exactly the reference span.

* §1 `vcMotion_unfold` (`vcMotion_unfold_prog`): `vc_motion` = count prefix, `readMotion`, `opRegion`,
  `applyOp`; `vcMotion_no_motion`: an absent or failed motion leaves the text alone;
* §2 line-wise operators: `line_delete` / `line_yank` for every line-motion key (`lnTarget`, `lnTarget_table`),
  and by name `dd_spec d_underscore_spec dj_spec d_plus_spec d_return_spec dk_spec d_minus_spec dG_spec`,
  `yy_spec yj_spec yk_spec`; `line_registers`: the unnamed register and `"1`..`"9`;
* §3 character-wise operators on one row: `row_delete` / `row_yank` for every motion that lands on the row
  (the reference `span`), and by name `x_spec X_spec D_spec d0_spec` (`y_spc_spec y_dollar_spec y0_spec`),
  `de_spec` / `de_spec_fwd`, `dw_spec` (`ye_spec yw_spec`), `dfc_spec dtc_spec`, `dl_spec dh_spec`;
* §4 the shorthands `x X D C s S Y` of the command dispatcher (`commandTail_x` …), and `x_key_spec`: the key
  `x` from the dispatcher to the text;
* §5 concrete runs.

Counts: the theorems of §2–§3 are stated for `Prefixed s a2 k s1` — `vi_prefix` returns the second count
`a2` and the key `k` follows —, the count being `opCount s a2` (the saturated product of the counts before
and after the operator).  `prefixed_none`: no second count (the key is not a digit); `prefixed_digit`: a
one-digit count (`d3j`); `prefixed_of_viPrefix` / `viPrefix_spec`: whatever `vi_prefix` read, the count is
not negative, only the key queues moved, and a key follows.

Not covered: motions that leave the row character-wise (`dw` onto the next line, `d/`, `d}` …), the cursor
on an empty line, `c` with these motions (C08b/C08e have `vi_change` on a given region).

Where a key comes from is abstracted as `viRead s = Res.ok k s1`: the push-back stack (`viRead_vibuf`,
as for `x` = SPC pushed back) or the terminal queue (`viRead_pending`).
-/
set_option linter.unusedSimpArgs false
set_option linter.unusedVariables false

namespace Neatvi.Props.C08f
open Neatvi Neatvi.Uc Neatvi.Vi Neatvi.Ex Neatvi.Lbuf Neatvi.Mot Neatvi.Spec
open Neatvi.Lemmas.C08 Neatvi.Lemmas.C08b Neatvi.Lemmas.C08f
open Neatvi.Lemmas.C09 (finRec pending)
open Neatvi.Props.C07c (Utf8Buf refBufU)

export Neatvi.Lemmas.C08f (applyOp inclusive opRegion readMotion vcCore lnTarget isLnKey rowsText KeyFrame
  viRead_vibuf viRead_pending viRead_frame span)

/-! ## 1. `vc_motion`, stage by stage -/

/-- what `applyOp` says: the dispatch of `vc_motion` on the operator letter -/
theorem applyOp_eq (cmd : Nat) (r1 o1 r2 o2 : Int) (lnmode : Bool) :
    applyOp cmd r1 o1 r2 o2 lnmode =
      if cmd == 121 then viYank r1 o1 r2 o2 lnmode
      else if cmd == 100 then viDelete r1 o1 r2 o2 lnmode
      else if cmd == 99 then viChange r1 o1 r2 o2 lnmode
      else if cmd == 126 || cmd == 117 || cmd == 85 then viCase r1 o1 r2 o2 lnmode cmd
      else if cmd == 62 || cmd == 60 then viShift r1 r2 (if cmd == 62 then 1 else -1)
      else if cmd == 33 then (do let _ ← viPrompt; unmodelled; pure VC_WIN)
      else pure 0 := rfl

/-- what `opRegion` says: `normRegion` (C08: `vcMotion_normalises_full`), then the end of an inclusive
motion is moved one character on unless it is the end of its line -/
theorem opRegion_eq (s : VS) (mv r1 o1 r2 o2 : Int) :
    opRegion s mv r1 o1 r2 o2 =
      let lnmode : Bool := o2 < 0
      let n := normRegion s lnmode r1 o1 r2 o2
      (n.1, n.2.1, n.2.2.1,
        (if !lnmode && inclusive s mv && n.2.2.2 < eol (lines s) n.2.2.1 then noeol s n.2.2.1 n.2.2.2 + 1 else n.2.2.2),
        lnmode) := rfl

/-- what `readMotion` says: the line motion first (`vi_motionln`, with the operator letter as the
"doubled" key), else `vi_motion`; when that finds no motion either, the key is dropped -/
theorem readMotion_eq (cmd : Nat) (r1 o1 : Int) :
    readMotion cmd r1 o1 = (do
      let (mvl, r2l) ← viMotionln r1 cmd
      if mvl != 0 then pure (some (mvl, r2l, (-1 : Int))) else do
        let (mv, r2, o2) ← viMotion r1 o1
        if mv == 0 then do
          let _ ← viRead
          pure none
        else pure (some (mv, r2, o2))) := rfl

/-- **S1, `vcMotion_unfold`.**  `vc_motion(cmd)` on the state `s`: read the second count (`vi_prefix`,
stored in `arg2`); read the motion from the cursor `(xrow, ren_noeol(xoff))`; if there is none (`none`) or
it fails (`mv < 0`) return 0 — the text is then unchanged, `vcMotion_no_motion` —; otherwise hand the
region `opRegion` to the operator `applyOp cmd`. -/
theorem vcMotion_unfold (cmd : Nat) (s : VS) : vcMotion cmd s =
    match viPrefix s with
    | Res.ok a2 sp =>
      if a2 < 0 then Res.ok 0 { sp with arg2 := a2 }
      else
        match readMotion cmd s.ed.xrow (noeol s s.ed.xrow s.ed.xoff) { sp with arg2 := a2 } with
        | Res.ok none sm => Res.ok 0 sm
        | Res.ok (some (mv, r2, o2)) sm =>
          if mv < 0 then Res.ok 0 sm
          else
            let g := opRegion sm mv s.ed.xrow (noeol s s.ed.xrow s.ed.xoff) r2 o2
            applyOp cmd g.1 g.2.1 g.2.2.1 g.2.2.2.1 g.2.2.2.2 sm
        | Res.eof => Res.eof
        | Res.trap => Res.trap
    | Res.eof => Res.eof
    | Res.trap => Res.trap := by
  rw [vcMotion_apply]
  cases viPrefix s with
  | ok a2 sp =>
    simp only []
    split
    · rfl
    · rw [vcCore_apply]
      rfl
  | eof => rfl
  | trap => rfl

/-- the same as one equation of programs -/
theorem vcMotion_unfold_prog (cmd : Nat) : vcMotion cmd = (do
    let s0 ← get
    let a2 ← viPrefix
    modify fun s => { s with arg2 := a2 }
    if a2 < 0 then pure 0 else vcCore cmd s0.ed.xrow (noeol s0 s0.ed.xrow s0.ed.xoff)) := by
  rw [vcMotion_eq, vcMotion'_eq_core]

/-- when a failed or absent motion returns, the text is as it was (C07: motions never change the text) -/
theorem readMotion_lines (cmd : Nat) (r1 o1 : Int) (s sm : VS) (res : Option (Int × Int × Int))
    (h : readMotion cmd r1 o1 s = Res.ok res sm) : lines sm = lines s := by
  unfold readMotion at h
  simp only [bind_apply] at h
  cases h1 : viMotionln r1 cmd s with
  | ok a s1 =>
    rw [h1] at h
    obtain ⟨mvl, r2l⟩ := a
    simp only [] at h
    have e1 := (Props.C07.viMotionln_lines _ _ _ _ _ h1).1
    split at h
    · injection h with _ h; rw [← h]; exact e1
    · simp only [bind_apply] at h
      cases h2 : viMotion r1 o1 s1 with
      | ok b s2 =>
        rw [h2] at h
        obtain ⟨mv, r2, o2⟩ := b
        have e2 := (Props.C07.viMotion_lines _ _ _ _ _ h2).1
        simp only [] at h
        split at h
        · simp only [bind_apply] at h
          cases h3 : viRead s2 with
          | ok c s3 =>
            rw [h3] at h
            injection h with _ h
            have e3 := (Props.C07.viRead_lines _ _ _ h3).1
            rw [← h, e3, e2, e1]
          | eof => rw [h3] at h; cases h
          | trap => rw [h3] at h; cases h
        · injection h with _ h; rw [← h, e2, e1]
      | eof => rw [h2] at h; cases h
      | trap => rw [h2] at h; cases h
  | eof => rw [h1] at h; cases h
  | trap => rw [h1] at h; cases h

/-- a motion that is absent (`none`) or fails (`mv < 0`): `vc_motion` returns 0 and the text is unchanged -/
theorem vcMotion_no_motion (cmd : Nat) (s sp sm : VS) (a2 : Int) (res : Option (Int × Int × Int))
    (hp : viPrefix s = Res.ok a2 sp) (ha : 0 ≤ a2)
    (hr : readMotion cmd s.ed.xrow (noeol s s.ed.xrow s.ed.xoff) { sp with arg2 := a2 } = Res.ok res sm)
    (hfail : res = none ∨ ∃ mv r2 o2, res = some (mv, r2, o2) ∧ mv < 0) :
    vcMotion cmd s = Res.ok 0 sm ∧ lines sm = lines s := by
  have hl : lines sm = lines s := by
    rw [readMotion_lines _ _ _ _ _ _ hr]
    exact (Props.C07.viPrefix_lines _ _ _ hp).1
  refine ⟨?_, hl⟩
  rw [vcMotion_unfold, hp]
  simp only []
  rw [if_neg (by omega), hr]
  rcases hfail with rfl | ⟨mv, r2, o2, rfl, hmv⟩
  · rfl
  · simp only []
    rw [if_pos hmv]

/-! ## 2. line-wise operators, end to end

`s` is the state when `vc_motion` starts (the operator letter has been read, the first count is in
`arg1`).  `Prefixed s a2 k s1`: `vi_prefix` reads the second count `a2` (0: none) and the next key is `k`,
`s1` being the state after that key was read.  `opCount s a2` is the count (the product of the two,
saturated), `lnTarget` the target row `t` of the line motion `k` from the cursor row.  The operator acts
on the rows `[min r t, max r t]`. -/

/-- the state `vc_motion` works on once the second count has been read -/
def setArg2 (a2 : Int) (s : VS) : VS := { s with arg2 := a2 }

/-- the count of the command: the product of the counts given before and after the operator (each 1 when
absent), saturated — `vi_cnt()` -/
def opCount (s : VS) (a2 : Int) : Int := cntOf (setArg2 a2 s)

theorem opCount_eq (s : VS) (a2 : Int) :
    opCount s a2 = min ((if s.arg1 != 0 then s.arg1 else 1) * (if a2 != 0 then a2 else 1)) 999999999 := rfl

/-- without a second count: `arg1`, or 1 -/
theorem opCount_zero (s : VS) : opCount s 0 = min (if s.arg1 != 0 then s.arg1 else 1) 999999999 := by
  rw [opCount_eq]
  simp

theorem opCount_pos (s : VS) (a2 : Int) (h : 0 ≤ s.arg1) (h2 : 0 ≤ a2) : 1 ≤ opCount s a2 := by
  rw [opCount_eq]
  have h1 : 0 < (if s.arg1 != 0 then s.arg1 else 1) := by
    by_cases h0 : s.arg1 = 0
    · simp [h0]
    · have : (s.arg1 != 0) = true := by simpa using h0
      rw [if_pos this]; omega
  have h3 : 0 < (if a2 != 0 then a2 else 1) := by
    by_cases h0 : a2 = 0
    · simp [h0]
    · have : (a2 != 0) = true := by simpa using h0
      rw [if_pos this]; omega
  have := Int.mul_pos h1 h3
  omega

/-- `vi_prefix` returns the second count `a2` and the next key is `k` (read in `s1`) -/
def Prefixed (s : VS) (a2 k : Int) (s1 : VS) : Prop :=
  ∃ sp, viPrefix s = Res.ok a2 sp ∧ viRead sp = Res.ok k s1

/-- no second count: the next key is not a digit `1`..`9` -/
theorem prefixed_none (s s1 : VS) (k : Int) (hk : viRead s = Res.ok k s1) (hd : ¬ (49 ≤ k ∧ k ≤ 57)) :
    Prefixed s 0 k s1 :=
  ⟨_, viPrefix_nondigit s s1 k hk hd, viRead_back s1 k⟩

/-- a one-digit second count `d` followed by the key `k` (not a digit): `d3j`, `d2w` … -/
theorem prefixed_digit (s s1 s2 : VS) (d k : Int) (hd : viRead s = Res.ok d s1) (h1 : 49 ≤ d) (h2 : d ≤ 57)
    (hk : viRead s1 = Res.ok k s2) (hnd : ¬ (48 ≤ k ∧ k ≤ 57)) : Prefixed s (d - 48) k s2 :=
  ⟨_, viPrefix_digit s s1 s2 d k hd h1 h2 hk hnd, viRead_back s2 k⟩

/-- whatever `vi_prefix` read, a key follows (the one that ended the number, pushed back) -/
theorem prefixed_of_viPrefix (s sp : VS) (a2 : Int) (h : viPrefix s = Res.ok a2 sp) : ∃ k s1, Prefixed s a2 k s1 := by
  obtain ⟨_, _, k, s1, hk, _⟩ := viPrefix_spec s sp a2 h
  exact ⟨k, s1, sp, h, hk⟩

theorem Prefixed.nonneg {s s1 : VS} {a2 k : Int} (h : Prefixed s a2 k s1) : 0 ≤ a2 := by
  obtain ⟨sp, hp, hk⟩ := h
  exact (viPrefix_spec s sp a2 hp).1

/-- reading the count and the key changes the key queues (and `icmd`) only -/
theorem Prefixed.frame {s s1 : VS} {a2 k : Int} (h : Prefixed s a2 k s1) : KeyFrame s s1 := by
  obtain ⟨sp, hp, hk⟩ := h
  exact (viPrefix_spec s sp a2 hp).2.1.trans (viRead_frame sp s1 k hk)

/-- the state in which `vi_motion` reads the motion: the key pushed back by `vi_motionln` -/
def motionSt (a2 : Int) (s1 : VS) (k : Int) : VS := { setArg2 a2 s1 with vibuf := k :: s1.vibuf }

theorem viRead_motionSt (a2 : Int) (s1 : VS) (k : Int) : viRead (motionSt a2 s1 k) = Res.ok k (setArg2 a2 s1) := rfl

/-- `vc_motion` after the count prefix: `vcCore` runs from the cursor, on a state `sp'` from which the key
`k` is read next -/
theorem vcMotion_prefixed (cmd : Nat) (s s1 : VS) (a2 k : Int) (h : Prefixed s a2 k s1) :
    ∃ sp, vcMotion cmd s = vcCore cmd s.ed.xrow (noeol s s.ed.xrow s.ed.xoff) (setArg2 a2 sp) ∧
      viRead (setArg2 a2 sp) = Res.ok k (setArg2 a2 s1) ∧ KeyFrame s sp := by
  have hn := h.nonneg
  obtain ⟨sp, hp, hk⟩ := h
  refine ⟨sp, ?_, viRead_arg2 sp s1 k a2 hk, (viPrefix_spec s sp a2 hp).2.1⟩
  rw [vcMotion_apply, hp]
  simp only []
  rw [if_neg (by omega)]
  rfl

/-- `lnTarget` reads the counts, the number of lines, the window top and height only -/
theorem lnTarget_congr (s s' : VS) (row cmd k : Int) (h1 : s'.ed = s.ed) (h2 : s'.arg1 = s.arg1)
    (h3 : s'.arg2 = s.arg2) (h4 : s'.xrows = s.xrows) : lnTarget s' row cmd k = lnTarget s row cmd k := by
  have hl : lenOf s' = lenOf s := by unfold lenOf Vi.lines; rw [h1]
  have hc : cntOf s' = cntOf s := by unfold cntOf; rw [h2, h3]
  unfold lnTarget
  rw [hl, hc, h1, h2, h3, h4]

/-- the target rows, key by key: `j + RET` down `count` rows, `k -` up, `_` and the doubled operator
letter down `count - 1` rows, `G` to line `count` (the last line without a count); all clamped to the buffer -/
theorem lnTarget_table (s : VS) (row cmd : Int) :
    lnTarget s row cmd 106 = some (min (row + cntOf s) (lenOf s - 1)) ∧
    lnTarget s row cmd 43 = some (min (row + cntOf s) (lenOf s - 1)) ∧
    lnTarget s row cmd 10 = some (min (row + cntOf s) (lenOf s - 1)) ∧
    lnTarget s row cmd 107 = some (max (row - cntOf s) 0) ∧
    lnTarget s row cmd 45 = some (max (row - cntOf s) 0) ∧
    lnTarget s row cmd 95 = some (min (row + cntOf s - 1) (lenOf s - 1)) ∧
    lnTarget s row cmd 71 = some (if s.arg1 != 0 || s.arg2 != 0 then min (cntOf s - 1) (lenOf s - 1) else lenOf s - 1) ∧
    lnTarget s row 100 100 = some (min (row + cntOf s - 1) (lenOf s - 1)) ∧
    lnTarget s row 121 121 = some (min (row + cntOf s - 1) (lenOf s - 1)) ∧
    lnTarget s row 99 99 = some (min (row + cntOf s - 1) (lenOf s - 1)) :=
  ⟨rfl, rfl, rfl, rfl, rfl, rfl, rfl, rfl, rfl, rfl⟩

/-- `LineDeleted s sm s' lo hi`: from `s` the rows `lo..hi` were deleted:
they are gone from the text, the register named by the prefix received them in line mode, the cursor is
on the first non-blank of the row now at `lo` (the last row when the tail of the buffer went), and
apart from the editor record the state is `sm`, the state after the count and the key were read -/
structure LineDeleted (s sm s' : VS) (lo hi : Int) : Prop where
  lines : lines s' = (lines s).take lo.toNat ++ (lines s).drop (hi.toNat + 1)
  regs : s'.ed.regs = s.ed.regs.put s.ybuf (rowsText (Vi.lines s) lo hi) 1
  xrow : s'.ed.xrow = min lo (max 0 (lenOf s' - 1))
  xoff : s'.ed.xoff = Mot.indents (Vi.lines s') s'.ed.xrow
  frame : s' = { sm with ed := s'.ed }

/-- what `LineDeleted` says -/
theorem lineDeleted_iff (s sm s' : VS) (lo hi : Int) : LineDeleted s sm s' lo hi ↔
    lines s' = (lines s).take lo.toNat ++ (lines s).drop (hi.toNat + 1) ∧
    s'.ed.regs = s.ed.regs.put s.ybuf (((lines s).drop lo.toNat).take (hi.toNat - lo.toNat + 1)).flatten 1 ∧
    s'.ed.xrow = min lo (max 0 (lenOf s' - 1)) ∧ s'.ed.xoff = Mot.indents (lines s') s'.ed.xrow ∧
    s' = { sm with ed := s'.ed } :=
  ⟨fun h => ⟨h.lines, h.regs, h.xrow, h.xoff, h.frame⟩, fun h => ⟨h.1, h.2.1, h.2.2.1, h.2.2.2.1, h.2.2.2.2⟩⟩

/-- the number of lines left -/
theorem LineDeleted.lenOf {s sm s' : VS} {lo hi : Int} (h : LineDeleted s sm s' lo hi) (h0 : 0 ≤ lo)
    (h1 : lo ≤ hi) (h2 : hi < lenOf s) : lenOf s' = lenOf s - (hi - lo + 1) := by
  unfold Vi.lenOf at h2 ⊢
  rw [h.lines]
  simp only [List.length_append, List.length_take, List.length_drop]
  omega

/-- `vcCore` with the delete operator on a line motion -/
theorem vcCore_line_delete (s s1 : VS) (k t r1 o1 : Int) (lb : Lb) (hlb : s.ed.lb = some lb)
    (hk : viRead s = Res.ok k s1) (hkpos : 0 < k) (ht : lnTarget s r1 100 k = some t)
    (h0 : 0 ≤ r1) (h1 : r1 < lenOf s) (ht0 : 0 ≤ t) (ht1 : t < lenOf s) :
    ∃ s', vcCore 100 r1 o1 s = Res.ok VC_OK s' ∧
      lines s' = (lines s).take (min r1 t).toNat ++ (lines s).drop ((max r1 t).toNat + 1) ∧
      s'.ed.regs = s.ed.regs.put s.ybuf (rowsText (lines s) (min r1 t) (max r1 t)) 1 ∧
      s'.ed.xrow = min (min r1 t) (max 0 (lenOf s' - 1)) ∧ s'.ed.xoff = Mot.indents (lines s') s'.ed.xrow ∧
      s' = { s1 with ed := s'.ed } := by
  have hf := viRead_frame s s1 k hk
  rw [vcCore_apply, readMotion_line 100 r1 o1 s s1 k t hk ht (by omega)]
  simp only []
  rw [if_neg (by omega), if_neg (by omega)]
  obtain ⟨a, b, hop⟩ := opRegion_line s1 k r1 o1 t
  rw [hop]
  simp only []
  have hap : applyOp 100 (min r1 t) a (max r1 t) b true = viDelete (min r1 t) a (max r1 t) b true := rfl
  rw [hap]
  obtain ⟨s', e1, e2, e3, e4, e5, e6⟩ := viDelete_line_total s1 (min r1 t) a (max r1 t) b lb (by rw [hf.ed]; exact hlb)
    (by omega) (by omega) (by rw [hf.lenOf]; omega)
  rw [hf.lines] at e2
  rw [hf.lines, hf.ed, hf.ybuf] at e3
  exact ⟨s', e1, e2, e3, e4, e5, e6⟩

/-- `vcCore` with the yank operator on a line motion: the text is unchanged, the register receives the
rows, the cursor goes to the first of them (the column is kept) -/
theorem vcCore_line_yank (s s1 : VS) (k t r1 o1 : Int)
    (hk : viRead s = Res.ok k s1) (hkpos : 0 < k) (ht : lnTarget s r1 121 k = some t)
    (h0 : 0 ≤ r1) (h1 : r1 < lenOf s) (ht0 : 0 ≤ t) (ht1 : t < lenOf s) :
    vcCore 121 r1 o1 s = Res.ok VC_COL
      { s1 with ed := { s.ed with regs := s.ed.regs.put s.ybuf (rowsText (lines s) (min r1 t) (max r1 t)) 1,
                                  xrow := min r1 t } } := by
  have hf := viRead_frame s s1 k hk
  rw [vcCore_apply, readMotion_line 121 r1 o1 s s1 k t hk ht (by omega)]
  simp only []
  rw [if_neg (by omega), if_neg (by omega)]
  obtain ⟨a, b, hop⟩ := opRegion_line s1 k r1 o1 t
  rw [hop]
  simp only []
  have hap : applyOp 121 (min r1 t) a (max r1 t) b true = viYank (min r1 t) a (max r1 t) b true := rfl
  rw [hap, viYank_line_total s1 (min r1 t) a (max r1 t) b (by omega) (by omega) (by rw [hf.lenOf]; omega),
    hf.lines, hf.ed, hf.ybuf]

/-- **S2, delete with a line motion** (`dd d_ dj dk dG d+ d-` …): with `t` the target row of the motion
`k` from the cursor row `r` (`lnTarget`, `lnTarget_table`), the rows `[min r t, max r t]` are deleted -/
theorem line_delete (s s1 : VS) (a2 : Int) (k t : Int) (lb : Lb) (hlb : s.ed.lb = some lb)
    (hk : Prefixed s a2 k s1) (hkpos : 0 < k)
    (ht : lnTarget (setArg2 a2 s) s.ed.xrow 100 k = some t)
    (h0 : 0 ≤ s.ed.xrow) (h1 : s.ed.xrow < lenOf s) (ht0 : 0 ≤ t) (ht1 : t < lenOf s) :
    ∃ s', vcMotion 100 s = Res.ok VC_OK s' ∧ LineDeleted s (setArg2 a2 s1) s' (min s.ed.xrow t) (max s.ed.xrow t) := by
  obtain ⟨sp, e, hk', hf⟩ := vcMotion_prefixed 100 s s1 a2 k hk
  rw [e]
  have hlt : lnTarget (setArg2 a2 sp) s.ed.xrow 100 k = some t := by
    rw [← ht]
    exact lnTarget_congr _ _ _ _ _ hf.ed hf.arg1 rfl hf.xrows
  have hl : lines (setArg2 a2 sp) = lines s := hf.lines
  have hn : lenOf (setArg2 a2 sp) = lenOf s := hf.lenOf
  obtain ⟨s', e1, e2, e3, e4, e5, e6⟩ := vcCore_line_delete (setArg2 a2 sp) (setArg2 a2 s1) k t
    s.ed.xrow (noeol s s.ed.xrow s.ed.xoff) lb (by show sp.ed.lb = some lb; rw [hf.ed]; exact hlb) hk' hkpos hlt h0
    (by rw [hn]; exact h1) ht0 (by rw [hn]; exact ht1)
  refine ⟨s', e1, ?_, ?_, e4, e5, e6⟩
  · rw [e2, hl]
  · rw [e3, hl]
    show sp.ed.regs.put sp.ybuf _ 1 = _
    rw [hf.ed, hf.ybuf]

/-- **S2, yank with a line motion** (`yy Y yj yk yG` …): the text is unchanged, the register receives the
rows `[min r t, max r t]` in line mode, the cursor goes to the first of them and keeps its column -/
theorem line_yank (s s1 : VS) (a2 : Int) (k t : Int)
    (hk : Prefixed s a2 k s1) (hkpos : 0 < k)
    (ht : lnTarget (setArg2 a2 s) s.ed.xrow 121 k = some t)
    (h0 : 0 ≤ s.ed.xrow) (h1 : s.ed.xrow < lenOf s) (ht0 : 0 ≤ t) (ht1 : t < lenOf s) :
    vcMotion 121 s = Res.ok VC_COL
      { setArg2 a2 s1 with ed := { s.ed with
          regs := s.ed.regs.put s.ybuf (rowsText (lines s) (min s.ed.xrow t) (max s.ed.xrow t)) 1,
          xrow := min s.ed.xrow t } } := by
  obtain ⟨sp, e, hk', hf⟩ := vcMotion_prefixed 121 s s1 a2 k hk
  rw [e]
  have hlt : lnTarget (setArg2 a2 sp) s.ed.xrow 121 k = some t := by
    rw [← ht]
    exact lnTarget_congr _ _ _ _ _ hf.ed hf.arg1 rfl hf.xrows
  have hl : lines (setArg2 a2 sp) = lines s := hf.lines
  have hn : lenOf (setArg2 a2 sp) = lenOf s := hf.lenOf
  rw [vcCore_line_yank (setArg2 a2 sp) (setArg2 a2 s1) k t
    s.ed.xrow (noeol s s.ed.xrow s.ed.xoff) hk' hkpos hlt h0 (by rw [hn]; exact h1) ht0 (by rw [hn]; exact ht1), hl]
  show Res.ok VC_COL { setArg2 a2 s1 with ed := { sp.ed with regs := sp.ed.regs.put sp.ybuf _ 1, xrow := _ } } = _
  rw [hf.ed, hf.ybuf]

/-- … so the text, and everything but the register, the cursor row and the key queue, is as before -/
theorem line_yank_lines (s s1 s' : VS) (a2 : Int) (k t : Int) (a : Nat)
    (hk : Prefixed s a2 k s1) (hkpos : 0 < k)
    (ht : lnTarget (setArg2 a2 s) s.ed.xrow 121 k = some t)
    (h0 : 0 ≤ s.ed.xrow) (h1 : s.ed.xrow < lenOf s) (ht0 : 0 ≤ t) (ht1 : t < lenOf s)
    (h : vcMotion 121 s = Res.ok a s') :
    lines s' = lines s ∧ s'.ed.xoff = s.ed.xoff ∧ s'.ed.xrow = min s.ed.xrow t ∧
      s'.ed.regs = s.ed.regs.put s.ybuf (rowsText (lines s) (min s.ed.xrow t) (max s.ed.xrow t)) 1 := by
  rw [line_yank s s1 a2 k t hk hkpos ht h0 h1 ht0 ht1] at h
  injection h with _ h
  subst h
  exact ⟨rfl, rfl, rfl, rfl⟩

/-- the registers after a line-wise delete or yank without a register prefix (`ybuf = 0`): the unnamed
register and `"1` hold the rows in line mode, and `"1`..`"8` moved on to `"2`..`"9` -/
theorem line_registers (r : Regs) (txt : Bytes) (h : RegsWf r) :
    (r.put 0 txt 1).getRaw 0 = (some txt, 1) ∧ (r.put 0 txt 1).getRaw 49 = (some txt, 1) ∧
    ∀ d, 50 ≤ d → d ≤ 57 → (r.put 0 txt 1).getRaw d =
      match r.getRaw (d - 1) with
      | (some x, l) => (some x, l)
      | (none, _) => r.getRaw d := by
  have hs : shifts (regTarget 0) txt 1 = true := by
    rw [Props.C08.shifts_iff]; exact ⟨Or.inl (by omega), Or.inl rfl⟩
  obtain ⟨a, b⟩ := Props.C08.put_shifts_numbered r 0 txt 1 h (by omega) hs
  exact ⟨Props.C08.put_stores_self r 0 txt 1 h (by omega) (by decide) (by omega), a, b⟩

/-! ### the commands by name

`r = s.ed.xrow` the cursor row, `n = lenOf s` the number of lines (`0 ≤ r < n`), `c = opCount s a2` the count. -/

/-- **`dd`** (`[count]dd`): the rows `r .. min (r + c - 1) (n - 1)` are deleted -/
theorem dd_spec (s s1 : VS) (a2 : Int) (lb : Lb) (hlb : s.ed.lb = some lb) (hk : Prefixed s a2 100 s1) (ha : 0 ≤ s.arg1)
    (h0 : 0 ≤ s.ed.xrow) (h1 : s.ed.xrow < lenOf s) :
    ∃ s', vcMotion 100 s = Res.ok VC_OK s' ∧
      LineDeleted s (setArg2 a2 s1) s' s.ed.xrow (min (s.ed.xrow + opCount s a2 - 1) (lenOf s - 1)) := by
  have hc := opCount_pos s a2 ha hk.nonneg
  obtain ⟨s', e, h⟩ := line_delete s s1 a2 100 (min (s.ed.xrow + opCount s a2 - 1) (lenOf s - 1)) lb hlb hk (by decide)
    rfl h0 h1 (by omega) (by omega)
  rw [show min s.ed.xrow (min (s.ed.xrow + opCount s a2 - 1) (lenOf s - 1)) = s.ed.xrow by omega,
    show max s.ed.xrow (min (s.ed.xrow + opCount s a2 - 1) (lenOf s - 1)) = min (s.ed.xrow + opCount s a2 - 1) (lenOf s - 1) by omega] at h
  exact ⟨s', e, h⟩

/-- **`d_`**: as `dd` -/
theorem d_underscore_spec (s s1 : VS) (a2 : Int) (lb : Lb) (hlb : s.ed.lb = some lb) (hk : Prefixed s a2 95 s1) (ha : 0 ≤ s.arg1)
    (h0 : 0 ≤ s.ed.xrow) (h1 : s.ed.xrow < lenOf s) :
    ∃ s', vcMotion 100 s = Res.ok VC_OK s' ∧
      LineDeleted s (setArg2 a2 s1) s' s.ed.xrow (min (s.ed.xrow + opCount s a2 - 1) (lenOf s - 1)) := by
  have hc := opCount_pos s a2 ha hk.nonneg
  obtain ⟨s', e, h⟩ := line_delete s s1 a2 95 (min (s.ed.xrow + opCount s a2 - 1) (lenOf s - 1)) lb hlb hk (by decide)
    rfl h0 h1 (by omega) (by omega)
  rw [show min s.ed.xrow (min (s.ed.xrow + opCount s a2 - 1) (lenOf s - 1)) = s.ed.xrow by omega,
    show max s.ed.xrow (min (s.ed.xrow + opCount s a2 - 1) (lenOf s - 1)) = min (s.ed.xrow + opCount s a2 - 1) (lenOf s - 1) by omega] at h
  exact ⟨s', e, h⟩

/-- **`dj`**: the rows `r .. min (r + c) (n - 1)` are deleted (on the last line: that line alone) -/
theorem dj_spec (s s1 : VS) (a2 : Int) (lb : Lb) (hlb : s.ed.lb = some lb) (hk : Prefixed s a2 106 s1) (ha : 0 ≤ s.arg1)
    (h0 : 0 ≤ s.ed.xrow) (h1 : s.ed.xrow < lenOf s) :
    ∃ s', vcMotion 100 s = Res.ok VC_OK s' ∧
      LineDeleted s (setArg2 a2 s1) s' s.ed.xrow (min (s.ed.xrow + opCount s a2) (lenOf s - 1)) := by
  have hc := opCount_pos s a2 ha hk.nonneg
  obtain ⟨s', e, h⟩ := line_delete s s1 a2 106 (min (s.ed.xrow + opCount s a2) (lenOf s - 1)) lb hlb hk (by decide)
    rfl h0 h1 (by omega) (by omega)
  rw [show min s.ed.xrow (min (s.ed.xrow + opCount s a2) (lenOf s - 1)) = s.ed.xrow by omega,
    show max s.ed.xrow (min (s.ed.xrow + opCount s a2) (lenOf s - 1)) = min (s.ed.xrow + opCount s a2) (lenOf s - 1) by omega] at h
  exact ⟨s', e, h⟩

/-- **`d+`**: as `dj` -/
theorem d_plus_spec (s s1 : VS) (a2 : Int) (lb : Lb) (hlb : s.ed.lb = some lb) (hk : Prefixed s a2 43 s1) (ha : 0 ≤ s.arg1)
    (h0 : 0 ≤ s.ed.xrow) (h1 : s.ed.xrow < lenOf s) :
    ∃ s', vcMotion 100 s = Res.ok VC_OK s' ∧
      LineDeleted s (setArg2 a2 s1) s' s.ed.xrow (min (s.ed.xrow + opCount s a2) (lenOf s - 1)) := by
  have hc := opCount_pos s a2 ha hk.nonneg
  obtain ⟨s', e, h⟩ := line_delete s s1 a2 43 (min (s.ed.xrow + opCount s a2) (lenOf s - 1)) lb hlb hk (by decide)
    rfl h0 h1 (by omega) (by omega)
  rw [show min s.ed.xrow (min (s.ed.xrow + opCount s a2) (lenOf s - 1)) = s.ed.xrow by omega,
    show max s.ed.xrow (min (s.ed.xrow + opCount s a2) (lenOf s - 1)) = min (s.ed.xrow + opCount s a2) (lenOf s - 1) by omega] at h
  exact ⟨s', e, h⟩

/-- **`d RET`**: as `dj` -/
theorem d_return_spec (s s1 : VS) (a2 : Int) (lb : Lb) (hlb : s.ed.lb = some lb) (hk : Prefixed s a2 10 s1) (ha : 0 ≤ s.arg1)
    (h0 : 0 ≤ s.ed.xrow) (h1 : s.ed.xrow < lenOf s) :
    ∃ s', vcMotion 100 s = Res.ok VC_OK s' ∧
      LineDeleted s (setArg2 a2 s1) s' s.ed.xrow (min (s.ed.xrow + opCount s a2) (lenOf s - 1)) := by
  have hc := opCount_pos s a2 ha hk.nonneg
  obtain ⟨s', e, h⟩ := line_delete s s1 a2 10 (min (s.ed.xrow + opCount s a2) (lenOf s - 1)) lb hlb hk (by decide)
    rfl h0 h1 (by omega) (by omega)
  rw [show min s.ed.xrow (min (s.ed.xrow + opCount s a2) (lenOf s - 1)) = s.ed.xrow by omega,
    show max s.ed.xrow (min (s.ed.xrow + opCount s a2) (lenOf s - 1)) = min (s.ed.xrow + opCount s a2) (lenOf s - 1) by omega] at h
  exact ⟨s', e, h⟩

/-- **`dk`**: the rows `max (r - c) 0 .. r` are deleted -/
theorem dk_spec (s s1 : VS) (a2 : Int) (lb : Lb) (hlb : s.ed.lb = some lb) (hk : Prefixed s a2 107 s1) (ha : 0 ≤ s.arg1)
    (h0 : 0 ≤ s.ed.xrow) (h1 : s.ed.xrow < lenOf s) :
    ∃ s', vcMotion 100 s = Res.ok VC_OK s' ∧
      LineDeleted s (setArg2 a2 s1) s' (max (s.ed.xrow - opCount s a2) 0) s.ed.xrow := by
  have hc := opCount_pos s a2 ha hk.nonneg
  obtain ⟨s', e, h⟩ := line_delete s s1 a2 107 (max (s.ed.xrow - opCount s a2) 0) lb hlb hk (by decide)
    rfl h0 h1 (by omega) (by omega)
  rw [show min s.ed.xrow (max (s.ed.xrow - opCount s a2) 0) = max (s.ed.xrow - opCount s a2) 0 by omega,
    show max s.ed.xrow (max (s.ed.xrow - opCount s a2) 0) = s.ed.xrow by omega] at h
  exact ⟨s', e, h⟩

/-- **`d-`**: as `dk` -/
theorem d_minus_spec (s s1 : VS) (a2 : Int) (lb : Lb) (hlb : s.ed.lb = some lb) (hk : Prefixed s a2 45 s1) (ha : 0 ≤ s.arg1)
    (h0 : 0 ≤ s.ed.xrow) (h1 : s.ed.xrow < lenOf s) :
    ∃ s', vcMotion 100 s = Res.ok VC_OK s' ∧
      LineDeleted s (setArg2 a2 s1) s' (max (s.ed.xrow - opCount s a2) 0) s.ed.xrow := by
  have hc := opCount_pos s a2 ha hk.nonneg
  obtain ⟨s', e, h⟩ := line_delete s s1 a2 45 (max (s.ed.xrow - opCount s a2) 0) lb hlb hk (by decide)
    rfl h0 h1 (by omega) (by omega)
  rw [show min s.ed.xrow (max (s.ed.xrow - opCount s a2) 0) = max (s.ed.xrow - opCount s a2) 0 by omega,
    show max s.ed.xrow (max (s.ed.xrow - opCount s a2) 0) = s.ed.xrow by omega] at h
  exact ⟨s', e, h⟩

/-- **`dG`**: with a count (before or after the `d`) the rows between the cursor row and line `c` (row
`min (c - 1) (n - 1)`), without a count the rows from the cursor row to the end of the buffer -/
theorem dG_spec (s s1 : VS) (a2 : Int) (lb : Lb) (hlb : s.ed.lb = some lb) (hk : Prefixed s a2 71 s1) (ha : 0 ≤ s.arg1)
    (h0 : 0 ≤ s.ed.xrow) (h1 : s.ed.xrow < lenOf s) :
    (s.arg1 ≠ 0 ∨ a2 ≠ 0 → ∃ s', vcMotion 100 s = Res.ok VC_OK s' ∧
      LineDeleted s (setArg2 a2 s1) s' (min s.ed.xrow (min (opCount s a2 - 1) (lenOf s - 1)))
        (max s.ed.xrow (min (opCount s a2 - 1) (lenOf s - 1)))) ∧
    (s.arg1 = 0 ∧ a2 = 0 → ∃ s', vcMotion 100 s = Res.ok VC_OK s' ∧
      LineDeleted s (setArg2 a2 s1) s' s.ed.xrow (lenOf s - 1)) := by
  have hc := opCount_pos s a2 ha hk.nonneg
  constructor
  · intro hne
    have ht : lnTarget (setArg2 a2 s) s.ed.xrow 100 71 = some (min (opCount s a2 - 1) (lenOf s - 1)) := by
      have := (lnTarget_table (setArg2 a2 s) s.ed.xrow 100).2.2.2.2.2.2.1
      rw [this]
      have : ((setArg2 a2 s).arg1 != 0 || (setArg2 a2 s).arg2 != 0) = true := by
        show (s.arg1 != 0 || a2 != 0) = true
        simpa using hne
      rw [if_pos this]; rfl
    exact line_delete s s1 a2 71 _ lb hlb hk (by decide) ht h0 h1 (by omega) (by omega)
  · intro he
    have ht : lnTarget (setArg2 a2 s) s.ed.xrow 100 71 = some (lenOf s - 1) := by
      have := (lnTarget_table (setArg2 a2 s) s.ed.xrow 100).2.2.2.2.2.2.1
      rw [this]
      have : ¬ ((setArg2 a2 s).arg1 != 0 || (setArg2 a2 s).arg2 != 0) = true := by
        show ¬ (s.arg1 != 0 || a2 != 0) = true
        simp [he.1, he.2]
      rw [if_neg this]; rfl
    obtain ⟨s', e, h⟩ := line_delete s s1 a2 71 _ lb hlb hk (by decide) ht h0 h1 (by omega) (by omega)
    rw [show min s.ed.xrow (lenOf s - 1) = s.ed.xrow by omega,
      show max s.ed.xrow (lenOf s - 1) = lenOf s - 1 by omega] at h
    exact ⟨s', e, h⟩

/-- the state a line-wise yank of the rows `lo..hi` leaves -/
def yankedRows (s sm : VS) (lo hi : Int) : VS :=
  { sm with ed := { s.ed with regs := s.ed.regs.put s.ybuf (rowsText (lines s) lo hi) 1, xrow := lo } }

theorem yankedRows_spec (s sm : VS) (lo hi : Int) :
    lines (yankedRows s sm lo hi) = lines s ∧
    (yankedRows s sm lo hi).ed.regs =
      s.ed.regs.put s.ybuf (((lines s).drop lo.toNat).take (hi.toNat - lo.toNat + 1)).flatten 1 ∧
    (yankedRows s sm lo hi).ed.xrow = lo ∧ (yankedRows s sm lo hi).ed.xoff = s.ed.xoff ∧
    yankedRows s sm lo hi = { sm with ed := (yankedRows s sm lo hi).ed } := ⟨rfl, rfl, rfl, rfl, rfl⟩

/-- **`yy`** (`[count]yy`; `Y` is `yy`, §4): the rows `r .. min (r + c - 1) (n - 1)` go to the register, the
text is unchanged -/
theorem yy_spec (s s1 : VS) (a2 : Int) (hk : Prefixed s a2 121 s1) (ha : 0 ≤ s.arg1)
    (h0 : 0 ≤ s.ed.xrow) (h1 : s.ed.xrow < lenOf s) :
    vcMotion 121 s = Res.ok VC_COL (yankedRows s (setArg2 a2 s1) s.ed.xrow (min (s.ed.xrow + opCount s a2 - 1) (lenOf s - 1))) := by
  have hc := opCount_pos s a2 ha hk.nonneg
  rw [line_yank s s1 a2 121 (min (s.ed.xrow + opCount s a2 - 1) (lenOf s - 1)) hk (by decide)
    rfl h0 h1 (by omega) (by omega)]
  rw [show min s.ed.xrow (min (s.ed.xrow + opCount s a2 - 1) (lenOf s - 1)) = s.ed.xrow by omega,
    show max s.ed.xrow (min (s.ed.xrow + opCount s a2 - 1) (lenOf s - 1)) = min (s.ed.xrow + opCount s a2 - 1) (lenOf s - 1) by omega]
  rfl

/-- **`yj`**: the rows `r .. min (r + c) (n - 1)` -/
theorem yj_spec (s s1 : VS) (a2 : Int) (hk : Prefixed s a2 106 s1) (ha : 0 ≤ s.arg1)
    (h0 : 0 ≤ s.ed.xrow) (h1 : s.ed.xrow < lenOf s) :
    vcMotion 121 s = Res.ok VC_COL (yankedRows s (setArg2 a2 s1) s.ed.xrow (min (s.ed.xrow + opCount s a2) (lenOf s - 1))) := by
  have hc := opCount_pos s a2 ha hk.nonneg
  rw [line_yank s s1 a2 106 (min (s.ed.xrow + opCount s a2) (lenOf s - 1)) hk (by decide)
    rfl h0 h1 (by omega) (by omega)]
  rw [show min s.ed.xrow (min (s.ed.xrow + opCount s a2) (lenOf s - 1)) = s.ed.xrow by omega,
    show max s.ed.xrow (min (s.ed.xrow + opCount s a2) (lenOf s - 1)) = min (s.ed.xrow + opCount s a2) (lenOf s - 1) by omega]
  rfl

/-- **`yk`**: the rows `max (r - c) 0 .. r`; the cursor moves up to the first of them -/
theorem yk_spec (s s1 : VS) (a2 : Int) (hk : Prefixed s a2 107 s1) (ha : 0 ≤ s.arg1)
    (h0 : 0 ≤ s.ed.xrow) (h1 : s.ed.xrow < lenOf s) :
    vcMotion 121 s = Res.ok VC_COL (yankedRows s (setArg2 a2 s1) (max (s.ed.xrow - opCount s a2) 0) s.ed.xrow) := by
  have hc := opCount_pos s a2 ha hk.nonneg
  rw [line_yank s s1 a2 107 (max (s.ed.xrow - opCount s a2) 0) hk (by decide)
    rfl h0 h1 (by omega) (by omega)]
  rw [show min s.ed.xrow (max (s.ed.xrow - opCount s a2) 0) = max (s.ed.xrow - opCount s a2) 0 by omega,
    show max s.ed.xrow (max (s.ed.xrow - opCount s a2) 0) = s.ed.xrow by omega]
  rfl

/-! ## 3. character-wise operators on one row, end to end

The cursor is on character `o` of the row `r = s.ed.xrow`, whose line is `encStr (body ++ [10])` (valid code
points, `o < |body|`).  The motion lands on the same row at character offset `t ≤ |body|`.  The
affected characters are the reference span `[a, b) = span incl o t |body|`: `[min o t, max o t)` for an
exclusive motion, one character more for an inclusive one. -/

/-- `RowDeleted s sm s' r body a b`: the characters `[a, b)` of the row `r` (line `body`) were deleted:
the line is `body.take a ++ body.drop b`, the register named by the prefix received `body[a, b)` in
character mode, the cursor is on `(r, a)` (the window fix of `vi()` then clamps it to the new line), and
apart from the editor record the state is `sm`, the state after the motion -/
structure RowDeleted (s sm s' : VS) (r : Int) (body : List Nat) (a b : Nat) : Prop where
  lines : lines s' = (lines s).take r.toNat ++ [encStr (body.take a ++ body.drop b ++ [10])] ++ (lines s).drop (r.toNat + 1)
  regs : s'.ed.regs = s.ed.regs.put s.ybuf (encStr ((body.take b).drop a)) 0
  xrow : s'.ed.xrow = r
  xoff : s'.ed.xoff = a
  frame : s' = { sm with ed := s'.ed }

/-- what `RowDeleted` says -/
theorem rowDeleted_iff (s sm s' : VS) (r : Int) (body : List Nat) (a b : Nat) : RowDeleted s sm s' r body a b ↔
    lines s' = (lines s).take r.toNat ++ [encStr (body.take a ++ body.drop b ++ [10])] ++ (lines s).drop (r.toNat + 1) ∧
    s'.ed.regs = s.ed.regs.put s.ybuf (encStr ((body.take b).drop a)) 0 ∧
    s'.ed.xrow = r ∧ s'.ed.xoff = a ∧ s' = { sm with ed := s'.ed } :=
  ⟨fun h => ⟨h.lines, h.regs, h.xrow, h.xoff, h.frame⟩, fun h => ⟨h.1, h.2.1, h.2.2.1, h.2.2.2.1, h.2.2.2.2⟩⟩

/-- the hypotheses on the row under the cursor -/
structure OnRow (s : VS) (body : List Nat) (o : Nat) : Prop where
  row0 : 0 ≤ s.ed.xrow
  line : (lines s)[s.ed.xrow.toNat]? = some (encStr (body ++ [10]))
  valid : ∀ c ∈ body, ValidCp c
  no10 : 10 ∉ body
  off : s.ed.xoff = (o : Int)
  onChar : o < body.length

theorem OnRow.lb {s : VS} {body : List Nat} {o : Nat} (h : OnRow s body o) : ∃ lb : Lb, s.ed.lb = some lb :=
  lb_of_line s _ _ h.line

theorem OnRow.noeol {s : VS} {body : List Nat} {o : Nat} (h : OnRow s body o) :
    noeol s s.ed.xrow s.ed.xoff = (o : Int) := by
  rw [h.off]; exact noeol_line s _ body o h.row0 h.valid h.no10 h.line h.onChar

/-- `vcCore` with the delete operator, once the motion is known to land on `(r, t)` -/
theorem vcCore_row_delete (s sm : VS) (r mv : Int) (body : List Nat) (o t : Nat) (lb : Lb) (hlb : s.ed.lb = some lb)
    (hrm : readMotion 100 r o s = Res.ok (some (mv, r, (t : Int))) sm) (hmv : 0 < mv)
    (hed : sm.ed = s.ed) (hyb : sm.ybuf = s.ybuf)
    (hr0 : 0 ≤ r) (hline : (lines s)[r.toNat]? = some (encStr (body ++ [10])))
    (hb : ∀ c ∈ body, ValidCp c) (hb10 : 10 ∉ body) (ho : o < body.length) (ht : t ≤ body.length) :
    ∃ s', vcCore 100 r o s = Res.ok VC_OK s' ∧
      RowDeleted s sm s' r body (span (inclusive sm mv) o t body.length).1 (span (inclusive sm mv) o t body.length).2 := by
  have hl : lines sm = lines s := by unfold Vi.lines; rw [hed]
  rw [vcCore_apply, hrm]
  simp only []
  rw [if_neg (by omega), opRegion_span sm mv r body o t hr0 hb hb10 (by rw [hl]; exact hline) ho ht]
  simp only []
  have hsp : (span (inclusive sm mv) o t body.length).1 ≤ (span (inclusive sm mv) o t body.length).2 ∧
      (span (inclusive sm mv) o t body.length).2 ≤ body.length := by
    unfold span
    simp only []
    split
    · rename_i h
      simp only [Bool.and_eq_true, decide_eq_true_eq] at h
      omega
    · omega
  have hap : ∀ a b : Int, applyOp 100 r a r b false = viDelete r a r b false := fun _ _ => rfl
  rw [hap]
  obtain ⟨s', e1, e2, e3, e4, e5, e6⟩ := viDelete_row_total sm r body _ _ lb (by rw [hed]; exact hlb) hr0
    (by rw [hl]; exact hline) hb hb10 hsp.1 hsp.2
  refine ⟨s', e1, ?_, ?_, e4, e5, e6⟩
  · rw [e2, hl]
  · rw [e3, hed, hyb]

/-- `vcCore` with the yank operator: the text is unchanged, the register receives the span, the cursor
goes to its start -/
theorem vcCore_row_yank (s sm : VS) (r mv : Int) (body : List Nat) (o t : Nat)
    (hrm : readMotion 121 r o s = Res.ok (some (mv, r, (t : Int))) sm) (hmv : 0 < mv)
    (hed : sm.ed = s.ed) (hyb : sm.ybuf = s.ybuf)
    (hr0 : 0 ≤ r) (hline : (lines s)[r.toNat]? = some (encStr (body ++ [10])))
    (hb : ∀ c ∈ body, ValidCp c) (hb10 : 10 ∉ body) (ho : o < body.length) (ht : t ≤ body.length) :
    vcCore 121 r o s = Res.ok VC_COL
      { sm with ed := { s.ed with
          regs := s.ed.regs.put s.ybuf (encStr ((body.take (span (inclusive sm mv) o t body.length).2).drop
            (span (inclusive sm mv) o t body.length).1)) 0,
          xrow := r, xoff := ((span (inclusive sm mv) o t body.length).1 : Nat) } } := by
  have hl : lines sm = lines s := by unfold Vi.lines; rw [hed]
  rw [vcCore_apply, hrm]
  simp only []
  rw [if_neg (by omega), opRegion_span sm mv r body o t hr0 hb hb10 (by rw [hl]; exact hline) ho ht]
  simp only []
  have hsp : (span (inclusive sm mv) o t body.length).1 ≤ (span (inclusive sm mv) o t body.length).2 ∧
      (span (inclusive sm mv) o t body.length).2 ≤ body.length := by
    unfold span
    simp only []
    split
    · rename_i h
      simp only [Bool.and_eq_true, decide_eq_true_eq] at h
      omega
    · omega
  have hap : ∀ a b : Int, applyOp 121 r a r b false = viYank r a r b false := fun _ _ => rfl
  rw [hap, viYank_row_total sm r body _ _ hr0 (by rw [hl]; exact hline) hb hsp.1 hsp.2, hed, hyb]

theorem cntOf_motionSt (s s1 : VS) (a2 k : Int) (hf : KeyFrame s s1) : cntOf (motionSt a2 s1 k) = opCount s a2 := by
  unfold opCount cntOf motionSt setArg2
  simp only []
  rw [hf.arg1]

/-- **S3, generic**: delete with a motion `k` (not a line motion) that lands on `(r, t)` -/
theorem row_delete (s s1 sm : VS) (a2 : Int) (k mv : Int) (body : List Nat) (o t : Nat)
    (hk : Prefixed s a2 k s1) (hn : isLnKey 100 k = false) (hrow : OnRow s body o)
    (hm : viMotion s.ed.xrow o (motionSt a2 s1 k) = Res.ok (mv, s.ed.xrow, (t : Int)) sm) (hmv : 0 < mv)
    (hed : sm.ed = s.ed) (hyb : sm.ybuf = s.ybuf) (ht : t ≤ body.length) :
    ∃ s', vcMotion 100 s = Res.ok VC_OK s' ∧
      RowDeleted s sm s' s.ed.xrow body (span (inclusive sm mv) o t body.length).1 (span (inclusive sm mv) o t body.length).2 := by
  obtain ⟨lb, hlb⟩ := hrow.lb
  obtain ⟨sp, e, hk', hf⟩ := vcMotion_prefixed 100 s s1 a2 k hk
  rw [e, hrow.noeol]
  have hrm : readMotion 100 s.ed.xrow o (setArg2 a2 sp) = Res.ok (some (mv, s.ed.xrow, (t : Int))) sm :=
    readMotion_char 100 _ _ _ (setArg2 a2 s1) sm k mv _ _ hk' hn hm (by omega)
  have hl : lines (setArg2 a2 sp) = lines s := hf.lines
  obtain ⟨s', e1, e2⟩ := vcCore_row_delete (setArg2 a2 sp) sm s.ed.xrow mv body o t lb
    (by show sp.ed.lb = some lb; rw [hf.ed]; exact hlb) hrm hmv (by rw [hed]; exact hf.ed.symm)
    (by rw [hyb]; exact hf.ybuf.symm) hrow.row0 (by rw [hl]; exact hrow.line) hrow.valid hrow.no10 hrow.onChar ht
  refine ⟨s', e1, ?_, ?_, e2.xrow, e2.xoff, e2.frame⟩
  · rw [e2.lines, hl]
  · rw [e2.regs]
    show sp.ed.regs.put sp.ybuf _ 0 = _
    rw [hf.ed, hf.ybuf]

/-- the state a character-wise yank of `[a, b)` leaves -/
def yankedSpan (s sm : VS) (body : List Nat) (a b : Nat) : VS :=
  { sm with ed := { s.ed with regs := s.ed.regs.put s.ybuf (encStr ((body.take b).drop a)) 0, xoff := (a : Int) } }

theorem yankedSpan_spec (s sm : VS) (body : List Nat) (a b : Nat) :
    lines (yankedSpan s sm body a b) = lines s ∧
    (yankedSpan s sm body a b).ed.regs = s.ed.regs.put s.ybuf (encStr ((body.take b).drop a)) 0 ∧
    (yankedSpan s sm body a b).ed.xrow = s.ed.xrow ∧ (yankedSpan s sm body a b).ed.xoff = a ∧
    yankedSpan s sm body a b = { sm with ed := (yankedSpan s sm body a b).ed } := ⟨rfl, rfl, rfl, rfl, rfl⟩

/-- **S3, generic**: yank with such a motion -/
theorem row_yank (s s1 sm : VS) (a2 : Int) (k mv : Int) (body : List Nat) (o t : Nat)
    (hk : Prefixed s a2 k s1) (hn : isLnKey 121 k = false) (hrow : OnRow s body o)
    (hm : viMotion s.ed.xrow o (motionSt a2 s1 k) = Res.ok (mv, s.ed.xrow, (t : Int)) sm) (hmv : 0 < mv)
    (hed : sm.ed = s.ed) (hyb : sm.ybuf = s.ybuf) (ht : t ≤ body.length) :
    vcMotion 121 s = Res.ok VC_COL
      (yankedSpan s sm body (span (inclusive sm mv) o t body.length).1 (span (inclusive sm mv) o t body.length).2) := by
  obtain ⟨sp, e, hk', hf⟩ := vcMotion_prefixed 121 s s1 a2 k hk
  rw [e, hrow.noeol]
  have hrm : readMotion 121 s.ed.xrow o (setArg2 a2 sp) = Res.ok (some (mv, s.ed.xrow, (t : Int))) sm :=
    readMotion_char 121 _ _ _ (setArg2 a2 s1) sm k mv _ _ hk' hn hm (by omega)
  have hl : lines (setArg2 a2 sp) = lines s := hf.lines
  rw [vcCore_row_yank (setArg2 a2 sp) sm s.ed.xrow mv body o t hrm hmv (by rw [hed]; exact hf.ed.symm)
    (by rw [hyb]; exact hf.ybuf.symm) hrow.row0 (by rw [hl]; exact hrow.line) hrow.valid hrow.no10 hrow.onChar ht]
  unfold yankedSpan
  show Res.ok VC_COL { sm with ed := { sp.ed with regs := sp.ed.regs.put sp.ybuf _ 0, xrow := _, xoff := _ } } = _
  rw [hf.ed, hf.ybuf]

/-! ### the motions `SPC` (`x`), `BS` (`X`), `$` (`D`), `0` -/

theorem OnRow.linesSt {s s1 : VS} {body : List Nat} {o : Nat} {a2 : Int} (h : OnRow s body o)
    (hf : KeyFrame s s1) : (lines (setArg2 a2 s1))[s.ed.xrow.toNat]? = some (encStr (body ++ [10])) := by
  have : lines (setArg2 a2 s1) = lines s := hf.lines
  rw [this]; exact h.line

/-- the motion `SPC` with count `c`: to `min (o + c) |body|` -/
theorem viMotion_spc_row (s s1 : VS) (a2 : Int) (body : List Nat) (o : Nat) (hk : Prefixed s a2 32 s1) (hrow : OnRow s body o) :
    viMotion s.ed.xrow o (motionSt a2 s1 32) =
      Res.ok (32, s.ed.xrow, ((min (o + (opCount s a2).toNat) body.length : Nat) : Int)) (setArg2 a2 s1) := by
  rw [viMotion_spc _ _ _ (setArg2 a2 s1) (viRead_motionSt a2 s1 32), cntOf_motionSt s s1 a2 32 hk.frame,
    repeatMove_spc _ _ body hrow.row0 hrow.valid (hrow.linesSt hk.frame) _ o (by have := hrow.onChar; omega)]

/-- the motion `BS` with count `c`: to `o - c` (0 when `c > o`) -/
theorem viMotion_bs_row (s s1 : VS) (a2 : Int) (body : List Nat) (o : Nat) (hk : Prefixed s a2 8 s1) (hrow : OnRow s body o) :
    viMotion s.ed.xrow o (motionSt a2 s1 8) =
      Res.ok (8, s.ed.xrow, ((o - (opCount s a2).toNat : Nat) : Int)) (setArg2 a2 s1) := by
  rw [viMotion_bs _ _ _ (setArg2 a2 s1) (viRead_motionSt a2 s1 8), cntOf_motionSt s s1 a2 8 hk.frame,
    repeatMove_bs _ _ body hrow.row0 hrow.valid (hrow.linesSt hk.frame) _ o (by have := hrow.onChar; omega)]

/-- the motion `$`: to the newline, offset `|body|` -/
theorem viMotion_dollar_row (s s1 : VS) (a2 : Int) (body : List Nat) (o : Nat) (hk : Prefixed s a2 36 s1) (hrow : OnRow s body o) :
    viMotion s.ed.xrow o (motionSt a2 s1 36) = Res.ok (36, s.ed.xrow, ((body.length : Nat) : Int)) (setArg2 a2 s1) := by
  rw [viMotion_dollar _ _ _ (setArg2 a2 s1) (viRead_motionSt a2 s1 36),
    eol_line (setArg2 a2 s1) _ body hrow.row0 hrow.valid (hrow.linesSt hk.frame)]

/-- the motion `0` -/
theorem viMotion_zero_row (s s1 : VS) (a2 : Int) (o : Nat) (hk : Prefixed s a2 48 s1) :
    viMotion s.ed.xrow o (motionSt a2 s1 48) = Res.ok (48, s.ed.xrow, ((0 : Nat) : Int)) (setArg2 a2 s1) := by
  rw [viMotion_zero _ _ _ (setArg2 a2 s1) (viRead_motionSt a2 s1 48)]
  rfl

/-- **`x`** (= `d SPC`, §4; `[count]x`): the characters `[o, min (o + c) |body|)` are deleted — `min c (|body| - o)`
characters from the cursor on -/
theorem x_spec (s s1 : VS) (a2 : Int) (body : List Nat) (o : Nat) (hk : Prefixed s a2 32 s1) (hrow : OnRow s body o) :
    ∃ s', vcMotion 100 s = Res.ok VC_OK s' ∧
      RowDeleted s (setArg2 a2 s1) s' s.ed.xrow body o (min (o + (opCount s a2).toNat) body.length) := by
  have hf := hk.frame
  obtain ⟨s', e, h⟩ := row_delete s s1 (setArg2 a2 s1) a2 32 32 body o _ hk (by decide) hrow
    (viMotion_spc_row s s1 a2 body o hk hrow) (by decide) hf.ed hf.ybuf (by omega)
  rw [inclusive_false _ 32 (by simp), span_excl] at h
  have ho := hrow.onChar
  rw [show min o (min (o + (opCount s a2).toNat) body.length) = o by omega,
    show max o (min (o + (opCount s a2).toNat) body.length) = min (o + (opCount s a2).toNat) body.length by omega] at h
  exact ⟨s', e, h⟩

/-- **`X`** (= `d BS`; `[count]X`): the characters `[o - c, o)` before the cursor are deleted, the cursor moves
onto the first of them -/
theorem X_spec (s s1 : VS) (a2 : Int) (body : List Nat) (o : Nat) (hk : Prefixed s a2 8 s1) (hrow : OnRow s body o) :
    ∃ s', vcMotion 100 s = Res.ok VC_OK s' ∧
      RowDeleted s (setArg2 a2 s1) s' s.ed.xrow body (o - (opCount s a2).toNat) o := by
  have hf := hk.frame
  obtain ⟨s', e, h⟩ := row_delete s s1 (setArg2 a2 s1) a2 8 8 body o _ hk (by decide) hrow
    (viMotion_bs_row s s1 a2 body o hk hrow) (by decide) hf.ed hf.ybuf (by have := hrow.onChar; omega)
  rw [inclusive_false _ 8 (by simp), span_excl] at h
  rw [show min o (o - (opCount s a2).toNat) = o - (opCount s a2).toNat by omega,
    show max o (o - (opCount s a2).toNat) = o by omega] at h
  exact ⟨s', e, h⟩

/-- **`D`** (= `d$`): the characters from the cursor to the end of the line are deleted -/
theorem D_spec (s s1 : VS) (a2 : Int) (body : List Nat) (o : Nat) (hk : Prefixed s a2 36 s1) (hrow : OnRow s body o) :
    ∃ s', vcMotion 100 s = Res.ok VC_OK s' ∧ RowDeleted s (setArg2 a2 s1) s' s.ed.xrow body o body.length := by
  have hf := hk.frame
  obtain ⟨s', e, h⟩ := row_delete s s1 (setArg2 a2 s1) a2 36 36 body o _ hk (by decide) hrow
    (viMotion_dollar_row s s1 a2 body o hk hrow) (by decide) hf.ed hf.ybuf (by omega)
  rw [inclusive_false _ 36 (by simp), span_excl] at h
  have ho := hrow.onChar
  rw [show min o body.length = o by omega, show max o body.length = body.length by omega] at h
  exact ⟨s', e, h⟩

/-- **`d0`**: the characters before the cursor are deleted -/
theorem d0_spec (s s1 : VS) (a2 : Int) (body : List Nat) (o : Nat) (hk : Prefixed s a2 48 s1) (hrow : OnRow s body o) :
    ∃ s', vcMotion 100 s = Res.ok VC_OK s' ∧ RowDeleted s (setArg2 a2 s1) s' s.ed.xrow body 0 o := by
  have hf := hk.frame
  obtain ⟨s', e, h⟩ := row_delete s s1 (setArg2 a2 s1) a2 48 48 body o 0 hk (by decide) hrow
    (viMotion_zero_row s s1 a2 o hk) (by decide) hf.ed hf.ybuf (by omega)
  rw [inclusive_false _ 48 (by simp), span_excl] at h
  rw [show min o 0 = 0 by omega, show max o 0 = o by omega] at h
  exact ⟨s', e, h⟩

/-- a deletion that ends at the end of the line keeps the head `body.take a` -/
theorem RowDeleted.to_eol {s sm s' : VS} {r : Int} {body : List Nat} {a : Nat}
    (h : RowDeleted s sm s' r body a body.length) :
    Vi.lines s' = (Vi.lines s).take r.toNat ++ [encStr (body.take a ++ [10])] ++ (Vi.lines s).drop (r.toNat + 1) := by
  have := h.lines
  rwa [List.drop_length, List.append_nil] at this

/-- **`y SPC`, `y$`, `y0`, `y BS`**: the same spans, yanked -/
theorem y_spc_spec (s s1 : VS) (a2 : Int) (body : List Nat) (o : Nat) (hk : Prefixed s a2 32 s1) (hrow : OnRow s body o) :
    vcMotion 121 s = Res.ok VC_COL (yankedSpan s (setArg2 a2 s1) body o (min (o + (opCount s a2).toNat) body.length)) := by
  have hf := hk.frame
  rw [row_yank s s1 (setArg2 a2 s1) a2 32 32 body o _ hk (by decide) hrow
    (viMotion_spc_row s s1 a2 body o hk hrow) (by decide) hf.ed hf.ybuf (by omega)]
  rw [inclusive_false _ 32 (by simp), span_excl]
  have ho := hrow.onChar
  rw [show min o (min (o + (opCount s a2).toNat) body.length) = o by omega,
    show max o (min (o + (opCount s a2).toNat) body.length) = min (o + (opCount s a2).toNat) body.length by omega]

theorem y_dollar_spec (s s1 : VS) (a2 : Int) (body : List Nat) (o : Nat) (hk : Prefixed s a2 36 s1) (hrow : OnRow s body o) :
    vcMotion 121 s = Res.ok VC_COL (yankedSpan s (setArg2 a2 s1) body o body.length) := by
  have hf := hk.frame
  rw [row_yank s s1 (setArg2 a2 s1) a2 36 36 body o _ hk (by decide) hrow
    (viMotion_dollar_row s s1 a2 body o hk hrow) (by decide) hf.ed hf.ybuf (by omega)]
  rw [inclusive_false _ 36 (by simp), span_excl]
  have ho := hrow.onChar
  rw [show min o body.length = o by omega, show max o body.length = body.length by omega]

theorem y0_spec (s s1 : VS) (a2 : Int) (body : List Nat) (o : Nat) (hk : Prefixed s a2 48 s1) (hrow : OnRow s body o) :
    vcMotion 121 s = Res.ok VC_COL (yankedSpan s (setArg2 a2 s1) body 0 o) := by
  have hf := hk.frame
  rw [row_yank s s1 (setArg2 a2 s1) a2 48 48 body o 0 hk (by decide) hrow
    (viMotion_zero_row s s1 a2 o hk) (by decide) hf.ed hf.ybuf (by omega)]
  rw [inclusive_false _ 48 (by simp), span_excl]
  rw [show min o 0 = 0 by omega, show max o 0 = o by omega]

/-! ### the word motions `e` (inclusive) and `w` (exclusive)

The whole buffer is valid UTF-8 (`Utf8Buf`, C07c: the scanners may look beyond the row), and the reference
motion of `Spec/Motion.lean` from `(r, o)` with the count stays on the row: it lands on `(r, t)`. -/

/-- **`de`** (`[count]de`): the span from the cursor to the end of the `c`-th word, inclusive: when the
reference target is `(r, t)`, the characters `span true o t |body|` — `[o, t + 1)` for `o ≤ t < |body|` — go -/
theorem de_spec (s s1 : VS) (a2 : Int) (body : List Nat) (o t : Nat) (hk : Prefixed s a2 101 s1) (hrow : OnRow s body o)
    (hu : Utf8Buf (lines s))
    (href : Motion.wordEndFwdRaw false (refBufU (lines s)) ⟨s.ed.xrow.toNat, o⟩ (opCount s a2).toNat = ⟨s.ed.xrow.toNat, t⟩) :
    ∃ s', vcMotion 100 s = Res.ok VC_OK s' ∧
      RowDeleted s (setArg2 a2 s1) s' s.ed.xrow body (span true o t body.length).1 (span true o t body.length).2 := by
  have hf := hk.frame
  have hl : lines (setArg2 a2 s1) = lines s := hf.lines
  obtain ⟨g1, g2⟩ := go_e_row (lines s) hu (opCount s a2).toNat s.ed.xrow o t body hrow.row0 hrow.line hrow.valid
    (by have := hrow.onChar; omega) href
  have hm : viMotion s.ed.xrow o (motionSt a2 s1 101) = Res.ok (101, s.ed.xrow, (t : Int)) (setArg2 a2 s1) := by
    rw [viMotion_e _ _ _ (setArg2 a2 s1) (viRead_motionSt a2 s1 101), cntOf_motionSt s s1 a2 101 hk.frame, hl, g1]
  obtain ⟨s', e, h⟩ := row_delete s s1 (setArg2 a2 s1) a2 101 101 body o t hk (by decide) hrow hm (by decide)
    hf.ed hf.ybuf g2
  rw [inclusive_true _ 101 (by simp)] at h
  exact ⟨s', e, h⟩

/-- … in the usual case `o ≤ t < |body|`: the characters `[o, t + 1)` -/
theorem de_spec_fwd (s s1 : VS) (a2 : Int) (body : List Nat) (o t : Nat) (hk : Prefixed s a2 101 s1) (hrow : OnRow s body o)
    (hu : Utf8Buf (lines s))
    (href : Motion.wordEndFwdRaw false (refBufU (lines s)) ⟨s.ed.xrow.toNat, o⟩ (opCount s a2).toNat = ⟨s.ed.xrow.toNat, t⟩)
    (hot : o ≤ t) (htl : t < body.length) :
    ∃ s', vcMotion 100 s = Res.ok VC_OK s' ∧ RowDeleted s (setArg2 a2 s1) s' s.ed.xrow body o (t + 1) := by
  obtain ⟨s', e, h⟩ := de_spec s s1 a2 body o t hk hrow hu href
  rw [span_incl o t body.length (by omega), show min o t = o by omega, show max o t = t by omega] at h
  exact ⟨s', e, h⟩

/-- **`dw`** (`[count]dw`), exclusive: when the reference target (the start of the `c`-th next word) is `(r, t)` on
the same row, the characters `[min o t, max o t)` go.  (`vc_motion` has no special rule for `w`: when the
next word starts on another row, the newline is part of the region; that case is not covered here.) -/
theorem dw_spec (s s1 : VS) (a2 : Int) (body : List Nat) (o t : Nat) (hk : Prefixed s a2 119 s1) (hrow : OnRow s body o)
    (hu : Utf8Buf (lines s))
    (href : Motion.wordFwdRaw false (refBufU (lines s)) ⟨s.ed.xrow.toNat, o⟩ (opCount s a2).toNat = ⟨s.ed.xrow.toNat, t⟩) :
    ∃ s', vcMotion 100 s = Res.ok VC_OK s' ∧ RowDeleted s (setArg2 a2 s1) s' s.ed.xrow body (min o t) (max o t) := by
  have hf := hk.frame
  have hl : lines (setArg2 a2 s1) = lines s := hf.lines
  obtain ⟨g1, g2⟩ := go_w_row (lines s) hu (opCount s a2).toNat s.ed.xrow o t body hrow.row0 hrow.line hrow.valid
    (by have := hrow.onChar; omega) href
  have hm : viMotion s.ed.xrow o (motionSt a2 s1 119) = Res.ok (119, s.ed.xrow, (t : Int)) (setArg2 a2 s1) := by
    rw [viMotion_w _ _ _ (setArg2 a2 s1) (viRead_motionSt a2 s1 119), cntOf_motionSt s s1 a2 119 hk.frame, hl, g1]
  obtain ⟨s', e, h⟩ := row_delete s s1 (setArg2 a2 s1) a2 119 119 body o t hk (by decide) hrow hm (by decide)
    hf.ed hf.ybuf g2
  rw [inclusive_false _ 119 (by simp), span_excl] at h
  exact ⟨s', e, h⟩

/-- `ye`, `yw`: the same spans, yanked -/
theorem ye_spec (s s1 : VS) (a2 : Int) (body : List Nat) (o t : Nat) (hk : Prefixed s a2 101 s1) (hrow : OnRow s body o)
    (hu : Utf8Buf (lines s))
    (href : Motion.wordEndFwdRaw false (refBufU (lines s)) ⟨s.ed.xrow.toNat, o⟩ (opCount s a2).toNat = ⟨s.ed.xrow.toNat, t⟩) :
    vcMotion 121 s = Res.ok VC_COL
      (yankedSpan s (setArg2 a2 s1) body (span true o t body.length).1 (span true o t body.length).2) := by
  have hf := hk.frame
  have hl : lines (setArg2 a2 s1) = lines s := hf.lines
  obtain ⟨g1, g2⟩ := go_e_row (lines s) hu (opCount s a2).toNat s.ed.xrow o t body hrow.row0 hrow.line hrow.valid
    (by have := hrow.onChar; omega) href
  have hm : viMotion s.ed.xrow o (motionSt a2 s1 101) = Res.ok (101, s.ed.xrow, (t : Int)) (setArg2 a2 s1) := by
    rw [viMotion_e _ _ _ (setArg2 a2 s1) (viRead_motionSt a2 s1 101), cntOf_motionSt s s1 a2 101 hk.frame, hl, g1]
  rw [row_yank s s1 (setArg2 a2 s1) a2 101 101 body o t hk (by decide) hrow hm (by decide) hf.ed hf.ybuf g2,
    inclusive_true _ 101 (by simp)]

theorem yw_spec (s s1 : VS) (a2 : Int) (body : List Nat) (o t : Nat) (hk : Prefixed s a2 119 s1) (hrow : OnRow s body o)
    (hu : Utf8Buf (lines s))
    (href : Motion.wordFwdRaw false (refBufU (lines s)) ⟨s.ed.xrow.toNat, o⟩ (opCount s a2).toNat = ⟨s.ed.xrow.toNat, t⟩) :
    vcMotion 121 s = Res.ok VC_COL (yankedSpan s (setArg2 a2 s1) body (min o t) (max o t)) := by
  have hf := hk.frame
  have hl : lines (setArg2 a2 s1) = lines s := hf.lines
  obtain ⟨g1, g2⟩ := go_w_row (lines s) hu (opCount s a2).toNat s.ed.xrow o t body hrow.row0 hrow.line hrow.valid
    (by have := hrow.onChar; omega) href
  have hm : viMotion s.ed.xrow o (motionSt a2 s1 119) = Res.ok (119, s.ed.xrow, (t : Int)) (setArg2 a2 s1) := by
    rw [viMotion_w _ _ _ (setArg2 a2 s1) (viRead_motionSt a2 s1 119), cntOf_motionSt s s1 a2 119 hk.frame, hl, g1]
  rw [row_yank s s1 (setArg2 a2 s1) a2 119 119 body o t hk (by decide) hrow hm (by decide) hf.ed hf.ybuf g2,
    inclusive_false _ 119 (by simp), span_excl]

/-! ### the finds `f c` (inclusive) and `t c` (inclusive, one short)

After the key `f` / `t` the character `c` is typed as its UTF-8 bytes (`pending s1 = enc c ++ rest`, default
keymap).  `s2` is the state after those bytes were read; the find is remembered in `charlast` / `charcmd`. -/

/-- a motion that fails (`mv = -1`): `vc_motion` returns 0 in the state the motion left -/
theorem row_fail (cmd : Nat) (s s1 sm : VS) (a2 : Int) (k r2 o2 : Int) (hk : Prefixed s a2 k s1)
    (hn : isLnKey cmd k = false)
    (hm : viMotion s.ed.xrow (noeol s s.ed.xrow s.ed.xoff) (motionSt a2 s1 k) = Res.ok (-1, r2, o2) sm) :
    vcMotion cmd s = Res.ok 0 sm := by
  obtain ⟨sp, e, hk', hf⟩ := vcMotion_prefixed cmd s s1 a2 k hk
  rw [e, vcCore_apply, readMotion_char cmd _ _ _ (setArg2 a2 s1) sm k (-1) r2 o2 hk' hn hm (by omega)]
  rfl

/-- the motion `f c` with the count on the row: the reference `findChar` -/
theorem viMotion_f_row (s s1 : VS) (a2 : Int) (body : List Nat) (o c : Nat) (rest : Bytes) (hk : Prefixed s a2 102 s1)
    (hrow : OnRow s body o) (ha : 0 ≤ s.arg1) (hc : ValidCp c ∧ 32 ≤ c ∧ c ≠ 127)
    (hp : pending s1 = enc c ++ rest) (hkm : s1.xkmap = 0) :
    ∃ s2, Reads false (enc c) (setArg2 a2 s1) s2 ∧ pending s2 = rest ∧
      viMotion s.ed.xrow o (motionSt a2 s1 102) =
        match Motion.findChar body o c true false (opCount s a2).toNat with
        | none => Res.ok (-1, s.ed.xrow, (o : Int)) { s2 with charlast := enc c, charcmd := 102 }
        | some t => Res.ok (102, s.ed.xrow, (t : Int)) { s2 with charlast := enc c, charcmd := 102 } := by
  have hf := hk.frame
  have hl : lines (setArg2 a2 s1) = lines s := hf.lines
  obtain ⟨s2, h1, h2, h3⟩ := viChar_enc (setArg2 a2 s1) c rest hc hp hkm
  refine ⟨s2, h3, h2, ?_⟩
  have hcp := opCount_pos s a2 ha hk.nonneg
  rw [viMotion_f _ _ _ (setArg2 a2 s1) s2 (enc c) (viRead_motionSt a2 s1 102) h1, cntOf_motionSt s s1 a2 102 hk.frame, hl,
    findchar_row (lines s) s.ed.xrow body hrow.row0 hrow.line hrow.valid hrow.no10 c hc.1 (by omega) 102 (by simp)
      (opCount s a2) (by omega) o (by have := hrow.onChar; omega)]
  rw [show ((102 : Nat) == 116) = false from rfl]
  cases Motion.findChar body o c true false (opCount s a2).toNat <;> rfl

/-- **`df c`**: the characters from the cursor up to and including the `n`-th `c` to its right, `[o, t + 1)`
with `t` the reference `findChar`; without such a `c` nothing changes and `vc_motion` returns 0 -/
theorem dfc_spec (s s1 : VS) (a2 : Int) (body : List Nat) (o c : Nat) (rest : Bytes) (hk : Prefixed s a2 102 s1)
    (hrow : OnRow s body o) (ha : 0 ≤ s.arg1) (hc : ValidCp c ∧ 32 ≤ c ∧ c ≠ 127)
    (hp : pending s1 = enc c ++ rest) (hkm : s1.xkmap = 0) :
    ∃ s2, Reads false (enc c) (setArg2 a2 s1) s2 ∧ pending s2 = rest ∧
      (∀ t, Motion.findChar body o c true false (opCount s a2).toNat = some t →
        o ≤ t ∧ t < body.length ∧
        ∃ s', vcMotion 100 s = Res.ok VC_OK s' ∧
          RowDeleted s { s2 with charlast := enc c, charcmd := 102 } s' s.ed.xrow body o (t + 1)) ∧
      (Motion.findChar body o c true false (opCount s a2).toNat = none →
        vcMotion 100 s = Res.ok 0 { s2 with charlast := enc c, charcmd := 102 } ∧ lines s2 = lines s) := by
  have hf := hk.frame
  obtain ⟨s2, h1, h2, hm⟩ := viMotion_f_row s s1 a2 body o c rest hk hrow ha hc hp hkm
  have hed2 : s2.ed = s.ed := by
    obtain ⟨ib, ip, ty, xl, rfl, hx⟩ := h1
    have := hx rfl
    subst this
    exact hf.ed
  have hyb2 : s2.ybuf = s.ybuf := by
    obtain ⟨ib, ip, ty, xl, rfl, hx⟩ := h1
    exact hf.ybuf
  refine ⟨s2, h1, h2, ?_, ?_⟩
  · intro t ht
    obtain ⟨b1, b2, _⟩ := findChar_fwd_bounds body o c _ t false ht
    rw [ht] at hm
    refine ⟨b1, b2, ?_⟩
    obtain ⟨s', e, h⟩ := row_delete s s1 { s2 with charlast := enc c, charcmd := 102 } a2 102 102 body o t hk (by decide)
      hrow hm (by decide) hed2 hyb2 (by omega)
    rw [inclusive_true _ 102 (by simp), span_incl o t body.length (by omega), show min o t = o by omega,
      show max o t = t by omega] at h
    exact ⟨s', e, h⟩
  · intro hn
    rw [hn] at hm
    refine ⟨row_fail 100 s s1 _ a2 102 _ _ hk (by decide) (by rw [hrow.noeol]; exact hm), ?_⟩
    unfold Vi.lines; rw [hed2]

/-- the motion `t c` with the count on the row: the reference `findChar` -/
theorem viMotion_t_row (s s1 : VS) (a2 : Int) (body : List Nat) (o c : Nat) (rest : Bytes) (hk : Prefixed s a2 116 s1)
    (hrow : OnRow s body o) (ha : 0 ≤ s.arg1) (hc : ValidCp c ∧ 32 ≤ c ∧ c ≠ 127)
    (hp : pending s1 = enc c ++ rest) (hkm : s1.xkmap = 0) :
    ∃ s2, Reads false (enc c) (setArg2 a2 s1) s2 ∧ pending s2 = rest ∧
      viMotion s.ed.xrow o (motionSt a2 s1 116) =
        match Motion.findChar body o c true true (opCount s a2).toNat with
        | none => Res.ok (-1, s.ed.xrow, (o : Int)) { s2 with charlast := enc c, charcmd := 116 }
        | some t => Res.ok (116, s.ed.xrow, (t : Int)) { s2 with charlast := enc c, charcmd := 116 } := by
  have hf := hk.frame
  have hl : lines (setArg2 a2 s1) = lines s := hf.lines
  obtain ⟨s2, h1, h2, h3⟩ := viChar_enc (setArg2 a2 s1) c rest hc hp hkm
  refine ⟨s2, h3, h2, ?_⟩
  have hcp := opCount_pos s a2 ha hk.nonneg
  rw [viMotion_t _ _ _ (setArg2 a2 s1) s2 (enc c) (viRead_motionSt a2 s1 116) h1, cntOf_motionSt s s1 a2 116 hk.frame, hl,
    findchar_row (lines s) s.ed.xrow body hrow.row0 hrow.line hrow.valid hrow.no10 c hc.1 (by omega) 116 (by simp)
      (opCount s a2) (by omega) o (by have := hrow.onChar; omega)]
  rw [show ((116 : Nat) == 116) = true from rfl]
  cases Motion.findChar body o c true true (opCount s a2).toNat <;> rfl

/-- **`dt c`**: as `df c`, the target being the character before that `c` (`findChar … till`): `[o, t + 1)` -/
theorem dtc_spec (s s1 : VS) (a2 : Int) (body : List Nat) (o c : Nat) (rest : Bytes) (hk : Prefixed s a2 116 s1)
    (hrow : OnRow s body o) (ha : 0 ≤ s.arg1) (hc : ValidCp c ∧ 32 ≤ c ∧ c ≠ 127)
    (hp : pending s1 = enc c ++ rest) (hkm : s1.xkmap = 0) :
    ∃ s2, Reads false (enc c) (setArg2 a2 s1) s2 ∧ pending s2 = rest ∧
      (∀ t, Motion.findChar body o c true true (opCount s a2).toNat = some t →
        o ≤ t ∧ t < body.length ∧
        ∃ s', vcMotion 100 s = Res.ok VC_OK s' ∧
          RowDeleted s { s2 with charlast := enc c, charcmd := 116 } s' s.ed.xrow body o (t + 1)) ∧
      (Motion.findChar body o c true true (opCount s a2).toNat = none →
        vcMotion 100 s = Res.ok 0 { s2 with charlast := enc c, charcmd := 116 } ∧ lines s2 = lines s) := by
  have hf := hk.frame
  obtain ⟨s2, h1, h2, hm⟩ := viMotion_t_row s s1 a2 body o c rest hk hrow ha hc hp hkm
  have hed2 : s2.ed = s.ed := by
    obtain ⟨ib, ip, ty, xl, rfl, hx⟩ := h1
    have := hx rfl
    subst this
    exact hf.ed
  have hyb2 : s2.ybuf = s.ybuf := by
    obtain ⟨ib, ip, ty, xl, rfl, hx⟩ := h1
    exact hf.ybuf
  refine ⟨s2, h1, h2, ?_, ?_⟩
  · intro t ht
    obtain ⟨b1, b2, _⟩ := findChar_fwd_bounds body o c _ t true ht
    rw [ht] at hm
    refine ⟨b1, b2, ?_⟩
    obtain ⟨s', e, h⟩ := row_delete s s1 { s2 with charlast := enc c, charcmd := 116 } a2 116 116 body o t hk (by decide)
      hrow hm (by decide) hed2 hyb2 (by omega)
    rw [inclusive_true _ 116 (by simp), span_incl o t body.length (by omega), show min o t = o by omega,
      show max o t = t by omega] at h
    exact ⟨s', e, h⟩
  · intro hn
    rw [hn] at hm
    refine ⟨row_fail 100 s s1 _ a2 116 _ _ hk (by decide) (by rw [hrow.noeol]; exact hm), ?_⟩
    unfold Vi.lines; rw [hed2]

/-! ### the column motions `l` and `h` (`vi_nextcol`, through the renderer)

`l` / `h` move by display columns.  Here the row is laid out left to right without reordering (`LeftToRight`:
the position table of the line is the plain one, and the direction context is not right-to-left) — so for
every ASCII line (`leftToRight_ascii` gives the table; the context is a hypothesis).  Then `l` is one character to
the right, never onto the newline: unlike `x`, `dl` on the last character deletes nothing. -/

/-- the row is displayed left to right, unreordered -/
structure LeftToRight (s : VS) (body : List Nat) : Prop where
  table : posTab s (encStr (body ++ [10])) = Ren.renPositionFast (encStr (body ++ [10]))
  ctx : 0 ≤ dirCtx s (encStr (body ++ [10]))

/-- the table part holds for every ASCII line -/
theorem leftToRight_ascii (s : VS) (body : List Nat) (hb : ∀ c ∈ body, 0 < c ∧ c < 128)
    (hctx : 0 ≤ dirCtx s (encStr (body ++ [10]))) : LeftToRight s body :=
  ⟨posTab_fast_ascii s body hb, hctx⟩

theorem LeftToRight.of_ed {s s' : VS} {body : List Nat} (h : LeftToRight s body) (he : s'.ed = s.ed) :
    LeftToRight s' body := by
  obtain ⟨h1, h2⟩ := h
  constructor
  · unfold posTab renOpts at h1 ⊢; rw [he]; exact h1
  · unfold dirCtx at h2 ⊢; rw [he]; exact h2

/-- the motion `l` with count `c` on the row: to `min (o + c) (|body| - 1)` -/
theorem viMotion_l_row (s s1 : VS) (a2 : Int) (body : List Nat) (o : Nat) (hk : Prefixed s a2 108 s1) (hrow : OnRow s body o)
    (hltr : LeftToRight s body) :
    viMotion s.ed.xrow o (motionSt a2 s1 108) =
      Res.ok (108, s.ed.xrow, ((min (o + (opCount s a2).toNat) (body.length - 1) : Nat) : Int)) (setArg2 a2 s1) := by
  have hf := hk.frame
  have h1 : LeftToRight (motionSt a2 s1 108) body := hltr.of_ed hf.ed
  have h2 : LeftToRight (setArg2 a2 s1) body := hltr.of_ed hf.ed
  have hls : (lines (motionSt a2 s1 108))[s.ed.xrow.toNat]? = some (encStr (body ++ [10])) := by
    have := hrow.linesSt (a2 := a2) hk.frame
    exact this
  have hlo : lineOf (motionSt a2 s1 108) s.ed.xrow = some (encStr (body ++ [10])) :=
    lineOf_of_get _ _ _ hrow.row0 hls
  rw [viMotion_l _ _ _ (setArg2 a2 s1) (viRead_motionSt a2 s1 108) (by rw [hlo]; exact h1.ctx),
    cntOf_motionSt s s1 a2 108 hk.frame,
    repeatMove_l (setArg2 a2 s1) _ body hrow.row0 hrow.valid hrow.no10 (hrow.linesSt hk.frame) h2.table _ o hrow.onChar]

/-- the motion `h` with count `c` on the row: to `o - c` -/
theorem viMotion_h_row (s s1 : VS) (a2 : Int) (body : List Nat) (o : Nat) (hk : Prefixed s a2 104 s1) (hrow : OnRow s body o)
    (hltr : LeftToRight s body) :
    viMotion s.ed.xrow o (motionSt a2 s1 104) =
      Res.ok (104, s.ed.xrow, ((o - (opCount s a2).toNat : Nat) : Int)) (setArg2 a2 s1) := by
  have hf := hk.frame
  have h1 : LeftToRight (motionSt a2 s1 104) body := hltr.of_ed hf.ed
  have h2 : LeftToRight (setArg2 a2 s1) body := hltr.of_ed hf.ed
  have hls : (lines (motionSt a2 s1 104))[s.ed.xrow.toNat]? = some (encStr (body ++ [10])) := by
    have := hrow.linesSt (a2 := a2) hk.frame
    exact this
  have hlo : lineOf (motionSt a2 s1 104) s.ed.xrow = some (encStr (body ++ [10])) :=
    lineOf_of_get _ _ _ hrow.row0 hls
  rw [viMotion_h _ _ _ (setArg2 a2 s1) (viRead_motionSt a2 s1 104) (by rw [hlo]; exact h1.ctx),
    cntOf_motionSt s s1 a2 104 hk.frame,
    repeatMove_h (setArg2 a2 s1) _ body hrow.row0 hrow.valid hrow.no10 (hrow.linesSt hk.frame) h2.table _ o hrow.onChar]

/-- **`dl`** (`[count]dl`): the characters `[o, min (o + c) (|body| - 1))` are deleted -/
theorem dl_spec (s s1 : VS) (a2 : Int) (body : List Nat) (o : Nat) (hk : Prefixed s a2 108 s1) (hrow : OnRow s body o)
    (hltr : LeftToRight s body) :
    ∃ s', vcMotion 100 s = Res.ok VC_OK s' ∧
      RowDeleted s (setArg2 a2 s1) s' s.ed.xrow body o (min (o + (opCount s a2).toNat) (body.length - 1)) := by
  have hf := hk.frame
  have ho := hrow.onChar
  obtain ⟨s', e, h⟩ := row_delete s s1 (setArg2 a2 s1) a2 108 108 body o _ hk (by decide) hrow
    (viMotion_l_row s s1 a2 body o hk hrow hltr) (by decide) hf.ed hf.ybuf (by omega)
  rw [inclusive_false _ 108 (by simp), span_excl] at h
  rw [show min o (min (o + (opCount s a2).toNat) (body.length - 1)) = o by omega,
    show max o (min (o + (opCount s a2).toNat) (body.length - 1)) = min (o + (opCount s a2).toNat) (body.length - 1) by omega] at h
  exact ⟨s', e, h⟩

/-- **`dh`** (`[count]dh`): the characters `[o - c, o)` are deleted (as `X`) -/
theorem dh_spec (s s1 : VS) (a2 : Int) (body : List Nat) (o : Nat) (hk : Prefixed s a2 104 s1) (hrow : OnRow s body o)
    (hltr : LeftToRight s body) :
    ∃ s', vcMotion 100 s = Res.ok VC_OK s' ∧
      RowDeleted s (setArg2 a2 s1) s' s.ed.xrow body (o - (opCount s a2).toNat) o := by
  have hf := hk.frame
  have ho := hrow.onChar
  obtain ⟨s', e, h⟩ := row_delete s s1 (setArg2 a2 s1) a2 104 104 body o _ hk (by decide) hrow
    (viMotion_h_row s s1 a2 body o hk hrow hltr) (by decide) hf.ed hf.ybuf (by omega)
  rw [inclusive_false _ 104 (by simp), span_excl] at h
  rw [show min o (o - (opCount s a2).toNat) = o - (opCount s a2).toNat by omega,
    show max o (o - (opCount s a2).toNat) = o by omega] at h
  exact ⟨s', e, h⟩

/-! ## 4. the shorthands of the command dispatcher

`commandTail` (the `switch` of `vi()`) on the keys `x X D C s S Y`: the mark `^` is set, a motion key is
pushed back, and `vc_motion` runs with the operator letter; `finRec` (C09) is the common tail that
records the command for `.`.  By unfolding the model. -/

/-- `x` = `d SPC` -/
theorem commandTail_x (s s1 : VS) (hk : viRead s = Res.ok 120 s1) :
    commandTail s = (do markSet 94 s1.ed.xrow s1.ed.xoff; viBack 32; let m ← vcMotion 100; finRec 120 0 m : M (Option Nat)) s1 := by
  unfold commandTail
  simp only [bind_apply, hk]
  simp (config := {decide := true}) only [get_apply, bind_apply, if_false, if_true]
  rfl

/-- `X` = `d BS` -/
theorem commandTail_X_ (s s1 : VS) (hk : viRead s = Res.ok 88 s1) :
    commandTail s = (do markSet 94 s1.ed.xrow s1.ed.xoff; viBack 8; let m ← vcMotion 100; finRec 88 0 m : M (Option Nat)) s1 := by
  unfold commandTail
  simp only [bind_apply, hk]
  simp (config := {decide := true}) only [get_apply, bind_apply, if_false, if_true]
  rfl

/-- `D` = `d$` -/
theorem commandTail_D_ (s s1 : VS) (hk : viRead s = Res.ok 68 s1) :
    commandTail s = (do markSet 94 s1.ed.xrow s1.ed.xoff; viBack 36; let m ← vcMotion 100; finRec 68 0 m : M (Option Nat)) s1 := by
  unfold commandTail
  simp only [bind_apply, hk]
  simp (config := {decide := true}) only [get_apply, bind_apply, if_false, if_true]
  rfl

/-- `C` = `c$` -/
theorem commandTail_C_ (s s1 : VS) (hk : viRead s = Res.ok 67 s1) :
    commandTail s = (do markSet 94 s1.ed.xrow s1.ed.xoff; viBack 36; let m ← vcMotion 99; finRec 67 0 m : M (Option Nat)) s1 := by
  unfold commandTail
  simp only [bind_apply, hk]
  simp (config := {decide := true}) only [get_apply, bind_apply, if_false, if_true]
  rfl

/-- `s` = `c SPC` -/
theorem commandTail_s (s s1 : VS) (hk : viRead s = Res.ok 115 s1) :
    commandTail s = (do markSet 94 s1.ed.xrow s1.ed.xoff; viBack 32; let m ← vcMotion 99; finRec 115 0 m : M (Option Nat)) s1 := by
  unfold commandTail
  simp only [bind_apply, hk]
  simp (config := {decide := true}) only [get_apply, bind_apply, if_false, if_true]
  rfl

/-- `S` = `cc` -/
theorem commandTail_S_ (s s1 : VS) (hk : viRead s = Res.ok 83 s1) :
    commandTail s = (do markSet 94 s1.ed.xrow s1.ed.xoff; viBack 99; let m ← vcMotion 99; finRec 83 0 m : M (Option Nat)) s1 := by
  unfold commandTail
  simp only [bind_apply, hk]
  simp (config := {decide := true}) only [get_apply, bind_apply, if_false, if_true]
  rfl

/-- `Y` = `yy` -/
theorem commandTail_Y_ (s s1 : VS) (hk : viRead s = Res.ok 89 s1) :
    commandTail s = (do markSet 94 s1.ed.xrow s1.ed.xoff; viBack 121; let m ← vcMotion 121; finRec 89 0 m : M (Option Nat)) s1 := by
  unfold commandTail
  simp only [bind_apply, hk]
  simp (config := {decide := true}) only [get_apply, bind_apply, if_false, if_true]
  rfl

/-- the state in which `vc_motion` then runs has the motion key on the push-back stack: `viRead` returns it -/
theorem viBack_then_read (c : Int) (s : VS) : ∃ sb, viBack c s = Res.ok () sb ∧ viRead sb = Res.ok c s := ⟨_, rfl, rfl⟩

/-- `markSet` changes the editor record only -/
theorem markSet_ed (c : Nat) (r o : Int) (s : VS) : ∃ ed', markSet c r o s = Res.ok () { s with ed := ed' } ∧
    Lemmas.C06.lines ed' = lines s ∧ ed'.xrow = s.ed.xrow ∧ ed'.xoff = s.ed.xoff ∧ ed'.regs = s.ed.regs := by
  unfold markSet withEd Vi.modify
  cases h : s.ed.lb with
  | none => exact ⟨s.ed, by simp [h], rfl, rfl, rfl, rfl⟩
  | some lb =>
    refine ⟨s.ed.setLb (setMark lb c r o), by simp [h], ?_, ?_, ?_, ?_⟩
    · have h1 := Lemmas.C06.lines_of_lb (Lemmas.C06.setLb_lb s.ed lb (setMark lb c r o) h)
      have h2 := Lemmas.C06.lines_of_lb h
      rw [h1]; show _ = Lemmas.C06.lines s.ed; rw [h2]
      unfold setMark; split <;> rfl
    · rw [Lemmas.C06.setLb_fields]
    · rw [Lemmas.C06.setLb_fields]
    · rw [Lemmas.C06.setLb_fields]

/-- **the key `x`, from the dispatcher to the text**: `commandTail` on the key `x` with the cursor on character
`o` of the line `body`: the mark `^` is set (state `sm`: only marks differ from `s1`), the characters
`[o, min (o + c) |body|)` are deleted as by `x_spec` (no second count: `c = opCount s1 0`), and the command is
recorded for `.` (`finRec`) -/
theorem x_key_spec (s s1 : VS) (body : List Nat) (o : Nat) (hk : viRead s = Res.ok 120 s1) (hrow : OnRow s1 body o) :
    ∃ sm s', lines sm = lines s1 ∧ sm.ed.regs = s1.ed.regs ∧ (∃ ed', sm = { s1 with ed := ed' }) ∧
      RowDeleted sm (setArg2 0 sm) s' s1.ed.xrow body o (min (o + (opCount s1 0).toNat) body.length) ∧
      commandTail s = finRec 120 0 VC_OK s' := by
  obtain ⟨ed', hm, l1, l2, l3, l4⟩ := markSet_ed 94 s1.ed.xrow s1.ed.xoff s1
  have hrow' : OnRow ({ ({ s1 with ed := ed' } : VS) with vibuf := 32 :: s1.vibuf }) body o :=
    ⟨by show 0 ≤ ed'.xrow; rw [l2]; exact hrow.row0,
     by show (Lemmas.C06.lines ed')[ed'.xrow.toNat]? = _; rw [l1, l2]; exact hrow.line,
     hrow.valid, hrow.no10, by show ed'.xoff = _; rw [l3]; exact hrow.off, hrow.onChar⟩
  obtain ⟨s', e, h⟩ := x_spec _ { s1 with ed := ed' } 0 body o
    (prefixed_none _ _ 32 (viRead_back { s1 with ed := ed' } 32) (by decide)) hrow'
  refine ⟨{ s1 with ed := ed' }, s', l1, l4, ⟨ed', rfl⟩, ?_, ?_⟩
  · have hx : ed'.xrow = s1.ed.xrow := l2
    rw [← hx]
    exact ⟨h.lines, h.regs, h.xrow, h.xoff, h.frame⟩
  · rw [commandTail_x s s1 hk]
    simp only [bind_apply, hm]
    have hb : viBack 32 ({ s1 with ed := ed' } : VS) = Res.ok () { ({ s1 with ed := ed' } : VS) with vibuf := 32 :: s1.vibuf } := rfl
    rw [hb]
    simp only []
    rw [e]

/-! ## 5. concrete runs (non-vacuity)

`exSt keys row off` (C08b): the buffer `hello w` / `b`, the cursor at `(row, off)`, `keys` typed.
`exU`: the buffer `hel` / `aé中b` (2- and 3-byte characters). -/

open Neatvi.Props.C08b (exSt exEd linesOf cursorOf)

def exU (keys : Bytes) (row off : Int) : VS :=
  { ed := { bufs := [some { path := [], lb := { lines := [[104, 101, 108, 10], [97, 195, 169, 228, 184, 173, 98, 10]] } }],
            xrow := row, xoff := off }, typed := keys }
def regOf (r : Res Nat) (c : Nat) : Option Bytes × Nat := match r with | Res.ok _ s => s.ed.regs.getRaw c | _ => (none, 0)
def retOf (r : Res Nat) : Option Nat := match r with | Res.ok a _ => some a | _ => none

-- `dd` on row 0: the line goes to the unnamed register and to `"1`, in line mode
example : linesOf (vcMotion 100 (exSt [100] 0 2)) = [[98, 10]] ∧
    regOf (vcMotion 100 (exSt [100] 0 2)) 0 = (some [104, 101, 108, 108, 111, 32, 119, 10], 1) ∧
    regOf (vcMotion 100 (exSt [100] 0 2)) 49 = (some [104, 101, 108, 108, 111, 32, 119, 10], 1) ∧
    retOf (vcMotion 100 (exSt [100] 0 2)) = some VC_OK := by decide +kernel
-- `2dd`: both lines; the cursor row is `min 0 (max 0 (0 - 1)) = 0`
example : linesOf (vcMotion 100 { exSt [100] 0 2 with arg1 := 2 }) = [] ∧
    cursorOf (vcMotion 100 { exSt [100] 0 2 with arg1 := 2 }) = (0, 0) := by decide +kernel
-- `dj` on the last line deletes that line alone; the cursor goes up to the new last line
example : linesOf (vcMotion 100 (exSt [106] 1 0)) = [[104, 101, 108, 108, 111, 32, 119, 10]] ∧
    cursorOf (vcMotion 100 (exSt [106] 1 0)) = (0, 0) := by decide +kernel
-- `dk` on the last line: both lines
example : linesOf (vcMotion 100 (exSt [107] 1 0)) = [] := by decide +kernel
-- `yy`: the text stays, the register receives the line, the cursor keeps its column
example : linesOf (vcMotion 121 (exSt [121] 0 2)) = [[104, 101, 108, 108, 111, 32, 119, 10], [98, 10]] ∧
    regOf (vcMotion 121 (exSt [121] 0 2)) 0 = (some [104, 101, 108, 108, 111, 32, 119, 10], 1) ∧
    cursorOf (vcMotion 121 (exSt [121] 0 2)) = (0, 2) := by decide +kernel
-- `x` (SPC pushed back) on the 2-byte character `é`: the whole character goes
example : linesOf (vcMotion 100 { exU [] 1 1 with vibuf := [32] }) = [[104, 101, 108, 10], [97, 228, 184, 173, 98, 10]] ∧
    cursorOf (vcMotion 100 { exU [] 1 1 with vibuf := [32] }) = (1, 1) ∧
    regOf (vcMotion 100 { exU [] 1 1 with vibuf := [32] }) 0 = (some [195, 169], 0) := by decide +kernel
-- `3x` on the `o` of `hello w`: only the two characters that are left
example : linesOf (vcMotion 100 { exSt [] 0 5 with vibuf := [32], arg1 := 3 }) = [[104, 101, 108, 108, 111, 10], [98, 10]] ∧
    cursorOf (vcMotion 100 { exSt [] 0 5 with vibuf := [32], arg1 := 3 }) = (0, 5) := by decide +kernel
-- `X` with the count 5 from offset 2: the two characters before the cursor
example : linesOf (vcMotion 100 { exSt [] 0 2 with vibuf := [8], arg1 := 5 }) = [[108, 108, 111, 32, 119, 10], [98, 10]] ∧
    cursorOf (vcMotion 100 { exSt [] 0 2 with vibuf := [8], arg1 := 5 }) = (0, 0) := by decide +kernel
-- `D`
example : linesOf (vcMotion 100 { exSt [] 0 2 with vibuf := [36] }) = [[104, 101, 10], [98, 10]] ∧
    cursorOf (vcMotion 100 { exSt [] 0 2 with vibuf := [36] }) = (0, 2) := by decide +kernel
-- `d0`
example : linesOf (vcMotion 100 (exSt [48] 0 2)) = [[108, 108, 111, 32, 119, 10], [98, 10]] ∧
    cursorOf (vcMotion 100 (exSt [48] 0 2)) = (0, 0) := by decide +kernel
-- `de` (inclusive)
example : linesOf (vcMotion 100 (exSt [101] 0 0)) = [[32, 119, 10], [98, 10]] ∧
    regOf (vcMotion 100 (exSt [101] 0 0)) 0 = (some [104, 101, 108, 108, 111], 0) := by decide +kernel
-- `dfo` (inclusive)
example : linesOf (vcMotion 100 (exSt [102, 111] 0 1)) = [[104, 32, 119, 10], [98, 10]] ∧
    cursorOf (vcMotion 100 (exSt [102, 111] 0 1)) = (0, 1) := by decide +kernel
-- `dto` (up to, not including, the `o`)
example : linesOf (vcMotion 100 (exSt [116, 111] 0 1)) = [[104, 111, 32, 119, 10], [98, 10]] := by decide +kernel
-- `dw`
example : linesOf (vcMotion 100 (exSt [119] 0 0)) = [[119, 10], [98, 10]] := by decide +kernel
-- `dw` on the last word of a line: `vc_motion` has no special rule, the newline goes too
example : linesOf (vcMotion 100 (exSt [119] 0 6)) = [[104, 101, 108, 108, 111, 32, 98, 10]] := by decide +kernel
-- a failed motion (`dfz`): nothing changes, `vc_motion` returns 0
example : linesOf (vcMotion 100 (exSt [102, 122] 0 1)) = [[104, 101, 108, 108, 111, 32, 119, 10], [98, 10]] ∧
    retOf (vcMotion 100 (exSt [102, 122] 0 1)) = some 0 := by decide +kernel
-- through the dispatcher: the key `x`
example : (match commandTail (exSt [120] 0 1) with | Res.ok _ s => lines s | _ => []) =
    [[104, 108, 108, 111, 32, 119, 10], [98, 10]] := by decide +kernel

-- `dl` / `dh` (through the renderer); `dl` on the last character deletes nothing
example : linesOf (vcMotion 100 { exSt [108] 0 1 with arg1 := 2 }) = [[104, 108, 111, 32, 119, 10], [98, 10]] ∧
    linesOf (vcMotion 100 (exSt [108] 0 6)) = [[104, 101, 108, 108, 111, 32, 119, 10], [98, 10]] ∧
    linesOf (vcMotion 100 (exSt [104] 0 2)) = [[104, 108, 108, 111, 32, 119, 10], [98, 10]] := by decide +kernel
-- the hypotheses of the theorems are satisfiable: `x` on the `é` of `aé中b`
example : OnRow { exU [] 1 1 with vibuf := [32] } [97, 233, 20013, 98] 1 :=
  ⟨by decide, by decide +kernel, by decide, by decide, rfl, by decide⟩
example : ∃ s', vcMotion 100 { exU [] 1 1 with vibuf := [32] } = Res.ok VC_OK s' ∧
    lines s' = [[104, 101, 108, 10], encStr [97, 20013, 98, 10]] ∧ s'.ed.xoff = 1 := by
  obtain ⟨s', e, h⟩ := x_spec { exU [] 1 1 with vibuf := [32] } (exU [] 1 1) 0 [97, 233, 20013, 98] 1
    (prefixed_none _ _ 32 rfl (by decide)) ⟨by decide, by decide +kernel, by decide, by decide, rfl, by decide⟩
  exact ⟨s', e, h.lines, h.xoff⟩

-- a second count: `d2j` (both lines), `2d2l` (count 4), `d3x`-like `3` then SPC
example : linesOf (vcMotion 100 (exSt [50, 106] 0 0)) = [] ∧
    linesOf (vcMotion 100 { exSt [50, 108] 0 0 with arg1 := 2 }) = [[111, 32, 119, 10], [98, 10]] ∧
    linesOf (vcMotion 100 (exSt [51, 32] 0 1)) = [[104, 111, 32, 119, 10], [98, 10]] := by decide +kernel
-- … and through the theorems: `d3 SPC` on `hello w` from offset 1 deletes `[1, 4)`
example : ∃ s', vcMotion 100 (exSt [51, 32] 0 1) = Res.ok VC_OK s' ∧
    lines s' = [encStr [104, 111, 32, 119, 10], [98, 10]] ∧ s'.ed.xoff = 1 := by
  have hp : Prefixed (exSt [51, 32] 0 1) 3 32 (Lemmas.C08b.afterRead (Lemmas.C08b.afterRead (exSt [51, 32] 0 1))) :=
    prefixed_digit _ _ _ 51 32 (viRead_pending _ 51 [32] rfl rfl).1 (by decide) (by decide)
      (viRead_pending _ 32 [] rfl (viRead_pending _ 51 [32] rfl rfl).2.1).1 (by decide)
  obtain ⟨s', e, h⟩ := x_spec _ _ 3 [104, 101, 108, 108, 111, 32, 119] 1 hp
    ⟨by decide, by decide +kernel, by decide, by decide, rfl, by decide⟩
  exact ⟨s', e, h.lines, h.xoff⟩

end Neatvi.Props.C08f
