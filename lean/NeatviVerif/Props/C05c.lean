import NeatviVerif.Lemmas.C05cCmd
import NeatviVerif.Props.C05b
import NeatviVerif.Props.C08b
import NeatviVerif.Drive.Vi
/-!
# C05c: the counts of a vi command stay within their bounds in every state the editor reaches

`C05b` proved that `vi_prefix()` returns a number in `[0, 999999999]`, that the three places which assign
`vi_arg1` / `vi_arg2` keep `CountsFit` (both counts in `[0, 999999999]`) and that `vi_cnt()` cannot overflow
when `CountsFit` holds.  What was missing: that `CountsFit` is an *invariant*.  This file closes the gap.

* `PresFit m`: a computation that returns normally takes a state with `CountsFit` to a state with
  `CountsFit`.  It is closed under `pure`, bind, `if`, `match`, recursion by fuel; every function that does
  not mention the counts has it through the stronger frame fact `Same` of `Lemmas/C05cFrame.lean`,
  `Lemmas/C05cCmd.lean` (the counts are *unchanged*), and the three assignment sites have it through
  `C05b.countsFit_assign`.  The tactic `presfit_tac` walks a `do` block.
* `presFit_viStep`: one iteration of the command loop of `vi()` keeps `CountsFit` — for every command,
  including the ex commands entered through `:` (`exCommandV` works on `VS.ed`).
* `viStep_establishes_fit`: in fact every completed iteration *establishes* `CountsFit`, whatever the
  state before (`vi_arg2 = 0`, `vi_arg1 = vi_prefix()` at the start of every iteration).
* `countsFit_reachable`, `count_arithmetic_fits`: every state reached by iterating `viStep` from a state
  with `CountsFit` has `CountsFit`, hence `1 ≤ vi_cnt() ≤ 999999999` and the product `vi_cnt()` forms is a
  `long long`.

The driver iterates `viStep` in `Drive/Vi.lean` (`runModel.loop`: stop at `eof` / `trap` / `xquit`);
`iterate n` below is that iteration without the bookkeeping of the driver (the state after `n` successful
`viStep`s), and `countsFit_runModel` is the statement for the driver's own loop: every state it records.
-/
set_option linter.unusedSimpArgs false
set_option linter.unusedVariables false

namespace Neatvi.Props.C05c
open Neatvi Neatvi.Uc Neatvi.Lbuf Neatvi.Ex Neatvi.Mot Neatvi.Vi
open Neatvi.Lemmas.C05b Neatvi.Lemmas.C05c

/-! ## K1. the invariance predicate, its closure lemmas, the tactic -/

/-- a computation that returns normally keeps both counts within `[0, 999999999]` -/
def PresFit {α : Type} (m : M α) : Prop :=
  ∀ s a s', CountsFit s → m s = Res.ok a s' → CountsFit s'

/-- `CountsFit` depends on the two counts only -/
theorem countsFit_of_args {s s' : VS} (h1 : s'.arg1 = s.arg1) (h2 : s'.arg2 = s.arg2) (h : CountsFit s) :
    CountsFit s' := by
  unfold CountsFit at *
  rw [h1, h2]
  exact h

namespace PresFit

/-- the frame fact is the stronger one: a computation that leaves the counts alone keeps `CountsFit` -/
theorem of_same {α : Type} {m : M α} (h : Same m) : PresFit m := by
  intro s a s' hs hm
  obtain ⟨h1, h2⟩ := h s a s' hm
  exact countsFit_of_args h1 h2 hs

theorem pure {α : Type} (a : α) : PresFit (Pure.pure a : M α) := of_same (Same.pure a)

theorem bind {α β : Type} {m : M α} {f : α → M β} (hm : PresFit m) (hf : ∀ a, PresFit (f a)) :
    PresFit (m >>= f) := by
  intro s b s' hs h
  obtain ⟨a, s1, h1, h2⟩ := bind_inv _ _ _ _ _ h
  exact hf a _ _ _ (hm _ _ _ hs h1) h2

theorem get : PresFit Vi.get := of_same Same.get

theorem trap {α : Type} : PresFit (Vi.trap : M α) := of_same Same.trap

/-- a state update that leaves the counts alone -/
theorem modify {f : VS → VS} (hf : ∀ s, (f s).arg1 = s.arg1 ∧ (f s).arg2 = s.arg2) : PresFit (Vi.modify f) :=
  of_same (Same.modify hf)

/-- a state update that keeps `CountsFit` -/
theorem modify' {f : VS → VS} (hf : ∀ s, CountsFit s → CountsFit (f s)) : PresFit (Vi.modify f) := by
  intro s a s' hs h
  cases h
  exact hf s hs

theorem withEd (f : Ed → Ed) : PresFit (Vi.withEd f) := of_same (Same.withEd f)

theorem ite {α : Type} {p : Prop} [Decidable p] {a b : M α} (ha : PresFit a) (hb : PresFit b) :
    PresFit (if p then a else b) := by
  split <;> assumption

/-- `match` on an option (the general `match` is handled by `split` in the tactic) -/
theorem matchOption {α β : Type} (o : Option β) {a : M α} {b : β → M α} (ha : PresFit a) (hb : ∀ x, PresFit (b x)) :
    PresFit (match o with | none => a | some x => b x) := by
  cases o
  · exact ha
  · exact hb _

/-- recursion by fuel: `repeatM` -/
theorem repeatM (n : Nat) {m : M Unit} (hm : PresFit m) : PresFit (Vi.repeatM n m) := by
  induction n with
  | zero => exact pure _
  | succ n ih => exact bind hm (fun _ => ih)

/-- recursion by fuel, in general: a family `F fuel x` whose step calls `F` with less fuel only through
    a context that keeps `PresFit` -/
theorem fuel {α ι : Type} (F : Nat → ι → M α) (h0 : ∀ x, PresFit (F 0 x))
    (hs : ∀ f, (∀ x, PresFit (F f x)) → ∀ x, PresFit (F (f + 1) x)) : ∀ f x, PresFit (F f x) := by
  intro f
  induction f with
  | zero => exact h0
  | succ f ih => exact hs f ih

end PresFit

/-! ### the three assignment sites -/

/-- `vi_arg2 = 0` (`viPre`) -/
theorem presFit_reset_arg2 : PresFit (Vi.modify fun s => { s with arg2 := 0 }) := by
  refine PresFit.modify' (fun s hs => ?_)
  exact ⟨hs.1, hs.2.1, Int.le_refl 0, (by decide : (0 : Int) ≤ 999999999)⟩

/-- `vi_arg1 = vi_prefix()` (`viPre`), through `C05b.countsFit_assign` -/
theorem presFit_assign_arg1 {β : Type} {f : Int → M β} (hf : ∀ a, PresFit (f a)) :
    PresFit (viPrefix >>= fun a => Vi.modify (fun s => { s with arg1 := a }) >>= fun _ => f a) := by
  intro s b s' hs h
  obtain ⟨a, s1, h1, h2⟩ := bind_inv _ _ _ _ _ h
  obtain ⟨u, s2, h3, h4⟩ := bind_inv _ _ _ _ _ h2
  cases h3
  exact hf a _ _ _ (C05b.countsFit_assign s s1 a hs h1).1 h4

/-- `vi_arg2 = vi_prefix()` (`vcMotion`), through `C05b.countsFit_assign` -/
theorem presFit_assign_arg2 {β : Type} {f : Int → M β} (hf : ∀ a, PresFit (f a)) :
    PresFit (viPrefix >>= fun a => Vi.modify (fun s => { s with arg2 := a }) >>= fun _ => f a) := by
  intro s b s' hs h
  obtain ⟨a, s1, h1, h2⟩ := bind_inv _ _ _ _ _ h
  obtain ⟨u, s2, h3, h4⟩ := bind_inv _ _ _ _ _ h2
  cases h3
  exact hf a _ _ _ (C05b.countsFit_assign s s1 a hs h1).2.1 h4

/-! ### the tactic -/

/-- the leaves: everything that has the frame property `Same`, and whatever `macro_rules` add -/
syntax "presfit_leaf" : tactic
macro_rules | `(tactic| presfit_leaf) => `(tactic| first
  | with_reducible assumption
  | with_reducible exact presFit_reset_arg2
  | exact PresFit.of_same (by same_leaf))

macro "presfit_step" : tactic => `(tactic| first
  | presfit_leaf
  | with_reducible refine presFit_assign_arg1 (fun _ => ?_)
  | with_reducible refine presFit_assign_arg2 (fun _ => ?_)
  | with_reducible refine PresFit.repeatM _ ?_
  | with_reducible refine PresFit.bind ?_ (fun _ => ?_)
  | with_reducible refine PresFit.ite ?_ ?_
  | dsimp only
  | (show PresFit _; split))

macro "presfit_tac" : tactic => `(tactic| repeat' presfit_step)

/-! ## K2. every function `viStep` calls -/

/-! ### the leaves: they do not mention the counts (frame facts of `Lemmas/C05cFrame`, `Lemmas/C05cCmd`) -/

theorem presFit_termRead : PresFit termRead := .of_same same_termRead
theorem presFit_termPush (x : Bytes) : PresFit (termPush x) := .of_same (same_termPush x)
theorem presFit_termCmd : PresFit termCmd := .of_same same_termCmd
theorem presFit_viRead : PresFit viRead := .of_same same_viRead
theorem presFit_viBack (c : Int) : PresFit (viBack c) := .of_same (same_viBack c)
theorem presFit_unmodelled : PresFit Vi.unmodelled := .of_same same_unmodelled
theorem presFit_setMsg (m : Bytes) : PresFit (setMsg m) := .of_same (same_setMsg m)
theorem presFit_liftO {α : Type} (o : Option α) : PresFit (liftO o) := .of_same (Same.liftO o)
theorem presFit_edEdit (txt : Option Bytes) (b e : Int) : PresFit (edEdit txt b e) := .of_same (same_edEdit txt b e)
theorem presFit_setPos (r o : Int) : PresFit (setPos r o) := .of_same (same_setPos r o)
theorem presFit_setRow (r : Int) : PresFit (setRow r) := .of_same (same_setRow r)
theorem presFit_setOff (o : Int) : PresFit (setOff o) := .of_same (same_setOff o)
theorem presFit_setTop (t : Int) : PresFit (setTop t) := .of_same (same_setTop t)
theorem presFit_markSet (c : Nat) (r o : Int) : PresFit (markSet c r o) := .of_same (same_markSet c r o)
theorem presFit_markSave : PresFit markSave := .of_same same_markSave
theorem presFit_regPut (c : Nat) (txt : Bytes) (ln : Nat) : PresFit (regPut c txt ln) := .of_same (same_regPut c txt ln)
theorem presFit_drawfixTop (r : Int) (p : Bool) : PresFit (drawfixTop r p) := .of_same (same_drawfixTop r p)
theorem presFit_viNextline : PresFit viNextline := .of_same same_viNextline
theorem presFit_viNextlineR : PresFit viNextlineR := .of_same same_viNextlineR
theorem presFit_lbufModified : PresFit lbufModified := .of_same same_lbufModified

/-! ### prefixes, prompts, motions -/

theorem presFit_viYankbuf : PresFit viYankbuf := .of_same same_viYankbuf
theorem presFit_viPrefix : PresFit viPrefix := .of_same same_viPrefix
theorem presFit_readCharS (c : Int) (kmap : Nat) : PresFit (readCharS c kmap) := .of_same (same_readCharS c kmap)
theorem presFit_ledLine (pref post ai0 : Bytes) (aiMax : Nat) (im ex : Bool) :
    PresFit (ledLine pref post ai0 aiMax im ex) := .of_same (same_ledLine pref post ai0 aiMax im ex)
theorem presFit_viPrompt (ex : Bool) : PresFit (viPrompt ex) := .of_same (same_viPrompt ex)
theorem presFit_viChar : PresFit viChar := .of_same same_viChar
theorem presFit_viSearch (cmd : Nat) (cnt r o : Int) : PresFit (viSearch cmd cnt r o) := .of_same (same_viSearch cmd cnt r o)
theorem presFit_viMotionln (row cmd : Int) : PresFit (viMotionln row cmd) := .of_same (same_viMotionln row cmd)
theorem presFit_viMotion (row off : Int) : PresFit (viMotion row off) := .of_same (same_viMotion row off)

/-! ### insert mode, operators, the other commands -/

theorem presFit_ledInput (pref post : Bytes) : PresFit (ledInput pref post) := .of_same (same_ledInput pref post)
theorem presFit_viInput (pref post : Bytes) : PresFit (viInput pref post) := .of_same (same_viInput pref post)
theorem presFit_viYank (r1 o1 r2 o2 : Int) (ln : Bool) : PresFit (viYank r1 o1 r2 o2 ln) := .of_same (same_viYank _ _ _ _ _)
theorem presFit_viDelete (r1 o1 r2 o2 : Int) (ln : Bool) : PresFit (viDelete r1 o1 r2 o2 ln) := .of_same (same_viDelete _ _ _ _ _)
theorem presFit_viChange (r1 o1 r2 o2 : Int) (ln : Bool) : PresFit (viChange r1 o1 r2 o2 ln) := .of_same (same_viChange _ _ _ _ _)
theorem presFit_viCase (r1 o1 r2 o2 : Int) (ln : Bool) (cmd : Nat) : PresFit (viCase r1 o1 r2 o2 ln cmd) :=
  .of_same (same_viCase _ _ _ _ _ _)
theorem presFit_viShift (r1 r2 dir : Int) : PresFit (viShift r1 r2 dir) := .of_same (same_viShift _ _ _)
theorem presFit_vcInsert (cmd : Nat) : PresFit (vcInsert cmd) := .of_same (same_vcInsert cmd)
theorem presFit_vcPut (cmd : Nat) : PresFit (vcPut cmd) := .of_same (same_vcPut cmd)
theorem presFit_vcJoin : PresFit vcJoin := .of_same same_vcJoin
theorem presFit_vcReplace : PresFit vcReplace := .of_same same_vcReplace
theorem presFit_scrollForward (cnt : Int) : PresFit (scrollForward cnt) := .of_same (same_scrollForward cnt)
theorem presFit_scrollBackward (cnt : Int) : PresFit (scrollBackward cnt) := .of_same (same_scrollBackward cnt)
theorem presFit_viWfix : PresFit viWfix := .of_same same_viWfix
theorem presFit_viWait : PresFit viWait := .of_same same_viWait
theorem presFit_vcExecute : PresFit vcExecute := .of_same same_vcExecute
theorem presFit_vcRepeat : PresFit vcRepeat := .of_same same_vcRepeat

/-- the ex commands entered through `:` (and `ZZ`): they work on `VS.ed` and never see the counts -/
theorem presFit_exCommandV (ln : Bytes) : PresFit (exCommandV ln) := .of_same (same_exCommandV ln)

/-! ### an operator with its motion: the second count is assigned here -/

/-- `vc_motion(cmd)`: `vi_arg2 = vi_prefix()`, then the motion and the operator, which leave the counts alone -/
theorem presFit_vcMotion (cmd : Nat) : PresFit (vcMotion cmd) := by
  unfold vcMotion
  presfit_tac
macro_rules | `(tactic| presfit_leaf) => `(tactic| with_reducible exact presFit_vcMotion _)

/-! ### the four parts of an iteration, and the iteration -/

/-- the start of an iteration: `vi_arg2 = 0`, `vi_arg1 = vi_prefix()`, the motion -/
theorem presFit_viPre : PresFit viPre := by
  unfold viPre
  presfit_tac

theorem presFit_motionTail (mv nrow noff : Int) : PresFit (motionTail mv nrow noff) :=
  .of_same (same_motionTail mv nrow noff)

/-- the command switch of `vi()`: every branch -/
theorem presFit_commandTail : PresFit commandTail := by
  unfold commandTail
  presfit_tac

theorem presFit_viPost (cont : Option Nat) : PresFit (viPost cont) := .of_same (same_viPost cont)

/-- what an iteration does once the prefixes and the motion have been read -/
def stepRest (mv nrow noff : Int) : M Unit :=
  (if mv > 0 then motionTail mv nrow noff
    else if mv == 0 then commandTail
    else pure (some 0)) >>= viPost

theorem viStep_eq : viStep = (viPre >>= fun r => stepRest r.1 r.2.1 r.2.2) := rfl

theorem presFit_stepRest (mv nrow noff : Int) : PresFit (stepRest mv nrow noff) := by
  unfold stepRest
  refine PresFit.bind ?_ presFit_viPost
  exact PresFit.ite (presFit_motionTail _ _ _) (PresFit.ite presFit_commandTail (PresFit.pure _))

/-- **one iteration of the command loop of `vi()` keeps both counts within `[0, 999999999]`** -/
theorem presFit_viStep : PresFit viStep := by
  rw [viStep_eq]
  exact PresFit.bind presFit_viPre (fun r => presFit_stepRest _ _ _)

/-! ### every iteration *establishes* the bounds

`vi()` starts an iteration with `vi_arg2 = 0` and `vi_arg1 = vi_prefix()`: the counts left by the command
before are gone by the time anything reads them.  So the motion of a command, the command switch, and the
end of the iteration run in states with `CountsFit` whatever the state at the start of the iteration. -/

/-- what `viPre` does after both counts have been assigned: the second try at a register name, the motion -/
def viPreRest (yb : Nat) (nrow noff : Int) : M (Int × Int × Int) := do
  if yb == 0 then do
    let yb ← viYankbuf
    modify fun s => { s with ybuf := yb }
  viMotion nrow noff

theorem same_viPreRest (yb : Nat) (nrow noff : Int) : Same (viPreRest yb nrow noff) := by
  unfold viPreRest
  same_tac

/-- `viPre` from any state: the counts are within bounds (`vi_arg2 = 0`) when the rest starts -/
theorem viPre_split (s s' : VS) (r : Int × Int × Int) (h : viPre s = Res.ok r s') :
    ∃ yb s1, CountsFit s1 ∧ s1.arg2 = 0 ∧
      viPreRest yb s.ed.xrow (noeol s s.ed.xrow s.ed.xoff) s1 = Res.ok r s' := by
  unfold viPre at h
  obtain ⟨s0, t0, h0, h⟩ := bind_inv _ _ _ _ _ h
  cases h0
  dsimp only at h
  obtain ⟨_, t1, h1, h⟩ := bind_inv _ _ _ _ _ h
  obtain ⟨_, t2, h2, h⟩ := bind_inv _ _ _ _ _ h
  obtain ⟨yb, t3, h3, h⟩ := bind_inv _ _ _ _ _ h
  obtain ⟨_, t4, h4, h⟩ := bind_inv _ _ _ _ _ h
  obtain ⟨a1, t5, h5, h⟩ := bind_inv _ _ _ _ _ h
  obtain ⟨_, t6, h6, h⟩ := bind_inv _ _ _ _ _ h
  cases h2
  cases h4
  cases h6
  have e1 : t5.arg2 = t3.arg2 := (same_viPrefix _ _ _ h5).2
  have e2 : t3.arg2 = 0 := (same_viYankbuf _ _ _ h3).2
  obtain ⟨b0, b1⟩ := C05b.viPrefix_bounded _ _ _ h5
  refine ⟨yb, _, ⟨b0, b1, ?_, ?_⟩, ?_, h⟩
  · show 0 ≤ t5.arg2; omega
  · show t5.arg2 ≤ 999999999; omega
  · show t5.arg2 = 0; omega

/-- the motion of a command — the place that evaluates `vi_cnt()` — starts in a state with `CountsFit`,
    whatever the state at the start of the iteration -/
theorem viPre_motion_at_fit (s s' : VS) (r : Int × Int × Int) (h : viPre s = Res.ok r s') :
    ∃ s2, CountsFit s2 ∧ s2.arg2 = 0 ∧ viMotion s.ed.xrow (noeol s s.ed.xrow s.ed.xoff) s2 = Res.ok r s' := by
  obtain ⟨yb, s1, hf, h0, hr⟩ := viPre_split s s' r h
  unfold viPreRest at hr
  split at hr
  · obtain ⟨yb', s2, h1, hr⟩ := bind_inv _ _ _ _ _ hr
    obtain ⟨_, s3, h2, hr⟩ := bind_inv _ _ _ _ _ hr
    cases h2
    obtain ⟨e1, e2⟩ := same_viYankbuf _ _ _ h1
    exact ⟨{ s2 with ybuf := yb' }, countsFit_of_args (s' := { s2 with ybuf := yb' }) e1 e2 hf, e2.trans h0, hr⟩
  · exact ⟨s1, hf, h0, hr⟩

/-- `viPre` establishes `CountsFit`, with no assumption on the state it starts from -/
theorem viPre_establishes_fit (s s' : VS) (r : Int × Int × Int) (h : viPre s = Res.ok r s') : CountsFit s' := by
  obtain ⟨yb, s1, hf, _, hr⟩ := viPre_split s s' r h
  exact PresFit.of_same (same_viPreRest _ _ _) _ _ _ hf hr

/-- the command switch and the end of an iteration start in a state with `CountsFit` -/
theorem viStep_rest_at_fit (s s' : VS) (u : Unit) (h : viStep s = Res.ok u s') :
    ∃ mv nrow noff s1, viPre s = Res.ok (mv, nrow, noff) s1 ∧ CountsFit s1 ∧ stepRest mv nrow noff s1 = Res.ok u s' := by
  rw [viStep_eq] at h
  obtain ⟨r, s1, h1, h2⟩ := bind_inv _ _ _ _ _ h
  exact ⟨r.1, r.2.1, r.2.2, s1, h1, viPre_establishes_fit _ _ _ h1, h2⟩

/-- **every completed iteration of the command loop establishes `CountsFit`**, whatever the state before -/
theorem viStep_establishes_fit (s s' : VS) (u : Unit) (h : viStep s = Res.ok u s') : CountsFit s' := by
  obtain ⟨mv, nrow, noff, s1, _, hf, h2⟩ := viStep_rest_at_fit s s' u h
  exact presFit_stepRest _ _ _ _ _ _ hf h2

/-- the shape of `vc_motion(cmd)`: `vi_arg2 = vi_prefix()`, then a rest that leaves both counts alone -/
theorem vcMotion_shape (cmd : Nat) :
    ∃ rest : VS → Int → M Nat,
      vcMotion cmd = (Vi.get >>= fun s0 => viPrefix >>= fun a2 =>
        Vi.modify (fun s => { s with arg2 := a2 }) >>= fun _ => rest s0 a2) ∧
      ∀ s0 a2, Same (rest s0 a2) := by
  refine ⟨_, by unfold vcMotion; rfl, fun s0 a2 => ?_⟩
  same_tac

/-- an operator leaves the first count alone, and the second count is what its `vi_prefix()` returned -/
theorem vcMotion_counts (cmd : Nat) (s s' : VS) (m : Nat) (h : vcMotion cmd s = Res.ok m s') :
    s'.arg1 = s.arg1 ∧ 0 ≤ s'.arg2 ∧ s'.arg2 ≤ 999999999 ∧ ∃ s1, viPrefix s = Res.ok s'.arg2 s1 := by
  obtain ⟨rest, he, hr⟩ := vcMotion_shape cmd
  rw [he] at h
  obtain ⟨s0, t0, h0, h⟩ := bind_inv _ _ _ _ _ h
  cases h0
  obtain ⟨a2, t1, h1, h⟩ := bind_inv _ _ _ _ _ h
  obtain ⟨_, t2, h2, h⟩ := bind_inv _ _ _ _ _ h
  cases h2
  obtain ⟨e1, e2⟩ := hr _ _ _ _ _ h
  obtain ⟨b0, b1⟩ := C05b.viPrefix_bounded _ _ _ h1
  have e3 : s'.arg2 = a2 := e2
  have e4 : s'.arg1 = t1.arg1 := e1
  refine ⟨e4.trans (same_viPrefix _ _ _ h1).1, by omega, by omega, t1, ?_⟩
  rw [e3]; exact h1
/-! ## K3. the states the editor reaches -/

/-- the state after `n` successful iterations of the command loop (`none`: the keys ran out inside a
    command, or the model trapped); the driver's `runModel.loop` is this iteration, stopped at `xquit` -/
def iterate : Nat → VS → Option VS
  | 0, s => some s
  | n + 1, s => match viStep s with
    | Res.ok _ s' => iterate n s'
    | _ => none

theorem iterate_succ (n : Nat) (s s1 : VS) (u : Unit) (h : viStep s = Res.ok u s1) :
    iterate (n + 1) s = iterate n s1 := by
  conv => lhs; unfold iterate
  rw [h]

/-- **`CountsFit` is an invariant of the editor**: it holds of every state reached by iterating `viStep`
    from a state in which it holds (the initial state: both counts 0) -/
theorem countsFit_reachable (s₀ : VS) (h0 : CountsFit s₀) : ∀ (n : Nat) (s : VS), iterate n s₀ = some s → CountsFit s := by
  intro n
  induction n generalizing s₀ with
  | zero =>
    intro s h
    unfold iterate at h
    cases h
    exact h0
  | succ n ih =>
    intro s h
    unfold iterate at h
    split at h
    · rename_i u s1 h1
      exact ih s1 (presFit_viStep _ _ _ h0 h1) s h
    · cases h

/-- after at least one completed command the hypothesis on the initial state is not needed -/
theorem countsFit_after_command (s₀ : VS) (n : Nat) (s : VS) (h : iterate (n + 1) s₀ = some s) : CountsFit s := by
  unfold iterate at h
  split at h
  · rename_i u s1 h1
    exact countsFit_reachable s1 (viStep_establishes_fit _ _ _ h1) n s h
  · cases h

/-- **the arithmetic of `vi_cnt()` fits in every reachable state**: the count is in `[1, 999999999]` and the
    product of the two factors, which the C code forms in `long long`, is below `2^63` -/
theorem count_arithmetic_fits (s₀ : VS) (h0 : CountsFit s₀) (n : Nat) (s : VS) (h : iterate n s₀ = some s) :
    1 ≤ cntOf s ∧ cntOf s ≤ 999999999 ∧
    1 ≤ (if s.arg1 != 0 then s.arg1 else 1) * (if s.arg2 != 0 then s.arg2 else 1) ∧
    (if s.arg1 != 0 then s.arg1 else 1) * (if s.arg2 != 0 then s.arg2 else 1) < 2 ^ 63 := by
  have hf := countsFit_reachable s₀ h0 n s h
  exact C05b.cntOf_bounded s hf.1 hf.2.1 hf.2.2.1 hf.2.2.2

/-- the same inside a command: where the motion of the (n+1)-th command starts — the state in which
    `viMotion` / `viMotionln` evaluate `vi_cnt()` — the count is in `[1, 999999999]` -/
theorem count_arithmetic_fits_at_motion (s₀ : VS) (n : Nat) (s s' : VS) (r : Int × Int × Int)
    (_h : iterate n s₀ = some s) (hp : viPre s = Res.ok r s') :
    ∃ s2, viMotion s.ed.xrow (noeol s s.ed.xrow s.ed.xoff) s2 = Res.ok r s' ∧
      1 ≤ cntOf s2 ∧ cntOf s2 ≤ 999999999 := by
  obtain ⟨s2, hf, _, hm⟩ := viPre_motion_at_fit s s' r hp
  exact ⟨s2, hm, C05b.cntOf_bounded_of_fit s2 hf⟩

/-! ### the iteration of the driver

`Drive/Vi.lean` runs the model with `runModel`: `ex_init`, `viInit`, then `runModel.loop`, which iterates
`viStep` until the keys run out, the model traps, `xquit` is set or the fuel is used up, and records every
state at a command boundary in `Run.states`. -/

open Neatvi.Drive.ViD in
theorem runModel_loop_states_fit (n : Nat) : ∀ (f : Nat) (s : VS) (bds : List Bd) (sts : List VS) (um : Option Nat),
    CountsFit s → (∀ t ∈ sts, CountsFit t) → ∀ t ∈ (runModel.loop n f s bds sts um).states, CountsFit t := by
  intro f
  induction f with
  | zero =>
    intro s bds sts um hs hst t ht
    unfold runModel.loop at ht
    exact hst t (List.mem_reverse.mp ht)
  | succ f ih =>
    intro s bds sts um hs hst t ht
    have hall : ∀ t ∈ (s :: sts).reverse, CountsFit t := by
      intro t ht
      rcases List.mem_cons.mp (List.mem_reverse.mp ht) with e | e
      · exact e ▸ hs
      · exact hst t e
    unfold runModel.loop at ht
    dsimp only at ht
    split at ht
    · rename_i u s' h1
      split at ht
      · exact hall t ht
      · exact ih s' _ _ _ (presFit_viStep _ _ _ hs h1) (fun t ht => hall t (List.mem_reverse.mpr ht)) t ht
    · exact hall t ht
    · exact hall t ht

/-- the initial state of `vi()` (`viInit`): both counts are 0 -/
theorem countsFit_viInit (ed : Ed) (keys : Bytes) (rows cols : Int) : CountsFit (viInit ed keys rows cols) :=
  ⟨Int.le_refl 0, (by decide : (0 : Int) ≤ 999999999), Int.le_refl 0, (by decide : (0 : Int) ≤ 999999999)⟩

open Neatvi.Drive.ViD in
/-- **every state at a command boundary of a run of the driver has `CountsFit`**: for every file, every
    key sequence and every window size -/
theorem countsFit_runModel (file : Option Bytes) (keys : Bytes) (rows cols : Int) (run : Run)
    (h : runModel file keys rows cols = some run) : ∀ s ∈ run.states, CountsFit s := by
  unfold runModel at h
  dsimp only at h
  split at h
  · cases h
  · cases h
    exact runModel_loop_states_fit _ _ _ _ _ _ (countsFit_viInit _ _ _ _) (fun t ht => by cases ht)

open Neatvi.Drive.ViD in
/-- ... hence `vi_cnt()` is in `[1, 999999999]` and its product a `long long` in every one of them -/
theorem count_arithmetic_fits_runModel (file : Option Bytes) (keys : Bytes) (rows cols : Int) (run : Run)
    (h : runModel file keys rows cols = some run) (s : VS) (hs : s ∈ run.states) :
    1 ≤ cntOf s ∧ cntOf s ≤ 999999999 ∧
    1 ≤ (if s.arg1 != 0 then s.arg1 else 1) * (if s.arg2 != 0 then s.arg2 else 1) ∧
    (if s.arg1 != 0 then s.arg1 else 1) * (if s.arg2 != 0 then s.arg2 else 1) < 2 ^ 63 := by
  have hf := countsFit_runModel file keys rows cols run h s hs
  exact C05b.cntOf_bounded s hf.1 hf.2.1 hf.2.2.1 hf.2.2.2

/-! ## K4. non-vacuity -/

/-- the initial states of the examples of `Props/C08b.lean`: both counts are 0 -/
theorem countsFit_exSt (keys : Bytes) (row off : Int) : CountsFit (C08b.exSt keys row off) :=
  ⟨Int.le_refl 0, (by decide : (0 : Int) ≤ 999999999), Int.le_refl 0, (by decide : (0 : Int) ≤ 999999999)⟩

/-- the keys `99999999999d99999999999d` -/
def hugeKeys : Bytes :=
  [57, 57, 57, 57, 57, 57, 57, 57, 57, 57, 57, 100, 57, 57, 57, 57, 57, 57, 57, 57, 57, 57, 57, 100]

/-- one iteration on `99999999999d99999999999d` (computed by the kernel): both counts saturate at
    999999999, `vi_cnt()` is 999999999, the two lines of the buffer are deleted and all keys consumed -/
example : (match viStep (C08b.exSt hugeKeys 0 0) with
    | Res.ok _ s' => (s'.arg1, s'.arg2, cntOf s', lines s', s'.typed)
    | _ => (-1, -1, -1, [], [])) = (999999999, 999999999, 999999999, [], []) := by decide +kernel

/-- ... and the state after it satisfies `CountsFit`: by the theorem -/
example : ∀ u s', viStep (C08b.exSt hugeKeys 0 0) = Res.ok u s' → CountsFit s' :=
  fun u s' h => presFit_viStep _ _ _ (countsFit_exSt _ _ _) h

/-- ... and by computation -/
example : (match viStep (C08b.exSt hugeKeys 0 0) with
    | Res.ok _ s' => decide (0 ≤ s'.arg1) && decide (s'.arg1 ≤ 999999999) && decide (0 ≤ s'.arg2) && decide (s'.arg2 ≤ 999999999)
    | _ => false) = true := by decide +kernel

/-- `iterate` reaches a state on these keys (the hypothesis of `countsFit_reachable` is satisfiable) -/
example : (iterate 1 (C08b.exSt hugeKeys 0 0)).isSome = true := by decide +kernel

/-- `2y3l` (computed by the kernel): the two counts are 2 and 3, `vi_cnt()` is 6, six characters are yanked -/
example : (match viStep (C08b.exSt [50, 121, 51, 108] 0 0) with
    | Res.ok _ s' => (s'.arg1, s'.arg2, cntOf s', regGet s'.ed 0)
    | _ => (-1, -1, 0, none)) = (2, 3, 6, some [104, 101, 108, 108, 111, 32]) := by decide +kernel

/-- the `:` prompt with a count before it, left with ESC: `5:1<ESC>` (the kernel cannot evaluate
    `ex_command` inside `viStep` in reasonable space, so the ex commands themselves are covered by the
    theorem only: see the next example) -/
example : (match viStep (C08b.exSt [53, 58, 49, 27] 0 0) with
    | Res.ok _ s' => (s'.arg1, s'.arg2, (lines s').length, s'.typed)
    | _ => (-1, -1, 0, [])) = (5, 0, 2, []) := by decide +kernel

/-- whatever ex command is entered through `:`, and whatever it does to the editor state, the counts are
    as before -/
example (ln : Bytes) (s s' : VS) (rc : Int) (h : exCommandV ln s = Res.ok rc s') :
    s'.arg1 = s.arg1 ∧ s'.arg2 = s.arg2 := same_exCommandV ln s rc s' h

/-- `PresFit` is not trivially true: a computation that stores an arbitrary number in a count fails it -/
example : ¬ PresFit (Vi.modify fun s => { s with arg1 := 1000000000 }) := by
  intro h
  have := h (C08b.exSt [] 0 0) () _ (countsFit_exSt _ _ _) rfl
  exact absurd this.2.1 (by decide)

end Neatvi.Props.C05c
