import NeatviVerif.Lemmas.C20bTable
import NeatviVerif.Lemmas.C02Ex
/-!
# C20b  The buffer table under `:b !` (delete), `:b ~` (renumber), `:b +`, `:b -`; buffer numbers are unique

Complements `Props/C20.lean` (switching).  All statements are about `runCmd … "ec_buffer"`,
`Ed.bufsShift`, `Ed.bufsOpen`, `Ed.bufsSwitch` as the model defines them.
-/
namespace Neatvi.Props.C20b
open Neatvi Neatvi.Lbuf Neatvi.Ex Neatvi.Props.C20 Neatvi.Lemmas.C20b

/-! ### `ec_buffer` with an argument, piece by piece -/

/-- the empty unnamed buffer `:b !` creates when no buffer is left -/
def freshBuf (ed : Ed) : Buf := { path := [], lb := Lbuf.make, id := ed.bufsCnt + 1 }

/-- `:b !` -/
def delEd (ed : Ed) : Ed :=
  if ed.bufsShift.cur.isNone then
    { ed.bufsShift with bufs := ed.bufsShift.bufs.set 0 (some (freshBuf ed.bufsShift)),
                        bufsCnt := ed.bufsShift.bufsCnt + 1 }
  else ed.bufsShift

/-- `:b ~` -/
def renumEd (ed : Ed) : Ed :=
  { ed with bufs := (ed.bufs.foldl renumStep ([], 0)).1, bufsCnt := (ed.bufs.foldl renumStep ([], 0)).2 }

/-- the number of the current buffer (0 when there is none) -/
def curId (ed : Ed) : Int := (ed.cur.map (·.id)).getD 0

/-- the number of the buffer in slot `i` -/
def idOf (ed : Ed) (i : Nat) : Option Int := (ed.bufs.getD i none).map (·.id)

/-- the slot `:b +` computes -/
def nextIdx (ed : Ed) : Int :=
  pickFold (idOf ed) (fun x => decide (x > curId ed)) (fun x y => decide (x < y)) ed.bufs.length

/-- the slot `:b -` computes -/
def prevIdx (ed : Ed) : Int :=
  pickFold (idOf ed) (fun x => decide (x < curId ed)) (fun x y => decide (x > y)) ed.bufs.length

/-- the end of `ec_buffer`: switch to slot `idx` if it holds a buffer and the unsaved-changes guard
    lets go; otherwise fail -/
def switchTo (ed : Ed) (cmd : Bytes) (idx : Int) : R Int :=
  if idx ≥ 0 && idx < ed.bufs.length && (ed.bufs.getD idx.toNat none).isSome then
    match bufferGuard ed cmd with
    | none => none
    | some (true, ed) => some (1, ed)
    | some (false, ed) => some (0, ed.bufsSwitch idx.toNat)
  else some (1, ed.show (strOf "no such buffer"))

/-- the `ec_buffer` branch of `runCmd` for a non-empty argument, as the model writes it -/
def ecBufferTail (ed : Ed) (cmd arg : Bytes) : R Int :=
  if arg.headD 0 == 33 then
    let ed := ed.bufsShift
    if ed.cur.isNone then
      let b : Buf := { path := [], lb := Lbuf.make, id := ed.bufsCnt + 1 }
      some (0, { ed with bufs := ed.bufs.set 0 (some b), bufsCnt := ed.bufsCnt + 1 })
    else some (0, ed)
  else if arg.headD 0 == 126 then
    let (bufs, n) := ed.bufs.foldl (fun (acc : List (Option Buf) × Int) b =>
      match b with
      | some x => (acc.1 ++ [some { x with id := acc.2 + 1 }], acc.2 + 1)
      | none => (acc.1 ++ [none], acc.2)) ([], 0)
    some (0, { ed with bufs := bufs, bufsCnt := n })
  else
    let id := exAtoi arg
    let curId := (ed.cur.map (·.id)).getD 0
    let idOf (i : Nat) : Option Int := (ed.bufs.getD i none).map (·.id)
    let idx : Int :=
      if isDigitC (arg.headD 0) then
        (match (List.range ed.bufs.length).find? (fun i => idOf i == some id) with | some i => i | none => ed.bufs.length)
      else if arg.headD 0 == 45 then
        (List.range ed.bufs.length).foldl (fun (best : Int) i =>
          match idOf i with
          | some x => if x < curId && (best < 0 || x > (idOf best.toNat).getD 0) then i else best
          | none => best) (-1)
      else if arg.headD 0 == 43 then
        (List.range ed.bufs.length).foldl (fun (best : Int) i =>
          match idOf i with
          | some x => if x > curId && (best < 0 || x < (idOf best.toNat).getD 0) then i else best
          | none => best) (-1)
      else match (List.range 3).find? (fun i => (strOf "%#^").getD i 0 == arg.headD 0) with
        | some i => i
        | none => -1
    if idx ≥ 0 && idx < ed.bufs.length && (ed.bufs.getD idx.toNat none).isSome then
      let guard : R Bool := if ed.xwa == 0 && !hasBang cmd then bufsModified ed 0 (some (strOf "buffer modified")) else some (false, ed)
      match guard with
      | none => none
      | some (true, ed) => some (1, ed)
      | some (false, ed) => some (0, ed.bufsSwitch idx.toNat)
    else some (1, ed.show (strOf "no such buffer"))

theorem runCmd_buffer (f : Nat) (ed : Ed) (loc cmd arg : Bytes) (txt : Option Bytes) (h : arg.isEmpty = false) :
    runCmd (f + 1) ed "ec_buffer" loc cmd arg txt = ecBufferTail ed cmd arg := by
  rw [runCmd.eq_2]
  simp only [String.reduceBEq, Bool.false_eq_true, if_false, if_true, Bool.or_self, h]
  rfl

theorem isEmpty_of_headD {arg : Bytes} {c : Nat} (h : arg.headD 0 = c) (hc : c ≠ 0) : arg.isEmpty = false := by
  cases arg with
  | nil => exact absurd h.symm hc
  | cons a l => rfl

/-- `:b !` is `delEd` -/
theorem runCmd_b_delete (f : Nat) (ed : Ed) (loc cmd arg : Bytes) (txt : Option Bytes) (h : arg.headD 0 = 33) :
    runCmd (f + 1) ed "ec_buffer" loc cmd arg txt = some (0, delEd ed) := by
  rw [runCmd_buffer f ed loc cmd arg txt (isEmpty_of_headD h (by decide))]
  unfold ecBufferTail delEd freshBuf
  simp only [h, beq_self_eq_true, if_true]
  split <;> rfl

/-- `:b ~` is `renumEd` -/
theorem runCmd_b_renumber (f : Nat) (ed : Ed) (loc cmd arg : Bytes) (txt : Option Bytes) (h : arg.headD 0 = 126) :
    runCmd (f + 1) ed "ec_buffer" loc cmd arg txt = some (0, renumEd ed) := by
  rw [runCmd_buffer f ed loc cmd arg txt (isEmpty_of_headD h (by decide))]
  unfold ecBufferTail renumEd
  simp only [h, show ((126 : Nat) == 33) = false by decide, Bool.false_eq_true, if_false, beq_self_eq_true, if_true]
  rfl

/-- `:b +` switches to `nextIdx` -/
theorem runCmd_b_next (f : Nat) (ed : Ed) (loc cmd arg : Bytes) (txt : Option Bytes) (h : arg.headD 0 = 43) :
    runCmd (f + 1) ed "ec_buffer" loc cmd arg txt = switchTo ed cmd (nextIdx ed) := by
  rw [runCmd_buffer f ed loc cmd arg txt (isEmpty_of_headD h (by decide))]
  unfold ecBufferTail
  simp only [h, show ((43 : Nat) == 33) = false by decide, show ((43 : Nat) == 126) = false by decide,
    show ((43 : Nat) == 45) = false by decide, show isDigitC 43 = false by decide,
    Bool.false_eq_true, if_false, beq_self_eq_true, if_true]
  rfl

/-- `:b -` switches to `prevIdx` -/
theorem runCmd_b_prev (f : Nat) (ed : Ed) (loc cmd arg : Bytes) (txt : Option Bytes) (h : arg.headD 0 = 45) :
    runCmd (f + 1) ed "ec_buffer" loc cmd arg txt = switchTo ed cmd (prevIdx ed) := by
  rw [runCmd_buffer f ed loc cmd arg txt (isEmpty_of_headD h (by decide))]
  unfold ecBufferTail
  simp only [h, show ((45 : Nat) == 33) = false by decide, show ((45 : Nat) == 126) = false by decide,
    show isDigitC 45 = false by decide,
    Bool.false_eq_true, if_false, beq_self_eq_true, if_true]
  rfl

/-! ### D1: `bufs_shift()` -/

theorem bufsLoad_frame (ed : Ed) :
    ed.bufsLoad.bufs = ed.bufs ∧ ed.bufsLoad.files = ed.files ∧ ed.bufsLoad.bufsCnt = ed.bufsCnt ∧
    ed.bufsLoad.regs = ed.regs.put 37 ((ed.cur.map (·.path)).getD []) 0 := by
  unfold Ed.bufsLoad
  split
  · next b h => rw [h]; exact ⟨rfl, rfl, rfl, rfl⟩
  · next h => rw [h]; exact ⟨rfl, rfl, rfl, rfl⟩

/-- `bufs_load()` with no current buffer: the view is zeroed -/
theorem bufsLoad_view_none (ed : Ed) (h : ed.cur = none) :
    ed.bufsLoad.cur = none ∧ ed.bufsLoad.xrow = 0 ∧ ed.bufsLoad.xoff = 0 ∧
    ed.bufsLoad.xtop = 0 ∧ ed.bufsLoad.xleft = 0 ∧ ed.bufsLoad.xtd = 0 := by
  unfold Ed.bufsLoad
  rw [h]
  exact ⟨h, rfl, rfl, rfl, rfl, rfl⟩

theorem bufsShift_bufs (ed : Ed) : ed.bufsShift.bufs = ed.bufs.drop 1 ++ [none] := by
  unfold Ed.bufsShift; rw [bufsLoad_bufs]

theorem bufsShift_getD (ed : Ed) (i : Nat) : ed.bufsShift.bufs.getD i none = ed.bufs.getD (i + 1) none := by
  rw [bufsShift_bufs, getD_shift]

theorem bufsShift_cur (ed : Ed) : ed.bufsShift.cur = ed.bufs.getD 1 none := by
  unfold Ed.cur; rw [bufsShift_getD]

/-- **D1.** `bufs_shift()`: the table keeps its length; slot `i` holds what slot `i + 1` held (for
    every `i`: the last slot becomes empty); the file system and the counter of buffer numbers are
    untouched; the editor's view is loaded by `bufs_load()` from the new slot 0 — the stored
    position of that buffer, or zeros when there is none; register `%` is set to its path.
    (The registers are *not* unchanged: `bufs_load()` sets `%`.) -/
theorem bufsShift_spec (ed : Ed) :
    ed.bufsShift = ({ ed with bufs := ed.bufs.drop 1 ++ [none] }).bufsLoad ∧
    (0 < ed.bufs.length → ed.bufsShift.bufs.length = ed.bufs.length) ∧
    (∀ i, ed.bufsShift.bufs.getD i none = ed.bufs.getD (i + 1) none) ∧
    ed.bufsShift.bufs.getD (ed.bufs.length - 1) none = none ∧
    ed.bufsShift.files = ed.files ∧ ed.bufsShift.bufsCnt = ed.bufsCnt ∧
    ed.bufsShift.regs = ed.regs.put 37 (((ed.bufs.getD 1 none).map (·.path)).getD []) 0 ∧
    (∀ b, ed.bufs.getD 1 none = some b →
      ed.bufsShift.cur = some b ∧ ed.bufsShift.xrow = b.row ∧ ed.bufsShift.xoff = b.off ∧
      ed.bufsShift.xtop = b.top ∧ ed.bufsShift.xleft = b.left ∧ ed.bufsShift.xtd = b.td) ∧
    (ed.bufs.getD 1 none = none →
      ed.bufsShift.cur = none ∧ ed.bufsShift.xrow = 0 ∧ ed.bufsShift.xoff = 0 ∧
      ed.bufsShift.xtop = 0 ∧ ed.bufsShift.xleft = 0 ∧ ed.bufsShift.xtd = 0) := by
  have hcur : ({ ed with bufs := ed.bufs.drop 1 ++ [none] } : Ed).cur = ed.bufs.getD 1 none := by
    show (ed.bufs.drop 1 ++ [none]).getD 0 none = _
    rw [getD_shift]
  obtain ⟨_, hf, hc, hr⟩ := bufsLoad_frame { ed with bufs := ed.bufs.drop 1 ++ [none] }
  refine ⟨rfl, ?_, bufsShift_getD ed, ?_, hf, hc, ?_, ?_, ?_⟩
  · intro h; rw [bufsShift_bufs]; exact length_shift _ h
  · rw [bufsShift_getD]
    simp only [List.getD_eq_getElem?_getD]
    rw [List.getElem?_eq_none (by omega)]; rfl
  · rw [← hcur]; exact hr
  · intro b hb
    exact bufsLoad_view _ b (hcur.trans hb)
  · intro hb
    exact bufsLoad_view_none _ (hcur.trans hb)

/-! ### D3: the invariants -/

/-- **D3.** the buffer numbers are within `1..bufsCnt` and pairwise different.  (The first conjunct,
    `0 ≤ bufsCnt`, is needed for the invariance: with an empty table and a negative counter the next
    number `bufsCnt + 1` would not be positive.) -/
def IdsOk (ed : Ed) : Prop :=
  0 ≤ ed.bufsCnt ∧
  (∀ i b, ed.bufs.getD i none = some b → 1 ≤ b.id ∧ b.id ≤ ed.bufsCnt) ∧
  (∀ i j bi bj, i ≠ j → ed.bufs.getD i none = some bi → ed.bufs.getD j none = some bj → bi.id ≠ bj.id)

theorem idsOk_iff (ed : Ed) : IdsOk ed ↔ IdsOkL ed.bufs ed.bufsCnt := Iff.rfl

/-- the occupied slots of the table form a prefix -/
def Packed (ed : Ed) : Prop :=
  ∀ i j, i ≤ j → (ed.bufs.getD j none).isSome = true → (ed.bufs.getD i none).isSome = true

theorem packed_iff (ed : Ed) : Packed ed ↔ PackedL ed.bufs := Iff.rfl

theorem getD_replicate_none (n i : Nat) : (List.replicate n (none : Option Buf)).getD i none = none := by
  simp only [List.getD_eq_getElem?_getD, List.getElem?_replicate]
  split <;> rfl

/-- the editor before the first `:e`: an empty table, counter 0 -/
theorem idsOk_init : IdsOk {} := by
  refine ⟨by decide, ?_, ?_⟩
  · intro i b hb; rw [show ({} : Ed).bufs = List.replicate Gen.NBUFS none from rfl, getD_replicate_none] at hb; cases hb
  · intro i j bi bj _ hb; rw [show ({} : Ed).bufs = List.replicate Gen.NBUFS none from rfl, getD_replicate_none] at hb; cases hb

theorem packed_init : Packed {} := by
  intro i j _ hb
  rw [show ({} : Ed).bufs = List.replicate Gen.NBUFS none from rfl, getD_replicate_none] at hb; cases hb

/-- `bufs_open(path)` keeps the numbers unique: the new buffer gets `bufsCnt + 1` -/
theorem idsOk_open (ed : Ed) (p : Bytes) (h : IdsOk ed) : IdsOk (ed.bufsOpen p).2 :=
  idsOkL_set_fresh ed.findRoom (newBuf ed p) rfl h

theorem idsOk_shift (ed : Ed) (h : IdsOk ed) : IdsOk ed.bufsShift := by
  rw [idsOk_iff, bufsShift_bufs, (bufsShift_spec ed).2.2.2.2.2.1]
  exact idsOkL_shift h

theorem packed_shift (ed : Ed) (h : Packed ed) : Packed ed.bufsShift := by
  rw [packed_iff, bufsShift_bufs]
  exact packedL_shift h

/-- leaving a buffer (`leftBufs`) keeps every slot's occupation, path and number -/
theorem leftBufs_id (ed : Ed) (i : Nat) (b : Buf) (h : (leftBufs ed).getD i none = some b) :
    ∃ b', ed.bufs.getD i none = some b' ∧ b'.id = b.id ∧ b'.path = b.path := by
  cases i with
  | zero =>
    cases h0 : ed.bufs.getD 0 none with
    | none => rw [leftBufs_zero_none ed h0] at h; cases h
    | some b0 =>
      rw [leftBufs_zero ed b0 h0] at h
      cases h
      exact ⟨b0, rfl, rfl, rfl⟩
  | succ i =>
    rw [leftBufs_getD ed (i + 1) (by omega)] at h
    exact ⟨b, h, rfl, rfl⟩

theorem leftBufs_isSome (ed : Ed) (i : Nat) :
    ((leftBufs ed).getD i none).isSome = (ed.bufs.getD i none).isSome := by
  cases i with
  | zero =>
    cases h0 : ed.bufs.getD 0 none with
    | none => rw [leftBufs_zero_none ed h0]
    | some b0 => rw [leftBufs_zero ed b0 h0]; rfl
  | succ i => rw [leftBufs_getD ed (i + 1) (by omega)]

/-- where slot `j` of the table after `bufs_switch(idx)` comes from -/
def switchSrc (idx j : Nat) : Nat := if j = 0 then idx else if j ≤ idx then j - 1 else j

theorem switchSrc_inj (idx i j : Nat) (h : switchSrc idx i = switchSrc idx j) : i = j := by
  unfold switchSrc at h
  split at h <;> split at h <;> (try split at h) <;> (try split at h) <;> omega

theorem switchSrc_gt (idx j : Nat) (h : idx < j) : switchSrc idx j = j := by
  unfold switchSrc; rw [if_neg (by omega), if_neg (by omega)]

theorem switchSrc_le (idx j : Nat) (h : j ≤ idx) : switchSrc idx j ≤ idx := by
  unfold switchSrc; split
  · omega
  · omega

theorem switch_getD (ed : Ed) (idx : Nat) (h : idx < ed.bufs.length) (j : Nat) :
    (ed.bufsSwitch idx).bufs.getD j none = (leftBufs ed).getD (switchSrc idx j) none := by
  obtain ⟨h0, h1, h2⟩ := switch_slots ed idx h
  unfold switchSrc
  cases j with
  | zero => simpa using h0
  | succ j =>
    rw [if_neg (by omega)]
    split
    · exact h1 j (by omega)
    · exact h2 (j + 1) (by omega)

theorem bufsSwitch_bufsCnt (ed : Ed) (idx : Nat) : (ed.bufsSwitch idx).bufsCnt = ed.bufsCnt := by
  unfold Ed.bufsSwitch Ed.bufsLoad Ed.bufsSave Ed.setCur
  simp only []
  repeat' split
  all_goals rfl

/-- `bufs_switch(idx)` keeps the numbers unique -/
theorem idsOk_switch (ed : Ed) (idx : Nat) (hidx : idx < ed.bufs.length) (h : IdsOk ed) :
    IdsOk (ed.bufsSwitch idx) := by
  rw [idsOk_iff, bufsSwitch_bufsCnt]
  refine idsOkL_transfer (switchSrc idx) (switchSrc_inj idx) (Int.le_refl _) ?_ h
  intro j b hb
  rw [switch_getD ed idx hidx] at hb
  obtain ⟨b', hb', hid, _⟩ := leftBufs_id ed _ b hb
  exact ⟨b', hb', hid⟩

/-- `bufs_switch(idx)` to an occupied slot keeps the occupied slots a prefix -/
theorem packed_switch (ed : Ed) (idx : Nat) (hocc : (ed.bufs.getD idx none).isSome = true) (h : Packed ed) :
    Packed (ed.bufsSwitch idx) := by
  have hidx : idx < ed.bufs.length := by
    cases hb : ed.bufs.getD idx none with
    | none => rw [hb] at hocc; cases hocc
    | some b => exact (mem_of_getD _ _ _ hb).2
  intro i j hij hj
  rw [switch_getD ed idx hidx, leftBufs_isSome] at hj ⊢
  by_cases hi : i ≤ idx
  · exact h _ idx (switchSrc_le idx i hi) hocc
  · rw [switchSrc_gt idx i (by omega)]
    rw [switchSrc_gt idx j (by omega)] at hj
    exact h i j hij hj

/-- `bufs_open(path)` keeps the occupied slots a prefix: the room policy picks the first free slot -/
theorem packed_open (ed : Ed) (p : Bytes) (h : Packed ed) : Packed (ed.bufsOpen p).2 := by
  rw [packed_iff, (open_uses_free_slot ed p).2.1]
  refine packedL_set _ _ ?_ h
  intro j hj
  rcases room_policy ed with ⟨_, _, h3⟩ | ⟨h1, h3⟩
  · exact h3 j hj
  · exact h3 j (by omega)

/-! ### D2: `:b !` deletes the current buffer -/

theorem freshBuf_fields (ed : Ed) :
    (freshBuf ed).path = [] ∧ (freshBuf ed).lb = Lbuf.make ∧ (freshBuf ed).lb.lines = [] ∧
    (freshBuf ed).id = ed.bufsCnt + 1 ∧ (freshBuf ed).row = 0 ∧ (freshBuf ed).off = 0 ∧
    (freshBuf ed).top = 0 ∧ (freshBuf ed).left = 0 ∧ (freshBuf ed).mtime = -1 :=
  ⟨rfl, rfl, rfl, rfl, rfl, rfl, rfl, rfl, rfl⟩

theorem freshBuf_shift (ed : Ed) : freshBuf ed.bufsShift = freshBuf ed := by
  unfold freshBuf; rw [(bufsShift_spec ed).2.2.2.2.2.1]

theorem delEd_second (ed : Ed) (b1 : Buf) (h : ed.bufs.getD 1 none = some b1) : delEd ed = ed.bufsShift := by
  unfold delEd
  rw [bufsShift_cur, h]
  rfl

theorem delEd_last (ed : Ed) (h : ed.bufs.getD 1 none = none) :
    delEd ed = { ed.bufsShift with bufs := ed.bufsShift.bufs.set 0 (some (freshBuf ed)),
                                   bufsCnt := ed.bufsCnt + 1 } := by
  unfold delEd
  rw [bufsShift_cur, h, freshBuf_shift, (bufsShift_spec ed).2.2.2.2.2.1]
  rfl

theorem shift_set0_getD (ed : Ed) (b : Buf) (i : Nat) :
    (ed.bufsShift.bufs.set 0 (some b)).getD i none = if i = 0 then some b else ed.bufs.getD (i + 1) none := by
  rw [getD_set, bufsShift_getD]
  have : 0 < ed.bufsShift.bufs.length := by rw [bufsShift_bufs]; simp
  by_cases hi : i = 0
  · rw [if_pos ⟨hi, this⟩, if_pos hi]
  · rw [if_neg (fun h => hi h.1), if_neg hi]

/-- **D2.** `:b !` (argument starting with `!`): always succeeds, with status 0; nothing is written
    or removed on disk; the table keeps its length and every slot `i ≥ 1` holds the record slot
    `i + 1` held — the whole record: path, number, text, history, marks, stored position.

    * If there was a second buffer (slot 1), the result is `bufs_shift()`: that buffer is now in
      slot 0 and current, its stored position is the view; the counter of numbers is unchanged.
    * If slot 1 was empty, slot 0 gets a new buffer: unnamed, empty (`Lbuf.make`), with the fresh
      number `bufsCnt + 1`; the counter goes up by one; the view is zeroed.  When the occupied slots
      formed a prefix (`Packed`), this buffer is the only one. -/
theorem b_delete_spec (f : Nat) (ed : Ed) (loc cmd arg : Bytes) (txt : Option Bytes) (h : arg.headD 0 = 33) :
    ∃ ed', runCmd (f + 1) ed "ec_buffer" loc cmd arg txt = some (0, ed') ∧
      ed'.files = ed.files ∧
      (0 < ed.bufs.length → ed'.bufs.length = ed.bufs.length) ∧
      (∀ i, 0 < i → ed'.bufs.getD i none = ed.bufs.getD (i + 1) none) ∧
      (∀ b1, ed.bufs.getD 1 none = some b1 →
        ed' = ed.bufsShift ∧ ed'.bufs.getD 0 none = some b1 ∧ ed'.bufsCnt = ed.bufsCnt ∧
        ed'.xrow = b1.row ∧ ed'.xoff = b1.off ∧ ed'.xtop = b1.top ∧ ed'.xleft = b1.left ∧ ed'.xtd = b1.td) ∧
      (ed.bufs.getD 1 none = none →
        ed'.bufs.getD 0 none = some (freshBuf ed) ∧ ed'.bufsCnt = ed.bufsCnt + 1 ∧
        ed'.xrow = 0 ∧ ed'.xoff = 0 ∧ ed'.xtop = 0 ∧ ed'.xleft = 0 ∧ ed'.xtd = 0 ∧
        (Packed ed → ∀ i, 0 < i → ed'.bufs.getD i none = none)) := by
  refine ⟨delEd ed, runCmd_b_delete f ed loc cmd arg txt h, ?_⟩
  obtain ⟨_, hlen, hget, _, hfiles, hcnt, _, hsome, hnone⟩ := bufsShift_spec ed
  cases h1 : ed.bufs.getD 1 none with
  | some b1 =>
    rw [delEd_second ed b1 h1]
    obtain ⟨hc, v1, v2, v3, v4, v5⟩ := hsome b1 h1
    refine ⟨hfiles, hlen, fun i _ => hget i, ?_, ?_⟩
    rotate_left
    · intro hn; cases hn
    intro b hb
    cases hb
    exact ⟨rfl, by rw [hget 0]; exact h1, hcnt, v1, v2, v3, v4, v5⟩
  | none =>
    rw [delEd_last ed h1]
    obtain ⟨_, v1, v2, v3, v4, v5⟩ := hnone h1
    refine ⟨hfiles, ?_, ?_, ?_, fun _ => ⟨?_, rfl, v1, v2, v3, v4, v5, ?_⟩⟩
    · intro hl
      show (ed.bufsShift.bufs.set 0 _).length = _
      rw [List.length_set]; exact hlen hl
    · intro i hi
      show (ed.bufsShift.bufs.set 0 _).getD i none = _
      rw [shift_set0_getD, if_neg (by omega)]
    · intro b hb; cases hb
    · show (ed.bufsShift.bufs.set 0 _).getD 0 none = _
      rw [shift_set0_getD, if_pos rfl]
    · intro hp i hi
      show (ed.bufsShift.bufs.set 0 _).getD i none = _
      rw [shift_set0_getD, if_neg (by omega)]
      cases hx : ed.bufs.getD (i + 1) none with
      | none => rfl
      | some x =>
        have := hp 1 (i + 1) (by omega) (by rw [hx]; rfl)
        rw [h1] at this; cases this

/-- `:b !` keeps the buffer numbers unique -/
theorem idsOk_delete (ed : Ed) (h : IdsOk ed) : IdsOk (delEd ed) := by
  cases h1 : ed.bufs.getD 1 none with
  | some b1 => rw [delEd_second ed b1 h1]; exact idsOk_shift ed h
  | none =>
    rw [delEd_last ed h1]
    have h2 := idsOk_shift ed h
    rw [idsOk_iff, (bufsShift_spec ed).2.2.2.2.2.1] at h2
    exact idsOkL_set_fresh 0 (freshBuf ed) rfl h2

/-- `:b !` keeps the occupied slots a prefix -/
theorem packed_delete (ed : Ed) (h : Packed ed) : Packed (delEd ed) := by
  cases h1 : ed.bufs.getD 1 none with
  | some b1 => rw [delEd_second ed b1 h1]; exact packed_shift ed h
  | none =>
    rw [delEd_last ed h1]
    exact packedL_set 0 _ (fun j hj => by omega) (packed_shift ed h)

/-! ### D4: `:b ~` renumbers -/

theorem renumEd_eq (ed : Ed) : renumEd ed = { ed with bufs := renumFrom 0 ed.bufs, bufsCnt := occ ed.bufs } := by
  unfold renumEd
  rw [renum_fold]
  simp

/-- **D4.** `:b ~` (argument starting with `~`): always succeeds, with status 0; only the table and
    the counter change; every slot keeps its buffer with everything but the number unchanged; the
    number of the buffer in slot `i` becomes the number of occupied slots among `0..i`; the counter
    becomes the number `occ` of occupied slots.  When the occupied slots form a prefix (`Packed`)
    these are exactly the slots `0..occ-1`, and slot `i` gets number `i + 1`: 1, 2, …, n. -/
theorem b_renumber_spec (f : Nat) (ed : Ed) (loc cmd arg : Bytes) (txt : Option Bytes) (h : arg.headD 0 = 126) :
    ∃ ed', runCmd (f + 1) ed "ec_buffer" loc cmd arg txt = some (0, ed') ∧
      ed' = { ed with bufs := ed'.bufs, bufsCnt := ed'.bufsCnt } ∧
      ed'.bufs.length = ed.bufs.length ∧
      ed'.bufsCnt = (occ ed.bufs : Nat) ∧
      (∀ i, ed'.bufs.getD i none =
        (ed.bufs.getD i none).map (fun x => { x with id := (occ (ed.bufs.take (i + 1)) : Nat) })) ∧
      (Packed ed → ∀ i, (ed.bufs.getD i none).isSome = true ↔ i < occ ed.bufs) ∧
      (Packed ed → ∀ i b, ed.bufs.getD i none = some b →
        ed'.bufs.getD i none = some { b with id := (i : Int) + 1 }) := by
  refine ⟨renumEd ed, runCmd_b_renumber f ed loc cmd arg txt h, ?_⟩
  rw [renumEd_eq]
  refine ⟨rfl, renumFrom_length _ _, rfl, ?_, fun hp i => packed_isSome_iff _ hp i, ?_⟩
  · intro i
    show (renumFrom 0 ed.bufs).getD i none = _
    rw [renumFrom_getD]
    simp
  · intro hp i b hb
    show (renumFrom 0 ed.bufs).getD i none = _
    rw [renumFrom_getD, hb, occ_take_packed ed.bufs i (fun j hj => hp j i hj (by rw [hb]; rfl))]
    simp

/-- `:b ~` establishes unique numbers, whatever they were before -/
theorem idsOk_renumber (ed : Ed) : IdsOk (renumEd ed) := by
  rw [renumEd_eq]; exact idsOkL_renum ed.bufs

theorem packed_renumber (ed : Ed) (h : Packed ed) : Packed (renumEd ed) := by
  rw [renumEd_eq]
  intro i j hij hj
  show ((renumFrom 0 ed.bufs).getD i none).isSome = true
  have hj' : ((renumFrom 0 ed.bufs).getD j none).isSome = true := hj
  rw [renumFrom_getD, Option.isSome_map] at hj' ⊢
  exact h i j hij hj'

/-! ### D5: `:b +` and `:b -` -/

/-- the unsaved-changes guard of `ec_buffer`, then the switch to slot `k` -/
def guardedSwitch (ed : Ed) (cmd : Bytes) (k : Nat) : R Int :=
  match bufferGuard ed cmd with
  | none => none
  | some (true, ed1) => some (1, ed1)
  | some (false, ed1) => some (0, ed1.bufsSwitch k)

theorem switchTo_neg (ed : Ed) (cmd : Bytes) :
    switchTo ed cmd (-1) = some (1, ed.show (strOf "no such buffer")) := by
  unfold switchTo
  simp

theorem switchTo_slot (ed : Ed) (cmd : Bytes) (k : Nat) (b : Buf) (hb : ed.bufs.getD k none = some b) :
    switchTo ed cmd (k : Int) = guardedSwitch ed cmd k := by
  have hk := (mem_of_getD _ _ _ hb).2
  unfold switchTo guardedSwitch
  simp only [Int.toNat_natCast, hb, Option.isSome_some, Bool.and_true]
  rw [if_pos (by simp; omega)]

/-- the failure message changes nothing but the message line -/
theorem show_frame (ed : Ed) (m : Bytes) :
    (ed.show m).bufs = ed.bufs ∧ (ed.show m).bufsCnt = ed.bufsCnt ∧ (ed.show m).files = ed.files ∧
    (ed.show m).xrow = ed.xrow ∧ (ed.show m).xoff = ed.xoff ∧ (ed.show m).xtop = ed.xtop ∧
    (ed.show m).xleft = ed.xleft ∧ (ed.show m).xtd = ed.xtd :=
  ⟨rfl, rfl, rfl, rfl, rfl, rfl, rfl, rfl⟩

theorem idOf_some (ed : Ed) (i : Nat) (x : Int) :
    idOf ed i = some x ↔ ∃ b, ed.bufs.getD i none = some b ∧ b.id = x := by
  unfold idOf
  cases ed.bufs.getD i none with
  | none => simp
  | some b => simp

/-- what the loop of `:b +` computes: `-1` when no buffer has a number above the current one's,
    otherwise a slot holding the buffer with the least such number -/
theorem nextIdx_cases (ed : Ed) :
    (nextIdx ed = -1 ∧ ∀ i b, ed.bufs.getD i none = some b → b.id ≤ curId ed) ∨
    (∃ (k : Nat) (b : Buf), nextIdx ed = (k : Int) ∧ ed.bufs.getD k none = some b ∧ curId ed < b.id ∧
      ∀ i b', ed.bufs.getD i none = some b' → curId ed < b'.id → b.id ≤ b'.id) := by
  rcases pickFold_spec (idOf ed) (fun x => decide (x > curId ed)) (fun x y => decide (x < y))
      (fun x => by simp) (fun x y z h1 h2 => by simp at h1 h2 ⊢; omega) ed.bufs.length with
    ⟨h1, h2⟩ | ⟨k, y, h1, _, hy, hpy, hbest⟩
  · left
    refine ⟨h1, fun i b hb => ?_⟩
    have := h2 i b.id (mem_of_getD _ _ _ hb).2 ((idOf_some ed i b.id).2 ⟨b, hb, rfl⟩)
    simpa using this
  · right
    obtain ⟨b, hb, hid⟩ := (idOf_some ed k y).1 hy
    subst hid
    refine ⟨k, b, h1, hb, by simpa using hpy, fun i b' hb' hgt => ?_⟩
    have := hbest i b'.id (mem_of_getD _ _ _ hb').2 ((idOf_some ed i b'.id).2 ⟨b', hb', rfl⟩) (by simpa using hgt)
    simpa using this

/-- what the loop of `:b -` computes: `-1` when no buffer has a number below the current one's,
    otherwise a slot holding the buffer with the greatest such number -/
theorem prevIdx_cases (ed : Ed) :
    (prevIdx ed = -1 ∧ ∀ i b, ed.bufs.getD i none = some b → curId ed ≤ b.id) ∨
    (∃ (k : Nat) (b : Buf), prevIdx ed = (k : Int) ∧ ed.bufs.getD k none = some b ∧ b.id < curId ed ∧
      ∀ i b', ed.bufs.getD i none = some b' → b'.id < curId ed → b'.id ≤ b.id) := by
  rcases pickFold_spec (idOf ed) (fun x => decide (x < curId ed)) (fun x y => decide (x > y))
      (fun x => by simp) (fun x y z h1 h2 => by simp at h1 h2 ⊢; omega) ed.bufs.length with
    ⟨h1, h2⟩ | ⟨k, y, h1, _, hy, hpy, hbest⟩
  · left
    refine ⟨h1, fun i b hb => ?_⟩
    have := h2 i b.id (mem_of_getD _ _ _ hb).2 ((idOf_some ed i b.id).2 ⟨b, hb, rfl⟩)
    simpa using this
  · right
    obtain ⟨b, hb, hid⟩ := (idOf_some ed k y).1 hy
    subst hid
    refine ⟨k, b, h1, hb, by simpa using hpy, fun i b' hb' hgt => ?_⟩
    have := hbest i b'.id (mem_of_getD _ _ _ hb').2 ((idOf_some ed i b'.id).2 ⟨b', hb', rfl⟩) (by simpa using hgt)
    simpa using this

/-- **D5, `:b +`** (argument starting with `+`), exactly what the model does, for every table:
    either no buffer has a number greater than the current one's (0 when there is no current
    buffer) and the command fails with status 1, the state unchanged but for the message
    "no such buffer"; or the command goes on (unsaved-changes guard, then `bufs_switch`) with a slot
    holding the buffer whose number is the least one greater than the current one's. -/
theorem b_next_spec (f : Nat) (ed : Ed) (loc cmd arg : Bytes) (txt : Option Bytes) (h : arg.headD 0 = 43) :
    ((∀ i b, ed.bufs.getD i none = some b → b.id ≤ curId ed) ∧
      runCmd (f + 1) ed "ec_buffer" loc cmd arg txt = some (1, ed.show (strOf "no such buffer"))) ∨
    (∃ k b, ed.bufs.getD k none = some b ∧ curId ed < b.id ∧
      (∀ i b', ed.bufs.getD i none = some b' → curId ed < b'.id → b.id ≤ b'.id) ∧
      runCmd (f + 1) ed "ec_buffer" loc cmd arg txt = guardedSwitch ed cmd k) := by
  rw [runCmd_b_next f ed loc cmd arg txt h]
  rcases nextIdx_cases ed with ⟨h1, h2⟩ | ⟨k, b, h1, hb, hgt, hleast⟩
  · left; rw [h1]; exact ⟨h2, switchTo_neg ed cmd⟩
  · right; rw [h1]; exact ⟨k, b, hb, hgt, hleast, switchTo_slot ed cmd k b hb⟩

/-- **D5, `:b -`** (argument starting with `-`): as `:b +`, with the greatest number smaller than
    the current one's -/
theorem b_prev_spec (f : Nat) (ed : Ed) (loc cmd arg : Bytes) (txt : Option Bytes) (h : arg.headD 0 = 45) :
    ((∀ i b, ed.bufs.getD i none = some b → curId ed ≤ b.id) ∧
      runCmd (f + 1) ed "ec_buffer" loc cmd arg txt = some (1, ed.show (strOf "no such buffer"))) ∨
    (∃ k b, ed.bufs.getD k none = some b ∧ b.id < curId ed ∧
      (∀ i b', ed.bufs.getD i none = some b' → b'.id < curId ed → b'.id ≤ b.id) ∧
      runCmd (f + 1) ed "ec_buffer" loc cmd arg txt = guardedSwitch ed cmd k) := by
  rw [runCmd_b_prev f ed loc cmd arg txt h]
  rcases prevIdx_cases ed with ⟨h1, h2⟩ | ⟨k, b, h1, hb, hgt, hleast⟩
  · left; rw [h1]; exact ⟨h2, switchTo_neg ed cmd⟩
  · right; rw [h1]; exact ⟨k, b, hb, hgt, hleast, switchTo_slot ed cmd k b hb⟩

/-- under `IdsOk`, `:b +` goes to THE buffer with the least number above the current one's: if slot
    `k` holds it, slot `k` is the one switched to -/
theorem b_next_reaches (f : Nat) (ed : Ed) (loc cmd arg : Bytes) (txt : Option Bytes) (h : arg.headD 0 = 43)
    (hok : IdsOk ed) (k : Nat) (b : Buf) (hb : ed.bufs.getD k none = some b) (hgt : curId ed < b.id)
    (hleast : ∀ i b', ed.bufs.getD i none = some b' → curId ed < b'.id → b.id ≤ b'.id) :
    runCmd (f + 1) ed "ec_buffer" loc cmd arg txt = guardedSwitch ed cmd k := by
  rcases b_next_spec f ed loc cmd arg txt h with ⟨h1, _⟩ | ⟨k', b', hb', hgt', hleast', hr⟩
  · have := h1 k b hb; omega
  · have h1 := hleast k' b' hb' hgt'
    have h2 := hleast' k b hb hgt
    by_cases hk : k' = k
    · rw [← hk]; exact hr
    · exact absurd (by omega) (hok.2.2 k' k b' b hk hb' hb)

/-- under `IdsOk`, `:b -` goes to THE buffer with the greatest number below the current one's -/
theorem b_prev_reaches (f : Nat) (ed : Ed) (loc cmd arg : Bytes) (txt : Option Bytes) (h : arg.headD 0 = 45)
    (hok : IdsOk ed) (k : Nat) (b : Buf) (hb : ed.bufs.getD k none = some b) (hlt : b.id < curId ed)
    (hmost : ∀ i b', ed.bufs.getD i none = some b' → b'.id < curId ed → b'.id ≤ b.id) :
    runCmd (f + 1) ed "ec_buffer" loc cmd arg txt = guardedSwitch ed cmd k := by
  rcases b_prev_spec f ed loc cmd arg txt h with ⟨h1, _⟩ | ⟨k', b', hb', hgt', hleast', hr⟩
  · have := h1 k b hb; omega
  · have h1 := hmost k' b' hb' hgt'
    have h2 := hleast' k b hb hlt
    by_cases hk : k' = k
    · rw [← hk]; exact hr
    · exact absurd (by omega) (hok.2.2 k' k b' b hk hb' hb)

/-! ### the unsaved-changes guard leaves the table's shape and numbers alone -/

theorem putFile_bufsCnt (ed : Ed) (f : File) : (ed.putFile f).bufsCnt = ed.bufsCnt := by
  unfold Ed.putFile; split <;> rfl

theorem lbufSave_bufsCnt (ed ed' : Ed) (lb : Lb) (b : Nat) (e : Int) (path : Bytes) (force : Bool) (ts : Int)
    (r : Option Bytes) (h : lbufSave ed lb b e path force ts = some (r, ed')) : ed'.bufsCnt = ed.bufsCnt := by
  unfold lbufSave at h
  rcases hnf : ed.nextFault with ⟨fo, ed1⟩
  have h1 : ed1.bufsCnt = ed.bufsCnt := by
    have : ed.nextFault.2.bufsCnt = ed.bufsCnt := rfl
    rw [hnf] at this; exact this
  simp only [hnf] at h
  generalize LbufIo.wrFinal _ _ _ _ _ _ = w at h
  split at h
  · simp only [Option.some.injEq, Prod.mk.injEq] at h; rw [← h.2]
  · split at h
    · simp only [Option.some.injEq, Prod.mk.injEq] at h; rw [← h.2]
    · cases hfo : fo == 101
      · simp only [hfo, Bool.false_eq_true, if_false] at h
        cases w with
        | none => cases h
        | some st =>
          simp only at h
          cases hok : st.ok
          · simp only [hok, Bool.not_false, if_true, Option.some.injEq, Prod.mk.injEq] at h
            rw [← h.2]
            show (Ed.putFile _ _).bufsCnt = _
            rw [putFile_bufsCnt]
            show (Ed.putFile _ _).bufsCnt = _
            rw [putFile_bufsCnt]; exact h1
          · simp only [hok, Bool.not_true, Bool.false_eq_true, if_false] at h
            generalize hX : Ed.nextFault _ = nf at h
            have h2 : nf.2.bufsCnt = ed.bufsCnt := by
              rw [← hX]
              show (Ed.putFile _ _).bufsCnt = _
              rw [putFile_bufsCnt]
              show (Ed.putFile _ _).bufsCnt = _
              rw [putFile_bufsCnt]; exact h1
            obtain ⟨fc, ed2⟩ := nf
            simp only at h h2
            split at h
            · simp only [Option.some.injEq, Prod.mk.injEq] at h; rw [← h.2]; exact h2
            · simp only [Option.some.injEq, Prod.mk.injEq] at h; rw [← h.2]; exact h2
      · simp only [hfo, if_true, Option.some.injEq, Prod.mk.injEq] at h; rw [← h.2]; exact h1

/-- `bufs_modified(idx)`: the counter stays; the table changes in slot `idx` at most, and there
    only the sequence counter of the text (`lbuf_modified`) -/
theorem bufsModified_frame (ed ed' : Ed) (idx : Nat) (msg : Option Bytes) (r : Bool)
    (h : bufsModified ed idx msg = some (r, ed')) :
    ed'.bufsCnt = ed.bufsCnt ∧
    ((ed.bufs.getD idx none = none ∧ ed'.bufs = ed.bufs) ∨
     ∃ b, ed.bufs.getD idx none = some b ∧ ed'.bufs = ed.bufs.set idx (some { b with lb := (modified b.lb).2 })) := by
  unfold bufsModified at h
  cases hb : ed.bufs.getD idx none with
  | none =>
    simp only [hb] at h
    cases h
    exact ⟨rfl, Or.inl ⟨rfl, rfl⟩⟩
  | some b =>
    have hlt := (mem_of_getD _ _ _ hb).2
    simp only [hb, Ed.modifiedAt] at h
    refine ⟨?_, Or.inr ⟨b, rfl, ?_⟩⟩
    all_goals
      cases hm : (modified b.lb).1
      · simp only [hm, Bool.not_false, if_true, Option.some.injEq, Prod.mk.injEq] at h
        rw [← h.2]
      · simp only [hm, Bool.not_true, Bool.false_eq_true, if_false] at h
        rw [Lemmas.C02Ex.getD_set_self _ _ _ hlt] at h
        simp only at h
        split at h
        · split at h
          · cases h
          · next err ed2 hs =>
            simp only [Option.some.injEq, Prod.mk.injEq] at h
            rw [← h.2]
            first
              | exact (lbufSave_bufsCnt _ _ _ _ _ _ _ _ _ hs).trans rfl
              | exact (Lemmas.C02Ex.lbufSave_bufs _ _ _ _ _ _ _ _ _ hs).trans rfl
        · simp only [Option.some.injEq, Prod.mk.injEq] at h
          rw [← h.2]
          cases msg <;> rfl

/-- the guard of `ec_buffer` keeps the counter, the length of the table, every slot but slot 0, and
    in slot 0 everything but the sequence counter of the text -/
theorem bufferGuard_frame (ed ed1 : Ed) (cmd : Bytes) (r : Bool) (h : bufferGuard ed cmd = some (r, ed1)) :
    ed1.bufsCnt = ed.bufsCnt ∧ ed1.bufs.length = ed.bufs.length ∧
    (∀ i, 0 < i → ed1.bufs.getD i none = ed.bufs.getD i none) ∧
    (∀ i, (ed1.bufs.getD i none).map (fun b => (b.path, b.id, b.row, b.off, b.top, b.left, b.td, b.mtime, b.lb.lines)) =
          (ed.bufs.getD i none).map (fun b => (b.path, b.id, b.row, b.off, b.top, b.left, b.td, b.mtime, b.lb.lines))) := by
  unfold bufferGuard at h
  split at h
  · obtain ⟨hc, hcase⟩ := bufsModified_frame ed ed1 0 _ r h
    rcases hcase with ⟨_, he⟩ | ⟨b, hb, he⟩
    · rw [he]; exact ⟨hc, rfl, fun _ _ => rfl, fun _ => rfl⟩
    · rw [he]
      refine ⟨hc, List.length_set, fun i hi => getD_set_ne _ _ _ _ _ (by omega), fun i => ?_⟩
      rw [getD_set]
      split
      · next hi => rw [hi.1, hb]; rfl
      · rfl
  · cases h; exact ⟨rfl, rfl, fun _ _ => rfl, fun _ => rfl⟩

theorem idsOk_guard (ed ed1 : Ed) (cmd : Bytes) (r : Bool) (h : bufferGuard ed cmd = some (r, ed1))
    (hok : IdsOk ed) : IdsOk ed1 := by
  obtain ⟨hc, _, _, hv⟩ := bufferGuard_frame ed ed1 cmd r h
  rw [idsOk_iff, hc]
  refine idsOkL_transfer id (fun _ _ e => e) (Int.le_refl _) ?_ hok
  intro i b hb
  have := hv i
  rw [hb] at this
  cases hx : ed.bufs.getD i none with
  | none => rw [hx] at this; cases this
  | some b' =>
    rw [hx] at this
    simp only [Option.map_some, Option.some.injEq, Prod.mk.injEq] at this
    exact ⟨b', hx, this.2.1.symm⟩

theorem packed_guard (ed ed1 : Ed) (cmd : Bytes) (r : Bool) (h : bufferGuard ed cmd = some (r, ed1))
    (hp : Packed ed) : Packed ed1 := by
  obtain ⟨_, _, _, hv⟩ := bufferGuard_frame ed ed1 cmd r h
  have hs : ∀ i, (ed1.bufs.getD i none).isSome = (ed.bufs.getD i none).isSome := by
    intro i
    have := congrArg Option.isSome (hv i)
    simpa using this
  intro i j hij hj
  rw [hs] at hj ⊢
  exact hp i j hij hj

/-- the buffer a switch reaches: the new current buffer has the path and the number of the buffer
    that was in slot `idx` -/
theorem switch_reaches (ed : Ed) (idx : Nat) (b : Buf) (hb : ed.bufs.getD idx none = some b) :
    ∃ b', (ed.bufsSwitch idx).cur = some b' ∧ b'.id = b.id ∧ b'.path = b.path := by
  have hidx := (mem_of_getD _ _ _ hb).2
  have h0 := switch_getD ed idx hidx 0
  have hs := leftBufs_isSome ed idx
  rw [hb] at hs
  cases hl : (leftBufs ed).getD idx none with
  | none => rw [hl] at hs; cases hs
  | some b' =>
    obtain ⟨b'', hb'', hid, hp⟩ := leftBufs_id ed idx b' hl
    rw [hb] at hb''
    cases hb''
    refine ⟨b', ?_, hid.symm, hp.symm⟩
    show (ed.bufsSwitch idx).bufs.getD 0 none = _
    rw [h0]
    simpa [switchSrc] using hl

/-! ### D3, consequence: `:b N` reaches THE buffer with number `N` -/

/-- under `IdsOk`, at most one slot holds a buffer with a given number -/
theorem number_unique (ed : Ed) (hok : IdsOk ed) (i j : Nat) (bi bj : Buf)
    (hi : ed.bufs.getD i none = some bi) (hj : ed.bufs.getD j none = some bj) (hid : bi.id = bj.id) :
    i = j ∧ bi = bj := by
  by_cases hij : i = j
  · subst hij; rw [hi] at hj; cases hj; exact ⟨rfl, rfl⟩
  · exact absurd hid (hok.2.2 i j bi bj hij hi hj)

/-- **`b_number_unique`.** Under `IdsOk`, `:b N` (once the unsaved-changes guard has passed)
    switches to the slot of the buffer numbered `N`, wherever it is — there is exactly one such
    slot —, and the buffer that is current afterwards has number `N` and that buffer's path. -/
theorem b_number_unique (f : Nat) (ed ed1 : Ed) (loc cmd arg : Bytes) (txt : Option Bytes) (i : Nat) (b : Buf)
    (hok : IdsOk ed) (hd : isDigitC (arg.headD 0) = true)
    (hb : ed.bufs.getD i none = some b) (hid : b.id = exAtoi arg)
    (hguard : bufferGuard ed cmd = some (false, ed1)) :
    runCmd (f + 1) ed "ec_buffer" loc cmd arg txt = some (0, ed1.bufsSwitch i) ∧
    (∀ j b', ed.bufs.getD j none = some b' → b'.id = exAtoi arg → j = i ∧ b' = b) ∧
    (∃ b', (ed1.bufsSwitch i).cur = some b' ∧ b'.id = exAtoi arg ∧ b'.path = b.path) := by
  refine ⟨?_, ?_, ?_⟩
  · refine b_number f ed ed1 loc cmd arg txt i b hd hb hid ?_ hguard
    intro j b' hj hb' hid'
    have := (number_unique ed hok j i b' b hb' hb (by omega)).1
    omega
  · intro j b' hb' hid'
    exact number_unique ed hok j i b' b hb' hb (by omega)
  · have hv := (bufferGuard_frame ed ed1 cmd false hguard).2.2.2 i
    rw [hb] at hv
    cases hx : ed1.bufs.getD i none with
    | none => rw [hx] at hv; cases hv
    | some b1 =>
      rw [hx] at hv
      simp only [Option.map_some, Option.some.injEq, Prod.mk.injEq] at hv
      obtain ⟨b', hc, h1, h2⟩ := switch_reaches ed1 i b1 hx
      exact ⟨b', hc, by rw [h1, hv.2.1, hid], by rw [h2, hv.1]⟩

/-! ### D3: every `:b arg` keeps the invariants -/

/-- for an argument that starts with neither `!` nor `~`, `ec_buffer` ends in `switchTo` -/
theorem runCmd_b_switch (f : Nat) (ed : Ed) (loc cmd arg : Bytes) (txt : Option Bytes) (h0 : arg.isEmpty = false)
    (h33 : arg.headD 0 ≠ 33) (h126 : arg.headD 0 ≠ 126) :
    ∃ idx, runCmd (f + 1) ed "ec_buffer" loc cmd arg txt = switchTo ed cmd idx := by
  rw [runCmd_buffer f ed loc cmd arg txt h0]
  unfold ecBufferTail
  rw [if_neg (by simpa using h33), if_neg (by simpa using h126)]
  exact ⟨_, rfl⟩

theorem switchTo_invariants (ed ed' : Ed) (cmd : Bytes) (idx r : Int) (h : switchTo ed cmd idx = some (r, ed')) :
    (IdsOk ed → IdsOk ed') ∧ (Packed ed → Packed ed') := by
  unfold switchTo at h
  split at h
  · next hc =>
    simp only [Bool.and_eq_true, decide_eq_true_eq] at hc
    obtain ⟨⟨hge, hlt⟩, hsome⟩ := hc
    split at h
    · cases h
    · next ed1 hg =>
      cases h
      exact ⟨idsOk_guard ed _ cmd true hg, packed_guard ed _ cmd true hg⟩
    · next ed1 hg =>
      cases h
      obtain ⟨_, hlen, _, hv⟩ := bufferGuard_frame ed ed1 cmd false hg
      refine ⟨fun hok => idsOk_switch _ _ (by rw [hlen]; omega) (idsOk_guard ed _ cmd false hg hok),
        fun hp => packed_switch _ _ ?_ (packed_guard ed _ cmd false hg hp)⟩
      have := congrArg Option.isSome (hv idx.toNat)
      simp only [Option.isSome_map] at this
      rw [this]; exact hsome
  · cases h
    exact ⟨fun hok => hok, fun hp => hp⟩

/-- **D3.** every `ec_buffer` command with an argument (`:b !`, `:b ~`, `:b +`, `:b -`, `:b N`,
    `:b %|#|^`, anything else), whatever its outcome, keeps the buffer numbers unique and within
    `1..bufsCnt`, and keeps the occupied slots a prefix -/
theorem ec_buffer_invariants (f : Nat) (ed ed' : Ed) (loc cmd arg : Bytes) (txt : Option Bytes) (r : Int)
    (h0 : arg.isEmpty = false) (h : runCmd (f + 1) ed "ec_buffer" loc cmd arg txt = some (r, ed')) :
    (IdsOk ed → IdsOk ed') ∧ (Packed ed → Packed ed') := by
  by_cases h33 : arg.headD 0 = 33
  · rw [runCmd_b_delete f ed loc cmd arg txt h33] at h
    cases h
    exact ⟨idsOk_delete ed, packed_delete ed⟩
  · by_cases h126 : arg.headD 0 = 126
    · rw [runCmd_b_renumber f ed loc cmd arg txt h126] at h
      cases h
      exact ⟨fun _ => idsOk_renumber ed, packed_renumber ed⟩
    · obtain ⟨idx, hs⟩ := runCmd_b_switch f ed loc cmd arg txt h0 h33 h126
      rw [hs] at h
      exact switchTo_invariants ed ed' cmd idx r h

/-! ### D3: opening a buffer the way `ec_edit` does (`bufs_open` then `bufs_switch` to the new slot) -/

theorem idsOk_open_switch (ed : Ed) (p : Bytes) (hl : 0 < ed.bufs.length) (h : IdsOk ed) :
    IdsOk ((ed.bufsOpen p).2.bufsSwitch (ed.bufsOpen p).1) := by
  refine idsOk_switch _ _ ?_ (idsOk_open ed p h)
  rw [(open_uses_free_slot ed p).2.1, List.length_set]
  exact findRoom_lt ed hl

theorem packed_open_switch (ed : Ed) (p : Bytes) (hl : 0 < ed.bufs.length) (h : Packed ed) :
    Packed ((ed.bufsOpen p).2.bufsSwitch (ed.bufsOpen p).1) := by
  refine packed_switch _ _ ?_ (packed_open ed p h)
  show ((ed.bufsOpen p).2.bufs.getD ed.findRoom none).isSome = true
  rw [(open_uses_free_slot ed p).2.2.2.2.2.2.2 hl]
  rfl

/-- the first open from the initial editor (what `ex_init` does to the table) -/
theorem idsOk_first_open (p : Bytes) :
    IdsOk ((({} : Ed).bufsOpen p).2.bufsSwitch (({} : Ed).bufsOpen p).1) ∧
    Packed ((({} : Ed).bufsOpen p).2.bufsSwitch (({} : Ed).bufsOpen p).1) :=
  ⟨idsOk_open_switch _ p (by decide) idsOk_init, packed_open_switch _ p (by decide) packed_init⟩

/-! ### D6: non-vacuity

`exEd` (from `Props/C20.lean`): three buffers "a", "b", "c" with numbers 1, 2, 3 in slots 0, 1, 2;
"a" is current. -/

theorem exEd_idsOk : IdsOk exEd := idsOkL_of_check _ _ (by decide +kernel)
theorem exEd_packed : Packed exEd := packedL_of_check _ (by decide +kernel)

/-- "c" current, then "a", "b" (after `bufs_switch(2)`) -/
def exEdC : Ed := exEd.bufsSwitch 2

/-- one buffer "a" with number 1 -/
def exOne : Ed :=
  { bufs := [some { path := [97], lb := { lines := [[120, 10]] }, id := 1 }] ++ List.replicate 15 none,
    bufsCnt := 1, xrow := 4, xoff := 1, files := [⟨[97], [120, 10], 7⟩] }

-- `:b !` with three buffers: "a" is gone, "b" (stored position 1/3) is current, "c" follows; the
-- numbers 2, 3 and the counter stay; the file system is untouched
example : runCmd 5 exEd "ec_buffer" [] [98] [33] none = some (0, delEd exEd) ∧
    ((delEd exEd).bufs.take 3).map exView =
      [some ([98], [[121, 10], [122, 10]], 1, 3, 2), some ([99], [], 7, 0, 3), none] ∧
    ((delEd exEd).bufs.length, (delEd exEd).bufsCnt, (delEd exEd).xrow, (delEd exEd).xoff) = (16, 3, 1, 3) ∧
    (delEd exEd).files = exEd.files := by
  refine ⟨runCmd_b_delete 4 exEd [] [98] [33] none rfl, ?_, ?_, ?_⟩ <;> decide +kernel

-- `:b !` with one buffer: an unnamed empty buffer with the fresh number 2 takes its place; the file
-- "a" stays on disk
example : runCmd 5 exOne "ec_buffer" [] [98] [33] none = some (0, delEd exOne) ∧
    ((delEd exOne).bufs.take 3).map exView = [some ([], [], 0, 0, 2), none, none] ∧
    ((delEd exOne).bufs.length, (delEd exOne).bufsCnt, (delEd exOne).xrow, (delEd exOne).xoff) = (16, 2, 0, 0) ∧
    (delEd exOne).files = exOne.files ∧
    ((delEd exOne).bufs.drop 1).all Option.isNone = true := by
  refine ⟨runCmd_b_delete 4 exOne [] [98] [33] none rfl, ?_, ?_, ?_, ?_⟩ <;> decide +kernel

-- `:b ~` after the deletion: "b", "c" get the numbers 1, 2 and the counter becomes 2; text and
-- stored positions stay
example : runCmd 5 (delEd exEd) "ec_buffer" [] [98] [126] none = some (0, renumEd (delEd exEd)) ∧
    ((renumEd (delEd exEd)).bufs.take 3).map exView =
      [some ([98], [[121, 10], [122, 10]], 1, 3, 1), some ([99], [], 7, 0, 2), none] ∧
    ((renumEd (delEd exEd)).bufs.length, (renumEd (delEd exEd)).bufsCnt) = (16, 2) := by
  refine ⟨runCmd_b_renumber 4 _ [] [98] [126] none rfl, ?_, ?_⟩ <;> decide +kernel

-- `:b +` from "a" (number 1) goes to slot 1 ("b", number 2); with option wa set the guard lets go
example : nextIdx exEd = 1 ∧ prevIdx exEd = -1 := by decide +kernel
example : (runCmd 5 { exEd with xwa := 1 } "ec_buffer" [] [98] [43] none).map
    (fun r => (r.1, r.2.cur.map (fun b => (b.path, b.id)), r.2.xrow, r.2.xoff)) = some (0, some ([98], 2), 1, 3) := by
  rw [runCmd_b_next 4 _ [] [98] [43] none rfl]; decide +kernel
-- `:b -` from "a": there is no smaller number — status 1, the table as it was
example : (runCmd 5 { exEd with xwa := 1 } "ec_buffer" [] [98] [45] none).map
    (fun r => (r.1, r.2.msg, (r.2.bufs.take 3).map exView == (exEd.bufs.take 3).map exView)) =
    some (1, strOf "no such buffer" ++ [10], true) := by
  rw [runCmd_b_prev 4 _ [] [98] [45] none rfl]; decide +kernel
-- with "c" (number 3) current and the table in the order c, a, b: `:b -` goes to "b" in slot 2 (the
-- greatest smaller number, not the nearest slot), `:b +` fails
example : nextIdx exEdC = -1 ∧ prevIdx exEdC = 2 := by decide +kernel
example : (runCmd 5 { exEdC with xwa := 1 } "ec_buffer" [] [98] [45] none).map
    (fun r => (r.1, r.2.cur.map (fun b => (b.path, b.id)))) = some (0, some ([98], 2)) := by
  rw [runCmd_b_prev 4 _ [] [98] [45] none rfl]; decide +kernel

-- the invariants travel: after a deletion, a renumbering, an open, a switch
example : IdsOk (delEd exEd) ∧ Packed (delEd exEd) := ⟨idsOk_delete _ exEd_idsOk, packed_delete _ exEd_packed⟩
example : IdsOk (renumEd (delEd exEd)) ∧ Packed (renumEd (delEd exEd)) :=
  ⟨idsOk_renumber _, packed_renumber _ (packed_delete _ exEd_packed)⟩
example : IdsOk (exEd.bufsOpen [100]).2 ∧ Packed (exEd.bufsOpen [100]).2 :=
  ⟨idsOk_open _ _ exEd_idsOk, packed_open _ _ exEd_packed⟩
example : IdsOk exEdC ∧ Packed exEdC :=
  ⟨idsOk_switch _ 2 (by decide) exEd_idsOk, packed_switch _ 2 (by decide) exEd_packed⟩
-- a table that is not `IdsOk` (two buffers numbered 1) is told apart by the checker
example : checkIds [some { path := [97], lb := Lbuf.make, id := 1 }, some { path := [98], lb := Lbuf.make, id := 1 }] 1 = false := by
  decide +kernel

-- `ex_init` with one file name: one buffer, number 1, counter 1
example : (exInit {} [[97]]).map (fun r => decide (r.1 = 0) &&
    decide ((r.2.bufs.take 2).map (fun b => b.map (fun b => (b.path, b.id))) = [some ([97], 1), none]) &&
    decide (r.2.bufsCnt = 1) && checkIds r.2.bufs r.2.bufsCnt && checkPacked r.2.bufs) = some true := by
  rw [exInit, show ecEdit FUEL = ecEdit ((FUEL - 1) + 1) from rfl, ecEdit]; decide +kernel

end Neatvi.Props.C20b
