import NeatviVerif.Props.C05h
/-!
# C05i: the vi loop never traps — C05f (repaired) connected with C05e through C05h

`Props/C05f.lean` no longer assumes anything about the regular-expression layer, and its hypothesis about the ex layer is
now a statement about the single calls `ex_command(line)` the key stream makes (`ExCallOk line state`, collected per
iteration in `ColonOk`).  This module discharges the no-trap half of `ExCallOk` from C05e (via `C05h.colon_no_trap`) and
states the end-to-end theorem `vi_run_no_trap`.

What remains assumed, and why (each with a witness or an instance below):
* `EdSafe` of the state a `:` command is entered in (C05e's invariant `Safe`: every buffer built by the lbuf API, the
  remembered pattern a C string, no `:@` running).  It holds initially (`C05h.initial_state_safe`) and is kept by every
  covered `:` command (`C05h.colon_keeps_safe`); that the *other* vi commands keep it is not proved anywhere yet
  (C05f's `ViOk` and C05e's `Safe` are incomparable: `C05h.sok_not_safe`, `safe_not_sok`), so it stays a hypothesis.
* `KeepsSOk line state` — the ex command keeps C05f's line invariant (lines NUL-free and newline-terminated, history and
  registers NUL-free).  Not a consequence of C05e; false in the model for `:r !cmd` when the oracle's output holds a NUL
  (C05h, header).  Trivially true for the lines the model does not run (`a i c g v @ ! …`: `keepsSOk_of_wantsInput`).
* `ColonLineOk line` — C05e's covered class; `:w %%` with a long path is outside it and traps in the model
  (`C05h.exNoTrap_witness`).
-/
set_option linter.unusedVariables false
namespace Neatvi.Props.C05i
open Neatvi Neatvi.Uc Neatvi.Lbuf Neatvi.Ex Neatvi.Mot Neatvi.Vi Neatvi.Rset
open Neatvi.Lemmas.C05e Neatvi.Lemmas.C05f Neatvi.Lemmas.C05h
open Neatvi.Props.C05c (iterate)

/-! ## 1. one ex command entered from vi -/

/-- the residual preservation hypothesis: the command keeps the buffer / register part of C05f's invariant -/
def KeepsSOk (ln : Bytes) (s : VS) : Prop := ∀ rc s', exCommandV ln s = Res.ok rc s' → SOk s' False

/-- **`ExCallOk` from C05e**: on a state with C05e's invariant a covered line does not trap; with `KeepsSOk` that is all
    the vi loop needs of the call -/
theorem exCallOk_of_covered {ln : Bytes} {s : VS} (h : EdSafe s) (hl : ColonLineOk ln) (hk : KeepsSOk ln s) :
    ExCallOk ln s := ⟨C05h.colon_no_trap ln s h hl, hk⟩

/-- the lines the model does not run (`exWantsInput`: `a i c g v @ ! kmap …` — the state is only flagged
    `unmodelled`) keep the invariant -/
theorem keepsSOk_of_wantsInput {ln : Bytes} {s : VS} (hs : SOk s True) (h : exWantsInput ln = true) : KeepsSOk ln s := by
  intro rc s' hm
  unfold exCommandV at hm
  rw [if_pos h] at hm
  cases hm
  exact ⟨hs.1.weaken, hs.2⟩

/-- … and do not trap, whatever the state: `ExCallOk` without any hypothesis on the ex layer -/
theorem exCallOk_of_wantsInput {ln : Bytes} {s : VS} (hs : SOk s True) (h : exWantsInput ln = true) : ExCallOk ln s := by
  refine ⟨?_, keepsSOk_of_wantsInput hs h⟩
  unfold exCommandV
  rw [if_pos h]
  exact fun h => by cases h

/-- instance: `:g/a/d` typed on the example buffer of C08b -/
example (keys : Bytes) : ExCallOk (strOf ":g/a/d") (Props.C08b.exSt keys 0 0) :=
  exCallOk_of_wantsInput (exSt_sok keys 0 0) (by decide +kernel)

/-- the lines `:s/a/b/`, `:1d`, `:1,2d|w out` and the `x` of `ZZ` are in the covered class -/
example : ColonLineOk (strOf ":s/a/b/") ∧ ColonLineOk (strOf ":1d") ∧ ColonLineOk (strOf "1,2d|w out") ∧
    ColonLineOk (strOf "x") :=
  ⟨Or.inl (by decide +kernel), Or.inl (by decide +kernel), Or.inl (by decide +kernel), Or.inl (by decide +kernel)⟩

/-- … so on C05h's witness state (which is `EdSafe`) `:s/a/b/` and `:1d` do not trap -/
example : exCommandV (strOf ":s/a/b/") sLong ≠ Res.trap ∧ exCommandV (strOf ":1d") sLong ≠ Res.trap :=
  ⟨C05h.colon_no_trap _ _ sLong_edSafe (Or.inl (by decide +kernel)),
   C05h.colon_no_trap _ _ sLong_edSafe (Or.inl (by decide +kernel))⟩

/-! ## 2. the hypothesis `ColonOk` of an iteration, from the lines the key stream types -/

/-- **`ColonOk` from the class of the typed lines**: if every line the `:` prompt returns for the pending keys is
    covered, is entered in an `EdSafe` state and keeps the line invariant — and likewise the `x` of `ZZ` — the
    hypothesis `ColonOk` of C05f holds -/
theorem colonOk_of_typed_lines {s : VS}
    (hc : ∀ (s0 : VS) (ln : Bytes) (s1 : VS), ColonAt 58 s s0 → viPrompt true s0 = Res.ok (some ln) s1 → ln.isEmpty = false →
      ColonLineOk (if ln.headD 0 != 58 then 58 :: ln else ln) ∧ EdSafe s1 ∧
        KeepsSOk (if ln.headD 0 != 58 then 58 :: ln else ln) s1)
    (hz : ∀ s0, ColonAt 90 s s0 → EdSafe s0 ∧ KeepsSOk (strOf "x") s0) : ColonOk s :=
  ⟨fun s0 ln s1 hat hm he => by
      obtain ⟨a, b, c⟩ := hc s0 ln s1 hat hm he
      exact exCallOk_of_covered b a c,
   fun s0 hat => by
      obtain ⟨b, c⟩ := hz s0 hat
      exact exCallOk_of_covered b (Or.inl (by decide +kernel)) c⟩

/-! ## 3. the run from the initial state -/

/-- **`vi_run_no_trap`**: for every file name C05e covers (`NameOk`), every file system content, window size and key
    stream: `ex_init` returns, the state `vi` starts from is `EdSafe`, and — if that state has C05f's invariant `ViOk`
    (the file's lines are NUL-free: `lbuf_rd` cuts a file at its first NUL in C, the model's reader keeps the bytes, so
    this is a hypothesis on the content; see `fresh_buffer_ok` for the history part) and `StepHyp` holds at every
    boundary of the run — no iteration of the loop traps and the invariant holds at every boundary.
    `StepHyp.colon` is obtained from `colonOk_of_typed_lines`: every `:` line typed is `ColonLineOk`, entered in an
    `EdSafe` state, and keeps the line invariant. -/
theorem vi_run_no_trap (ed0 : Ed) (files : List Bytes) (h0 : ed0.bufs = List.replicate Gen.NBUFS none)
    (hk : 0 ∉ ed0.xkwd) (hd : ed0.atDepth = 0) (hn : NameOk files) (keys : Bytes) (rows cols : Int) :
    ∃ rc ed1, exInit ed0 files = some (rc, ed1) ∧ EdSafe (viInit ed1 keys rows cols) ∧
      (ViOk (viInit ed1 keys rows cols) → ∀ (n : Nat) (s : VS),
        (∀ k t, k ≤ n → iterate k (viInit ed1 keys rows cols) = some t → StepHyp t) →
        iterate n (viInit ed1 keys rows cols) = some s → ViOk s ∧ viStep s ≠ Res.trap) := by
  obtain ⟨rc, ed1, hi, hs⟩ := C05h.initial_state_safe ed0 files h0 hk hd hn keys rows cols
  exact ⟨rc, ed1, hi, hs, fun hv n s hh h =>
    ⟨Props.C05f.run_invariant n _ s hv hh h, Props.C05f.run_no_trap n _ s hv hh h⟩⟩

/-- instance of the hypotheses on the initial data: the file name `f` -/
example (keys : Bytes) : ∃ rc ed1, exInit ({} : Ed) [strOf "f"] = some (rc, ed1) ∧ EdSafe (viInit ed1 keys 23 80) := by
  obtain ⟨rc, ed1, h1, h2, _⟩ := vi_run_no_trap {} [strOf "f"] rfl (by decide) rfl (nameOk_of_check (by decide +kernel)) keys 23 80
  exact ⟨rc, ed1, h1, h2⟩

/-- **a run with nothing assumed about other layers**: on the example buffer (`hello w`, `b`), for every key stream
    without `/ ? n N ^A : Z`, the first command does not trap (`ViOk` and `StepHyp` proved, not assumed) -/
example (keys : Bytes) (h : ∀ k ∈ specialKeys, k ∉ keys) : viStep (Props.C08b.exSt keys 0 0) ≠ Res.trap :=
  Props.C05f.run_no_trap 0 _ _ (exSt_viOk keys) (fun k t hk ht => by
    have : k = 0 := by omega
    subst this
    unfold iterate at ht
    cases ht
    exact exSt_stepHyp keys h) rfl

/-! ## 4. the residual position hypothesis `PatIn`: an instance, and why it cannot be dropped -/

/-- instance: the pattern `w` matches inside the lines `hello w`, `b` (decided by the kernel) -/
example : PatIn [119] false [[104, 101, 108, 108, 111, 32, 119, 10], [98, 10]] := by decide +kernel

/-- `x*$` does **not** match inside the line `a`, `E2`, newline (the match C05h found on the terminator) -/
theorem patIn_fails_on_truncated_char : ¬ PatIn [120, 42, 36] false [[97, 226, 10]] := by
  intro h
  obtain ⟨re, hm, hf⟩ := findWith_spec truncated_char_match_rest
  have := hitInside_spec (h [97, 226, 10] (by simp)) (re := re) hm 1 0 [2, 2] 0 (by decide) hf (by decide)
  revert this
  decide

/-- the buffer with that one line (`noic`) -/
def sTrunc : VS := { ed := { bufs := [some { path := [], lb := { lines := [[97, 226, 10]] } }], xic := 0 } }

/-- **witness: without `PatIn` the repeated search traps in the model** — `2n` with the pattern `x*$` from the start of
    the line `a`, `E2`, newline: the first hit is column 3 of 3, the second search starts beyond the line -/
theorem repeated_search_overrun : viSearch.rep 110 2 sTrunc [120, 42, 36] 1 3 0 0 0 = none := by
  have hl : lines sTrunc = [[97, 226, 10]] := rfl
  have hx : (sTrunc.ed.xic != 0) = false := rfl
  have h1 : search (lines sTrunc) [120, 42, 36] (sTrunc.ed.xic != 0) 1 0 0 = some (some (0, 3, 0)) := by
    rw [hl, hx]; exact C05h.search_hit_beyond_last_char.1
  obtain ⟨re, hm, _⟩ := findWith_spec truncated_char_match_rest
  have h2 : search (lines sTrunc) [120, 42, 36] (sTrunc.ed.xic != 0) 1 0 3 = none := by
    rw [hl, hx]
    exact Lemmas.C05f.search_beyond_line_traps _ _ false 0 3 [97, 226, 10] re hm (by decide) (by decide)
  rw [rep_succ_hit 110 2 sTrunc _ 1 2 0 0 0 0 3 0 (by decide) h1]
  exact rep_succ_trap 110 2 sTrunc _ 1 1 0 _ _ (by decide) h2

end Neatvi.Props.C05i
