import NeatviVerif.Lemmas.C09RespectsCmd
/-!
# C09: `.` repeats the last change as if its keys were retyped; `N.` retypes it N times; `@r` types
the register

Everything is stated on the model of `term.c` / `vi.c` (`Model/Vi.lean`, `Model/ViCmd.lean`), for all
states.  Vocabulary (defined in `Lemmas/C09Queue.lean`, `Lemmas/C09KeyEq.lean`):

* `pending s = s.ibuf.drop s.ibufPos ++ s.typed`: the key stream the editor is going to see (the
  one-key push-back stack `vibuf` aside);
* `QWf s`: `ibuf_pos ≤ ibuf_cnt`, the invariant of term.c's queue (`qwf_*`: kept by all primitives);
* `cnt1 s = max 1 vi_arg1`: the repeat count;
* `KeyEq s t`: `s` and `t` differ only in how the pending stream is split between pushed keys (`ibuf`)
  and keys of the terminal (`typed`) (`keyEq_iff`); `Respects m`: `m` cannot tell such states apart.

Results:

1. `termRead_pending`, `termPush_pending`, `push_when_drained`: the queue discipline.
2. `repeat_pushes`, `execute_pushes`, `dot_command`, `dot_equals_retyping`: `.`/`N.`/`@r` leave the
   recorded keys (N times) / the register text in front of the remaining keys, when no pushed key is
   still unread.
3. `record_is_keys_read`, `icmd_accumulates`: what is recorded is exactly the keys read since the start
   of the command (count and register prefix included: `viPre` calls `term_cmd` before reading them).
4. `*_keyEq`, `respects_*`, `viStep_keyEq`: every part of an iteration of `vi()` except the `.`/`@`
   branches is insensitive to whether keys were pushed or typed -- so after `.` the editor behaves
   exactly as if the change had been retyped.
5. `push_not_respects`, `dot_in_macro`: the exception.  `term_push` appends *behind* the unread pushed
   keys: a `.` or `@r` executed from inside a macro runs after the rest of the macro, not at its place.  This is the recorded defect
   "`.` inside a macro is appended after the rest of the macro".
-/
namespace Neatvi.Props.C09
open Neatvi Neatvi.Vi Neatvi.Ex Neatvi.Lemmas.C09

/-! ## 1. the queue -/

/-- `term_read` delivers the head of the pending stream, appends it to `icmd` (below the 4096 limit),
keeps the queue invariant, and touches nothing else. -/
theorem termRead_pending (s : VS) (k : Nat) (rest : Bytes) (h : pending s = k :: rest) :
    ∃ s', termRead s = Res.ok (k : Int) s' ∧ pending s' = rest ∧ QWf s' ∧
      s'.icmd = (if s.icmd.length < 4096 then s.icmd ++ [k] else s.icmd) ∧
      { s' with ibuf := s.ibuf, ibufPos := s.ibufPos, typed := s.typed, icmd := s.icmd } = s :=
  Lemmas.C09.termRead_pending s k rest h

/-- no pending key: end of input -/
theorem termRead_pending_nil (s : VS) (h : pending s = []) : termRead s = Res.eof :=
  termRead_eof s h

/-- pushed keys go after the not-yet-read pushed keys and before the terminal's keys -/
theorem termPush_pending (x : Bytes) (s : VS) (hwf : QWf s) :
    ∃ s', termPush x s = Res.ok () s' ∧
      s' = { s with ibuf := s.ibuf ++ x.take (4096 - s.ibuf.length) } ∧
      pending s' = s.ibuf.drop s.ibufPos ++ x.take (4096 - s.ibuf.length) ++ s.typed :=
  Lemmas.C09.termPush_pending x s hwf

/-- pushing equals typing when nothing pushed is pending and there is room -/
theorem push_when_drained (x : Bytes) (s : VS) (hwf : QWf s) (hd : s.ibufPos ≥ s.ibuf.length)
    (hroom : s.ibuf.length + x.length ≤ 4096) :
    ∃ s', termPush x s = Res.ok () s' ∧ s' = { s with ibuf := s.ibuf ++ x } ∧
      pending s' = x ++ s.typed :=
  Lemmas.C09.push_when_drained x s hwf hd hroom

/-- the invariant holds initially and is kept -/
theorem qwf_init (ed : Ed) (keys : Bytes) (rows cols : Int) : QWf (viInit ed keys rows cols) :=
  Nat.le_refl 0
theorem qwf_termRead (s s' : VS) (c : Int) (h : termRead s = Res.ok c s') : QWf s' := by
  obtain ⟨k, rest, hp, -, -⟩ := termRead_key s s' c h
  obtain ⟨s1, h1, -, h3, -⟩ := Lemmas.C09.termRead_pending s k rest hp
  rw [h1] at h
  injection h with _ hs
  exact hs ▸ h3
theorem qwf_termPush (x : Bytes) (s : VS) (h : QWf s) : QWf (push x s) := push_qwf x s h

/-! ## 2. `.`, `N.`, `@r` -/

/-- `vc_repeat` is `max 1 count` pushes of the recorded change.  With the queue drained and room in
`ibuf`, this is typing the change `max 1 count` times; nothing else changes. -/
theorem repeat_pushes (s : VS) :
    vcRepeat s = Res.ok () (pushN (cnt1 s) s.repCmd s) ∧
    (Drained s → s.ibuf.length + cnt1 s * s.repCmd.length ≤ 4096 →
      pending (pushN (cnt1 s) s.repCmd s) = (List.replicate (cnt1 s) s.repCmd).flatten ++ s.typed ∧
      pushN (cnt1 s) s.repCmd s = { s with ibuf := s.ibuf ++ (List.replicate (cnt1 s) s.repCmd).flatten }) :=
  ⟨vcRepeat_eq s, fun hd hr => ⟨pending_pushN_drained _ _ _ hd hr, pushN_room _ _ _ hr⟩⟩

/-- without the drained hypothesis (queue invariant and room only): the copies are inserted between the
unread pushed keys and the terminal's keys -/
theorem repeat_pushes_general (s : VS) (hwf : QWf s)
    (hroom : s.ibuf.length + cnt1 s * s.repCmd.length ≤ 4096) :
    pending (pushN (cnt1 s) s.repCmd s) =
      s.ibuf.drop s.ibufPos ++ (List.replicate (cnt1 s) s.repCmd).flatten ++ s.typed :=
  pending_pushN_room _ _ _ hwf hroom

/-- `@r`: after the register name `r` (a plain name: not `\`, `@`, ESC, ^C) has been read from the key
stream, the register's text (as a C string) is queued `max 1 count` times in front of the remaining
keys, provided no pushed key is unread after `r` and `ibuf` has room. -/
theorem execute_pushes (s : VS) (r : Nat) (rest buf : Bytes)
    (hv : s.vibuf = []) (hp : pending s = r :: rest)
    (h92 : r ≠ 92) (h64 : r ≠ 64) (h27 : r ≠ 27) (h3 : r ≠ 3)
    (hreg : regGet s.ed r = some buf)
    (hd : s.ibuf.length ≤ s.ibufPos + 1)
    (hroom : max 1 s.ibuf.length + cnt1 s * (buf.takeWhile (· != 0)).length ≤ 4096) :
    ∃ s1 s', termRead s = Res.ok (r : Int) s1 ∧ vcExecute s = Res.ok () s' ∧
      pending s' = (List.replicate (cnt1 s) (buf.takeWhile (· != 0))).flatten ++ rest ∧
      s' = { s1 with execReg := (r : Int),
                     ibuf := s1.ibuf ++ (List.replicate (cnt1 s) (buf.takeWhile (· != 0))).flatten } :=
  vcExecute_drained s r rest buf hv hp h92 h64 h27 h3 hreg hd hroom

/-- the whole `.` command inside the command switch of `vi()` -/
theorem dot_command (s : VS) (rest : Bytes) (hv : s.vibuf = [])
    (hp : pending s = 46 :: rest) (hd : s.ibuf.length ≤ s.ibufPos + 1)
    (hroom : max 1 s.ibuf.length + cnt1 s * s.repCmd.length ≤ 4096) :
    ∃ s', commandTail s = Res.ok (some 0) s' ∧
      pending s' = (List.replicate (cnt1 s) s.repCmd).flatten ++ rest ∧
      s'.repCmd = s.repCmd ∧ s'.icmd = [] ∧ s'.vibuf = [] ∧ s'.arg1 = s.arg1 :=
  commandTail_dot_pending s rest hv hp hd hroom

/-- **`.` equals retyping**: the state after the `.` command is `KeyEq` to the state in which the user
typed the recorded change `max 1 count` times at this point -/
theorem dot_equals_retyping (s : VS) (rest : Bytes) (hv : s.vibuf = [])
    (hp : pending s = 46 :: rest) (hd : s.ibuf.length ≤ s.ibufPos + 1)
    (hroom : max 1 s.ibuf.length + cnt1 s * s.repCmd.length ≤ 4096) :
    ∃ s', commandTail s = Res.ok (some 0) s' ∧
      KeyEq s' { s' with ibuf := [], ibufPos := 0,
                         typed := (List.replicate (cnt1 s) s.repCmd).flatten ++ rest } := by
  obtain ⟨s', h1, h2, -⟩ := commandTail_dot_pending s rest hv hp hd hroom
  refine ⟨s', h1, ?_⟩
  have := keyEq_norm s'
  unfold norm at this
  rw [h2] at this
  exact this

/-! ## 3. what is recorded -/

/-- reading the keys `ks` appends exactly `ks` to `icmd` -/
theorem icmd_accumulates (ks rest : Bytes) (s : VS) (hp : pending s = ks ++ rest)
    (hl : s.icmd.length + ks.length ≤ 4096) :
    ∃ s', readKeys ks.length s = Res.ok (ks.map Int.ofNat) s' ∧
      s'.icmd = s.icmd ++ ks ∧ pending s' = rest ∧
      { s' with ibuf := s.ibuf, ibufPos := s.ibufPos, typed := s.typed, icmd := s.icmd } = s :=
  Lemmas.C09.icmd_accumulates ks rest s hp hl

/-- `term_cmd` empties `icmd` and returns it -/
theorem termCmd_resets (s : VS) : termCmd s = Res.ok s.icmd { s with icmd := [] } := rfl

/-- `term_cmd`; the keys `ks` are read; the common tail of the command switch (`finRec`, the local `fin`
of `commandTail`: see `fin_is_finRec_dot`): `rep_cmd = ks` -/
theorem record_is_keys_read (c k : Int) (mod : Nat) (ks rest : Bytes) (s : VS)
    (hp : pending s = ks ++ rest) (hl : ks.length + 1 < 4096) (hr : isRepeatable c k = true) :
    ∃ s', recordRun c k mod ks.length s = Res.ok (some mod) s' ∧
      s'.repCmd = ks ∧ s'.icmd = [] ∧ pending s' = rest ∧
      (46 < s.ed.regs.buf.length → regGet s'.ed 46 = some (ks.takeWhile (· != 0))) :=
  Lemmas.C09.record_is_keys_read c k mod ks rest s hp hl hr

/-- `finRec` is the tail the model's `commandTail` runs (shown on the `.` and `@` branches) -/
theorem fin_is_finRec_dot (s : VS) (rest : Bytes) (hv : s.vibuf = []) (hp : pending s = 46 :: rest) :
    ∃ s1, termRead s = Res.ok 46 s1 ∧ pending s1 = rest ∧
      commandTail s = (do markSet 94 s.ed.xrow s.ed.xoff; vcRepeat; finRec 46 0 0 : M (Option Nat)) s1 :=
  commandTail_dot s rest hv hp

theorem fin_is_finRec_at (s : VS) (rest : Bytes) (hv : s.vibuf = []) (hp : pending s = 64 :: rest) :
    ∃ s1, termRead s = Res.ok 64 s1 ∧ pending s1 = rest ∧
      commandTail s = (do markSet 94 s.ed.xrow s.ed.xoff; vcExecute; finRec 64 0 0 : M (Option Nat)) s1 :=
  commandTail_at s rest hv hp

/-- what `finRec` does -/
theorem finRec_spec (c k : Int) (mod : Nat) (s : VS) :
    finRec c k mod s = Res.ok (some mod)
      (if isRepeatable c k && s.icmd.length + 1 < 4096 then
        { s with icmd := [], repCmd := s.icmd,
                 ed := { s.ed with regs := s.ed.regs.put 46 (s.icmd.takeWhile (· != 0)) 0 } }
       else { s with icmd := [] }) :=
  finRec_eq c k mod s

/-! ## 4. pushed or typed: the editor cannot tell -/

theorem termRead_keyEq (s t : VS) (h : KeyEq s t) : RelRes (termRead s) (termRead t) :=
  Lemmas.C09.termRead_keyEq s t h
theorem viRead_keyEq (s t : VS) (h : KeyEq s t) : RelRes (viRead s) (viRead t) :=
  Lemmas.C09.viRead_keyEq s t h
theorem viBack_keyEq (c : Int) (s t : VS) (h : KeyEq s t) : RelRes (viBack c s) (viBack c t) :=
  Lemmas.C09.viBack_keyEq c s t h
theorem termCmd_keyEq (s t : VS) (h : KeyEq s t) : RelRes (termCmd s) (termCmd t) :=
  Lemmas.C09.termCmd_keyEq s t h

/-- closure of `Respects` under the monad operations and the primitives -/
theorem respects_closure :
    (∀ {α : Type} (a : α), Respects (pure a : M α)) ∧
    (∀ {α β : Type} {m : M α} {f : α → M β}, Respects m → (∀ a, Respects (f a)) → Respects (m >>= f)) ∧
    Respects termRead ∧ Respects viRead ∧ (∀ c, Respects (viBack c)) ∧ Respects termCmd ∧
    (∀ {f : VS → VS}, QueueFree f → Respects (Vi.modify f)) ∧
    (∀ {β : Type} {f : VS → M β}, (∀ s, f s = f (norm s)) → (∀ s, Respects (f s)) →
      Respects (Vi.get >>= f)) :=
  ⟨respects_pure, respects_bind, respects_termRead, respects_viRead, respects_viBack, respects_termCmd,
    respects_modify, respects_get_bind⟩

/-- the readers of vi.c / led.c -/
theorem respects_readers :
    Respects viYankbuf ∧ Respects viPrefix ∧ Respects viChar ∧ (∀ c k, Respects (readCharS c k)) ∧
    (∀ p q a n i e, Respects (ledLine p q a n i e)) ∧ (∀ e, Respects (viPrompt e)) ∧
    (∀ r c, Respects (viMotionln r c)) ∧ (∀ r o, Respects (viMotion r o)) ∧
    (∀ c n r o, Respects (viSearch c n r o)) :=
  ⟨respects_viYankbuf, respects_viPrefix, respects_viChar, respects_readCharS, respects_ledLine,
    respects_viPrompt, respects_viMotionln, respects_viMotion, respects_viSearch⟩

/-- the commands and the parts of an iteration of `vi()` -/
theorem respects_commands :
    (∀ c, Respects (vcMotion c)) ∧ (∀ c, Respects (vcInsert c)) ∧ (∀ c, Respects (vcPut c)) ∧
    Respects vcJoin ∧ Respects vcReplace ∧ (∀ l, Respects (exCommandV l)) ∧
    Respects viPre ∧ (∀ m r o, Respects (motionTail m r o)) ∧ (∀ c, Respects (viPost c)) ∧
    (∀ c k m, Respects (finRec c k m)) :=
  ⟨respects_vcMotion, respects_vcInsert, respects_vcPut, respects_vcJoin, respects_vcReplace,
    respects_exCommandV, respects_viPre, respects_motionTail, respects_viPost, respects_finRec⟩

/-- the command switch, for every command key but `.` and `@` -/
theorem commandTail_keyEq (s t : VS) (h : KeyEq s t)
    (hk : ∀ s', viRead s ≠ Res.ok 46 s' ∧ viRead s ≠ Res.ok 64 s') :
    RelRes (commandTail s) (commandTail t) :=
  Lemmas.C09.commandTail_keyEq s t h hk

/-- a whole iteration of `vi()`, unless it is the command `.` or `@` -/
theorem viStep_keyEq (s t : VS) (h : KeyEq s t)
    (hk : ∀ r s1 s2, viPre s = Res.ok r s1 → r.1 = 0 →
      viRead s1 ≠ Res.ok 46 s2 ∧ viRead s1 ≠ Res.ok 64 s2) :
    RelRes (viStep s) (viStep t) :=
  Lemmas.C09.viStep_keyEq s t h hk

/-! ## 5. the exception: `term_push` -/

/-- `term_push` does not respect `KeyEq`: on states that differ only in whether the pending key `b` was
pushed or typed, pushing `a` gives `b a` resp. `a b` -/
theorem push_not_respects : ∃ (s t : VS) (x : Bytes), KeyEq s t ∧ QWf s ∧ QWf t ∧
    ∃ s' t', termPush x s = Res.ok () s' ∧ termPush x t = Res.ok () t' ∧ pending s' ≠ pending t' :=
  Lemmas.C09.push_not_respects

theorem termPush_not_respects : ¬ ∀ x, Respects (termPush x) := Lemmas.C09.termPush_not_respects

/-- `get` with a continuation that inspects `ibuf` does not respect `KeyEq` either -/
theorem get_not_respects : ¬ Respects (Vi.get >>= fun s => (pure s.ibuf.length : M Nat)) :=
  Lemmas.C09.get_not_respects

/-- **`.` inside a macro**: in general the recorded change is queued behind the unread pushed keys
`s1.ibuf.drop s1.ibufPos` (the rest of the macro), not at the place of the `.` -/
theorem dot_in_macro (s : VS) (rest : Bytes) (hv : s.vibuf = [])
    (hp : pending s = 46 :: rest)
    (hroom : max 1 s.ibuf.length + cnt1 s * s.repCmd.length ≤ 4096) :
    ∃ s1 s', termRead s = Res.ok 46 s1 ∧ commandTail s = Res.ok (some 0) s' ∧
      pending s' = s1.ibuf.drop s1.ibufPos ++ (List.replicate (cnt1 s) s.repCmd).flatten ++ s1.typed ∧
      s1.ibuf.drop s1.ibufPos ++ s1.typed = rest ∧
      s'.repCmd = s.repCmd ∧ s'.icmd = [] :=
  commandTail_dot_general s rest hv hp hroom

/-! ## 6. examples -/

section Examples
variable (ed : Ed) (typed : Bytes)

private theorem max10 : (max (1 : Int) 0).toNat = 1 := by decide
private theorem max13 : (max (1 : Int) 3).toNat = 3 := by decide

/-- `.` after a recorded `x`, typed at the terminal: the next keys are `x` and then what follows -/
example : ∃ s', commandTail { ed := ed, repCmd := [120], typed := 46 :: typed } = Res.ok (some 0) s' ∧
    pending s' = [120] ++ typed ∧ s'.repCmd = [120] := by
  obtain ⟨s', h1, h2, h3, -⟩ := dot_command { ed := ed, repCmd := [120], typed := 46 :: typed } typed rfl
    (by simp [pending]) (by simp) (by simp [cnt1, max10])
  exact ⟨s', h1, by simpa [cnt1, max10] using h2, h3⟩

/-- `3.` -/
example : ∃ s', commandTail { ed := ed, repCmd := [120], arg1 := 3, typed := 46 :: typed }
      = Res.ok (some 0) s' ∧ pending s' = [120, 120, 120] ++ typed := by
  obtain ⟨s', h1, h2, -⟩ := dot_command { ed := ed, repCmd := [120], arg1 := 3, typed := 46 :: typed }
    typed rfl (by simp [pending]) (by simp) (by simp [cnt1, max13])
  exact ⟨s', h1, by simpa [cnt1, max13, List.replicate] using h2⟩

/-- `vc_repeat` alone -/
example : ∃ s', vcRepeat { ed := ed, repCmd := [120], typed := typed } = Res.ok () s' ∧
    pending s' = [120] ++ typed := by
  refine ⟨_, vcRepeat_eq _, ?_⟩
  simp [cnt1, max10, pushN, push, pending]

/-- the defect: the macro `. j` (pushed by `@r`) with `x` recorded runs `j` before `x` -/
example : ∃ s', commandTail { ed := ed, repCmd := [120], ibuf := [46, 106], typed := typed }
      = Res.ok (some 0) s' ∧ pending s' = [106, 120] ++ typed := by
  obtain ⟨s1, s', h1, h2, h3, -⟩ := dot_in_macro
    { ed := ed, repCmd := [120], ibuf := [46, 106], typed := typed } (106 :: typed) rfl
    (by simp [pending]) (by simp [cnt1, max10])
  have e1 : termRead { ed := ed, repCmd := [120], ibuf := [46, 106], typed := typed }
      = Res.ok 46 { ed := ed, repCmd := [120], ibuf := [46, 106], ibufPos := 1, icmd := [46], typed := typed } := by
    simp [termRead]
  rw [e1] at h1
  injection h1 with _ hs
  subst hs
  exact ⟨s', h2, by simpa [cnt1, max10] using h3⟩

/-- the hypotheses of `record_is_keys_read` are satisfiable: the keys `2 d w` recorded for `d` -/
example : ∃ s', recordRun 100 0 16 3 { ed := ed, typed := [50, 100, 119] ++ typed } = Res.ok (some 16) s' ∧
    s'.repCmd = [50, 100, 119] ∧ pending s' = typed := by
  obtain ⟨s', h1, h2, -, h4, -⟩ := record_is_keys_read 100 0 16 [50, 100, 119] typed
    { ed := ed, typed := [50, 100, 119] ++ typed } (by simp [pending]) (by simp) (by decide +kernel)
  exact ⟨s', h1, h2, h4⟩

end Examples

end Neatvi.Props.C09
