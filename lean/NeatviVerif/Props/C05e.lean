import NeatviVerif.Lemmas.C05eW
/-!
# C05e: no trap of the ex layer is reachable

In the ex-level model the result `none` of `runCmd` / `exExec` / `exCommand` / `exStep` stands for a place where the C
code would dereference NULL, index out of bounds, step over a terminator or loop without bound.  This file proves,
handler by handler and then for command lines, rounds of the `ex()` loop and scripts, that **from a safe state none
of them is reached** — and says exactly which `none`s are left and why.

**The invariant** (`Safe ed`): every buffer of the table was built by the lbuf API (`EdInv` of C02b: the undo
history is consistent with the text, so `lbuf_undo` / `lbuf_redo` index inside it), there is a current buffer, and
the remembered search keyword is a C string (no NUL byte).  Nothing about the row, the marks or the registers is
needed: `ex_region` validates every address before a line is touched.  Every theorem below is total correctness:
the call *returns* and the state it returns is `Safe` again, at the same `:@` depth (`Ret d x`).

**Hypotheses that remain, all explicit**
* `0 ∉ loc`, `0 ∉ arg`: the pieces of a command line are C strings.  (A NUL inside a pattern, `\` NUL, makes the
  model's `ratom_read` see a backslash at the end of the text: `rstrMake_nul_traps`.  Not a C behaviour.)
* `PathFits ed arg sp`: the path expansion stays under the 1000 bytes the model follows.  `ex_pathexpand` truncates
  at 1023 bytes, safely; the model answers `none` instead (`pathExpand_limit_traps`, `write_limit_traps`).  It holds
  for every argument without `%`, `#`, `=` (`pathFits_plain`), and `pathExpand_none_iff` says that is the only
  `none` of the path expansion.
* for `:g`: the scan does not exhaust the step budget of the model (`scanT … ≠ budget`).  All other failures of the
  scan are proved impossible (`glob_scan_no_trap`).  The budget is the model's stand-in for "the loop does not
  end"; it can be exceeded in the model by marks an earlier `:g` left in another buffer, while the C loop ends
  (200 lines `x` in `A`, one line `y` in `B`: `:g/x/e! B` then `:g/y/e! A` — the second scan walks the 199 stale marks
  of `A` with the budget of the one-line buffer: `none` in the model, fine in `/repo/vi`).
* for `:@`, `:g`, `:e +cmd`: the command line they run returns (`at_no_trap`, `glob_no_trap`, `edit_no_trap`).  The
  fuel they need is that of the command line plus 3 resp. 4: `need K d ln = 4 * nest ln + 3 + (16 - d) * K`
  (`exExec_no_trap_cond`), where `nest` counts the bytes `g`, `v`, `+` of the line and `d` is the `:@` depth, which the
  repaired `ec_at` bounds by 16.

**Unconditional results**: every handler that runs no command line (`runCmd_no_trap`, and per handler with the
weaker `PathFits`); every *flat* line (`exExec_flat_no_trap`: no `:@`, no `:g`, no `+cmd`; a decidable check on the
line as `ex_exec` cuts it); **`:g` over a command list that acts on the current buffer** (`glob_local_no_trap`,
`exExec_gflat_no_trap`: the handlers of such a list add no mark, `local_handlers_add_no_mark`, hence the scan ends
within its budget, `glob_budget_suffices`); every *plain* line with enough fuel (`exExec_plain_no_trap`: no byte of
`@ % # = g v`, `+cmd` nested at will); one round of the `ex()` loop and whole scripts over such lines
(`exStep_no_trap`, `exRun_no_trap`), from `ex_init` (`exInit_no_trap`, `session_no_trap`).  The regular-expression
layer is trap-free without any hypothesis but "the pattern is a C string" (`rstr_make_no_trap`,
`rstr_find_no_trap`, `group_offsets_sane`, `atom_no_trap`).

**Found on the way** (real defects of the editor, since repaired in /repo and in the model): unbounded recursion of
`:@a` on a register holding `@a` (stack overflow); `:s` after an empty match stepping over the terminator of a line
that ends in a truncated multi-byte character; `:g` resuming at row `-1` (`ln_glob[-1]`, read and write); `:@a` whose
text rewrites register `a` (use after free; the model has no heap).

Byte strings are lists of character codes.
-/
namespace Neatvi.Props.C05e
open Neatvi Neatvi.Lbuf Neatvi.LbufIo Neatvi.Ex Neatvi.Rset Neatvi.Regex
open Neatvi.Lemmas.C05e Neatvi.Lemmas.C02b Neatvi.Lemmas.C06b
open Neatvi.Props.C02.Ex (exRun)

export Neatvi.Lemmas.C05e (Safe Ret RetM MLe markCnt PathFits PathsEq ReSafe ReGroups OffsOk LineCond need nest Plain plainB flatCmd
  flatLine lflatCmd lflatLine gflatCmd gflatLine localHandler plainArg pathHandler LineOk NameOk ScanRes scanT ScanGood ScanFin
  plusOf PlusOk Pre gBudget)

/-! ## 1. the primitives under the handlers -/

/-- `lbuf_undo` and `lbuf_redo` never index outside the history of a buffer the lbuf API built -/
theorem undo_redo_no_trap (lb : Lb) (h : GoodLb lb) : Lbuf.undo lb ≠ none ∧ Lbuf.redo lb ≠ none := by
  obtain ⟨_, _, h1⟩ := undo_total h
  obtain ⟨_, _, h2⟩ := redo_total h
  exact ⟨ne_none_of_eq h1, ne_none_of_eq h2⟩

/-- `lbuf_rd` with an ordered range never overflows its string buffer, whatever the chunks the kernel delivers -/
theorem rd_no_trap (lb : Lb) (chunks : List Bytes) (fe : Bool) (b e : Nat) (hbe : b ≤ e) : rd lb chunks fe b e ≠ none := by
  obtain ⟨_, _, h⟩ := rd_total lb chunks fe b e hbe
  exact ne_none_of_eq h

/-- `lbuf_save` never traps, whatever system-call faults are scheduled (short writes, failed writes, failed open or
    close), for an end that is `-1` (the whole buffer) or inside it; neither does `bufs_modified` -/
theorem save_no_trap (ed : Ed) (lb : Lb) (b : Nat) (e : Int) (path : Bytes) (force : Bool) (ts : Int)
    (he : e < 0 ∨ e ≤ lb.lines.length) (idx : Nat) (msg : Option Bytes) :
    lbufSave ed lb b e path force ts ≠ none ∧ lbufSaveP ed lb b e path force ts ≠ none ∧ bufsModified ed idx msg ≠ none := by
  obtain ⟨_, _, h1⟩ := lbufSave_total ed lb b e path force ts he
  obtain ⟨_, _, h2⟩ := lbufSaveP_total ed lb b e path force ts he
  obtain ⟨_, _, h3⟩ := bufsModified_total ed idx msg
  exact ⟨ne_none_of_eq h1, ne_none_of_eq h2, ne_none_of_eq h3⟩

/-- address evaluation (`ex_region`, with searches `/re/`, `?re?`, marks, offsets) never traps on an address text
    that is a C string; the state it leaves is safe -/
theorem exRegion_no_trap (ed : Ed) (h : Safe ed) (loc : Bytes) (h0 : 0 ∉ loc) :
    ∃ rc b e ed1, exRegion ed loc = some ((rc, b, e), ed1) ∧ Safe ed1 ∧ (rc = 0 → 0 ≤ b ∧ b ≤ e ∧ e ≤ ed1.len) := by
  obtain ⟨rc, b, e, ed1, hr, h1, _, _, hin, _⟩ := region_cases reSafe h loc h0
  exact ⟨rc, b, e, ed1, hr, h1, hin⟩

/-- the only `none` of `ex_pathexpand` is the size limit of the model -/
theorem pathExpand_none_only_by_size (ed : Ed) (src : Bytes) (sp : Bool) : pathExpand ed src sp = none ↔ ¬ PathFits ed src sp :=
  pathExpand_none_iff ed src sp

/-- an argument without `%`, `#`, `=` shorter than 1000 bytes fits, in every state -/
theorem plain_path_fits (ed : Ed) (src : Bytes) (sp : Bool) (hs : ∀ c ∈ src, c ≠ 37 ∧ c ≠ 35 ∧ c ≠ 61)
    (hl : src.length < 1000) : PathFits ed src sp := pathFits_plain ed src sp hs hl

/-! ## 2. the regular-expression layer -/

/-- `rstr_make` (the literal fast path or `regcomp` of `((pat))`) never traps on a pattern that is a C string: the
    recursive descent has fuel enough and neither `ratom_read` nor the `{m,n}` reader steps over the terminator -/
theorem rstr_make_no_trap (pat : Bytes) (h0 : 0 ∉ pat) (flg : Nat) : rstrMake pat flg ≠ none := reSafe.make pat flg h0

/-- `ratom_match` never traps at a position inside the subject — every atom, every bracket expression and literal
    (arbitrary bytes), with and without ICASE -/
theorem atom_no_trap (a : Atom) (subj : Bytes) (flg pos : Nat) (hp : pos ≤ subj.length) :
    atomMatch a subj flg pos ≠ AR.trap := atomMatch_no_trap a subj flg pos hp

/-- `rstr_find` of what `rstr_make` made never traps, on any subject, with any flags and limits -/
theorem rstr_find_no_trap (pat : Bytes) (flg : Nat) (re : RStr) (h : rstrMake pat flg = some (some re))
    (s : Bytes) (n fl nd ngrps : Nat) : rstrFind re s n fl nd ngrps ≠ none := by
  obtain ⟨x, hx⟩ := rstrFind_total h s n fl nd ngrps
  rw [hx]; exact fun h => by cases h

/-- the offsets `rstr_find` reports for the groups `\0`–`\9` are an empty pair (`-1, -1` when unset) or a range
    `0 ≤ so ≤ eo ≤ length`: `replace()` of `:s` never copies a negative or out-of-line length -/
theorem group_offsets_sane (pat : Bytes) (flg : Nat) (re : RStr) (s : Bytes) (fl : Nat) (r : Int) (offs : List Int) (c : Nat)
    (hm : rstrMake pat flg = some (some re)) (hf : rstrFind re s 16 fl ND NG = some (r, offs, c)) (h0 : 0 ≤ r) :
    OffsOk s offs := reGroups pat flg re s fl r offs c hm hf h0

/-- the marks of a successful VM run stay paired through every tree numbered by `grpnum` -/
theorem marks_paired (pat : Bytes) (flg : Nat) (prog : Prog) (hc : regcomp pat flg = some (some prog))
    (subj : Bytes) (nsub eflg nd K : Nat) (hK : 1 ≤ K) (m : Marks) (c : Nat) (subs : List (Int × Int))
    (hr : regexec prog subj nsub eflg nd (2 * K) = (ExecRes.found m c, subs)) :
    ∀ j, 1 ≤ j → 2 * j + 1 < m.length → PairAt m subj.length j :=
  (regexec_marks hc subj nsub eflg nd K hK m c subs hr).2

/-! ## 3. the handlers that run no command line -/

/-- **every handler other than `ec_at`, `ec_glob`, `ec_edit +cmd`** — `:a :i :c :p :d :y :pu := :u :redo :k :rs :s
    :! :r :w :q :wq :x :xa :b :se :ec`, the empty command, and every name the model does not know — returns from a
    safe state, for every address, name and argument that are C strings, every text, every fuel `≥ 2`; a file-name
    argument has to be free of `%`, `#`, `=` (or see the per-handler theorems with `PathFits`) -/
theorem runCmd_no_trap (f : Nat) (ed : Ed) (h : Safe ed) (hd : String) (loc cmd arg : Bytes) (txt : Option Bytes)
    (hflat : flatCmd ⟨loc, cmd, some ([], hd), arg, []⟩ = true) (hl : arg.length < 1000) :
    Ret ed.atDepth (runCmd (f + 2) ed hd loc cmd arg txt) :=
  runCmd_flat f h ⟨loc, cmd, some ([], hd), arg, []⟩ [] hd rfl hflat hl txt

/-- in particular the result is not `none` -/
theorem runCmd_ne_none (f : Nat) (ed : Ed) (h : Safe ed) (hd : String) (loc cmd arg : Bytes) (txt : Option Bytes)
    (hflat : flatCmd ⟨loc, cmd, some ([], hd), arg, []⟩ = true) (hl : arg.length < 1000) :
    runCmd (f + 2) ed hd loc cmd arg txt ≠ none := (runCmd_no_trap f ed h hd loc cmd arg txt hflat hl).ne_none

/-- `:s`: the row stays inside the buffer whatever the replacements do to the number of lines, the matcher does not
    trap, the group offsets are sane, `lbuf_edit` gets an ordered range -/
theorem subst_no_trap (f : Nat) (ed : Ed) (h : Safe ed) (loc cmd arg : Bytes) (txt : Option Bytes) (hloc : 0 ∉ loc)
    (harg : 0 ∉ arg) : Ret ed.atDepth (runCmd (f + 1) ed "ec_substitute" loc cmd arg txt) :=
  run_subst reSafe reGroups f h loc cmd arg txt hloc harg

/-- `substLine` itself, on any line (also one that is not valid UTF-8: since the repair the character copied after
    an empty match is clamped to the bytes left) -/
theorem substLine_no_trap (pat : Bytes) (flg : Nat) (re : RStr) (hm : rstrMake pat flg = some (some re)) (rep : Bytes)
    (g : Bool) (line : Bytes) : substLine re rep g line ≠ none := by
  obtain ⟨x, hx⟩ := substLine_total reSafe reGroups hm rep g line
  rw [hx]; exact fun h => by cases h

/-- `:w`, `:r`, `:!`, `:q` and relatives under the weaker hypothesis that the path expansion fits -/
theorem write_no_trap (f : Nat) (ed : Ed) (h : Safe ed) (loc cmd arg : Bytes) (txt : Option Bytes) (hloc : 0 ∉ loc)
    (hp : PathFits ed arg true) : Ret ed.atDepth (runCmd (f + 1) ed "ec_write" loc cmd arg txt) :=
  run_write reSafe f h loc cmd arg txt hloc hp

theorem read_no_trap (f : Nat) (ed : Ed) (h : Safe ed) (loc cmd arg : Bytes) (txt : Option Bytes) (hloc : 0 ∉ loc)
    (hp : PathFits ed arg true) : Ret ed.atDepth (runCmd (f + 1) ed "ec_read" loc cmd arg txt) :=
  run_read reSafe f h loc cmd arg txt hloc hp

theorem filter_no_trap (f : Nat) (ed : Ed) (h : Safe ed) (loc cmd arg : Bytes) (txt : Option Bytes) (hloc : 0 ∉ loc)
    (hp : PathFits ed arg true) : Ret ed.atDepth (runCmd (f + 1) ed "ec_exec" loc cmd arg txt) :=
  run_exec reSafe f h loc cmd arg txt hloc hp

theorem quit_no_trap (f : Nat) (ed : Ed) (h : Safe ed) (loc cmd arg : Bytes) (txt : Option Bytes)
    (hp : PathFits ed arg true) : Ret ed.atDepth (runCmd (f + 1) ed "ec_quit" loc cmd arg txt) :=
  run_quit reSafe f h loc cmd arg txt hp

/-- handler names outside the model are answered "not modelled" (return code 1) -/
theorem unknown_handler (f : Nat) (ed : Ed) (hd : String) (hn : hd ∉ modelled) (loc cmd arg : Bytes) (txt : Option Bytes) :
    runCmd (f + 1) ed hd loc cmd arg txt = some (1, { ed with unmodelled := true }) := run_other f ed hd hn loc cmd arg txt

/-! ## 4. the handlers that run command lines: a trap of theirs is a trap (or the fuel) of the line they run -/

/-- `:@r` (and `:ra`): total when the command line in the register returns one level deeper; at depth 16 the
    repaired `ec_at` refuses ("register recursion too deep"), so the recursion that used to overflow the stack is
    bounded -/
theorem at_no_trap (f : Nat) (ed : Ed) (h : Safe ed) (loc cmd arg : Bytes) (txt : Option Bytes) (hloc : 0 ∉ loc)
    (hC : ∀ (ed' : Ed) (buf : Bytes), Safe ed' → ed'.atDepth = ed.atDepth + 1 → ed.atDepth < 16 →
      ¬ ((cmd.headD 0 == 114 && cmd.getD 1 0 == 97) = true) → Ret (ed.atDepth + 1) (exCommand f ed' buf)) :
    Ret ed.atDepth (runCmd (f + 2) ed "ec_at" loc cmd arg txt) := run_at reSafe f h loc cmd arg txt hloc hC

/-- `:e` (also `:e!`, `:ew`): total when the path expansion fits and the `+cmd`, if any, returns -/
theorem edit_no_trap (f : Nat) (ed : Ed) (h : Safe ed) (loc cmd arg : Bytes) (txt : Option Bytes)
    (hp : PathFits ed (plusOf arg).2 false) (hC : PlusOk f ed.atDepth (plusOf arg).1) :
    Ret ed.atDepth (runCmd (f + 2) ed "ec_edit" loc cmd arg txt) := run_edit f h loc cmd arg txt hp hC

/-- the scan of `:g` never traps: from a safe state and a row `≥ 0` (the repaired scan resumes at
    `MAX(0, MIN(i, xrow))`) every line it looks at exists, the matcher does not trap, and it ends (`done`, in a safe
    state) or stops for the step budget of the model — given that the command line it runs returns -/
theorem glob_scan_no_trap (pat : Bytes) (flg : Nat) (re : RStr) (hm : rstrMake pat flg = some (some re))
    (f : Nat) (neg : Bool) (s : Bytes) (dep d : Nat)
    (hbody : ∀ (ed' : Ed) (i' : Int), Safe ed' → ed'.atDepth = d → Ret d (exExec f { ed' with xrow := i' } s))
    (g : Nat) (ed : Ed) (i : Int) (h : Safe ed) (hd : ed.atDepth = d) (hi : 0 ≤ i) :
    ScanGood d (scanT f neg s re dep g ed i) ∧ ecGlob.scan f neg s re dep g ed i = (scanT f neg s re dep g ed i).toOption :=
  ⟨scanT_no_trap reSafe hm f neg s dep d hbody g ed i h hd hi, scan_eq f neg s re dep g ed i⟩

/-- `:g`, `:g!`, `:v`: total when the command line it runs returns and no scan exhausts the step budget -/
theorem glob_no_trap (f : Nat) (ed : Ed) (h : Safe ed) (loc cmd arg : Bytes) (txt : Option Bytes) (hloc : 0 ∉ loc)
    (harg : 0 ∉ arg)
    (hbody : ∀ (ed' : Ed) (i' : Int), Safe ed' → ed'.atDepth = ed.atDepth →
      Ret ed.atDepth (exExec f { ed' with xrow := i' } (reRead arg).2))
    (hbud : ∀ (re : RStr) (dep : Nat) (ed0 : Ed) (b : Int), Safe ed0 → ed0.atDepth = ed.atDepth → dep ≤ 7 → 0 ≤ b →
      scanT f (hasBang cmd || cmd.headD 0 == 118) (reRead arg).2 re dep (gBudget ed0) ed0 b ≠ ScanRes.budget) :
    Ret ed.atDepth (runCmd (f + 2) ed "ec_glob" loc cmd arg txt) := run_glob reSafe f h loc cmd arg txt hloc harg hbody hbud

/-- the scan ends within its step budget when the command list never raises the number of lines of the current buffer
    that carry the mark (`markCnt`): every round that does not end the scan clears a mark.  (`dep ≤ 7`: an eighth level
    of `:g` is refused since the repair.) -/
theorem glob_budget_suffices (f : Nat) (neg : Bool) (s : Bytes) (re : RStr) (dep d : Nat) (hdep : dep ≤ 7)
    (hmu : ∀ (ed' : Ed) (i' : Int) (r : Int) (ed'' : Ed), Safe ed' → ed'.atDepth = d →
      exExec f { ed' with xrow := i' } s = some (r, ed'') → Safe ed'' ∧ ed''.atDepth = d ∧ markCnt dep ed'' ≤ markCnt dep ed')
    (ed : Ed) (i : Int) (h : Safe ed) (hd : ed.atDepth = d) (hi : 0 ≤ i) :
    scanT f neg s re dep (gBudget ed) ed i ≠ ScanRes.budget :=
  scanT_within f neg s re dep d hdep hmu (gBudget ed) ed i h hd hi (Or.inr (by
    have := markCnt_le_len h dep
    have := budget_ge ed.len.toNat
    unfold gBudget
    omega))

/-- no handler that acts on the current buffer adds a mark (and each returns): `:a :i :c :p :d :y :pu := :u :redo :k :rs
    :s :! :r :w :se :ec`, the empty command, names outside the model — as one statement about a local flat command -/
theorem local_handlers_add_no_mark (k : Nat) (ed : Ed) (h : Safe ed) (p : Parsed) (a : Bytes) (hd : String)
    (hi : p.idx = some (a, hd)) (hf : lflatCmd p = true) (hl : p.arg.length < 1000) (txt : Option Bytes) :
    RetM ed (runCmd (k + 2) ed hd p.loc p.cmd p.arg txt) := runCmd_lflat k h p a hd hi hf hl txt

/-- **`:g` over a command list that acts on the current buffer** (`g/pat/s/a/b/|d`, `v/pat/p`, …): no trap and no
    hypothesis left — the command list returns and adds no mark, so the scan ends within its budget -/
theorem glob_local_no_trap (k : Nat) (ed : Ed) (h : Safe ed) (loc cmd arg : Bytes) (txt : Option Bytes)
    (hloc : 0 ∉ loc) (harg : 0 ∉ arg) (hfl : lflatLine ((reRead arg).2.length + 1) (reRead arg).2 = true) :
    Ret ed.atDepth (runCmd (k + 5) ed "ec_glob" loc cmd arg txt) := run_glob_lflat k h loc cmd arg txt hloc harg hfl

/-! ## 5. command lines -/

/-- **a flat line never traps** — the check `flatLine` cuts the line as `ex_exec` does and asks of every command: address
    and argument are C strings, the handler is not `ec_at` / `ec_glob`, `:e` has no `+cmd`, a file-name argument has no
    `%`, `#`, `=`.  Every fuel `≥ 3`. -/
theorem exExec_flat_no_trap (k : Nat) (ed : Ed) (h : Safe ed) (ln : Bytes) (hfl : flatLine (ln.length + 1) ln = true) :
    Ret ed.atDepth (exExec (k + 3) ed ln) := exec_flat k h ln hfl

/-- **flat commands mixed with `:g` over local flat command lists**: every fuel `≥ 6` -/
theorem exExec_gflat_no_trap (k : Nat) (ed : Ed) (h : Safe ed) (ln : Bytes) (hfl : gflatLine (ln.length + 1) ln = true) :
    Ret ed.atDepth (exExec (k + 6) ed ln) := exec_gflat k h ln hfl

/-- **the general induction over the fuel**: under a side condition on the text of the lines (`LineCond A K`) `ex_exec`
    returns as soon as the fuel covers `need K d ln = 4 * nest ln + 3 + (16 - d) * K` -/
theorem exExec_no_trap_cond (A : Bytes → Prop) (K : Nat) (hA : LineCond A K) (f : Nat) (ed : Ed) (ln : Bytes) (h : Safe ed)
    (hAl : A ln) (hf : need K ed.atDepth ln ≤ f) : Ret ed.atDepth (exExec f ed ln) :=
  exec_ret reSafe reGroups hA (need K ed.atDepth ln) f ed ln h hAl (Nat.le_refl _) hf

/-- **a plain line never traps** (no byte of `NUL @ % # = g v`; `:e +cmd` nested at will): fuel `4 * (number of +) + 3` -/
theorem exExec_plain_no_trap (f : Nat) (ed : Ed) (ln : Bytes) (h : Safe ed) (hp : Plain ln) (hf : 4 * nest ln + 3 ≤ f) :
    Ret ed.atDepth (exExec f ed ln) :=
  exExec_no_trap_cond Plain 0 lineCond_plain f ed ln h hp (by unfold need; simp only [Nat.mul_zero, Nat.add_zero]; exact hf)

/-- `ex_command` needs one unit more -/
theorem exCommand_no_trap (ed : Ed) (h : Safe ed) (hd : ed.atDepth = 0) (l : Bytes) (hl : LineOk l) :
    Ret 0 (exCommand FUEL ed l) := command_ok h hd l hl

/-! ## 6. the `ex()` loop, scripts, `ex_init` -/

/-- **one round of the `ex()` loop** (fuel `FUEL = 200`) on a covered line (`LineOk`): flat; or flat commands mixed
    with `:g` over local flat command lists; or plain with at most 49 `+` (`4 * nest l + 4 ≤ FUEL`) -/
theorem exStep_no_trap (ed : Ed) (h : Safe ed) (hd : ed.atDepth = 0) (l : Bytes) (rest : List Bytes)
    (hin : ed.input = l :: rest) (hl : LineOk l) : ∃ r ed', exStep ed = some (r, ed') ∧ Safe ed' ∧ ed'.atDepth = 0 :=
  step_ok h hd l rest hin hl

/-- **scripts**: `n` rounds of the loop never trap when every line the loop reads (text lines of `:a`, `:i`, `:c` are
    consumed by those commands and are not read as command lines) is covered -/
theorem exRun_no_trap (n : Nat) (ed : Ed) (h : Safe ed) (hd : ed.atDepth = 0)
    (hl : ∀ k edk l rest, k < n → exRun k ed = some edk → edk.input = l :: rest → LineOk l) :
    ∃ ed', exRun n ed = some ed' ∧ Safe ed' ∧ ed'.atDepth = 0 := run_ok n ed h hd hl

/-- **`ex_init`** from the empty table with no file or a file name without blank, `%`, `#`, `=`, not starting with `+`:
    it returns and leaves a safe state (a current buffer exists from then on) -/
theorem exInit_no_trap (ed0 : Ed) (files : List Bytes) (h0 : ed0.bufs = List.replicate Gen.NBUFS none) (hk : 0 ∉ ed0.xkwd)
    (hd : ed0.atDepth = 0) (hn : NameOk files) :
    ∃ rc ed1, exInit ed0 files = some (rc, ed1) ∧ Safe ed1 ∧ ed1.atDepth = 0 := init_ok ed0 files h0 hk hd hn

/-- **a whole session**: `ex_init`, then any number of rounds over covered lines: no trap anywhere -/
theorem session_no_trap (ed0 : Ed) (files : List Bytes) (n : Nat) (h0 : ed0.bufs = List.replicate Gen.NBUFS none)
    (hk : 0 ∉ ed0.xkwd) (hd : ed0.atDepth = 0) (hn : NameOk files)
    (hl : ∀ rc ed1, exInit ed0 files = some (rc, ed1) →
      ∀ k edk l rest, k < n → exRun k ed1 = some edk → edk.input = l :: rest → LineOk l) :
    ∃ rc ed1 ed, exInit ed0 files = some (rc, ed1) ∧ exRun n ed1 = some ed ∧ Safe ed := by
  obtain ⟨rc, ed1, hi, h1, hd1⟩ := exInit_no_trap ed0 files h0 hk hd hn
  obtain ⟨ed, hr, h2, _⟩ := exRun_no_trap n ed1 h1 hd1 (hl rc ed1 hi)
  exact ⟨rc, ed1, ed, hi, hr, h2⟩

/-! ## 7. the traps of the model that are left — none of them is a trap of the C code -/

/-- the path-size limit: `%%` with a 500-byte path (the C code truncates at 1023 bytes) -/
theorem path_limit_traps : Safe edLong ∧ pathExpand edLong [37, 37] true = none ∧
    runCmd 5 edLong "ec_write" [] (strOf "w") [37, 37] none = none :=
  ⟨edLong_safe, pathExpand_limit_traps, write_limit_traps⟩

/-- a NUL byte after a backslash in a pattern (not a C string) -/
theorem nul_pattern_traps : rstrMake [92, 0] 0 = none := rstrMake_nul_traps

/-! ## 8. non-vacuity -/

/-- the witness state (two lines `ab`, `c d` built by `lbuf_edit`, a register, a file) is safe -/
example : Safe wEd := wEd_safe

/-- `runCmd_no_trap` applies to `:s/a/b/g` on it -/
example : Ret wEd.atDepth (runCmd 2 wEd "ec_substitute" [] (strOf "s") (strOf "/a/b/g") none) :=
  runCmd_no_trap 0 wEd wEd_safe "ec_substitute" [] (strOf "s") (strOf "/a/b/g") none (by decide +kernel) (by decide +kernel)

/-- the lines `s/a/b/g` and `1,2d|w out|e other` are flat; `g/a/p` is not; `e +2d other` is plain with one `+` -/
example : flatLine 9 (strOf "s/a/b/g") = true ∧ flatLine 20 (strOf "1,2d|w out|e other") = true ∧
    flatLine 9 (strOf "g/a/p") = false ∧ Plain (strOf "e +2d other") ∧ nest (strOf "e +2d other") = 1 :=
  ⟨flat_subst, flat_bar, flat_not_glob, plain_plus.1, plain_plus.2⟩

/-- `exExec_plain_no_trap` applies to `e +2d other` (one `+`: fuel 7) on the witness state -/
example : Ret wEd.atDepth (exExec 7 wEd (strOf "e +2d other")) :=
  exExec_plain_no_trap 7 wEd (strOf "e +2d other") wEd_safe plain_plus.1 (by rw [plain_plus.2]; decide)

/-- `exRegion_no_trap` applies to the address `1,/c/` on the witness state -/
example : ∃ rc b e ed1, exRegion wEd (strOf "1,/c/") = some ((rc, b, e), ed1) ∧ Safe ed1 ∧ (rc = 0 → 0 ≤ b ∧ b ≤ e ∧ e ≤ ed1.len) :=
  exRegion_no_trap wEd wEd_safe (strOf "1,/c/") (by decide +kernel)

/-- `exStep_no_trap` applies: the round that reads `1,2d|w out|e other` returns -/
example : ∃ r ed', exStep (wEdIn [strOf "1,2d|w out|e other"]) = some (r, ed') ∧ Safe ed' :=
  let ⟨r, ed', h, hs, _⟩ := exStep_no_trap (wEdIn [strOf "1,2d|w out|e other"]) (wEdIn_safe _) rfl
    (strOf "1,2d|w out|e other") [] rfl (Or.inl (by decide +kernel))
  ⟨r, ed', h, hs⟩

/-- the lines `g/a/s/b/X/|d` and `1d|v/x/p` are covered (`gflatLine`); `g/a/e other` (the command list switches
    buffers) is not -/
example : gflatLine ((strOf "g/a/s/b/X/|d").length + 1) (strOf "g/a/s/b/X/|d") = true ∧
    gflatLine ((strOf "1d|v/x/p").length + 1) (strOf "1d|v/x/p") = true ∧
    gflatLine ((strOf "g/a/e other").length + 1) (strOf "g/a/e other") = false := ⟨gflat_glob, gflat_mixed, gflat_not_switch⟩

/-- `exStep_no_trap` applies to a round that reads `g/a/s/b/X/|d` -/
example : ∃ r ed', exStep (wEdIn [strOf "g/a/s/b/X/|d"]) = some (r, ed') ∧ Safe ed' :=
  let ⟨r, ed', h, hs, _⟩ := exStep_no_trap (wEdIn [strOf "g/a/s/b/X/|d"]) (wEdIn_safe _) rfl
    (strOf "g/a/s/b/X/|d") [] rfl (Or.inr (Or.inl gflat_glob))
  ⟨r, ed', h, hs⟩

/-- `exInit_no_trap` applies to the editor started on the file `f` -/
example : ∃ rc ed1, exInit ({} : Ed) [strOf "f"] = some (rc, ed1) ∧ Safe ed1 ∧ ed1.atDepth = 0 :=
  exInit_no_trap {} [strOf "f"] rfl (by decide) rfl (nameOk_of_check (by decide +kernel))

end Neatvi.Props.C05e
