import NeatviVerif.Lemmas.C16bLit
/-!
# C16 (the `:s` clause): the substitute command keeps a line valid UTF-8

"… character-wise commands never split a multi-byte character: a buffer that is valid UTF-8 remains
valid UTF-8 under any command that does not itself insert raw bytes."

`IsU8 s`: `s` is the encoding of code points U+0001 .. U+10FFFF (`Lemmas/C16bUtf8`; the same as
`C11b.StrictLit`).  `IsBd s k`: `k` is a character boundary of `s` — `s.take k` and `s.drop k` are both
valid (for valid `s = encStr cs` and `k` within it this is `C11b.Boundary cs k`: `isBd_iff_boundary`).

* `BoundaryMatcher find rep` — the matcher respects boundaries: on a valid subject the start and the end
  of the match are character boundaries, and both ends of every group the replacement refers to are
  `-1` or character boundaries.  (Nothing else is needed: not `so ≤ eo`, not `eo ≤ length`, and `GrpOk`
  is what a successful scan implies anyway.)
* `scan_pieces_valid` / `scan_keeps_valid` (U1): every piece the reference scan of `:s` cuts — the
  bytes skipped, the expansion inserted, the character copied after an empty match — and the rest are
  valid UTF-8; hence so is the output.
* `substLine_keeps_valid` (U2): the model's `substLine`.
* `…_on` variants: the matcher has to respect boundaries only on a domain `D` of subjects that is
  closed under taking non-empty suffixes (e.g. "ends with a newline", needed for the literal fast
  path of `rstr_find` with `$`).
* U3, the hypothesis discharged: `boundaryMatcher_of_regcomp` (the regex engine, from
  `C11b.offsets_on_boundaries`), `boundaryMatcher_of_literal` (the fast path of `rstr.c`),
  `rstrMake_boundaryMatcher` (whatever `rstr_make` returns for a valid UTF-8 pattern), and
  `subst_keeps_valid`: pattern, replacement and line valid UTF-8, the line ending with its newline ⇒ the
  line `:s` writes back is valid UTF-8.  `subst_needs_newline`: without the newline the model's `$` splits
  a character (the last byte is taken for the newline).
* U4: non-vacuity, and the hypothesis is needed: `aéb` with a matcher that reports `so = 2` (inside `é`);
  an end-to-end run through the regex engine (`reD_subst`).
-/
namespace Neatvi.Props.C16b
open Neatvi Neatvi.Uc Neatvi.Spec Neatvi.Rset Neatvi.Ex Neatvi.Props.C11b Neatvi.Props.C14

/-! ## the hypothesis on the matcher -/

/-- the matcher respects character boundaries on the valid subjects in `D` -/
def BoundaryMatcherOn (D : Bytes → Prop) (find : Matcher) (rep : Bytes) : Prop :=
  ∀ s nb so eo offs, IsU8 s → D s → find s nb = some (some (so, eo, offs)) →
    IsBd s so ∧ IsBd s eo ∧ ∀ d ∈ refs rep, OffBd s (grpSo offs d) ∧ OffBd s (grpEo offs d)

/-- the matcher respects character boundaries on every valid subject -/
def BoundaryMatcher (find : Matcher) (rep : Bytes) : Prop := BoundaryMatcherOn (fun _ => True) find rep

/-- a set of subjects closed under non-empty suffixes -/
def SuffixClosed (D : Bytes → Prop) : Prop := ∀ s k, D s → s.drop k ≠ [] → D (s.drop k)

theorem suffixClosed_true : SuffixClosed (fun _ => True) := fun _ _ _ _ => trivial

theorem BoundaryMatcher.on {find : Matcher} {rep : Bytes} (h : BoundaryMatcher find rep) (D : Bytes → Prop) :
    BoundaryMatcherOn D find rep :=
  fun s nb so eo offs hs _ hf => h s nb so eo offs hs trivial hf

/-- the form of the hypothesis with everything one expects of a matcher spelled out: an interval inside
    the subject, on boundaries, every referenced group usable and on boundaries -/
def BoundaryMatcherFull (find : Matcher) (rep : Bytes) : Prop :=
  ∀ s nb so eo offs, IsU8 s → find s nb = some (some (so, eo, offs)) →
    so ≤ eo ∧ eo ≤ s.length ∧ IsBd s so ∧ IsBd s eo ∧
    ∀ d ∈ refs rep, GrpOk s offs d ∧ OffBd s (grpSo offs d) ∧ OffBd s (grpEo offs d)

theorem BoundaryMatcherFull.weaken {find : Matcher} {rep : Bytes} (h : BoundaryMatcherFull find rep) :
    BoundaryMatcher find rep := by
  intro s nb so eo offs hs _ hf
  obtain ⟨_, _, h1, h2, h3⟩ := h s nb so eo offs hs hf
  exact ⟨h1, h2, fun d hd => (h3 d hd).2⟩

/-! ## inversion of the scan, with the reason it went on -/

/-- `C14.scan_cases`, keeping what the scan knows when it goes on: the rest is not empty, does not
    start with the newline, and `g` is set (now `C14.scan_cases_go`; the character is copied after every
    empty match, `eo ≤ so`, not only after one at the start of the scanned text) -/
theorem scan_cases' {find : Matcher} {rep : Bytes} {g : Bool} {ln : Bytes} {nb : Bool} {ps : List Piece}
    {rest : Bytes} (h : scan find rep g ln nb = some (ps, rest)) :
    (find ln nb = some none ∧ ps = [] ∧ rest = ln) ∨
    ∃ so eo offs x l ps', find ln nb = some (some (so, eo, offs)) ∧ expandOpt rep ln offs = some x ∧
      l = (if eo ≤ so then min (Uc.ucLen ((ln.drop eo).headD 0)) (ln.drop eo).length else 0) ∧ l ≤ (ln.drop eo).length ∧
      ps = ⟨ln.take so, (ln.take eo).drop so, x, (ln.drop eo).take l⟩ :: ps' ∧
      ((ps' = [] ∧ rest = (ln.drop eo).drop l) ∨
       ((ln.drop eo).drop l ≠ [] ∧ ((ln.drop eo).drop l).headD 0 ≠ 10 ∧ g = true ∧
        ((ln.drop eo).drop l).length < ln.length ∧
        scan find rep g ((ln.drop eo).drop l) true = some (ps', rest))) :=
  scan_cases_go h

/-! ## U1: the reference scan -/

/-- every piece is made of whole characters -/
def PieceU8 (p : Piece) : Prop := IsU8 p.skip ∧ IsU8 p.sub ∧ IsU8 p.ch

/-- a successful expansion against a matcher result that is on boundaries is valid -/
theorem expandOpt_valid {rep ln : Bytes} {offs : List Int} {x : Bytes} (hrep : IsU8 rep)
    (hx : expandOpt rep ln offs = some x)
    (hb : ∀ d ∈ refs rep, OffBd ln (grpSo offs d) ∧ OffBd ln (grpEo offs d)) : IsU8 x := by
  unfold expandOpt at hx
  split at hx
  · rename_i hok
    cases hx
    exact expandRef_valid hrep (fun d hd => grpText_valid (hok d hd) (hb d hd).1 (hb d hd).2)
  · cases hx

/-- **U1, piece by piece** (on a suffix-closed domain): against a boundary-respecting matcher and with
    a valid replacement, the scan of a valid line cuts it into valid pieces and a valid rest -/
theorem scan_pieces_valid_on (D : Bytes → Prop) (hD : SuffixClosed D) (find : Matcher) (rep : Bytes)
    (hm : BoundaryMatcherOn D find rep) (hrep : IsU8 rep) (g : Bool) :
    ∀ (n : Nat) (ln : Bytes), ln.length < n → IsU8 ln → D ln →
    ∀ (nb : Bool) (ps : List Piece) (rest : Bytes), scan find rep g ln nb = some (ps, rest) →
      (∀ p ∈ ps, PieceU8 p) ∧ IsU8 rest := by
  intro n
  induction n with
  | zero => intro ln hn; omega
  | succ n ih =>
    intro ln hn hln hDln nb ps rest h
    rcases scan_cases' h with ⟨_, rfl, rfl⟩ | ⟨so, eo, offs, x, l, ps', hf, hx, hl, _, rfl, hrest⟩
    · exact ⟨by simp, hln⟩
    · obtain ⟨hso, heo, hgrp⟩ := hm ln nb so eo offs hln hDln hf
      have hxv : IsU8 x := expandOpt_valid hrep hx hgrp
      -- the character copied after an empty match, and what follows it
      have hch : IsU8 ((ln.drop eo).take l) ∧ IsU8 ((ln.drop eo).drop l) := by
        by_cases he : eo ≤ so
        · rw [if_pos he] at hl
          obtain ⟨h1, h2, h3⟩ := isU8_head_char heo.2
          rw [hl, Nat.min_eq_left h1]; exact ⟨h2, h3⟩
        · rw [if_neg he] at hl
          rw [hl]; exact ⟨by simpa using isU8_nil, by simpa using heo.2⟩
      have hp : PieceU8 ⟨ln.take so, (ln.take eo).drop so, x, (ln.drop eo).take l⟩ := ⟨hso.1, hxv, hch.1⟩
      rcases hrest with ⟨rfl, rfl⟩ | ⟨hne, _, _, hlt, hs⟩
      · refine ⟨?_, hch.2⟩
        intro p hp'
        simp only [List.mem_cons, List.not_mem_nil, or_false] at hp'
        subst hp'; exact hp
      · have hD' : D ((ln.drop eo).drop l) := by
          rw [List.drop_drop] at hne ⊢
          exact hD ln _ hDln hne
        obtain ⟨h1, h2⟩ := ih _ (by omega) hch.2 hD' _ _ _ hs
        refine ⟨?_, h2⟩
        intro p hp'
        simp only [List.mem_cons] at hp'
        rcases hp' with rfl | hp'
        · exact hp
        · exact h1 p hp'

/-- the output assembled from valid pieces and a valid rest is valid -/
theorem outOf_valid {ps : List Piece} {rest : Bytes} (hps : ∀ p ∈ ps, PieceU8 p) (hr : IsU8 rest) :
    IsU8 (outOf ps rest) := by
  unfold outOf
  refine isU8_append (isU8_flatMap _ _ ?_) hr
  intro p hp
  obtain ⟨h1, h2, h3⟩ := hps p hp
  exact isU8_append (isU8_append h1 h2) h3

/-- **U1 on a domain** -/
theorem scan_keeps_valid_on (D : Bytes → Prop) (hD : SuffixClosed D) (find : Matcher) (rep : Bytes)
    (hm : BoundaryMatcherOn D find rep) (hrep : IsU8 rep) (g : Bool) (ln : Bytes) (hln : IsU8 ln) (hDln : D ln)
    (nb : Bool) (ps : List Piece) (rest : Bytes) (h : scan find rep g ln nb = some (ps, rest)) :
    IsU8 (outOf ps rest) := by
  obtain ⟨h1, h2⟩ := scan_pieces_valid_on D hD find rep hm hrep g _ ln (Nat.lt_succ_self _) hln hDln nb ps rest h
  exact outOf_valid h1 h2

/-- **U1, piece by piece**: no piece the scan cuts splits a character -/
theorem scan_pieces_valid (find : Matcher) (rep : Bytes) (hm : BoundaryMatcher find rep) (hrep : IsU8 rep)
    (g : Bool) (ln : Bytes) (hln : IsU8 ln) (nb : Bool) (ps : List Piece) (rest : Bytes)
    (h : scan find rep g ln nb = some (ps, rest)) : (∀ p ∈ ps, PieceU8 p) ∧ IsU8 rest :=
  scan_pieces_valid_on _ suffixClosed_true find rep hm hrep g _ ln (Nat.lt_succ_self _) hln trivial nb ps rest h

/-- **U1 — scan_keeps_valid**: against a boundary-respecting matcher, with a valid replacement, the
    output of the scan of a valid line is valid UTF-8 -/
theorem scan_keeps_valid (find : Matcher) (rep : Bytes) (hm : BoundaryMatcher find rep) (hrep : IsU8 rep)
    (g : Bool) (ln : Bytes) (hln : IsU8 ln) (nb : Bool) (ps : List Piece) (rest : Bytes)
    (h : scan find rep g ln nb = some (ps, rest)) : IsU8 (outOf ps rest) :=
  scan_keeps_valid_on _ suffixClosed_true find rep hm hrep g ln hln trivial nb ps rest h

/-- when the matches are intervals as well, the matched texts that are dropped are whole characters too -/
theorem scan_matched_valid (find : Matcher) (rep : Bytes) (hm : BoundaryMatcherFull find rep) (g : Bool) :
    ∀ (n : Nat) (ln : Bytes), ln.length < n → IsU8 ln →
    ∀ (nb : Bool) (ps : List Piece) (rest : Bytes), scan find rep g ln nb = some (ps, rest) →
      ∀ p ∈ ps, IsU8 p.matched := by
  intro n
  induction n with
  | zero => intro ln hn; omega
  | succ n ih =>
    intro ln hn hln nb ps rest h
    rcases scan_cases' h with ⟨_, rfl, rfl⟩ | ⟨so, eo, offs, x, l, ps', hf, hx, hl, _, rfl, hrest⟩
    · simp
    · obtain ⟨hle, _, hso, heo, _⟩ := hm ln nb so eo offs hln hf
      have hmt : IsU8 ((ln.take eo).drop so) := isU8_slice' hso heo hle
      have hch : IsU8 ((ln.drop eo).drop l) := by
        by_cases he : eo ≤ so
        · rw [if_pos he] at hl
          rw [hl, Nat.min_eq_left (isU8_head_char heo.2).1]; exact (isU8_head_char heo.2).2.2
        · rw [if_neg he] at hl
          rw [hl]; simpa using heo.2
      rcases hrest with ⟨rfl, rfl⟩ | ⟨_, _, _, hlt, hs⟩
      · intro p hp'
        simp only [List.mem_cons, List.not_mem_nil, or_false] at hp'
        subst hp'; exact hmt
      · intro p hp'
        simp only [List.mem_cons] at hp'
        rcases hp' with rfl | hp'
        · exact hmt
        · exact ih _ (by omega) hch _ _ _ hs p hp'

/-! ## U2: the model's `substLine` -/

/-- **U2 on a domain** -/
theorem substLine_keeps_valid_on (D : Bytes → Prop) (hD : SuffixClosed D) (re : RStr) (rep : Bytes) (g : Bool)
    (line out : Bytes) (hm : BoundaryMatcherOn D (rsFind re) rep) (hrep : IsU8 rep) (hl : IsU8 line)
    (hDl : D line) (h : substLine re rep g line = some (some out)) : IsU8 out := by
  rw [subst_scan_spec re rep g line (isU8_no_nul hl)] at h
  unfold substRef at h
  split at h
  · cases h
  · cases h
  · rename_i ps rest _ hs
    cases h
    exact scan_keeps_valid_on D hD (rsFind re) rep hm hrep g line hl hDl false ps rest hs

/-- **U2 — substLine_keeps_valid**: if `rstr_find` for `re` respects character boundaries, the
    replacement is valid UTF-8 and the line is valid UTF-8 (hence without NUL), then the line `:s` writes
    back is valid UTF-8 -/
theorem substLine_keeps_valid (re : RStr) (rep : Bytes) (g : Bool) (line out : Bytes)
    (hm : BoundaryMatcher (rsFind re) rep) (hrep : IsU8 rep) (hl : IsU8 line)
    (h : substLine re rep g line = some (some out)) : IsU8 out :=
  substLine_keeps_valid_on _ suffixClosed_true re rep g line out hm hrep hl trivial h

/-- U2 together with `C14.output_pieces`: the rewritten line and the old one split into the same
    skipped bytes, copied characters and rest, all of them whole characters; only matched texts are
    replaced by expansions, and those are whole characters as well -/
theorem substLine_pieces_valid (re : RStr) (hord : (rsFind re).Ordered) (rep : Bytes) (g : Bool)
    (line out : Bytes) (hm : BoundaryMatcher (rsFind re) rep) (hrep : IsU8 rep) (hl : IsU8 line)
    (h : substLine re rep g line = some (some out)) :
    ∃ ps rest, ps ≠ [] ∧ line = srcOf ps rest ∧ out = outOf ps rest ∧ (∀ p ∈ ps, PieceU8 p) ∧ IsU8 rest := by
  obtain ⟨ps, rest, hne, hs, h1, h2⟩ := output_pieces re hord rep g line out (isU8_no_nul hl) h
  exact ⟨ps, rest, hne, h1, h2, scan_pieces_valid (rsFind re) rep hm hrep g line hl false ps rest hs⟩

/-! ## U3: `rstr_find` respects character boundaries

`rstr_make` either takes the pattern as a literal (the fast path of `rstr.c`) or compiles `((pat))` with
`regcomp`.  For a valid UTF-8 pattern both report only `-1` or character boundaries on a valid subject:
the engine by `C11b.offsets_on_boundaries`, the fast path because a non-empty valid literal only compares
equal at a boundary (`C12.sync_utf8`) and ends on one (`matchCase_boundary`), and the empty literal
(`^`, `$`, `\<`, `\>` alone) matches at 0, where the word tests hold, or — `$` — at the last byte, which
is the newline.  Only that last case needs the subject to end with the newline (`EndsNl`). -/

theorem suffixClosed_endsNl : SuffixClosed EndsNl := by
  rintro s k ⟨t, rfl⟩ hne
  have hk : k ≤ t.length := by
    apply Classical.byContradiction
    intro hgt
    exact hne (List.drop_eq_nil_iff.mpr (by simp; omega))
  exact ⟨t.drop k, List.drop_append_of_le_length hk⟩

/-- **the regex engine**: a program compiled from a valid UTF-8 pattern makes `rstr_find` a
    boundary-respecting matcher — on every valid subject, for every replacement -/
theorem boundaryMatcher_of_regcomp (re : RStr) (r : RSet) (hrs : re.rs = some r) (ps : List Nat) (hvp : Valid ps)
    (cflg : Nat) (hc : Regex.regcomp (encStr ps) cflg = some (some r.prog)) (rep : Bytes) :
    BoundaryMatcher (rsFind re) rep := by
  intro s nb so eo offs hs _ hf
  obtain ⟨h1, h2, h3⟩ := boundary_of_offs hs hf (rsFind_rs_offs re r hrs ps hvp cflg hc hs hf)
  exact ⟨h1, h2, fun d _ => h3 d⟩

/-- **the literal fast path**: a valid UTF-8 literal makes `rstr_find` a boundary-respecting matcher on
    the valid subjects that end with the newline -/
theorem boundaryMatcher_of_literal (re : RStr) (lit : Bytes) (hrs : re.rs = none) (hstr : re.str = some lit)
    (hlit : IsU8 lit) (rep : Bytes) : BoundaryMatcherOn EndsNl (rsFind re) rep := by
  intro s nb so eo offs hs hnl hf
  obtain ⟨h1, h2, h3⟩ := boundary_of_offs hs hf (rsFind_lit_offs re lit hrs hstr hlit hs hnl hf)
  exact ⟨h1, h2, fun d _ => h3 d⟩

/-- **U3 — rstrMake_boundaryMatcher**: whatever `rstr_make` returns for a valid UTF-8 pattern respects
    character boundaries on the valid lines that end with the newline -/
theorem rstrMake_boundaryMatcher {pat : Bytes} {flg : Nat} {re : RStr} (hp : IsU8 pat)
    (h : rstrMake pat flg = some (some re)) (rep : Bytes) : BoundaryMatcherOn EndsNl (rsFind re) rep := by
  rcases rstrMake_cases h with ⟨hrs, lbeg, wbeg, wend, lend, lit, hsim, hstr, _⟩ | ⟨r, cflg, hrs, hc⟩
  · exact boundaryMatcher_of_literal re lit hrs hstr (simple_lit_valid hp hsim) rep
  · obtain ⟨ps, hv, rfl⟩ := hp
    rw [combined_single_enc] at hc
    exact (boundaryMatcher_of_regcomp re r hrs _ (valid_combined hv) cflg hc rep).on EndsNl

/-- when `rstr_make` compiled the pattern (it is not a plain literal), no condition on the end of the
    subject is needed -/
theorem rstrMake_boundaryMatcher_rs {pat : Bytes} {flg : Nat} {re : RStr} (hp : IsU8 pat)
    (h : rstrMake pat flg = some (some re)) (hne : re.rs ≠ none) (rep : Bytes) : BoundaryMatcher (rsFind re) rep := by
  rcases rstrMake_cases h with ⟨hrs, _⟩ | ⟨r, cflg, hrs, hc⟩
  · exact absurd hrs hne
  · obtain ⟨ps, hv, rfl⟩ := hp
    rw [combined_single_enc] at hc
    exact boundaryMatcher_of_regcomp re r hrs _ (valid_combined hv) cflg hc rep

/-- **`:s` keeps a line valid UTF-8** — no hypothesis on the matcher left: pattern, replacement and line
    are valid UTF-8 and the line ends with its newline; then the line `ec_substitute` writes back is
    valid UTF-8.  For every pattern `rstr_make` accepts, all flags, with and without `g`. -/
theorem subst_keeps_valid {pat : Bytes} {flg : Nat} {re : RStr} (hp : IsU8 pat)
    (hre : rstrMake pat flg = some (some re)) (rep : Bytes) (g : Bool) (line out : Bytes) (hrep : IsU8 rep)
    (hl : IsU8 line) (hnl : EndsNl line) (h : substLine re rep g line = some (some out)) : IsU8 out :=
  substLine_keeps_valid_on EndsNl suffixClosed_endsNl re rep g line out (rstrMake_boundaryMatcher hp hre rep)
    hrep hl hnl h

/-- the same for the regular expression the editor makes from its search keyword (`ignorecase` or not) -/
theorem subst_keeps_valid_ed (ed : Ed) {pat : Bytes} {re : RStr} (hp : IsU8 pat) (hre : ed.mkRe pat = some (some re))
    (rep : Bytes) (g : Bool) (line out : Bytes) (hrep : IsU8 rep) (hl : IsU8 line) (hnl : EndsNl line)
    (h : substLine re rep g line = some (some out)) : IsU8 out :=
  subst_keeps_valid hp hre rep g line out hrep hl hnl h

/-- the condition on the end of the line cannot be dropped in the model: `:s/$/x/` on the "line" `é`
    without a newline takes the last byte for the newline and puts `x` inside `é` -/
theorem subst_needs_newline :
    (rstrMake [36] 0).bind (fun r => r.bind (fun re => substLine re [120] false [0xc3, 0xa9])) =
      some (some [0xc3, 120, 0xa9]) := by decide

/-! ## U4: non-vacuity, and the hypothesis is needed -/

/-- the line `aéb` -/
def lineE : Bytes := [0x61, 0xc3, 0xa9, 0x62]
/-- the replacement `中` -/
def repZ : Bytes := [0xe4, 0xb8, 0xad]

theorem lineE_valid : IsU8 lineE := ⟨[0x61, 0xe9, 0x62], by decide, by decide⟩
theorem repZ_valid : IsU8 repZ := ⟨[0x4e2d], by decide, by decide⟩

/-- a matcher that finds `é` in `aéb` at `[1, 3)` and nothing anywhere else -/
def findE : Matcher := fun s _ => if s = lineE then some (some (1, 3, [1, 3])) else some none

theorem findE_boundary : BoundaryMatcher findE repZ := by
  intro s nb so eo offs _ _ hf
  unfold findE at hf
  split at hf
  · rename_i hs
    cases hf
    subst hs
    refine ⟨⟨⟨[0x61], by decide, by decide⟩, ⟨[0xe9, 0x62], by decide, by decide⟩⟩,
      ⟨⟨[0x61, 0xe9], by decide, by decide⟩, ⟨[0x62], by decide, by decide⟩⟩, ?_⟩
    intro d hd
    simp [repZ, refs] at hd
  · cases hf

/-- `é` replaced by `中`: `a中b` -/
theorem findE_scan : scan findE repZ false lineE false =
    some ([⟨[0x61], [0xc3, 0xa9], repZ, []⟩], [0x62]) := by
  rw [scan]
  have hf : findE lineE false = some (some (1, 3, [1, 3])) := by decide
  have hx : expandOpt repZ lineE [1, 3] = some repZ := by decide
  rw [hf]
  simp only [hx]
  decide
example : outOf [⟨[0x61], [0xc3, 0xa9], repZ, []⟩] [0x62] = encStr [0x61, 0x4e2d, 0x62] := by decide
/-- … which U1 says is valid -/
example : IsU8 (outOf [⟨[0x61], [0xc3, 0xa9], repZ, []⟩] [0x62]) :=
  scan_keeps_valid findE repZ findE_boundary repZ_valid false lineE lineE_valid false _ _ findE_scan

/-- a replacement with an escaped multi-byte character and a group reference: `\é[\0]` on the match `é`
    of `aéb`; the group is on boundaries -/
def repG : Bytes := [92, 0xc3, 0xa9, 91, 92, 48, 93]
example : IsU8 repG := ⟨[92, 0xe9, 91, 92, 48, 93], by decide, by decide⟩
example : refs repG = [0] := by decide
example : expandRef repG lineE [1, 3] = encStr [0xe9, 91, 0xe9, 93] := by decide
example : OffBd lineE (grpSo [1, 3] 0) ∧ OffBd lineE (grpEo [1, 3] 0) :=
  ⟨Or.inr ⟨1, by decide, ⟨[0x61], by decide, by decide⟩, ⟨[0xe9, 0x62], by decide, by decide⟩⟩,
   Or.inr ⟨3, by decide, ⟨[0x61, 0xe9], by decide, by decide⟩, ⟨[0x62], by decide, by decide⟩⟩⟩

/-- the model on the same case: the pattern `é` (the literal fast path of `rstr_find`), `:s/é/中/` -/
example : (rstrMake [0xc3, 0xa9] 0).bind (fun r => r.bind (fun re => substLine re repZ true (lineE ++ [10]))) =
    some (some (encStr [0x61, 0x4e2d, 0x62, 10])) := by decide

/-- **the hypothesis is needed.**  A matcher that reports `so = 2` — inside `é` — on `aéb`: -/
def findBad : Matcher := fun s _ => if s = lineE then some (some (2, 3, [2, 3])) else some none

/-- the scan succeeds and puts `中` between the lead byte of `é` and `b`: `61 C3 E4 B8 AD 62` -/
theorem findBad_scan : scan findBad repZ false lineE false =
    some ([⟨[0x61, 0xc3], [0xa9], repZ, []⟩], [0x62]) := by
  rw [scan]
  have hf : findBad lineE false = some (some (2, 3, [2, 3])) := by decide
  have hx : expandOpt repZ lineE [2, 3] = some repZ := by decide
  rw [hf]
  simp only [hx]
  decide

theorem findBad_out : outOf [⟨[0x61, 0xc3], [0xa9], repZ, []⟩] [0x62] = [0x61, 0xc3, 0xe4, 0xb8, 0xad, 0x62] := by
  decide

/-- that output is not valid UTF-8: the lead byte `C3` is followed by the lead byte `E4` -/
theorem findBad_invalid : ¬ IsU8 (outOf [⟨[0x61, 0xc3], [0xa9], repZ, []⟩] [0x62]) := by
  rw [findBad_out]
  intro h
  have h1 := isU8_ascii_cons h (by decide)
  have h2 := isU8_lead_cont h1 (by decide)
  simp at h2

/-- so `findBad` is not boundary-respecting (2 is not a boundary of `aéb`), and without that hypothesis
    U1 fails -/
theorem findBad_not_boundary : ¬ BoundaryMatcher findBad repZ := fun hm =>
  findBad_invalid (scan_keeps_valid findBad repZ hm repZ_valid false lineE lineE_valid false _ _ findBad_scan)

theorem not_isBd_inside : ¬ IsBd lineE 2 := by
  intro h
  have h2 : IsU8 [0xa9, 0x62] := h.2
  exact isU8_not_cont h2 (by decide)

/-- the same with a group: a valid replacement `\1` and a group `[2, 3)` that starts inside `é` — the
    expansion is the lone continuation byte `A9` -/
example : expandRef [92, 49] lineE [1, 3, 2, 3] = [0xa9] := by decide
example : ¬ IsU8 [0xa9] := fun h => isU8_not_cont h (by decide)

/-! ### end to end through the regex engine: `:s/\(.\)b/\1中\1/` on `aéb` -/

/-- what `rstr_make` returns for the pattern `(.)b` (not a literal: it is compiled as `(((.)b))`) -/
def progD : Regex.Prog := ⟨[.mark 0, .mark 2, .mark 4, .mark 6, .atom ⟨Regex.AK.any, []⟩, .mark 7,
  .atom ⟨Regex.AK.chr, [98]⟩, .mark 5, .mark 3, .mark 1, .mtch], 11, 1⟩
def rsD : RSet := ⟨progD, 1, [2, 4], [1], 4⟩
def reD : RStr := ⟨some rsD, none, false, false, false, false, false⟩
/-- the replacement `\1中\1` -/
def repD : Bytes := [92, 49, 0xe4, 0xb8, 0xad, 92, 49]

theorem reD_make : rstrMake [40, 46, 41, 98] 0 = some (some reD) := by rfl

theorem reD_exec : Regex.regexec progD (lineE ++ [10]) 4 Regex.REG_NEWLINE ND NG =
    (Regex.ExecRes.found ([1, 4, 1, 4, 1, 4, 1, 3] ++ List.replicate 120 (-1)) 0,
      [(1, 4), (1, 4), (1, 4), (1, 3)]) :=
  Lemmas.C10.regexecF_sound (fuel := 40) (by decide +kernel)

/-- `.` takes the whole `é`: the match is `[1, 4)`, group 1 is `[1, 3)` — all boundaries of `aéb` -/
theorem reD_find : rstrFind reD (lineE ++ [10]) 16 0 ND NG =
    some (0, [1, 4, 1, 3] ++ List.replicate 28 (-1), 0) := by
  unfold rstrFind
  show Rset.find rsD _ 16 0 ND NG = _
  unfold Rset.find
  have e : (Regex.REG_NEWLINE ||| (if 0 &&& RE_NOTBOL != 0 then Regex.REG_NOTBOL else 0) |||
      (if 0 &&& RE_NOTEOL != 0 then Regex.REG_NOTEOL else 0)) = Regex.REG_NEWLINE := by decide
  have e2 : rsD.prog = progD := rfl
  have e3 : rsD.grpcnt = 4 := rfl
  simp only [e, e2, e3, reD_exec]
  decide

/-- the line written back is `aé中é` … -/
theorem reD_subst : substLine reD repD false (lineE ++ [10]) = some (some (encStr [0x61, 0xe9, 0x4e2d, 0xe9, 10])) :=
  (subst_first_only_ref reD repD (lineE ++ [10]) 0 _ 0 reD_find (by decide) (by decide) (by decide)).trans
    (by decide)

/-- … and the general theorem applies to this run: every hypothesis of `subst_keeps_valid` is met -/
example : IsU8 (encStr [0x61, 0xe9, 0x4e2d, 0xe9, 10]) :=
  subst_keeps_valid (pat := [40, 46, 41, 98]) ⟨[40, 46, 41, 98], by decide, by decide⟩ reD_make repD false
    (lineE ++ [10]) _ ⟨[92, 49, 0x4e2d, 92, 49], by decide, by decide⟩
    ⟨[0x61, 0xe9, 0x62, 10], by decide, by decide⟩ ⟨lineE, rfl⟩ reD_subst

end Neatvi.Props.C16b
