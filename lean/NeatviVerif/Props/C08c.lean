import NeatviVerif.Lemmas.C08cReplace
import NeatviVerif.Lemmas.C08cMotion
import NeatviVerif.Lemmas.C08cRound
/-!
# C08 (third part): the three statements `Props/C08.lean` and `Props/C08b.lean` only state
-/
namespace Neatvi.Props.C08c
open Neatvi Neatvi.Uc Neatvi.Vi Neatvi.Ex Neatvi.Spec Neatvi.Lemmas.C08 Neatvi.Lemmas.C08b Neatvi.Lemmas.C09
open Neatvi.Lemmas.C08c

/-! ## 3. `r` followed by a newline -/

/-- `r<CR>` (no count) on character `o` of a line of valid UTF-8: the character is replaced by a line
break; the keys consumed are the newline, the cursor goes to the start of the new row -/
theorem vcReplace_newline_spec (s : VS) (body : List Nat) (o : Nat) (rest : Bytes) (hr0 : 0 ≤ s.ed.xrow)
    (hline : (lines s)[s.ed.xrow.toNat]? = some (encStr (body ++ [10]))) (hb : ∀ d ∈ body, ValidCp d)
    (hb10 : 10 ∉ body) (ho : s.ed.xoff = (o : Int)) (hol : o < body.length) (ha : s.arg1 ≤ 1)
    (hp : pending s = 10 :: rest) (hk : s.xkmap = 0) :
    ∃ s', vcReplace s = Res.ok VC_OK s' ∧
      lines s' = (lines s).take s.ed.xrow.toNat ++ [encStr (body.take o ++ [10]), encStr (body.drop (o + 1) ++ [10])] ++
        (lines s).drop (s.ed.xrow.toNat + 1) ∧
      pending s' = rest ∧ s'.ed.xrow = s.ed.xrow + 1 ∧ s'.ed.xoff = 0 ∧ s'.ed.regs = s.ed.regs := by
  have hl := lineOf_of_get s _ _ hr0 hline
  obtain ⟨s1, hch, hp1, hr1⟩ := viChar_newline s rest hp hk
  have hx := renNoeol_body body hb hb10 o hol
  have hsl : ucSlen ((encStr (body ++ [10])).takeWhile (· != 10)) = body.length := by
    rw [takeWhile_ne_ten_line body hb10, Props.C16.slen_spec hb]
  have hmax : max 1 s.arg1 = 1 := by omega
  obtain ⟨e1, -⟩ := subI_line body hb o (by omega)
  obtain ⟨-, e2⟩ := subI_line body hb (o + 1) (by omega)
  obtain ⟨lb, hlb⟩ := lb_of_line s _ _ hline
  have hrlt : s.ed.xrow.toNat < (lines s).length := (List.getElem?_eq_some_iff.mp hline).1
  obtain ⟨ed', he1, he2, he3⟩ := edEdit_spec s1
    (encStr (body.take o) ++ [10] ++ encStr (body.drop (o + 1) ++ [10])) s.ed.xrow (s.ed.xrow + 1) lb
    (by rw [hr1.lb]; exact hlb) hr0 (by omega) (by unfold lenOf; rw [hr1.lines]; omega)
  refine ⟨{ s1 with ed := { ed' with xrow := s.ed.xrow + 1, xoff := 0 } }, ?_, ?_, hp1, rfl, rfl, ?_⟩
  · unfold vcReplace
    simp only [bind_apply, get_apply, hch, hl, hsl, ho, hx, hmax]
    rw [if_neg (by omega)]
    have hoff : (o : Int) + 1 = ((o + 1 : Nat) : Int) := by omega
    simp only [bind_apply, e1, liftO_some, hoff, e2]
    have hrep : (List.replicate (1 : Int).toNat [10]).flatten = ([10] : Bytes) := rfl
    rw [hrep, he1]
    rfl
  · show Lemmas.C06.lines ed' = _
    rw [he2, hr1.lines, split_two _ _ (fun h => hb10 (List.mem_of_mem_take h)) (fun h => hb10 (List.mem_of_mem_drop h)),
      show (s.ed.xrow + 1).toNat = s.ed.xrow.toNat + 1 by omega]
  · show ed'.regs = s.ed.regs
    rw [he3, hr1.ed]

/-- **statement 3** (`Props/C08b.lean`): proved as stated -/
theorem vcReplace_newline_full : Neatvi.Props.C08b.vcReplace_newline_full := by
  intro s body o rest hr0 hline hb hb10 ho hol ha hp hk
  obtain ⟨s', h1, h2, -⟩ := vcReplace_newline_spec s body o rest hr0 hline hb hb10 ho hol ha hp hk
  exact ⟨s', h1, h2⟩

/-! ## 1. the normalised region after the inclusive-motion adjustment -/

/-- `ren_noeol` keeps the order of two offsets up to its one step back -/
theorem noeol_mono1 (s : VS) (r o1 o2 : Int) (h : o1 ≤ o2) : noeol s r o1 ≤ noeol s r o2 + 1 :=
  Lemmas.C08c.noeol_mono1 s r o1 o2 h

/-- on one row, the start of the normalised region is at most `noeol s r o2 + 1`, the end the inclusive
motions use (whatever the motion and whether or not `o2` lies before the end of the line) -/
theorem normRegion_incl (s : VS) (r1 o1 r2 o2 : Int) :
    (normRegion s false r1 o1 r2 o2).1 = (normRegion s false r1 o1 r2 o2).2.2.1 →
    (normRegion s false r1 o1 r2 o2).2.1 ≤
      noeol s (normRegion s false r1 o1 r2 o2).2.2.1 (normRegion s false r1 o1 r2 o2).2.2.2 + 1 := by
  unfold normRegion
  simp only [Bool.false_eq_true, if_false]
  by_cases h1 : r1 > r2 <;> simp only [h1, if_true, if_false]
  · intro heq; omega
  · intro heq
    have hr : r1 = r2 := heq
    subst hr
    simp only [beq_self_eq_true, Bool.true_and, decide_eq_true_eq]
    split
    · exact Lemmas.C08c.noeol_mono1 _ _ _ _ (by omega)
    · exact Lemmas.C08c.noeol_mono1 _ _ _ _ (by omega)

/-- `ren_noeol` is in fact monotone in the offset (what the comment at `vcMotion_normalises_full` asks for) -/
theorem noeol_mono (s : VS) (r o1 o2 : Int) (h : o1 ≤ o2) : noeol s r o1 ≤ noeol s r o2 :=
  Lemmas.C08c.noeol_mono s r o1 o2 h

/-- hence the region an inclusive motion (`f t e E %`) hands to the operator on one row is never empty:
its start lies strictly before the adjusted end -/
theorem normRegion_incl_nonempty (s : VS) (r1 o1 r2 o2 : Int) :
    (normRegion s false r1 o1 r2 o2).1 = (normRegion s false r1 o1 r2 o2).2.2.1 →
    (normRegion s false r1 o1 r2 o2).2.1 <
      noeol s (normRegion s false r1 o1 r2 o2).2.2.1 (normRegion s false r1 o1 r2 o2).2.2.2 + 1 := by
  unfold normRegion
  simp only [Bool.false_eq_true, if_false]
  by_cases h1 : r1 > r2 <;> simp only [h1, if_true, if_false]
  · intro heq; omega
  · intro heq
    have hr : r1 = r2 := heq
    subst hr
    simp only [beq_self_eq_true, Bool.true_and, decide_eq_true_eq]
    split
    · exact Int.lt_add_one_of_le (Lemmas.C08c.noeol_mono _ _ _ _ (by omega))
    · exact Int.lt_add_one_of_le (Lemmas.C08c.noeol_mono _ _ _ _ (by omega))

/-- **statement 1** (`Props/C08.lean`): proved as stated -/
theorem vcMotion_normalises_full : Neatvi.Props.C08.vcMotion_normalises_full := by
  intro s mv lnmode r1 o1 r2 o2 t o2' heq
  by_cases hc : (!lnmode && strHas "fteE%" mv && t.2.2.2 < Mot.eol (lines s) t.2.2.1) = true
  · have hl : lnmode = false := by
      cases lnmode
      · rfl
      · simp at hc
    subst hl
    show t.2.1 ≤ if (!false && strHas "fteE%" mv && t.2.2.2 < Mot.eol (lines s) t.2.2.1) = true then _ else _
    rw [if_pos hc]
    exact normRegion_incl s r1 o1 r2 o2 heq
  · show t.2.1 ≤ if (!lnmode && strHas "fteE%" mv && t.2.2.2 < Mot.eol (lines s) t.2.2.1) = true then _ else _
    rw [if_neg hc]
    exact (Props.C08.vcMotion_normalises s lnmode r1 o1 r2 o2).2 heq

/-! ## 2. the charwise delete / put round trip across rows -/

/-- charwise across rows: `d` from character `n1` of row `r1` up to (not including) character `n2` of
row `r2 > r1` into the unnamed register, then `P`, restores the text; the cursor row is `r1`.
Only the rows `r1` and `r2` have to be valid UTF-8, the others just well formed; `n1` may also be the
newline of row `r1` (`n1 = |body1|`). -/
theorem delete_put_roundtrip_char_multi (s s1 s2 : VS) (a b : Nat) (r1 r2 : Int) (n1 n2 : Nat)
    (body1 body2 : List Nat)
    (hwf : RegsWf s.ed.regs) (hy : s.ybuf = 0) (ha : s.arg1 ≤ 1)
    (h0 : 0 ≤ r1) (h12 : r1 < r2) (h2 : r2 < lenOf s)
    (hlines : ∀ l ∈ lines s, Props.C01.WfLine l)
    (hl1 : (lines s)[r1.toNat]? = some (encStr (body1 ++ [10])))
    (hl2 : (lines s)[r2.toNat]? = some (encStr (body2 ++ [10])))
    (hv1 : ∀ c ∈ body1, ValidCp c) (hv2 : ∀ c ∈ body2, ValidCp c) (h10a : 10 ∉ body1) (h10b : 10 ∉ body2)
    (hn1 : n1 ≤ body1.length) (hn2 : n2 < body2.length)
    (hd : viDelete r1 n1 r2 n2 false s = Res.ok a s1)
    (hp : vcPut 80 s1 = Res.ok b s2) :
    lines s2 = lines s ∧ s2.ed.xrow = r1 :=
  Lemmas.C08c.delete_put_roundtrip_char_multi s s1 s2 a b r1 r2 n1 n2 body1 body2 hwf hy ha h0 h12 h2 hlines
    hl1 hl2 hv1 hv2 h10a h10b hn1 hn2 hd hp

/-- **statement 2** (`Props/C08.lean`): proved as stated -/
theorem delete_put_roundtrip_char_full : Neatvi.Props.C08.delete_put_roundtrip_char_full := by
  intro s s1 s2 a b r1 o1 r2 o2 hwf hy ha h0 h12 h2 hlines ho1 ho1' ho2 ho2' hd hp
  have hL : lenOf s = ((lines s).length : Int) := rfl
  have hr1 : r1.toNat < (lines s).length := by omega
  have hr2 : r2.toNat < (lines s).length := by omega
  obtain ⟨body1, e1, hv1, h10a⟩ := hlines _ (List.getElem_mem hr1)
  obtain ⟨body2, e2, hv2, h10b⟩ := hlines _ (List.getElem_mem hr2)
  have hl1 : (lines s)[r1.toNat]? = some (encStr (body1 ++ [10])) := by rw [← e1]; exact List.getElem?_eq_getElem hr1
  have hl2 : (lines s)[r2.toNat]? = some (encStr (body2 ++ [10])) := by rw [← e2]; exact List.getElem?_eq_getElem hr2
  rw [lineE_eq s r1 h0 _ hl1, Props.C16.slen_spec (valid_snoc_ten hv1)] at ho1'
  rw [lineE_eq s r2 (by omega) _ hl2, Props.C16.slen_spec (valid_snoc_ten hv2)] at ho2'
  simp only [List.length_append, List.length_singleton] at ho1' ho2'
  have hwfl : ∀ l ∈ lines s, Props.C01.WfLine l := by
    intro l hl
    obtain ⟨body, e, -, h10⟩ := hlines l hl
    rw [e]; exact wfLine_enc h10
  obtain ⟨n1, rfl⟩ : ∃ n : Nat, o1 = (n : Int) := ⟨o1.toNat, by omega⟩
  obtain ⟨n2, rfl⟩ : ∃ n : Nat, o2 = (n : Int) := ⟨o2.toNat, by omega⟩
  exact (delete_put_roundtrip_char_multi s s1 s2 a b r1 r2 n1 n2 body1 body2 hwf hy ha h0 h12 h2 hwfl hl1 hl2 hv1 hv2
    h10a h10b (by omega) (by omega) hd hp).1

/-! ## concrete instances (the hypotheses above are satisfiable; the runs are what the theorems say) -/

section Examples
open Neatvi.Props.C08b (exSt linesOf cursorOf)
open Neatvi.Props.C08 (linesAfter stateAfter)

-- `r<CR>` on the first `l` of `hello w`: `he` / `lo w`, the cursor at the start of the new row
example : linesOf (vcReplace (exSt [10] 0 2)) = [[104, 101, 10], [108, 111, 32, 119, 10], [98, 10]] := by decide +kernel
example : cursorOf (vcReplace (exSt [10] 0 2)) = (1, 0) := by decide +kernel
-- on the last character of the line: an empty second line
example : linesOf (vcReplace (exSt [10] 0 6)) = [[104, 101, 108, 108, 111, 32, 10], [10], [98, 10]] := by decide +kernel
-- the hypotheses of `vcReplace_newline_spec` on that state
example : ∃ s', vcReplace (exSt [10, 65] 0 2) = Res.ok VC_OK s' ∧ pending s' = [65] := by
  obtain ⟨s', h1, -, h3, -⟩ := vcReplace_newline_spec (exSt [10, 65] 0 2) [104, 101, 108, 108, 111, 32, 119] 2 [65]
    (by decide) (by decide +kernel) (by decide) (by decide) rfl (by decide) (by decide) (by decide +kernel) rfl
  exact ⟨s', h1, h3⟩

/-- four lines `hel`, `bc`, `aéb`, `x` -/
def ex4 : VS := { ed := { bufs := [some { path := [], lb := { lines := [[104, 101, 108, 10], [98, 99, 10], [97, 195, 169, 98, 10], [120, 10]] } }] } }

-- the side conditions of `delete_put_roundtrip_char_full` hold of `ex4` with the region `(0, 2) .. (2, 1)`
example : RegsWf ex4.ed.regs ∧ ex4.ybuf = 0 ∧ ex4.arg1 ≤ 1 ∧ (2 : Int) < lenOf ex4 ∧
    (∀ l ∈ lines ex4, ∃ body, l = encStr (body ++ [10]) ∧ (∀ c ∈ body, ValidCp c) ∧ 10 ∉ body) ∧
    (2 : Int) + 1 < ucSlen (lineE ex4 0) ∧ (1 : Int) + 1 < ucSlen (lineE ex4 2) := by
  refine ⟨regsWf_default, rfl, by decide, by decide +kernel, ?_, by decide +kernel, by decide +kernel⟩
  intro l hl
  have hl' : l ∈ ([[104, 101, 108, 10], [98, 99, 10], [97, 195, 169, 98, 10], [120, 10]] : List Bytes) := hl
  simp only [List.mem_cons, List.not_mem_nil, or_false] at hl'
  rcases hl' with rfl | rfl | rfl | rfl
  · exact ⟨[104, 101, 108], by decide +kernel, by decide, by decide⟩
  · exact ⟨[98, 99], by decide +kernel, by decide, by decide⟩
  · exact ⟨[97, 233, 98], by decide +kernel, by decide, by decide⟩
  · exact ⟨[120], by decide +kernel, by decide, by decide⟩
-- the delete joins `he` and `éb` …
example : linesAfter (viDelete 0 2 2 1 false ex4) = [[104, 101, 195, 169, 98, 10], [120, 10]] := by decide +kernel
-- … the register holds `l`, newline, `bc`, newline, `a` …
example : Props.C08.reg (stateAfter (viDelete 0 2 2 1 false ex4)) 0 = (some [108, 10, 98, 99, 10, 97], 0) := by decide +kernel
-- … and `P` restores the four lines
example : linesAfter (vcPut 80 (stateAfter (viDelete 0 2 2 1 false ex4))) = lines ex4 := by decide +kernel
-- the empty pieces: from the start of row 1 to the start of row 3
example : linesAfter (vcPut 80 (stateAfter (viDelete 1 0 3 0 false ex4))) = lines ex4 := by decide +kernel

end Examples

end Neatvi.Props.C08c
