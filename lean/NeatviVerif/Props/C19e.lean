import NeatviVerif.Props.C19d
/-!
# C19e  What a screen row shows in a right-to-left context: the mirrored window

`Props/C19d.lean` specifies the emission loop of `led_render` for every table and, for a
left-to-right context, expands the emitted row to cells (`glyphCells_items`, `showsAt_spec`,
`renderRow_cells`).  Here are the mirrored versions: in a right-to-left context
(`Dir.dirContext … < 0`) `led_pos` maps visual column `p` to window cell `cend - 1 - p`.

* §1 (M1) `glyphCells_items_of_width` — the direction-free core: whenever every emitted character
  stands for exactly `ren_cwid` columns, the emitted items take exactly the covered columns of the
  table.  `glyphCells_items_rtl` (by `C19d.items_width_rtl`) and `glyphCells_items_any` (either
  direction) follow; the left-to-right `C19d.glyphCells_items` is the same lemma with
  `C19d.items_width`.
* §2 (M2) `showsAt_spec_rtl`: window cell `k` shows character `i` iff `cend - 1 - k` is a cell of `i`
  and every cell of `i` lies in `[cbeg, cend)`.
* §3 (M3) `offTable_spec_model_rtl`, `renderRow_cells_rtl`: on the tables `ren_position` returns for
  a valid UTF-8 line, with the reference `cellWidth`.
* §4 (M4) `visCol`, `showsAt_spec_any`, `renderRow_shows`: the direction-free statement.
* §5 (M5) non-vacuity, with `td = -2` (forced right-to-left context).

Nothing here is `_partial`.
-/
namespace Neatvi.Props.C19e
open Neatvi Neatvi.Uc Neatvi.Spec Neatvi.Ren Neatvi.Render Neatvi.Lemmas.C19d Neatvi.Lemmas.C19c
open Neatvi.Props.C19d (showsAt)

/-- the hypothesis shared by all the statements on arbitrary tables: the cell ranges of different
    characters are disjoint -/
abbrev Disjoint (chs : List Bytes) (pos : List Nat) : Prop :=
  ∀ i j, i < chs.length → j < chs.length → i ≠ j →
    pos.getD i 0 + renCwid (chs.getD i []) (pos.getD i 0) ≤ pos.getD j 0 ∨
    pos.getD j 0 + renCwid (chs.getD j []) (pos.getD j 0) ≤ pos.getD i 0

/-! ## 1. (M1) the cells of the emitted items -/

/-- the direction-free core of `C19d.glyphCells_items`: for *any* table, when every emitted
    character stands for exactly its `ren_cwid` columns, the emitted items take on the screen
    exactly the covered columns of the table -/
theorem glyphCells_items_of_width (chs : List Bytes) (pos : List Nat) (off : List (Option Nat)) (cbeg cend : Int)
    (hw : ∀ i n, (some i, n) ∈ items off cbeg cend → n = renCwid (chs.getD i []) (pos.getD i 0)) :
    glyphCells chs pos (items off cbeg cend) = off.take (shown off cbeg cend) := by
  rw [glyphCells_eq_expand chs pos _ hw, C19d.expand_items]

/-- either direction, disjoint cells: an emitted character stands for exactly its own width -/
theorem items_width_any (chs : List Bytes) (pos : List Nat) (ctx : Int) (cbeg cend : Int) (hwin : cbeg < cend)
    (hd : Disjoint chs pos)
    (i n : Nat) (h : (some i, n) ∈ items (offTable chs pos ctx cbeg cend) cbeg cend) :
    n = renCwid (chs.getD i []) (pos.getD i 0) ∧ i < chs.length ∧ cbeg ≤ (pos.getD i 0 : Int) ∧
      (pos.getD i 0 : Int) + (renCwid (chs.getD i []) (pos.getD i 0) : Int) ≤ cend := by
  by_cases hctx : ctx ≥ 0
  · exact C19d.items_width chs pos ctx hctx cbeg cend hwin hd i n h
  · exact C19d.items_width_rtl chs pos ctx (by omega) cbeg cend hwin hd i n h

/-- (M1) right-to-left context, disjoint cells: on the screen the emitted items take exactly the
    covered columns of the (mirrored) table, each character over the cells the table gives it -/
theorem glyphCells_items_rtl (chs : List Bytes) (pos : List Nat) (ctx : Int) (hctx : ctx < 0) (cbeg cend : Int)
    (hwin : cbeg < cend) (hd : Disjoint chs pos) :
    glyphCells chs pos (items (offTable chs pos ctx cbeg cend) cbeg cend) =
      (offTable chs pos ctx cbeg cend).take (shown (offTable chs pos ctx cbeg cend) cbeg cend) :=
  glyphCells_items_of_width chs pos _ cbeg cend
    (fun i n h => (C19d.items_width_rtl chs pos ctx hctx cbeg cend hwin hd i n h).1)

/-- (M1, both directions from the same lemma) -/
theorem glyphCells_items_any (chs : List Bytes) (pos : List Nat) (ctx : Int) (cbeg cend : Int)
    (hwin : cbeg < cend) (hd : Disjoint chs pos) :
    glyphCells chs pos (items (offTable chs pos ctx cbeg cend) cbeg cend) =
      (offTable chs pos ctx cbeg cend).take (shown (offTable chs pos ctx cbeg cend) cbeg cend) :=
  glyphCells_items_of_width chs pos _ cbeg cend
    (fun i n h => (items_width_any chs pos ctx cbeg cend hwin hd i n h).1)

/-- the left-to-right `C19d.glyphCells_items` again, from the direction-free lemma -/
theorem glyphCells_items_ltr (chs : List Bytes) (pos : List Nat) (ctx : Int) (hctx : ctx ≥ 0) (cbeg cend : Int)
    (hwin : cbeg < cend) (hd : Disjoint chs pos) :
    glyphCells chs pos (items (offTable chs pos ctx cbeg cend) cbeg cend) =
      (offTable chs pos ctx cbeg cend).take (shown (offTable chs pos ctx cbeg cend) cbeg cend) :=
  glyphCells_items_of_width chs pos _ cbeg cend
    (fun i n h => (C19d.items_width chs pos ctx hctx cbeg cend hwin hd i n h).1)

/-! ## 2. (M2) cell by cell, mirrored -/

/-- (M2) right-to-left context, disjoint cells: after the row is written from the left edge of the
    window, window cell `k` shows character `i` iff the visual column `cend - 1 - k` is a cell of `i`
    and every cell of `i` lies in `[cbeg, cend)`; every other cell shows a blank or is not written.
    (As in `C19d.showsAt_spec` no bound on `k` is needed: beyond the covered cells both sides are
    false.) -/
theorem showsAt_spec_rtl (chs : List Bytes) (pos : List Nat) (ctx : Int) (hctx : ctx < 0) (cbeg cend : Int)
    (hwin : cbeg < cend) (hd : Disjoint chs pos) (k i : Nat) :
    showsAt chs pos (items (offTable chs pos ctx cbeg cend) cbeg cend) k = some i ↔
      i < chs.length ∧
      (pos.getD i 0 : Int) ≤ cend - 1 - k ∧
      cend - 1 - k < (pos.getD i 0 : Int) + (renCwid (chs.getD i []) (pos.getD i 0) : Int) ∧
      cbeg ≤ (pos.getD i 0 : Int) ∧
      (pos.getD i 0 : Int) + (renCwid (chs.getD i []) (pos.getD i 0) : Int) ≤ cend := by
  unfold showsAt
  rw [glyphCells_items_rtl chs pos ctx hctx cbeg cend hwin hd, take_shown_getD]
  by_cases hk : k < (cend - cbeg).toNat
  · exact C19c.offTable_spec_rtl chs pos ctx hctx cbeg cend hwin hd k hk i
  · rw [C19c.offTable_outside _ _ _ _ _ _ (by omega)]
    constructor
    · intro h; cases h
    · intro h; omega

/-- the form with the bound of the task statement, `k` below the covered cells -/
theorem showsAt_spec_rtl' (chs : List Bytes) (pos : List Nat) (ctx : Int) (hctx : ctx < 0) (cbeg cend : Int)
    (hwin : cbeg < cend) (hd : Disjoint chs pos) (k : Nat)
    (_hk : k < shown (offTable chs pos ctx cbeg cend) cbeg cend) (i : Nat) :
    showsAt chs pos (items (offTable chs pos ctx cbeg cend) cbeg cend) k = some i ↔
      i < chs.length ∧
      (pos.getD i 0 : Int) ≤ cend - 1 - k ∧
      cend - 1 - k < (pos.getD i 0 : Int) + (renCwid (chs.getD i []) (pos.getD i 0) : Int) ∧
      cbeg ≤ (pos.getD i 0 : Int) ∧
      (pos.getD i 0 : Int) + (renCwid (chs.getD i []) (pos.getD i 0) : Int) ≤ cend :=
  showsAt_spec_rtl chs pos ctx hctx cbeg cend hwin hd k i

/-- a cell below `shown` that shows no character shows a blank (it is written, as `none`); a cell
    from `shown` on is not written -/
theorem showsAt_written (chs : List Bytes) (pos : List Nat) (ctx : Int) (cbeg cend : Int)
    (hwin : cbeg < cend) (hd : Disjoint chs pos) :
    (glyphCells chs pos (items (offTable chs pos ctx cbeg cend) cbeg cend)).length =
      shown (offTable chs pos ctx cbeg cend) cbeg cend := by
  rw [glyphCells_items_any chs pos ctx cbeg cend hwin hd, List.length_take]
  have := shown_le (offTable chs pos ctx cbeg cend) cbeg cend (C19c.offTable_length _ _ _ _ _)
  omega

/-! ## 3. (M3) on the model's own tables -/

/-- the tables of `ren_position` for a valid UTF-8 line have disjoint cells, with widths `cellWidth` -/
theorem model_disjoint (orc : Dir.Oracle) (o : Opts) (cps : List Nat) (hv : ∀ c ∈ cps, ValidCp c)
    (pos : List Nat) (h : renPosition orc o (encStr cps) = some pos) :
    Disjoint (chrs (encStr cps)) pos := by
  have ht := C17b.renPosition_tiled orc o cps hv pos h
  have hlen := Lemmas.C17b.chrs_enc_length hv
  intro i j hi hj hij
  rw [hlen] at hi hj
  rw [Lemmas.C17b.cwid_chr hv i hi, Lemmas.C17b.cwid_chr hv j hj]
  exact C17b.cells_disjoint ht i j hi hj hij

/-- (the right-to-left counterpart of `C19c.offTable_spec_model`) for a valid UTF-8 line and any
    table `ren_position` returns for it, in a right-to-left context the window table is exact and
    mirrored, with the reference cell widths -/
theorem offTable_spec_model_rtl (orc : Dir.Oracle) (o : Opts) (cps : List Nat) (hv : ∀ c ∈ cps, ValidCp c)
    (pos : List Nat) (h : renPosition orc o (encStr cps) = some pos)
    (ctx : Int) (hctx : ctx < 0) (cbeg cend : Int) (hwin : cbeg < cend)
    (k : Nat) (hk : k < (cend - cbeg).toNat) (i : Nat) :
    (offTable (chrs (encStr cps)) pos ctx cbeg cend).getD k none = some i ↔
      i < cps.length ∧
      (pos.getD i 0 : Int) ≤ cend - 1 - k ∧
      cend - 1 - k < (pos.getD i 0 : Int) + (cellWidth (cps.getD i 0) (pos.getD i 0) : Int) ∧
      cbeg ≤ (pos.getD i 0 : Int) ∧
      (pos.getD i 0 : Int) + (cellWidth (cps.getD i 0) (pos.getD i 0) : Int) ≤ cend := by
  have hlen := Lemmas.C17b.chrs_enc_length hv
  have hcw : ∀ i, i < cps.length → ∀ col,
      renCwid ((chrs (encStr cps)).getD i []) col = cellWidth (cps.getD i 0) col :=
    fun i hi col => Lemmas.C17b.cwid_chr hv i hi col
  rw [C19c.offTable_spec_rtl _ pos ctx hctx cbeg cend hwin (model_disjoint orc o cps hv pos h) k hk i, hlen]
  constructor
  · rintro ⟨a, r⟩; rw [hcw i a] at r; exact ⟨a, r⟩
  · rintro ⟨a, r⟩; rw [← hcw i a] at r; exact ⟨a, r⟩

/-- (M3) the row of a valid UTF-8 line in a right-to-left context, for any table `ren_position`
    returns (reordered or not): the row is the reference row of the window table; its items take on
    the screen exactly the covered columns of the table; and, cell by cell, window cell `k` shows
    character `i` iff the visual column `cend - 1 - k` is one of the cells of `i` (reference widths
    `cellWidth`) and all cells of `i` are inside the window -/
theorem renderRow_cells_rtl (orc : Dir.Oracle) (o : Opts) (shape : Bool) (cps : List Nat) (hv : ∀ c ∈ cps, ValidCp c)
    (pos : List Nat) (hpos : renPosition orc o (encStr cps) = some pos)
    (hctx : Dir.dirContext orc o.xtd (encStr cps) < 0) (cbeg cend : Int) (hwin : cbeg < cend) :
    let chs := chrs (encStr cps)
    let off := offTable chs pos (Dir.dirContext orc o.xtd (encStr cps)) cbeg cend
    renderRow orc o shape (encStr cps) cbeg cend =
        some (rowRef chs (chs.map (fun c => (ucCode c).getD 0)) shape off cbeg cend) ∧
    glyphCells chs pos (items off cbeg cend) = off.take (shown off cbeg cend) ∧
    ∀ k i, showsAt chs pos (items off cbeg cend) k = some i ↔
      i < cps.length ∧
      (pos.getD i 0 : Int) ≤ cend - 1 - k ∧
      cend - 1 - k < (pos.getD i 0 : Int) + (cellWidth (cps.getD i 0) (pos.getD i 0) : Int) ∧
      cbeg ≤ (pos.getD i 0 : Int) ∧
      (pos.getD i 0 : Int) + (cellWidth (cps.getD i 0) (pos.getD i 0) : Int) ≤ cend := by
  intro chs off
  have hlen := Lemmas.C17b.chrs_enc_length hv
  have hcw : ∀ i, i < cps.length → ∀ col,
      renCwid ((chrs (encStr cps)).getD i []) col = cellWidth (cps.getD i 0) col :=
    fun i hi col => Lemmas.C17b.cwid_chr hv i hi col
  have hd : Disjoint chs pos := model_disjoint orc o cps hv pos hpos
  refine ⟨?_, glyphCells_items_rtl chs pos _ hctx cbeg cend hwin hd, ?_⟩
  · rw [C19d.renderRow_eq_rowRef, hpos]; rfl
  · intro k i
    rw [showsAt_spec_rtl chs pos _ hctx cbeg cend hwin hd k i, hlen]
    constructor
    · rintro ⟨a, r⟩; rw [hcw i a] at r; exact ⟨a, r⟩
    · rintro ⟨a, r⟩; rw [← hcw i a] at r; exact ⟨a, r⟩

/-! ## 4. (M4) direction-free -/

/-- the visual column drawn at window cell `k`: `cbeg + k` in a left-to-right context, mirrored
    (`cend - 1 - k`) in a right-to-left one — the inverse of `led_pos` -/
def visCol (ctx : Int) (cbeg cend : Int) (k : Nat) : Int := if ctx ≥ 0 then cbeg + k else cend - 1 - k

/-- `visCol` inverts `ledPos` on the window -/
theorem ledPos_visCol (ctx : Int) (cbeg cend : Int) (k : Nat) :
    ledPos ctx (visCol ctx cbeg cend k) cbeg cend = k := by
  unfold ledPos visCol
  split <;> omega

theorem visCol_ledPos (ctx : Int) (cbeg cend : Int) (p : Int) (h : 0 ≤ ledPos ctx p cbeg cend) :
    visCol ctx cbeg cend (ledPos ctx p cbeg cend).toNat = p := by
  unfold ledPos visCol at *
  split <;> rename_i hc <;> simp only [hc, if_true, if_false] at h ⊢ <;> omega

/-- the cells of the window are the visual columns of the window -/
theorem visCol_mem (ctx : Int) (cbeg cend : Int) (k : Nat) (hk : k < (cend - cbeg).toNat) :
    cbeg ≤ visCol ctx cbeg cend k ∧ visCol ctx cbeg cend k < cend := by
  unfold visCol
  split <;> omega

/-- either direction, disjoint cells: window cell `k` of the table holds character `i` iff
    `visCol … k` is a cell of `i` and every cell of `i` lies in `[cbeg, cend)` -/
theorem offTable_spec_any (chs : List Bytes) (pos : List Nat) (ctx : Int) (cbeg cend : Int)
    (hwin : cbeg < cend) (hd : Disjoint chs pos) (k : Nat) (hk : k < (cend - cbeg).toNat) (i : Nat) :
    (offTable chs pos ctx cbeg cend).getD k none = some i ↔
      i < chs.length ∧
      (pos.getD i 0 : Int) ≤ visCol ctx cbeg cend k ∧
      visCol ctx cbeg cend k < (pos.getD i 0 : Int) + (renCwid (chs.getD i []) (pos.getD i 0) : Int) ∧
      cbeg ≤ (pos.getD i 0 : Int) ∧
      (pos.getD i 0 : Int) + (renCwid (chs.getD i []) (pos.getD i 0) : Int) ≤ cend := by
  unfold visCol
  by_cases hctx : ctx ≥ 0
  · rw [if_pos hctx]; exact C19c.offTable_spec chs pos ctx hctx cbeg cend hwin hd k hk i
  · rw [if_neg hctx]; exact C19c.offTable_spec_rtl chs pos ctx (by omega) cbeg cend hwin hd k hk i

/-- either direction, disjoint cells, cell by cell: window cell `k` shows character `i` iff
    `visCol … k` is a cell of `i` and every cell of `i` lies in `[cbeg, cend)` -/
theorem showsAt_spec_any (chs : List Bytes) (pos : List Nat) (ctx : Int) (cbeg cend : Int)
    (hwin : cbeg < cend) (hd : Disjoint chs pos) (k i : Nat) :
    showsAt chs pos (items (offTable chs pos ctx cbeg cend) cbeg cend) k = some i ↔
      i < chs.length ∧
      (pos.getD i 0 : Int) ≤ visCol ctx cbeg cend k ∧
      visCol ctx cbeg cend k < (pos.getD i 0 : Int) + (renCwid (chs.getD i []) (pos.getD i 0) : Int) ∧
      cbeg ≤ (pos.getD i 0 : Int) ∧
      (pos.getD i 0 : Int) + (renCwid (chs.getD i []) (pos.getD i 0) : Int) ≤ cend := by
  unfold visCol
  by_cases hctx : ctx ≥ 0
  · rw [if_pos hctx]; exact C19d.showsAt_spec chs pos ctx hctx cbeg cend hwin hd k i
  · rw [if_neg hctx]; exact showsAt_spec_rtl chs pos ctx (by omega) cbeg cend hwin hd k i

/-- (M4) the row of a valid UTF-8 line, any oracle, options, context direction, and any table
    `ren_position` returns: the row is the reference row of the window table; the emitted items
    take exactly the `shown` covered cells; every covered cell `k` either shows a blank or shows a
    character, and it shows character `i` iff the visual column `visCol … k` is a cell of `i` and all
    cells of `i` lie in `[cbeg, cend)`; cells from `shown` on are not written -/
theorem renderRow_shows (orc : Dir.Oracle) (o : Opts) (shape : Bool) (cps : List Nat) (hv : ∀ c ∈ cps, ValidCp c)
    (pos : List Nat) (hpos : renPosition orc o (encStr cps) = some pos) (cbeg cend : Int) (hwin : cbeg < cend) :
    let ctx := Dir.dirContext orc o.xtd (encStr cps)
    let chs := chrs (encStr cps)
    let off := offTable chs pos ctx cbeg cend
    renderRow orc o shape (encStr cps) cbeg cend =
        some (rowRef chs (chs.map (fun c => (ucCode c).getD 0)) shape off cbeg cend) ∧
    (glyphCells chs pos (items off cbeg cend)).length = shown off cbeg cend ∧
    (∀ k, shown off cbeg cend ≤ k → ∀ i, showsAt chs pos (items off cbeg cend) k ≠ some i) ∧
    ∀ k, k < shown off cbeg cend → ∀ i, (showsAt chs pos (items off cbeg cend) k = some i ↔
      i < cps.length ∧
      (pos.getD i 0 : Int) ≤ visCol ctx cbeg cend k ∧
      visCol ctx cbeg cend k < (pos.getD i 0 : Int) + (cellWidth (cps.getD i 0) (pos.getD i 0) : Int) ∧
      cbeg ≤ (pos.getD i 0 : Int) ∧
      (pos.getD i 0 : Int) + (cellWidth (cps.getD i 0) (pos.getD i 0) : Int) ≤ cend) := by
  intro ctx chs off
  have hlen := Lemmas.C17b.chrs_enc_length hv
  have hcw : ∀ i, i < cps.length → ∀ col,
      renCwid ((chrs (encStr cps)).getD i []) col = cellWidth (cps.getD i 0) col :=
    fun i hi col => Lemmas.C17b.cwid_chr hv i hi col
  have hd : Disjoint chs pos := model_disjoint orc o cps hv pos hpos
  have hl := showsAt_written chs pos ctx cbeg cend hwin hd
  refine ⟨?_, hl, ?_, ?_⟩
  · rw [C19d.renderRow_eq_rowRef, hpos]; rfl
  · intro k hk i h
    unfold showsAt at h
    rw [List.getD_eq_getElem?_getD, List.getElem?_eq_none (by rw [hl]; exact hk)] at h
    cases h
  · intro k _ i
    rw [showsAt_spec_any chs pos ctx cbeg cend hwin hd k i, hlen]
    constructor
    · rintro ⟨a, r⟩; rw [hcw i a] at r; exact ⟨a, r⟩
    · rintro ⟨a, r⟩; rw [← hcw i a] at r; exact ⟨a, r⟩

/-! ## 5. (M5) non-vacuity -/

open Neatvi.Props.C19d (cps ln noOrc)

/-- `td = -2`: the context is right-to-left whatever the line and the oracle; no reordering -/
def optsR0 : Opts := { xorder := 0, xlim := 256, xtd := -2 }
/-- the same with reordering on, for the oracle that never matches (the kernel can evaluate it) -/
def optsR : Opts := { xorder := 1, xlim := 256, xtd := -2 }
/-- the table of "a\t中b\n": the tab takes columns 1–7, U+4E2D 8–9 -/
def tab : List Nat := [0, 1, 8, 10, 11, 12]
/-- the table the editor's oracle gives the same line with `xorder = 1`, `td = -2` (by `#eval`):
    reordered — "b" 0, U+4E2D 1–2, the tab 3–7, "a" 8, the newline 9 -/
def tabR : List Nat := [8, 3, 1, 0, 9, 10]

/-- what the cells of the window show, cell by cell -/
def cellsShown (pos : List Nat) (ctx cbeg cend : Int) : List (Option Nat) :=
  (List.range (cend - cbeg).toNat).map
    (showsAt (chrs ln) pos (items (offTable (chrs ln) pos ctx cbeg cend) cbeg cend))

/-- the hypotheses of `renderRow_cells_rtl` hold of this line -/
example : encStr cps = ln ∧ (∀ c ∈ cps, ValidCp c) := by decide
example : renPosition Vi.dirOracle optsR0 (encStr cps) = some tab ∧
    Dir.dirContext Vi.dirOracle optsR0.xtd (encStr cps) < 0 := by decide +kernel
example : renPosition noOrc optsR (encStr cps) = some tab ∧
    Dir.dirContext noOrc optsR.xtd (encStr cps) < 0 := by decide +kernel

/-- the whole line in `[0, 14)`: mirrored — two unoccupied cells, the newline, "b", U+4E2D, the tab, "a" -/
example : renderRow Vi.dirOracle optsR0 true ln 0 14 =
    some [32, 32, 32, 98, 0xe4, 0xb8, 0xad, 32, 32, 32, 32, 32, 32, 32, 97] := by decide +kernel
example : renderRow noOrc optsR true ln 0 14 =
    some [32, 32, 32, 98, 0xe4, 0xb8, 0xad, 32, 32, 32, 32, 32, 32, 32, 97] := by decide +kernel
example : items (offTable (chrs ln) tab (-1) 0 14) 0 14 =
    [(none, 2), (some 4, 1), (some 3, 1), (some 2, 2), (some 1, 7), (some 0, 1)] := by decide +kernel
example : cellsShown tab (-1) 0 14 =
    [none, none, some 4, some 3, some 2, some 2, some 1, some 1, some 1, some 1, some 1, some 1, some 1, some 0] := by
  decide +kernel
/-- ... the mirror image of the left-to-right one -/
example : cellsShown tab 1 0 14 =
    [some 0, some 1, some 1, some 1, some 1, some 1, some 1, some 1, some 2, some 2, some 3, some 4, none, none] ∧
    cellsShown tab (-1) 0 14 = (cellsShown tab 1 0 14).reverse := by decide +kernel

/-- through the theorem -/
example : renderRow Vi.dirOracle optsR0 true (encStr cps) 0 14 =
    some (rowRef (chrs (encStr cps)) ((chrs (encStr cps)).map (fun c => (ucCode c).getD 0)) true
      (offTable (chrs (encStr cps)) tab (Dir.dirContext Vi.dirOracle optsR0.xtd (encStr cps)) 0 14) 0 14) :=
  (renderRow_cells_rtl Vi.dirOracle optsR0 true cps (by decide) tab (by decide +kernel)
    (by decide) 0 14 (by decide)).1
/-- window cell 4 (visual column 9) shows U+4E2D (character 2), by `renderRow_shows` -/
example : showsAt (chrs (encStr cps)) tab (items (offTable (chrs (encStr cps)) tab
      (Dir.dirContext Vi.dirOracle optsR0.xtd (encStr cps)) 0 14) 0 14) 4 = some 2 :=
  ((renderRow_shows Vi.dirOracle optsR0 true cps (by decide) tab (by decide +kernel) 0 14 (by decide)).2.2.2
    4 (by decide +kernel) 2).mpr (by decide +kernel)
example : visCol (-1) 0 14 4 = 9 ∧ visCol 1 0 14 4 = 4 := by decide

/-- the window `[0, 4)` cuts the tab: it is not entered; "a" is drawn at the right edge -/
example : cellsShown tab (-1) 0 4 = [none, none, none, some 0] ∧
    cellsShown tab 1 0 4 = [some 0, none, none, none] ∧
    renderRow Vi.dirOracle optsR0 true ln 0 4 = some [32, 32, 32, 97] := by decide +kernel
/-- the window `[2, 14)` cuts the tab at its low columns: in the mirrored window these are the last
    cells, after the last occupied one, so (unlike left-to-right, where they are six blanks) they
    are not written at all: six cells are covered -/
example : cellsShown tab (-1) 2 14 =
      [none, none, some 4, some 3, some 2, some 2, none, none, none, none, none, none] ∧
    cellsShown tab 1 2 14 =
      [none, none, none, none, none, none, some 2, some 2, some 3, some 4, none, none] ∧
    shown (offTable (chrs ln) tab (-1) 2 14) 2 14 = 6 ∧
    renderRow Vi.dirOracle optsR0 true ln 2 14 = some [32, 32, 32, 98, 0xe4, 0xb8, 0xad] := by decide +kernel
/-- the window `[0, 9)` cuts U+4E2D (cells 8–9): its column inside the window, mirrored to cell 0, is a blank -/
example : cellsShown tab (-1) 0 9 =
      [none, some 1, some 1, some 1, some 1, some 1, some 1, some 1, some 0] ∧
    cellsShown tab (-1) 0 9 = (cellsShown tab 1 0 9).reverse ∧
    renderRow Vi.dirOracle optsR0 true ln 0 9 = some [32, 32, 32, 32, 32, 32, 32, 32, 97] := by decide +kernel
/-- the window `[9, 14)` cuts U+4E2D at its second cell: that column is mirrored to the last cell,
    after the last occupied one, and is not written -/
example : cellsShown tab (-1) 9 14 = [none, none, some 4, some 3, none] ∧
    cellsShown tab (-1) 9 14 = (cellsShown tab 1 9 14).reverse ∧
    shown (offTable (chrs ln) tab (-1) 9 14) 9 14 = 4 ∧
    renderRow Vi.dirOracle optsR0 true ln 9 14 = some [32, 32, 32, 98] := by decide +kernel
/-- the window `[7, 10)`: U+4E2D first, the last column of the tab (cut) after it, not written -/
example : cellsShown tab (-1) 7 10 = [some 2, some 2, none] ∧
    cellsShown tab 1 7 10 = [none, some 2, some 2] ∧
    renderRow Vi.dirOracle optsR0 true ln 7 10 = some [0xe4, 0xb8, 0xad] := by decide +kernel
/-- the window `[1, 10)` holds the tab and U+4E2D whole: U+4E2D, then the seven blanks of the tab -/
example : cellsShown tab (-1) 1 10 =
      [some 2, some 2, some 1, some 1, some 1, some 1, some 1, some 1, some 1] ∧
    cellsShown tab (-1) 1 10 = (cellsShown tab 1 1 10).reverse ∧
    renderRow Vi.dirOracle optsR0 true ln 1 10 = some [0xe4, 0xb8, 0xad, 32, 32, 32, 32, 32, 32, 32] := by
  decide +kernel
/-- the window `[2, 9)` cuts both: nothing is shown -/
example : cellsShown tab (-1) 2 9 = List.replicate 7 none ∧
    renderRow Vi.dirOracle optsR0 true ln 2 9 = some [] := by decide +kernel

/-- the reordered table `tabR` (disjoint cells, so `showsAt_spec_rtl` applies): the window `[0, 14)`
    mirrored, and the window `[4, 9)` that cuts the tab (columns 3–7): only "a" (column 8) is shown -/
example : cellsShown tabR (-1) 0 14 =
    [none, none, none, none, some 4, some 0, some 1, some 1, some 1, some 1, some 1, some 2, some 2, some 3] ∧
    cellsShown tabR (-1) 0 14 = (cellsShown tabR 1 0 14).reverse ∧
    cellsShown tabR (-1) 4 9 = [some 0, none, none, none, none] ∧
    cellsShown tabR 1 4 9 = [none, none, none, none, some 0] := by decide +kernel
theorem tabR_disjoint : Disjoint (chrs ln) tabR := by
  have hlen : (chrs ln).length = 5 := by decide +kernel
  have h : ∀ i, i < 5 → ∀ j, j < 5 → i ≠ j →
      tabR.getD i 0 + renCwid ((chrs ln).getD i []) (tabR.getD i 0) ≤ tabR.getD j 0 ∨
      tabR.getD j 0 + renCwid ((chrs ln).getD j []) (tabR.getD j 0) ≤ tabR.getD i 0 := by decide +kernel
  intro i j hi hj
  rw [hlen] at hi hj
  exact h i hi j hj
/-- through `showsAt_spec_rtl`, on the reordered table, window `[4, 9)`: cell 0 is visual column 8, "a" -/
example : showsAt (chrs ln) tabR (items (offTable (chrs ln) tabR (-1) 4 9) 4 9) 0 = some 0 :=
  (showsAt_spec_rtl (chrs ln) tabR (-1) (by decide) 4 9 (by decide) tabR_disjoint 0 0).mpr (by decide +kernel)
/-- ... and cell 1 (visual column 7, a column of the cut tab) does not show the tab -/
example : showsAt (chrs ln) tabR (items (offTable (chrs ln) tabR (-1) 4 9) 4 9) 1 ≠ some 1 := fun h =>
  absurd ((showsAt_spec_rtl (chrs ln) tabR (-1) (by decide) 4 9 (by decide) tabR_disjoint 1 1).mp h)
    (by decide +kernel)

end Neatvi.Props.C19e
