import NeatviVerif.Lemmas.C05hC
/-!
# C05h: connecting "no trap in the ex layer" (C05e) with "no trap in the vi loop" (C05f) — what connects, and what does not

C05f proves that one iteration of the loop of `vi()` never traps **relative to** three hypotheses it states as
definitions: `EngineOk` (the regular-expression layer), `ExNoTrap` / `ExKeeps` (ex commands entered from vi) and the
per-state `StepHyp`.  The task of this module was to discharge them from C05e.  The outcome:

**1. `EngineOk` is false** (`engineOk_is_false`), for three independent reasons, each with a kernel-checked witness:
  * it quantifies over patterns that are not C strings (`\` NUL makes `rstr_make` trap in the model);
  * restricted to C-string patterns and to well-formed lines (`engineOk_on_lines_is_false`): the line `a`, `E2`,
    newline ends in a truncated multi-byte character, the start-position loop of `regexec` advances by `uc_len` from
    `E2` over the newline, and `x*$` matches *on the terminator*: the match starts at `s.length`, which `EngineOk`
    excludes.  `lbuf_search` then reports column 3 on a line of 3 characters (`search_hit_beyond_last_char`), which
    the conclusion `HitOk` of C05f's `search_ok` excludes.  The editor itself does nothing wrong there (`vi` clamps
    the column; evaluated runs with `/x*$`, `n`, `d/x*$` end normally) — it is C05f's *hypothesis* that is too strong;
  * restricted to C-string patterns and ASCII subjects (`engineOk_on_ascii_is_false`): a subject that is not
    newline-terminated (`bc`) — `EngineOk` quantifies over every subject, `lbuf_search` only passes rests of lines.
  What C05e does give (`engine_on_c_strings`, `search_never_traps`): for a pattern that is a C string, compiling and
  matching never trap, on any subject; hence `lbuf_search` started on an existing character never traps, whatever
  the bytes of the lines are.  The remaining hypothesis on the keyword is exactly `0 ∉ kw`.  The *position* half
  of `EngineOk` ("a match starts before the terminator") needs, besides, a subject that is a newline-terminated line
  whose character boundaries reach the newline (true for valid UTF-8; not provable from C05e, whose
  `group_offsets_sane` bounds non-empty groups only and is stated for 16 groups, not 1).
**2. `ExNoTrap` is false** (`exNoTrap_is_false`): it quantifies over every NUL-free line; `:w %%` with a 500-byte
  file name traps in the model (C05e's path limit; the C code truncates).  For the lines C05e covers the lift through
  `exCommandV` is proved (`colon_no_trap`, `colon_keeps_safe`) — from C05e's invariant `Safe`, not from C05f's `SOk`:
  the two are **incomparable** (`sok_not_safe`: `SOk` does not say that the remembered pattern is a C string, nor
  anything about the other buffers or the `:@` depth; `safe_not_sok`: `Safe` does not say that lines are NUL-free and
  newline-terminated).  `ExKeeps` (an ex command keeps the *line* invariant of C05f: no NUL, final newline, NUL-free
  registers and history) is not a consequence of any C05e theorem; it has to be proved handler by handler — and
  as stated it is false *in the model* too (evaluated, not proved here): `:r !x` where the shell oracle `Ed.pipes`
  answers `b NUL c ⏎ d` inserts the line `b NUL c` (`Model/ExCmd.lean`, handler `ec_read`, hands the whole byte list to
  `Ed.edit`), whereas `ec_read` of `/repo/ex.c` passes `obuf` to `lbuf_edit` as a C string, which ends at the NUL:
  here the model disagrees with the C code (only for command output containing a NUL byte).
**3. the initial state**: `ex_init` followed by `viInit` yields a state with C05e's invariant (`initial_state_safe`).
**4. `MarksIn` is not an invariant** (`marksIn_not_invariant`): it holds initially and fails after `$ oxyz<ESC> u`
  (C05f's own witness, here as a statement about the predicate).  So `StepHyp` cannot be reduced to `SlashOk`.

**Therefore `vi_run_no_trap` cannot be obtained from `C05f.run_no_trap`**: every theorem of `Props/C05f.lean` that has
`EngineOk` or `ExNoTrap` among its hypotheses is vacuously true.  The repair belongs in the C05f files (which this
module may not edit): replace `EngineOk` by `EngineOkOn NoNul S` for the subjects `lbuf_search` really passes, add
`0 ∉ xkwd` and C05e's `Safe` to `ViOk`, weaken `HitOk` to `o' ≤ slenAt` (or add "the last character of every line is
complete" to `LineOk`), and restrict `ExNoTrap` / `ExKeeps` to `ColonLineOk` lines.

Byte strings are lists of character codes.
-/
namespace Neatvi.Props.C05h
open Neatvi Neatvi.Uc Neatvi.Lbuf Neatvi.Ex Neatvi.Mot Neatvi.Vi Neatvi.Rset
open Neatvi.Lemmas.C05e Neatvi.Lemmas.C05f Neatvi.Lemmas.C05h
open Neatvi.Props.C05c (iterate)

export Neatvi.Lemmas.C05h (EngineOkOn ColonLineOk EdSafe findWith sLong sKwd badMark)

/-! ## 1. the regular-expression layer -/

/-- `C05f.EngineOk` is `EngineOkOn` without restriction on patterns and subjects -/
theorem engineOk_unrestricted : EngineOk ↔ EngineOkOn (fun _ => True) (fun _ => True) := engineOk_iff

/-- **`C05f.EngineOk` is false**: the pattern `\` NUL makes `rstr_make` trap in the model -/
theorem engineOk_is_false : ¬ EngineOk := Lemmas.C05h.engineOk_is_false

/-- … and stays false for patterns that are C strings and subjects that are well-formed lines (C05f's `LineOk`):
    on `a`, `E2`, newline the pattern `x*$` matches at byte 3, the terminator -/
theorem engineOk_on_lines_is_false : ¬ EngineOkOn NoNul Lemmas.C05f.LineOk := Lemmas.C05h.engineOk_on_lines_is_false

/-- … and for C-string patterns and ASCII subjects that are not newline-terminated (`x*$` on `bc`) -/
theorem engineOk_on_ascii_is_false : ¬ EngineOkOn NoNul (fun s => ∀ c ∈ s, 0 < c ∧ c < 128) :=
  Lemmas.C05h.engineOk_on_ascii_is_false

/-- the two matches, as the matcher reports them: `(0, [so, eo], cuts)` with `so` = the length of the subject -/
theorem matches_on_the_terminator :
    findWith [120, 42, 36] 0 [97, 226, 10] 0 = some (0, [3, 3], 0) ∧
    findWith [120, 42, 36] 0 [98, 99] 0 = some (0, [2, 2], 0) := ⟨truncated_char_match, unterminated_match⟩

/-- one level up: searching `x*$` forward from the `a` of the line `a`, `E2`, newline reports column 3 of a line of
    3 characters — the conclusion `HitOk` of C05f's `search_ok` / `search_hit` fails for a C-string pattern on a
    well-formed line -/
theorem search_hit_beyond_last_char :
    search [[97, 226, 10]] [120, 42, 36] false 1 0 0 = some (some (0, 3, 0)) ∧ slenAt [[97, 226, 10]] 0 = 3 ∧
    ¬ HitOk [[97, 226, 10]] (some (0, 3, 0)) := Lemmas.C05h.search_hit_beyond_last_char

/-- **what holds**: for a pattern that is a C string, `rstr_make` does not trap and the matcher it yields never
    traps, on any subject with any flags and limits.  The one hypothesis on the keyword is `0 ∉ kw` (what is typed at
    the `/` prompt has it: `C05f.typed_text_has_no_nul`) -/
theorem engine_on_c_strings (kw : Bytes) (flg : Nat) (h0 : NoNul kw) :
    ∃ r, rstrMake kw flg = some r ∧
      ∀ re, r = some re → ∀ (s : Bytes) (n f nd ng : Nat), ∃ x, rstrFind re s n f nd ng = some x :=
  engine_total kw flg h0

example : ∃ r, rstrMake [120, 42, 36] 0 = some r ∧
    ∀ re, r = some re → ∀ (s : Bytes) (n f nd ng : Nat), ∃ x, rstrFind re s n f nd ng = some x :=
  engine_on_c_strings [120, 42, 36] 0 (by decide)

/-- **`lbuf_search` with a C-string pattern, started on an existing character, never traps** — no hypothesis on the
    bytes of the lines (the no-trap half of C05f's `search_ok`, without `EngineOk`) -/
theorem search_never_traps (ls : Lines) (kw : Bytes) (ic : Bool) (dir r o : Int) (h0 : NoNul kw)
    (ho : o < slenAt ls r) : search ls kw ic dir r o ≠ none := by
  obtain ⟨res, h⟩ := search_total ls kw ic dir r o h0 ho
  rw [h]; exact fun h => by cases h

example : search [[97, 226, 10]] [120, 42, 36] false 1 0 0 ≠ none :=
  search_never_traps _ _ _ _ _ _ (by decide) (by decide)

/-! ## 2. ex commands entered from vi -/

/-- **`C05f.ExNoTrap` is false**: `:w %%` on the empty buffer whose file name is 500 bytes long — a state with C05f's
    invariant and C05e's — traps in the model (the path limit of C05e; not a trap of the C code) -/
theorem exNoTrap_is_false : ¬ ExNoTrap := Lemmas.C05h.exNoTrap_is_false

/-- the witness: the state has both invariants, the line is NUL-free, `exCommandV` traps -/
theorem exNoTrap_witness :
    SOk sLong True ∧ RowOk sLong ∧ EdSafe sLong ∧ NoNul [119, 32, 37, 37] ∧ exCommandV [119, 32, 37, 37] sLong = Res.trap :=
  ⟨sLong_sok, sLong_rowOk, sLong_edSafe, by decide, sLong_traps⟩

/-- **`:` on a covered line never traps** — `ColonLineOk` is C05e's decidable class with the fuel `vi` gives
    `ex_command` (64): a flat line; or flat commands mixed with `:g` over local flat command lists; or a plain line
    with at most 15 `+`.  The state has to be `EdSafe`: C05e's `Safe` at `:@` depth 0 -/
theorem colon_no_trap (ln : Bytes) (s : VS) (h : EdSafe s) (hl : ColonLineOk ln) : exCommandV ln s ≠ Res.trap :=
  exCommandV_no_trap ln s h hl

/-- … and leaves a state that is `EdSafe` again -/
theorem colon_keeps_safe (ln : Bytes) (s : VS) (h : EdSafe s) (hl : ColonLineOk ln) :
    ∃ rc s', exCommandV ln s = Res.ok rc s' ∧ EdSafe s' := exCommandV_safe ln s h hl

/-- the hypotheses are satisfiable: `:1,2d|w out` on the witness state -/
example : exCommandV (strOf "1,2d|w out") sLong ≠ Res.trap :=
  colon_no_trap _ _ sLong_edSafe (Or.inl (by decide +kernel))

/-- `:w %%` is outside the covered class -/
theorem w_percent_not_covered : ¬ ColonLineOk [119, 32, 37, 37] := Lemmas.C05h.w_percent_not_covered

/-- **the invariants differ, 1**: a state with C05f's buffer/register invariant and a valid row that is not `Safe`
    (the remembered pattern `\` NUL is not a C string; `SOk` has no clause about `xkwd`, the other buffers, `atDepth`) -/
theorem sok_not_safe : SOk sKwd True ∧ RowOk sKwd ∧ ¬ Safe sKwd.ed := Lemmas.C05h.sok_not_safe

/-- **the invariants differ, 2**: a state that is `Safe` at depth 0 with a valid row and without C05f's invariant
    (a line `a NUL b` built by `lbuf_edit`; `Safe` has no clause about the bytes of the lines) -/
theorem safe_not_sok : ∃ s : VS, EdSafe s ∧ RowOk s ∧ ∀ c, ¬ SOk s c := Lemmas.C05h.safe_not_sok

/-! ## 3. the initial state -/

/-- **the state `vi` starts from** (`ex_init` on the empty buffer table, then `viInit`) is `EdSafe`: for every file
    name C05e covers (`NameOk`), every content of the file system, every key stream and window size -/
theorem initial_state_safe (ed0 : Ed) (files : List Bytes) (h0 : ed0.bufs = List.replicate Gen.NBUFS none)
    (hk : 0 ∉ ed0.xkwd) (hd : ed0.atDepth = 0) (hn : NameOk files) (keys : Bytes) (rows cols : Int) :
    ∃ rc ed1, exInit ed0 files = some (rc, ed1) ∧ EdSafe (viInit ed1 keys rows cols) :=
  init_edSafe ed0 files h0 hk hd hn keys rows cols

example (keys : Bytes) : ∃ rc ed1, exInit ({} : Ed) [strOf "f"] = some (rc, ed1) ∧ EdSafe (viInit ed1 keys 23 80) :=
  initial_state_safe {} [strOf "f"] rfl (by decide) rfl (nameOk_of_check (by decide +kernel)) keys 23 80

/-! ## 4. `MarksIn` -/

/-- **`MarksIn` is not preserved by the loop**: on the one-line buffer `hello w` it holds at the start and fails after
    the three commands `$`, `oxyz<ESC>`, `u` (the undo of the append leaves the mark `*` at `(1, 3)` in a buffer of one
    line).  `StepHyp` can therefore not be reduced to `SlashOk` alone -/
theorem marksIn_not_invariant :
    MarksIn (oneLine [36, 111, 120, 121, 122, 27, 117, 100, 96, 42]) ∧
    ∃ t, iterate 3 (oneLine [36, 111, 120, 121, 122, 27, 117, 100, 96, 42]) = some t ∧ ¬ MarksIn t :=
  Lemmas.C05h.marksIn_not_invariant

end Neatvi.Props.C05h
