import NeatviVerif.Lemmas.C09cFinal
/-!
# C09c: `.` against retyping on the *observable* state — equality up to a monotone renumbering of `useq`

`Props/C09b.lean` left one statement open (`dot_retyped_observable_full`): the run on `. rest` and the run on
`recorded rest` show the same text, cursor and registers.  Strict equality of the states is false (the `.` iteration
bumps the undo sequence counter twice, sets the mark `^`); the numbers `lbuf.c` stamps on undo records are however
only ever *compared*.  This file

1. defines **equality up to a monotone renumbering of the sequence numbers** (`LbRel`, `EdRel`, `Sim`) and shows that
   it is exactly that: a renumbering that preserves the order of the numbers that occur — hence the groups of equal
   numbers `u` / `^R` undo together — gives a related buffer (`renumbering_is_related`); related buffers order and
   group their numbers alike and the counter is the largest number on both sides (`related_numbers`);
2. proves that **every operation of `lbuf.c`** (`lbuf_respects`), **every `ex` command line** (`ex_command_respects`,
   for every fuel: all handlers, `:g`, `:@`, `:e +cmd`, the buffer table) and **every iteration of `vi()`**
   (`vi_step_respects`: motions, operators, insert mode, `u`, `^R`, `:`, `.`, `@`) maps related states to related
   states, hence whole runs do (`run_respects`) — no proviso: the key queues of related states are equal;
3. reads the same traversal unarily: the numbers of every buffer stay below its counter (`seq_numbers_bounded`), and
   between two commands those of the current buffer lie strictly below (`between_commands`);
4. concludes **`dot_retyped_observable`**: from a state between two commands, with nothing pushed unread and `.` typed,
   the run on `. rest` after `k + 1` iterations and the run on `recorded rest` after `k` iterations stop together or
   end in states whose `ed` are related: same text, cursor, window, registers, dirty flag, buffer table, marks — except
   that for `k = 0` (right after the `.`, before the retyped command has run) the mark `^` may differ
   (`caret_differs_after_dot`: it does) — and undo histories equal up to the renumbering;
5. shows that the statement of C09b is **false as stated** (`dot_retyped_observable_full_is_false`): its `Reachable`
   starts from an arbitrary `ed`, and an undo record numbered *above* the counter makes `u` after `.` undo less than
   `u` after the retyped command.  No run of the editor produces such a record (item 3); on the real editor `.`
   followed by `u` undoes exactly what the retyped command followed by `u` does (checked on `/repo/vi` with
   `x.u`/`xxu`, `dw.uu`/`dwdwuu`, `2x3.u`/`2x2x2x2xu`, `ihello<esc>.u`, `xj.kuu`/`xjxkuu`, `x.u^R`, `ddp.uu`/`ddppuu`).
   `dot_retyped_between_commands` is the form with the hypotheses on the numbers discharged (`between_commands`).

Vocabulary (`Lemmas/C09cRel.lean`, `C09cDot.lean`, `C09cFirst.lean`):
`SeqP a b p`: `p = (n, n')` is a pair of corresponding sequence numbers of the line buffers `a`, `b` (the counters
`useq`, `useq_zero`, `useq_last`, the `seq` of the `i`-th undo records); `LbRel w a b`: `a` and `b` agree in everything
but these numbers (with `w = true`: and but the mark `^`), the pairs are ordered alike and lie below the counters;
`EdRel w a b`: every field of the `ex` state but the buffer table equal, the tables related slot by slot (`w` concerns
the current buffer); `Sim w s t`: `EdRel w` on `ed`, every other field of the `vi` state equal.
`Rel2 w E m m'`: the computations `m`, `m'` map `Sim w`-related states to the same outcome — both out of keys, both
trapped, or the same value in `Sim w`-related states (`E`: an escape for the motions that read an exempt mark).
`DotSeqOk ed`: the numbers of every buffer lie below its counter, those of the current buffer strictly;
`DotSettled s rest`: the iteration that executes `.` moves neither cursor nor window (`vi_wfix()` finds nothing to
fix); `Settled s`: the same as a condition on `s` alone (`dot_settled_of_settled`); `cmdFirst t`: the iteration that starts in `t` is a command (`viPre` finds no motion, the command key is
positive) — all three decidable.
-/
namespace Neatvi.Props.C09c
open Neatvi Neatvi.Lbuf Neatvi.LbufIo Neatvi.Ex Neatvi.Vi
open Neatvi.Lemmas.C09c
open Neatvi.Lemmas.C09b (Inv runOk retype)
open Neatvi.Props.C05c (iterate)

export Neatvi.Lemmas.C09c (SeqP LbRel EdRel Sim SeqOk SeqStrict EdSeqOk DotSeqOk DotSettled Settled cmdFirst Rel2 RR
  NoEsc RRel ORel PRel renumber SeqVal DotOut dotState typedAt)

/-! ## 1. the relation is "equal up to a monotone renumbering" -/

/-- **sufficiency.**  Replace every sequence number `n` of a line buffer (the counter, `useq_zero`, `useq_last`, the
numbers of the undo records) by `f n`, where `f` preserves the order of the numbers that occur (`x ≤ y ↔ f x ≤ f y`:
monotone *and* injective on them, so groups of equal numbers stay groups and distinct groups stay distinct).  If the
numbers lie below the counter, the result is related to the original. -/
theorem renumbering_is_related (f : Nat → Nat) (a : Lb) (hok : SeqOk a)
    (hf : ∀ x y, SeqVal a x → SeqVal a y → (x ≤ y ↔ f x ≤ f y)) : LbRel false a (renumber f a) :=
  renumber_rel f a hok hf

/-- **necessity.**  In related line buffers corresponding numbers are ordered alike, equal numbers correspond to equal
numbers (the grouping `u` / `^R` use), and the counters are the largest numbers — so the next number handed out is new
on both sides. -/
theorem related_numbers (w : Bool) (a b : Lb) (h : LbRel w a b) (p q : Nat × Nat) (hp : SeqP a b p) (hq : SeqP a b q) :
    (p.1 ≤ q.1 ↔ p.2 ≤ q.2) ∧ (p.1 = q.1 ↔ p.2 = q.2) ∧ p.1 ≤ a.useq ∧ p.2 ≤ b.useq :=
  ⟨h.ord p q hp hq, h.eq_iff hp hq, (h.top p hp).1, (h.top p hp).2⟩

/-- everything else is equal: lines, glob marks, marks, undo position, the saved flag, and the undo records but for
`seq` -/
theorem related_fields (a b : Lb) (h : LbRel false a b) :
    a.lines = b.lines ∧ a.glob = b.glob ∧ a.mark = b.mark ∧ a.markOff = b.markOff ∧ a.histU = b.histU ∧
    a.unsaved = b.unsaved ∧ a.hist.length = b.hist.length ∧
    ∀ (i : Nat) (e e' : Entry), a.hist[i]? = some e → b.hist[i]? = some e' →
      e.pos = e'.pos ∧ e.nIns = e'.nIns ∧ e.nDel = e'.nDel ∧ e.ins = e'.ins ∧ e.del = e'.del ∧ e.marks = e'.marks :=
  lbRel_fields a b h

/-- a line buffer is related to itself exactly when its numbers lie below its counter; likewise for whole states -/
theorem related_refl (a : Lb) : LbRel false a a ↔ SeqOk a := ⟨fun h => h.seqOk_left, fun h => LbRel.refl h false⟩

theorem sim_refl (s : VS) (h : EdSeqOk s.ed) : Sim false s s := Sim.refl h false

/-- **what two related states show alike**: the text of the current buffer, the cursor, the registers (all of them),
the dirty flag, the names of all buffers in table order, the window; and — without the exemption `w` — all marks -/
theorem related_observables (w : Bool) (a b : Ed) (h : EdRel w a b) :
    a.lb.map (·.lines) = b.lb.map (·.lines) ∧ a.xrow = b.xrow ∧ a.xoff = b.xoff ∧ a.regs = b.regs ∧
    a.lb.map (fun l => (modified l).1) = b.lb.map (fun l => (modified l).1) ∧
    a.bufs.map (Option.map (·.path)) = b.bufs.map (Option.map (·.path)) ∧ a.xtop = b.xtop ∧ a.xleft = b.xleft ∧
    (w = false → a.lb.map (·.mark) = b.lb.map (·.mark) ∧ a.lb.map (·.markOff) = b.lb.map (·.markOff)) :=
  h.observables

/-! ## 2. every operation respects the relation -/

/-- **`lbuf.c`**: `lbuf_mark`, `lbuf_jump`, `lbuf_replace`, `lbuf_opt` (a new undo record takes the counter's value),
`lbuf_edit`, `lbuf_undo` and `lbuf_redo` (which undo / redo the *group* of records carrying one number: both sides
undo the same records), `lbuf_modified` (bumps the counter; the dirty flags, a comparison of two numbers, agree),
`lbuf_saved`, `lbuf_unsaved`, the glob marks, `lbuf_cp`, `lbuf_rd` -/
theorem lbuf_respects (a b : Lb) (h : LbRel false a b) :
    (∀ c p o, LbRel false (setMark a c p o) (setMark b c p o)) ∧ (∀ c, jump a c = jump b c) ∧
    (∀ s pos n, ORel (LbRel false) (replace a s pos n) (replace b s pos n)) ∧
    (∀ buf pos n, LbRel false (opt a buf pos n) (opt b buf pos n)) ∧
    (∀ buf x y, ORel (LbRel false) (Lbuf.edit a buf x y) (Lbuf.edit b buf x y)) ∧
    ORel (PRel (LbRel false)) (Lbuf.undo a) (Lbuf.undo b) ∧ ORel (PRel (LbRel false)) (Lbuf.redo a) (Lbuf.redo b) ∧
    ((modified a).1 = (modified b).1 ∧ LbRel false (modified a).2 (modified b).2) ∧
    (∀ c, LbRel false (savedCore a c) (savedCore b c)) ∧ LbRel false (unsavedMark a) (unsavedMark b) ∧
    (∀ p d, LbRel false (globSet a p d) (globSet b p d)) ∧
    (∀ p d, (globGet a p d).1 = (globGet b p d).1 ∧ LbRel false (globGet a p d).2 (globGet b p d).2) ∧
    (∀ x y, cp a x y = cp b x y) ∧
    (∀ chunks fe x y, ORel (PRel (LbRel false)) (rd a chunks fe x y) (rd b chunks fe x y)) :=
  ⟨fun c p o => setMark_rel h c p o, jump_rel h, replace_rel h, opt_rel h, edit_rel h, undo_rel h, redo_rel h,
    modified_rel h, savedCore_rel h, unsavedMark_rel h, globSet_rel h, globGet_rel h, cp_rel h, rd_rel h⟩

/-- **the `ex` layer**: `ex_command(ln)` on related states fails on both or returns the same code in related states
— for every command line and every fuel: all handlers of the dispatcher, `|`-lists, `:g` / `:v`, `:@`, `:e +cmd`,
`:w`, `:q`, `:b`, the buffer table (`bufs_switch` bumps the counter of the buffer that is left) -/
theorem ex_command_respects (f : Nat) (a b : Ed) (h : EdRel false a b) (ln : Bytes) :
    RRel (exCommand f a ln) (exCommand f b ln) := exCommand_rel_all f h ln

/-- the dispatcher, handler by handler -/
theorem ex_handler_respects (f : Nat) (a b : Ed) (h : EdRel false a b) (hd : String) (loc cmd arg : Bytes)
    (txt : Option Bytes) : RRel (runCmd f a hd loc cmd arg txt) (runCmd f b hd loc cmd arg txt) :=
  (all_rel f).2.2.1 a b hd loc cmd arg txt h

/-- **one iteration of `vi()`** on related states: both runs are out of keys, both trap, or both end in related
states — every motion, operator, insert, put, join, replace, scroll, `u`, `^R`, `:` (the `ex` layer), `.`, `@` -/
theorem vi_step_respects (s t : VS) (h : Sim false s t) :
    (∃ s' t', viStep s = Res.ok () s' ∧ viStep t = Res.ok () t' ∧ Sim false s' t') ∨
    (viStep s = Res.eof ∧ viStep t = Res.eof) ∨ (viStep s = Res.trap ∧ viStep t = Res.trap) :=
  viStep_cases s t h

/-- **whole runs**: after `n` iterations both runs have stopped, or the states are related -/
theorem run_respects (n : Nat) (s t : VS) (h : Sim false s t) : ORel (Sim false) (iterate n s) (iterate n t) :=
  iterate_sim n s t h

/-! ## 3. the unary reading: the numbers stay below the counters -/

/-- in every state a run reaches from a state whose sequence numbers lie below the counters (e.g. an empty buffer
table, or buffers made by `lbuf_make`), the sequence numbers of every buffer lie below its counter -/
theorem seq_numbers_bounded (n : Nat) (s s' : VS) (h : EdSeqOk s.ed) (hr : iterate n s = some s') : EdSeqOk s'.ed :=
  seqOk_iterate n h hr

/-- a fresh line buffer, and an empty buffer table, have the property -/
theorem seq_numbers_initial : SeqOk Lbuf.make ∧ ∀ ed : Ed, ed.bufs = List.replicate Gen.NBUFS none → EdSeqOk ed :=
  ⟨seqOk_make, edSeqOk_empty⟩

/-- **between two commands** — after an iteration of `vi()` that went through its end (a motion or a command was
executed: `stepMid` returned `some mod`; the editor is not quitting) — the numbers of the current buffer lie
*strictly* below its counter (the last thing the iteration did was `lbuf_modified(xb)`, twice), those of the other
buffers below theirs, and no output is waiting: two of the hypotheses of `dot_retyped_observable` -/
theorem between_commands (s0 s1 X s : VS) (mv r o : Int) (mod : Nat) (h0 : EdSeqOk s0.ed)
    (hpre : viPre s0 = Res.ok (mv, r, o) s1) (hmid : Lemmas.C09b.stepMid mv r o s1 = Res.ok (some mod) X)
    (hq : X.ed.xquit = false) (hs : viStep s0 = Res.ok () s) : DotSeqOk s.ed ∧ s.ed.out = [] :=
  boundary_ok s0 s1 X s mv r o mod h0 hpre hmid hq hs

/-! ## 4. `.` against retyping -/

/-- **the iteration that executes `.`**, as a function of the state: the recorded keys are pushed; in `ed` the mark
`^` is set, `vi_wfix()` and the horizontal scroll run, pending output is dropped, the counter is bumped twice -/
theorem dot_iteration (s : VS) (rest : Bytes) (hinv : Inv s) (hv : s.vibuf = []) (hd : s.ibuf.length ≤ s.ibufPos)
    (ht : s.typed = 46 :: rest) (hout : nlCount s.ed.out ≤ 1) (hq : s.ed.xquit = false) :
    viStep s = Res.ok () (dotState s rest) := dot_iter s rest hinv hv hd ht hout hq

/-- **the state after `.`, with the pushed keys typed instead, is related to the state before the `.` with the recorded
keys typed** — up to the sequence numbers (the counter of the current buffer is two ahead) and the mark `^` -/
theorem dot_state_related (s : VS) (rest keys : Bytes) (hv : s.vibuf = []) (hout : s.ed.out = []) (hseq : DotSeqOk s.ed)
    (hset : DotSettled s rest) : Sim true (retype (dotState s rest) keys) (typedAt s keys) :=
  dot_sim s rest keys hv hout hseq hset

/-- **the mark `^` is overwritten before it is read**: from states that differ in the mark `^` (and the sequence
numbers), an iteration that is a command ends in fully related states -/
theorem command_iteration_forgets_caret (x y : VS) (h : Sim true x y) (hc : cmdFirst y = true) :
    RR false NoEsc (viStep x) (viStep y) := viStep_weak h hc

/-- `viPre` overwrites `arg1`, `arg2`, `ybuf`, `icmd` before it reads them and, with nothing pushed unread, refills
`ibuf`: the iteration that starts with `keys` typed does not depend on them -/
theorem typed_state_normal (s : VS) (keys : Bytes) (hv : s.vibuf = []) (hd : s.ibuf.length ≤ s.ibufPos) :
    viStep { s with typed := keys } = viStep (typedAt s keys) := viStep_typed s keys hv hd

/-- **`dot_retyped_observable`.**  `s`: a state at the start of an iteration with the invariants of the key queue
(`Inv`, C09b: every reachable state), an empty push-back stack, nothing pushed unread, `.` followed by `rest` at the
terminal, no output waiting, not quitting; the sequence numbers as they are between two commands (`DotSeqOk`:
`between_commands`); `vi_wfix()` with nothing to fix (`DotSettled`); the recorded keys start a command (`cmdFirst`: what
is recorded is a command with its count and register prefix); and the proviso `runOk` of C09b along the `.` run.
Then the run on `. rest` after `k + 1` iterations and the run on `recorded rest` after `k` iterations have both
stopped, or have reached states `a`, `b` with `EdRel true a.ed b.ed` — and `EdRel false a.ed b.ed` when `k ≥ 1`. -/
theorem dot_retyped_observable (s : VS) (rest : Bytes) (k : Nat) (hinv : Inv s) (hv : s.vibuf = [])
    (hd : s.ibuf.length ≤ s.ibufPos) (ht : s.typed = 46 :: rest) (hout : s.ed.out = []) (hq : s.ed.xquit = false)
    (hseq : DotSeqOk s.ed) (hset : DotSettled s rest)
    (hcmd : cmdFirst { s with typed := s.repCmd ++ rest } = true) (hok : runOk (k + 1) s = true) :
    match iterate (k + 1) s, iterate k { s with typed := s.repCmd ++ rest } with
    | some a, some b => EdRel true a.ed b.ed ∧ (0 < k → EdRel false a.ed b.ed)
    | none, none => True
    | _, _ => False :=
  dot_retyped s rest k hinv hv hd ht hout hq hseq hset hcmd hok

/-- **the literal form of C09** — the conclusion of `C09b.dot_retyped_observable_full`, and more: same text, cursor,
registers, dirty flag, buffer names, window; for `k ≥ 1` also the same marks -/
theorem dot_retyped_same_text (s : VS) (rest : Bytes) (k : Nat) (hinv : Inv s) (hv : s.vibuf = [])
    (hd : s.ibuf.length ≤ s.ibufPos) (ht : s.typed = 46 :: rest) (hout : s.ed.out = []) (hq : s.ed.xquit = false)
    (hseq : DotSeqOk s.ed) (hset : DotSettled s rest)
    (hcmd : cmdFirst { s with typed := s.repCmd ++ rest } = true) (hok : runOk (k + 1) s = true) :
    match iterate (k + 1) s, iterate k { s with typed := s.repCmd ++ rest } with
    | some a, some b => lines a = lines b ∧ a.ed.xrow = b.ed.xrow ∧ a.ed.xoff = b.ed.xoff ∧ a.ed.regs = b.ed.regs ∧
        a.ed.lb.map (fun l => (modified l).1) = b.ed.lb.map (fun l => (modified l).1) ∧
        a.ed.bufs.map (Option.map (·.path)) = b.ed.bufs.map (Option.map (·.path)) ∧
        (0 < k → a.ed.lb.map (·.mark) = b.ed.lb.map (·.mark) ∧ a.ed.lb.map (·.markOff) = b.ed.lb.map (·.markOff))
    | none, none => True
    | _, _ => False :=
  dot_retyped_text s rest k hinv hv hd ht hout hq hseq hset hcmd hok

/-- **`DotSettled` from a condition on the state alone**: `vi_wfix()` would put the cursor row, the top row and the
column where they are, and the sticky column is inside the horizontal window (`Settled`, decidable) -/
theorem dot_settled_of_settled (s : VS) (rest : Bytes) (h : Settled s) : DotSettled s rest :=
  dotSettled_of_settled s rest h

/-- **`dot_retyped_observable` between two commands.**  `s` is the state after an iteration of `vi()` that went
through its end (`stepMid` returned `some mod`, not quitting), started in a state `s0` whose sequence numbers lie below
the counters (every state reached from a fresh buffer table: `seq_numbers_bounded`); `vi_wfix()` has nothing to do in
`s`; `.` followed by `rest` is typed, nothing pushed is unread.  Then `. rest` and `recorded rest` end alike. -/
theorem dot_retyped_between_commands (s0 s1 X s : VS) (mv r o : Int) (mod : Nat) (rest : Bytes) (k : Nat)
    (h0 : EdSeqOk s0.ed) (hpre : viPre s0 = Res.ok (mv, r, o) s1)
    (hmid : Lemmas.C09b.stepMid mv r o s1 = Res.ok (some mod) X) (hqX : X.ed.xquit = false)
    (hs : viStep s0 = Res.ok () s) (hinv : Inv s) (hv : s.vibuf = []) (hd : s.ibuf.length ≤ s.ibufPos)
    (ht : s.typed = 46 :: rest) (hq : s.ed.xquit = false) (hset : Settled s)
    (hcmd : cmdFirst { s with typed := s.repCmd ++ rest } = true) (hok : runOk (k + 1) s = true) :
    match iterate (k + 1) s, iterate k { s with typed := s.repCmd ++ rest } with
    | some a, some b => EdRel true a.ed b.ed ∧ (0 < k → EdRel false a.ed b.ed)
    | none, none => True
    | _, _ => False :=
  dot_retyped_between s0 s1 X s mv r o mod rest k h0 hpre hmid hqX hs hinv hv hd ht hq hset hcmd hok

/-! ## 5. what is false -/

/-- **`C09b.dot_retyped_observable_full` is false as stated.**  Its `Reachable` starts from an arbitrary `ed`.  Start:
one line `abcd`, counter 1, one undo record (restoring `zabcd`) numbered 5 — above the counter.  Keys `x u`, then `. u`
against `x u`: retyped, the second `x` is numbered 5 as well and `u` undoes both records (`zabcd`); after `.` the
counter has moved on to 7 and `u` undoes only the `x` (`abcd`).  No run of the editor from a fresh buffer table
produces such a record (`seq_numbers_bounded`); the hypothesis `DotSeqOk` of `dot_retyped_observable` excludes it. -/
theorem dot_retyped_observable_full_is_false : ¬ Neatvi.Props.C09b.dot_retyped_observable_full := full_is_false

/-- **right after the `.` the mark `^` does differ** (keys `x l .` on `abcd`): `.` has set it at the cursor, the state
with the recorded keys typed instead still has it where the first `x` was given.  Hence `EdRel true` for `k = 0`. -/
theorem caret_differs_after_dot :
    (match iterate 2 cInit with
     | some s => (match iterate 1 s with
        | some a => decide ((a.ed.lb.bind fun lb => jump lb 94) ≠ (s.ed.lb.bind fun lb => jump lb 94))
        | none => false)
     | none => false) = true := Lemmas.C09c.caret_differs_after_dot

/-! ## 6. the hypotheses are satisfiable -/

section Examples

/-- the state after `x` on the two lines `abcd`, `ef`, with `. u j` waiting at the terminal, satisfies every hypothesis
of `dot_retyped_observable` (with `k = 2`, the recorded change `x`) -/
example : ∃ s : VS, Inv s ∧ s.vibuf = [] ∧ s.ibuf.length ≤ s.ibufPos ∧ s.typed = 46 :: [117, 106] ∧ s.ed.out = [] ∧
    s.ed.xquit = false ∧ DotSeqOk s.ed ∧ DotSettled s [117, 106] ∧
    cmdFirst { s with typed := s.repCmd ++ [117, 106] } = true ∧ runOk (2 + 1) s = true ∧ s.repCmd = [120] :=
  hypotheses_satisfiable

/-- … so the theorem applies to it: `. u j` and `x u j` end alike -/
example : ∃ s : VS, s.repCmd = [120] ∧
    match iterate (2 + 1) s, iterate 2 { s with typed := s.repCmd ++ [117, 106] } with
    | some a, some b => EdRel true a.ed b.ed ∧ (0 < 2 → EdRel false a.ed b.ed)
    | none, none => True
    | _, _ => False :=
  let ⟨s, h1, h2, h3, h4, h5, h6, h7, h8, h9, h10, h11⟩ := hypotheses_satisfiable
  ⟨s, h11, dot_retyped_observable s [117, 106] 2 h1 h2 h3 h4 h5 h6 h7 h8 h9 h10⟩

/-- `renumbering_is_related`: shifting every number from 3 on by 2 (what `.` does to the numbers handed out after it)
on a buffer with counter 4 and undo records numbered 1, 3, 3 -/
example : LbRel false exLb (renumber (fun n => if n < 3 then n else n + 2) exLb) :=
  renumbering_is_related _ _ exLb_seqOk exShift_order

/-- the state after `x` on `abcd` / `ef` is `Settled` -/
example : (match iterate 1 gInit with | some s => decide (Settled s) | none => false) = true := gSettled

/-- `vi_step_respects` / `run_respects`: a state is related to itself when its numbers lie below the counters -/
example (n : Nat) : ORel (Sim false) (iterate n gInit) (iterate n gInit) :=
  run_respects n gInit gInit (sim_refl gInit gInit_seqOk)

end Examples

end Neatvi.Props.C09c
