import NeatviVerif.Lemmas.C10Rep
import NeatviVerif.Lemmas.C10Eval
import NeatviVerif.Lemmas.C10Bt
import NeatviVerif.Lemmas.C10Cuts
/-!
# C10: the regex VM is sound for a declarative matching relation

* `Matches subj flg ngrps t r r'`: declarative semantics of the parse tree on states `(pos, marks)`.
* `vm_sound`: every successful run of the VM through the code emitted for `t` passes through the
  exit address of that code in a state `r` with `Matches … t (pos, m) r`.
* `regcomp_sound`: whole programs as `regcomp` lays them out.
* `leftmost_vm`: `execLoop` reports the first start position whose VM run succeeds.
* `groups_nested`: positions move forward, marks written lie inside the span, other marks are kept.
-/
namespace Neatvi.Props.C10
open Neatvi Neatvi.Regex Neatvi.Lemmas.C10

mutual
/-- `Matches subj flg ngrps t r r'`: the tree `t` can take the state `r = (pos, marks)` to `r'`, i.e.
    the bytes between the two positions are a string the expression really matches in the context of
    the whole subject (anchors, word boundaries, case folding and classes are judged by `atomMatch`
    on the whole subject), and `r'.2` records, for every group that took part, the span of its last
    occurrence. -/
inductive Matches (subj : Bytes) (flg ngrps : Nat) : RNode → Nat × Marks → Nat × Marks → Prop
  | nul (r : Nat × Marks) : Matches subj flg ngrps RNode.nul r r
  | cat {a b : RNode} {r s r' : Nat × Marks} :
      Matches subj flg ngrps a r s → Matches subj flg ngrps b s r' →
      Matches subj flg ngrps (RNode.cat a b) r r'
  | altl {a b : RNode} {r r' : Nat × Marks} :
      Matches subj flg ngrps a r r' → Matches subj flg ngrps (RNode.alt a b) r r'
  | altr {a b : RNode} {r r' : Nat × Marks} :
      Matches subj flg ngrps b r r' → Matches subj flg ngrps (RNode.alt a b) r r'
  | atom {a : Atom} {mn mx : Int} {k : Nat} {r r' : Nat × Marks} :
      RepOk mn mx k → Iter subj flg ngrps (RNode.atom a mn mx) k r r' →
      Matches subj flg ngrps (RNode.atom a mn mx) r r'
  | grp {a : RNode} {g : Nat} {mn mx : Int} {k : Nat} {r r' : Nat × Marks} :
      RepOk mn mx k → Iter subj flg ngrps (RNode.grp a g mn mx) k r r' →
      Matches subj flg ngrps (RNode.grp a g mn mx) r r'
/-- one copy of the body of a repeated node (the counts of the node play no role) -/
inductive One (subj : Bytes) (flg ngrps : Nat) : RNode → Nat × Marks → Nat × Marks → Prop
  | atom {a : Atom} {mn mx : Int} {pos pos' : Nat} {m : Marks} :
      atomMatch a subj flg pos = AR.ok pos' →
      One subj flg ngrps (RNode.atom a mn mx) (pos, m) (pos', m)
  | grp {a : RNode} {g : Nat} {mn mx : Int} {pos pos' : Nat} {m m' : Marks} :
      Matches subj flg ngrps a (pos, setMk ngrps m (2 * g) pos) (pos', m') →
      One subj flg ngrps (RNode.grp a g mn mx) (pos, m) (pos', setMk ngrps m' (2 * g + 1) pos')
/-- `k` successive copies -/
inductive Iter (subj : Bytes) (flg ngrps : Nat) : RNode → Nat → Nat × Marks → Nat × Marks → Prop
  | zero (t : RNode) (r : Nat × Marks) : Iter subj flg ngrps t 0 r r
  | succ {t : RNode} {k : Nat} {r s r' : Nat × Marks} :
      One subj flg ngrps t r s → Iter subj flg ngrps t k s r' → Iter subj flg ngrps t (k + 1) r r'
end

theorem iter_of_iterR {subj : Bytes} {flg ngrps : Nat} {t : RNode} {k : Nat} : ∀ {r r' : St},
    IterR (One subj flg ngrps t) k r r' → Iter subj flg ngrps t k r r' := by
  induction k with
  | zero => intro r r' h; cases h; exact Iter.zero t r
  | succ k ih => intro r r' h; cases h with | succ h1 h2 => exact Iter.succ h1 (ih h2)

theorem iterR_of_iter {subj : Bytes} {flg ngrps : Nat} {t : RNode} {k : Nat} : ∀ {r r' : St},
    Iter subj flg ngrps t k r r' → IterR (One subj flg ngrps t) k r r' := by
  induction k with
  | zero => intro r r' h; cases h; exact IterR.zero r
  | succ k ih => intro r r' h; cases h with | succ h1 h2 => exact IterR.succ h1 (ih h2)

/-! ### soundness of the emitted code -/
section sound
variable {cx : Ctx}

theorem body_atom (a : Atom) (mn mx : Int) :
    BodySound cx (fun _ => [Inst.atom a]) 1 (One cx.subj cx.flg cx.ngrps (RNode.atom a mn mx)) := by
  refine ⟨fun _ => rfl, ?_⟩
  intro pre post b hb hp dep pos m cuts p' m' c' hr
  have hi : cx.prog[b]? = some (Inst.atom a) := by
    rw [hb]; exact get_mid (q := post) hp
  rw [loop_atom cx hi] at hr
  split at hr
  · cases hr
  · cases hr
  · rename_i pos' hm
    exact ⟨(pos', m), dep, cuts, One.atom hm, Nat.le_refl _, hr⟩

theorem body_grp (a : RNode) (g : Nat) (mn mx : Int)
    (iha : ∀ (pre post : List Inst) (base : Nat), base = pre.length →
      cx.prog = pre ++ emit a base ++ post → ∀ e, e = base + emitLen a →
      SegSound cx (Matches cx.subj cx.flg cx.ngrps a) base e) :
    BodySound cx (fun b => [Inst.mark (2 * g)] ++ emit a (b + 1) ++ [Inst.mark (2 * g + 1)])
      (emitLen a + 2) (One cx.subj cx.flg cx.ngrps (RNode.grp a g mn mx)) := by
  refine ⟨fun b => by simp [emit_length], ?_⟩
  intro pre post b hb hp dep pos m cuts p' m' c' hr
  have h1 : cx.prog[b]? = some (Inst.mark (2 * g)) := by
    rw [hb]
    exact get_mid (q := emit a (b + 1) ++ [Inst.mark (2 * g + 1)] ++ post)
      (by simp [hp, List.append_assoc])
  have h2 : cx.prog[b + 1 + emitLen a]? = some (Inst.mark (2 * g + 1)) := by
    have := get_mid (prog := cx.prog) (p := pre ++ [Inst.mark (2 * g)] ++ emit a (b + 1))
      (x := Inst.mark (2 * g + 1)) (q := post) (by simp [hp, List.append_assoc])
    rw [show (pre ++ [Inst.mark (2 * g)] ++ emit a (b + 1)).length = b + 1 + emitLen a by
      simp [emit_length, hb]; omega] at this
    exact this
  rw [loop_mark cx h1] at hr
  obtain ⟨r, d, c, hR, hd, hc⟩ := iha (pre ++ [Inst.mark (2 * g)]) ([Inst.mark (2 * g + 1)] ++ post)
    (b + 1) (by simp [hb]) (by simp [hp, List.append_assoc]) _ rfl _ _ _ _ _ _ _ hr
  rw [loop_mark cx h2] at hc
  refine ⟨(r.1, setMk cx.ngrps r.2 (2 * g + 1) r.1), d, c, One.grp hR, hd, ?_⟩
  rw [show b + (emitLen a + 2) = b + 1 + emitLen a + 1 by omega]
  exact hc

/-- soundness of the code emitted for a tree, as a segment of any program -/
theorem seg_sound (t : RNode) : ∀ (pre post : List Inst) (base : Nat), base = pre.length →
    cx.prog = pre ++ emit t base ++ post → ∀ e, e = base + emitLen t →
    SegSound cx (Matches cx.subj cx.flg cx.ngrps t) base e := by
  induction t with
  | nul =>
    intro pre post base _ _ e he
    rw [show e = base by simp [emitLen] at he; omega]
    exact SegSound.refl cx (fun r => Matches.nul r) base
  | atom a mn mx =>
    intro pre post base hb hp e he
    exact (seg_rep (body_atom a mn mx) mn mx pre post base hb hp e he).mono cx
      (fun r r' ⟨k, hk, h⟩ => Matches.atom hk (iter_of_iterR h))
  | cat a b iha ihb =>
    intro pre post base hb hp e he
    have h1 := iha pre (emit b (base + emitLen a) ++ post) base hb
      (by simp [hp, emit, List.append_assoc]) _ rfl
    have h2 := ihb (pre ++ emit a base) post (base + emitLen a) (by simp [emit_length, hb])
      (by simp [hp, emit, List.append_assoc]) e (by simp [emitLen] at he; omega)
    exact SegSound.comp cx h1 h2 (fun _ _ _ x y => Matches.cat x y)
  | alt a b iha ihb =>
    intro pre post base hb hp e he
    have he' : e = base + 1 + emitLen a + 1 + emitLen b := by simp [emitLen] at he; omega
    have hf : cx.prog[base]? = some (Inst.fork (base + 1) (base + 1 + emitLen a + 1)) := by
      have := get_mid (prog := cx.prog) (p := pre)
        (x := Inst.fork (base + 1) (base + 1 + emitLen a + 1))
        (q := emit a (base + 1) ++ [Inst.jump (base + 1 + emitLen a + 1 + emitLen b)] ++
          emit b (base + 1 + emitLen a + 1) ++ post)
        (by simp [hp, emit, List.append_assoc])
      rw [← hb] at this; exact this
    have hj : cx.prog[base + 1 + emitLen a]? = some (Inst.jump (base + 1 + emitLen a + 1 + emitLen b)) := by
      have := get_mid (prog := cx.prog)
        (p := pre ++ [Inst.fork (base + 1) (base + 1 + emitLen a + 1)] ++ emit a (base + 1))
        (x := Inst.jump (base + 1 + emitLen a + 1 + emitLen b))
        (q := emit b (base + 1 + emitLen a + 1) ++ post)
        (by simp [hp, emit, List.append_assoc])
      rw [show (pre ++ [Inst.fork (base + 1) (base + 1 + emitLen a + 1)] ++ emit a (base + 1)).length
        = base + 1 + emitLen a by simp [emit_length, hb]; omega] at this
      exact this
    have ha := iha (pre ++ [Inst.fork (base + 1) (base + 1 + emitLen a + 1)])
      ([Inst.jump (base + 1 + emitLen a + 1 + emitLen b)] ++ emit b (base + 1 + emitLen a + 1) ++ post)
      (base + 1) (by simp [hb]) (by simp [hp, emit, List.append_assoc]) _ rfl
    have hbb := ihb (pre ++ [Inst.fork (base + 1) (base + 1 + emitLen a + 1)] ++ emit a (base + 1) ++
        [Inst.jump (base + 1 + emitLen a + 1 + emitLen b)]) post (base + 1 + emitLen a + 1)
      (by simp [emit_length, hb]; omega) (by simp [hp, emit, List.append_assoc]) e (by omega)
    intro dep pos m cuts p' m' c' hr
    rcases fork_ok cx hf hr with ⟨_, hl⟩ | ⟨c'', hl⟩
    · obtain ⟨r, d, c, hR, hd, hc⟩ := ha _ _ _ _ _ _ _ hl
      rw [loop_jump cx hj] at hc
      split at hc
      · exact ⟨r, d, c, Matches.altl hR, by omega, by rw [he']; exact hc⟩
      · cases hc
    · obtain ⟨r, d, c, hR, hd, hc⟩ := hbb _ _ _ _ _ _ _ hl
      exact ⟨r, d, c, Matches.altr hR, hd, hc⟩
  | grp a g mn mx iha =>
    intro pre post base hb hp e he
    exact (seg_rep (body_grp a g mn mx iha) mn mx pre post base hb hp e he).mono cx
      (fun r r' ⟨k, hk, h⟩ => Matches.grp hk (iter_of_iterR h))

/-- **vm_sound**: a successful run of the VM that enters the code emitted for `t` (anywhere in a
    program) passes through the exit address of that code, at a depth that is not smaller, in a
    state `r` such that `t` takes the entry state to `r`; the rest of the run produces the result. -/
theorem vm_sound (t : RNode) (pre post : List Inst) (base : Nat) (hb : base = pre.length)
    (hp : cx.prog = pre ++ emit t base ++ post) (dep pos : Nat) (m : Marks) (cuts : Nat)
    (p' : Nat) (m' : Marks) (c' : Nat)
    (h : loop cx dep base pos m cuts = Res.ok p' m' c') :
    ∃ r : Nat × Marks, Matches cx.subj cx.flg cx.ngrps t (pos, m) r ∧
      ∃ dep' cuts', dep ≤ dep' ∧ loop cx dep' (base + emitLen t) r.1 r.2 cuts' = Res.ok p' m' c' := by
  obtain ⟨r, d, c, hR, hd, hc⟩ := seg_sound t pre post base hb hp _ rfl dep pos m cuts p' m' c' h
  exact ⟨r, hR, d, c, hd, hc⟩

/-- the marks `re_recmatch` starts from -/
def marks0 (ngrps : Nat) : Marks := List.replicate (2 * ngrps) (-1)

/-- **regcomp_sound** (general form): for a program laid out as `regcomp` does, a successful
    `recmatch` at `start` reports a position `p` and marks `m` such that the tree takes
    `(start, marks with mark 0 set)` to `(p, m1)` and `m` is `m1` with mark 1 set to `p`. -/
theorem regcomp_sound' (t : RNode)
    (hp : cx.prog = [Inst.mark 0] ++ emit t 1 ++ [Inst.mark 1, Inst.mtch])
    (start cuts p : Nat) (m : Marks) (c : Nat) (h : recmatch cx start cuts = Res.ok p m c) :
    ∃ m1, Matches cx.subj cx.flg cx.ngrps t
        (start, setMk cx.ngrps (marks0 cx.ngrps) 0 start) (p, m1) ∧
      m = setMk cx.ngrps m1 1 p := by
  unfold recmatch at h
  obtain ⟨_, hl⟩ := act_ok cx h
  have h0 : cx.prog[0]? = some (Inst.mark 0) := by rw [hp]; rfl
  have h1 : cx.prog[1 + emitLen t]? = some (Inst.mark 1) := by
    have := get_mid (prog := cx.prog) (p := [Inst.mark 0] ++ emit t 1) (x := Inst.mark 1)
      (q := [Inst.mtch]) (by simp [hp, List.append_assoc])
    rw [show ([Inst.mark 0] ++ emit t 1).length = 1 + emitLen t by simp [emit_length]; omega] at this
    exact this
  have h2 : cx.prog[1 + emitLen t + 1]? = some Inst.mtch := by
    have := get_mid (prog := cx.prog) (p := [Inst.mark 0] ++ emit t 1 ++ [Inst.mark 1]) (x := Inst.mtch)
      (q := []) (by simp [hp, List.append_assoc])
    rw [show ([Inst.mark 0] ++ emit t 1 ++ [Inst.mark 1]).length = 1 + emitLen t + 1 by
      simp [emit_length]; omega] at this
    exact this
  rw [loop_mark cx h0] at hl
  obtain ⟨r, hR, d, c2, _, hc⟩ := vm_sound t [Inst.mark 0] [Inst.mark 1, Inst.mtch] 1 rfl hp _ _ _ _ _ _ _ hl
  rw [loop_mark cx h1, loop_mtch cx h2] at hc
  injection hc with e1 e2 e3
  subst e1
  exact ⟨r.2, hR, e2.symm⟩

/-- **regcomp_sound**: with marks 0 and 1 in range (`1 < ngrps`, as `regexec` runs the VM), the
    reported whole-match span `[start, p]` is a string the expression really matches, and the
    reported group marks are those of that parse. -/
theorem regcomp_sound (t : RNode)
    (hp : cx.prog = [Inst.mark 0] ++ emit t 1 ++ [Inst.mark 1, Inst.mtch]) (hg : 1 < cx.ngrps)
    (start cuts p : Nat) (m : Marks) (c : Nat) (h : recmatch cx start cuts = Res.ok p m c) :
    ∃ m1, Matches cx.subj cx.flg cx.ngrps t
        (start, (marks0 cx.ngrps).set 0 (start : Int)) (p, m1) ∧
      m = m1.set 1 (p : Int) := by
  obtain ⟨m1, h1, h2⟩ := regcomp_sound' t hp start cuts p m c h
  refine ⟨m1, ?_, ?_⟩
  · simpa [setMk, show 0 < cx.ngrps by omega] using h1
  · simpa [setMk, hg] using h2

end sound

/-! ### the start-position loop -/

/-- `FailsUntil cx s0 c0 s c`: the start positions tried from `s0` (steps of `rxLen`) strictly before
    `s` all had `recmatch` fail; `c0`, `c` are the cut counters threaded through -/
inductive FailsUntil (cx : Ctx) : Nat → Nat → Nat → Nat → Prop
  | here (s c : Nat) : FailsUntil cx s c s c
  | step {s c c' s' c'' : Nat} : recmatch cx s c = Res.fail c' →
      FailsUntil cx (s + rxLen cx.subj s) c' s' c'' → FailsUntil cx s c s' c''

/-- **leftmost_vm**: `execLoop` reports the marks of the VM run at the first start position tried
    (from `start0`, advancing by `rxLen`) whose `recmatch` succeeds: all start positions tried before
    it returned `fail`. -/
theorem leftmost_vm (cx : Ctx) : ∀ (f start0 cuts0 : Nat) (m : Marks) (c : Nat),
    execLoop cx f start0 cuts0 = ExecRes.found m c →
    ∃ s cuts p, FailsUntil cx start0 cuts0 s cuts ∧ recmatch cx s cuts = Res.ok p m c := by
  intro f
  induction f with
  | zero => intro start0 cuts0 m c h; simp [execLoop] at h
  | succ f ih =>
    intro start0 cuts0 m c h
    rw [execLoop] at h
    split at h
    · cases h
    · split at h
      · rename_i p1 m1 c1 hrec
        injection h with e1 e2
        subst e1; subst e2
        exact ⟨start0, cuts0, p1, FailsUntil.here _ _, hrec⟩
      · cases h
      · rename_i c1 hrec
        split at h
        · cases h
        · obtain ⟨s, cuts, p, hf, hr⟩ := ih _ _ _ _ h
          exact ⟨s, cuts, p, FailsUntil.step hrec hf, hr⟩

/-- `NoRunUntil cx s0 s`: no start position tried from `s0` (steps of `rxLen`) strictly before `s`
    has a successful VM run, whatever the cut counter it is started with -/
inductive NoRunUntil (cx : Ctx) : Nat → Nat → Prop
  | here (s : Nat) : NoRunUntil cx s s
  | step {s s' : Nat} : (∀ cuts, ∃ c, recmatch cx s cuts = Res.fail c) →
      NoRunUntil cx (s + rxLen cx.subj s) s' → NoRunUntil cx s s'

theorem noRun_of_fails {cx : Ctx} {s0 c0 s c : Nat} (h : FailsUntil cx s0 c0 s c) : NoRunUntil cx s0 s := by
  induction h with
  | here s c => exact NoRunUntil.here s
  | step hf _ ih => exact NoRunUntil.step (fun cuts => recmatch_fail_any cx hf cuts) ih

/-- **leftmost_vm**, in the form independent of the cut counter: no start position tried before
    the reported one has a successful VM run. -/
theorem leftmost_vm_strong (cx : Ctx) (f start0 cuts0 : Nat) (m : Marks) (c : Nat)
    (h : execLoop cx f start0 cuts0 = ExecRes.found m c) :
    ∃ s cuts p, NoRunUntil cx start0 s ∧ recmatch cx s cuts = Res.ok p m c := by
  obtain ⟨s, cuts, p, hf, hr⟩ := leftmost_vm cx f start0 cuts0 m c h
  exact ⟨s, cuts, p, noRun_of_fails hf, hr⟩

/-- **regexec_sound** (end to end): if `regcomp` accepts the pattern and `regexec` reports a match
    with marks `m`, then the pattern parsed to a tree `t0`, and for some start position `s` and end
    position `p` the numbered tree really matches the subject from `s` to `p`, the marks reported are
    those of that parse (with marks 0/1 = `s`/`p`), and no start position tried before `s` has a
    successful VM run. -/
theorem regexec_sound {pat : Bytes} {flg : Nat} {prog : Prog} (hc : regcomp pat flg = some (some prog))
    (subj : Bytes) (nsub eflg nd ngrps : Nat) (hg : 1 < ngrps) (m : Marks) (c : Nat)
    (subs : List (Int × Int))
    (hr : regexec prog subj nsub eflg nd ngrps = (ExecRes.found m c, subs)) :
    ∃ t0 s p m1, parse pat = some (some t0) ∧
      Matches subj (prog.flg ||| eflg) ngrps (grpnum t0 1).1 (s, (marks0 ngrps).set 0 (s : Int)) (p, m1) ∧
      m = m1.set 1 (p : Int) ∧
      NoRunUntil ⟨prog.code, subj, prog.flg ||| eflg, nd, ngrps⟩ 0 s := by
  unfold regcomp at hc
  split at hc
  · cases hc
  · cases hc
  · rename_i t0 hparse
    split at hc
    · cases hc
    injection hc with hc; injection hc with hc
    have hcode : prog.code = [Inst.mark 0] ++ emit (grpnum t0 1).1 1 ++ [Inst.mark 1, Inst.mtch] := by
      rw [← hc]
    unfold regexec at hr
    simp only [] at hr
    split at hr
    · cases hr
    · split at hr
      · rename_i m' c' hex
        injection hr with h1 h2
        injection h1 with hm hc'
        subst hm; subst hc'
        obtain ⟨s, cuts, p, hno, hrec⟩ := leftmost_vm_strong _ _ _ _ _ _ hex
        obtain ⟨m1, hM, hm1⟩ := regcomp_sound
          (cx := ⟨prog.code, subj, prog.flg ||| eflg, nd, ngrps⟩) (grpnum t0 1).1 hcode hg s cuts p _ _ hrec
        exact ⟨t0, s, p, m1, hparse, hM, hm1, hno⟩
      · rename_i r hnf
        injection hr with h1 h2
        exact absurd h1 (by intro h; exact hnf m c h)

/-! ### positions move forward; marks lie inside the span -/

theorem chrIcase_le (lit subj : Bytes) : ∀ (f k r p : Nat),
    chrIcase lit subj f k r = AR.ok p → r ≤ p := by
  intro f
  induction f with
  | zero => intro k r p h; simp [chrIcase] at h
  | succ f ih =>
    intro k r p h
    rw [chrIcase] at h
    split at h
    · cases h
    · injection h with h; omega
    · split at h
      · split at h
        · cases h
        · have := ih _ _ _ h; omega
      · cases h

/-- atoms never move backwards -/
theorem atomMatch_le {a : Atom} {subj : Bytes} {flg pos pos' : Nat}
    (h : atomMatch a subj flg pos = AR.ok pos') : pos ≤ pos' := by
  unfold atomMatch at h
  simp only [] at h
  split at h
  · cases h
  · split at h
    · split at h
      · split at h
        · injection h with h; omega
        · cases h
      · exact chrIcase_le _ _ _ _ _ _ h
    all_goals (repeat' split at h)
    all_goals (first | (injection h with h; omega) | cases h)

/-- `Span r r'`: the position did not move backwards, the number of marks is kept, and every mark
    is either unchanged or holds a position inside `[r.1, r'.1]` -/
def Span (r r' : Nat × Marks) : Prop :=
  r.1 ≤ r'.1 ∧ r'.2.length = r.2.length ∧
  ∀ i : Nat, r'.2[i]? = r.2[i]? ∨ ∃ v : Nat, r'.2[i]? = some (v : Int) ∧ r.1 ≤ v ∧ v ≤ r'.1

theorem Span.refl (r : Nat × Marks) : Span r r :=
  ⟨Nat.le_refl _, rfl, fun _ => Or.inl rfl⟩

theorem Span.trans {r s r' : Nat × Marks} (h1 : Span r s) (h2 : Span s r') : Span r r' := by
  obtain ⟨a1, b1, c1⟩ := h1
  obtain ⟨a2, b2, c2⟩ := h2
  refine ⟨by omega, by omega, ?_⟩
  intro i
  rcases c2 i with e2 | ⟨v, e2, l2, u2⟩
  · rcases c1 i with e1 | ⟨v, e1, l1, u1⟩
    · exact Or.inl (e2.trans e1)
    · exact Or.inr ⟨v, e2.trans e1, l1, by omega⟩
  · exact Or.inr ⟨v, e2, by omega, u2⟩

theorem setMk_length (ngrps : Nat) (m : Marks) (k pos : Nat) : (setMk ngrps m k pos).length = m.length := by
  unfold setMk; split <;> simp

theorem setMk_get_ne (ngrps : Nat) (m : Marks) (k pos i : Nat) (h : i ≠ k) :
    (setMk ngrps m k pos)[i]? = m[i]? := by
  unfold setMk; split
  · rw [List.getElem?_set_ne (by omega)]
  · rfl

theorem setMk_get_self (ngrps : Nat) (m : Marks) (k pos : Nat) (h1 : k < ngrps) (h2 : k < m.length) :
    (setMk ngrps m k pos)[k]? = some (pos : Int) := by
  unfold setMk; rw [if_pos h1]; simp [h2]

theorem span_setMk (ngrps : Nat) (m : Marks) (k pos : Nat) : Span (pos, m) (pos, setMk ngrps m k pos) := by
  refine ⟨Nat.le_refl _, setMk_length _ _ _ _, ?_⟩
  intro i
  by_cases hi : i = k
  · subst hi
    by_cases h1 : i < ngrps
    · by_cases h2 : i < m.length
      · exact Or.inr ⟨pos, setMk_get_self _ _ _ _ h1 h2, Nat.le_refl _, Nat.le_refl _⟩
      · left
        show (setMk ngrps m i pos)[i]? = m[i]?
        rw [List.getElem?_eq_none (by rw [setMk_length]; omega), List.getElem?_eq_none (by omega)]
    · left; simp [setMk, h1]
  · exact Or.inl (setMk_get_ne _ _ _ _ _ hi)

/-- the indices of the marks the code of a tree can write -/
def markIdx : RNode → List Nat
  | .nul => []
  | .atom _ _ _ => []
  | .cat a b => markIdx a ++ markIdx b
  | .alt a b => markIdx a ++ markIdx b
  | .grp a g _ _ => (2 * g) :: (2 * g + 1) :: markIdx a

section spans
variable {subj : Bytes} {flg ngrps : Nat}

theorem iter_span {t : RNode} (hone : ∀ r s, One subj flg ngrps t r s → Span r s) :
    ∀ k r r', Iter subj flg ngrps t k r r' → Span r r' := by
  intro k
  induction k with
  | zero => intro r r' h; cases h; exact Span.refl _
  | succ k ih => intro r r' h; cases h with | succ h1 h2 => exact (hone _ _ h1).trans (ih _ _ h2)

theorem iter_frame {t : RNode} {P : Nat → Prop}
    (hone : ∀ r s, One subj flg ngrps t r s → ∀ i, P i → s.2[i]? = r.2[i]?) :
    ∀ k r r', Iter subj flg ngrps t k r r' → ∀ i, P i → r'.2[i]? = r.2[i]? := by
  intro k
  induction k with
  | zero => intro r r' h; cases h; intro _ _; rfl
  | succ k ih =>
    intro r r' h i hi
    cases h with | succ h1 h2 => exact (ih _ _ h2 i hi).trans (hone _ _ h1 i hi)

/-- the last of `k + 1` copies -/
theorem iter_last {t : RNode} : ∀ k r r', Iter subj flg ngrps t (k + 1) r r' →
    ∃ q, Iter subj flg ngrps t k r q ∧ One subj flg ngrps t q r' := by
  intro k
  induction k with
  | zero =>
    intro r r' h
    cases h with | succ h1 h2 => cases h2; exact ⟨r, Iter.zero _ _, h1⟩
  | succ k ih =>
    intro r r' h
    cases h with
    | succ h1 h2 =>
      obtain ⟨q, hq1, hq2⟩ := ih _ _ h2
      exact ⟨q, Iter.succ h1 hq1, hq2⟩

/-- `Matches` never moves backwards, keeps the number of marks, and every mark it changes holds a
    position between the entry and the exit position -/
theorem matches_span (t : RNode) : ∀ r r', Matches subj flg ngrps t r r' → Span r r' := by
  induction t with
  | nul => intro r r' h; cases h; exact Span.refl _
  | atom a mn mx =>
    intro r r' h
    cases h with
    | atom hk hi =>
      refine iter_span ?_ _ _ _ hi
      intro r s h1
      cases h1 with
      | atom hm => exact ⟨atomMatch_le hm, rfl, fun _ => Or.inl rfl⟩
  | cat a b iha ihb =>
    intro r r' h
    cases h with | cat h1 h2 => exact (iha _ _ h1).trans (ihb _ _ h2)
  | alt a b iha ihb =>
    intro r r' h
    cases h with
    | altl h1 => exact iha _ _ h1
    | altr h1 => exact ihb _ _ h1
  | grp a g mn mx iha =>
    intro r r' h
    cases h with
    | grp hk hi =>
      refine iter_span ?_ _ _ _ hi
      intro r s h1
      cases h1 with
      | grp hm => exact ((span_setMk _ _ _ _).trans (iha _ _ hm)).trans (span_setMk _ _ _ _)

/-- marks that are not among `markIdx t` are unchanged -/
theorem matches_frame (t : RNode) : ∀ r r', Matches subj flg ngrps t r r' →
    ∀ i, i ∉ markIdx t → r'.2[i]? = r.2[i]? := by
  induction t with
  | nul => intro r r' h; cases h; intro _ _; rfl
  | atom a mn mx =>
    intro r r' h
    cases h with
    | atom hk hi =>
      refine iter_frame (P := fun i => i ∉ markIdx (RNode.atom a mn mx)) ?_ _ _ _ hi
      intro r s h1 i _
      cases h1 with
      | atom hm => rfl
  | cat a b iha ihb =>
    intro r r' h i hi
    simp only [markIdx, List.mem_append, not_or] at hi
    cases h with | cat h1 h2 => exact (ihb _ _ h2 i hi.2).trans (iha _ _ h1 i hi.1)
  | alt a b iha ihb =>
    intro r r' h i hi
    simp only [markIdx, List.mem_append, not_or] at hi
    cases h with
    | altl h1 => exact iha _ _ h1 i hi.1
    | altr h1 => exact ihb _ _ h1 i hi.2
  | grp a g mn mx iha =>
    intro r r' h
    cases h with
    | grp hk hi =>
      refine iter_frame (P := fun i => i ∉ markIdx (RNode.grp a g mn mx)) ?_ _ _ _ hi
      intro r s h1 i hi
      simp only [markIdx, List.mem_cons, not_or] at hi
      cases h1 with
      | grp hm =>
        show (setMk ngrps _ (2 * g + 1) _)[i]? = _
        rw [setMk_get_ne _ _ _ _ _ hi.2.1, iha _ _ hm i hi.2.2]
        exact setMk_get_ne _ _ _ _ _ hi.1

/-- what one copy `q → r'` of the group `g` with body `a` leaves in the marks -/
structure GrpSpan (ngrps : Nat) (a : RNode) (g : Nat) (q r' : Nat × Marks) : Prop where
  /-- the copy does not move backwards and keeps the number of marks -/
  le : q.1 ≤ r'.1
  len : r'.2.length = q.2.length
  /-- mark `2g+1` is the exit position of the copy -/
  close : 2 * g + 1 < ngrps → 2 * g + 1 < q.2.length → r'.2[2 * g + 1]? = some (r'.1 : Int)
  /-- mark `2g` is the entry position of the copy (no group inside `a` has the same number) -/
  open_ : 2 * g < ngrps → 2 * g < q.2.length → 2 * g ∉ markIdx a → r'.2[2 * g]? = some (q.1 : Int)
  /-- every mark the copy changed (those of the groups inside `a` included) holds a position between
      the entry and the exit position of the copy -/
  inside : ∀ i : Nat, r'.2[i]? = q.2[i]? ∨ ∃ v : Nat, r'.2[i]? = some (v : Int) ∧ q.1 ≤ v ∧ v ≤ r'.1
  /-- marks of other groups are unchanged -/
  frame : ∀ i : Nat, i ≠ 2 * g → i ≠ 2 * g + 1 → i ∉ markIdx a → r'.2[i]? = q.2[i]?

theorem one_grp_span {a : RNode} {g : Nat} {mn mx : Int} {q r' : Nat × Marks}
    (h : One subj flg ngrps (RNode.grp a g mn mx) q r') : GrpSpan ngrps a g q r' := by
  cases h with
  | grp hm =>
    rename_i pos pos' m m'
    have hs := matches_span a _ _ hm
    have hall : Span (pos, m) (pos', setMk ngrps m' (2 * g + 1) pos') :=
      ((span_setMk _ _ _ _).trans hs).trans (span_setMk _ _ _ _)
    have hlen : m'.length = m.length := by
      have := hs.2.1; simp only [setMk_length] at this; exact this
    refine ⟨hall.1, hall.2.1, ?_, ?_, hall.2.2, ?_⟩
    · intro h1 h2
      exact setMk_get_self _ _ _ _ h1 (by rw [hlen]; exact h2)
    · intro h1 h2 h3
      show (setMk ngrps m' (2 * g + 1) pos')[2 * g]? = _
      rw [setMk_get_ne _ _ _ _ _ (by omega), matches_frame a _ _ hm _ h3]
      exact setMk_get_self _ _ _ _ h1 h2
    · intro i h1 h2 h3
      show (setMk ngrps m' (2 * g + 1) pos')[i]? = _
      rw [setMk_get_ne _ _ _ _ _ h2, matches_frame a _ _ hm _ h3]
      exact setMk_get_ne _ _ _ _ _ h1

/-- **groups_nested**: a match of a group node either made no copy (state unchanged) or there is a
    state `q` before the last copy, reached from `r` without moving backwards, such that the last
    copy `q → r'` left marks `2g`, `2g+1` at its entry and exit positions and every mark it changed
    holds a position between them. -/
theorem groups_nested {a : RNode} {g : Nat} {mn mx : Int} {r r' : Nat × Marks}
    (h : Matches subj flg ngrps (RNode.grp a g mn mx) r r') :
    r' = r ∨ ∃ q, Span r q ∧ One subj flg ngrps (RNode.grp a g mn mx) q r' ∧ GrpSpan ngrps a g q r' := by
  cases h with
  | grp hk hi =>
    rename_i k
    cases k with
    | zero => cases hi; exact Or.inl rfl
    | succ k =>
      obtain ⟨q, hq1, hq2⟩ := iter_last _ _ _ hi
      have hone : ∀ r s, One subj flg ngrps (RNode.grp a g mn mx) r s → Span r s :=
        fun r s h => ⟨(one_grp_span h).le, (one_grp_span h).len, (one_grp_span h).inside⟩
      exact Or.inr ⟨q, iter_span hone _ _ _ hq1, hq2, one_grp_span hq2⟩

end spans

/-! ### group numbering: the hypothesis `2 * g ∉ markIdx a` of `GrpSpan.open_` holds for compiled trees -/

theorem markIdx_grpnum (t : RNode) : ∀ n i, i ∈ markIdx (grpnum t n).1 →
    2 * n ≤ i ∧ i < 2 * (n + (grpnum t n).2) := by
  induction t with
  | nul => intro n i h; simp [grpnum, markIdx] at h
  | atom a mn mx => intro n i h; simp [grpnum, markIdx] at h
  | cat a b iha ihb =>
    intro n i h
    simp only [grpnum, markIdx, List.mem_append] at h ⊢
    rcases h with h | h
    · have := iha n i h; omega
    · have := ihb _ i h; omega
  | alt a b iha ihb =>
    intro n i h
    simp only [grpnum, markIdx, List.mem_append] at h ⊢
    rcases h with h | h
    · have := iha n i h; omega
    · have := ihb _ i h; omega
  | grp a g mn mx iha =>
    intro n i h
    simp only [grpnum, markIdx, List.mem_cons] at h ⊢
    rcases h with h | h | h
    · omega
    · omega
    · have := iha _ i h; omega

/-- no group contains a group with its own number -/
def GrpFresh : RNode → Prop
  | .nul => True
  | .atom _ _ _ => True
  | .cat a b => GrpFresh a ∧ GrpFresh b
  | .alt a b => GrpFresh a ∧ GrpFresh b
  | .grp a g _ _ => 2 * g ∉ markIdx a ∧ 2 * g + 1 ∉ markIdx a ∧ GrpFresh a

/-- the trees `regcomp` emits code for are numbered by `grpnum`: every group is fresh in its body -/
theorem grpnum_fresh (t : RNode) : ∀ n, GrpFresh (grpnum t n).1 := by
  induction t with
  | nul => intro n; simp [grpnum, GrpFresh]
  | atom a mn mx => intro n; simp [grpnum, GrpFresh]
  | cat a b iha ihb => intro n; simp only [grpnum, GrpFresh]; exact ⟨iha _, ihb _⟩
  | alt a b iha ihb => intro n; simp only [grpnum, GrpFresh]; exact ⟨iha _, ihb _⟩
  | grp a g mn mx iha =>
    intro n
    simp only [grpnum, GrpFresh]
    refine ⟨?_, ?_, iha _⟩
    · intro h; have := markIdx_grpnum a _ _ h; omega
    · intro h; have := markIdx_grpnum a _ _ h; omega

/-! ### the VM on emitted code is the backtracker on the tree -/
section equation
variable {cx : Ctx}

theorem bodyEq_atom (a : Atom) : BodyEq cx (fun _ => [Inst.atom a]) 1 (btAtom cx a) := by
  refine ⟨fun _ => rfl, btAtom_congr cx a, ?_⟩
  intro pre post b hb hp dep pos m cuts
  have hi : cx.prog[b]? = some (Inst.atom a) := by
    rw [hb]; exact get_mid (q := post) hp
  rw [loop_atom cx hi]
  rfl

theorem bodyEq_grp (a : RNode) (g : Nat)
    (iha : ∀ (pre post : List Inst) (base : Nat), base = pre.length →
      cx.prog = pre ++ emit a base ++ post → ∀ e, e = base + emitLen a →
      SegEq cx (bt cx a) base e) :
    BodyEq cx (fun b => [Inst.mark (2 * g)] ++ emit a (b + 1) ++ [Inst.mark (2 * g + 1)])
      (emitLen a + 2) (btGrp cx (bt cx a) g) := by
  refine ⟨fun b => by simp [emit_length], btGrp_congr cx (bt_congr cx a) g, ?_⟩
  · intro pre post b hb hp dep pos m cuts
    have h1 : cx.prog[b]? = some (Inst.mark (2 * g)) := by
      rw [hb]
      exact get_mid (q := emit a (b + 1) ++ [Inst.mark (2 * g + 1)] ++ post)
        (by simp [hp, List.append_assoc])
    have h2 : cx.prog[b + 1 + emitLen a]? = some (Inst.mark (2 * g + 1)) := by
      have := get_mid (prog := cx.prog) (p := pre ++ [Inst.mark (2 * g)] ++ emit a (b + 1))
        (x := Inst.mark (2 * g + 1)) (q := post) (by simp [hp, List.append_assoc])
      rw [show (pre ++ [Inst.mark (2 * g)] ++ emit a (b + 1)).length = b + 1 + emitLen a by
        simp [emit_length, hb]; omega] at this
      exact this
    rw [loop_mark cx h1]
    rw [iha (pre ++ [Inst.mark (2 * g)]) ([Inst.mark (2 * g + 1)] ++ post)
      (b + 1) (by simp [hb]) (by simp [hp, List.append_assoc]) _ rfl]
    unfold btGrp
    apply bt_congr
    intro d j m' c _
    show loop cx d (b + 1 + emitLen a) j m' c = _
    rw [loop_mark cx h2, show b + (emitLen a + 2) = b + 1 + emitLen a + 1 by omega]

/-- **loop_eq_bt**: on the code emitted for `t` (anywhere in a program) the VM is the
    continuation-passing backtracker `bt` on the tree, continued by the VM at the exit address;
    depth and cut counter are threaded identically. -/
theorem loop_eq_bt (t : RNode) : ∀ (pre post : List Inst) (base : Nat), base = pre.length →
    cx.prog = pre ++ emit t base ++ post → ∀ e, e = base + emitLen t →
    ∀ dep pos m cuts, loop cx dep base pos m cuts =
      bt cx t dep pos m cuts (fun d j m' c' => loop cx d e j m' c') := by
  induction t with
  | nul =>
    intro pre post base _ _ e he dep pos m cuts
    rw [show e = base by simp [emitLen] at he; omega]; rfl
  | atom a mn mx =>
    intro pre post base hb hp e he
    exact eq_rep (bodyEq_atom a) mn mx pre post base hb hp e he
  | cat a b iha ihb =>
    intro pre post base hb hp e he dep pos m cuts
    rw [iha pre (emit b (base + emitLen a) ++ post) base hb
      (by simp [hp, emit, List.append_assoc]) _ rfl]
    simp only [bt]
    apply bt_congr
    intro d j m' c _
    exact ihb (pre ++ emit a base) post (base + emitLen a) (by simp [emit_length, hb])
      (by simp [hp, emit, List.append_assoc]) e (by simp [emitLen] at he; omega) d j m' c
  | alt a b iha ihb =>
    intro pre post base hb hp e he dep pos m cuts
    have he' : e = base + 1 + emitLen a + 1 + emitLen b := by simp [emitLen] at he; omega
    have hf : cx.prog[base]? = some (Inst.fork (base + 1) (base + 1 + emitLen a + 1)) := by
      have := get_mid (prog := cx.prog) (p := pre)
        (x := Inst.fork (base + 1) (base + 1 + emitLen a + 1))
        (q := emit a (base + 1) ++ [Inst.jump (base + 1 + emitLen a + 1 + emitLen b)] ++
          emit b (base + 1 + emitLen a + 1) ++ post)
        (by simp [hp, emit, List.append_assoc])
      rw [← hb] at this; exact this
    have hj : cx.prog[base + 1 + emitLen a]? = some (Inst.jump (base + 1 + emitLen a + 1 + emitLen b)) := by
      have := get_mid (prog := cx.prog)
        (p := pre ++ [Inst.fork (base + 1) (base + 1 + emitLen a + 1)] ++ emit a (base + 1))
        (x := Inst.jump (base + 1 + emitLen a + 1 + emitLen b))
        (q := emit b (base + 1 + emitLen a + 1) ++ post)
        (by simp [hp, emit, List.append_assoc])
      rw [show (pre ++ [Inst.fork (base + 1) (base + 1 + emitLen a + 1)] ++ emit a (base + 1)).length
        = base + 1 + emitLen a by simp [emit_length, hb]; omega] at this
      exact this
    have ha := iha (pre ++ [Inst.fork (base + 1) (base + 1 + emitLen a + 1)])
      ([Inst.jump (base + 1 + emitLen a + 1 + emitLen b)] ++ emit b (base + 1 + emitLen a + 1) ++ post)
      (base + 1) (by simp [hb]) (by simp [hp, emit, List.append_assoc]) _ rfl
    have hbb := ihb (pre ++ [Inst.fork (base + 1) (base + 1 + emitLen a + 1)] ++ emit a (base + 1) ++
        [Inst.jump (base + 1 + emitLen a + 1 + emitLen b)]) post (base + 1 + emitLen a + 1)
      (by simp [emit_length, hb]; omega) (by simp [hp, emit, List.append_assoc]) e (by omega)
    rw [loop_fork' cx hf]
    simp only [bt]
    apply forkBt_congr
    · intro _
      show loop cx (dep + 1) (base + 1) pos m cuts = _
      rw [ha]
      apply bt_congr
      intro d j m' c _
      show loop cx d (base + 1 + emitLen a) j m' c = _
      rw [loop_jump cx hj, if_pos (by omega), he']
    · intro c
      rw [if_pos (by omega)]
      exact hbb dep pos m c
  | grp a g mn mx iha =>
    intro pre post base hb hp e he
    exact eq_rep (bodyEq_grp a g iha) mn mx pre post base hb hp e he

/-- whole programs: `recmatch` is the depth test followed by the backtracker on the tree with the
    final continuation "set mark 1, report the match" -/
theorem recmatch_eq_bt (t : RNode)
    (hp : cx.prog = [Inst.mark 0] ++ emit t 1 ++ [Inst.mark 1, Inst.mtch]) (start cuts : Nat) :
    recmatch cx start cuts =
      if 0 ≥ cx.nd then Res.fail (cuts + 1)
      else bt cx t 1 start (setMk cx.ngrps (marks0 cx.ngrps) 0 start) cuts
        (fun _ j m' c' => Res.ok j (setMk cx.ngrps m' 1 j) c') := by
  have h0 : cx.prog[0]? = some (Inst.mark 0) := by rw [hp]; rfl
  have h1 : cx.prog[1 + emitLen t]? = some (Inst.mark 1) := by
    have := get_mid (prog := cx.prog) (p := [Inst.mark 0] ++ emit t 1) (x := Inst.mark 1)
      (q := [Inst.mtch]) (by simp [hp, List.append_assoc])
    rw [show ([Inst.mark 0] ++ emit t 1).length = 1 + emitLen t by simp [emit_length]; omega] at this
    exact this
  have h2 : cx.prog[1 + emitLen t + 1]? = some Inst.mtch := by
    have := get_mid (prog := cx.prog) (p := [Inst.mark 0] ++ emit t 1 ++ [Inst.mark 1]) (x := Inst.mtch)
      (q := []) (by simp [hp, List.append_assoc])
    rw [show ([Inst.mark 0] ++ emit t 1 ++ [Inst.mark 1]).length = 1 + emitLen t + 1 by
      simp [emit_length]; omega] at this
    exact this
  unfold recmatch
  rw [act_eq]
  split
  · rfl
  · rw [loop_mark cx h0, loop_eq_bt t [Inst.mark 0] [Inst.mark 1, Inst.mtch] 1 rfl hp _ rfl]
    apply bt_congr
    intro d j m' c' _
    show loop cx d (1 + emitLen t) j m' c' = _
    rw [loop_mark cx h1, loop_mtch cx h2]

end equation

/-! ### concrete instances -/
section examples

/-- `(a|ab)(c|bcd)` -/
def pat1 : Bytes := [40, 97, 124, 97, 98, 41, 40, 99, 124, 98, 99, 100, 41]
/-- `xabcd` -/
def subj1 : Bytes := [120, 97, 98, 99, 100]
/-- the numbered parse tree of `pat1` -/
def tree1 : RNode :=
  .cat (.grp (.alt (.atom ⟨AK.chr, [97]⟩ 1 1) (.atom ⟨AK.chr, [97, 98]⟩ 1 1)) 1 1 1)
       (.grp (.alt (.atom ⟨AK.chr, [99]⟩ 1 1) (.atom ⟨AK.chr, [98, 99, 100]⟩ 1 1)) 2 1 1)
/-- the code `regcomp` produces for `pat1` -/
def code1 : List Inst :=
  [Inst.mark 0, Inst.mark 2, Inst.fork 3 5, Inst.atom ⟨AK.chr, [97]⟩, Inst.jump 6,
   Inst.atom ⟨AK.chr, [97, 98]⟩, Inst.mark 3, Inst.mark 4, Inst.fork 9 11, Inst.atom ⟨AK.chr, [99]⟩,
   Inst.jump 12, Inst.atom ⟨AK.chr, [98, 99, 100]⟩, Inst.mark 5, Inst.mark 1, Inst.mtch]

example : (parse pat1).map (·.map (fun t => (grpnum t 1).1)) = some (some tree1) := by decide
example : (regcomp pat1 0).map (·.map (·.code)) = some (some code1) := by decide
example : code1 = [Inst.mark 0] ++ emit tree1 1 ++ [Inst.mark 1, Inst.mtch] := by decide

/-- the VM backtracks out of `a` `c` into `a` `bcd`: the match is `abcd` at offset 1, group 1 = `a`,
    group 2 = `bcd` -/
example : regexec ⟨code1, 15, 0⟩ subj1 3 0 64 6 =
    (ExecRes.found [1, 5, 1, 2, 2, 5, -1, -1, -1, -1, -1, -1] 0, [(1, 5), (1, 2), (2, 5)]) :=
  regexecF_sound (fuel := 40) (by decide)

/-- `regcomp_sound` applied to that run: the reported span and marks are those of a parse -/
example : ∃ m1, Matches subj1 0 6 tree1 (1, (marks0 6).set 0 1) (5, m1) ∧
    [1, 5, 1, 2, 2, 5, -1, -1, -1, -1, -1, -1] = m1.set 1 5 :=
  regcomp_sound (cx := ⟨code1, subj1, 0, 64, 6⟩) tree1 (by decide) (by decide) 1 0 5 _ 0
    (actF_sound _ (f := 40) (by decide))

/-- the same run through `recmatch_eq_bt`: the backtracker is structurally recursive, so `decide`
    runs it -/
example : recmatch ⟨code1, subj1, 0, 64, 6⟩ 1 0 =
    Res.ok 5 [1, 5, 1, 2, 2, 5, -1, -1, -1, -1, -1, -1] 0 := by
  rw [recmatch_eq_bt (cx := ⟨code1, subj1, 0, 64, 6⟩) tree1 (by decide)]
  decide

/-- `a(b|c)*d` -/
def pat2 : Bytes := [97, 40, 98, 124, 99, 41, 42, 100]
/-- `xabcbdad` -/
def subj2 : Bytes := [120, 97, 98, 99, 98, 100, 97, 100]
def code2 : List Inst :=
  [Inst.mark 0, Inst.atom ⟨AK.chr, [97]⟩, Inst.fork 3 10, Inst.mark 2, Inst.fork 5 7,
   Inst.atom ⟨AK.chr, [98]⟩, Inst.jump 8, Inst.atom ⟨AK.chr, [99]⟩, Inst.mark 3, Inst.fork 3 10,
   Inst.atom ⟨AK.chr, [100]⟩, Inst.mark 1, Inst.mtch]

example : (regcomp pat2 0).map (·.map (·.code)) = some (some code2) := by decide

/-- the unbounded repetition: leftmost match `abcbd` at offset 1; group 1 holds its last
    iteration, the `b` at offset 4 -/
example : regexec ⟨code2, 13, 0⟩ subj2 2 0 64 4 =
    (ExecRes.found [1, 6, 4, 5, -1, -1, -1, -1] 0, [(1, 6), (4, 5)]) :=
  regexecF_sound (fuel := 60) (by decide)

/-- with a depth limit of 3 the same run is cut short: the first start positions fail at the limit
    (the cut counter is non-zero) and a later, shallower match `ad` is reported -/
example : regexec ⟨code2, 13, 0⟩ subj2 2 0 3 4 =
    (ExecRes.found [6, 8, -1, -1, -1, -1, -1, -1] 1, [(6, 8), (-1, -1)]) :=
  regexecF_sound (fuel := 60) (by decide)

/-- a derivation by hand: `ab*` takes `abb` from offset 0 to offset 3 with one copy of `a` and two
    copies of `b` -/
example (m : Marks) : Matches [97, 98, 98] 0 2
    (.cat (.atom ⟨AK.chr, [97]⟩ 1 1) (.atom ⟨AK.chr, [98]⟩ 0 (-1))) (0, m) (3, m) :=
  Matches.cat
    (Matches.atom (k := 1) (by decide) (Iter.succ (One.atom (pos' := 1) (by decide)) (Iter.zero _ _)))
    (Matches.atom (k := 2) (by decide)
      (Iter.succ (One.atom (pos' := 2) (by decide))
        (Iter.succ (One.atom (pos' := 3) (by decide)) (Iter.zero _ _))))

/-- a group derivation by hand: `(a)` on `a` sets marks 2 and 3 -/
example : Matches [97] 0 4 (.grp (.atom ⟨AK.chr, [97]⟩ 1 1) 1 1 1)
    (0, [-1, -1, -1, -1]) (1, [-1, -1, 0, 1]) :=
  Matches.grp (k := 1) (by decide)
    (Iter.succ
      (One.grp (m' := [-1, -1, 0, -1])
        (Matches.atom (k := 1) (by decide)
          (Iter.succ (One.atom (pos' := 1) (by decide)) (Iter.zero _ _))))
      (Iter.zero _ _))

end examples

end Neatvi.Props.C10
