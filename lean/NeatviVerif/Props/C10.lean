namespace Neatvi.Props.C10
end Neatvi.Props.C10
