import NeatviVerif.Lemmas.Utf8
/-!
# C16  UTF-8 character arithmetic agrees with code points

Every theorem is about the model of `uc.c` (`Model/Uc.lean`) against the arithmetic reference
`Spec.enc` / `Spec.encStr`, for *all* code points `0 < c < 0x110000` and all strings of them.
-/
namespace Neatvi.Props.C16
open Neatvi Neatvi.Uc Neatvi.Spec

/-- `uc_len` is the length class of its first byte, for every byte. -/
theorem len_spec (b : Nat) (h : b < 256) : ucLen b = specLen b := ucLen_spec b h

private theorem mask5 (a : Nat) : a &&& 0x1f = a % 32 := Nat.and_two_pow_sub_one_eq_mod a 5
private theorem mask4 (a : Nat) : a &&& 0x0f = a % 16 := Nat.and_two_pow_sub_one_eq_mod a 4
private theorem mask3 (a : Nat) : a &&& 0x07 = a % 8 := Nat.and_two_pow_sub_one_eq_mod a 3
private theorem mask6 (a : Nat) : a &&& 0x3f = a % 64 := Nat.and_two_pow_sub_one_eq_mod a 6

private theorem or_add (n y k : Nat) (hy : y < 2 ^ k) (hn : n % 2 ^ k = 0) : n ||| y = n + y := by
  have h : n = (n / 2 ^ k) <<< k := by
    rw [Nat.shiftLeft_eq, Nat.div_mul_cancel (Nat.dvd_of_mod_eq_zero hn)]
  rw [h, ← Nat.shiftLeft_add_eq_or_of_lt hy]

private theorem or2 (a b : Nat) (hb : b < 64) : (a <<< 6) ||| b = a * 64 + b := by
  rw [Nat.shiftLeft_eq, or_add _ _ 6 (by omega) (by omega)]
private theorem or3 (a b c : Nat) (hb : b < 64) (hc : c < 64) :
    ((a <<< 12) ||| (b <<< 6)) ||| c = a * 4096 + b * 64 + c := by
  simp only [Nat.shiftLeft_eq]
  have h1 : a * 2 ^ 12 ||| b * 2 ^ 6 = a * 2 ^ 12 + b * 2 ^ 6 := or_add _ _ 12 (by omega) (by omega)
  rw [h1, or_add _ _ 6 (by omega) (by omega)]
private theorem or4 (a b c d : Nat) (hb : b < 64) (hc : c < 64) (hd : d < 64) :
    (((a <<< 18) ||| (b <<< 12)) ||| (c <<< 6)) ||| d = a * 262144 + b * 4096 + c * 64 + d := by
  simp only [Nat.shiftLeft_eq]
  have h1 : a * 2 ^ 18 ||| b * 2 ^ 12 = a * 2 ^ 18 + b * 2 ^ 12 := or_add _ _ 18 (by omega) (by omega)
  have h2 : (a * 2 ^ 18 + b * 2 ^ 12) ||| c * 2 ^ 6 = a * 2 ^ 18 + b * 2 ^ 12 + c * 2 ^ 6 :=
    or_add _ _ 12 (by omega) (by omega)
  rw [h1, h2, or_add _ _ 6 (by omega) (by omega)]

private theorem specLen1 {b : Nat} (h0 : 0 < b) (h : b < 192) : specLen b = 1 := by
  unfold specLen; rw [if_neg (by omega), if_pos h]
private theorem specLen2 {b : Nat} (h0 : 192 ≤ b) (h : b < 224) : specLen b = 2 := by
  unfold specLen; rw [if_neg (by omega), if_neg (by omega), if_pos h]
private theorem specLen3 {b : Nat} (h0 : 224 ≤ b) (h : b < 240) : specLen b = 3 := by
  unfold specLen; rw [if_neg (by omega), if_neg (by omega), if_neg (by omega), if_pos h]
private theorem specLen4 {b : Nat} (h0 : 240 ≤ b) (h : b < 248) : specLen b = 4 := by
  unfold specLen; rw [if_neg (by omega), if_neg (by omega), if_neg (by omega), if_neg (by omega), if_pos h]

/-- the length of an encoded character is what `uc_len` says about its first byte -/
theorem len_enc {c : Nat} (h : ValidCp c) : ucLen (Bytes.hd (enc c)) = (enc c).length := by
  obtain ⟨h0, h1⟩ := h
  unfold enc
  split
  · rw [ucLen_spec _ (by simp; omega)]; simp only [Bytes.hd_cons, List.length_cons, List.length_nil]
    exact specLen1 h0 (by omega)
  split
  · rw [ucLen_spec _ (by simp; omega)]; simp only [Bytes.hd_cons, List.length_cons, List.length_nil]
    exact specLen2 (by omega) (by omega)
  split
  · rw [ucLen_spec _ (by simp; omega)]; simp only [Bytes.hd_cons, List.length_cons, List.length_nil]
    exact specLen3 (by omega) (by omega)
  · rw [ucLen_spec _ (by simp; omega)]; simp only [Bytes.hd_cons, List.length_cons, List.length_nil]
    exact specLen4 (by omega) (by omega)

/-- decoding an encoded character (followed by anything) gives the code point back -/
theorem code_enc {c : Nat} (h : ValidCp c) (r : Bytes) : ucCode (enc c ++ r) = some c := by
  obtain ⟨h0, h1⟩ := h
  unfold enc
  split
  · next hc =>
    simp only [ucCode, List.cons_append, List.nil_append, Bytes.hd_cons]
    simp only [andc0n c (by omega)]; simp; omega
  split
  · next hc1 hc2 =>
    simp only [ucCode, List.cons_append, List.nil_append, Bytes.hd_cons]
    simp only [andc0n _ (show 192 + c / 64 < 256 by omega), and20 _ (show 192 + c / 64 < 256 by omega)]
    have e1 : ¬ (192 + c / 64 < 192) := by omega
    have e2 : (192 + c / 64) % 64 < 32 := by omega
    simp [e1, e2, rd, mask5, mask6]
    rw [or2 _ _ (by omega)]; omega
  split
  · next hc1 hc2 hc3 =>
    simp only [ucCode, List.cons_append, List.nil_append, Bytes.hd_cons]
    simp only [andc0n _ (show 224 + c / 4096 < 256 by omega), and20 _ (show 224 + c / 4096 < 256 by omega), and10 _ (show 224 + c / 4096 < 256 by omega)]
    have e1 : ¬ (224 + c / 4096 < 192) := by omega
    have e2 : ¬ (224 + c / 4096) % 64 < 32 := by omega
    have e3 : (224 + c / 4096) % 32 < 16 := by omega
    simp [e1, e2, e3, rd, mask4, mask6]
    rw [or3 _ _ _ (by omega) (by omega)]; omega
  · next hc1 hc2 hc3 =>
    simp only [ucCode, List.cons_append, List.nil_append, Bytes.hd_cons]
    simp only [andc0n _ (show 240 + c / 262144 < 256 by omega), and20 _ (show 240 + c / 262144 < 256 by omega), and10 _ (show 240 + c / 262144 < 256 by omega), and08 _ (show 240 + c / 262144 < 256 by omega)]
    have e1 : ¬ (240 + c / 262144 < 192) := by omega
    have e2 : ¬ (240 + c / 262144) % 64 < 32 := by omega
    have e3 : ¬ (240 + c / 262144) % 32 < 16 := by omega
    have e4 : (240 + c / 262144) % 16 < 8 := by omega
    simp [e1, e2, e3, e4, rd, mask3, mask6]
    rw [or4 _ _ _ _ (by omega) (by omega) (by omega)]; omega

/-- on an encoded string, `uc_next` steps over exactly the first encoded character -/
theorem next_spec {c : Nat} {cs : List Nat} (hc : ValidCp c) (hcs : ∀ d ∈ cs, ValidCp d) :
    ucNext (encStr (c :: cs)) = (enc c).length := by
  rw [encStr_cons]; exact ucNext_enc hc hcs

/-- `uc_end` points at the last byte of the first character -/
theorem end_spec {c : Nat} {cs : List Nat} (hc : ValidCp c) (hcs : ∀ d ∈ cs, ValidCp d) :
    ucEnd (encStr (c :: cs)) + 1 = (enc c).length := by
  rw [encStr_cons]; exact ucEnd_enc hc hcs

theorem next_nil : ucNext [] = 0 := rfl

private theorem slenF {cs : List Nat} (h : ∀ c ∈ cs, ValidCp c) :
    ∀ f, (encStr cs).length ≤ f → ucSlenF f (encStr cs) = cs.length := by
  induction cs with
  | nil => intro f _; cases f <;> simp [ucSlenF]
  | cons c r ih =>
    intro f hf
    have hc := h c (by simp)
    have hr : ∀ d ∈ r, ValidCp d := fun d hd => h d (by simp [hd])
    rw [encStr_cons] at hf ⊢
    have hl := enc_length_pos c
    cases f with
    | zero => rw [List.length_append] at hf; omega
    | succ f =>
      have hne := hd_enc_ne_zero hc (encStr r)
      simp only [ucSlenF]
      have he := ucEnd_enc hc hr
      rw [he]; simp [hne]
      apply ih hr; simp at hf; omega

/-- `uc_slen` counts code points -/
theorem slen_spec {cs : List Nat} (h : ∀ c ∈ cs, ValidCp c) : ucSlen (encStr cs) = cs.length :=
  slenF h _ (Nat.le_refl _)

private theorem byteOff_succ (c : Nat) (r : List Nat) (k : Nat) :
    byteOff (c :: r) (k + 1) = (enc c).length + byteOff r k := by
  simp [byteOff]

private theorem chrF {cs : List Nat} (h : ∀ c ∈ cs, ValidCp c) :
    ∀ f i off, (encStr cs).length ≤ f → i ≤ off →
      ucChrF f (encStr cs) i off = if off - i ≤ cs.length then some (byteOff cs (off - i)) else none := by
  induction cs with
  | nil =>
    intro f i off _ hio
    have key : (if i = off then some 0 else none) = (if off - i = 0 then some (0 : Nat) else none) := by
      by_cases hi : i = off
      · simp [hi]
      · have : off - i ≠ 0 := by omega
        simp [hi, this]
    cases f <;> simp [ucChrF, byteOff] <;> exact key
  | cons c r ih =>
    intro f i off hf hio
    have hc := h c (by simp)
    have hr : ∀ d ∈ r, ValidCp d := fun d hd => h d (by simp [hd])
    rw [encStr_cons] at hf ⊢
    have hl := enc_length_pos c
    have hne := hd_enc_ne_zero hc (encStr r)
    cases f with
    | zero => rw [List.length_append] at hf; omega
    | succ f =>
      simp only [ucChrF]
      simp [hne]
      by_cases hi : i = off
      · subst hi; simp [byteOff]
      · simp [hi]
        rw [ucNext_enc hc hr]; simp
        rw [ih hr f (i + 1) off (by rw [List.length_append] at hf; omega) (by omega)]
        have e : off - i = (off - (i + 1)) + 1 := by omega
        by_cases hle : off - (i + 1) ≤ r.length
        · rw [if_pos hle, if_pos (show off ≤ r.length + 1 + i by omega)]
          rw [e, byteOff_succ]; simp; omega
        · rw [if_neg hle, if_neg (show ¬ off ≤ r.length + 1 + i by omega)]; rfl

/-- `uc_chr(s, k)` is the byte offset of character `k` (the terminator for `k = n`),
    and the `""` result beyond -/
theorem chr_spec {cs : List Nat} (h : ∀ c ∈ cs, ValidCp c) (k : Nat) :
    ucChr (encStr cs) k = if k ≤ cs.length then some (byteOff cs k) else none := by
  have := chrF h (encStr cs).length 0 k (Nat.le_refl _) (Nat.zero_le _)
  simpa [ucChr] using this

private theorem offF {cs : List Nat} (h : ∀ c ∈ cs, ValidCp c) :
    ∀ f k, (encStr cs).length ≤ f → k ≤ cs.length → ucOffF f (encStr cs) (byteOff cs k) = k := by
  induction cs with
  | nil => intro f k _ hk; simp at hk; subst hk; cases f <;> simp [ucOffF, byteOff]
  | cons c r ih =>
    intro f k hf hk
    have hc := h c (by simp)
    have hr : ∀ d ∈ r, ValidCp d := fun d hd => h d (by simp [hd])
    have hl := enc_length_pos c
    have hne := hd_enc_ne_zero hc (encStr r)
    cases k with
    | zero => cases f <;> simp [ucOffF, byteOff]
    | succ k =>
      rw [byteOff_succ]
      rw [encStr_cons] at hf ⊢
      cases f with
      | zero => rw [List.length_append] at hf; omega
      | succ f =>
        simp only [ucOffF]
        have : 0 < (enc c).length + byteOff r k := by omega
        simp [this, hne]
        rw [ucNext_enc hc hr]; simp
        exact ih hr f k (by rw [List.length_append] at hf; omega) (by simp at hk; omega)

/-- byte offset → character offset inverts character offset → byte offset -/
theorem off_chr_roundtrip {cs : List Nat} (h : ∀ c ∈ cs, ValidCp c) (k : Nat) (hk : k ≤ cs.length) :
    ucOff (encStr cs) (byteOff cs k) = k := offF h _ k (Nat.le_refl _) hk

theorem chr_off_roundtrip {cs : List Nat} (h : ∀ c ∈ cs, ValidCp c) (k : Nat) (hk : k ≤ cs.length) :
    (ucChr (encStr cs) k).map (ucOff (encStr cs)) = some k := by
  rw [chr_spec h, if_pos hk]; simp [off_chr_roundtrip h k hk]

private theorem byteOff_le {cs : List Nat} {b e : Nat} (hbe : b ≤ e) : byteOff cs b ≤ byteOff cs e := by
  unfold byteOff
  have : cs.take e = cs.take b ++ (cs.take e).drop b := by
    have h := (List.take_append_drop b (cs.take e)).symm
    rwa [List.take_take, Nat.min_eq_left hbe] at h
  rw [this, encStr_append]; simp

/-- `uc_sub` cuts exactly the code points `[b, e)` -/
theorem sub_spec {cs : List Nat} (h : ∀ c ∈ cs, ValidCp c) (b e : Nat) (hbe : b ≤ e) (he : e ≤ cs.length) :
    ucSub (encStr cs) b e = encStr ((cs.take e).drop b) := by
  unfold ucSub
  rw [chr_spec h, chr_spec h, if_pos (by omega), if_pos he]
  simp only [byteOff_le hbe, if_true]
  have h1 : encStr cs = encStr (cs.take b) ++ encStr ((cs.take e).drop b) ++ encStr (cs.drop e) := by
    rw [← encStr_append, ← encStr_append]
    congr 1
    have : cs.take b = (cs.take e).take b := by rw [List.take_take, Nat.min_eq_left hbe]
    rw [this, List.take_append_drop, List.take_append_drop]
  have h2 : byteOff cs e = byteOff cs b + (encStr ((cs.take e).drop b)).length := by
    unfold byteOff
    have : cs.take e = cs.take b ++ (cs.take e).drop b := by
      have : cs.take b = (cs.take e).take b := by rw [List.take_take, Nat.min_eq_left hbe]
      rw [this, List.take_append_drop]
    conv => lhs; rw [this, encStr_append]
    simp
  rw [h2]
  conv => lhs; rw [h1]
  unfold byteOff
  rw [List.append_assoc, List.drop_left]
  simp

private theorem ucBeg_tail (u : Bytes) (a : Nat) (rest : Bytes) (ha : a < 256) (hna : ¬ (128 ≤ a ∧ a < 192))
    (hu : ∀ x ∈ u, 128 ≤ x ∧ x < 192) :
    ∀ cur, (128 ≤ cur ∧ cur < 192) → ucBeg cur (u ++ a :: rest) = u.length + 1 := by
  induction u with
  | nil =>
    intro cur hcur
    have hc : cur < 256 := by omega
    simp [ucBeg, contB_eq cur hc, hcur]
    cases rest <;> simp [ucBeg, contB_eq a ha, hna]
  | cons x u ih =>
    intro cur hcur
    have hc : cur < 256 := by omega
    simp only [List.cons_append, ucBeg]
    simp [contB_eq cur hc, hcur]
    exact ih (fun y hy => hu y (by simp [hy])) x (hu x (by simp))

/-- `uc_prev` from the boundary after a character goes back over exactly that character
    (so `uc_next` undoes `uc_prev` and vice versa) -/
theorem prev_spec {c : Nat} (hc : ValidCp c) (pre : Bytes) :
    ucPrev ((enc c).reverse ++ pre) = (enc c).length := by
  obtain ⟨a, t, he, hch⟩ := enc_chr hc
  rw [he]
  have hna : ¬ (128 ≤ a ∧ a < 192) := by rcases hch.lead with ⟨h1, _⟩ | h1 <;> omega
  have hrev : (a :: t).reverse ++ pre = t.reverse ++ a :: pre := by simp
  rw [hrev]
  cases htr : t.reverse with
  | nil =>
    have : t = [] := by simpa using htr
    subst this
    simp [ucPrev]
    cases pre <;> simp [ucBeg, contB_eq a hch.lt, hna]
  | cons x u =>
    have hmem : ∀ y ∈ x :: u, 128 ≤ y ∧ y < 192 := by
      intro y hy; apply hch.tl; rw [← List.mem_reverse, htr]; exact hy
    have hlen : t.length = u.length + 1 := by
      have := congrArg List.length htr; simpa using this
    simp only [List.cons_append, ucPrev]
    rw [ucBeg_tail u a pre hch.lt hna (fun y hy => hmem y (by simp [hy])) x (hmem x (by simp))]
    simp [hlen]

private theorem chopF {cs : List Nat} (h : ∀ c ∈ cs, ValidCp c) :
    ∀ f base, (encStr cs).length ≤ f →
      ucChopF f (encStr cs) base = (List.range (cs.length + 1)).map (fun k => base + byteOff cs k) := by
  induction cs with
  | nil => intro f base _; cases f <;> simp [ucChopF, byteOff]
  | cons c r ih =>
    intro f base hf
    have hc := h c (by simp)
    have hr : ∀ d ∈ r, ValidCp d := fun d hd => h d (by simp [hd])
    have hl := enc_length_pos c
    have hne := hd_enc_ne_zero hc (encStr r)
    rw [encStr_cons] at hf ⊢
    cases f with
    | zero => rw [List.length_append] at hf; omega
    | succ f =>
      simp only [ucChopF]
      simp [hne]
      rw [ucNext_enc hc hr]; simp
      rw [ih hr f _ (by rw [List.length_append] at hf; omega)]
      rw [List.range_succ_eq_map (n := r.length + 1)]
      simp only [List.map_cons, List.map_map]
      congr 1
      simp [byteOff]
      intro a _; omega

/-- `uc_chop` returns exactly the character boundaries -/
theorem chop_spec {cs : List Nat} (h : ∀ c ∈ cs, ValidCp c) :
    ucChop (encStr cs) = (List.range (cs.length + 1)).map (byteOff cs) := by
  have := chopF h (encStr cs).length 0 (Nat.le_refl _)
  simpa [ucChop] using this

/-- `uc_cput` (the encoder used for shaped letters) is the reference encoder -/
theorem put_enc {c : Nat} (h : ValidCp c) : ucPut c = enc c := by
  obtain ⟨h0, h1⟩ := h
  unfold ucPut enc
  have m6 := mask6
  by_cases c1 : c > 0xffff
  · have a1 : ¬ c < 0x80 := by omega
    have a2 : ¬ c < 0x800 := by omega
    have a3 : ¬ c < 0x10000 := by omega
    simp only [c1, a1, a2, a3, if_true, if_false]
    simp only [Nat.shiftRight_eq_div_pow, m6]
    have o1 : 0xf0 ||| c / 2 ^ 18 = 0xf0 + c / 2 ^ 18 := or_add _ _ 4 (by omega) (by omega)
    have o2 : ∀ y, y < 64 → 0x80 ||| y = 0x80 + y := fun y hy => or_add _ _ 7 (by omega) (by omega)
    rw [o1, o2 _ (Nat.mod_lt _ (by omega)), o2 _ (Nat.mod_lt _ (by omega)), o2 _ (Nat.mod_lt _ (by omega))]
    simp; omega
  · by_cases c2 : c > 0x7ff
    · have a1 : ¬ c < 0x80 := by omega
      have a2 : ¬ c < 0x800 := by omega
      have a3 : c < 0x10000 := by omega
      simp only [c1, c2, a1, a2, a3, if_true, if_false]
      simp only [Nat.shiftRight_eq_div_pow, m6]
      have o1 : 0xe0 ||| c / 2 ^ 12 = 0xe0 + c / 2 ^ 12 := or_add _ _ 5 (by omega) (by omega)
      have o2 : ∀ y, y < 64 → 0x80 ||| y = 0x80 + y := fun y hy => or_add _ _ 7 (by omega) (by omega)
      rw [o1, o2 _ (Nat.mod_lt _ (by omega)), o2 _ (Nat.mod_lt _ (by omega))]
      simp; omega
    · by_cases c3 : c > 0x7f
      · have a1 : ¬ c < 0x80 := by omega
        have a2 : c < 0x800 := by omega
        simp only [c1, c2, c3, a1, a2, if_true, if_false]
        simp only [Nat.shiftRight_eq_div_pow, m6]
        have o1 : 0xc0 ||| c / 2 ^ 6 = 0xc0 + c / 2 ^ 6 := or_add _ _ 6 (by omega) (by omega)
        have o2 : ∀ y, y < 64 → 0x80 ||| y = 0x80 + y := fun y hy => or_add _ _ 7 (by omega) (by omega)
        rw [o1, o2 _ (Nat.mod_lt _ (by omega))]
        simp; omega
      · have a1 : c < 0x80 := by omega
        simp [c1, c2, c3, a1]

/-! ### non-vacuity: the hypotheses are met by concrete multi-byte strings -/
example : (∀ c ∈ [0x61, 0xe9, 0x20ac, 0x1f600, 0x301], ValidCp c) := by decide
example : encStr [0x61, 0xe9, 0x20ac, 0x1f600] = [0x61, 0xc3, 0xa9, 0xe2, 0x82, 0xac, 0xf0, 0x9f, 0x98, 0x80] := by decide
example : ucSub (encStr [0x61, 0xe9, 0x20ac, 0x1f600]) 1 3 = [0xc3, 0xa9, 0xe2, 0x82, 0xac] := by decide

end Neatvi.Props.C16
