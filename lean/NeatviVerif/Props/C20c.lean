import NeatviVerif.Lemmas.C20cEx
import NeatviVerif.Lemmas.C20cList
import NeatviVerif.Lemmas.C20cVi
import NeatviVerif.Lemmas.C20cSolo
/-!
# C20c  Buffers over whole command histories: locality, the listing `:b`, `:q` with a dirty buffer,
  `:e` of an open path

`Props/C20.lean` and `Props/C20b.lean` give the one-step laws of the buffer table.  Here:

* (a) every form of `:b`, the listing included, keeps the table invariants; what the listing prints;
* (b) **locality** over whole runs: every ex command line, whatever it contains (`|`-lists, `:g`,
  `:@`, `:e +cmd`), is a sequence of *atomic table steps* (`Chain`); in such a run the state of a
  buffer at the end is linked to its state at the start through the steps taken *while it is
  current* (`own`, `Linked`) — nothing else touches it; and every command dispatched while it is
  current acts on it *as if the other buffers were not there* (`AsIfAlone`, `withTail`, `solo`);
* (c) `:q` with a dirty buffer anywhere in the table: the editor keeps running, the *first dirty
  buffer in table order* becomes current, no buffer changes;
* (d) `:e path` of an open path does not look at the file system — `:e!` neither.

Vocabulary (definitions in `Lemmas/C20c*.lean`):
`Loc ed ed'` — a step on the current buffer: every parked slot is *exactly* as it was;
`withTail L ed` — `ed` with the parked slots replaced by `L`; `solo ed` — `ed` with nothing parked
(but a stub naming the alternate file, which `#` in a file name reads);
`Quiet ed ed'` — nothing observable moved (sequence counters `useq` may have been bumped);
`obsAt ed i` — what is observed of the buffer in slot `i`: path, text, undo history, marks (the `Lb`
value with `useq` zeroed), position (the editor's view when current, the stored one when parked),
time stamp; the dirty flag is a function of it (`dirty_obsB`);
`TableOk ed` — 16 slots, unique numbers in `1..bufsCnt`, occupied slots a prefix.
-/
namespace Neatvi.Props.C20c
open Neatvi Neatvi.Lbuf Neatvi.Ex Neatvi.Vi Neatvi.Props.C20 Neatvi.Props.C20b Neatvi.Lemmas.C20c

/-! ## (a) every form of `:b` -/

/-- **`:b` without an argument** (the listing) returns 0, changes no buffer (up to sequence
    counters), no buffer number, no view, nothing but the table's counters and the output; it
    prints one line per buffer of the occupied prefix of the table, in table order (`listOut`:
    number in two columns, alias `%`/`#`/`^`, path, `*` if modified). -/
theorem b_list_spec (f : Nat) (ed : Ed) (loc cmd arg : Bytes) (txt : Option Bytes) (h : arg.isEmpty = true) :
    runCmd (f + 1) ed "ec_buffer" loc cmd arg txt = some (0, listEd ed) ∧
    Quiet ed (listEd ed) ∧ OutOnly ed (listEd ed) ∧
    (listEd ed).out = ed.out ++ listOut ed.bufs.length 0 ed.bufs :=
  Lemmas.C20c.b_list_spec f ed loc cmd arg txt h

/-- **every form of `:b`** — no argument, `!`, `~`, `+`, `-`, a number, an alias, anything else —
    keeps the buffer numbers unique and within `1..bufsCnt` and keeps the occupied slots a prefix,
    whatever its outcome.  (`C20b.ec_buffer_invariants` without its hypothesis on the argument.) -/
theorem ec_buffer_invariants_all (f : Nat) (ed ed' : Ed) (loc cmd arg : Bytes) (txt : Option Bytes) (r : Int)
    (h : runCmd (f + 1) ed "ec_buffer" loc cmd arg txt = some (r, ed')) :
    (IdsOk ed → IdsOk ed') ∧ (Packed ed → Packed ed') :=
  Lemmas.C20c.ec_buffer_invariants_all f ed ed' loc cmd arg txt r h

/-- the same with the length of the table -/
theorem ec_buffer_tableOk (f : Nat) (ed ed' : Ed) (loc cmd arg : Bytes) (txt : Option Bytes) (r : Int)
    (h : runCmd (f + 1) ed "ec_buffer" loc cmd arg txt = some (r, ed')) (hok : TableOk ed) : TableOk ed' :=
  Lemmas.C20c.ec_buffer_tableOk f ed ed' loc cmd arg txt r h hok

-- the listing of three buffers "a" (modified), "b" (modified), "c" (clean)
example : listOut 16 0 exEdDirty.bufs = strOf " 1 % a *\n 2 # b *\n 3 ^ c  \n" := by decide +kernel
example : IdsOk (listEd exEd) ∧ Packed (listEd exEd) :=
  ⟨(ec_buffer_invariants_all 0 exEd _ [] [98] [] none 0 (runCmd_b_list 0 exEd [] [98] [] none rfl)).1 exEd_idsOk,
   (ec_buffer_invariants_all 0 exEd _ [] [98] [] none 0 (runCmd_b_list 0 exEd [] [98] [] none rfl)).2 exEd_packed⟩

/-- CONJECTURE (false): a command given while another buffer is current leaves the `Lb` value of
    a parked buffer *exactly* as it was. -/
def parked_lb_exact : Prop :=
  ∀ (ed ed' : Ed) (r : Int) (i : Nat), 0 < i → runCmd 1 ed "ec_buffer" [] [98] [] none = some (r, ed') →
    (ed'.bufs.getD i none).map (·.lb) = (ed.bufs.getD i none).map (·.lb)

/-- the listing bumps the sequence counter `useq` of every listed buffer (`lbuf_modified` does, and
    the listing calls it for the `*`): with "a", "b", "c" open, `:b` takes `useq` of the parked "b"
    from 1 to 2.  The same happens in `:q` (all slots) and in `:e newfile` (the slot `bufs_open` is
    going to take).  Hence the statements of this file are about `obsAt`: the record with `useq`
    zeroed.  Text, history, marks, dirty flag are untouched (`Quiet`). -/
theorem parked_lb_exact_is_false : ¬ parked_lb_exact := by
  intro h
  have := congrArg (fun o => o.map (fun lb : Lb => lb.useq))
    (h exEd (listEd exEd) 0 1 (by omega) (runCmd_b_list 0 exEd [] [98] [] none rfl))
  revert this
  decide +kernel

/-! ## (b) locality -/

/-- **one command, parked buffers.**  Every ex command other than `:e`, `:b`, `:q`/`:wq`/`:x`, `:g`/`:v`
    and `:@` (these work on the table or run other lines) is a local step: whatever it does — `:w`,
    `:w path`, `:r`, `:s`, `:d`, `:pu`, `:u`, `:redo`, `:!`, `:k`, `:se`, … — every parked buffer
    record is exactly what it was, slot 0 keeps its number. -/
theorem command_is_local (f : Nat) (ed ed' : Ed) (hd : String) (loc cmd arg : Bytes) (txt : Option Bytes) (r : Int)
    (hl : tableHandler hd = false) (h : runCmd (f + 1) ed hd loc cmd arg txt = some (r, ed')) : Loc ed ed' :=
  runCmd_local f ed ed' hd loc cmd arg txt r hl h

/-- `:w`-type commands do not change other buffers: `ec_write` is a local step -/
theorem write_is_local (ed ed' : Ed) (loc cmd arg : Bytes) (r : Int)
    (h : ecWrite ed loc cmd arg = some (r, ed')) : Loc ed ed' := ecWrite_loc h

/-- what a local step leaves alone, slot by slot -/
theorem local_keeps_parked (ed ed' : Ed) (h : Loc ed ed') (i : Nat) (hi : 0 < i) :
    ed'.bufs.getD i none = ed.bufs.getD i none ∧ obsAt ed' i = obsAt ed i :=
  ⟨h.getD i hi, step_obs (ev := .loc) h i i rfl (fun _ => by omega)⟩

/-- **every command line is a sequence of atomic table steps**, for every line and every fuel:
    local steps (`loc`), dispatches of local commands (`cmd`), quiet steps, `bufs_switch`,
    `bufs_open`, `bufs_shift`, the fresh buffer of `:b !`, `:b ~` (`StepOk` says what each is) -/
theorem line_is_steps (f : Nat) (ed ed' : Ed) (ln : Bytes) (r : Int) (h : exExec f ed ln = some (r, ed')) :
    ∃ tr, Chain ed tr ed' := exExec_T steps_closed h

/-- the same for `ex_command` (a line, then `lbuf_modified` on the current buffer) -/
theorem command_is_steps (f : Nat) (ed ed' : Ed) (ln : Bytes) (r : Int) (h : exCommand f ed ln = some (r, ed')) :
    ∃ tr, Chain ed tr ed' := exCommand_T steps_closed h

/-- the same for a `:` command or a shortcut calling `ex_command` in vi mode -/
theorem vi_colon_is_steps (ln : Bytes) (s s' : VS) (rc : Int) (h : exCommandV ln s = Res.ok rc s') :
    ∃ tr, Chain s.ed tr s'.ed := exCommandV_T steps_closed ln s s' rc h

/-- the same for a whole script of command lines -/
theorem script_is_steps (f : Nat) (lines : List Bytes) (ed ed' : Ed) (h : runLines f ed lines = some ed') :
    ∃ tr, Chain ed tr ed' := runLines_T steps_closed f lines ed ed' h

/-- **one atomic step keeps what is observed of every record it does not delete** — the current
    one in a step acting on the current buffer (`isOwn`: a local step, a dispatched command) excepted: a switch moves records (storing the view of the buffer left,
    loading that of the buffer reached), a quiet step bumps counters, `bufs_open` and `bufs_shift`
    touch one slot, `:b ~` changes numbers only -/
theorem step_keeps_observation (ed ed' : Ed) (ev : Ev) (h : StepOk ed ev ed') (i j : Nat) (hm : ev.move i = some j)
    (hloc : ev.isOwn = true → i ≠ 0) : obsAt ed' j = obsAt ed i := step_obs h i j hm hloc

/-- a record disappears only when it is the current buffer and `:b !` deletes it, or when
    `bufs_open` takes its slot -/
theorem deleted_only_by (ev : Ev) (i : Nat) :
    ev.move i = none ↔ (ev = .shift ∧ i = 0) ∨ (ev = .fresh ∧ i = 0) ∨ ev = .opn i := move_none_iff ev i

/-- … and `bufs_open` takes an occupied slot only when all of the first 15 are occupied: it is then
    the last one (`C20.open_keeps_all`, `C20.open_full_evicts_last`) -/
theorem open_takes_last_only (ed : Ed) (p : Bytes) :
    (ed.findRoom < ed.bufs.length - 1 → ∀ j b, ed.bufs.getD j none = some b → (ed.bufsOpen p).2.bufs.getD j none = some b) ∧
    ((∀ j, j < ed.bufs.length - 1 → (ed.bufs.getD j none).isSome = true) → (ed.bufsOpen p).1 = ed.bufs.length - 1) :=
  ⟨open_keeps_all ed p, open_full_evicts_last ed p⟩

/-- **locality.**  Along a run (`Chain`), let the record that starts in slot `i` end in slot `j`
    (`track`).  Its observed state at the end is `Linked` to its observed state at the start through
    `own tr i` — the projection of the run onto this buffer: the local steps taken while it is
    current, each starting with the buffer exactly as the previous one left it.  Whatever happens
    while another buffer is current leaves it as it was. -/
theorem locality (tr : Trace) (ed ed' : Ed) (i j : Nat) (h : Chain ed tr ed') (ht : track tr i = some j) :
    Linked (obsAt ed i) (own tr i) (obsAt ed' j) := Lemmas.C20c.locality tr ed ed' i j h ht

/-- the steps of the projection are steps of the run acting on the current buffer (`Loc`: no parked
    buffer changes) -/
theorem projection_is_local (tr : Trace) (ed ed' : Ed) (h : Chain ed tr ed') (i : Nat) (s : Ed × Ev × Ed)
    (hs : s ∈ own tr i) : s ∈ tr ∧ s.2.1.isOwn = true ∧ Loc s.1 s.2.2 :=
  ⟨(own_mem tr i s hs).1, (own_mem tr i s hs).2, own_loc tr ed ed' h i s hs⟩

/-- **the parked buffers do not influence a local command.**  For every ex command other than `:e`,
    `:b`, `:q`/`:wq`/`:x`, `:g`/`:v`, `:@`: run with the parked slots replaced by any list `L` of
    buffers (naming the same alternate file — `#` in a file name reads that name), it returns the same
    value and leaves the same editor: current buffer, view, registers, options, files, output,
    messages; and `L` is still what is parked. -/
theorem parked_do_not_influence (L : List (Option Buf)) (f : Nat) (ed : Ed) (hA : Alt L ed) (hd : String)
    (loc cmd arg : Bytes) (txt : Option Bytes) (hl : tableHandler hd = false) :
    runCmd f (withTail L ed) hd loc cmd arg txt = tailR L (runCmd f ed hd loc cmd arg txt) :=
  runCmd_withTail_any L f ed hA hd loc cmd arg txt hl

/-- the same for a whole line of such commands (`c1|c2|…`; `localLine` is a check on the text of the
    line): a local step, the same with any other buffers parked, the same on the buffer alone -/
theorem local_line_alone (f : Nat) (ed ed' : Ed) (ln : Bytes) (r : Int) (hq : localLine ln = true)
    (h : exExec f ed ln = some (r, ed')) :
    Loc ed ed' ∧ (∀ L, Alt L ed → exExec f (withTail L ed) ln = some (r, withTail L ed')) ∧
    exExec f (solo ed) ln = some (r, solo ed') := line_alone f ed ed' ln r hq h

/-- **every command dispatched while a buffer is current acts on it as if it were alone**: the
    `cmd` steps of the projection are dispatches `runCmd … = some (r, after)` that give the same
    result with any other parked buffers, and on the buffer alone (`solo`) -/
theorem own_commands_as_if_alone (tr : Trace) (ed ed' : Ed) (h : Chain ed tr ed') (i : Nat) (s : Ed × Ev × Ed)
    (hs : s ∈ own tr i) : AsIfAlone s := own_alone tr ed ed' h i s hs

/-- the environment matters: what a buffer's own command does depends on the registers (the
    search pattern, the options, the files, …), which commands given while *other* buffers were
    current may have set.  Hence "running only its own commands on it" has to take the environment
    from the actual run: that is what `own` records (the whole editor before each step) and what
    `solo` keeps.  Witness: `:pu` with the unnamed register unset and set. -/
theorem own_commands_need_environment :
    (runCmd 1 exEd "ec_put" [] [112, 117] [] none).map (fun r => r.2.cur.map (fun b => b.lb.lines)) ≠
    (runCmd 1 { exEd with regs := exEd.regs.put 0 [113, 10] 1 } "ec_put" [] [112, 117] [] none).map
      (fun r => r.2.cur.map (fun b => b.lb.lines)) := by
  have h1 : (runCmd 1 exEd "ec_put" [] [112, 117] [] none).map (fun r => r.2.cur.map (fun b => b.lb.lines)) =
      some (some [[120, 10]]) := by
    rw [runCmd.eq_2]
    simp only [String.reduceBEq, Bool.false_eq_true, if_false, if_true, Bool.or_self]
    decide +kernel
  have h2 : (runCmd 1 { exEd with regs := exEd.regs.put 0 [113, 10] 1 } "ec_put" [] [112, 117] [] none).map
      (fun r => r.2.cur.map (fun b => b.lb.lines)) = some (some [[120, 10], [113, 10]]) := by
    rw [runCmd.eq_2]
    simp only [String.reduceBEq, Bool.false_eq_true, if_false, if_true, Bool.or_self]
    decide +kernel
  rw [h1, h2]
  decide

/-- a buffer that is never current during a local step of the run ends as it started -/
theorem untouched (tr : Trace) (ed ed' : Ed) (i j : Nat) (h : Chain ed tr ed') (ht : track tr i = some j)
    (hown : own tr i = []) : obsAt ed' j = obsAt ed i := Lemmas.C20c.untouched tr ed ed' i j h ht hown

/-- the number of a buffer travels with it, as long as `:b ~` is not used -/
theorem number_travels (tr : Trace) (ed ed' : Ed) (i j : Nat) (h : Chain ed tr ed') (ht : track tr i = some j)
    (hre : ∀ s ∈ tr, s.2.1 ≠ Ev.renum) : idAt ed' j = idAt ed i := track_idAt tr ed ed' i j h ht hre

/-- when a record does not survive the run, it is lost at one definite step: a deletion while it is
    current, or `bufs_open` taking its slot -/
theorem lost_at_one_step (tr : Trace) (i : Nat) (h : track tr i = none) :
    ∃ pre a ev b post k, tr = pre ++ (a, ev, b) :: post ∧ track pre i = some k ∧
      ((ev = .shift ∧ k = 0) ∨ (ev = .fresh ∧ k = 0) ∨ ev = .opn k) := track_none tr i h

/-- **locality, by buffer number.**  On a well-formed table, along a run without `:b ~`: the buffer
    numbered `n`, if it survives, still has number `n`, sits in the slot the tracking says, and its
    state is linked to its initial state through its own steps alone. -/
theorem locality_by_number (tr : Trace) (ed ed' : Ed) (hok : TableOk ed) (hc : Chain ed tr ed')
    (hre : ∀ s ∈ tr, s.2.1 ≠ Ev.renum) (n : Int) (i j : Nat) (hs : slotOf ed n = some i)
    (ht : track tr i = some j) :
    slotOf ed' n = some j ∧ Linked (obsAt ed i) (own tr i) (obsAt ed' j) :=
  Lemmas.C20c.locality_by_number tr ed ed' hok hc hre n i j hs ht

/-- **locality for scripts.**  For every list of ex command lines run one after the other from any
    state, there is a decomposition of the run into atomic table steps such that every buffer's
    final state is linked to its initial state through the steps taken while it was current (its
    projection); each of these steps leaves every parked buffer exactly as it was, and each command
    among them acts on the buffer as if it were alone; and the table stays well-formed. -/
theorem script_locality (f : Nat) (lines : List Bytes) (ed ed' : Ed) (h : runLines f ed lines = some ed') :
    ∃ tr, Chain ed tr ed' ∧ (TableOk ed → TableOk ed') ∧
      (∀ i j, track tr i = some j → Linked (obsAt ed i) (own tr i) (obsAt ed' j)) ∧
      (∀ i s, s ∈ own tr i → Loc s.1 s.2.2 ∧ AsIfAlone s) := by
  obtain ⟨tr, hc⟩ := script_is_steps f lines ed ed' h
  exact ⟨tr, hc, chain_tableOk tr ed ed' hc, fun i j ht => Lemmas.C20c.locality tr ed ed' i j hc ht,
    fun i s hs => ⟨own_loc tr ed ed' hc i s hs, own_alone tr ed ed' hc i s hs⟩⟩

/-- `:b !` removes the current buffer only: every other buffer is kept as it was, one slot nearer
    the front, with its number -/
theorem delete_keeps_others (ed : Ed) (i : Nat) (hi : 0 < i) (hocc : (ed.bufs.getD i none).isSome = true) :
    obsAt (delEd ed) (i - 1) = obsAt ed i ∧ idAt (delEd ed) (i - 1) = idAt ed i :=
  Lemmas.C20c.delete_keeps_others ed i hi hocc

/-- the dirty flag, the text, the path are read off what is observed -/
theorem observed_fields (ed : Ed) (i : Nat) (b : Buf) (h : ed.bufs.getD i none = some b) :
    ∃ o, obsAt ed i = some o ∧ (modified o.lb).1 = (modified b.lb).1 ∧ o.lb.lines = b.lb.lines ∧
      o.lb.hist = b.lb.hist ∧ o.lb.histU = b.lb.histU ∧ o.lb.mark = b.lb.mark ∧ o.path = b.path ∧
      o.mtime = b.mtime ∧ (0 < i → o.row = b.row ∧ o.off = b.off) ∧ (i = 0 → o.row = ed.xrow ∧ o.off = ed.xoff) := by
  refine ⟨obsB (viewed ed i b), by unfold obsAt; rw [h]; rfl, ?_⟩
  unfold viewed
  split
  · next h0 => exact ⟨rfl, rfl, rfl, rfl, rfl, rfl, rfl, fun hi => by omega, fun _ => ⟨rfl, rfl⟩⟩
  · next h0 => exact ⟨rfl, rfl, rfl, rfl, rfl, rfl, rfl, fun _ => ⟨rfl, rfl⟩, fun hi => absurd hi h0⟩

/-! ### the table of a running editor -/

/-- every reachable state — from an empty table through `ex_init`, command lines, `ex_command`,
    rounds of `ex()`, and arbitrary local steps — has a well-formed table: 16 slots, unique buffer
    numbers within `1..bufsCnt`, the occupied slots a prefix -/
theorem reachable_table_ok (ed : Ed) (h : Reach ed) : TableOk ed := reach_tableOk h

/-- every command line keeps the table well-formed -/
theorem line_keeps_table_ok (f : Nat) (ed ed' : Ed) (ln : Bytes) (r : Int) (h : exExec f ed ln = some (r, ed'))
    (hok : TableOk ed) : TableOk ed' := exExec_T tableOk_closed h hok

/-! ### non-vacuity -/

-- a script runs: `:b 2`, `:ec hi`, `:b`, `:b !` on three buffers "a" (current), "b", "c"
example : runLines 2 edS scriptS = some edS4 := scriptS_runs
-- "a" is current again with its view 5/2, "c" parked, "b" gone; sequence counters have moved
example : (edS4.bufs.take 3).map exView = [some ([97], [[120, 10]], 5, 2, 1), some ([99], [], 7, 0, 3), none] ∧
    (edS4.xrow, edS4.xoff) = (5, 2) ∧
    (edS4.bufs.take 2).map (fun b => b.map (·.lb.useq)) = [some 3, some 2] ∧
    (edS.bufs.take 3).map (fun b => b.map (·.lb.useq)) = [some 1, some 1, some 1] := scriptS_result
example : TableOk edS := ⟨by decide, exEd_idsOk, exEd_packed⟩
example : Reach { exEd with bufs := List.replicate 16 none, bufsCnt := 0 } := Reach.init _ rfl rfl

-- a run written out: switch to "b", delete its first line, switch back to "a"
example : Chain edS chainE (edE.bufsSwitch 1) := chainE_ok
-- "a" (slot 0) ends in slot 0, "b" (slot 1) in slot 1, "c" stays in slot 2
example : track chainE 0 = some 0 ∧ track chainE 1 = some 1 ∧ track chainE 2 = some 2 := by decide
-- the projections: nothing for "a" and "c", the deletion for "b"
example : own chainE 0 = [] ∧ own chainE 2 = [] ∧ (own chainE 1).length = 1 := by
  refine ⟨by simp [own, chainE, Ev.move, Ev.isOwn], by simp [own, chainE, Ev.move, Ev.isOwn],
    by simp [own, chainE, Ev.move, Ev.isOwn]⟩
-- hence "a" and "c" are as they were …
example : obsAt (edE.bufsSwitch 1) 0 = obsAt edS 0 :=
  untouched chainE edS _ 0 0 chainE_ok (by decide) (by simp [own, chainE, Ev.move, Ev.isOwn])
-- … and "b" has lost its first line, remembers it for undo, is dirty, and rests on row 0
example : ((edE.bufsSwitch 1).bufs.getD 1 none).map (fun b => (b.path, b.lb.lines, b.lb.hist.length, (modified b.lb).1, b.row)) =
    some ([98], [[122, 10]], 1, true, 1) := by decide +kernel

-- the hypotheses of `parked_do_not_influence` and `local_line_alone` are satisfiable: `:pu` in an
-- editor whose unnamed register holds a line; the line `pu` is a local line and runs
example : Alt (altStub exEd) exEd ∧ tableHandler "ec_put" = false ∧ localLine [112, 117] = true :=
  ⟨alt_altStub exEd, by decide, by decide +kernel⟩
example : ∃ r ed', exExec 2 { exEd with regs := exEd.regs.put 0 [113, 10] 1 } [112, 117] = some (r, ed') := by
  have h : (runCmd 1 { exEd with regs := exEd.regs.put 0 [113, 10] 1 } "ec_put" [] [112, 117] [] none).isSome = true := by
    rw [runCmd.eq_2]
    simp only [String.reduceBEq, Bool.false_eq_true, if_false, if_true, Bool.or_self]
    decide +kernel
  obtain ⟨⟨r, ed1⟩, hr⟩ := Option.isSome_iff_exists.1 h
  refine ⟨r, ed1, exExec_single 1 _ ed1 _ [112, 117] "ec_put" r (by decide) (by decide) (by decide +kernel) (by decide)
    (by decide +kernel) ?_⟩
  rw [show (Lemmas.C06b.parse1 [112, 117]).loc = [] by decide +kernel,
    show (Lemmas.C06b.parse1 [112, 117]).cmd = [112, 117] by decide +kernel,
    show (Lemmas.C06b.parse1 [112, 117]).arg = [] by decide +kernel]
  exact hr
-- a line with a table command is not a local line
example : localLine (strOf "pu|b 2") = false ∧ localLine (strOf "g/x/d") = false ∧ localLine (strOf "1,2d|u|w") = true := by
  decide +kernel

/-! ## (c) `:q` with a dirty buffer somewhere -/

/-- **`:q` refuses while any buffer is dirty and switches to the first dirty one.**  `:q` / `:quit`
    (no `!`, not `:wq`/`:x`/`:xa`), autowrite off; `j` the first slot in table order (0 = current,
    1 = alternate, …) holding a modified buffer.  Then: status 0, the editor keeps running (`xquit`
    unchanged), the message "buffer modified", the file system untouched, the table a rotation
    bringing slot `j` to the front; every buffer is observed exactly as before, in its new slot,
    with its number; the buffer made current is that of slot `j` (same number, same path, still
    modified). -/
theorem quit_refuses_any_dirty (f : Nat) (ed : Ed) (loc cmd arg : Bytes) (txt : Option Bytes)
    (hw : cmd.headD 0 ≠ 119 ∧ cmd.headD 0 ≠ 120) (hbang : hasBang cmd = false) (hall : cmd.contains 97 = false)
    (haw : ed.xaw = 0) (j : Nat) (bj : Buf) (hbj : ed.bufs.getD j none = some bj)
    (hdj : (modified bj.lb).1 = true)
    (hfirst : ∀ k b, k < j → ed.bufs.getD k none = some b → (modified b.lb).1 = false) :
    ∃ ed', runCmd (f + 1) ed "ec_quit" loc cmd arg txt = some (0, ed') ∧
      ed'.xquit = ed.xquit ∧ ed'.files = ed.files ∧
      ed'.msg = ed.msg ++ strOf "buffer modified" ++ [10] ∧
      (∀ i, obsAt ed' (if i = j then 0 else if i < j then i + 1 else i) = obsAt ed i) ∧
      (∀ i, idAt ed' (if i = j then 0 else if i < j then i + 1 else i) = idAt ed i) ∧
      ed'.bufs.length = ed.bufs.length ∧
      ∃ b', ed'.cur = some b' ∧ b'.id = bj.id ∧ b'.path = bj.path ∧ (modified b'.lb).1 = true :=
  quit_refuses f ed loc cmd arg txt hw hbang hall haw j bj hbj hdj hfirst

/-- the exact state: the clean slots before `j` and slot `j` have their sequence counters bumped
    (`ed1`, which differs from `ed` in the table only), the message is shown, then `bufs_switch(j)` -/
theorem quit_first_dirty (f : Nat) (ed : Ed) (loc cmd arg : Bytes) (txt : Option Bytes)
    (hw : cmd.headD 0 ≠ 119 ∧ cmd.headD 0 ≠ 120) (hbang : hasBang cmd = false) (hall : cmd.contains 97 = false)
    (haw : ed.xaw = 0) (j : Nat) (bj : Buf) (hbj : ed.bufs.getD j none = some bj)
    (hdj : (modified bj.lb).1 = true)
    (hfirst : ∀ k b, k < j → ed.bufs.getD k none = some b → (modified b.lb).1 = false) :
    ∃ ed1, runCmd (f + 1) ed "ec_quit" loc cmd arg txt =
        some (0, (ed1.show (strOf "buffer modified")).bufsSwitch j) ∧
      Quiet ed ed1 ∧ TableOnly ed ed1 :=
  Lemmas.C20c.quit_first_dirty f ed loc cmd arg txt hw hbang hall haw j bj hbj hdj hfirst

/-- "a" clean and current, "b" and "c" modified -/
def edQ : Ed :=
  { exEd with bufs := [some { path := [97], lb := { lines := [[120, 10]] }, id := 1 },
             some { path := [98], lb := unsavedMark { lines := [[121, 10]] }, id := 2, row := 0, off := 1 },
             some { path := [99], lb := unsavedMark { lines := [] }, id := 3 }] ++ List.replicate 13 none }

-- `:q` there: the hypotheses hold with `j = 1`; the editor keeps running and "b" — the first dirty
-- buffer in table order, not "c" — is current afterwards
example : ∃ ed', runCmd 1 edQ "ec_quit" [] [113] [] none = some (0, ed') ∧ ed'.xquit = false ∧
    ∃ b', ed'.cur = some b' ∧ b'.id = 2 ∧ b'.path = [98] := by
  obtain ⟨ed', h1, h2, _, _, _, _, _, b', h3, h4, h5, _⟩ :=
    quit_refuses_any_dirty 0 edQ [] [113] [] none (by decide) (by decide) (by decide) rfl 1
      { path := [98], lb := unsavedMark { lines := [[121, 10]] }, id := 2, row := 0, off := 1 } rfl (by decide)
      (by
        intro k b hk hb
        have : k = 0 := by omega
        subst this
        have e : edQ.bufs.getD 0 none = some { path := [97], lb := { lines := [[120, 10]] }, id := 1 } := rfl
        rw [e] at hb; cases hb; decide)
  exact ⟨ed', h1, h2, b', h3, h4, h5⟩

/-! ## (d) `:e path` of an open path -/

/-- **`:e path` of a path that is open never looks at the file system** (autowrite off, no `+cmd`;
    `hg`: the unsaved-changes guard lets go, `hp`: the argument expands to `path`, `hf`: some slot
    holds a buffer of that path): the command is the switch to that slot; run with any other file
    system `fs` in place of the editor's it does the same and leaves `fs` as it is; the file system
    is untouched.  With `cmd = "e!"` the guard is void and the statement covers `:e!` as well: the
    `!` does not force a reload. -/
theorem reedit_open_path_no_reload (f : Nat) (ed ed1 ed2 : Ed) (cmd arg path : Bytes) (fs : List File)
    (haw : ed.xaw = 0)
    (hg : editGuard ed cmd = some (false, ed1))
    (hplus : (arg.dropWhile (· == 32)).headD 0 ≠ 43)
    (hp : pathExpand ed1 (arg.dropWhile (· == 32)) false = some (some path, ed2))
    (hne : path ≠ [])
    (hf : (ewPre ed2 cmd path).bufsFind path ≥ 0) :
    ecEdit (f + 1) ed cmd arg =
      some (0, (ewPre ed2 cmd path).bufsSwitch ((ewPre ed2 cmd path).bufsFind path).toNat) ∧
    ecEdit (f + 1) (withFiles fs ed) cmd arg =
      some (0, withFiles fs ((ewPre ed2 cmd path).bufsSwitch ((ewPre ed2 cmd path).bufsFind path).toNat)) ∧
    ((ewPre ed2 cmd path).bufsSwitch ((ewPre ed2 cmd path).bufsFind path).toNat).files = ed.files :=
  reedit_ignores_files f ed ed1 ed2 cmd arg path fs haw hg hplus hp hne hf

/-- CONJECTURE (false): `:e! path` re-reads the file of a buffer that is already open. -/
def e_bang_reloads : Prop :=
  ∀ (ed ed' : Ed) (r : Int) (path : Bytes) (fl : File), ed.findFile path = some fl → ed.bufsFind path ≥ 0 →
    ecEdit 5 ed [101, 33] path = some (r, ed') → ed'.cur.map (·.lb.lines) = some (splitLines fl.data)

/-- with "c" open and empty while the file "c" holds a line, `:e! c` switches to the buffer and
    leaves it empty (in the C code as in the model: `ec_edit` looks at the `!` for the guard only,
    and `bufs_find(path) >= 0` comes before any `open`).  Only `:e` / `:e!` *without a path*
    re-reads the current file. -/
theorem e_bang_reloads_is_false : ¬ e_bang_reloads := by
  intro h
  have hx : (ecEdit 5 exEd [101, 33] [99]).map (fun r => r.2.cur.map (fun b => b.lb.lines)) = some (some []) := by
    rw [ecEdit]; decide +kernel
  cases he : ecEdit 5 exEd [101, 33] [99] with
  | none => rw [he] at hx; cases hx
  | some x =>
    obtain ⟨r, ed'⟩ := x
    rw [he] at hx
    have := h exEd ed' r [99] ⟨[99], [113, 10], 44⟩ (by decide) (by decide) he
    simp only [Option.map_some, Option.some.injEq] at hx
    rw [hx] at this
    revert this
    decide

-- the hypotheses of `reedit_open_path_no_reload` hold for `:e! c` in `exEd` (where "c" is open)
example : editGuard exEd [101, 33] = some (false, exEd) ∧
    (([99] : Bytes).dropWhile (· == 32)).headD 0 ≠ 43 ∧
    (pathExpand exEd (([99] : Bytes).dropWhile (· == 32)) false).map (·.1) = some (some [99]) ∧
    (ewPre exEd [101, 33] [99]).bufsFind [99] ≥ 0 := by
  refine ⟨rfl, by decide, by decide +kernel, by decide +kernel⟩

end Neatvi.Props.C20c
