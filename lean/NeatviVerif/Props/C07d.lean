import NeatviVerif.Props.C07c
import NeatviVerif.Props.C08b
import NeatviVerif.Props.C17b
import NeatviVerif.Props.C19c
import NeatviVerif.Lemmas.C07dCol
/-!
# C07d  Where the dispatchers `vi_motionln` and `vi_motion` land, key by key

C07 / C07b / C07c prove the scanners of mot.c against the reference.  This file is about the keys
that do not go through a scanner: what `viMotionln` (the LINE motions) and `viMotion` (the CHARACTER
motions) of `Model/Vi.lean` return for them.

The key that the dispatcher reads is described by the hypothesis `viRead s = Res.ok c s1`: this
covers a key pushed back on `vi_buf` as well as a key delivered by the terminal; §0 gives the two
ways to establish it (`viRead_pushed`, `viRead_pending`) and says what `s1` is (`viRead_frame`: only
the key-queue fields `vibuf ibuf ibufPos typed icmd` differ from `s`).  Every landing theorem has the
form `viMotionln row cmd s = Res.ok (c, <row>) s1` resp. `viMotion row off s = Res.ok (c, row, <off>) s1`
with the very same `s1`, so "the key is consumed and nothing else of the state changes" is part of
each statement.

* §0 reading a key: `KeyFrame`, `viRead_pushed`, `viRead_pending`, `viRead_frame`, `viRead_back`
* §1 (V1) the line motions: `viMotionln_down` (`j + RET`), `viMotionln_up` (`k -`), `viMotionln_under` (`_`),
  `viMotionln_doubled` (`dd`, `yy` …), `viMotionln_G`, `viMotionln_H`, `viMotionln_L`, `viMotionln_M`,
  also `viMotionln_percent` (`N%`) and `viMotionln_mark` (`'m`); `viMotionln_other` (any other key is
  pushed back), `viMotionln_row_valid` (the row returned is a row of the buffer).
  The count is `cntOf s`; the hypothesis `1 ≤ cntOf s` is `C05b.cntOf_bounded_of_fit`.
* §2 the reference `refLine` (with `clampI`, `refH`, `refL`, `refM`), `clampRow_eq` /
  `refLine_clampRow` (it is `Spec.Motion.clampRow`), `refLine_valid`, the window facts `refH_window`,
  `refL_window`, `refM_window`, `refHLM_short`, and (V3) **`motion_lands_ln`**, `motion_lands_ln_pending`,
  `viMotionln_other_pending`
* §3 (V2) the character motions: `viMotion_zero`, `viMotion_dollar` (+ `_eol`), `viMotion_caret`
  (+ `_indents`, `_blank`), `viMotion_l`, `viMotion_h` (+ `viMotion_hl_eq`, `viMotion_l_rtl_context`,
  `ascii_line_ltr`), `viMotion_l_visual`, `viMotion_h_visual` (one step on any layout),
  `viMotion_space`, `viMotion_backspace`, `viMotion_bar` (+ `_eq`)
* §4 (V4) examples on the states of `Props/C08b.lean`

What the model does differently from what one might expect (each recorded at the theorem):
* `H` / `L` with a count beyond the window leave the window (`NH` goes below it, `NL` above it, down
  to row 0); only the buffer bounds stop them.  `M` ignores the count.
* `l` and `h` never fail: at the last / first character they return the motion with the same position.
* `SPC` steps onto the offset of the newline (`l` does not); `$`, `^` on a line of blanks and `|` with a
  large count also return that offset; the command loop's `ren_noeol` then rests the cursor on the last
  character (stated as the second conjunct of those theorems).
* `^` on a line of blanks: the model goes to the last blank, the reference function `firstNonBlank`
  returns 0 (its comment says "its last column").
* `|` also sets `vi_pcol`.
* the NUL key is NOT taken by `vi_motionln(row, 0)` as the "doubled operator letter" any more (it was, before
  the repair `cmd != 0 && c == cmd`): `viMotionln_doubled` needs `cmd ≠ 0`, and with `cmd = 0` the NUL key is
  pushed back like any other key (`viMotionln_other`; `Props/C05g.lean` `nul_key_no_motion`).

Not proved here (these are statements that are absent; every theorem in the file is complete):
* the closed form of `Nl` / `Nh` (`min (off + N) lastCol`, `off - N`) is proved for increasing position
  tables (`StrictInc`, i.e. no reordering: all lines without multi-byte characters, all lines longer
  than 256 characters).  For a line with multi-byte characters `ren_position` runs `dir_reorder` with
  the regex sets of dir.c; that this yields the left-to-right table on left-to-right text is not
  proved, so for such lines only the single step (`viMotion_l_visual`, `viMotion_h_visual`: to the
  character displayed immediately to the right / left in the model's own table) is available.
* `'m`: the row is the stored row of the mark (`viMotionln_mark`); that it is a row of the buffer is
  an invariant of `lbuf.c`'s mark maintenance and is not part of this file (hence `mv ≠ 39` in
  `viMotionln_row_valid`).
-/
namespace Neatvi.Props.C07d
open Neatvi Neatvi.Uc Neatvi.Mot Neatvi.Vi Neatvi.Spec Neatvi.Spec.Motion Neatvi.Lemmas.C09 Neatvi.Lemmas.C07d
open Neatvi.Lemmas.C17b (StrictInc)

/-! ## 0. reading a key -/

/-- `s'` differs from `s` at most in the key-queue fields (`vi_buf`, term.c's `ibuf`, the keys not yet
    delivered, and the record `icmd` of the keys read): the text, the registers, the cursor fields, the
    counts, the options are the same -/
def KeyFrame (s s' : VS) : Prop :=
  ∃ vb ib ip ty ic, s' = { s with vibuf := vb, ibuf := ib, ibufPos := ip, typed := ty, icmd := ic }

theorem KeyFrame.refl (s : VS) : KeyFrame s s := ⟨_, _, _, _, _, rfl⟩

theorem KeyFrame.trans {a b c : VS} (h1 : KeyFrame a b) (h2 : KeyFrame b c) : KeyFrame a c := by
  obtain ⟨vb, ib, ip, ty, ic, rfl⟩ := h1
  obtain ⟨vb', ib', ip', ty', ic', rfl⟩ := h2
  exact ⟨vb', ib', ip', ty', ic', rfl⟩

/-- what `KeyFrame` preserves, field by field -/
theorem KeyFrame.fields {s s' : VS} (h : KeyFrame s s') :
    s'.ed = s.ed ∧ s'.xcol = s.xcol ∧ s'.arg1 = s.arg1 ∧ s'.arg2 = s.arg2 ∧
    s'.ybuf = s.ybuf ∧ s'.charlast = s.charlast ∧ s'.charcmd = s.charcmd ∧ s'.pcol = s.pcol ∧
    s'.soset = s.soset ∧ s'.so = s.so ∧ s'.scroll = s.scroll ∧ s'.repCmd = s.repCmd ∧
    s'.execReg = s.execReg ∧ s'.msg = s.msg ∧ s'.xrows = s.xrows ∧ s'.xcols = s.xcols ∧
    s'.xai = s.xai ∧ s'.xkmap = s.xkmap ∧ s'.exKmap = s.exKmap ∧ s'.xkmapAlt = s.xkmapAlt ∧
    s'.unmodelled = s.unmodelled := by
  obtain ⟨vb, ib, ip, ty, ic, rfl⟩ := h
  simp

theorem KeyFrame.lines {s s' : VS} (h : KeyFrame s s') : lines s' = lines s := by
  obtain ⟨vb, ib, ip, ty, ic, rfl⟩ := h; rfl

theorem KeyFrame.lenOf {s s' : VS} (h : KeyFrame s s') : lenOf s' = lenOf s := by
  obtain ⟨vb, ib, ip, ty, ic, rfl⟩ := h; rfl

theorem KeyFrame.cntOf {s s' : VS} (h : KeyFrame s s') : cntOf s' = cntOf s := by
  obtain ⟨vb, ib, ip, ty, ic, rfl⟩ := h; rfl

/-- a key pushed back with `vi_back` is the next key; reading it pops it and changes nothing else -/
theorem viRead_pushed (s : VS) (c : Int) (r : List Int) (hv : s.vibuf = c :: r) :
    viRead s = Res.ok c { s with vibuf := r } := by
  unfold viRead; rw [hv]

theorem viRead_nil (s : VS) (h : s.vibuf = []) : viRead s = termRead s := by
  simp [viRead, h]

/-- with nothing pushed back, the next key is the head `k` of the pending stream of term.c: reading
    it leaves `rest` pending, records `k` in `icmd` and changes nothing else -/
theorem viRead_pending (s : VS) (k : Nat) (rest : Bytes) (hv : s.vibuf = []) (hp : pending s = k :: rest) :
    ∃ s1, viRead s = Res.ok (k : Int) s1 ∧ pending s1 = rest ∧ s1.vibuf = [] ∧
      ∃ ib ip ty, s1 = { s with ibuf := ib, ibufPos := ip, typed := ty, icmd := icmdAfter s.icmd k } := by
  obtain ⟨ib, ip, ty, h1, h2, -⟩ := termRead_ok s k rest hp
  exact ⟨{ s with ibuf := ib, ibufPos := ip, typed := ty, icmd := icmdAfter s.icmd k },
    by rw [viRead_nil s hv]; exact h1, h2, hv, ib, ip, ty, rfl⟩

/-- whatever key `vi_read` returns, only the key-queue fields change -/
theorem viRead_frame (s s1 : VS) (c : Int) (h : viRead s = Res.ok c s1) : KeyFrame s s1 := by
  cases hv : s.vibuf with
  | cons c' r =>
    rw [viRead_pushed s c' r hv] at h
    injection h with _ hs
    subst hs
    exact ⟨_, _, _, _, _, rfl⟩
  | nil =>
    rw [viRead_nil s hv] at h
    cases hp : pending s with
    | nil => rw [termRead_eof s hp] at h; cases h
    | cons k rest =>
      obtain ⟨ib, ip, ty, h1, -⟩ := termRead_ok s k rest hp
      rw [h1] at h
      injection h with _ hs
      subst hs
      exact ⟨_, _, _, _, _, by rw [hv]⟩

/-- pushing the key back and reading again gives the same key and the same state -/
theorem viRead_back (s1 : VS) (c : Int) :
    viRead { s1 with vibuf := c :: s1.vibuf } = Res.ok c s1 := by
  unfold viRead; rfl

/-! ## 1. (V1) the line motions -/

/-- a count was typed (`vi_arg1` or `vi_arg2` is set) -/
def hasCount (s : VS) : Bool := s.arg1 != 0 || s.arg2 != 0

/-- `j` (106), `+` (43), RET (10): `cnt` lines down, stopping at the last line -/
theorem viMotionln_down (row cmd : Int) (s s1 : VS) (c : Int) (hrd : viRead s = Res.ok c s1)
    (hc : c = 106 ∨ c = 43 ∨ c = 10) (h0 : 0 ≤ row) (h1 : row < lenOf s) (hcnt : 1 ≤ cntOf s) :
    viMotionln row cmd s = Res.ok (c, min (row + cntOf s) (lenOf s - 1)) s1 := by
  unfold viMotionln
  simp only [bind, Vi.get, hrd, pure]
  have hneg : ¬ (min (row + cntOf s) (lenOf s - 1) < 0) := by omega
  rcases hc with rfl | rfl | rfl <;> simp [hneg]

/-- `k` (107), `-` (45): `cnt` lines up, stopping at the first line -/
theorem viMotionln_up (row cmd : Int) (s s1 : VS) (c : Int) (hrd : viRead s = Res.ok c s1)
    (hc : c = 107 ∨ c = 45) :
    viMotionln row cmd s = Res.ok (c, max (row - cntOf s) 0) s1 := by
  unfold viMotionln
  simp only [bind, Vi.get, hrd, pure]
  have hneg : ¬ (max (row - cntOf s) 0 < 0) := by omega
  rcases hc with rfl | rfl <;> simp [hneg]

/-- `_` (95): `cnt - 1` lines down, stopping at the last line -/
theorem viMotionln_under (row cmd : Int) (s s1 : VS) (hrd : viRead s = Res.ok 95 s1)
    (h0 : 0 ≤ row) (h1 : row < lenOf s) (hcnt : 1 ≤ cntOf s) :
    viMotionln row cmd s = Res.ok (95, min (row + cntOf s - 1) (lenOf s - 1)) s1 := by
  unfold viMotionln
  simp only [bind, Vi.get, hrd, pure]
  have hneg : ¬ (min (row + cntOf s - 1) (lenOf s - 1) < 0) := by omega
  simp [hneg]

/-- the keys `vi_motionln` tests before it compares the key with the operator letter -/
def lineKeyBefore (c : Int) : Bool :=
  c == 10 || c == 43 || c == 45 || c == 95 || c == 39 || c == 106 || c == 107 || c == 71 || c == 72 ||
  c == 76 || c == 77

/-- the doubled operator letter (`dd`, `yy`, `>>` …: the key equals `cmd`, and is none of the keys
    tested first): like `_`.  With `cmd = 0` (the call from `vi_motion`) there is no operator letter: a NUL
    key is not a motion (`hcmd0`; it is pushed back, `viMotionln_other`). -/
theorem viMotionln_doubled (row cmd : Int) (s s1 : VS) (hrd : viRead s = Res.ok cmd s1) (hcmd0 : cmd ≠ 0)
    (hnk : lineKeyBefore cmd = false) (h0 : 0 ≤ row) (h1 : row < lenOf s) (hcnt : 1 ≤ cntOf s) :
    viMotionln row cmd s = Res.ok (cmd, min (row + cntOf s - 1) (lenOf s - 1)) s1 := by
  unfold lineKeyBefore at hnk
  simp only [Bool.or_eq_false_iff] at hnk
  obtain ⟨⟨⟨⟨⟨⟨⟨⟨⟨⟨a1, a2⟩, a3⟩, a4⟩, a5⟩, a6⟩, a7⟩, a8⟩, a9⟩, a10⟩, a11⟩ := hnk
  unfold viMotionln
  simp only [bind, Vi.get, hrd, pure]
  have hneg : ¬ (min (row + cntOf s - 1) (lenOf s - 1) < 0) := by omega
  simp [a1, a2, a3, a4, a5, a6, a7, a8, a9, a10, a11, hneg, hcmd0]

/-- `G` (71): with a count to line `cnt` (row `cnt - 1`), stopping at the last line; without a count
    to the last line -/
theorem viMotionln_G (row cmd : Int) (s s1 : VS) (hrd : viRead s = Res.ok 71 s1)
    (hn : 0 < lenOf s) (hcnt : 1 ≤ cntOf s) :
    viMotionln row cmd s =
      Res.ok (71, if hasCount s then min (cntOf s - 1) (lenOf s - 1) else lenOf s - 1) s1 := by
  unfold viMotionln
  simp only [bind, Vi.get, hrd, pure]
  unfold hasCount
  by_cases hh : (s.arg1 != 0 || s.arg2 != 0) = true
  · have hneg : ¬ (min (cntOf s - 1) (lenOf s - 1) < 0) := by omega
    simp only [hh, if_true]
    simp [hneg]
  · have hneg : ¬ (lenOf s - 1 < 0) := by omega
    simp only [hh]
    simp [hneg]

/-- `H` (72): the `cnt`-th line of the window, i.e. row `xtop + cnt - 1`, stopping at the last line
    of the buffer (and at row 0 should `xtop` be negative).  The model does not stop at the bottom of
    the window: with `cnt > xrows` it lands below the window. -/
theorem viMotionln_H (row cmd : Int) (s s1 : VS) (hrd : viRead s = Res.ok 72 s1) :
    viMotionln row cmd s =
      Res.ok (72, max 0 (min (s.ed.xtop + cntOf s - 1) (lenOf s - 1))) s1 := by
  unfold viMotionln
  simp only [bind, Vi.get, hrd, pure]
  by_cases hneg : min (s.ed.xtop + cntOf s - 1) (lenOf s - 1) < 0
  · simp [hneg]; omega
  · simp [hneg]; omega

/-- `L` (76): the `cnt`-th line from the bottom of the window: row `xtop + xrows - 1 - cnt + 1`
    `= xtop + xrows - cnt`, stopping at the last line of the buffer and at row 0.  The model does not
    stop at the top of the window: with `cnt > xrows` it lands above the window. -/
theorem viMotionln_L (row cmd : Int) (s s1 : VS) (hrd : viRead s = Res.ok 76 s1) :
    viMotionln row cmd s =
      Res.ok (76, max 0 (min (s.ed.xtop + s.xrows - cntOf s) (lenOf s - 1))) s1 := by
  unfold viMotionln
  simp only [bind, Vi.get, hrd, pure]
  by_cases hneg : min (s.ed.xtop + s.xrows - 1 - cntOf s + 1) (lenOf s - 1) < 0
  · simp [hneg]; omega
  · simp [hneg]; omega

/-- `M` (77): the middle line of the window, row `xtop + xrows / 2` (the count is ignored), stopping
    at the last line of the buffer -/
theorem viMotionln_M (row cmd : Int) (s s1 : VS) (hrd : viRead s = Res.ok 77 s1) :
    viMotionln row cmd s =
      Res.ok (77, max 0 (min (s.ed.xtop + s.xrows / 2) (lenOf s - 1))) s1 := by
  unfold viMotionln
  simp only [bind, Vi.get, hrd, pure]
  by_cases hneg : min (s.ed.xtop + s.xrows / 2) (lenOf s - 1) < 0
  · simp [hneg]; omega
  · simp [hneg]; omega

/-- `N%` (37 with a count; not the doubled operator letter): to the line at `cnt` percent of the
    buffer, row `(n - 1) * cnt / 100`; it fails (`mv = -1`, the row handed back) for `cnt > 100`.
    Without a count `%` is not a line motion (it is pushed back, `viMotionln_other`). -/
theorem viMotionln_percent (row cmd : Int) (s s1 : VS) (hrd : viRead s = Res.ok 37 s1)
    (hcmd : cmd ≠ 37) (hcount : hasCount s = true) (hn : 0 < lenOf s) (hcnt : 1 ≤ cntOf s) :
    viMotionln row cmd s =
      if cntOf s > 100 then Res.ok (-1, row) s1 else Res.ok (37, (lenOf s - 1) * cntOf s / 100) s1 := by
  unfold hasCount at hcount
  unfold viMotionln
  simp only [bind, Vi.get, hrd, pure]
  have hcmd' : ((37 : Int) == cmd) = false := by simp; omega
  have hm : max 0 (lenOf s - 1) = lenOf s - 1 := by omega
  by_cases hbig : cntOf s > 100
  · simp [hcmd', hcount, hbig]
  · have hx : 0 ≤ (lenOf s - 1) * cntOf s := Int.mul_nonneg (by omega) (by omega)
    have hneg : ¬ ((lenOf s - 1) * cntOf s / 100 < 0) := by
      have := Int.ediv_nonneg hx (show (0 : Int) ≤ 100 by omega)
      omega
    simp [hcmd', hcount, hbig, hm, hneg]

/-- `'m` (39 and a mark name): the row of the mark, `mv = -1` and the row handed back when the name is
    an interrupt key / NUL or the mark is not set -/
theorem viMotionln_mark (row cmd : Int) (s s1 s2 : VS) (m : Int) (hrd : viRead s = Res.ok 39 s1)
    (hrd2 : viRead s1 = Res.ok m s2) :
    viMotionln row cmd s =
      if m ≤ 0 then Res.ok (-1, row) s2 else
      match s.ed.lb.bind (fun lb => Lbuf.jump lb m.toNat) with
      | none => Res.ok (-1, row) s2
      | some (p, _) => Res.ok (39, max 0 p) s2 := by
  unfold viMotionln
  simp only [bind, Vi.get, hrd, pure]
  by_cases hm : m ≤ 0
  · simp [hrd2, hm]
  · simp only [hm, if_false]
    cases hj : s.ed.lb.bind (fun lb => Lbuf.jump lb m.toNat) with
    | none => simp [hrd2, hm, hj]
    | some pq =>
      obtain ⟨p, q⟩ := pq
      by_cases hp : p < 0
      · simp [hrd2, hm, hj, hp]; omega
      · simp [hrd2, hm, hj, hp]; omega

/-- the keys that are line motions whatever the operator and the count -/
def isLineKey (c : Int) : Bool :=
  c == 106 || c == 43 || c == 10 || c == 107 || c == 45 || c == 95 || c == 71 || c == 72 || c == 76 || c == 77

/-- **a key that is not a line motion is pushed back** and `(0, row)` returned: not one of
    `j + RET k - _ G H L M '`, not the operator letter (when there is one: with `cmd = 0` every such key is
    pushed back, the NUL key included), and `%` only without a count -/
theorem viMotionln_other (row cmd : Int) (s s1 : VS) (c : Int) (hrd : viRead s = Res.ok c s1)
    (hk : isLineKey c = false) (h39 : c ≠ 39) (hcmd : cmd ≠ 0 → c ≠ cmd) (h37 : c = 37 → hasCount s = false) :
    viMotionln row cmd s = Res.ok (0, row) { s1 with vibuf := c :: s1.vibuf } := by
  unfold isLineKey at hk
  simp only [Bool.or_eq_false_iff] at hk
  obtain ⟨⟨⟨⟨⟨⟨⟨⟨⟨a1, a2⟩, a3⟩, a4⟩, a5⟩, a6⟩, a7⟩, a8⟩, a9⟩, a10⟩ := hk
  have a11 : (c == 39) = false := by simp; exact h39
  have a12 : (cmd != 0 && c == cmd) = false := by
    by_cases h : cmd = 0
    · subst h; rfl
    · have : (c == cmd) = false := by simp; exact hcmd h
      rw [this, Bool.and_false]
  have a13 : (c == 37 && (s.arg1 != 0 || s.arg2 != 0)) = false := by
    by_cases h : c = 37
    · have := h37 h; unfold hasCount at this; rw [this]; simp
    · have : (c == 37) = false := by simp; exact h
      rw [this]; rfl
  unfold viMotionln
  simp only [bind, Vi.get, hrd, pure, a1, a2, a3, a4, a5, a6, a7, a8, a9, a10, a11, a12, a13,
    Bool.false_eq_true, if_false, Bool.or_self, viBack, Vi.modify]

/-- **`viMotionln_row_valid`**: whatever the key (the mark motion `'` aside, whose row is the stored
    row of the mark), the row returned lies in the buffer, provided the row given does -/
theorem viMotionln_row_valid (row cmd : Int) (s s' : VS) (mv r : Int)
    (h : viMotionln row cmd s = Res.ok (mv, r) s') (hmv : mv ≠ 39)
    (h0 : 0 ≤ row) (h1 : row < lenOf s) (hcnt : 1 ≤ cntOf s) :
    0 ≤ r ∧ r < lenOf s := by
  have hn : 0 < lenOf s := by omega
  cases hrd : viRead s with
  | eof => unfold viMotionln at h; simp [bind, Vi.get, hrd] at h
  | trap => unfold viMotionln at h; simp [bind, Vi.get, hrd] at h
  | ok c s1 =>
    by_cases c1 : c = 106 ∨ c = 43 ∨ c = 10
    · rw [viMotionln_down row cmd s s1 c hrd c1 h0 h1 hcnt] at h
      injection h with h _; injection h with _ h; omega
    by_cases c2 : c = 107 ∨ c = 45
    · rw [viMotionln_up row cmd s s1 c hrd c2] at h
      injection h with h _; injection h with _ h; omega
    by_cases c3 : c = 95
    · subst c3
      rw [viMotionln_under row cmd s s1 hrd h0 h1 hcnt] at h
      injection h with h _; injection h with _ h; omega
    by_cases c4 : c = 71
    · subst c4
      rw [viMotionln_G row cmd s s1 hrd hn hcnt] at h
      injection h with h _; injection h with _ h
      split at h <;> omega
    by_cases c5 : c = 72
    · subst c5
      rw [viMotionln_H row cmd s s1 hrd] at h
      injection h with h _; injection h with _ h; omega
    by_cases c6 : c = 76
    · subst c6
      rw [viMotionln_L row cmd s s1 hrd] at h
      injection h with h _; injection h with _ h; omega
    by_cases c7 : c = 77
    · subst c7
      rw [viMotionln_M row cmd s s1 hrd] at h
      injection h with h _; injection h with _ h; omega
    by_cases c8 : c = 39
    · subst c8
      cases hrd2 : viRead s1 with
      | eof => unfold viMotionln at h; simp [bind, Vi.get, hrd, hrd2] at h
      | trap => unfold viMotionln at h; simp [bind, Vi.get, hrd, hrd2] at h
      | ok m s2 =>
        rw [viMotionln_mark row cmd s s1 s2 m hrd hrd2] at h
        split at h
        · injection h with h _; injection h with _ h; omega
        · split at h
          · injection h with h _; injection h with _ h; omega
          · injection h with h _; injection h with h _; omega
    have hlk : lineKeyBefore c = false := by
      unfold lineKeyBefore
      simp only [Bool.or_eq_false_iff, beq_eq_false_iff_ne, ne_eq]
      omega
    by_cases c9 : cmd ≠ 0 ∧ c = cmd
    · obtain ⟨c90, c9⟩ := c9
      subst c9
      rw [viMotionln_doubled row c s s1 hrd c90 hlk h0 h1 hcnt] at h
      injection h with h _; injection h with _ h; omega
    by_cases c10 : c = 37 ∧ hasCount s = true
    · obtain ⟨c10, hc⟩ := c10
      subst c10
      rw [viMotionln_percent row cmd s s1 hrd (fun e => c9 ⟨by omega, e.symm⟩) hc hn hcnt] at h
      split at h
      · injection h with h _; injection h with _ h; omega
      · rename_i hbig
        injection h with h _; injection h with _ h
        have hx : 0 ≤ (lenOf s - 1) * cntOf s := Int.mul_nonneg (by omega) (by omega)
        have hy : (lenOf s - 1) * cntOf s ≤ (lenOf s - 1) * 100 :=
          Int.mul_le_mul_of_nonneg_left (by omega) (by omega)
        generalize (lenOf s - 1) * cntOf s = X at *
        omega
    · have hik : isLineKey c = false := by
        unfold isLineKey
        simp only [Bool.or_eq_false_iff, beq_eq_false_iff_ne, ne_eq]
        omega
      rw [viMotionln_other row cmd s s1 c hrd hik c8 (fun e0 e => c9 ⟨e0, e⟩) (fun e => by
        cases hh : hasCount s with
        | false => rfl
        | true => exact absurd ⟨e, hh⟩ c10)] at h
      injection h with h _; injection h with _ h; omega

/-! ## 2. the reference for the line motions, and (V3) `motion_lands_ln` -/

/-- a row clamped into the buffer of `n` lines -/
def clampI (n r : Int) : Int := max 0 (min r (n - 1))

/-- `clampI` is the reference's `clampRow` (`Spec/Motion.lean`) on a non-empty buffer -/
theorem clampRow_eq (b : Motion.Buf) (r : Int) (hb : 0 < b.length) :
    (clampRow b r : Int) = clampI (b.length : Int) r := by
  unfold clampRow clampI
  split <;> omega

/-- in particular on the reference buffer of the model's lines -/
theorem clampRow_refBufU (s : VS) (r : Int) (hn : 0 < lenOf s) :
    (clampRow (Lemmas.C07c.refBufU (lines s)) r : Int) = clampI (lenOf s) r := by
  have hl : (Lemmas.C07c.refBufU (lines s)).length = (lines s).length := C07c.refBufU_length _
  have hpos : 0 < (Lemmas.C07c.refBufU (lines s)).length := by
    rw [hl]; unfold lenOf at hn; omega
  rw [clampRow_eq _ _ hpos, hl]; rfl

theorem clampI_range (n r : Int) (hn : 0 < n) : 0 ≤ clampI n r ∧ clampI n r < n := by
  unfold clampI; omega

set_option linter.unusedVariables false in
/-- `H`: the `cnt`-th line of the window that starts at row `top` (`rows` is not used: the model does
    not stop at the bottom of the window) -/
def refH (top rows cnt n : Int) : Int := clampI n (top + cnt - 1)
/-- `L`: the `cnt`-th line from the bottom of the window of `rows` lines that starts at row `top` -/
def refL (top rows cnt n : Int) : Int := clampI n (top + rows - cnt)
/-- `M`: the middle line of the window -/
def refM (top rows n : Int) : Int := clampI n (top + rows / 2)

/-- when the window `[top, top + rows - 1]` lies inside the buffer and `cnt ≤ rows`, `H` lands on
    line `cnt` of the window ... -/
theorem refH_window (top rows cnt n : Int) (ht : 0 ≤ top) (hw : top + rows ≤ n) (hc1 : 1 ≤ cnt) (hc : cnt ≤ rows) :
    refH top rows cnt n = top + cnt - 1 ∧ top ≤ refH top rows cnt n ∧ refH top rows cnt n ≤ top + rows - 1 := by
  unfold refH clampI; omega

/-- ... `L` on line `cnt` from its bottom ... -/
theorem refL_window (top rows cnt n : Int) (ht : 0 ≤ top) (hw : top + rows ≤ n) (hc1 : 1 ≤ cnt) (hc : cnt ≤ rows) :
    refL top rows cnt n = top + rows - cnt ∧ top ≤ refL top rows cnt n ∧ refL top rows cnt n ≤ top + rows - 1 := by
  unfold refL clampI; omega

/-- ... and `M` on its middle line -/
theorem refM_window (top rows n : Int) (ht : 0 ≤ top) (hw : top + rows ≤ n) (hr : 1 ≤ rows) :
    refM top rows n = top + rows / 2 ∧ top ≤ refM top rows n ∧ refM top rows n ≤ top + rows - 1 := by
  unfold refM clampI; omega

/-- when the buffer ends inside the window (`top ≤ n - 1 < top + rows - 1`, a short buffer), the three
    still land inside the part of the window that shows lines, `[top, n - 1]` -/
theorem refHLM_short (top rows cnt n : Int) (ht : 0 ≤ top) (htn : top < n) (hc1 : 1 ≤ cnt) (hc : cnt ≤ rows) :
    (top ≤ refH top rows cnt n ∧ refH top rows cnt n ≤ n - 1) ∧
    (top ≤ refL top rows cnt n ∧ refL top rows cnt n ≤ n - 1) ∧
    (top ≤ refM top rows n ∧ refM top rows n ≤ n - 1) := by
  unfold refH refL refM clampI; omega

/-- **the reference for the line motions**: the row on which key `k` lands from `row`, in a buffer of
    `n` lines, with the window of `rows` lines starting at `top`.  `k` is one of `j + RET` (down),
    `k -` (up), `_` (and the doubled operator letter, which is looked up as `_`), `G`, `H`, `L`, `M`. -/
def refLine (k : Int) (cnt row n top rows : Int) (hasCount : Bool) : Int :=
  if k = 106 ∨ k = 43 ∨ k = 10 then clampI n (row + cnt)
  else if k = 107 ∨ k = 45 then clampI n (row - cnt)
  else if k = 95 then clampI n (row + cnt - 1)
  else if k = 71 then (if hasCount then clampI n (cnt - 1) else n - 1)
  else if k = 72 then refH top rows cnt n
  else if k = 76 then refL top rows cnt n
  else if k = 77 then refM top rows n
  else row

/-- the reference row is a row of the buffer -/
theorem refLine_valid (k cnt row n top rows : Int) (hc : Bool) (hn : 0 < n) (h0 : 0 ≤ row) (h1 : row < n) :
    0 ≤ refLine k cnt row n top rows hc ∧ refLine k cnt row n top rows hc < n := by
  unfold refLine refH refL refM
  repeat' split
  all_goals first | exact clampI_range _ _ hn | omega

/-- the reference in the vocabulary of `Spec/Motion.lean`: `j + RET` is `clampRow (row + cnt)`,
    `k -` is `clampRow (row - cnt)`, `_` is `clampRow (row + cnt - 1)`, `NG` is `clampRow (N - 1)` -/
theorem refLine_clampRow (b : Motion.Buf) (hb : 0 < b.length) (cnt row top rows : Int) (hc : Bool) :
    (∀ k, k = 106 ∨ k = 43 ∨ k = 10 → refLine k cnt row b.length top rows hc = clampRow b (row + cnt)) ∧
    (∀ k, k = 107 ∨ k = 45 → refLine k cnt row b.length top rows hc = clampRow b (row - cnt)) ∧
    refLine 95 cnt row b.length top rows hc = clampRow b (row + cnt - 1) ∧
    refLine 71 cnt row b.length top rows true = clampRow b (cnt - 1) ∧
    refLine 71 cnt row b.length top rows false = (b.length : Int) - 1 := by
  refine ⟨?_, ?_, ?_, ?_, ?_⟩
  · intro k hk; unfold refLine; rw [if_pos hk, clampRow_eq b _ hb]
  · intro k hk
    unfold refLine
    rw [if_neg (by omega), if_pos hk, clampRow_eq b _ hb]
  · rw [clampRow_eq b _ hb]; rfl
  · rw [clampRow_eq b _ hb]; rfl
  · rfl

/-- the key to look up in `refLine`: a line key is itself, the doubled operator letter is `_` -/
def refKey (c : Int) : Int := if isLineKey c then c else 95

/-- **(V3) `motion_lands_ln`**: for each of the line-motion keys `j + RET k - _ G H L M` and for the
    doubled operator letter, `vi_motionln` returns the key as the motion and lands on the row the
    reference `refLine` defines from the row it was given, the count `vi_cnt()`, the number of lines and
    the window; the key is consumed (the final state is the one `vi_read` left, see `viRead_frame`) and
    nothing else changes.  The motion never fails (these keys have no failing case in the reference:
    they stop at the first / last line). -/
theorem motion_lands_ln (row cmd : Int) (s s1 : VS) (c : Int) (hrd : viRead s = Res.ok c s1)
    (hk : isLineKey c = true ∨ (c = cmd ∧ c ≠ 39 ∧ c ≠ 0))
    (h0 : 0 ≤ row) (h1 : row < lenOf s) (hcnt : 1 ≤ cntOf s) :
    viMotionln row cmd s =
      Res.ok (c, refLine (refKey c) (cntOf s) row (lenOf s) s.ed.xtop s.xrows (hasCount s)) s1 := by
  have hn : 0 < lenOf s := by omega
  by_cases hlk : isLineKey c = true
  · have hrk : refKey c = c := by unfold refKey; rw [if_pos hlk]
    rw [hrk]
    unfold isLineKey at hlk
    simp only [Bool.or_eq_true, beq_iff_eq] at hlk
    rcases hlk with ((((((((rfl | rfl) | rfl) | rfl) | rfl) | rfl) | rfl) | rfl) | rfl) | rfl
    · rw [viMotionln_down row cmd s s1 _ hrd (by omega) h0 h1 hcnt]
      unfold refLine clampI; simp; omega
    · rw [viMotionln_down row cmd s s1 _ hrd (by omega) h0 h1 hcnt]
      unfold refLine clampI; simp; omega
    · rw [viMotionln_down row cmd s s1 _ hrd (by omega) h0 h1 hcnt]
      unfold refLine clampI; simp; omega
    · rw [viMotionln_up row cmd s s1 _ hrd (by omega)]
      unfold refLine clampI; simp; omega
    · rw [viMotionln_up row cmd s s1 _ hrd (by omega)]
      unfold refLine clampI; simp; omega
    · rw [viMotionln_under row cmd s s1 hrd h0 h1 hcnt]
      unfold refLine clampI; simp; omega
    · rw [viMotionln_G row cmd s s1 hrd hn hcnt]
      unfold refLine clampI
      cases hasCount s <;> simp
      omega
    · rw [viMotionln_H row cmd s s1 hrd]; rfl
    · rw [viMotionln_L row cmd s s1 hrd]; rfl
    · rw [viMotionln_M row cmd s s1 hrd]; rfl
  · have hlk' : isLineKey c = false := by simpa using hlk
    rcases hk with hk | ⟨rfl, h39, hc0⟩
    · exact absurd hk hlk
    · have hrk : refKey c = 95 := by unfold refKey; rw [if_neg hlk]
      have hb : lineKeyBefore c = false := by
        unfold isLineKey at hlk'
        unfold lineKeyBefore
        simp only [Bool.or_eq_false_iff, beq_eq_false_iff_ne, ne_eq] at hlk' ⊢
        omega
      rw [hrk, viMotionln_doubled row c s s1 hrd hc0 hb h0 h1 hcnt]
      unfold refLine clampI; simp; omega

/-- `motion_lands_ln` for a key typed at the terminal: with nothing pushed back and `k :: rest`
    pending, the motion is `k`, the row is the reference's, `rest` is pending afterwards, and the final
    state is `s` with `k` moved from the queue to `icmd` -/
theorem motion_lands_ln_pending (row cmd : Int) (s : VS) (k : Nat) (rest : Bytes)
    (hv : s.vibuf = []) (hp : pending s = k :: rest)
    (hk : isLineKey (k : Int) = true ∨ ((k : Int) = cmd ∧ k ≠ 39 ∧ k ≠ 0))
    (h0 : 0 ≤ row) (h1 : row < lenOf s) (hcnt : 1 ≤ cntOf s) :
    ∃ s1, viMotionln row cmd s =
        Res.ok ((k : Int), refLine (refKey k) (cntOf s) row (lenOf s) s.ed.xtop s.xrows (hasCount s)) s1 ∧
      pending s1 = rest ∧ s1.vibuf = [] ∧
      ∃ ib ip ty, s1 = { s with ibuf := ib, ibufPos := ip, typed := ty, icmd := icmdAfter s.icmd k } := by
  obtain ⟨s1, h1', h2, h3, h4⟩ := viRead_pending s k rest hv hp
  refine ⟨s1, motion_lands_ln row cmd s s1 k h1' ?_ h0 h1 hcnt, h2, h3, h4⟩
  rcases hk with hk | ⟨hk, h39, hk0⟩
  · exact Or.inl hk
  · exact Or.inr ⟨hk, by omega, by omega⟩

/-- a key that is not a line motion, typed at the terminal: it is pushed back (so it is the next key
    again), `(0, row)` is returned, and `rest` is still what follows it -/
theorem viMotionln_other_pending (row cmd : Int) (s : VS) (k : Nat) (rest : Bytes)
    (hv : s.vibuf = []) (hp : pending s = k :: rest)
    (hk : isLineKey (k : Int) = false) (h39 : k ≠ 39) (hcmd : cmd ≠ 0 → (k : Int) ≠ cmd)
    (h37 : k = 37 → hasCount s = false) :
    ∃ s1, viMotionln row cmd s = Res.ok (0, row) s1 ∧ s1.vibuf = [(k : Int)] ∧ pending s1 = rest ∧
      viRead s1 = Res.ok (k : Int) { s1 with vibuf := [] } ∧
      ∃ ib ip ty, s1 = { s with vibuf := [(k : Int)], ibuf := ib, ibufPos := ip, typed := ty,
                                icmd := icmdAfter s.icmd k } := by
  obtain ⟨s1, h1', h2, h3, ib, ip, ty, h4⟩ := viRead_pending s k rest hv hp
  refine ⟨_, viMotionln_other row cmd s s1 k h1' hk (by omega) hcmd (fun e => h37 (by omega)), ?_, ?_, ?_, ?_⟩
  · simp only [h3]
  · exact h2
  · rw [viRead_pushed _ (k : Int) [] (by simp only [h3])]
  · refine ⟨ib, ip, ty, ?_⟩
    subst h4
    simp only [hv]

/-! ## 3. (V2) the character motions that do not use a word / character / bracket scanner

`vi_motion` first calls `vi_motionln(row, 0)`, which pushes a key that is not a line motion back, and
reads it again: the state in which the key is dispatched is the `s1` that `vi_read` left. -/

theorem KeyFrame.nextcol {s s' : VS} (h : KeyFrame s s') : nextcol s' = nextcol s := by
  obtain ⟨vb, ib, ip, ty, ic, rfl⟩ := h; rfl

theorem KeyFrame.col2off {s s' : VS} (h : KeyFrame s s') : col2off s' = col2off s := by
  obtain ⟨vb, ib, ip, ty, ic, rfl⟩ := h; rfl

/-- a character-motion key goes through `vi_motionln(row, 0)` unchanged: it is pushed back -/
theorem viMotionln_char_key (row : Int) (s s1 : VS) (mv : Int) (hrd : viRead s = Res.ok mv s1)
    (hk : isLineKey mv = false) (h39 : mv ≠ 39) (h0 : mv ≠ 0) (h37 : mv ≠ 37) :
    viMotionln row 0 s = Res.ok (0, row) { s1 with vibuf := mv :: s1.vibuf } :=
  viMotionln_other row 0 s s1 mv hrd hk h39 (fun _ => h0) (fun h => absurd h h37)

/-- `0` (48): to offset 0; the offset given does not matter -/
theorem viMotion_zero (row off : Int) (s s1 : VS) (hrd : viRead s = Res.ok 48 s1) :
    viMotion row off s = Res.ok (48, row, 0) s1 := by
  have h1 := viMotionln_char_key row s s1 48 hrd (by decide) (by decide) (by decide) (by decide)
  unfold viMotion
  simp only [bind, Vi.get, h1, bne_self_eq_false, Bool.false_eq_true, if_false, viRead_back]
  simp [pure]

/-- `$` (36): to `lbuf_eol` of the row (the count is ignored by `vi_motion`) -/
theorem viMotion_dollar_eol (row off : Int) (s s1 : VS) (hrd : viRead s = Res.ok 36 s1) :
    viMotion row off s = Res.ok (36, row, eol (lines s) row) s1 := by
  have h1 := viMotionln_char_key row s s1 36 hrd (by decide) (by decide) (by decide) (by decide)
  unfold viMotion
  simp only [bind, Vi.get, h1, bne_self_eq_false, Bool.false_eq_true, if_false, viRead_back]
  simp [pure, (viRead_frame s s1 _ hrd).lines]

/-- **`$`** on a valid UTF-8 line `body ++ "\n"`: `vi_motion` returns the offset of the newline,
    `body.length` (`C07c.eol_utf8`); the cursor the command loop then rests on (`ren_noeol`) is the
    reference's last column `lastCol body` -/
theorem viMotion_dollar (row off : Int) (s s1 : VS) (body : List Nat) (hrd : viRead s = Res.ok 36 s1)
    (hline : lineAt (lines s) row = some (encStr (body ++ [10]))) (hb : ∀ c ∈ body, ValidCp c) :
    viMotion row off s = Res.ok (36, row, (body.length : Int)) s1 ∧
      Ren.renNoeol (encStr (body ++ [10])) (body.length : Int) = lastCol body := by
  obtain ⟨e1, e2⟩ := C07c.eol_utf8 (lines s) row body hline hb
  rw [viMotion_dollar_eol row off s s1 hrd, e1]
  rw [e1] at e2
  exact ⟨rfl, e2⟩

/-- `^` (94): to `lbuf_indents` of the row -/
theorem viMotion_caret_indents (row off : Int) (s s1 : VS) (hrd : viRead s = Res.ok 94 s1) :
    viMotion row off s = Res.ok (94, row, indents (lines s) row) s1 := by
  have h1 := viMotionln_char_key row s s1 94 hrd (by decide) (by decide) (by decide) (by decide)
  unfold viMotion
  simp only [bind, Vi.get, h1, bne_self_eq_false, Bool.false_eq_true, if_false, viRead_back]
  simp [pure, (viRead_frame s s1 _ hrd).lines]

/-- **`^`** on a UTF-8 line with a non-blank character `x` after the leading blanks `pre`: the offset
    of `x`, which is the reference's `firstNonBlank` (`C07c.indents_firstNonBlank_utf8`) -/
theorem viMotion_caret (row off : Int) (s s1 : VS) (pre rest : List Nat) (x : Nat)
    (hrd : viRead s = Res.ok 94 s1)
    (hline : lineAt (lines s) row = some (encStr (pre ++ x :: rest ++ [10])))
    (hpre : ∀ b ∈ pre, isBlank b = true) (hx : ValidCp x) (hxs : cls x ≠ 0) :
    viMotion row off s = Res.ok (94, row, ((firstNonBlank (pre ++ x :: rest) : Nat) : Int)) s1 ∧
      firstNonBlank (pre ++ x :: rest) = pre.length := by
  obtain ⟨e1, e2⟩ := C07c.indents_firstNonBlank_utf8 (lines s) row pre rest x hline hpre hx hxs
  rw [viMotion_caret_indents row off s s1 hrd, e1, e2]
  exact ⟨rfl, rfl⟩

/-- `^` on a line `w ++ "\n"` of blanks only: `vi_motion` returns the offset of the newline, `w.length`
    (`C07.indents_blank_line`), and the cursor then rests (`ren_noeol`) on the last blank, `lastCol w`.
    The reference function `firstNonBlank` returns 0 for such a line: **here the model and the
    function differ** (for a non-empty `w`); the model does what the comment of `firstNonBlank`
    says ("of a line of blanks: its last column") and what vi does. -/
theorem viMotion_caret_blank (row off : Int) (s s1 : VS) (w : Bytes) (hrd : viRead s = Res.ok 94 s1)
    (hline : lineAt (lines s) row = some (w ++ [10])) (hw : ∀ b ∈ w, isBlank b = true) :
    viMotion row off s = Res.ok (94, row, (w.length : Int)) s1 ∧
      Ren.renNoeol (w ++ [10]) (w.length : Int) = lastCol w := by
  have e1 := C07.indents_blank_line (lines s) row w hline hw
  rw [viMotion_caret_indents row off s s1 hrd, e1]
  refine ⟨rfl, ?_⟩
  have hv : ∀ c ∈ w, ValidCp c := by
    intro c hc
    have := hw c hc
    unfold isBlank at this
    simp only [Bool.or_eq_true, beq_iff_eq] at this
    unfold ValidCp; omega
  have h128 : ∀ b ∈ w ++ [10], b < 128 := by
    intro b hb
    rcases List.mem_append.mp hb with hb | hb
    · have := hw b hb
      unfold isBlank at this
      simp only [Bool.or_eq_true, beq_iff_eq] at this
      omega
    · simp at hb; omega
  have henc : encStr (w ++ [10]) = w ++ [10] := Lemmas.C08b.encStr_ascii _ h128
  have hline' : lineAt (lines s) row = some (encStr (w ++ [10])) := by rw [henc]; exact hline
  obtain ⟨a1, a2⟩ := C07c.eol_utf8 (lines s) row w hline' hv
  rw [a1, henc] at a2
  exact a2

/-! ### `l` and `h`: through `vi_nextcol` and the position table -/

/-- `l` (108) and `h` (104) repeat `vi_nextcol` `cnt` times, `l` in the direction of the line's
    context (`dir_context`), `h` against it, and stop at the first failure; they never fail -/
theorem viMotion_hl_eq (row off : Int) (s s1 : VS) (mv : Int) (hmv : mv = 104 ∨ mv = 108)
    (hrd : viRead s = Res.ok mv s1) :
    viMotion row off s =
      Res.ok (mv, repeatMove (fun r o => (nextcol s
          (if mv = 104 then -(if dirCtx s ((lineOf s row).getD []) ≥ 0 then 1 else -1)
           else (if dirCtx s ((lineOf s row).getD []) ≥ 0 then 1 else -1)) r o).map (fun o' => (r, o')))
        (cntOf s).toNat row off) s1 := by
  have hnc := (viRead_frame s s1 _ hrd).nextcol
  rcases hmv with rfl | rfl
  · have h1 := viMotionln_char_key row s s1 104 hrd (by decide) (by decide) (by decide) (by decide)
    unfold viMotion
    simp only [bind, Vi.get, h1, bne_self_eq_false, Bool.false_eq_true, if_false, viRead_back]
    simp [pure, hnc]
  · have h1 := viMotionln_char_key row s s1 108 hrd (by decide) (by decide) (by decide) (by decide)
    unfold viMotion
    simp only [bind, Vi.get, h1, bne_self_eq_false, Bool.false_eq_true, if_false, viRead_back]
    simp [pure, hnc]

/-- **`l`** with a count on a valid UTF-8 line laid out left to right (the position table is
    increasing: no reordering — `posTab_inc` gives this for every line without multi-byte characters
    and every line of more than 256 characters) in a left-to-right context: from the character `off`
    it moves `min cnt (lastCol body - off)` characters right, i.e. to `min (off + cnt) (lastCol body)`.
    It stops at the last character and **never fails** (the model returns `mv = 108` and the same
    position when the cursor is on the last character already; vi's `l` fails there). -/
theorem viMotion_l (row : Int) (off : Nat) (s s1 : VS) (body : List Nat) (hrd : viRead s = Res.ok 108 s1)
    (hline : lineAt (lines s) row = some (encStr (body ++ [10])))
    (hb : ∀ c ∈ body, ValidCp c) (hb10 : 10 ∉ body)
    (hinc : StrictInc (posTab s (encStr (body ++ [10]))) (body.length + 1))
    (hctx : 0 ≤ dirCtx s (encStr (body ++ [10]))) (hoff : off ≤ lastCol body) :
    viMotion row off s = Res.ok (108, row, ((min (off + (cntOf s).toNat) (lastCol body) : Nat) : Int)) s1 ∧
      min (off + (cntOf s).toNat) (lastCol body) = off + min (cntOf s).toNat (lastCol body - off) := by
  refine ⟨?_, by omega⟩
  have hl : lineOf s row = some (encStr (body ++ [10])) := hline
  rw [viMotion_hl_eq row off s s1 108 (Or.inr rfl) hrd, hl]
  simp only [Option.getD_some, ge_iff_le, hctx, if_true, show ¬ ((108 : Int) = 104) by decide, if_false]
  rw [repeatMove_fwd _ row (lastCol body) (fun o ho => by
    unfold lastCol at ho ⊢
    rw [nextcol_right s row body hl hb hb10 hinc 1 (by omega) o (by omega)]
    by_cases h : o + 1 < body.length
    · rw [if_pos h, if_pos (by omega)]; rfl
    · rw [if_neg h, if_neg (by omega)]; rfl) _ off hoff]

/-- **`h`** with a count, same hypotheses: from the character `off` (or from the newline's offset) it
    moves `min cnt off` characters left; it stops at the first character and never fails -/
theorem viMotion_h (row : Int) (off : Nat) (s s1 : VS) (body : List Nat) (hrd : viRead s = Res.ok 104 s1)
    (hline : lineAt (lines s) row = some (encStr (body ++ [10])))
    (hb : ∀ c ∈ body, ValidCp c) (hb10 : 10 ∉ body)
    (hinc : StrictInc (posTab s (encStr (body ++ [10]))) (body.length + 1))
    (hctx : 0 ≤ dirCtx s (encStr (body ++ [10]))) (hoff : off ≤ body.length) :
    viMotion row off s = Res.ok (104, row, ((off - (cntOf s).toNat : Nat) : Int)) s1 ∧
      off - (cntOf s).toNat = off - min (cntOf s).toNat off := by
  refine ⟨?_, by omega⟩
  have hl : lineOf s row = some (encStr (body ++ [10])) := hline
  rw [viMotion_hl_eq row off s s1 104 (Or.inl rfl) hrd, hl]
  simp only [Option.getD_some, ge_iff_le, hctx, if_true]
  rw [repeatMove_bwd _ row body.length (fun o ho => by
    rw [nextcol_left s row body hl hb hb10 hinc (-1) (by omega) o ho]
    by_cases h : 0 < o
    · rw [if_pos h, if_pos h]; rfl
    · rw [if_neg h, if_neg h]; rfl) _ off hoff]

/-- in a right-to-left context (`dir_context < 0`) with the same left-to-right table, `l` and `h`
    swap: `l` moves towards offset 0 -/
theorem viMotion_l_rtl_context (row : Int) (off : Nat) (s s1 : VS) (body : List Nat)
    (hrd : viRead s = Res.ok 108 s1)
    (hline : lineAt (lines s) row = some (encStr (body ++ [10])))
    (hb : ∀ c ∈ body, ValidCp c) (hb10 : 10 ∉ body)
    (hinc : StrictInc (posTab s (encStr (body ++ [10]))) (body.length + 1))
    (hctx : dirCtx s (encStr (body ++ [10])) < 0) (hoff : off ≤ body.length) :
    viMotion row off s = Res.ok (108, row, ((off - (cntOf s).toNat : Nat) : Int)) s1 := by
  have hl : lineOf s row = some (encStr (body ++ [10])) := hline
  rw [viMotion_hl_eq row off s s1 108 (Or.inr rfl) hrd, hl]
  simp only [Option.getD_some, ge_iff_le, show ¬ (0 ≤ dirCtx s (encStr (body ++ [10]))) by omega, if_false,
    show ¬ ((108 : Int) = 104) by decide]
  rw [repeatMove_bwd _ row body.length (fun o ho => by
    rw [nextcol_left s row body hl hb hb10 hinc (-1) (by omega) o ho]
    by_cases h : 0 < o
    · rw [if_pos h, if_pos h]; rfl
    · rw [if_neg h, if_neg h]; rfl) _ off hoff]

/-- the hypotheses of `viMotion_l` / `viMotion_h` hold on every ASCII line when `td` is 0 (the
    default) or `≥ 2` -/
theorem ascii_line_ltr (s : VS) (body : List Nat) (hb : ∀ c ∈ body, 0 < c ∧ c < 128)
    (htd : s.ed.xtd = 0 ∨ s.ed.xtd ≥ 2) :
    StrictInc (posTab s (encStr (body ++ [10]))) (body.length + 1) ∧
      0 ≤ dirCtx s (encStr (body ++ [10])) := by
  have hv : ∀ c ∈ body, ValidCp c := fun c hc => by have := hb c hc; unfold ValidCp; omega
  have hlen := ascii_line_length body (fun c hc => (hb c hc).2)
  constructor
  · have := posTab_inc s (body ++ [10]) (line_valid hv) (Or.inl hlen)
    simpa using this
  · unfold dirCtx
    apply C19c.dirContext_nonneg
    rcases htd with h | h
    · right
      refine ⟨h, ?_⟩
      have h128 : ∀ b ∈ body ++ [10], b < 128 := by
        intro b hb'
        rcases List.mem_append.mp hb' with hb' | hb'
        · exact (hb b hb').2
        · simp at hb'; omega
      rw [Lemmas.C08b.encStr_ascii _ h128]
      cases body with
      | nil => decide
      | cons c t => simp only [List.cons_append, Bytes.hd_cons]; exact (hb c (by simp)).2
    · left; exact h

/-! ### `l` / `h` on any valid UTF-8 line (reordered or not), one step

With the table `ren_position` computes for the line — whatever it is: for lines with multi-byte
characters `dir_reorder` runs — a single `l` in a left-to-right context goes to the character displayed
immediately to the right, a single `h` to the one displayed immediately to the left (`IsLeast` /
`IsGreatest` / `NoCol` of `Lemmas/C17bSpec.lean`).  With a count the step is repeated from the new
character; the closed form `min (off + cnt) lastCol` is proved above for increasing tables only. -/

open Neatvi.Lemmas.C17b (IsLeast IsGreatest NoCol) in
/-- a single `l` (count 1) from character `i` in a left-to-right context: to the character `j`
    displayed immediately to its right; it stays (and does not fail) when `j` is the newline or when
    nothing is displayed to the right -/
theorem viMotion_l_visual (row : Int) (i : Nat) (s s1 : VS) (body : List Nat) (hrd : viRead s = Res.ok 108 s1)
    (hline : lineAt (lines s) row = some (encStr (body ++ [10])))
    (hb : ∀ c ∈ body, ValidCp c) (hb10 : 10 ∉ body)
    (hctx : 0 ≤ dirCtx s (encStr (body ++ [10]))) (hcnt : cntOf s = 1) (hi : i ≤ body.length) :
    (∀ j, IsLeast (posTab s (encStr (body ++ [10]))) (body.length + 1)
        (fun x => (posTab s (encStr (body ++ [10]))).getD i 0 < x) j →
      viMotion row i s = Res.ok (108, row, if j = body.length then (i : Int) else (j : Int)) s1) ∧
    (NoCol (posTab s (encStr (body ++ [10]))) (body.length + 1)
        (fun x => (posTab s (encStr (body ++ [10]))).getD i 0 < x) →
      viMotion row i s = Res.ok (108, row, (i : Int)) s1) := by
  have hl : lineOf s row = some (encStr (body ++ [10])) := hline
  have hred := viMotion_hl_eq row i s s1 108 (Or.inr rfl) hrd
  rw [hl, hcnt] at hred
  simp only [Option.getD_some, ge_iff_le, hctx, if_true, show ¬ ((108 : Int) = 104) by decide, if_false] at hred
  constructor
  · intro j hj
    rw [hred]
    have := nextcol_visual_right s row body hl hb hb10 1 (by omega) i j hi hj
    show Res.ok (108, repeatMove _ 1 row i) s1 = _
    unfold repeatMove
    rw [this]
    by_cases he : j = body.length
    · simp [he]
    · simp [he, repeatMove]
  · intro hno
    rw [hred]
    have := nextcol_visual_right_none s row body hl hb 1 (by omega) i hi hno
    show Res.ok (108, repeatMove _ 1 row i) s1 = _
    unfold repeatMove
    rw [this]
    rfl

open Neatvi.Lemmas.C17b (IsLeast IsGreatest NoCol) in
/-- a single `h` from character `i` in a left-to-right context: to the character displayed immediately
    to its left; it stays when there is none (or when that is the newline) -/
theorem viMotion_h_visual (row : Int) (i : Nat) (s s1 : VS) (body : List Nat) (hrd : viRead s = Res.ok 104 s1)
    (hline : lineAt (lines s) row = some (encStr (body ++ [10])))
    (hb : ∀ c ∈ body, ValidCp c) (hb10 : 10 ∉ body)
    (hctx : 0 ≤ dirCtx s (encStr (body ++ [10]))) (hcnt : cntOf s = 1) (hi : i ≤ body.length) :
    (∀ j, IsGreatest (posTab s (encStr (body ++ [10]))) (body.length + 1)
        (fun x => x < (posTab s (encStr (body ++ [10]))).getD i 0) j →
      viMotion row i s = Res.ok (104, row, if j = body.length then (i : Int) else (j : Int)) s1) ∧
    (NoCol (posTab s (encStr (body ++ [10]))) (body.length + 1)
        (fun x => x < (posTab s (encStr (body ++ [10]))).getD i 0) →
      viMotion row i s = Res.ok (104, row, (i : Int)) s1) := by
  have hl : lineOf s row = some (encStr (body ++ [10])) := hline
  have hred := viMotion_hl_eq row i s s1 104 (Or.inl rfl) hrd
  rw [hl, hcnt] at hred
  simp only [Option.getD_some, ge_iff_le, hctx, if_true] at hred
  constructor
  · intro j hj
    rw [hred]
    have := nextcol_visual_left s row body hl hb hb10 (-1) (by omega) i j hi hj
    show Res.ok (104, repeatMove _ 1 row i) s1 = _
    unfold repeatMove
    rw [this]
    by_cases he : j = body.length
    · simp [he]
    · simp [he, repeatMove]
  · intro hno
    rw [hred]
    have := nextcol_visual_left_none s row body hl hb (-1) (by omega) i hi hno
    show Res.ok (104, repeatMove _ 1 row i) s1 = _
    unfold repeatMove
    rw [this]
    rfl

/-! ### SPC and BS / DEL: by offsets, not through the position table -/

theorem slenAt_line (ls : Lines) (r : Int) (body : List Nat) (hline : lineAt ls r = some (encStr (body ++ [10])))
    (hb : ∀ c ∈ body, ValidCp c) : slenAt ls r = ((body.length + 1 : Nat) : Int) := by
  unfold slenAt; rw [hline]; simp only [line_slen hb]

/-- **SPC** (32) with a count on a valid UTF-8 line: `cnt` offsets right, whatever the layout of the
    line.  Unlike `l` it steps onto the newline's offset `body.length` (from which the command loop's
    `ren_noeol` brings the cursor back to the last character): it lands on `min (off + cnt) body.length`,
    and never fails. -/
theorem viMotion_space (row : Int) (off : Nat) (s s1 : VS) (body : List Nat) (hrd : viRead s = Res.ok 32 s1)
    (hline : lineAt (lines s) row = some (encStr (body ++ [10]))) (hb : ∀ c ∈ body, ValidCp c)
    (hoff : off ≤ body.length) :
    viMotion row off s = Res.ok (32, row, ((min (off + (cntOf s).toNat) body.length : Nat) : Int)) s1 := by
  have h1 := viMotionln_char_key row s s1 32 hrd (by decide) (by decide) (by decide) (by decide)
  have hls := (viRead_frame s s1 _ hrd).lines
  have hsl := slenAt_line (lines s) row body hline hb
  have hrm := repeatMove_fwd
    (fun r o => if o + 1 < 0 || (lineAt (lines s) r).isNone || o + 1 ≥ slenAt (lines s) r then none else some (r, o + 1))
    row body.length (fun o ho => by
      simp only [hline, hsl]
      by_cases h : o < body.length
      · rw [if_pos h, if_neg (by simp; omega)]; rfl
      · rw [if_neg h, if_pos (by simp; omega)]) (cntOf s).toNat off hoff
  unfold viMotion
  simp only [bind, Vi.get, h1, bne_self_eq_false, Bool.false_eq_true, if_false, viRead_back]
  simp only [hls]
  rw [hrm]
  simp [pure]

/-- **BS** (8) and **DEL** (127) with a count: `min cnt off` offsets left, stopping at offset 0, never
    failing -/
theorem viMotion_backspace (row : Int) (off : Nat) (s s1 : VS) (body : List Nat) (mv : Int)
    (hmv : mv = 8 ∨ mv = 127) (hrd : viRead s = Res.ok mv s1)
    (hline : lineAt (lines s) row = some (encStr (body ++ [10]))) (hb : ∀ c ∈ body, ValidCp c)
    (hoff : off ≤ body.length) :
    viMotion row off s = Res.ok (mv, row, ((off - (cntOf s).toNat : Nat) : Int)) s1 := by
  have hls := (viRead_frame s s1 _ hrd).lines
  have hsl := slenAt_line (lines s) row body hline hb
  have hrm := repeatMove_bwd
    (fun r o => if o - 1 < 0 || (lineAt (lines s) r).isNone || o - 1 ≥ slenAt (lines s) r then none else some (r, o - 1))
    row body.length (fun o ho => by
      simp only [hline, hsl]
      by_cases h : 0 < o
      · rw [if_pos h, if_neg (by simp; omega)]
        congr 2; omega
      · rw [if_neg h, if_pos (by simp; omega)]) (cntOf s).toNat off hoff
  rcases hmv with rfl | rfl
  · have h1 := viMotionln_char_key row s s1 8 hrd (by decide) (by decide) (by decide) (by decide)
    unfold viMotion
    simp only [bind, Vi.get, h1, bne_self_eq_false, Bool.false_eq_true, if_false, viRead_back]
    simp only [hls]
    rw [hrm]
    simp [pure]
  · have h1 := viMotionln_char_key row s s1 127 hrd (by decide) (by decide) (by decide) (by decide)
    unfold viMotion
    simp only [bind, Vi.get, h1, bne_self_eq_false, Bool.false_eq_true, if_false, viRead_back]
    simp only [hls]
    rw [hrm]
    simp [pure]

/-! ### `|` -/

/-- `|` (124) with count `cnt`: `vi_col2off(row, cnt - 1)` — the character at or before screen column
    `cnt - 1` in the position table of the row (`C17b.renOffT_spec`) —, and `vi_pcol` is set to
    `cnt - 1`: this is the one motion here that changes something besides the key queue. -/
theorem viMotion_bar_eq (row off : Int) (s s1 : VS) (hrd : viRead s = Res.ok 124 s1) :
    viMotion row off s =
      Res.ok (124, row, col2off s row (cntOf s - 1)) { s1 with pcol := cntOf s - 1 } := by
  have h1 := viMotionln_char_key row s s1 124 hrd (by decide) (by decide) (by decide) (by decide)
  have hc := (viRead_frame s s1 _ hrd).col2off
  unfold viMotion
  simp only [bind, Vi.get, h1, bne_self_eq_false, Bool.false_eq_true, if_false, viRead_back]
  simp [pure, hc, Vi.modify]

/-- a body of printable ASCII (no tabs, no control characters): every character is one cell wide -/
def Printable (body : List Nat) : Prop := ∀ b ∈ body, 32 ≤ b ∧ b ≤ 126

theorem printable_line (body : List Nat) (hp : Printable body) :
    encStr (body ++ [10]) = body ++ [10] ∧ Lemmas.C19c.LineBytes (body ++ [10]) ∧
      (∀ c ∈ body, ValidCp c) ∧ 10 ∉ body := by
  refine ⟨?_, Lemmas.C19c.lineBytes_of_printable body hp, ?_, ?_⟩
  · apply Lemmas.C08b.encStr_ascii
    intro b hb
    rcases List.mem_append.mp hb with hb | hb
    · have := hp b hb; omega
    · simp at hb; omega
  · intro c hc; have := hp c hc; unfold ValidCp; omega
  · intro h; have := hp 10 h; omega

/-- **`|`** with a count on a line of printable ASCII without tabs: `vi_motion` returns column
    `cnt - 1` as the offset, but at most the offset `body.length` of the newline; the cursor then rests
    (`ren_noeol`) on `min (cnt - 1) (lastCol body)`: column `cnt - 1` clamped to the last character.
    (On a line with tabs or wide characters the offset is that of the character whose cell range
    contains the column, see `viMotion_bar_eq`.) -/
theorem viMotion_bar (row off : Int) (s s1 : VS) (body : List Nat) (hrd : viRead s = Res.ok 124 s1)
    (hline : lineAt (lines s) row = some (encStr (body ++ [10]))) (hp : Printable body)
    (hcnt : 1 ≤ cntOf s) :
    viMotion row off s =
      Res.ok (124, row, ((min (cntOf s - 1).toNat body.length : Nat) : Int)) { s1 with pcol := cntOf s - 1 } ∧
    Ren.renNoeol (encStr (body ++ [10])) ((min (cntOf s - 1).toNat body.length : Nat) : Int) =
      ((min (cntOf s - 1).toNat (lastCol body) : Nat) : Int) := by
  obtain ⟨henc, hlb, hv, h10⟩ := printable_line body hp
  have hl : lineOf s row = some (encStr (body ++ [10])) := hline
  constructor
  · rw [viMotion_bar_eq row off s s1 hrd]
    unfold col2off
    rw [hl]
    simp only [line_slen hv]
    have hlen := ascii_line_length body (fun c hc => by have := hp c hc; omega)
    rw [posTab_fast s _ (Or.inl (by rw [line_slen hv, ← hlen]; simp))]
    rw [henc, Lemmas.C19c.fast_line _ hlb]
    have hk : cntOf s - 1 = (((cntOf s - 1).toNat : Nat) : Int) := by omega
    have hlen' : (body ++ [10]).length = body.length + 1 := by simp
    rw [hlen']
    conv => lhs; rw [hk]
    rw [renOffT_range (body.length + 1) (by omega) (cntOf s - 1).toNat]
    simp
    omega
  · by_cases hk : (cntOf s - 1).toNat < body.length
    · rw [Nat.min_eq_left (by omega), Lemmas.C08b.renNoeol_body body hv h10 _ hk]
      unfold lastCol
      congr 1; omega
    · rw [Nat.min_eq_right (by omega)]
      have := (C07c.eol_utf8 (lines s) row body hline hv)
      rw [this.1] at this
      rw [this.2]
      unfold lastCol
      congr 1; omega

/-! ## 4. (V4) examples: the states `exSt keys row off` of `Props/C08b.lean`

The buffer is `hello w` / `b` (two lines), the window is 23 rows from row 0, `keys` wait at the
terminal.  A count is given through `arg1`, as `vi_prefix` leaves it. -/

open Neatvi.Props.C08b (exSt) in
/-- `3j` on the last line stays; `j` from the first line moves; `2k` from the last line stops at the
    first; `k` on the first line stays -/
example : C07.resVal (viMotionln 1 0 { exSt [106] 1 0 with arg1 := 3 }) = some (106, 1) ∧
    C07.resVal (viMotionln 0 0 (exSt [106] 0 0)) = some (106, 1) ∧
    C07.resVal (viMotionln 1 0 { exSt [107] 1 0 with arg1 := 2 }) = some (107, 0) ∧
    C07.resVal (viMotionln 0 0 (exSt [107] 0 0)) = some (107, 0) := by decide +kernel

open Neatvi.Props.C08b (exSt) in
/-- `G` goes to the last line, `2G` to the second, `1G` to the first, `7G` stops at the last; `_` stays;
    `2_` and `2dd` (operator `d` = 100) move one line down; `x` is not a line motion -/
example : C07.resVal (viMotionln 0 0 (exSt [71] 0 0)) = some (71, 1) ∧
    C07.resVal (viMotionln 0 0 { exSt [71] 0 0 with arg1 := 2 }) = some (71, 1) ∧
    C07.resVal (viMotionln 1 0 { exSt [71] 1 0 with arg1 := 1 }) = some (71, 0) ∧
    C07.resVal (viMotionln 0 0 { exSt [71] 0 0 with arg1 := 7 }) = some (71, 1) ∧
    C07.resVal (viMotionln 0 0 (exSt [95] 0 0)) = some (95, 0) ∧
    C07.resVal (viMotionln 0 0 { exSt [95] 0 0 with arg1 := 2 }) = some (95, 1) ∧
    C07.resVal (viMotionln 0 100 { exSt [100] 0 0 with arg1 := 2 }) = some (100, 1) ∧
    C07.resVal (viMotionln 0 0 (exSt [120] 0 0)) = some (0, 0) := by decide +kernel

open Neatvi.Props.C08b (exSt) in
/-- `H`, `M`, `L` with the 23-row window on the 2-line buffer: `H` the first line, `M` and `L` stop at
    the last line; `30L` (a count beyond the window) would be row -7 and is clamped to row 0 -/
example : C07.resVal (viMotionln 1 0 (exSt [72] 1 0)) = some (72, 0) ∧
    C07.resVal (viMotionln 0 0 (exSt [77] 0 0)) = some (77, 1) ∧
    C07.resVal (viMotionln 0 0 (exSt [76] 0 0)) = some (76, 1) ∧
    C07.resVal (viMotionln 1 0 { exSt [76] 1 0 with arg1 := 30 }) = some (76, 0) ∧
    refL 0 23 30 2 = 0 ∧ refH 0 23 1 2 = 0 ∧ refM 0 23 2 = 1 := by decide +kernel

open Neatvi.Props.C08b (exSt) in
/-- `$` returns the newline's offset 7 (the cursor then rests on 6), `^` and `0` offset 0;
    `2l` from offset 5 and from the last character 6 ends on 6; `2h` from 1 on 0;
    `2 SPC` from 6 steps onto the newline's offset 7; `4|` is offset 3, `40|` offset 7 -/
example : C07.resVal (viMotion 0 3 (exSt [36] 0 3)) = some (36, 0, 7) ∧
    Ren.renNoeol [104, 101, 108, 108, 111, 32, 119, 10] 7 = 6 ∧
    C07.resVal (viMotion 0 3 (exSt [94] 0 3)) = some (94, 0, 0) ∧
    C07.resVal (viMotion 0 3 (exSt [48] 0 3)) = some (48, 0, 0) ∧
    C07.resVal (viMotion 0 5 { exSt [108] 0 5 with arg1 := 2 }) = some (108, 0, 6) ∧
    C07.resVal (viMotion 0 6 { exSt [108] 0 6 with arg1 := 2 }) = some (108, 0, 6) ∧
    C07.resVal (viMotion 0 1 { exSt [104] 0 1 with arg1 := 2 }) = some (104, 0, 0) ∧
    C07.resVal (viMotion 0 6 { exSt [32] 0 6 with arg1 := 2 }) = some (32, 0, 7) ∧
    C07.resVal (viMotion 0 1 { exSt [124] 0 1 with arg1 := 4 }) = some (124, 0, 3) ∧
    C07.resVal (viMotion 0 1 { exSt [124] 0 1 with arg1 := 40 }) = some (124, 0, 7) := by decide +kernel

open Neatvi.Props.C08b (exSt) in
/-- the theorems instantiated on the example: `3j` from the last line through `motion_lands_ln_pending`,
    and `2l` from the last character through `viMotion_l` -/
example : ∃ s1, viMotionln 1 0 { exSt [106] 1 0 with arg1 := 3 } = Res.ok (106, 1) s1 ∧ pending s1 = [] := by
  obtain ⟨s1, h1, h2, -⟩ := motion_lands_ln_pending 1 0 { exSt [106] 1 0 with arg1 := 3 } 106 [] rfl
    (by decide +kernel) (Or.inl (by decide)) (by decide) (by decide +kernel) (by decide +kernel)
  refine ⟨s1, ?_, h2⟩
  rw [h1]
  have : refLine (refKey ((106 : Nat) : Int)) (cntOf { exSt [106] 1 0 with arg1 := 3 }) 1
      (lenOf { exSt [106] 1 0 with arg1 := 3 }) ({ exSt [106] 1 0 with arg1 := 3 } : VS).ed.xtop
      ({ exSt [106] 1 0 with arg1 := 3 } : VS).xrows (hasCount { exSt [106] 1 0 with arg1 := 3 }) = 1 := by
    decide +kernel
  rw [this]; rfl

open Neatvi.Props.C08b (exSt) in
example : ∃ s1, viMotion 0 (6 : Nat) { exSt [108] 0 6 with arg1 := 2 } = Res.ok (108, 0, ((6 : Nat) : Int)) s1 := by
  obtain ⟨s1, h1, -⟩ := viRead_pending { exSt [108] 0 6 with arg1 := 2 } 108 [] rfl (by decide +kernel)
  obtain ⟨hinc, hctx⟩ := ascii_line_ltr { exSt [108] 0 6 with arg1 := 2 } [104, 101, 108, 108, 111, 32, 119]
    (by decide) (Or.inl (by decide +kernel))
  have := (viMotion_l 0 6 { exSt [108] 0 6 with arg1 := 2 } s1 [104, 101, 108, 108, 111, 32, 119] h1
    (by decide +kernel) (by decide) (by decide) hinc hctx (by decide)).1
  refine ⟨s1, ?_⟩
  rw [this]
  have e : min (6 + (cntOf { exSt [108] 0 6 with arg1 := 2 }).toNat) (lastCol [104, 101, 108, 108, 111, 32, 119]) = 6 := by
    decide +kernel
  rw [e]

end Neatvi.Props.C07d
