import NeatviVerif.Lemmas.C09bCount
/-!
# C09b: `.`, `N.`, `@r`, `N@r`, `@@` over WHOLE RUNS of the editor

`Props/C09.lean` proved the one-step facts on the key queue of term.c.  This file lifts them to runs:
`iterate n s` (`Props/C05c.lean`) is the state after `n` iterations of the `while (!xquit)` loop of `vi()`
(`none`: the keys ran out inside a command, or the model trapped).

Vocabulary (`Lemmas/C09bRel.lean`, `C09bRun.lean`, `C09bMain.lean`, `C09bMore.lean`):

* `Inv s`: `ibuf_pos ≤ ibuf_cnt`, `rep_len + 1 < 4096`, `icmd_pos ≤ 4096` (`inv_reachable`: hold in every state
  the editor reaches).
* `K s t`: `KeyEq s t` (C09: `s` and `t` differ only in how the pending keys are split between pushed keys
  `ibuf` and keys of the terminal `typed`), `Inv s`, and: `t` has no more unread pushed keys than `s` and no
  less room in `ibuf`.  `RelO` lifts `K` to the outcome of a run (`none` with `none`).  `sim_fields`: what
  `K` says about text, cursor, registers.
* `pushOk s n x`: no pushed key is unread in `s` and `ibuf` has room for `n` copies of `x`.
  `stepOk s : Bool` is **the proviso** at the iteration that starts in `s`: *if that iteration is the
  command `.` or `@`, then `pushOk` holds at the moment of the push* (after the command key and, for `@`, the
  register name have been read).  It is computed by running the model, so it is decidable.  `runOk n s`: the
  proviso at each of the first `n` iterations.  `proviso_needed`: without it the statements are false (the
  recorded finding `dot_inside_macro_queued_after_rest`).
* `retype s keys`: the state `s` with nothing pushed and `keys` waiting at the terminal ("the user types `keys`
  at this point").
* `EdStep 2 ed ed'`: what the iteration that executes `.` / `@` itself does to `ed`: registers and text are
  kept, the sequence number of the buffer goes up by 2 (the mark `^`, the window and `xleft` may change).

Results:

1. `run_keeps_sim`, `run_pushed_or_typed`: a whole run cannot tell pushed keys from typed keys, under the
   proviso.  `inv_reachable`: the invariants, without proviso.
2. `dot_run_general`, `dot_run`, `count_dot_run`, `decimal_count_dot_run`: after the iteration that executes `.` / `N.` the run continues
   exactly (up to `K`) as the run in which the user types the recorded keys (`N` times) at that point.
   `count_dot_keeps_recorded_count`: `3.` after `2x` is `2x2x2x` — the recorded count is *kept*, not replaced
   (`count_replaces_recorded_count_is_false`).
3. `at_run_general`, `at_run`, `count_at_run`, `decimal_count_at_run`, `atat_run`: the same for `@r`, `N@r`, `@@`.
4. `dots_replaced_run`: composition — any number of `.` / `@`, each on a drained queue: the run equals the run in
   which each has been replaced by its keys in the user's input (`iterateT`).
5. `dot_iteration_not_pure_substitution`: the strict reading of "`.` = retyping" (the state after the `.`
   iteration is the state before it with other keys) is false: the iteration bumps the buffer's sequence
   number.  `dot_retyped_observable_full` (stated, not proved): text, cursor and registers agree.
6. the 4 KiB buffers: `long_command_not_recorded`, `short_command_recorded_whole`, `icmd_saturates`,
   `push_truncates`; `dot_run` needs no room hypothesis because `rep_cmd` and `ibuf` have the same size.
-/
namespace Neatvi.Props.C09b
open Neatvi Neatvi.Vi Neatvi.Ex Neatvi.Lemmas.C09 Neatvi.Lemmas.C09b
open Neatvi.Props.C05c (iterate)

/-! ## 0. the relation and the invariants -/

/-- **what the simulation relation means for the user**: `K`-related states have the same `ed` — text,
cursor, registers, marks, undo history, every buffer —, the same sticky column, recorded change, `@@`
register, counts, and the same keys still to be read. -/
theorem sim_fields (a b : VS) (h : K a b) :
    a.ed = b.ed ∧ lines a = lines b ∧ a.ed.xrow = b.ed.xrow ∧ a.ed.xoff = b.ed.xoff ∧
    a.ed.regs = b.ed.regs ∧ a.xcol = b.xcol ∧ a.repCmd = b.repCmd ∧ a.execReg = b.execReg ∧
    a.arg1 = b.arg1 ∧ a.arg2 = b.arg2 ∧ a.icmd = b.icmd ∧ a.vibuf = b.vibuf ∧ pending a = pending b :=
  h.fields

/-- related outcomes of a run: both runs stop (`none`) or both reach `K`-related states -/
theorem relO_cases (o o' : Option VS) (h : RelO o o') :
    (o = none ∧ o' = none) ∨ ∃ a b, o = some a ∧ o' = some b ∧ K a b :=
  Lemmas.C09b.relO_cases o o' h

/-- a state is related to itself and to the state with everything pending typed at the terminal -/
theorem sim_refl_norm (s : VS) (h : Inv s) : K s s ∧ K s (retype s (pending s)) := ⟨K.refl h, K.norm h⟩

/-- the invariants hold initially -/
theorem inv_initial (ed : Ed) (keys : Bytes) (rows cols : Int) : Inv (viInit ed keys rows cols) :=
  inv_viInit ed keys rows cols

/-- **in every state the editor reaches** (no proviso): `ibuf_pos ≤ ibuf_cnt`; the recorded change with its
terminator fits the 4096 bytes of `rep_cmd`; at most 4096 keys are remembered since `term_cmd()` -/
theorem inv_reachable (ed : Ed) (keys : Bytes) (rows cols : Int) (n : Nat) (s : VS)
    (h : iterate n (viInit ed keys rows cols) = some s) :
    s.ibufPos ≤ s.ibuf.length ∧ s.repCmd.length + 1 < 4096 ∧ s.icmd.length ≤ 4096 :=
  let i := reachable_inv ed keys rows cols n s h
  ⟨i.wf, i.rep, i.icm⟩

/-- the invariants are kept by every run, from any state -/
theorem inv_run (n : Nat) (s s' : VS) (h : Inv s) (hr : iterate n s = some s') : Inv s' :=
  run_inv n s s' h hr

/-! ## 1. whole runs cannot tell pushed keys from typed keys -/

/-- what the proviso says at an iteration that is a command (`viPre` returned `mv = 0`): if the command key
is `.`, no pushed key is unread and there is room for `max 1 count` copies of the recorded change; if it
is `@` and `vc_execute()` is going to push `x` `n` times, likewise for that -/
theorem proviso_meaning (s s1 : VS) (r o : Int) (hp : viPre s = Res.ok (0, r, o) s1) (hok : stepOk s = true)
    (c : Int) (s2 : VS) (hr : viRead s1 = Res.ok c s2) :
    (c = 46 → s2.ibuf.length ≤ s2.ibufPos ∧ max 1 s2.ibuf.length + cnt1 s2 * s2.repCmd.length ≤ 4096) ∧
    (c = 64 → ∀ n x s3, execHead (marked s2) = Res.ok (some (n, x)) s3 →
      s3.ibuf.length ≤ s3.ibufPos ∧ max 1 s3.ibuf.length + n * x.length ≤ 4096) :=
  stepOk_meaning s s1 r o hp hok c s2 hr

/-- a `.` typed at the terminal (nothing pushed is unread) always satisfies the proviso: the recorded
change is shorter than `ibuf` -/
theorem proviso_dot_typed (s : VS) (rest : Bytes) (hinv : Inv s) (hv : s.vibuf = [])
    (hd : s.ibuf.length ≤ s.ibufPos) (ht : s.typed = 46 :: rest) : stepOk s = true :=
  stepOk_dot_typed s rest hinv hv hd ht

/-- **one iteration of `vi()` keeps the simulation relation** under the proviso — for every command,
including `.` and `@` -/
theorem step_keeps_sim (s t : VS) (h : K s t) (hok : stepOk s = true) : RelK (viStep s) (viStep t) :=
  viStep_K s t h (Or.inl hok)

/-- **a whole run keeps the simulation relation**: two runs that start in `K`-related states go through
`K`-related states, for as many iterations as the proviso holds along the first one, and stop together -/
theorem run_keeps_sim (n : Nat) (s t : VS) (h : K s t) (hok : runOk n s = true) :
    RelO (iterate n s) (iterate n t) :=
  run_K n s t h (Or.inl hok)

/-- **pushed or typed, a whole run cannot tell**: the run from `s` and the run from the state in which all
pending keys are at the terminal agree after every number of iterations -/
theorem run_pushed_or_typed (n : Nat) (s : VS) (h : Inv s) (hok : runOk n s = true) :
    RelO (iterate n s) (iterate n (retype s (pending s))) :=
  run_norm n s h hok

/-! ## 2. `.` and `N.` -/

/-- **`.` over a whole run, general form.**  Let the iteration that starts in `s` be the command `.` with
any register / count prefix: `viPre` returned `mv = 0` and the command key read in `s1` is `.`; `s2` is the
state after that key, `cnt1 s2 = max 1 count`.  If no pushed key is unread in `s2` and there is room, then
the iteration ends in a state `s'` whose pending keys are the recorded change `max 1 count` times followed
by the rest of the input; `ed` has only been touched as `EdStep 2` says; and for every `k` for which the
proviso holds along the run from `s'`, the state after `k + 1` iterations from `s` is `K`-related to the
state after `k` iterations from `retype s' (those keys)`. -/
theorem dot_run_general (s s1 s2 : VS) (r o : Int) (hinv : Inv s)
    (hpre : viPre s = Res.ok (0, r, o) s1) (hkey : viRead s1 = Res.ok 46 s2)
    (hok : pushOk s2 (cnt1 s2) s2.repCmd = true) (hout : nlCount s2.ed.out ≤ 1) :
    ∃ s', viStep s = Res.ok () s' ∧ Inv s' ∧
      pending s' = (List.replicate (cnt1 s2) s2.repCmd).flatten ++ s2.typed ∧
      s'.repCmd = s2.repCmd ∧ EdStep 2 s2.ed s'.ed ∧
      ∀ k, runOk k s' = true →
        RelO (iterate (k + 1) s)
          (iterate k (retype s' ((List.replicate (cnt1 s2) s2.repCmd).flatten ++ s2.typed))) :=
  dot_run_sem s s1 s2 r o hinv hpre hkey hok hout

/-- **`dot_run`: `.` typed at the terminal.**  `s`: any state at the start of an iteration with the
invariants, an empty push-back stack, no unread pushed key, no `[enter to continue]` pending, and `.`
followed by `rest` at the terminal.  Then the iteration ends in `s'` with the recorded change followed by
`rest` pending, and the run goes on as if the user had typed the recorded change there.  (No room hypothesis:
`rep_cmd` is not longer than `ibuf`.) -/
theorem dot_run (s : VS) (rest : Bytes) (hinv : Inv s) (hv : s.vibuf = [])
    (hd : s.ibuf.length ≤ s.ibufPos) (ht : s.typed = 46 :: rest) (hout : nlCount s.ed.out ≤ 1) :
    ∃ s', viStep s = Res.ok () s' ∧ Inv s' ∧ pending s' = s.repCmd ++ rest ∧
      s'.repCmd = s.repCmd ∧ EdStep 2 s.ed s'.ed ∧
      ∀ k, runOk k s' = true → RelO (iterate (k + 1) s) (iterate k (retype s' (s.repCmd ++ rest))) :=
  Lemmas.C09b.dot_run s rest hinv hv hd ht hout

/-- hence: same text, cursor and registers after every further iteration -/
theorem dot_run_same_text (s : VS) (rest : Bytes) (hinv : Inv s) (hv : s.vibuf = [])
    (hd : s.ibuf.length ≤ s.ibufPos) (ht : s.typed = 46 :: rest) (hout : nlCount s.ed.out ≤ 1) :
    ∃ s', viStep s = Res.ok () s' ∧ ∀ k a, runOk k s' = true → iterate (k + 1) s = some a →
      ∃ b, iterate k (retype s' (s.repCmd ++ rest)) = some b ∧ a.ed = b.ed ∧ lines a = lines b ∧
        a.ed.xrow = b.ed.xrow ∧ a.ed.xoff = b.ed.xoff ∧ a.ed.regs = b.ed.regs :=
  Lemmas.C09b.dot_run_same_text s rest hinv hv hd ht hout

/-- **`count_dot_run`: `d.`** (`d` a digit 1..9; for a general count see `dot_run_general`): the recorded
change — with its own count and register prefix — `d` times -/
theorem count_dot_run (s : VS) (d : Nat) (rest : Bytes) (hinv : Inv s) (hv : s.vibuf = [])
    (hd : s.ibuf.length ≤ s.ibufPos) (hd1 : 49 ≤ d) (hd2 : d ≤ 57) (ht : s.typed = d :: 46 :: rest)
    (hout : nlCount s.ed.out ≤ 1) (hroom : 1 + (d - 48) * s.repCmd.length ≤ 4096) :
    ∃ s', viStep s = Res.ok () s' ∧ Inv s' ∧
      pending s' = (List.replicate (d - 48) s.repCmd).flatten ++ rest ∧
      s'.repCmd = s.repCmd ∧ EdStep 2 s.ed s'.ed ∧
      ∀ k, runOk k s' = true →
        RelO (iterate (k + 1) s) (iterate k (retype s' ((List.replicate (d - 48) s.repCmd).flatten ++ rest))) :=
  Lemmas.C09b.count_dot_run s d rest hinv hv hd hd1 hd2 ht hout hroom

/-- **`N.` for a decimal count `N`** written with up to nine digits `d0 ds` (`d0` in 1..9; `decVal` is the
number they denote, `isDigit d`: `48 ≤ d ≤ 57`): the recorded change `N` times.  (With `N * length` beyond the
room of `ibuf` the pushes are truncated: `push_truncates`.) -/
theorem decimal_count_dot_run (s : VS) (d0 : Nat) (ds : List Nat) (rest : Bytes) (hinv : Inv s)
    (hv : s.vibuf = []) (hd : s.ibuf.length ≤ s.ibufPos) (hd1 : 49 ≤ d0) (hd2 : d0 ≤ 57)
    (hds : ∀ d ∈ ds, isDigit d) (hlen : ds.length + 1 ≤ 9) (ht : s.typed = d0 :: (ds ++ 46 :: rest))
    (hout : nlCount s.ed.out ≤ 1) (hroom : 1 + (decVal (d0 :: ds)).toNat * s.repCmd.length ≤ 4096) :
    ∃ s', viStep s = Res.ok () s' ∧ Inv s' ∧
      pending s' = (List.replicate (decVal (d0 :: ds)).toNat s.repCmd).flatten ++ rest ∧
      s'.repCmd = s.repCmd ∧ EdStep 2 s.ed s'.ed ∧
      ∀ k, runOk k s' = true →
        RelO (iterate (k + 1) s)
          (iterate k (retype s' ((List.replicate (decVal (d0 :: ds)).toNat s.repCmd).flatten ++ rest))) :=
  decimal_dot_run s d0 ds rest hinv hv hd hd1 hd2 hds hlen ht hout hroom

/-- **`3.` after `2x` is `2x2x2x`**: `N.` repeats the recorded keys, count included, `N` times (vi would
run `3x`) -/
theorem count_dot_keeps_recorded_count (ed : Ed) (rest : Bytes) (hout : nlCount ed.out ≤ 1) :
    ∃ s', viStep { ed := ed, repCmd := [50, 120], typed := 51 :: 46 :: rest } = Res.ok () s' ∧
      pending s' = [50, 120, 50, 120, 50, 120] ++ rest :=
  Lemmas.C09b.count_dot_keeps_recorded_count ed rest hout

/-- the vi reading "the count of `N.` replaces the recorded count" is false for neatvi -/
theorem count_replaces_recorded_count_is_false :
    ¬ (∀ (s : VS) (rest : Bytes), Inv s → s.vibuf = [] → s.ibuf.length ≤ s.ibufPos →
        s.typed = 51 :: 46 :: rest → s.repCmd = [50, 120] → nlCount s.ed.out ≤ 1 →
        ∀ s', viStep s = Res.ok () s' → pending s' = [51, 120] ++ rest) :=
  Lemmas.C09b.count_replaces_recorded_count_is_false

/-! ## 3. `@r`, `N@r`, `@@` -/

/-- **`@` over a whole run, general form**: the iteration is the command `@` (any prefix), `vc_execute()`
read the register name (`execHead`, from the state after `lbuf_mark`) and is going to push `x` `n` times —
`x` is the register's text up to its first NUL, `n = max 1 count` —, no pushed key is unread then and
there is room.  Same conclusion as `dot_run_general`, with `x` `n` times. -/
theorem at_run_general (s s1 s2 s3 : VS) (r o : Int) (n : Nat) (x : Bytes) (hinv : Inv s)
    (hpre : viPre s = Res.ok (0, r, o) s1) (hkey : viRead s1 = Res.ok 64 s2)
    (hhead : execHead (marked s2) = Res.ok (some (n, x)) s3)
    (hok : pushOk s3 n x = true) (hout : nlCount s3.ed.out ≤ 1) :
    ∃ s', viStep s = Res.ok () s' ∧ Inv s' ∧
      pending s' = (List.replicate n x).flatten ++ s3.typed ∧ s'.execReg = s3.execReg ∧
      EdStep 2 s3.ed s'.ed ∧
      ∀ k, runOk k s' = true →
        RelO (iterate (k + 1) s) (iterate k (retype s' ((List.replicate n x).flatten ++ s3.typed))) :=
  at_run_sem s s1 s2 s3 r o n x hinv hpre hkey hhead hok hout

/-- **`at_run`: `@r` typed at the terminal**, `r` a plain register name (not `\`, `@`, ESC, ^C) holding `buf`:
the run goes on as if the user had typed the register's text (as a C string); `r` is remembered for `@@` -/
theorem at_run (s : VS) (r : Nat) (rest buf : Bytes) (hinv : Inv s) (hv : s.vibuf = [])
    (hd : s.ibuf.length ≤ s.ibufPos) (ht : s.typed = 64 :: r :: rest)
    (h92 : r ≠ 92) (h64 : r ≠ 64) (h27 : r ≠ 27) (h3 : r ≠ 3)
    (hreg : regGet s.ed r = some buf) (hout : nlCount s.ed.out ≤ 1)
    (hroom : 1 + (buf.takeWhile (· != 0)).length ≤ 4096) :
    ∃ s', viStep s = Res.ok () s' ∧ Inv s' ∧ pending s' = buf.takeWhile (· != 0) ++ rest ∧
      s'.execReg = (r : Int) ∧ EdStep 2 s.ed s'.ed ∧
      ∀ k, runOk k s' = true →
        RelO (iterate (k + 1) s) (iterate k (retype s' (buf.takeWhile (· != 0) ++ rest))) :=
  Lemmas.C09b.at_run s r rest buf hinv hv hd ht h92 h64 h27 h3 hreg hout hroom

/-- **`d@r`** (`d` a digit 1..9): the register's text `d` times -/
theorem count_at_run (s : VS) (d r : Nat) (rest buf : Bytes) (hinv : Inv s) (hv : s.vibuf = [])
    (hd : s.ibuf.length ≤ s.ibufPos) (hd1 : 49 ≤ d) (hd2 : d ≤ 57) (ht : s.typed = d :: 64 :: r :: rest)
    (h92 : r ≠ 92) (h64 : r ≠ 64) (h27 : r ≠ 27) (h3 : r ≠ 3)
    (hreg : regGet s.ed r = some buf) (hout : nlCount s.ed.out ≤ 1)
    (hroom : 1 + (d - 48) * (buf.takeWhile (· != 0)).length ≤ 4096) :
    ∃ s', viStep s = Res.ok () s' ∧ Inv s' ∧
      pending s' = (List.replicate (d - 48) (buf.takeWhile (· != 0))).flatten ++ rest ∧
      s'.execReg = (r : Int) ∧ EdStep 2 s.ed s'.ed ∧
      ∀ k, runOk k s' = true →
        RelO (iterate (k + 1) s)
          (iterate k (retype s' ((List.replicate (d - 48) (buf.takeWhile (· != 0))).flatten ++ rest))) :=
  Lemmas.C09b.count_at_run s d r rest buf hinv hv hd hd1 hd2 ht h92 h64 h27 h3 hreg hout hroom

/-- **`N@r` for a decimal count `N`** of up to nine digits: the register's text `N` times -/
theorem decimal_count_at_run (s : VS) (d0 : Nat) (ds : List Nat) (r : Nat) (rest buf : Bytes) (hinv : Inv s)
    (hv : s.vibuf = []) (hd : s.ibuf.length ≤ s.ibufPos) (hd1 : 49 ≤ d0) (hd2 : d0 ≤ 57)
    (hds : ∀ d ∈ ds, isDigit d) (hlen : ds.length + 1 ≤ 9) (ht : s.typed = d0 :: (ds ++ 64 :: r :: rest))
    (h92 : r ≠ 92) (h64 : r ≠ 64) (h27 : r ≠ 27) (h3 : r ≠ 3)
    (hreg : regGet s.ed r = some buf) (hout : nlCount s.ed.out ≤ 1)
    (hroom : 1 + (decVal (d0 :: ds)).toNat * (buf.takeWhile (· != 0)).length ≤ 4096) :
    ∃ s', viStep s = Res.ok () s' ∧ Inv s' ∧
      pending s' = (List.replicate (decVal (d0 :: ds)).toNat (buf.takeWhile (· != 0))).flatten ++ rest ∧
      s'.execReg = (r : Int) ∧ EdStep 2 s.ed s'.ed ∧
      ∀ k, runOk k s' = true →
        RelO (iterate (k + 1) s)
          (iterate k (retype s' ((List.replicate (decVal (d0 :: ds)).toNat (buf.takeWhile (· != 0))).flatten ++ rest))) :=
  decimal_at_run s d0 ds r rest buf hinv hv hd hd1 hd2 hds hlen ht h92 h64 h27 h3 hreg hout hroom

/-- **`@@`**: the register executed by the last `@` (`execReg ≥ 0`) -/
theorem atat_run (s : VS) (rest buf : Bytes) (hinv : Inv s) (hv : s.vibuf = [])
    (hd : s.ibuf.length ≤ s.ibufPos) (ht : s.typed = 64 :: 64 :: rest)
    (h0 : 0 ≤ s.execReg) (hreg : regGet s.ed s.execReg.toNat = some buf) (hout : nlCount s.ed.out ≤ 1)
    (hroom : 1 + (buf.takeWhile (· != 0)).length ≤ 4096) :
    ∃ s', viStep s = Res.ok () s' ∧ Inv s' ∧ pending s' = buf.takeWhile (· != 0) ++ rest ∧
      s'.execReg = s.execReg ∧ EdStep 2 s.ed s'.ed ∧
      ∀ k, runOk k s' = true →
        RelO (iterate (k + 1) s) (iterate k (retype s' (buf.takeWhile (· != 0) ++ rest))) :=
  Lemmas.C09b.atat_run s rest buf hinv hv hd ht h0 hreg hout hroom

/-! ## 4. composition -/

/-- **any number of `.` / `@`, each on a drained queue**: the run equals (up to `K`, after every number of
iterations) the run `iterateT` in which, after each iteration, whatever was pushed is moved to the
terminal side — i.e. each `.` / `@` is replaced, at its place in the user's input, by the keys it stands for -/
theorem dots_replaced_run (n : Nat) (s : VS) (h : Inv s) (hok : runOk n s = true) :
    RelO (iterate n s) (iterateT n (retype s (pending s))) :=
  run_retyped n s (Lemmas.C09.norm s) (K.norm h) hok

/-- in the replaced run no iteration starts with pushed keys: every `.` / `@` in it is executed on a
drained queue -/
theorem replaced_run_never_pushes (n : Nat) (s s' : VS) (keys : Bytes)
    (h : iterateT n (retype s keys) = some s') : s'.ibuf = [] ∧ s'.ibufPos = 0 :=
  iterateT_drained n (retype s keys) s' ⟨rfl, rfl⟩ h

/-! ## 5. the proviso is needed; the strict reading is false -/

/-- **the proviso is needed** (the finding `dot_inside_macro_queued_after_rest`): with the macro `. j`
pushed and `x` recorded, the iteration that executes `.` violates the proviso and leaves `j x` pending; with
`. j` typed at the terminal it leaves `x j`.  The two runs are `KeyEq` before and not after. -/
theorem proviso_needed (ed : Ed) (hout : nlCount ed.out ≤ 1) :
    KeyEq (exMacro ed) (retype (exMacro ed) (pending (exMacro ed))) ∧
    stepOk (exMacro ed) = false ∧
    ∃ s' t', iterate 1 (exMacro ed) = some s' ∧
      iterate 1 (retype (exMacro ed) (pending (exMacro ed))) = some t' ∧
      pending s' = [106, 120] ∧ pending t' = [120, 106] ∧ ¬ KeyEq s' t' :=
  ⟨keyEq_norm _, Lemmas.C09b.proviso_needed ed hout⟩

/-- **the strict reading of "`.` equals retyping" is false** whenever there is a buffer: the state after
the iteration that executes `.` is *not* the state before it with the recorded keys in place of the `.` —
`lbuf_modified()` has run twice (`useq + 2`; also the mark `^`, `vi_arg1`, `icmd` are those of the `.`
command).  The runs compared in `dot_run` therefore start after that iteration. -/
theorem dot_iteration_not_pure_substitution (s : VS) (rest : Bytes) (hinv : Inv s) (hv : s.vibuf = [])
    (hd : s.ibuf.length ≤ s.ibufPos) (ht : s.typed = 46 :: rest) (hout : nlCount s.ed.out ≤ 1)
    (hlb : s.ed.lb.isSome = true) (hq : s.ed.xquit = false) :
    ∃ s', viStep s = Res.ok () s' ∧ ¬ KeyEq s' (retype s (s.repCmd ++ rest)) ∧
      s'.ed.lb.map (·.useq) = (s.ed.lb.map (·.useq)).map (· + 2) :=
  Lemmas.C09b.dot_iteration_not_pure_substitution s rest hinv hv hd ht hout hlb hq

/-- a state the editor reaches -/
def Reachable (s : VS) : Prop := ∃ ed keys rows cols n, iterate n (viInit ed keys rows cols) = some s

/-- **stated, not proved**: the literal form of C09 on the observable part of the state.  For a reachable
state with a recorded change, the run on `. rest` after `k + 1` iterations and the run on `recorded rest`
after `k` iterations show the same text, cursor and registers (they differ in the sequence numbers of the
undo history, see `dot_iteration_not_pure_substitution`).  Proving it needs a relation "equal up to a
monotone renumbering of `useq`" carried through every command, `ex` commands included; the evaluation of
the model on examples (`2x3.` against `2x2x2x2x`, …) agrees with it. -/
def dot_retyped_observable_full : Prop :=
  ∀ (s : VS) (rest : Bytes) (k : Nat), Reachable s → s.vibuf = [] → s.ibuf.length ≤ s.ibufPos →
    s.repCmd ≠ [] → s.typed = 46 :: rest → nlCount s.ed.out ≤ 1 → s.ed.xquit = false →
    runOk (k + 1) s = true →
    match iterate (k + 1) s, iterate k { s with typed := s.repCmd ++ rest } with
    | some a, some b => lines a = lines b ∧ a.ed.xrow = b.ed.xrow ∧ a.ed.xoff = b.ed.xoff ∧
        a.ed.regs = b.ed.regs
    | none, none => True
    | _, _ => False

/-! ## 6. the 4 KiB buffers -/

/-- **a command of 4095 keys or more is not recorded at all** (not truncated): `term_cmd`, the keys `ks`
are read, the command finishes — `rep_cmd`, register `.` (all of `ed`) are as before, so `.` repeats the
change recorded earlier -/
theorem long_command_not_recorded (c k : Int) (mod : Nat) (ks rest : Bytes) (s : VS)
    (hp : pending s = ks ++ rest) (hl : 4096 ≤ ks.length + 1) :
    ∃ s', recordRun c k mod ks.length s = Res.ok (some mod) s' ∧
      s'.repCmd = s.repCmd ∧ s'.ed = s.ed ∧ s'.icmd = [] ∧ pending s' = rest :=
  recordRun_long c k mod ks rest s hp hl

/-- the same at the tail of the command switch -/
theorem long_command_tail (c k : Int) (mod : Nat) (s : VS) (h : 4096 ≤ s.icmd.length + 1) :
    finRec c k mod s = Res.ok (some mod) { s with icmd := [] } :=
  finRec_long c k mod s h

/-- **below the limit nothing is truncated**: a repeatable command of fewer than 4095 keys is recorded
whole (C09 `record_is_keys_read`) -/
theorem short_command_recorded_whole (c k : Int) (mod : Nat) (ks rest : Bytes) (s : VS)
    (hp : pending s = ks ++ rest) (hl : ks.length + 1 < 4096) (hr : isRepeatable c k = true) :
    ∃ s', recordRun c k mod ks.length s = Res.ok (some mod) s' ∧ s'.repCmd = ks ∧ pending s' = rest :=
  recordRun_short c k mod ks rest s hp hl hr

/-- `icmd` keeps the first 4096 keys read since `term_cmd()`; later keys are not remembered -/
theorem icmd_saturates (ks rest : Bytes) (s : VS) (hp : pending s = ks ++ rest) (hl : s.icmd.length ≤ 4096) :
    ∃ s', readKeys ks.length s = Res.ok (ks.map Int.ofNat) s' ∧
      s'.icmd = (s.icmd ++ ks).take 4096 ∧ pending s' = rest :=
  readKeys_saturates ks rest s hp hl

/-- **`term_push` without room**: of the `n` copies of `x` only what fits in the 4096 bytes of `ibuf` is
queued — `N.` / `N@r` with `N * length` beyond the room run a truncated key sequence -/
theorem push_truncates (n : Nat) (x : Bytes) (s : VS) :
    pushN n x s = { s with ibuf := s.ibuf ++ ((List.replicate n x).flatten).take (4096 - s.ibuf.length) } :=
  pushN_trunc n x s

/-! ## 7. the hypotheses are satisfiable -/

section Examples

/-- a state with a one-line buffer, `x` recorded, and `. j` at the terminal -/
def exDot : VS := { ed := exBuf, repCmd := [120], typed := [46, 106] }

theorem exDot_out : nlCount exDot.ed.out ≤ 1 := by
  show nlCount [] ≤ 1
  decide

/-- `dot_run` applies to `exDot`: after `.` the keys `x j` are pending -/
example : ∃ s', viStep exDot = Res.ok () s' ∧ pending s' = [120, 106] := by
  obtain ⟨s', h1, -, h3, -⟩ := dot_run exDot [106] ⟨Nat.zero_le _, by decide, by decide⟩ rfl
    (Nat.le_refl 0) rfl exDot_out
  exact ⟨s', h1, h3⟩

/-- `exDot` with the `.` pushed as the last key of a macro (`@r` has been read before) and `j` at the terminal -/
def exDotPushed : VS := { ed := exBuf, repCmd := [120], ibuf := [64, 46], ibufPos := 1, typed := [106] }

theorem inv_exDotPushed : Inv exDotPushed :=
  ⟨by show 1 ≤ 2; decide, by show 1 + 1 < 4096; decide, Nat.zero_le _⟩

/-- the proviso holds at that iteration: once the `.` has been read nothing pushed is unread -/
theorem stepOk_exDotPushed : stepOk exDotPushed = true := by
  obtain ⟨ib, ip, ty, hpre, -, -, h4, -⟩ := viPre_cmdkey exDotPushed 46 (Or.inl rfl) [106] rfl rfl
  obtain ⟨e1, e2, e3⟩ := h4 (by show 1 < 2; decide)
  rw [e1, e2, e3] at hpre
  unfold stepOk
  rw [hpre]
  simp [viRead, pushOk, cnt1, exDotPushed, max10]

/-- the hypotheses of `run_keeps_sim` / `step_keeps_sim` with `n = 1`: the pushed and the typed variant are
`K`-related and the proviso holds along the first iteration of the pushed one -/
example : K exDotPushed exDot ∧ stepOk exDotPushed = true ∧ runOk 1 exDotPushed = true := by
  refine ⟨K.norm inv_exDotPushed, stepOk_exDotPushed, ?_⟩
  unfold runOk
  rw [stepOk_exDotPushed]
  cases viStep exDotPushed <;> rfl

/-- `decimal_count_dot_run`: `12.` with `x` recorded leaves twelve `x` and then `j` pending -/
example (ed : Ed) (hout : nlCount ed.out ≤ 1) :
    ∃ s', viStep { ed := ed, repCmd := [120], typed := [49, 50, 46, 106] } = Res.ok () s' ∧
      pending s' = List.replicate 12 120 ++ [106] := by
  obtain ⟨s', h1, -, h3, -⟩ := decimal_count_dot_run { ed := ed, repCmd := [120], typed := [49, 50, 46, 106] }
    49 [50] [106] ⟨Nat.zero_le _, by show 1 + 1 < 4096; decide, Nat.zero_le _⟩ rfl (Nat.le_refl 0) (by decide)
    (by decide) (by intro d hd; rw [List.mem_singleton.mp hd]; exact ⟨by decide, by decide⟩) (by decide) rfl hout
    (by rw [decVal_example]; show 1 + 12 * 1 ≤ 4096; decide)
  refine ⟨s', h1, ?_⟩
  rw [h3, decVal_example]
  rfl

/-- `at_run`: register `a` holds `x j` -/
example (ed : Ed) (hout : nlCount ed.out ≤ 1) (hreg : regGet ed 97 = some [120, 106]) :
    ∃ s', viStep { ed := ed, typed := [64, 97, 107] } = Res.ok () s' ∧ pending s' = [120, 106, 107] ∧
      s'.execReg = 97 := by
  obtain ⟨s', h1, -, h3, h4, -⟩ := at_run { ed := ed, typed := [64, 97, 107] } 97 [107] [120, 106]
    ⟨Nat.zero_le _, by show 0 + 1 < 4096; decide, Nat.zero_le _⟩ rfl (Nat.le_refl 0) rfl (by decide) (by decide)
    (by decide) (by decide) hreg hout (by decide)
  exact ⟨s', h1, h3, h4⟩

/-- `dot_iteration_not_pure_substitution` applies to `exDot` -/
example : ∃ s', viStep exDot = Res.ok () s' ∧ ¬ KeyEq s' (retype exDot ([120] ++ [106])) := by
  obtain ⟨s', h1, h2, -⟩ := dot_iteration_not_pure_substitution exDot [106]
    ⟨Nat.zero_le _, by decide, by decide⟩ rfl (Nat.le_refl 0) rfl exDot_out exBuf_lb rfl
  exact ⟨s', h1, h2⟩

/-- `long_command_not_recorded`: 4095 keys `a` after `i` -/
example (ed : Ed) : ∃ s', recordRun 105 0 0 4095 { ed := ed, repCmd := [120], typed := List.replicate 4095 97 }
      = Res.ok (some 0) s' ∧ s'.repCmd = [120] := by
  obtain ⟨s', h1, h2, -⟩ := long_command_not_recorded 105 0 0 (List.replicate 4095 97) []
    { ed := ed, repCmd := [120], typed := List.replicate 4095 97 }
    (by show [] ++ List.replicate 4095 97 = List.replicate 4095 97 ++ []; rw [List.append_nil]; rfl)
    (by rw [List.length_replicate]; decide)
  rw [List.length_replicate] at h1
  exact ⟨s', h1, h2⟩

end Examples

end Neatvi.Props.C09b
