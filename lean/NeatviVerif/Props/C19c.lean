import NeatviVerif.Lemmas.C19cEmit
import NeatviVerif.Props.C17b
import NeatviVerif.Model.Vi
/-!
# C19c  What a screen row shows: the window table `off[]` and the row of an ASCII line

`Render.renderRow orc o shape s0 cbeg cend` models `led_render` (led.c): the text of one screen
row for the line `s0` and the column window `[cbeg, cend)`.

* §1 (T1) `offTable_length`, `offTable_spec`, `offTable_outside` (and `offTable_spec_rtl` for the
  mirrored window of a right-to-left context): in a left-to-right context the
  table `off[]` holds character `i` at window column `k` exactly when column `cbeg + k` is one of
  the cells of `i` and *all* cells of `i` are inside the window — for any characters and any
  position table whose cell ranges are pairwise disjoint (every `ren_cwid` is at least 1, by
  `Lemmas.C17b.renCwid_pos`, so no width hypothesis is needed).  `offTable_spec_model` instantiates
  it on every table the model's `ren_position` computes for a valid UTF-8 line (`C17b.renPosition_tiled`,
  `C17b.cells_disjoint`), with the reference `cellWidth`.
* §2 `renPosition_ascii_fast`, `dirContext_nonneg`: when the layout is the identity and the context
  left-to-right.
* §3 (T2) `renderRow_line_window`, `renderRow_ascii_window`, `renderRow_ascii_window_opts`: the
  row of a line of printable ASCII is the slice of the line that falls into the window, the
  newline showing as a blank.
* §4 (T3) non-vacuity, and the corner of the empty string.

Nothing here is `_partial`.
-/
namespace Neatvi.Props.C19c
open Neatvi Neatvi.Uc Neatvi.Spec Neatvi.Ren Neatvi.Render Neatvi.Lemmas.C19c

/-! ## 1. the table `off[]` -/

/-- the table has one entry per window column -/
theorem offTable_length (chs : List Bytes) (pos : List Nat) (ctx : Int) (cbeg cend : Int) :
    (offTable chs pos ctx cbeg cend).length = (cend - cbeg).toNat :=
  Lemmas.C19c.offTable_length chs pos ctx cbeg cend

/-- beyond the window there is no entry -/
theorem offTable_outside (chs : List Bytes) (pos : List Nat) (ctx : Int) (cbeg cend : Int) (k : Nat)
    (hk : (cend - cbeg).toNat ≤ k) : (offTable chs pos ctx cbeg cend).getD k none = none := by
  rw [List.getD_eq_getElem?_getD, List.getElem?_eq_none (by rw [offTable_length]; exact hk)]
  rfl

/-- (T1) left-to-right context, cell ranges pairwise disjoint: window column `k` holds character
    `i` iff `cbeg + k` is a cell of `i` and every cell of `i` lies in `[cbeg, cend)` -/
theorem offTable_spec (chs : List Bytes) (pos : List Nat) (ctx : Int) (hctx : ctx ≥ 0) (cbeg cend : Int)
    (hwin : cbeg < cend)
    (hd : ∀ i j, i < chs.length → j < chs.length → i ≠ j →
      pos.getD i 0 + renCwid (chs.getD i []) (pos.getD i 0) ≤ pos.getD j 0 ∨
      pos.getD j 0 + renCwid (chs.getD j []) (pos.getD j 0) ≤ pos.getD i 0)
    (k : Nat) (hk : k < (cend - cbeg).toNat) (i : Nat) :
    (offTable chs pos ctx cbeg cend).getD k none = some i ↔
      i < chs.length ∧
      (pos.getD i 0 : Int) ≤ cbeg + k ∧
      cbeg + k < (pos.getD i 0 : Int) + (renCwid (chs.getD i []) (pos.getD i 0) : Int) ∧
      cbeg ≤ (pos.getD i 0 : Int) ∧
      (pos.getD i 0 : Int) + (renCwid (chs.getD i []) (pos.getD i 0) : Int) ≤ cend := by
  rw [offTable_eq]
  have := offFold_spec chs pos ctx hctx cbeg cend hwin
    (fun i _ => Lemmas.C17b.renCwid_pos _ _) hd chs.length (Nat.le_refl _) k hk i
  rw [this]
  unfold Covers InWin
  constructor
  · rintro ⟨a, ⟨b, c⟩, d, e⟩; exact ⟨a, b, c, d, e⟩
  · rintro ⟨a, b, c, d, e⟩; exact ⟨a, ⟨b, c⟩, d, e⟩

/-- (T1, mirrored) right-to-left context: window column `k` is screen column `cend - 1 - k`; it
    holds character `i` iff that column is a cell of `i` and every cell of `i` lies in `[cbeg, cend)` -/
theorem offTable_spec_rtl (chs : List Bytes) (pos : List Nat) (ctx : Int) (hctx : ctx < 0) (cbeg cend : Int)
    (hwin : cbeg < cend)
    (hd : ∀ i j, i < chs.length → j < chs.length → i ≠ j →
      pos.getD i 0 + renCwid (chs.getD i []) (pos.getD i 0) ≤ pos.getD j 0 ∨
      pos.getD j 0 + renCwid (chs.getD j []) (pos.getD j 0) ≤ pos.getD i 0)
    (k : Nat) (hk : k < (cend - cbeg).toNat) (i : Nat) :
    (offTable chs pos ctx cbeg cend).getD k none = some i ↔
      i < chs.length ∧
      (pos.getD i 0 : Int) ≤ cend - 1 - k ∧
      cend - 1 - k < (pos.getD i 0 : Int) + (renCwid (chs.getD i []) (pos.getD i 0) : Int) ∧
      cbeg ≤ (pos.getD i 0 : Int) ∧
      (pos.getD i 0 : Int) + (renCwid (chs.getD i []) (pos.getD i 0) : Int) ≤ cend := by
  rw [offTable_eq]
  have := offFold_spec_rtl chs pos ctx hctx cbeg cend hwin
    (fun i _ => Lemmas.C17b.renCwid_pos _ _) hd chs.length (Nat.le_refl _) k hk i
  rw [this]
  unfold CoversR InWin
  constructor
  · rintro ⟨a, ⟨b, c⟩, d, e⟩; exact ⟨a, b, c, d, e⟩
  · rintro ⟨a, b, c, d, e⟩; exact ⟨a, ⟨b, c⟩, d, e⟩

/-- a window column holds at most one character, and only a character of the line -/
theorem offTable_lt (chs : List Bytes) (pos : List Nat) (ctx : Int) (hctx : ctx ≥ 0) (cbeg cend : Int)
    (hwin : cbeg < cend)
    (hd : ∀ i j, i < chs.length → j < chs.length → i ≠ j →
      pos.getD i 0 + renCwid (chs.getD i []) (pos.getD i 0) ≤ pos.getD j 0 ∨
      pos.getD j 0 + renCwid (chs.getD j []) (pos.getD j 0) ≤ pos.getD i 0)
    (k i : Nat) (h : (offTable chs pos ctx cbeg cend).getD k none = some i) : i < chs.length := by
  by_cases hk : k < (cend - cbeg).toNat
  · exact ((offTable_spec chs pos ctx hctx cbeg cend hwin hd k hk i).mp h).1
  · rw [offTable_outside _ _ _ _ _ _ (by omega)] at h
    cases h

/-- (T1 on the model's own tables) for a valid UTF-8 line and any table `ren_position` returns
    for it — reordered or not — the cells are disjoint (`C17b.cells_disjoint`), so in a
    left-to-right context the window table is exact, with the reference cell widths -/
theorem offTable_spec_model (orc : Dir.Oracle) (o : Opts) (cps : List Nat) (hv : ∀ c ∈ cps, ValidCp c)
    (pos : List Nat) (h : renPosition orc o (encStr cps) = some pos)
    (ctx : Int) (hctx : ctx ≥ 0) (cbeg cend : Int) (hwin : cbeg < cend)
    (k : Nat) (hk : k < (cend - cbeg).toNat) (i : Nat) :
    (offTable (chrs (encStr cps)) pos ctx cbeg cend).getD k none = some i ↔
      i < cps.length ∧
      (pos.getD i 0 : Int) ≤ cbeg + k ∧
      cbeg + k < (pos.getD i 0 : Int) + (cellWidth (cps.getD i 0) (pos.getD i 0) : Int) ∧
      cbeg ≤ (pos.getD i 0 : Int) ∧
      (pos.getD i 0 : Int) + (cellWidth (cps.getD i 0) (pos.getD i 0) : Int) ≤ cend := by
  have ht := C17b.renPosition_tiled orc o cps hv pos h
  have hlen := Lemmas.C17b.chrs_enc_length hv
  have hcw : ∀ i, i < cps.length → ∀ col,
      renCwid ((chrs (encStr cps)).getD i []) col = cellWidth (cps.getD i 0) col :=
    fun i hi col => Lemmas.C17b.cwid_chr hv i hi col
  have hd : ∀ i j, i < (chrs (encStr cps)).length → j < (chrs (encStr cps)).length → i ≠ j →
      pos.getD i 0 + renCwid ((chrs (encStr cps)).getD i []) (pos.getD i 0) ≤ pos.getD j 0 ∨
      pos.getD j 0 + renCwid ((chrs (encStr cps)).getD j []) (pos.getD j 0) ≤ pos.getD i 0 := by
    intro i j hi hj hij
    rw [hlen] at hi hj
    rw [hcw i hi, hcw j hj]
    exact C17b.cells_disjoint ht i j hi hj hij
  rw [offTable_spec _ pos ctx hctx cbeg cend hwin hd k hk i, hlen]
  constructor
  · rintro ⟨a, r⟩; rw [hcw i a] at r; exact ⟨a, r⟩
  · rintro ⟨a, r⟩; rw [← hcw i a] at r; exact ⟨a, r⟩

/-! ## 2. identity layout, left-to-right context -/

/-- an ASCII line has no multi-byte character, so with `xorder` 0 or 1 `ren_position` does not
    reorder: the table is the left-to-right one -/
theorem renPosition_ascii_fast (orc : Dir.Oracle) (o : Opts) (s : Bytes) (hs : ∀ b ∈ s, 0 < b ∧ b < 128)
    (ho : o.xorder = 0 ∨ o.xorder = 1) : renPosition orc o s = some (renPositionFast s) := by
  unfold renPosition
  simp only [ucSlen_low s hs]
  rw [if_neg]
  rcases ho with h | h <;> simp [h]

/-- an ASCII line has as many characters as bytes -/
theorem ucSlen_ascii (s : Bytes) (hs : ∀ b ∈ s, 0 < b ∧ b < 128) : ucSlen s = s.length := ucSlen_low s hs

/-- the characters of an ASCII line are its one-byte suffixes -/
theorem chrs_ascii (s : Bytes) (hs : ∀ b ∈ s, 0 < b ∧ b < 128) :
    chrs s = (List.range s.length).map (fun k => s.drop k) := chrs_low s hs

/-- the left-to-right table of a line of printable ASCII (and newlines) is the identity -/
theorem renPositionFast_ascii (s : Bytes) (hs : LineBytes s) : renPositionFast s = List.range (s.length + 1) :=
  fast_line s hs

/-- the context is left-to-right when `td` is `+2`, or `0` on a line that starts with an ASCII byte -/
theorem dirContext_nonneg (orc : Dir.Oracle) (xtd : Int) (s : Bytes)
    (h : xtd ≥ 2 ∨ (xtd = 0 ∧ Bytes.hd s < 128)) : Dir.dirContext orc xtd s ≥ 0 := by
  unfold Dir.dirContext
  rcases h with h | ⟨h, hb⟩
  · rw [if_pos (by omega)]; omega
  · subst h
    have h80 := and80 (Bytes.hd s) (by omega)
    simp only [h80, decide_eq_true hb]
    simp

/-! ## 3. the row of an ASCII line -/

private theorem range_getD' (n k : Nat) (hk : k < n) : (List.range n).getD k 0 = k := by
  rw [List.getD_eq_getElem?_getD, List.getElem?_range hk]; rfl

/-- a non-empty line of printable ASCII bytes and newlines, identity layout, left-to-right
    context: the row is the slice `[cbeg, cend)` of the line, newlines shown as blanks (shorter
    when the line ends inside the window, empty when it ends before `cbeg`) -/
theorem renderRow_line_window (orc : Dir.Oracle) (o : Opts) (shape : Bool) (s0 : Bytes)
    (hs : LineBytes s0) (hne : s0 ≠ []) (cbeg cend : Int) (h0 : 0 ≤ cbeg) (hwin : cbeg < cend)
    (hpos : renPosition orc o s0 = some (renPositionFast s0))
    (hctx : Dir.dirContext orc o.xtd s0 ≥ 0) :
    renderRow orc o shape s0 cbeg cend =
      some (((s0.map disp).drop cbeg.toNat).take (cend - cbeg).toNat) := by
  have hlow : ∀ b ∈ s0, 0 < b ∧ b < 128 := fun b hb => lineByte_lt (hs b hb)
  have hlen : (chrs s0).length = s0.length := chrs_low_length s0 hlow
  have hL : 0 < s0.length := List.length_pos_iff.mpr hne
  have hcw : ∀ i, i < s0.length → ∀ col, renCwid ((chrs s0).getD i []) col = 1 := by
    intro i hi col
    rw [chrs_low_getD s0 hlow i hi]
    exact renCwid_line _ (by rw [hd_drop_getD]; exact hs _ (getD_mem hi)) col
  obtain ⟨c, rfl⟩ : ∃ c : Nat, cbeg = (c : Int) := ⟨cbeg.toNat, by omega⟩
  obtain ⟨W, rfl, hW⟩ : ∃ W : Nat, cend = (c : Int) + (W : Int) ∧ 1 ≤ W := ⟨(cend - c).toNat, by omega, by omega⟩
  have hWn : ((c : Int) + (W : Int) - (c : Int)).toNat = W := by omega
  unfold renderRow
  rw [hpos]
  simp only []
  rw [fast_line s0 hs, hWn, Int.toNat_natCast]
  generalize hctxd : Dir.dirContext orc o.xtd s0 = ctx at hctx ⊢
  -- the cells are disjoint
  have hd : ∀ i j, i < (chrs s0).length → j < (chrs s0).length → i ≠ j →
      (List.range (s0.length + 1)).getD i 0 + renCwid ((chrs s0).getD i []) ((List.range (s0.length + 1)).getD i 0)
        ≤ (List.range (s0.length + 1)).getD j 0 ∨
      (List.range (s0.length + 1)).getD j 0 + renCwid ((chrs s0).getD j []) ((List.range (s0.length + 1)).getD j 0)
        ≤ (List.range (s0.length + 1)).getD i 0 := by
    intro i j hi hj hij
    rw [hlen] at hi hj
    rw [hcw i hi, hcw j hj, range_getD' _ i (by omega), range_getD' _ j (by omega)]
    omega
  -- the window table
  have hoff : ∀ k, (offTable (chrs s0) (List.range (s0.length + 1)) ctx c (c + W)).getD k none =
      if k < min W (s0.length - c) then some (c + k) else none := by
    intro k
    by_cases hk : k < W
    · have hk' : k < ((c : Int) + (W : Int) - (c : Int)).toNat := by omega
      have spec := offTable_spec (chrs s0) (List.range (s0.length + 1)) ctx hctx c (c + W) (by omega) hd k hk'
      by_cases hkm : k < min W (s0.length - c)
      · rw [if_pos hkm]
        apply (spec (c + k)).mpr
        have hi : c + k < s0.length := by omega
        rw [hlen, hcw _ hi, range_getD' _ _ (by omega)]
        refine ⟨hi, ?_, ?_, ?_, ?_⟩ <;> omega
      · rw [if_neg hkm]
        cases hget : (offTable (chrs s0) (List.range (s0.length + 1)) ctx c (c + W)).getD k none with
        | none => rfl
        | some i =>
          exfalso
          obtain ⟨hi, h1, h2, _, _⟩ := (spec i).mp hget
          rw [hlen] at hi
          rw [hcw _ hi, range_getD' _ _ (by omega)] at h2
          rw [range_getD' _ _ (by omega)] at h1
          omega
    · rw [if_neg (by omega)]
      exact offTable_outside _ _ _ _ _ _ (by omega)
  generalize offTable (chrs s0) (List.range (s0.length + 1)) ctx c (c + W) = off at hoff ⊢
  -- the last occupied column
  have hsome : ∀ k, (off.getD k none).isSome = decide (k < min W (s0.length - c)) := by
    intro k
    rw [hoff k]
    by_cases h : k < min W (s0.length - c)
    · rw [if_pos h]; simp [h]
    · rw [if_neg h]; simp [h]
  rw [clast_fold off c (min W (s0.length - c)) hsome W]
  have hmin : min W (min W (s0.length - c)) = min W (s0.length - c) := by omega
  rw [hmin]
  generalize hcl : (if min W (s0.length - c) = 0 then (0 : Int)
    else (c : Int) + ((min W (s0.length - c) : Nat) : Int) - 1) = clast
  have hclk : ∀ k : Nat, (c : Int) + (k : Int) ≤ clast ↔ k < min W (s0.length - c) := by
    intro k
    rw [← hcl]
    by_cases hm : min W (s0.length - c) = 0
    · rw [if_pos hm]; omega
    · rw [if_neg hm]; omega
  -- the loop
  have := emit_line shape s0 hs c (c + W) c (min W (s0.length - c)) off clast rfl hoff hclk (by omega)
    (fun k hk => by omega) (W + 2) 0 [] (by omega)
  simp only [Int.natCast_zero, Int.add_zero, Nat.add_zero, Nat.sub_zero, List.nil_append] at this
  rw [this]
  congr 1
  by_cases hle : W ≤ s0.length - c
  · rw [Nat.min_eq_left hle]
  · rw [Nat.min_eq_right (by omega), List.take_of_length_le (by simp), List.take_of_length_le (by simp; omega)]

/-- showing the newline of `w ++ "\n"` as a blank -/
theorem map_disp_line (w : Bytes) (hw : 10 ∉ w) : (w ++ [10]).map disp = w ++ [32] := by
  rw [List.map_append]
  congr 1
  induction w with
  | nil => rfl
  | cons a r ih =>
    rw [List.map_cons, ih (fun h => hw (by simp [h]))]
    congr 1
    unfold disp
    rw [if_neg (fun h => hw (by simp [h]))]

/-- (T2) the row of the buffer line `w ++ "\n"`, `w` printable ASCII, in the window `[cbeg, cend)`
    with `0 ≤ cbeg < cend`, identity layout and left-to-right context: exactly the slice of the line
    that falls into the window, the newline showing as a blank.  When the window reaches beyond the
    newline the row is shorter than the window (nothing is emitted after the last occupied column),
    and when `cbeg` is beyond the newline it is empty; `List.drop`/`List.take` say the same. -/
theorem renderRow_ascii_window (orc : Dir.Oracle) (o : Opts) (shape : Bool) (w : Bytes)
    (hw : ∀ b ∈ w, 32 ≤ b ∧ b ≤ 126) (cbeg cend : Int) (h0 : 0 ≤ cbeg) (hwin : cbeg < cend)
    (hpos : renPosition orc o (w ++ [10]) = some (renPositionFast (w ++ [10])))
    (hctx : Dir.dirContext orc o.xtd (w ++ [10]) ≥ 0) :
    renderRow orc o shape (w ++ [10]) cbeg cend =
      some (((w ++ [32]).drop cbeg.toNat).take (cend - cbeg).toNat) := by
  rw [renderRow_line_window orc o shape (w ++ [10]) (lineBytes_of_printable w hw) (by simp) cbeg cend h0 hwin
    hpos hctx]
  rw [map_disp_line w (fun h => by have := hw 10 h; omega)]

/-- (T2, closed form) the same with the hypotheses on the layout and the context discharged from
    the options: `xorder` 0 or 1 (no reordering of a line without multi-byte characters) and
    `td` `+2`, or `0` — for any regular-expression oracle -/
theorem renderRow_ascii_window_opts (orc : Dir.Oracle) (o : Opts) (shape : Bool) (w : Bytes)
    (hw : ∀ b ∈ w, 32 ≤ b ∧ b ≤ 126) (cbeg cend : Int) (h0 : 0 ≤ cbeg) (hwin : cbeg < cend)
    (ho : o.xorder = 0 ∨ o.xorder = 1) (htd : o.xtd ≥ 2 ∨ o.xtd = 0) :
    renderRow orc o shape (w ++ [10]) cbeg cend =
      some (((w ++ [32]).drop cbeg.toNat).take (cend - cbeg).toNat) := by
  have hs := lineBytes_of_printable w hw
  have hlow : ∀ b ∈ w ++ [10], 0 < b ∧ b < 128 := fun b hb => lineByte_lt (hs b hb)
  apply renderRow_ascii_window orc o shape w hw cbeg cend h0 hwin (renPosition_ascii_fast orc o _ hlow ho)
  apply dirContext_nonneg
  rcases htd with h | h
  · exact Or.inl h
  · refine Or.inr ⟨h, ?_⟩
    have : Bytes.hd (w ++ [10]) ∈ w ++ [10] := by
      cases w with
      | nil => simp
      | cons a r => simp
    exact (hlow _ this).2

/-! ## 4. non-vacuity -/

/-- "hello\n" -/
def hello : Bytes := [104, 101, 108, 108, 111, 10]
def opts : Opts := { xorder := 1, xlim := 256, xtd := 2 }

/-- the hypotheses of T2 hold of a concrete line, with the editor's own oracle -/
example : renPosition Vi.dirOracle opts hello = some (renPositionFast hello) ∧
    Dir.dirContext Vi.dirOracle opts.xtd hello ≥ 0 ∧
    (∀ b ∈ [104, 101, 108, 108, 111], 32 ≤ b ∧ b ≤ 126) := by decide

/-- a window that cuts the line on both sides -/
example : renderRow Vi.dirOracle opts true hello 1 4 = some [101, 108, 108] := by decide +kernel
example : renderRow Vi.dirOracle opts true hello 1 4 = some [101, 108, 108] :=
  renderRow_ascii_window_opts Vi.dirOracle opts true [104, 101, 108, 108, 111] (by decide) 1 4 (by decide) (by decide)
    (Or.inr rfl) (Or.inl (by decide))

/-- the whole line: the newline shows as a blank, nothing is emitted after it -/
example : renderRow Vi.dirOracle opts true hello 0 80 = some [104, 101, 108, 108, 111, 32] := by decide +kernel
/-- the window starts at the newline -/
example : renderRow Vi.dirOracle opts true hello 5 80 = some [32] := by decide +kernel
/-- the window starts beyond the end of the line -/
example : renderRow Vi.dirOracle opts true hello 6 80 = some [] := by decide +kernel
example : renderRow Vi.dirOracle opts true hello 20 80 = some [] := by decide +kernel
example : renderRow Vi.dirOracle opts true hello 20 80 = some [] :=
  renderRow_ascii_window_opts Vi.dirOracle opts true [104, 101, 108, 108, 111] (by decide) 20 80 (by decide) (by decide)
    (Or.inr rfl) (Or.inl (by decide))
/-- the empty buffer line -/
example : renderRow Vi.dirOracle opts true [10] 0 80 = some [32] := by decide +kernel

/-- the window table of the cut window: characters 1, 2, 3 -/
example : offTable (chrs hello) (renPositionFast hello) 1 1 4 = [some 1, some 2, some 3] := by decide +kernel
/-- the same window in a right-to-left context is mirrored -/
example : offTable (chrs hello) (renPositionFast hello) (-1) 1 4 = [some 3, some 2, some 1] := by decide +kernel
/-- a tab whose cells straddle the window edge is not entered (all of its cells must be inside):
    "a\tb\n" in the window [0, 4) -/
example : offTable (chrs [97, 9, 98, 10]) (renPositionFast [97, 9, 98, 10]) 1 0 4 = [some 0, none, none, none] := by
  decide +kernel

/-- the corner `renderRow_line_window` excludes: the empty string (not a buffer line) has no
    occupied column, `clast` is 0, and the window that starts at column 0 still emits one blank -/
example : renderRow Vi.dirOracle opts true [] 0 80 = some [32] := by decide +kernel

end Neatvi.Props.C19c
