import NeatviVerif.Lemmas.C11bVM
import NeatviVerif.Lemmas.C11bStrict
import NeatviVerif.Lemmas.C10Eval
/-!
# C11 (UTF-8 clause): on valid UTF-8 every reported offset lies on a character boundary

`Boundary cs k`: `k` is the byte offset of a character of `encStr cs` (or its end).  `Valid cs`: all
code points are in U+0001 .. U+10FFFF (the newline that ends a line is the code point 10).

* `atomMatch_boundary` (+ `_icase`, `_nonlit`): one atom leads from a boundary to a boundary.  Only
  a literal compared *without* ICASE needs a hypothesis (`WfAtom`): its bytes are the encoding of
  valid code points, or they start with a continuation byte (then it cannot match at a boundary).
  `.`, bracket sets, the anchors and the ICASE comparison advance by `uc_len` of the subject or not
  at all.  `atomMatch_needs_wf`: the hypothesis cannot be dropped.
* `parse_atoms_wf`: every atom parsed from a valid UTF-8 pattern is `WfAtom`.
  `parse_atoms_strict_full` (every literal is the encoding of whole characters) is FALSE:
  `parse_splits_character` — `a{1é` — the byte after the bounds of `{m,n` is skipped unseen
  (`++*pat`), which splits `é`.  `parse_atoms_strict`: it holds for patterns without `{`, and there
  bracket expressions are whole characters too (`brk_len` only stops at or after `]`).
* `vm_boundaries`, `vm_reach_boundaries`, `recmatch_boundaries`, `start_positions_boundaries`,
  `offsets_on_boundaries`: the VM and `regexec`.
-/
namespace Neatvi.Props.C11b
open Neatvi Neatvi.Uc Neatvi.Regex Neatvi.Spec

/-! ## 1. atoms -/

/-- `ratom_match` of a well-formed atom on a valid subject leads from a character boundary to a
    character boundary — for every atom kind and all flags. -/
theorem atomMatch_boundary (a : Atom) (cs : List Nat) (flg pos pos' : Nat) (hv : Valid cs)
    (hwf : WfAtom a) (hp : Boundary cs pos)
    (h : atomMatch a (encStr cs) flg pos = AR.ok pos') : Boundary cs pos' :=
  atomMatch_boundary_aux a cs flg pos pos' hv (fun hk _ => hwf hk) hp h

/-- With ICASE no hypothesis on the atom is needed: the comparison decodes the subject character by
    character. -/
theorem atomMatch_boundary_icase (a : Atom) (cs : List Nat) (flg pos pos' : Nat) (hv : Valid cs)
    (hic : hasFlag flg REG_ICASE = true) (hp : Boundary cs pos)
    (h : atomMatch a (encStr cs) flg pos = AR.ok pos') : Boundary cs pos' :=
  atomMatch_boundary_aux a cs flg pos pos' hv (fun _ hf => by rw [hic] at hf; cases hf) hp h

/-- `.`, bracket sets (ranges, negation, classes) and the anchors `^ $ \< \>` need no hypothesis:
    they consume one character of the subject (`uc_len` of its lead byte) or nothing. -/
theorem atomMatch_boundary_nonlit (a : Atom) (cs : List Nat) (flg pos pos' : Nat) (hv : Valid cs)
    (hk : a.k ≠ AK.chr) (hp : Boundary cs pos)
    (h : atomMatch a (encStr cs) flg pos = AR.ok pos') : Boundary cs pos' :=
  atomMatch_boundary_aux a cs flg pos pos' hv (fun hk' _ => absurd hk' hk) hp h

/-- The anchors consume nothing. -/
theorem atomMatch_anchor (a : Atom) (subj : Bytes) (flg pos pos' : Nat)
    (hk : a.k = AK.beg ∨ a.k = AK.end_ ∨ a.k = AK.wbeg ∨ a.k = AK.wend)
    (h : atomMatch a subj flg pos = AR.ok pos') : pos' = pos := by
  unfold atomMatch at h
  split at h
  · cases h
  · rcases hk with hk | hk | hk | hk <;> simp only [hk] at h
    · split at h
      · split at h
        · cases h
        · cases h; rfl
      · split at h
        · split at h
          · cases h; rfl
          · cases h
        · cases h
    · split at h
      · split at h
        · cases h
        · cases h; rfl
      · split at h
        · split at h
          · cases h; rfl
          · cases h
        · cases h
    · split at h
      · cases h; rfl
      · cases h
    · split at h
      · cases h; rfl
      · cases h

/-- The hypothesis on literals cannot be dropped: the literal `C3` (the lead byte of `é` alone)
    matches the subject `é` at 0 and ends at 1, inside the character. -/
theorem atomMatch_needs_wf :
    atomMatch ⟨AK.chr, [0xc3]⟩ (encStr [0xe9]) 0 0 = AR.ok 1 ∧ ¬ Boundary [0xe9] 1 := by
  decide

/-! ## 2. the parser -/

/-- Every atom of the tree parsed from a valid UTF-8 pattern is well formed. -/
theorem parse_atoms_wf (ps : List Nat) (hv : Valid ps) (t : RNode)
    (h : parse (encStr ps) = some (some t)) : AllAtoms WfAtom t :=
  parse_inv parseInv_sfx (sfx_of_strict ⟨ps, hv, rfl⟩) h

/-- … and so is every atom instruction of the compiled program. -/
theorem regcomp_atoms_wf (ps : List Nat) (hv : Valid ps) (flg : Nat) (prog : Prog)
    (h : regcomp (encStr ps) flg = some (some prog)) : ∀ a, Inst.atom a ∈ prog.code → WfAtom a :=
  regcomp_atoms parseInv_sfx (sfx_of_strict ⟨ps, hv, rfl⟩) h

/-- The stronger statement — every literal is the encoding of whole characters — … -/
def parse_atoms_strict_full : Prop :=
  ∀ ps, Valid ps → ∀ t, parse (encStr ps) = some (some t) → AllAtoms StrictAtom t

/-- … is false.  The pattern `a{1é` (an unterminated bound): after the digits `rnode_atom` does
    `++*pat` whatever the byte is; here it is the lead byte `C3` of `é`, and the next literal is the
    lone continuation byte `A9`. -/
theorem parse_splits_character :
    parse (encStr [97, 123, 49, 0xe9]) =
      some (some (.cat (.atom ⟨AK.chr, [97]⟩ 1 1) (.atom ⟨AK.chr, [0xa9]⟩ 1 1))) := by
  decide +kernel

theorem not_strict_cont : ¬ StrictLit [0xa9] := by
  rintro ⟨ls, hv, e⟩
  cases ls with
  | nil => simp at e
  | cons c ls =>
    obtain ⟨a, t, he, hch⟩ := enc_chr (valid_cons.mp hv).1
    rw [encStr_cons, he] at e
    simp at e
    have := e.1
    rcases hch.lead with ⟨h1, _⟩ | h1 <;> omega

theorem parse_atoms_strict_full_false : ¬ parse_atoms_strict_full := by
  intro h
  have := h [97, 123, 49, 0xe9] (by decide) _ parse_splits_character
  exact not_strict_cont (this.2 rfl)

/-- Under ICASE the lone `A9` is decoded as U+00A9: the pattern `a{1é` matches the subject `a©`
    (`61 C2 A9`) — on boundaries, `(0, 3)`, but not what any reading of the pattern means. -/
theorem split_character_matches_icase :
    (regcomp (encStr [97, 123, 49, 0xe9]) REG_ICASE).map (·.map (·.code)) =
      some (some [Inst.mark 0, Inst.atom ⟨AK.chr, [97]⟩, Inst.atom ⟨AK.chr, [0xa9]⟩, Inst.mark 1,
        Inst.mtch]) ∧
    regexec ⟨[Inst.mark 0, Inst.atom ⟨AK.chr, [97]⟩, Inst.atom ⟨AK.chr, [0xa9]⟩, Inst.mark 1,
        Inst.mtch], 5, REG_ICASE⟩ (encStr [97, 0xa9]) 1 0 100 2 =
      (ExecRes.found [0, 3, -1, -1] 0, [(0, 3)]) :=
  ⟨by decide +kernel, Lemmas.C10.regexecF_sound (fuel := 40) (by decide +kernel)⟩

/-- Corrected hypothesis: for a valid UTF-8 pattern without `{`, every literal *and every bracket
    expression* is the encoding of whole characters. -/
theorem parse_atoms_strict (ps : List Nat) (hv : Valid ps) (hnb : 123 ∉ encStr ps) (t : RNode)
    (h : parse (encStr ps) = some (some t)) : AllAtoms StrictAtom2 t :=
  parse_inv parseInv_noBrace ⟨⟨ps, hv, rfl⟩, hnb⟩ h

theorem regcomp_atoms_strict (ps : List Nat) (hv : Valid ps) (hnb : 123 ∉ encStr ps) (flg : Nat)
    (prog : Prog) (h : regcomp (encStr ps) flg = some (some prog)) :
    ∀ a, Inst.atom a ∈ prog.code → StrictAtom2 a :=
  regcomp_atoms parseInv_noBrace ⟨⟨ps, hv, rfl⟩, hnb⟩ h

/-! ## 3. the VM and `regexec` -/

/-- On a program whose atoms are well formed, run on a valid subject and entered at a character
    boundary with marks on boundaries, a successful run ends on a boundary with all marks on
    boundaries — from every `pc` and at every depth. -/
theorem vm_boundaries (cx : Ctx) (cs : List Nat) (hv : Valid cs) (hs : cx.subj = encStr cs)
    (hwf : ∀ a, Inst.atom a ∈ cx.prog → WfAtom a)
    (dep pc pos : Nat) (m : Marks) (cuts p' : Nat) (m' : Marks) (c' : Nat)
    (hp : Boundary cs pos) (hm : MarksB cs m)
    (h : loop cx dep pc pos m cuts = Res.ok p' m' c') : Boundary cs p' ∧ MarksB cs m' :=
  loop_boundary cx (atomB_of_wf cx hv hs hwf) dep pc pos m cuts p' m' c' hp hm h

/-- Every state the machine can be in (both branches of every fork, failed paths included) has its
    position and all its marks on character boundaries. -/
theorem vm_reach_boundaries (cx : Ctx) (cs : List Nat) (hv : Valid cs) (hs : cx.subj = encStr cs)
    (hwf : ∀ a, Inst.atom a ∈ cx.prog → WfAtom a) (start : Nat) (hst : Boundary cs start)
    (pc pos : Nat) (m : Marks) (h : Reach cx start pc pos m) : Boundary cs pos ∧ MarksB cs m :=
  reach_boundary cx (atomB_of_wf cx hv hs hwf) hst h

/-- One start position: the end of the match and every mark are on boundaries. -/
theorem recmatch_boundaries (ps cs : List Nat) (hvp : Valid ps) (hvs : Valid cs) (flg : Nat)
    (prog : Prog) (hc : regcomp (encStr ps) flg = some (some prog)) (cx : Ctx)
    (hprog : cx.prog = prog.code) (hs : cx.subj = encStr cs) (start cuts pos : Nat) (m : Marks)
    (c : Nat) (hst : Boundary cs start) (h : recmatch cx start cuts = Res.ok pos m c) :
    Boundary cs pos ∧ MarksB cs m :=
  recmatch_boundary cx (atomB_of_wf cx hvs hs (by rw [hprog]; exact regcomp_atoms_wf ps hvp flg prog hc))
    hst h

/-- The start positions `regexec` tries (0, then `+ uc_len` of the lead byte) are boundaries. -/
theorem start_positions_boundaries (cx : Ctx) (cs : List Nat) (hv : Valid cs)
    (hs : cx.subj = encStr cs) (i : Nat) (h : Tried cx i) : Boundary cs i :=
  tried_boundary cx hv hs h

/-- **offsets_on_boundaries**: for a pattern and a subject that are valid UTF-8, every offset
    `regexec` reports — start and end of the match, start and end of every group — is `-1` or a
    character boundary of the subject; for all compile and exec flags, depth limits and group
    counts. -/
theorem offsets_on_boundaries (ps cs : List Nat) (hvp : Valid ps) (hvs : Valid cs)
    (flg eflg nsub nd ngrps : Nat) (prog : Prog)
    (hc : regcomp (encStr ps) flg = some (some prog)) (m : Marks) (c : Nat)
    (offs : List (Int × Int))
    (h : regexec prog (encStr cs) nsub eflg nd ngrps = (ExecRes.found m c, offs)) :
    MarksB cs m ∧ ∀ so eo, (so, eo) ∈ offs → OffB cs so ∧ OffB cs eo := by
  unfold regexec at h
  dsimp only at h
  split at h
  · cases h
  · split at h
    · rename_i m' c' hex
      simp only [Prod.mk.injEq, ExecRes.found.injEq] at h
      obtain ⟨⟨hm, _⟩, ho⟩ := h
      subst hm; subst ho
      have hat : AtomB ⟨prog.code, encStr cs, prog.flg ||| eflg, nd, ngrps⟩ cs :=
        atomB_of_wf _ hvs rfl (regcomp_atoms_wf ps hvp flg prog hc)
      have hmb := execLoop_boundary _ hvs rfl hat _ _ _ _ _ (boundary_zero cs) hex
      refine ⟨hmb, ?_⟩
      intro so eo hmem
      simp only [List.mem_map, List.mem_range] at hmem
      obtain ⟨i, _, hi⟩ := hmem
      split at hi
      · cases hi; exact ⟨offB_getD hmb _, offB_getD hmb _⟩
      · cases hi; exact ⟨Or.inl rfl, Or.inl rfl⟩
    · rename_i hne
      simp only [Prod.mk.injEq] at h
      exact absurd h.1 (hne m c)

/-- With ICASE the subject alone has to be valid: the program may be anything. -/
theorem vm_boundaries_icase (cx : Ctx) (cs : List Nat) (hv : Valid cs) (hs : cx.subj = encStr cs)
    (hic : hasFlag cx.flg REG_ICASE = true)
    (dep pc pos : Nat) (m : Marks) (cuts p' : Nat) (m' : Marks) (c' : Nat)
    (hp : Boundary cs pos) (hm : MarksB cs m)
    (h : loop cx dep pc pos m cuts = Res.ok p' m' c') : Boundary cs p' ∧ MarksB cs m' :=
  loop_boundary cx (atomB_of_icase cx hv hs hic) dep pc pos m cuts p' m' c' hp hm h

/-! ## 4. concrete instances -/

/-- `é.` compiled -/
def progE : Prog :=
  ⟨[Inst.mark 0, Inst.atom ⟨AK.chr, [0xc3, 0xa9]⟩, Inst.atom ⟨AK.any, []⟩, Inst.mark 1, Inst.mtch], 5, 0⟩

example : (regcomp (encStr [0xe9, 46]) 0).map (·.map (fun p => (p.code, p.alloc, p.flg))) =
    some (some (progE.code, progE.alloc, progE.flg)) := by decide +kernel

/-- `é.` on `aéb`: the match is `(1, 4)` — after `a`, at the end — both boundaries; 2 is not -/
example : regexec progE (encStr [97, 0xe9, 98]) 1 0 100 2 =
    (ExecRes.found [1, 4, -1, -1] 0, [(1, 4)]) :=
  Lemmas.C10.regexecF_sound (fuel := 40) (by decide +kernel)
example : Boundary [97, 0xe9, 98] 1 ∧ Boundary [97, 0xe9, 98] 4 := by decide
example : ¬ Boundary [97, 0xe9, 98] 2 := by decide

/-- `.(é)` compiled -/
def progG : Prog :=
  ⟨[Inst.mark 0, Inst.atom ⟨AK.any, []⟩, Inst.mark 2, Inst.atom ⟨AK.chr, [0xc3, 0xa9]⟩, Inst.mark 3,
    Inst.mark 1, Inst.mtch], 7, 0⟩

example : (regcomp (encStr [46, 40, 0xe9, 41]) 0).map (·.map (fun p => (p.code, p.alloc, p.flg))) =
    some (some (progG.code, progG.alloc, progG.flg)) := by decide +kernel

/-- `.(é)` on the line `aéb\n`: match `(0, 3)`, group `(1, 3)` -/
example : regexec progG (encStr [97, 0xe9, 98, 10]) 2 0 100 4 =
    (ExecRes.found [0, 3, 1, 3, -1, -1, -1, -1] 0, [(0, 3), (1, 3)]) :=
  Lemmas.C10.regexecF_sound (fuel := 40) (by decide +kernel)
example : Boundary [97, 0xe9, 98, 10] 0 ∧ Boundary [97, 0xe9, 98, 10] 1 ∧
    Boundary [97, 0xe9, 98, 10] 3 := by decide

/-- `[à-ï]` with ICASE compiled: the bracket expression is stored whole -/
def progB : Prog := ⟨[Inst.mark 0, Inst.atom ⟨AK.brk, encStr [91, 0xe0, 45, 0xef, 93]⟩, Inst.mark 1,
  Inst.mtch], 4, REG_ICASE⟩

example : (regcomp (encStr [91, 0xe0, 45, 0xef, 93]) REG_ICASE).map
    (·.map (fun p => (p.code, p.alloc, p.flg))) =
    some (some (progB.code, progB.alloc, progB.flg)) := by decide +kernel

/-- `[à-ï]` on `€éb`: the first match is `é` at `(3, 5)` -/
example : regexec progB (encStr [0x20ac, 0xe9, 98]) 1 0 100 2 =
    (ExecRes.found [3, 5, -1, -1] 0, [(3, 5)]) :=
  Lemmas.C10.regexecF_sound (fuel := 40) (by decide +kernel)
example : Boundary [0x20ac, 0xe9, 98] 3 ∧ Boundary [0x20ac, 0xe9, 98] 5 := by decide

/-- the general theorem applied to the first run -/
example : MarksB [97, 0xe9, 98] [1, 4, -1, -1] :=
  (offsets_on_boundaries [0xe9, 46] [97, 0xe9, 98] (by decide) (by decide) 0 0 1 100 2 progE
    (by rfl) _ 0 [(1, 4)] (Lemmas.C10.regexecF_sound (fuel := 40) (by decide +kernel))).1

end Neatvi.Props.C11b
