import NeatviVerif.Lemmas.C08Regs
import NeatviVerif.Lemmas.C08Vi
import NeatviVerif.Lemmas.C08Round
import NeatviVerif.Lemmas.C08Motion
/-!
# C08: operators, regions, registers and puts

Part A: `reg_put` (`reg.c`).  Part B: `uc_sub` / `lbuf_region`.  Part C: `vi_yank`, `vi_delete`, `vc_put`.
-/
namespace Neatvi.Props.C08
open Neatvi Neatvi.Ex Neatvi.Uc Neatvi.Vi Neatvi.Lbuf Neatvi.Spec Neatvi.Lemmas.C08

/-! ## A. registers -/

/-- the name `"` designates the unnamed register -/
theorem put_quote_is_unnamed (r : Regs) (s : Bytes) (ln : Nat) : r.put 34 s ln = r.put 0 s ln := rfl

/-- every other name designates itself (`regTarget c = c`) -/
theorem regTarget_spec (c : Nat) : regTarget c = if c = 34 then 0 else c := by
  unfold regTarget; simp

/-- a register name that is not an upper-case letter receives exactly the text and the line mode,
    whatever the rotation did before (`regTarget c` is `c`, and `0` for `"`) -/
theorem put_stores (r : Regs) (c : Nat) (s : Bytes) (ln : Nat) (h : RegsWf r) (hc : c < 256)
    (hu : isUpperC c = false) :
    (r.put c s ln).getRaw (regTarget c) = (some s, ln) := by
  have hu' : isUpperC (regTarget c) = false := by rw [regTarget_upper]; exact hu
  rw [put_get r c (regTarget c) s ln h hc, lowerC_of_not_upper hu', if_pos rfl]
  simp [rawText, hu']

theorem put_stores_self (r : Regs) (c : Nat) (s : Bytes) (ln : Nat) (h : RegsWf r) (hc : c < 256)
    (hu : isUpperC c = false) (h34 : c ≠ 34) :
    (r.put c s ln).getRaw c = (some s, ln) := by
  have := put_stores r c s ln h hc hu
  rwa [regTarget_ne h34] at this

/-- an upper-case name appends to the lower-case register (and stores there when it was unset) -/
theorem put_upper_appends (r : Regs) (c : Nat) (s : Bytes) (ln : Nat) (h : RegsWf r)
    (h1 : 65 ≤ c) (h2 : c ≤ 90) :
    (r.put c s ln).getRaw (c + 32) = (some (((r.getRaw (c + 32)).1).getD [] ++ s), ln) := by
  have hu : isUpperC c = true := by unfold isUpperC; simp; omega
  rw [put_get r c (c + 32) s ln h (by omega), regTarget_ne (by omega), lowerC_of_upper hu, if_pos rfl]
  unfold rawText
  rw [hu, if_pos rfl, lowerC_of_upper hu, beforeFinal_get r c (c + 32) s ln h]
  have e1 : ¬ (c + 32 = 49) := by omega
  have e2 : ¬ (50 ≤ c + 32 ∧ c + 32 ≤ 57) := by omega
  simp only [e1, e2, if_false, ite_self]

theorem put_upper_appends_set (r : Regs) (c : Nat) (s old : Bytes) (ln l : Nat) (h : RegsWf r)
    (h1 : 65 ≤ c) (h2 : c ≤ 90) (hold : r.getRaw (c + 32) = (some old, l)) :
    (r.put c s ln).getRaw (c + 32) = (some (old ++ s), ln) := by
  rw [put_upper_appends r c s ln h h1 h2, hold]; rfl

theorem put_upper_appends_unset (r : Regs) (c : Nat) (s : Bytes) (ln l : Nat) (h : RegsWf r)
    (h1 : 65 ≤ c) (h2 : c ≤ 90) (hold : r.getRaw (c + 32) = (none, l)) :
    (r.put c s ln).getRaw (c + 32) = (some s, ln) := by
  rw [put_upper_appends r c s ln h h1 h2, hold]; rfl

/-- the rotation happens for a line-mode or multi-line text put into the unnamed or a letter register -/
theorem shifts_iff (c : Nat) (s : Bytes) (ln : Nat) :
    shifts c s ln = true ↔ (ln ≠ 0 ∨ 10 ∈ s) ∧ (c = 0 ∨ isAlphaC c = true) := by
  unfold shifts
  simp

/-- a rotating put (`shifts` on the resolved name): `"1` receives the text, `"2`..`"9` receive their
    predecessor when that was set (and keep their value when it was not) -/
theorem put_shifts_numbered (r : Regs) (c : Nat) (s : Bytes) (ln : Nat) (h : RegsWf r) (hc : c < 256)
    (hs : shifts (regTarget c) s ln = true) :
    (r.put c s ln).getRaw 49 = (some s, ln) ∧
    ∀ d, 50 ≤ d → d ≤ 57 → (r.put c s ln).getRaw d =
      match r.getRaw (d - 1) with
      | (some x, l) => (some x, l)
      | (none, _) => r.getRaw d := by
  have hl := shifts_lower_not_digit hs
  constructor
  · rw [put_get r c 49 s ln h hc, if_neg (by omega), beforeFinal_get r _ 49 s ln h, if_pos hs, if_pos rfl]
  · intro d hd1 hd2
    rw [put_get r c d s ln h hc, if_neg (by omega), beforeFinal_get r _ d s ln h, if_pos hs, if_neg (by omega),
      if_pos ⟨hd1, hd2⟩]
    rfl

/-- in particular a set `"i` moves to `"(i+1)` -/
theorem put_shifts_numbered_set (r : Regs) (c : Nat) (s x : Bytes) (ln l : Nat) (h : RegsWf r) (hc : c < 256)
    (hs : shifts (regTarget c) s ln = true) (i : Nat) (hi1 : 1 ≤ i) (hi2 : i ≤ 8)
    (hx : r.getRaw (48 + i) = (some x, l)) :
    (r.put c s ln).getRaw (48 + i + 1) = (some x, l) := by
  rw [(put_shifts_numbered r c s ln h hc hs).2 (48 + i + 1) (by omega) (by omega),
    show 48 + i + 1 - 1 = 48 + i by omega, hx]

/-- every register other than the target is unchanged, except the numbered ones under a rotation -/
theorem put_frame (r : Regs) (c d : Nat) (s : Bytes) (ln : Nat) (h : RegsWf r) (hc : c < 256)
    (hd : d ≠ lowerC (regTarget c)) (hn : shifts (regTarget c) s ln = false ∨ d < 49 ∨ 57 < d) :
    (r.put c s ln).getRaw d = r.getRaw d := by
  rw [put_get r c d s ln h hc, if_neg hd, beforeFinal_get r _ d s ln h]
  by_cases hs : shifts (regTarget c) s ln = true
  · rw [if_pos hs, if_neg (by rcases hn with hn | hn | hn <;> simp_all <;> omega),
      if_neg (by rcases hn with hn | hn | hn <;> simp_all <;> omega)]
  · rw [if_neg hs]

/-- without the rotation the numbered registers other than the target are unchanged -/
theorem put_no_shift_numbered (r : Regs) (c d : Nat) (s : Bytes) (ln : Nat) (h : RegsWf r) (hc : c < 256)
    (hs : shifts (regTarget c) s ln = false) (hd : d ≠ lowerC (regTarget c)) :
    (r.put c s ln).getRaw d = r.getRaw d :=
  put_frame r c d s ln h hc hd (Or.inl hs)

/-- the 256 slots stay -/
theorem put_wf (r : Regs) (c : Nat) (s : Bytes) (ln : Nat) (h : RegsWf r) : RegsWf (r.put c s ln) :=
  Lemmas.C08.put_wf r c s ln h

/-! ## B. regions -/

/-- `uc_sub(s, b, e)` for character offsets `0 ≤ b ≤ e ≤ uc_slen(s)`: both ends have byte offsets
    (`uc_chr`), ordered and inside the string, and the result is the byte slice between them -/
theorem subI_spec (ln : Bytes) (b e : Int) (hb : 0 ≤ b) (hbe : b ≤ e) (he : e ≤ ucSlen ln) :
    ∃ ib ie, ucChr ln b.toNat = some ib ∧ ucChr ln e.toNat = some ie ∧ ib ≤ ie ∧ ie ≤ ln.length ∧
      subI ln b e = some ((ln.drop ib).take (ie - ib)) := by
  obtain ⟨ib, h1⟩ := chr_some_of_le b.toNat ln (by omega)
  obtain ⟨ie, h2⟩ := chr_some_of_le e.toNat ln (by omega)
  have hle := chr_mono _ _ _ _ _ (show b.toNat ≤ e.toNat by omega) h1 h2
  exact ⟨ib, ie, h1, h2, hle, chr_le_length _ _ _ h2, subI_chr ln b e ib ie hb (by omega) h1 h2 hle⟩

/-- `uc_sub(s, b, -1)` is the tail from character `b` -/
theorem subI_tail_spec (ln : Bytes) (b : Int) (hb : 0 ≤ b) (he : b ≤ ucSlen ln) :
    ∃ ib, ucChr ln b.toNat = some ib ∧ ib ≤ ln.length ∧ subI ln b (-1) = some (ln.drop ib) := by
  obtain ⟨ib, h1⟩ := chr_some_of_le b.toNat ln (by omega)
  exact ⟨ib, h1, chr_le_length _ _ _ h1, subI_tail ln b ib hb h1⟩

/-- an end beyond the terminator: the C code compares pointers into different objects (modelled as `none`) -/
theorem subI_out_of_range (ln : Bytes) (b e : Int) (he : (ucSlen ln : Int) < e) : subI ln b e = none := by
  unfold subI
  rw [chrI_nonneg ln e (by omega)]
  cases hc : ucChr ln e.toNat with
  | none => cases chrI ln b <;> rfl
  | some i => have := chr_le_slen _ _ _ hc; omega

/-- the split law: head, region and tail give back the line -/
theorem subI_split (ln : Bytes) (b e : Int) (hb : 0 ≤ b) (hbe : b ≤ e) (he : e ≤ ucSlen ln) :
    ∃ x y z, subI ln 0 b = some x ∧ subI ln b e = some y ∧ subI ln e (-1) = some z ∧ x ++ y ++ z = ln := by
  obtain ⟨ib, ie, h1, h2, hle, hlen, hs⟩ := subI_spec ln b e hb hbe he
  refine ⟨ln.take ib, (ln.drop ib).take (ie - ib), ln.drop ie, subI_head ln b ib hb h1, hs,
    subI_tail ln e ie (by omega) h2, ?_⟩
  have : ln.drop ie = (ln.drop ib).drop (ie - ib) := by rw [List.drop_drop]; congr 1; omega
  rw [this, List.append_assoc, List.take_append_drop, List.take_append_drop]

/-- on valid UTF-8 the region is the encoding of the code points `b..e-1` -/
theorem subI_enc_spec {cs : List Nat} (h : ∀ c ∈ cs, ValidCp c) (b e : Nat) (hbe : b ≤ e) (he : e ≤ cs.length) :
    subI (encStr cs) 0 (b : Int) = some (encStr (cs.take b)) ∧
    subI (encStr cs) (b : Int) (e : Int) = some (encStr ((cs.take e).drop b)) ∧
    subI (encStr cs) (e : Int) (-1) = some (encStr (cs.drop e)) :=
  ⟨subI_enc_head h b (by omega), subI_enc h b e hbe he, subI_enc_tail h e he⟩

/-- `lbuf_region` on one row -/
theorem lbufRegion_single (s : VS) (r o1 o2 : Int) : lbufRegion s r o1 r o2 = subI (lineE s r) o1 o2 :=
  Lemmas.C08.lbufRegion_single s r o1 o2

/-- `lbuf_region` across rows: the tail of the first line, the lines between, the head of the last line -/
theorem lbufRegion_multi (s : VS) (r1 o1 r2 o2 : Int) (hne : r1 ≠ r2) (t hd : Bytes)
    (h1 : subI (lineE s r1) o1 (-1) = some t) (h2 : subI (lineE s r2) 0 o2 = some hd) :
    lbufRegion s r1 o1 r2 o2 =
      some (t ++ (((lines s).drop (r1 + 1).toNat).take (r2.toNat - (r1 + 1).toNat)).flatten ++ hd) :=
  Lemmas.C08.lbufRegion_multi s r1 o1 r2 o2 hne t hd h1 h2

/-- the line-mode region `(r1, 0) .. (r2, -1)` is the whole lines `r1..r2` -/
theorem lbufRegion_lines (s : VS) (r1 r2 : Int) (h0 : 0 ≤ r1) (h12 : r1 ≤ r2) (h2 : r2 < lenOf s) :
    lbufRegion s r1 0 r2 (-1) = some (((lines s).drop r1.toNat).take (r2.toNat - r1.toNat + 1)).flatten :=
  Lemmas.C08.lbufRegion_lines s r1 r2 h0 h12 h2

/-! ## C. operators -/

/-- `vi_yank`: the text is unchanged, the register named by the prefix receives the region through
    `reg_put` with the line-mode flag, the cursor goes to the start of the region (the column is kept
    in line mode); nothing else changes -/
theorem viYank_spec (r1 o1 r2 o2 : Int) (lnmode : Bool) (s s' : VS) (a : Nat)
    (h : viYank r1 o1 r2 o2 lnmode s = Res.ok a s') :
    ∃ region, lbufRegion s r1 (if lnmode then 0 else o1) r2 (if lnmode then -1 else o2) = some region ∧
      lines s' = lines s ∧
      s'.ed.regs = s.ed.regs.put s.ybuf region (if lnmode then 1 else 0) ∧
      s'.ed.xrow = r1 ∧ s'.ed.xoff = (if lnmode then s.ed.xoff else o1) ∧ a = VC_COL ∧
      s' = { s with ed := { s.ed with regs := s'.ed.regs, xrow := s'.ed.xrow, xoff := s'.ed.xoff } } := by
  obtain ⟨region, hreg, rfl, rfl⟩ := viYank_eq r1 o1 r2 o2 lnmode s s' a h
  exact ⟨region, hreg, rfl, rfl, rfl, rfl, rfl, rfl⟩

/-- charwise `vi_delete` on a valid region: the rows `r1..r2` are replaced by the characters before
    `o1` of row `r1` followed by the characters from `o2` of row `r2`; the register receives the region;
    the cursor is `(r1, o1)` -/
theorem viDelete_char_spec (r1 o1 r2 o2 : Int) (s s' : VS) (a : Nat)
    (h : viDelete r1 o1 r2 o2 false s = Res.ok a s') (h0 : 0 ≤ r1) (h12 : r1 ≤ r2) (h2 : r2 < lenOf s) :
    ∃ region pref post, lbufRegion s r1 o1 r2 o2 = some region ∧
      subI (lineE s r1) 0 o1 = some pref ∧ subI (lineE s r2) o2 (-1) = some post ∧
      lines s' = (lines s).take r1.toNat ++ splitLines (pref ++ post) ++ (lines s).drop (r2.toNat + 1) ∧
      s'.ed.regs = s.ed.regs.put s.ybuf region 0 ∧ s'.ed.xrow = r1 ∧ s'.ed.xoff = o1 ∧ a = VC_OK ∧
      s'.ybuf = s.ybuf ∧ s'.arg1 = s.arg1 := by
  obtain ⟨region, pref, post, ed', hreg, hp, hq, he, rfl, rfl⟩ := viDelete_char_eq r1 o1 r2 o2 s s' a h
  refine ⟨region, pref, post, hreg, hp, hq, ?_, (edit_regs he).1, rfl, rfl, rfl, rfl, rfl⟩
  have hlen : ({ s.ed with regs := s.ed.regs.put s.ybuf region 0 } : Ed).len = lenOf s := by rw [lenOf_eq]; rfl
  have hf := (Lemmas.C06.ed_edit_frame _ ed' _ r1 (r2 + 1) h0 (by omega) (by rw [hlen]; omega) he).1
  rw [show (r2 + 1).toNat = r2.toNat + 1 by omega] at hf
  exact hf

/-- the joined line is one well-formed line when both cuts lie before the newlines -/
theorem wf_join (l1 l2 : Bytes) (ib ie : Nat) (h1 : Props.C01.WfLine l1) (h2 : Props.C01.WfLine l2)
    (hib : ib < l1.length) (hie : ie < l2.length) : Props.C01.WfLine (l1.take ib ++ l2.drop ie) := by
  obtain ⟨w1, rfl, hw1⟩ := h1
  obtain ⟨w2, rfl, hw2⟩ := h2
  simp only [List.length_append, List.length_singleton] at hib hie
  refine ⟨w1.take ib ++ w2.drop ie, ?_, ?_⟩
  · rw [List.take_append_of_le_length (by omega), List.drop_append_of_le_length (by omega), List.append_assoc]
  · intro hm
    rcases List.mem_append.mp hm with hm | hm
    · exact hw1 (List.mem_of_mem_take hm)
    · exact hw2 (List.mem_of_mem_drop hm)

/-- … and then exactly one line replaces the rows `r1..r2` -/
theorem viDelete_char_spec_wf (r1 o1 r2 o2 : Int) (s s' : VS) (a : Nat)
    (h : viDelete r1 o1 r2 o2 false s = Res.ok a s') (h0 : 0 ≤ r1) (h12 : r1 ≤ r2) (h2 : r2 < lenOf s)
    (hw : ∀ pref post, subI (lineE s r1) 0 o1 = some pref → subI (lineE s r2) o2 (-1) = some post →
      Props.C01.WfLine (pref ++ post)) :
    ∃ pref post, subI (lineE s r1) 0 o1 = some pref ∧ subI (lineE s r2) o2 (-1) = some post ∧
      lines s' = (lines s).take r1.toNat ++ [pref ++ post] ++ (lines s).drop (r2.toNat + 1) := by
  obtain ⟨region, pref, post, _, hp, hq, hl, _⟩ := viDelete_char_spec r1 o1 r2 o2 s s' a h h0 h12 h2
  refine ⟨pref, post, hp, hq, ?_⟩
  rw [hl, splitLines_wf _ (hw pref post hp hq)]

/-- linewise `vi_delete`: the rows `r1..r2` disappear, the register receives the whole lines in line
    mode, the cursor goes to the first non-blank of the row now at `r1` (the last row when the tail of
    the buffer was deleted) -/
theorem viDelete_line_spec (r1 o1 r2 o2 : Int) (s s' : VS) (a : Nat)
    (h : viDelete r1 o1 r2 o2 true s = Res.ok a s') (h0 : 0 ≤ r1) (h12 : r1 ≤ r2) (h2 : r2 < lenOf s) :
    lines s' = (lines s).take r1.toNat ++ (lines s).drop (r2.toNat + 1) ∧
    s'.ed.regs = s.ed.regs.put s.ybuf (((lines s).drop r1.toNat).take (r2.toNat - r1.toNat + 1)).flatten 1 ∧
    s'.ed.xrow = min r1 (max 0 (lenOf s' - 1)) ∧ s'.ed.xoff = Mot.indents (lines s') s'.ed.xrow ∧ a = VC_OK ∧
    s'.ybuf = s.ybuf ∧ s'.arg1 = s.arg1 := by
  obtain ⟨region, ed', hreg, he, rfl, rfl⟩ := viDelete_line_eq r1 o1 r2 o2 s s' a h
  rw [Lemmas.C08.lbufRegion_lines s r1 r2 h0 h12 h2] at hreg
  cases hreg
  refine ⟨?_, (edit_regs he).1, rfl, rfl, rfl, rfl, rfl⟩
  have hlen : ∀ r : Regs, ({ s.ed with regs := r } : Ed).len = lenOf s := fun r => by rw [lenOf_eq]; rfl
  have hf := (Lemmas.C06.ed_edit_frame _ ed' _ r1 (r2 + 1) h0 (by omega) (by rw [hlen]; omega) he).1
  rw [show (r2 + 1).toNat = r2.toNat + 1 by omega] at hf
  rw [show Lemmas.Hist.optLines none = [] from rfl, List.append_nil] at hf
  exact hf

/-- charwise `vi_case` (`~`, `gu`, `gU`, `g~`): the region is replaced by its case-mapped bytes, the
    text around it and the registers are untouched, the cursor goes to the end of the region -/
theorem viCase_char_spec (r1 o1 r2 o2 : Int) (cmd : Nat) (s s' : VS) (a : Nat)
    (h : viCase r1 o1 r2 o2 false cmd s = Res.ok a s') (h0 : 0 ≤ r1) (h12 : r1 ≤ r2) (h2 : r2 < lenOf s) :
    ∃ region pref post, lbufRegion s r1 o1 r2 o2 = some region ∧
      subI (lineE s r1) 0 o1 = some pref ∧ subI (lineE s r2) o2 (-1) = some post ∧
      lines s' = (lines s).take r1.toNat ++
        splitLines (pref ++ caseMap cmd (region.length + 1) region ++ post) ++ (lines s).drop (r2.toNat + 1) ∧
      s'.ed.regs = s.ed.regs ∧ s'.ed.xrow = r2 ∧ s'.ed.xoff = o2 ∧ a = VC_OK := by
  obtain ⟨region, pref, post, ed', hreg, hp, hq, he, rfl, rfl⟩ := viCase_char_eq r1 o1 r2 o2 cmd s s' a h
  refine ⟨region, pref, post, hreg, hp, hq, ?_, (edit_regs he).1, rfl, rfl, rfl⟩
  have hf := (Lemmas.C06.ed_edit_frame _ ed' _ r1 (r2 + 1) h0 (by omega) (by rw [← lenOf_eq]; omega) he).1
  rw [show (r2 + 1).toNat = r2.toNat + 1 by omega] at hf
  exact hf

/-- what a later `reg_get` of the operator's register returns: the region and its mode
    (plain register names: not upper-case, not the computed `;`, `#`, `^`) -/
theorem yank_readback (ed : Ed) (r : Regs) (c : Nat) (t : Bytes) (l : Nat) (hr : ed.regs = r.put c t l)
    (h : RegsWf r) (hc : c < 256) (hu : isUpperC c = false)
    (h59 : c ≠ 59) (h35 : c ≠ 35) (h94 : c ≠ 94) :
    regGetLn ed c = (some t, some l) :=
  regGetLn_of_put ed r c t l hr h hc hu h59 h35 h94

/-- linewise `P`: `max 1 arg1` copies of the register are inserted as lines before the current row,
    the cursor stays on that row at its first non-blank -/
theorem vcPut_line_P_spec (s s' : VS) (a : Nat) (buf : Bytes) (lnm : Nat)
    (hreg : regGetLn s.ed s.ybuf = (some buf, some lnm)) (hne : buf ≠ []) (hl : lnm ≠ 0) (hlen : lenOf s ≠ 0)
    (h0 : 0 ≤ s.ed.xrow) (h1 : s.ed.xrow ≤ lenOf s)
    (h : vcPut 80 s = Res.ok a s') :
    lines s' = (lines s).take s.ed.xrow.toNat ++ splitLines (putRep s buf) ++ (lines s).drop s.ed.xrow.toNat ∧
    s'.ed.xrow = s.ed.xrow ∧ s'.ed.xoff = Mot.indents (lines s') s.ed.xrow ∧ s'.ed.regs = s.ed.regs ∧ a = VC_OK := by
  obtain ⟨ed', he, rfl, rfl⟩ := vcPut_line_P_eq s s' a buf lnm hreg hne hl hlen h
  have hf := (Lemmas.C06.ed_edit_frame _ ed' _ _ _ h0 (Int.le_refl _) (by rw [← lenOf_eq]; exact h1) he).1
  have hx := (edit_regs he).2.1
  refine ⟨hf, hx, ?_, (edit_regs he).1, rfl⟩
  show Mot.indents (Lemmas.C06.lines ed') ed'.xrow = Mot.indents (Lemmas.C06.lines ed') s.ed.xrow
  rw [hx]

/-- linewise `p`: the copies are inserted after the current row and the cursor moves to the first of them -/
theorem vcPut_line_p_spec (s s' : VS) (a : Nat) (buf : Bytes) (lnm : Nat)
    (hreg : regGetLn s.ed s.ybuf = (some buf, some lnm)) (hne : buf ≠ []) (hl : lnm ≠ 0) (hlen : lenOf s ≠ 0)
    (h0 : 0 ≤ s.ed.xrow) (h1 : s.ed.xrow < lenOf s)
    (h : vcPut 112 s = Res.ok a s') :
    lines s' = (lines s).take (s.ed.xrow.toNat + 1) ++ splitLines (putRep s buf) ++ (lines s).drop (s.ed.xrow.toNat + 1) ∧
    s'.ed.xrow = s.ed.xrow + 1 ∧ s'.ed.xoff = Mot.indents (lines s') (s.ed.xrow + 1) ∧ s'.ed.regs = s.ed.regs ∧
    a = VC_OK := by
  obtain ⟨ed', he, rfl, rfl⟩ := vcPut_line_p_eq s s' a buf lnm hreg hne hl hlen h
  have hlen' : ({ s.ed with xrow := s.ed.xrow + 1 } : Ed).len = lenOf s := by rw [lenOf_eq]; rfl
  have hf := (Lemmas.C06.ed_edit_frame _ ed' _ _ _ (by omega) (Int.le_refl _) (by rw [hlen']; omega) he).1
  rw [show (s.ed.xrow + 1).toNat = s.ed.xrow.toNat + 1 by omega] at hf
  have hx := (edit_regs he).2.1
  refine ⟨hf, hx, ?_, (edit_regs he).1, rfl⟩
  show Mot.indents (Lemmas.C06.lines ed') ed'.xrow = Mot.indents (Lemmas.C06.lines ed') (s.ed.xrow + 1)
  rw [hx]

/-- charwise put on an existing row: the copies go into the current line at character offset
    `putOff` (the cursor for `P`, one past it for `p`), the cursor ends on the last inserted character -/
theorem vcPut_char_spec (cmd : Nat) (s s' : VS) (a : Nat) (buf : Bytes)
    (hreg : regGetLn s.ed s.ybuf = (some buf, some 0)) (hne : buf ≠ [])
    (h0 : 0 ≤ s.ed.xrow) (h1 : s.ed.xrow < lenOf s)
    (h : vcPut cmd s = Res.ok a s') :
    ∃ x y, subI (lineE s s.ed.xrow) 0 (putOff cmd s) = some x ∧ subI (lineE s s.ed.xrow) (putOff cmd s) (-1) = some y ∧
      lines s' = (lines s).take s.ed.xrow.toNat ++ splitLines (x ++ putRep s buf ++ y) ++ (lines s).drop (s.ed.xrow.toNat + 1) ∧
      s'.ed.xrow = s.ed.xrow ∧
      s'.ed.xoff = putOff cmd s + (ucSlen buf : Int) * ((max 1 s.arg1).toNat : Int) - 1 ∧
      s'.ed.regs = s.ed.regs ∧ a = VC_OK := by
  obtain ⟨x, y, ed', hx, hy, he, rfl, rfl⟩ := vcPut_char_eq cmd s s' a buf hreg hne h
  have hL : putLine s = lineE s s.ed.xrow := by unfold putLine; rw [if_pos h1]
  rw [hL] at hx hy
  have hf := (Lemmas.C06.ed_edit_frame _ ed' _ _ _ h0 (by omega) (by rw [← lenOf_eq]; omega) he).1
  rw [show (s.ed.xrow + 1).toNat = s.ed.xrow.toNat + 1 by omega] at hf
  exact ⟨x, y, hx, hy, hf, (edit_regs he).2.1, rfl, (edit_regs he).1, rfl⟩

/-! ## the text deleted is exactly what a later put inserts -/

/-- linewise: `d` over the rows `r1..r2` into the unnamed register, then `P` on the resulting state,
    restores the text.  Side conditions: the register file has its 256 slots, no count, every line of
    the buffer is well formed (ends in its only newline), and a line follows the deleted rows (so
    the cursor stays on row `r1`; the other case is `delete_put_roundtrip_line_tail`). -/
theorem delete_put_roundtrip_line (s s1 s2 : VS) (a b : Nat) (r1 o1 r2 o2 : Int)
    (hwf : RegsWf s.ed.regs) (hy : s.ybuf = 0) (ha : s.arg1 ≤ 1)
    (h0 : 0 ≤ r1) (h12 : r1 ≤ r2) (h2 : r2 + 1 < lenOf s)
    (hlines : ∀ l ∈ lines s, Props.C01.WfLine l)
    (hd : viDelete r1 o1 r2 o2 true s = Res.ok a s1)
    (hp : vcPut 80 s1 = Res.ok b s2) :
    lines s2 = lines s ∧ s2.ed.xrow = r1 := by
  obtain ⟨hl1, hregs1, hx1, _, _, hy1, ha1⟩ := viDelete_line_spec r1 o1 r2 o2 s s1 a hd h0 h12 (by omega)
  have hL : lenOf s = ((lines s).length : Int) := rfl
  generalize hmid : ((lines s).drop r1.toNat).take (r2.toNat - r1.toNat + 1) = mid at hregs1
  have hmid_wf : ∀ l ∈ mid, Props.C01.WfLine l := by
    intro l hl; rw [← hmid] at hl
    exact hlines l (List.mem_of_mem_drop (List.mem_of_mem_take hl))
  have hmid_ne : mid ≠ [] := by
    intro he
    have := congrArg List.length he
    rw [← hmid] at this
    simp at this
    omega
  have hne := flatten_ne_nil_of_wf mid hmid_ne hmid_wf
  have hrd : regGetLn s1.ed s1.ybuf = (some mid.flatten, some 1) := by
    rw [hy1, hy]
    exact yank_readback s1.ed s.ed.regs 0 _ 1 (by rw [hregs1, hy]) hwf (by omega) (by decide)
      (by decide) (by decide) (by decide)
  have hL1 : lenOf s1 = ((lines s1).length : Int) := rfl
  have hlen1 : ((lines s1).length : Int) = r1 + (lenOf s - (r2 + 1)) := by
    rw [hl1, hL]
    simp only [List.length_append, List.length_take, List.length_drop]
    omega
  have hrow : s1.ed.xrow = r1 := by rw [hx1, hL1, hlen1]; omega
  obtain ⟨hl2, hx2, _⟩ := vcPut_line_P_spec s1 s2 b mid.flatten 1 hrd hne (by decide)
    (by rw [hL1, hlen1]; omega) (by rw [hrow]; exact h0) (by rw [hrow, hL1, hlen1]; omega) hp
  refine ⟨?_, by rw [hx2, hrow]⟩
  rw [hl2, putRep_one s1 _ (by rw [ha1]; exact ha), Props.C01.split_of_join mid hmid_wf, hrow, hl1, ← hmid]
  rw [show r2.toNat + 1 = r1.toNat + (r2.toNat - r1.toNat + 1) by omega]
  exact splice_restore (lines s) r1.toNat _ (by omega)

/-- linewise, the tail of the buffer: after `d` over the rows `r1..len-1` (with `0 < r1`) the cursor is
    on the new last row `r1 - 1`, and it is `p` that restores the text. -/
theorem delete_put_roundtrip_line_tail (s s1 s2 : VS) (a b : Nat) (r1 o1 r2 o2 : Int)
    (hwf : RegsWf s.ed.regs) (hy : s.ybuf = 0) (ha : s.arg1 ≤ 1)
    (h0 : 0 < r1) (h12 : r1 ≤ r2) (h2 : r2 + 1 = lenOf s)
    (hlines : ∀ l ∈ lines s, Props.C01.WfLine l)
    (hd : viDelete r1 o1 r2 o2 true s = Res.ok a s1)
    (hp : vcPut 112 s1 = Res.ok b s2) :
    lines s2 = lines s ∧ s2.ed.xrow = r1 := by
  obtain ⟨hl1, hregs1, hx1, _, _, hy1, ha1⟩ := viDelete_line_spec r1 o1 r2 o2 s s1 a hd (by omega) h12 (by omega)
  have hL : lenOf s = ((lines s).length : Int) := rfl
  generalize hmid : ((lines s).drop r1.toNat).take (r2.toNat - r1.toNat + 1) = mid at hregs1
  have hmid_wf : ∀ l ∈ mid, Props.C01.WfLine l := by
    intro l hl; rw [← hmid] at hl
    exact hlines l (List.mem_of_mem_drop (List.mem_of_mem_take hl))
  have hmid_ne : mid ≠ [] := by
    intro he
    have := congrArg List.length he
    rw [← hmid] at this
    simp at this
    omega
  have hne := flatten_ne_nil_of_wf mid hmid_ne hmid_wf
  have hrd : regGetLn s1.ed s1.ybuf = (some mid.flatten, some 1) := by
    rw [hy1, hy]
    exact yank_readback s1.ed s.ed.regs 0 _ 1 (by rw [hregs1, hy]) hwf (by omega) (by decide)
      (by decide) (by decide) (by decide)
  have hL1 : lenOf s1 = ((lines s1).length : Int) := rfl
  have hlen1 : ((lines s1).length : Int) = r1 := by
    rw [hl1]
    simp only [List.length_append, List.length_take, List.length_drop]
    omega
  have hrow : s1.ed.xrow = r1 - 1 := by rw [hx1, hL1, hlen1]; omega
  obtain ⟨hl2, hx2, _⟩ := vcPut_line_p_spec s1 s2 b mid.flatten 1 hrd hne (by decide)
    (by rw [hL1, hlen1]; omega) (by rw [hrow]; omega) (by rw [hrow, hL1, hlen1]; omega) hp
  refine ⟨?_, by rw [hx2, hrow]; omega⟩
  rw [hl2, putRep_one s1 _ (by rw [ha1]; exact ha), Props.C01.split_of_join mid hmid_wf, hrow, hl1, ← hmid]
  rw [show (r1 - 1).toNat + 1 = r1.toNat by omega]
  rw [show r2.toNat + 1 = r1.toNat + (r2.toNat - r1.toNat + 1) by omega]
  exact splice_restore (lines s) r1.toNat _ (by omega)

/-- charwise within one line of valid UTF-8: `d` over the characters `o1..o2-1` of row `r` into the
    unnamed register, then `P`, restores the text; the cursor ends on the last restored character.
    Side conditions: 256 register slots, no count, the line is the encoding of `body` followed by the
    newline, the region is non-empty and a character remains between it and the newline (otherwise
    `ren_noeol` pulls the cursor back by one and `P` inserts before the last character). -/
theorem delete_put_roundtrip_char (s s1 s2 : VS) (a b : Nat) (r : Int) (o1 o2 : Nat) (body : List Nat)
    (hwf : RegsWf s.ed.regs) (hy : s.ybuf = 0) (ha : s.arg1 ≤ 1)
    (h0 : 0 ≤ r) (h2 : r < lenOf s)
    (hline : (lines s)[r.toNat]? = some (encStr (body ++ [10])))
    (hvalid : ∀ c ∈ body, ValidCp c) (hnl : 10 ∉ body)
    (ho12 : o1 < o2) (ho2 : o2 < body.length)
    (hd : viDelete r o1 r o2 false s = Res.ok a s1)
    (hp : vcPut 80 s1 = Res.ok b s2) :
    lines s2 = lines s ∧ s2.ed.xrow = r ∧ s2.ed.xoff = (o2 : Int) - 1 := by
  have hvcs : ∀ c ∈ body ++ [10], ValidCp c := by
    intro c hc
    rcases List.mem_append.mp hc with hc | hc
    · exact hvalid c hc
    · simp at hc; subst hc; decide
  have hlineE : lineE s r = encStr (body ++ [10]) := lineE_eq s r h0 _ hline
  obtain ⟨region, pref, post, hreg, hpref, hpost, hl1, hregs1, hx1, hoff1, _, hy1, ha1⟩ :=
    viDelete_char_spec r o1 r o2 s s1 a hd h0 (Int.le_refl _) h2
  have hlenb : (body ++ [10]).length = body.length + 1 := by simp
  obtain ⟨e1, e2, e3⟩ := subI_enc_spec hvcs o1 o2 (by omega) (by omega)
  rw [lbufRegion_single, hlineE, e2] at hreg
  rw [hlineE, e1] at hpref
  rw [hlineE, e3] at hpost
  cases hreg; cases hpref; cases hpost
  -- the shortened line
  have t1 : (body ++ [10]).take o1 = body.take o1 := List.take_append_of_le_length (by omega)
  have t2 : (body ++ [10]).drop o2 = body.drop o2 ++ [10] := List.drop_append_of_le_length (by omega)
  have t3 : ((body ++ [10]).take o2).drop o1 = (body.take o2).drop o1 := by
    rw [List.take_append_of_le_length (by omega)]
  rw [t1, t2, ← encStr_append, ← List.append_assoc] at hl1
  rw [t3] at hregs1
  generalize hb' : body.take o1 ++ body.drop o2 = body' at hl1
  have hb'len : body'.length = o1 + (body.length - o2) := by
    rw [← hb']; simp; omega
  have hnl' : 10 ∉ body' := by
    rw [← hb']; intro hm
    rcases List.mem_append.mp hm with hm | hm
    · exact hnl (List.mem_of_mem_take hm)
    · exact hnl (List.mem_of_mem_drop hm)
  have hvalid' : ∀ c ∈ body' ++ [10], ValidCp c := by
    intro c hc
    rcases List.mem_append.mp hc with hc | hc
    · rw [← hb'] at hc
      rcases List.mem_append.mp hc with hc | hc
      · exact hvalid c (List.mem_of_mem_take hc)
      · exact hvalid c (List.mem_of_mem_drop hc)
    · simp at hc; subst hc; decide
  rw [splitLines_wf _ (wfLine_enc hnl')] at hl1
  -- the state before the put
  have hL : lenOf s = ((lines s).length : Int) := rfl
  have hrlt : r.toNat < (lines s).length := by omega
  have hL1 : lenOf s1 = lenOf s := by
    show ((lines s1).length : Int) = ((lines s).length : Int)
    rw [hl1]
    simp only [List.length_append, List.length_take, List.length_drop, List.length_singleton]
    omega
  have hline1 : (lines s1)[r.toNat]? = some (encStr (body' ++ [10])) := by
    rw [hl1, List.append_assoc, List.getElem?_append_right (by simp; omega)]
    simp only [List.length_take]
    rw [show r.toNat - min r.toNat (lines s).length = 0 by omega]
    rfl
  have hlineE1 : lineE s1 r = encStr (body' ++ [10]) := lineE_eq s1 r h0 _ hline1
  have hregion_ne : encStr ((body.take o2).drop o1) ≠ [] := by
    have : (body.take o2).drop o1 ≠ [] := by
      intro he; have := congrArg List.length he; simp at this; omega
    cases hc : (body.take o2).drop o1 with
    | nil => exact absurd hc this
    | cons c t =>
      rw [encStr_cons]
      intro he
      exact enc_ne_nil c (List.append_eq_nil_iff.mp he).1
  have hrd : regGetLn s1.ed s1.ybuf = (some (encStr ((body.take o2).drop o1)), some 0) := by
    rw [hy1, hy]
    exact yank_readback s1.ed s.ed.regs 0 _ 0 (by rw [hregs1, hy]) hwf (by omega) (by decide)
      (by decide) (by decide) (by decide)
  obtain ⟨x, y, hx, hy', hl2, hx2, hoff2, _⟩ := vcPut_char_spec 80 s1 s2 b _ hrd hregion_ne
    (by rw [hx1]; exact h0) (by rw [hx1, hL1]; omega) hp
  -- where the put inserts
  have hc0 : (body' ++ [10])[o1]? = some (body[o2]'ho2) := by
    rw [← hb', List.append_assoc, List.getElem?_append_right (by simp; omega)]
    simp only [List.length_take]
    rw [show o1 - min o1 body.length = 0 by omega]
    rw [List.getElem?_append_left (by simp; omega)]
    simp
  have hc10 : body[o2]'ho2 ≠ 10 := fun he => hnl (he ▸ List.getElem_mem ho2)
  have hoff : putOff 80 s1 = (o1 : Int) := by
    unfold putOff putLine
    rw [hx1, if_pos (by rw [hL1]; exact h2), hlineE1, hoff1, renNoeol_keep hvalid' o1 _ hc0 hc10]
    simp
  rw [hx1, hlineE1, hoff] at hx hy'
  rw [subI_enc_head hvalid' o1 (by simp; omega)] at hx
  rw [subI_enc_tail hvalid' o1 (by simp; omega)] at hy'
  cases hx; cases hy'
  have t4 : (body' ++ [10]).take o1 = body.take o1 := by
    rw [← hb', List.append_assoc, List.take_append_of_le_length (by simp; omega)]
    exact List.take_of_length_le (by simp; omega)
  have t5 : (body' ++ [10]).drop o1 = body.drop o2 ++ [10] := by
    rw [← hb', List.append_assoc, List.drop_append_of_le_length (by simp; omega)]
    rw [List.drop_of_length_le (l := body.take o1) (by simp; omega), List.nil_append]
  have hjoin : encStr ((body' ++ [10]).take o1) ++ putRep s1 (encStr ((body.take o2).drop o1)) ++
      encStr ((body' ++ [10]).drop o1) = encStr (body ++ [10]) := by
    rw [putRep_one s1 _ (by rw [ha1]; exact ha), t4, t5, ← encStr_append, ← encStr_append]
    congr 1
    have : body.take o1 = (body.take o2).take o1 := by rw [List.take_take, Nat.min_eq_left (by omega)]
    rw [this, List.take_append_drop, ← List.append_assoc, List.take_append_drop]
  rw [hjoin, hx1, splitLines_wf _ (wfLine_enc hnl), hl1] at hl2
  refine ⟨?_, by rw [hx2, hx1], ?_⟩
  · rw [hl2]
    exact splice_restore_one (lines s) r.toNat _ _ hline
  · rw [hoff2, hoff, Props.C16.slen_spec (fun c hc => hvalid c (List.mem_of_mem_take (List.mem_of_mem_drop hc)))]
    rw [show (max 1 s1.arg1).toNat = 1 by rw [ha1]; omega]
    simp only [List.length_drop, List.length_take]
    omega

/-- not proved: the charwise round trip across several rows (the register then holds newlines and the
    charwise `P` splits the line again) -/
def delete_put_roundtrip_char_full : Prop :=
  ∀ (s s1 s2 : VS) (a b : Nat) (r1 o1 r2 o2 : Int),
    RegsWf s.ed.regs → s.ybuf = 0 → s.arg1 ≤ 1 → 0 ≤ r1 → r1 < r2 → r2 < lenOf s →
    (∀ l ∈ lines s, ∃ body, l = encStr (body ++ [10]) ∧ (∀ c ∈ body, ValidCp c) ∧ 10 ∉ body) →
    0 ≤ o1 → o1 + 1 < ucSlen (lineE s r1) → 0 ≤ o2 → o2 + 1 < ucSlen (lineE s r2) →
    viDelete r1 o1 r2 o2 false s = Res.ok a s1 → vcPut 80 s1 = Res.ok b s2 →
    lines s2 = lines s

/-! ## the region `vc_motion` hands to the operators -/

/-- `vc_motion` is, literally, the model with its normalisation steps collected in `normRegion`
    (`vcMotion'` in `Lemmas/C08Motion.lean` is the same text with that one call) -/
theorem vcMotion_uses_normRegion (cmd : Nat) : vcMotion cmd = vcMotion' cmd := vcMotion_eq cmd

theorem slenAt_nonneg (ls : Mot.Lines) (r : Int) : 0 ≤ Mot.slenAt ls r := by
  unfold Mot.slenAt; split <;> omega

theorem eol_nonneg (ls : Mot.Lines) (r : Int) : 0 ≤ Mot.eol ls r := by
  have := slenAt_nonneg ls r
  unfold Mot.eol
  simp only []
  split
  · rename_i h; simp at h; omega
  · omega

/-- `ren_noeol` never moves the offset to the right -/
theorem noeol_le (s : VS) (r o : Int) : noeol s r o ≤ o := by
  unfold noeol
  split
  · simp only []
    split <;> omega
  · exact renNoeol_le _ _

/-- the normalised region is ordered: `r1 ≤ r2`, and `o1 ≤ o2` when it lies on one row
    (before the `+1` of the inclusive motions `f t e E %`, which only moves `o2`) -/
theorem vcMotion_normalises (s : VS) (lnmode : Bool) (r1 o1 r2 o2 : Int) :
    (normRegion s lnmode r1 o1 r2 o2).1 ≤ (normRegion s lnmode r1 o1 r2 o2).2.2.1 ∧
    ((normRegion s lnmode r1 o1 r2 o2).1 = (normRegion s lnmode r1 o1 r2 o2).2.2.1 →
      (normRegion s lnmode r1 o1 r2 o2).2.1 ≤ (normRegion s lnmode r1 o1 r2 o2).2.2.2) := by
  have he := eol_nonneg (lines s) r2
  unfold normRegion
  simp only []
  cases lnmode <;> simp only [Bool.false_eq_true, if_false, if_true]
  all_goals
    by_cases h1 : r1 > r2 <;> simp only [h1, if_true, if_false]
  all_goals
    refine ⟨by omega, fun heq => ?_⟩
    try omega
  all_goals
    have hr : r1 = r2 := by omega
    subst hr
    simp only [beq_self_eq_true, Bool.true_and, decide_eq_true_eq]
    split
    · exact Int.le_trans (noeol_le _ _ _) (by omega)
    · exact Int.le_trans (noeol_le _ _ _) (by omega)

/-- not proved: the order on one row also survives the adjustment of `o2` for the inclusive motions
    (`noeol s r2 o2 + 1`, which needs `ren_noeol` to be monotone in the offset) -/
def vcMotion_normalises_full : Prop :=
  ∀ (s : VS) (mv : Int) (lnmode : Bool) (r1 o1 r2 o2 : Int),
    let t := normRegion s lnmode r1 o1 r2 o2
    let o2' := if !lnmode && strHas "fteE%" mv && t.2.2.2 < Mot.eol (lines s) t.2.2.1 then noeol s t.2.2.1 t.2.2.2 + 1 else t.2.2.2
    t.1 = t.2.2.1 → t.2.1 ≤ o2'

/-! ## a yank is what a later put inserts -/

/-- linewise: `y` over the rows `r1..r2` into a plain register `c` (not upper-case, not `;` `#` `^`),
    then `"cp`: the yanked lines appear once more below row `r1`, the cursor on the first of them -/
theorem yank_put_line (s s1 s2 : VS) (a b : Nat) (r1 o1 r2 o2 : Int)
    (hwf : RegsWf s.ed.regs) (hc : s.ybuf < 256) (hu : isUpperC s.ybuf = false)
    (h59 : s.ybuf ≠ 59) (h35 : s.ybuf ≠ 35) (h94 : s.ybuf ≠ 94) (ha : s.arg1 ≤ 1)
    (h0 : 0 ≤ r1) (h12 : r1 ≤ r2) (h2 : r2 < lenOf s)
    (hlines : ∀ l ∈ lines s, Props.C01.WfLine l)
    (hyk : viYank r1 o1 r2 o2 true s = Res.ok a s1)
    (hp : vcPut 112 s1 = Res.ok b s2) :
    lines s2 = (lines s).take (r1.toNat + 1) ++ ((lines s).drop r1.toNat).take (r2.toNat - r1.toNat + 1) ++
      (lines s).drop (r1.toNat + 1) ∧
    s2.ed.xrow = r1 + 1 := by
  obtain ⟨region, hreg, hs1, _⟩ := viYank_eq r1 o1 r2 o2 true s s1 a hyk
  simp only [if_true] at hreg hs1
  rw [Lemmas.C08.lbufRegion_lines s r1 r2 h0 h12 h2] at hreg
  cases hreg
  generalize hmid : ((lines s).drop r1.toNat).take (r2.toNat - r1.toNat + 1) = mid at hs1 ⊢
  have hy1 : s1.ybuf = s.ybuf := by rw [hs1]
  have ha1 : s1.arg1 = s.arg1 := by rw [hs1]
  have hl1 : lines s1 = lines s := by rw [hs1]; rfl
  have hx1 : s1.ed.xrow = r1 := by rw [hs1]
  have hregs1 : s1.ed.regs = s.ed.regs.put s.ybuf mid.flatten 1 := by rw [hs1]
  have hL1 : lenOf s1 = lenOf s := by unfold lenOf; rw [hl1]
  have hL : lenOf s = ((lines s).length : Int) := rfl
  have hmid_wf : ∀ l ∈ mid, Props.C01.WfLine l := by
    intro l hl; rw [← hmid] at hl
    exact hlines l (List.mem_of_mem_drop (List.mem_of_mem_take hl))
  have hmid_ne : mid ≠ [] := by
    intro he
    have := congrArg List.length he
    rw [← hmid] at this
    simp at this
    omega
  have hne := flatten_ne_nil_of_wf mid hmid_ne hmid_wf
  have hrd : regGetLn s1.ed s1.ybuf = (some mid.flatten, some 1) := by
    rw [hy1]
    exact yank_readback s1.ed s.ed.regs s.ybuf _ 1 hregs1 hwf hc hu h59 h35 h94
  obtain ⟨hl2, hx2, _⟩ := vcPut_line_p_spec s1 s2 b mid.flatten 1 hrd hne (by decide)
    (by rw [hL1]; omega) (by rw [hx1]; exact h0) (by rw [hx1, hL1]; omega) hp
  refine ⟨?_, by rw [hx2, hx1]⟩
  rw [hl2, hx1, hl1, putRep_one _ _ (by rw [ha1]; exact ha), Props.C01.split_of_join mid hmid_wf]

/-! ## D. concrete instances -/

/-- the two lines `hello w`, `b` -/
def ed2 : Ed := { bufs := [some { path := [], lb := { lines := [[104, 101, 108, 108, 111, 32, 119, 10], [98, 10]] } }] }
def vs2 : VS := { ed := ed2 }

def linesAfter (r : Res Nat) : List Bytes := match r with | Res.ok _ s => lines s | _ => []
def stateAfter (r : Res Nat) : VS := match r with | Res.ok _ s => s | _ => vs2
def reg (s : VS) (c : Nat) : Option Bytes × Nat := s.ed.regs.getRaw c

-- `dw` at the start of row 0 deletes the characters 0..5 (`hello `) into the unnamed register …
example : linesAfter (viDelete 0 0 0 6 false vs2) = [[119, 10], [98, 10]] := by decide +kernel
example : reg (stateAfter (viDelete 0 0 0 6 false vs2)) 0 = (some [104, 101, 108, 108, 111, 32], 0) := by decide +kernel
-- … and `P` puts them back
example : linesAfter (vcPut 80 (stateAfter (viDelete 0 0 0 6 false vs2))) = lines vs2 := by decide +kernel

-- `"ayy` on row 0, then `"Ayy` on row 1: the second yank appends, the text is untouched
def y1 : VS := stateAfter (viYank 0 0 0 0 true { vs2 with ybuf := 97 })
def y2 : VS := stateAfter (viYank 1 0 1 0 true { y1 with ybuf := 65 })
example : reg y1 97 = (some [104, 101, 108, 108, 111, 32, 119, 10], 1) := by decide +kernel
example : reg y2 97 = (some [104, 101, 108, 108, 111, 32, 119, 10, 98, 10], 1) := by decide +kernel
example : lines y2 = lines vs2 := by decide +kernel

-- `dd` twice: the first deleted line moves from `"1` to `"2`
def d1 : VS := stateAfter (viDelete 0 0 0 0 true vs2)
def d2 : VS := stateAfter (viDelete 0 0 0 0 true d1)
example : reg d1 49 = (some [104, 101, 108, 108, 111, 32, 119, 10], 1) ∧ lines d1 = [[98, 10]] := by decide +kernel
example : reg d2 49 = (some [98, 10], 1) ∧ reg d2 50 = (some [104, 101, 108, 108, 111, 32, 119, 10], 1) ∧
    reg d2 0 = (some [98, 10], 1) ∧ lines d2 = [] := by decide +kernel
-- `dd` on row 0 then `P` restores the two lines
example : linesAfter (vcPut 80 d1) = lines vs2 := by decide +kernel
-- `""yy` stores into the unnamed register
example : reg (stateAfter (viYank 1 0 1 0 true { vs2 with ybuf := 34 })) 0 = (some [98, 10], 1) := by decide +kernel

end Neatvi.Props.C08
