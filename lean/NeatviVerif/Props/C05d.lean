import NeatviVerif.Lemmas.C05dMain
/-!
# C05d: the positions the ex layer keeps — current row, marks, parked rows — and `AddrFits` as an invariant

`C05b` proved that address evaluation cannot overflow `int` when `AddrFits ed` holds (current row and marks within
`±NUMMAX`, buffer length `≤ NUMMAX`) and that address evaluation itself keeps `AddrFits`.  Open was that the ex
commands keep it.  This file closes the gap — with a correction: the conjectured law "the current row is inside the
buffer" is FALSE, in the model and in the C code alike.

**What the ex layer really maintains** (`PosOk none ed`, an invariant of every command, no side condition):
* `-1 ≤ xrow` and `0 ≤ xoff`;
* in every buffer of the table (the current one included) every mark — `'a`–`'z`, `''`, `'*`, `'[`, `']`, `'^` — is
  unset (`-1`) or a row `0 … len` of that buffer, every stored line is well formed, and the marks saved in an undo
  record lie among the lines the record puts back (`LbPos`);
* the row and column parked in every slot of the buffer table by `bufs_save()` are `≥ -1` and `≥ 0`.

**What it does not maintain** (section 5, each with a concrete state and checked on `/repo/vi`):
* `xrow ≤ len`: `:u`, `:redo`, `:!cmd` (filter) and `:s` change the number of lines and leave `xrow` where it was;
  an address `N;` sets `xrow = N - 1` before the address is checked (`:9;p` on a three-line buffer fails and leaves
  `xrow = 8`);
* `0 ≤ xrow`: `:c` with no text on a buffer that becomes empty — and `:1c` with no text — set `xrow = -1`.
Address evaluation copes (`ex_region` clamps the row for an empty address, and a `.` out of range is rejected), so
this is not a memory error; but no bound on `xrow` follows from the length of the buffer *now*.

**The upper bound** therefore needs the length to have stayed small: `PosOk (some m) ed` adds `xrow ≤ m` and
`row ≤ m` for every parked row (`m ≥ NUMMAX`, the largest row an address can set).  It is kept by a handler call
when the buffer is at most `m` lines long afterwards (`runCmd_keeps_capped`), and by a command line, a round of the
`ex()` loop, a script when that holds of every state *visited* (`VCommand`, `VStep`, `VScript`: the states handler
calls return — at any depth: `:g`, `:@`, `:e +cmd` run command lines of their own —, the states at the start of
the rounds of `:g`, the state a `+cmd` starts from; for a script also the states before its lines); and then every
visited state has the invariant with the cap, too.  That the hypothesis cannot be weakened to the states between the
lines of the script is `cap_between_lines_is_false` (`:$r g|u`).  With `m = NUMMAX`: along every script during which
the current buffer never exceeds `NUMMAX` lines, `AddrFits` holds in every one of these states
(`script_addrFits_everywhere`), so no address evaluated there overflows (`script_addresses_fit`) — the size bound
is the one hypothesis the C code needs as well.

Byte strings are lists of character codes.
-/
namespace Neatvi.Props.C05d
open Neatvi Neatvi.Lbuf Neatvi.LbufIo Neatvi.Ex
open Neatvi.Lemmas.C05d
open Neatvi.Props.C02.Ex (exRun)
open Neatvi.Lemmas.C05b (AddrFits)

export Neatvi.Lemmas.C05d (MarkIn MarksIn EntPos LbPos RowOk LenLe BufPos TabPos PosOk VCommand VExec VCmds VRun VAt VEdit
  VGlob VScan VStep VScript initArg stepStart RowIn xrow_inside_full)

/-! ## 1. line buffers: the marks stay inside -/

/-- the invariant holds for a fresh buffer and is kept by every primitive of the lbuf API the ex layer uses, with
    any arguments: `lbuf_edit`, `lbuf_rd`, `lbuf_undo`, `lbuf_redo`, `lbuf_modified`, `lbuf_saved`, `lbuf_unsaved`,
    the glob marks, and `lbuf_mark` when the position given is `-1 … len` -/
theorem lb_marks_preserved :
    LbPos Lbuf.make ∧
    (∀ lb buf b e lb', LbPos lb → Lbuf.edit lb buf b e = some lb' → LbPos lb') ∧
    (∀ lb chunks fe b e rc lb', LbPos lb → rd lb chunks fe b e = some (rc, lb') → LbPos lb') ∧
    (∀ lb rc lb', LbPos lb → Lbuf.undo lb = some (rc, lb') → LbPos lb') ∧
    (∀ lb rc lb', LbPos lb → Lbuf.redo lb = some (rc, lb') → LbPos lb') ∧
    (∀ lb, LbPos lb → LbPos (modified lb).2) ∧
    (∀ lb c, LbPos lb → LbPos (savedCore lb c)) ∧
    (∀ lb, LbPos lb → LbPos (unsavedMark lb)) ∧
    (∀ lb c p o, LbPos lb → MarkIn lb.lines.length p → LbPos (setMark lb c p o)) ∧
    (∀ lb p k, LbPos lb → LbPos (globSet lb p k)) ∧
    (∀ lb p k, LbPos lb → LbPos (globGet lb p k).2) :=
  ⟨lbPos_make, fun _ buf b e _ h he => lbPos_edit h buf b e he, fun _ c fe b e rc _ h hr => lbPos_rd h c fe b e rc hr,
    fun _ _ _ h hu => lbPos_undo h hu, fun _ _ _ h hu => lbPos_redo h hu, fun _ h => lbPos_modified h,
    fun _ c h => lbPos_savedCore h c, fun _ h => lbPos_unsavedMark h, fun _ c p o h hp => lbPos_setMark h c p o hp,
    fun _ p k h => lbPos_globSet h p k, fun _ p k h => lbPos_globGet h p k⟩

/-- what `'x` in an address reads: a mark that is set is a row `0 … len` of the buffer (`len` itself when the tail
    of the buffer was deleted under it) -/
theorem mark_inside (lb : Lb) (c : Nat) (p o : Int) (h : LbPos lb) (hj : jump lb c = some (p, o)) :
    0 ≤ p ∧ p ≤ lb.lines.length := mark_inside' lb c p o h hj

/-- the current buffer of a state with the invariant -/
theorem current_marks_inside (M : Option Int) (ed : Ed) (lb : Lb) (c : Nat) (p o : Int) (h : PosOk M ed)
    (hl : ed.lb = some lb) (hj : jump lb c = some (p, o)) : 0 ≤ p ∧ p ≤ ed.len :=
  current_marks_inside' M ed lb c p o h hl hj

/-! ## 2. the editor: every command keeps the invariant -/

/-- the state `ex_init` starts from: an empty buffer table, row and column `0` -/
theorem posOk_initial (ed0 : Ed) (h0 : ed0.bufs = List.replicate Gen.NBUFS none) (hr : ed0.xrow = 0)
    (ho : ed0.xoff = 0) : PosOk none ed0 :=
  posOk_start ed0 _ (fun _ h => by cases h) h0 hr ho

/-- every `ec_*` handler keeps the invariant, for every fuel, whatever the arguments and the return code -/
theorem runCmd_keeps (f : Nat) (ed ed' : Ed) (hd : String) (loc cmd arg : Bytes) (txt : Option Bytes) (r : Int)
    (hi : PosOk none ed) (h : runCmd f ed hd loc cmd arg txt = some (r, ed')) : PosOk none ed' := runCmd_posOk hi h

/-- `ex_exec`: a command line `c1|c2|…` -/
theorem exExec_keeps (f : Nat) (ed ed' : Ed) (ln : Bytes) (r : Int) (hi : PosOk none ed)
    (h : exExec f ed ln = some (r, ed')) : PosOk none ed' := exExec_posOk hi h

/-- `ex_command` -/
theorem exCommand_keeps (f : Nat) (ed ed' : Ed) (ln : Bytes) (r : Int) (hi : PosOk none ed)
    (h : exCommand f ed ln = some (r, ed')) : PosOk none ed' := exCommand_posOk hi h

/-- `ec_edit`, also with a `+cmd` -/
theorem ecEdit_keeps (f : Nat) (ed ed' : Ed) (cmd arg : Bytes) (r : Int) (hi : PosOk none ed)
    (h : ecEdit f ed cmd arg = some (r, ed')) : PosOk none ed' := ecEdit_posOk hi h

/-- one round of the `ex()` loop -/
theorem exStep_keeps (ed ed' : Ed) (r : Int) (hi : PosOk none ed) (h : exStep ed = some (r, ed')) : PosOk none ed' :=
  exStep_posOk hi h

/-- `ex_init` -/
theorem exInit_keeps (ed ed' : Ed) (files : List Bytes) (r : Int) (hi : PosOk none ed)
    (h : exInit ed files = some (r, ed')) : PosOk none ed' := exInit_posOk hi h

/-- whole scripts -/
theorem exRun_keeps (n : Nat) (ed ed' : Ed) (hi : PosOk none ed) (h : exRun n ed = some ed') : PosOk none ed' :=
  exRun_posOk hi h

/-- **every state the editor reaches by `ex_init` and any number of command lines has the invariant**: the current
    row is at least `-1`, the column at least `0`, every mark of every buffer is unset or a row `0 … len` of its
    buffer, every parked row is at least `-1` -/
theorem editor_positions (ed0 : Ed) (files : List Bytes) (n : Nat) (rc : Int) (ed1 ed : Ed)
    (h0 : ed0.bufs = List.replicate Gen.NBUFS none) (hr : ed0.xrow = 0) (ho : ed0.xoff = 0)
    (hinit : exInit ed0 files = some (rc, ed1)) (hrun : exRun n ed1 = some ed) : PosOk none ed :=
  exRun_keeps n ed1 ed (exInit_keeps ed0 ed1 files rc (posOk_initial ed0 h0 hr ho) hinit) hrun

/-- the same, spelled out -/
theorem editor_positions_spelled (ed0 : Ed) (files : List Bytes) (n : Nat) (rc : Int) (ed1 ed : Ed)
    (h0 : ed0.bufs = List.replicate Gen.NBUFS none) (hr : ed0.xrow = 0) (ho : ed0.xoff = 0)
    (hinit : exInit ed0 files = some (rc, ed1)) (hrun : exRun n ed1 = some ed) :
    -1 ≤ ed.xrow ∧ 0 ≤ ed.xoff ∧
    ∀ i b, ed.bufs.getD i none = some b → -1 ≤ b.row ∧ 0 ≤ b.off ∧
      ∀ c p o, jump b.lb c = some (p, o) → 0 ≤ p ∧ p ≤ b.lb.lines.length :=
  positions_spelled ed (editor_positions ed0 files n rc ed1 ed h0 hr ho hinit hrun)

/-- **the commands that set the current row set it inside the buffer**: after a successful (return code 0) `:p` or
    empty command, `:d`, `:a` / `:i` / `:c`, `:pu`, `:r` the row is `-1 … len` (`RowIn`; `-1` after `:1c` with no text,
    `len` after `:$d`).  The commands of section 5 — `:u`, `:redo`, `:s`, `:!` — and failing commands leave it where it
    was or where an address `N;` put it -/
theorem setting_commands_row_inside (f : Nat) (ed ed' : Ed) (hd : String) (loc cmd arg : Bytes) (txt : Option Bytes)
    (hh : hd = "ec_insert" ∨ hd = "ec_print" ∨ hd = "ec_null" ∨ hd = "ec_delete" ∨ hd = "ec_put" ∨ hd = "ec_read")
    (hi : PosOk none ed) (h : runCmd (f + 1) ed hd loc cmd arg txt = some (0, ed')) :
    -1 ≤ ed'.xrow ∧ ed'.xrow ≤ ed'.len :=
  runCmd_row_in f ed ed' hd loc cmd arg txt hh hi h

/-! ## 3. the upper bound: rows under a cap while the buffer stays under it -/

/-- the invariant with the cap `m` is the invariant, `m ≥ NUMMAX`, and `xrow ≤ m`, `row ≤ m` for every parked row -/
theorem posOk_cap_iff (ed : Ed) (m : Int) :
    PosOk (some m) ed ↔ PosOk none ed ∧ NUMMAX ≤ m ∧ ed.xrow ≤ m ∧ ∀ b, some b ∈ ed.bufs → b.row ≤ m :=
  ⟨fun h => ⟨h.uncap, h.cap m rfl, h.cap_xrow, h.cap_rows⟩, fun ⟨h, a, b, c⟩ => posOk_cap h a b c⟩

/-- one handler call other than `:@`, `:g`, `:e`: the rows stay under the cap when the current buffer is at most `m`
    lines long after the call -/
theorem runCmd_keeps_capped (m : Int) (f : Nat) (ed ed' : Ed) (hd : String) (loc cmd arg : Bytes) (txt : Option Bytes)
    (r : Int) (h1 : hd ≠ "ec_at") (h2 : hd ≠ "ec_glob") (h3 : hd ≠ "ec_edit") (hi : PosOk (some m) ed)
    (h : runCmd f ed hd loc cmd arg txt = some (r, ed')) (hl : ed'.len ≤ m) : PosOk (some m) ed' :=
  (runCmd_pos' hi h (fun _ hk => by cases hk; exact hl) (fun _ hs => absurd hs (vrun_atomic h1 h2 h3))).1

/-- any handler call: the buffer has to be under the cap in every state the call visits, too; then the state it
    returns and every state it visits have the invariant with the cap -/
theorem runCmd_keeps_capped_visits (m : Int) (f : Nat) (ed ed' : Ed) (hd : String) (loc cmd arg : Bytes)
    (txt : Option Bytes) (r : Int) (hi : PosOk (some m) ed) (h : runCmd f ed hd loc cmd arg txt = some (r, ed'))
    (hl : ed'.len ≤ m) (hv : ∀ s, VRun f ed hd loc cmd arg txt s → s.len ≤ m) :
    PosOk (some m) ed' ∧ ∀ s, VRun f ed hd loc cmd arg txt s → PosOk (some m) s :=
  runCmd_pos' hi h (fun _ hk => by cases hk; exact hl) (fun s hs _ hk => by cases hk; exact hv s hs)

/-- `:e` needs no bound at all unless it runs a `+cmd`: it clamps the row it finds -/
theorem ecEdit_keeps_capped (m : Int) (f : Nat) (ed ed' : Ed) (cmd arg : Bytes) (r : Int) (hi : PosOk (some m) ed)
    (h : ecEdit f ed cmd arg = some (r, ed')) (hp : (arg.dropWhile (· == 32)).headD 0 ≠ 43) : PosOk (some m) ed' :=
  (ecEdit_pos' hi h (fun _ hs => absurd hs (vedit_noplus hp))).1

/-- a command line through `ex_command`: the final state and every visited state -/
theorem exCommand_keeps_capped (m : Int) (f : Nat) (ed ed' : Ed) (ln : Bytes) (r : Int) (hi : PosOk (some m) ed)
    (h : exCommand f ed ln = some (r, ed')) (hv : ∀ s, VCommand f ed ln s → s.len ≤ m) :
    PosOk (some m) ed' ∧ ∀ s, VCommand f ed ln s → PosOk (some m) s :=
  exCommand_pos' hi h (fun s hs _ hk => by cases hk; exact hv s hs)

/-- one round of the `ex()` loop -/
theorem exStep_keeps_capped (m : Int) (ed ed' : Ed) (r : Int) (hi : PosOk (some m) ed) (h : exStep ed = some (r, ed'))
    (hv : ∀ s, VStep ed s → s.len ≤ m) : PosOk (some m) ed' ∧ ∀ s, VStep ed s → PosOk (some m) s :=
  exStep_pos hi h (fun s hs _ hk => by cases hk; exact hv s hs)

/-- `ex_init` with a file name that does not start with `+` -/
theorem exInit_keeps_capped (m : Int) (ed ed' : Ed) (files : List Bytes) (r : Int) (hi : PosOk (some m) ed)
    (h : exInit ed files = some (r, ed')) (hp : ((initArg files).dropWhile (· == 32)).headD 0 ≠ 43) :
    PosOk (some m) ed' := exInit_pos_noplus hi h hp

/-- a script: `VScript n ed s` are the states before every line and the states the lines visit; all of them, and the
    final state, have the invariant with the cap -/
theorem exRun_keeps_capped (m : Int) (n : Nat) (ed ed' : Ed) (hi : PosOk (some m) ed) (h : exRun n ed = some ed')
    (hv : ∀ s, VScript n ed s → s.len ≤ m) : PosOk (some m) ed' ∧ ∀ s, VScript n ed s → PosOk (some m) s :=
  exRun_pos n ed ed' hi h (fun s hs _ hk => by cases hk; exact hv s hs)

/-- how the hypothesis on the visited states is discharged for an ordinary line: a line holding one command that is
    not `:@`, `:g`, `:e` (nothing is left of the line after it: `runOne … = some (_, [])`) visits exactly one state, the
    one that command returns -/
theorem plain_line_visits_one_state (ed ed1 s : Ed) (ln : Bytes) (rest0 : List Bytes) (r : Int)
    (hin : ed.input = ln :: rest0)
    (hone : Lemmas.C06b.runOne (FUEL - 2) (stepStart ed rest0) (Lemmas.C06b.parse1 ln) 0 = some ((r, ed1), []))
    (hat : ∀ a h, (Lemmas.C06b.parse1 ln).idx = some (a, h) → h ≠ "ec_at" ∧ h ≠ "ec_glob" ∧ h ≠ "ec_edit")
    (hv : VStep ed s) : s = ed1 := vstep_single hin hone hat hv

/-- the final state of a script is one of its visited states, and so is every state between two lines -/
theorem exRun_visits_result (n : Nat) (ed ed' : Ed) (h : exRun n ed = some ed') : VScript n ed ed' :=
  exRun_visits n ed ed' h

/-- a prefix of a script visits a part of what the script visits -/
theorem vscript_prefix (k n : Nat) (ed s : Ed) (hk : k ≤ n) (h : VScript k ed s) : VScript n ed s := vscript_mono h hk

/-! ## 4. `AddrFits` along scripts -/

/-- with the cap `NUMMAX` and the current buffer at most `NUMMAX` lines long, everything address evaluation reads
    from the state is inside the range of line numbers: `C05b.exLineno_no_overflow` and `C05b.exRegion_bounded`
    apply -/
theorem addrFits_of_invariant (ed : Ed) (h : PosOk (some NUMMAX) ed) (hl : ed.len ≤ NUMMAX) : AddrFits ed :=
  addrFits_of_posOk h hl

/-- **`AddrFits` along a script**: from the state `ex_init` leaves, along a script during which the current buffer
    never has more than `NUMMAX` lines — in the states before the lines and in the visited states — EVERY one of these
    states has `AddrFits`: the state before every line, the state every handler call returns (at any depth), the
    state at the start of every round of a `:g`, the state a `+cmd` starts from -/
theorem script_addrFits_everywhere (ed0 : Ed) (files : List Bytes) (n : Nat) (rc : Int) (ed1 ed : Ed)
    (h0 : ed0.bufs = List.replicate Gen.NBUFS none) (hr : ed0.xrow = 0) (ho : ed0.xoff = 0)
    (hp : ((initArg files).dropWhile (· == 32)).headD 0 ≠ 43)
    (hinit : exInit ed0 files = some (rc, ed1)) (hrun : exRun n ed1 = some ed)
    (hv : ∀ s, VScript n ed1 s → s.len ≤ NUMMAX) : ∀ s, VScript n ed1 s → AddrFits s :=
  script_everywhere ed0 files n rc ed1 ed h0 hr ho hp hinit hrun hv

/-- in particular the final state -/
theorem script_addrFits (ed0 : Ed) (files : List Bytes) (n : Nat) (rc : Int) (ed1 ed : Ed)
    (h0 : ed0.bufs = List.replicate Gen.NBUFS none) (hr : ed0.xrow = 0) (ho : ed0.xoff = 0)
    (hp : ((initArg files).dropWhile (· == 32)).headD 0 ≠ 43)
    (hinit : exInit ed0 files = some (rc, ed1)) (hrun : exRun n ed1 = some ed)
    (hv : ∀ s, VScript n ed1 s → s.len ≤ NUMMAX) : AddrFits ed :=
  script_addrFits_everywhere ed0 files n rc ed1 ed h0 hr ho hp hinit hrun hv ed (exRun_visits_result n ed1 ed hrun)

/-- and the state after every number `k ≤ n` of lines -/
theorem script_addrFits_along (ed0 : Ed) (files : List Bytes) (n : Nat) (rc : Int) (ed1 : Ed)
    (h0 : ed0.bufs = List.replicate Gen.NBUFS none) (hr : ed0.xrow = 0) (ho : ed0.xoff = 0)
    (hp : ((initArg files).dropWhile (· == 32)).headD 0 ≠ 43)
    (hinit : exInit ed0 files = some (rc, ed1))
    (hv : ∀ s, VScript n ed1 s → s.len ≤ NUMMAX) (k : Nat) (hk : k ≤ n) (edk : Ed) (hrun : exRun k ed1 = some edk) :
    AddrFits edk :=
  script_addrFits ed0 files k rc ed1 edk h0 hr ho hp hinit hrun (fun s hs => hv s (vscript_prefix k n ed1 s hk hs))

/-- hence no address evaluated in one of these states overflows: `ex_lineno` with the range of `long long`
    checked at every addition is `ex_lineno`, and `ex_region` delivers `beg`, `end` within `[-1, NUMMAX + 1]` -/
theorem script_addresses_fit (ed0 : Ed) (files : List Bytes) (n : Nat) (rc : Int) (ed1 ed : Ed)
    (h0 : ed0.bufs = List.replicate Gen.NBUFS none) (hr : ed0.xrow = 0) (ho : ed0.xoff = 0)
    (hp : ((initArg files).dropWhile (· == 32)).headD 0 ≠ 43)
    (hinit : exInit ed0 files = some (rc, ed1)) (hrun : exRun n ed1 = some ed)
    (hv : ∀ s, VScript n ed1 s → s.len ≤ NUMMAX) (s : Ed) (hs : VScript n ed1 s) :
    (∀ loc : Bytes, loc.length ≤ Gen.EXLEN → Lemmas.C05b.exLinenoChk s loc = exLineno s loc) ∧
    (∀ (loc : Bytes) (k : Nat) (b e : Int) (s' : Ed), exRegion s loc = some ((k, b, e), s') →
      AddrFits s' ∧ -1 ≤ b ∧ b ≤ NUMMAX ∧ -1 ≤ e ∧ e ≤ NUMMAX + 1) :=
  addresses_fit_of s (script_addrFits_everywhere ed0 files n rc ed1 ed h0 hr ho hp hinit hrun hv s hs)

/-- the states of section 3 are the states the loop of `ex_exec` is in between two commands; a handler is entered
    from such a state after `ex_txt` took the text lines of an `:a` / `:i` / `:c` from the input, which touches neither
    the table nor the row: `AddrFits` carries over to the state the handler (and its `ex_region`) starts in -/
theorem addrFits_at_handler_entry (s : Ed) (src abbr : Bytes) (h : AddrFits s) : AddrFits (exTxt s src abbr).2 :=
  addrFits_fr (fr_exTxt s src abbr) h

/-- and in a round of `:g` the handler starts with the row on the line of the round, a line of the buffer -/
theorem addrFits_at_glob_line (s : Ed) (i : Int) (h : AddrFits s) (h0 : 0 ≤ i) (h1 : i < s.len) :
    AddrFits { s with xrow := i } :=
  h.set_xrow i (by unfold NUMMAX; omega) (by have := h.len_hi; omega)

/-! ## 5. what is false: the current row is not kept inside the buffer -/

/-- the conjecture `xrow_inside_full`: a handler call takes a state with the row inside the buffer
    (`0 ≤ xrow ≤ max 0 (len - 1)`) to a state with the row inside.  It is false: `:u` after two lines were appended to a
    one-line buffer (row on the last of three lines) leaves one line and the row `2` — not even `xrow ≤ len` holds
    afterwards -/
theorem xrow_inside_is_false : ¬ xrow_inside_full := xrow_inside_refuted

/-- the weakest form, `xrow ≤ len`, is false as well, and no undo is needed: the address `9;` sets the row to `8`
    on a buffer of three lines before `:9;p` is rejected -/
theorem xrow_le_len_is_false :
    ¬ (∀ (f : Nat) (ed ed' : Ed) (loc cmd arg : Bytes) (txt : Option Bytes) (r : Int),
      PosOk none ed → 0 ≤ ed.xrow → ed.xrow < ed.len → runCmd f ed "ec_print" loc cmd arg txt = some (r, ed') →
      ed'.xrow ≤ ed'.len) := xrow_le_len_refuted

/-- `0 ≤ xrow` is not an invariant either: `:c` with no text on an empty buffer sets the row to `-1` (so does `:1c`
    with no text on any buffer); `-1 ≤ xrow` is the law (and `-1 … len` after the commands of
    `setting_commands_row_inside`) -/
theorem xrow_nonneg_is_false :
    ¬ (∀ (f : Nat) (ed ed' : Ed) (hd : String) (loc cmd arg : Bytes) (txt : Option Bytes) (r : Int),
      PosOk none ed → 0 ≤ ed.xrow → runCmd f ed hd loc cmd arg txt = some (r, ed') → 0 ≤ ed'.xrow) :=
  xrow_nonneg_refuted

/-- the cap on the length has to hold in the states *between* the commands of a line, not only before and after
    the line: `:$r g` then `:u` (as in `:$r g|u`) start and end with three lines and a row `≤ 3`, the five lines in
    between are what lets the row reach `4` -/
theorem cap_between_lines_is_false :
    ¬ (∀ (m : Int) (ed ed1 ed2 : Ed) (r1 r2 : Int), PosOk none ed → ed.xrow ≤ m → ed.len ≤ m →
      runCmd 1 ed "ec_read" [36] [114] [103] none = some (r1, ed1) →
      runCmd 1 ed1 "ec_undo" [] [117] [] none = some (r2, ed2) → ed2.len ≤ m → ed2.xrow ≤ m) :=
  cap_between_lines_refuted

/-! ## 6. non-vacuity

`wEd`: a buffer of three lines `a`, `b`, `c` built by `lbuf_edit`, a command boundary, `lbuf_edit`, a command boundary
(so the last two lines are one undo step), the row on the last line, a file `g` of two lines; `wEdIn`: `wEd` about to
read the line `$r g`; `wEd0`: an empty buffer; `wEdStart`: no buffer yet and a file `f` of three lines. -/

/-- the initial state -/
example : PosOk none ({} : Ed) := posOk_initial {} rfl rfl rfl

/-- the hypotheses of `runCmd_keeps`: the witness state has the invariant, and so has what `:u` makes of it (one
    line, row `2`) -/
example : PosOk none wEd ∧ wEd.len = 3 ∧ wEd.xrow = 2 := ⟨wEd_posOk, wEd_inside⟩
example : ∃ r ed', runCmd 1 wEd "ec_undo" [] [117] [] none = some (r, ed') ∧ PosOk none ed' ∧ ed'.xrow = 2 ∧ ed'.len = 1 :=
  ex_undo

/-- the hypotheses of `runCmd_keeps_capped` on a concrete call: `:$r g` on the witness state, cap `NUMMAX`; the state
    after it has `AddrFits` -/
example : ∃ r ed', runCmd 1 wEd "ec_read" [36] [114] [103] none = some (r, ed') ∧ PosOk (some NUMMAX) ed' ∧
    ed'.xrow = 4 ∧ ed'.len = 5 ∧ AddrFits ed' := ex_read_capped

/-- the hypotheses of `exStep_keeps_capped` and `exRun_keeps_capped` on a concrete round: the line `$r g` typed at the
    witness state is run (it succeeds) and visits one state, of five lines (`wEdIn_visits`); the state after it has the
    invariant with the cap `NUMMAX` and `AddrFits` -/
example : ∀ s, VStep wEdIn s → s.len = 5 := wEdIn_visits
example : ∃ r ed', exStep wEdIn = some (r, ed') ∧ ed'.len = 5 ∧ PosOk (some NUMMAX) ed' ∧ AddrFits ed' := ex_step_capped
example : ∃ ed', exRun 1 wEdIn = some ed' ∧ ed'.len = 5 ∧ PosOk none ed' := ex_run

/-- the hypotheses of `editor_positions` (and `exInit_keeps`): `ex_init` on a file of three lines -/
example : ∃ rc ed1, exInit wEdStart [[102]] = some (rc, ed1) ∧ ed1.len = 3 ∧ PosOk none ed1 := ex_init

/-- the hypothesis `hp` of `script_addrFits`: the file name `f` does not start with `+` -/
example : ((initArg [[102]]).dropWhile (· == 32)).headD 0 ≠ 43 := by decide

/-- `setting_commands_row_inside` on a concrete call: `:$r g` leaves the row (4) inside the five lines -/
example : ∃ ed', runCmd 1 wEd "ec_read" [36] [114] [103] none = some (0, ed') ∧ -1 ≤ ed'.xrow ∧ ed'.xrow ≤ ed'.len :=
  ex_read_row_in

end Neatvi.Props.C05d
